package c14

import (
	"fmt"
	"sync"
	"sync/atomic"
	"testing"
	"time"

	fpgo "github.com/TeaEntityLab/fpGo/v2"

	"verifharness/vlib"
)

// Part "doNotation-storm": "DoNotation returns the effect's result" and gives its effect the coroutine it
// runs as - for every schedule of the goroutine DoNotation starts. 8 goroutines make DoNotation calls back
// to back (600000 in the quick tier, 6 million in the thorough tier), each effect checks the handle it was
// given (not nil, started, not done) and requests one value from a shared endless generator through it;
// the result is the effect's return value.

func TestDoNotationStorm(t *testing.T) {
	if vlib.Replaying() {
		t.Skip()
	}
	total := vlib.Pick(600000, 6000000)
	const workers = 8
	var gen *fpgo.CorDef[int]
	stop := int32(0)
	gen = fpgo.CorNewGenerics[int](func() {
		for n := 1; atomic.LoadInt32(&stop) == 0; n++ {
			gen.YieldRef(n)
		}
	})
	gen.Start()
	var failMsg atomic.Value
	var calls int64
	var wg sync.WaitGroup
	for w := 0; w < workers; w++ {
		wg.Add(1)
		go func(w int) {
			defer wg.Done()
			var factory fpgo.CorDef[int]
			for i := 0; i < total/workers && failMsg.Load() == nil; i++ {
				want := w*10000000 + i
				p, st := vlib.Try(func() {
					got := factory.DoNotation(func(self *fpgo.CorDef[int]) int {
						switch {
						case self == nil:
							failMsg.Store("the effect of a DoNotation block was given a nil coroutine handle")
							return want
						case !self.IsStarted() || self.IsDone():
							failMsg.Store(fmt.Sprintf("inside the effect of a DoNotation block: IsStarted=%v IsDone=%v", self.IsStarted(), self.IsDone()))
							return want
						}
						if i%64 == 0 {
							if y := self.YieldFrom(gen, i); y <= 0 {
								failMsg.Store(fmt.Sprintf("YieldFrom(generator) inside a DoNotation block returned %d, the generator yields positive numbers", y))
							}
						}
						return want
					})
					if got != want {
						failMsg.Store(fmt.Sprintf("DoNotation returned %d, its effect returned %d", got, want))
					}
				})
				if p != nil {
					failMsg.Store(fmt.Sprintf("DoNotation panicked: %v\n%s", p, st))
				}
				atomic.AddInt64(&calls, 1)
			}
		}(w)
	}
	// hang guard: the calls only need each other's coroutine machinery; no progress for the stall budget with
	// every worker blocked means that machinery has wedged
	{
		finished := make(chan struct{})
		go func() { wg.Wait(); close(finished) }()
		last, lastChange := int64(-1), time.Now()
	wait:
		for {
			select {
			case <-finished:
				break wait
			case <-time.After(50 * time.Millisecond):
			}
			if n := atomic.LoadInt64(&calls); n != last {
				last, lastChange = n, time.Now()
			} else if time.Since(lastChange) > vlib.StallBudget() {
				if verdict, dump := vlib.ClassifyStall([]string{"c14.TestDoNotationStorm"}); verdict == "blocked" {
					vlib.Fail(t, "C14/deadlock", "after %d DoNotation calls from %d goroutines nothing moves any more:\n%s", n, workers, dump)
					return
				}
				lastChange = time.Now()
			}
		}
	}
	atomic.StoreInt32(&stop, 1)
	go func() {
		var f fpgo.CorDef[int]
		f.DoNotation(func(self *fpgo.CorDef[int]) int { return self.YieldFrom(gen, 0) })
	}()
	n := atomic.LoadInt64(&calls)
	vlib.S().EvalN("doNotation-storm", n)
	vlib.S().NonTrivial("doNotation-storm", fmt.Sprintf("%d workers, %d calls", workers, n))
	if m := failMsg.Load(); m != nil {
		vlib.Fail(t, "C14/doNotation", "after %d DoNotation calls from %d goroutines: %s", n, workers, m.(string))
	}
}
