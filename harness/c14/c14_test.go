package c14

import (
	"encoding/json"
	"fmt"
	"runtime"
	"strings"
	"sync"
	"sync/atomic"
	"testing"
	"time"

	fpgo "github.com/TeaEntityLab/fpGo/v2"
	"pgregory.net/rapid"

	"verifharness/vlib"
)

func TestMain(m *testing.M) { vlib.Main(m) }

var schedMu sync.Mutex

const (
	shapeFixed = iota
	shapeEcho
	shapeAccumulate
)

const (
	kindCor = iota
	kindDoNotation
	kindNewAndStart // created and started in one call (starts before the target unless Eager is off... see below)
	kindBare        // a plain goroutine whose caller identity is a coroutine handle that is never started
)

type callerSpec struct {
	K         int  `json:"k"`         // number of YieldFrom requests
	Kind      int  `json:"kind"`      // CorNew+Start or DoNotation
	IOAt      int  `json:"ioAt"`      // before request #IOAt call YieldFromIO (-1 = never)
	IOHandler bool `json:"ioHandler"` // the IO observes on a handler
	// IOSub: the IO handed to YieldFromIO already carries a SubscribeOn handler: 0 none, 1 the handler it
	// observes on, 2 another (unbuffered) handler, 3 a handler that has been closed. YieldFromIO returns the
	// IO's value whatever the IO's own delivery configuration is
	IOSub int `json:"ioSub"`
	// IOChain: the configured IO is not handed over itself but as the inner IO of a composition
	// Just(0).FlatMap(func(int) { return io }); the composition's value is the inner IO's value
	IOChain bool `json:"ioChain,omitempty"`
	// DoRecv (DoNotation callers): the receiver the method is called on - 0 a zero CorDef, 1 the target
	// coroutine itself (possibly running), 2 a helper coroutine that is started and running for the whole
	// scenario, 3 a coroutine that has finished. DoNotation gives its effect a coroutine of its own whatever it is called on
	DoRecv int `json:"doRecv"`
	Gap    int `json:"gap"` // yields between requests
}

type scenario struct {
	Shape        int          `json:"shape"`
	Callers      []callerSpec `json:"callers"`
	StartWithVal bool         `json:"startWithVal"`
	// Eager: the callers are started BEFORE the target and spin until target.IsStarted()
	// before their first YieldFrom (so requests race with Start/StartWithVal itself)
	Eager bool `json:"eager"`
	// Restart: after the target has been started, Start()/StartWithVal() are called again on it
	// (a started coroutine ignores them: no second effect, no phantom request)
	Restart int `json:"restart"` // 0 none, 1 Start(), 2 StartWithVal(x), 3 both
	// BareTarget: the target is a never-started handle whose YieldRefs are made by a plain goroutine
	// (a mailbox); nothing in the request/reply pairing depends on how the goroutines were launched
	BareTarget bool `json:"bareTarget,omitempty"`
	// DoTarget: the target is the coroutine of a DoNotation block: its effect serves the requests with
	// self.YieldRef; callers address the handle the block was given
	DoTarget bool `json:"doTarget,omitempty"`
	// Ghosts: before the callers start, a coroutine that has already FINISHED calls YieldFrom(target, x)
	// that many times: a finished coroutine cannot yield - the call returns the zero value and the target
	// never sees the request
	Ghosts int       `json:"ghosts,omitempty"`
	Plan   vlib.Plan `json:"plan"`
}

func (s scenario) String() string {
	var sb strings.Builder
	fmt.Fprintf(&sb, "shape=%s startWithVal=%v eager=%v restart=%d bareTarget=%v doTarget=%v ghosts=%d callers=", []string{"fixed", "echo", "accumulate"}[s.Shape], s.StartWithVal, s.Eager, s.Restart, s.BareTarget, s.DoTarget, s.Ghosts)
	for _, c := range s.Callers {
		fmt.Fprintf(&sb, "[%s k=%d io@%d h=%v sub=%d chain=%v recv=%d gap=%d]", []string{"cor", "do", "newAndStart", "bare"}[c.Kind], c.K, c.IOAt, c.IOHandler, c.IOSub, c.IOChain, c.DoRecv, c.Gap)
	}
	fmt.Fprintf(&sb, " plan=%v", s.Plan)
	return sb.String()
}

var corPoints = []string{"cor.yieldRef.gotOp", "cor.yieldFrom.afterDoneCheck", "cor.yieldFrom.sent",
	"cor.doCloseSafe.afterDoneCheck", "cor.doCloseSafe.locked", "cor.close.entry", "cor.close.flagSet", "cor.close.closed"}

func genScenario(t *rapid.T) scenario {
	var s scenario
	s.Shape = rapid.IntRange(0, 2).Draw(t, "shape")
	nc := rapid.IntRange(1, 8).Draw(t, "callers")
	remaining := 40
	for i := 0; i < nc; i++ {
		maxK := remaining - (nc - i - 1)
		if maxK > 12 {
			maxK = 12
		}
		k := rapid.IntRange(1, maxK).Draw(t, "k")
		remaining -= k
		c := callerSpec{K: k, Kind: rapid.SampledFrom([]int{kindCor, kindCor, kindDoNotation, kindNewAndStart, kindBare}).Draw(t, "kind"), IOAt: -1, Gap: rapid.IntRange(0, 3).Draw(t, "gap")}
		if c.Kind == kindDoNotation {
			c.DoRecv = rapid.IntRange(0, 3).Draw(t, "doRecv")
		}
		if rapid.IntRange(0, 3).Draw(t, "io") == 0 {
			c.IOAt = rapid.IntRange(0, k-1).Draw(t, "ioAt")
			c.IOHandler = rapid.Bool().Draw(t, "ioHandler")
			c.IOSub = rapid.SampledFrom([]int{0, 0, 1, 2, 3}).Draw(t, "ioSub")
			c.IOChain = rapid.IntRange(0, 2).Draw(t, "ioChain") == 0
		}
		s.Callers = append(s.Callers, c)
	}
	s.StartWithVal = rapid.Bool().Draw(t, "startWithVal")
	s.Eager = rapid.Bool().Draw(t, "eager")
	s.Restart = rapid.SampledFrom([]int{0, 0, 1, 2, 3}).Draw(t, "restart")
	s.Plan = vlib.DrawPlan(t, corPoints, 6)
	switch rapid.IntRange(0, 7).Draw(t, "targetKind") {
	case 0:
		s.BareTarget, s.StartWithVal, s.Eager, s.Restart = true, false, false, 0
	case 1:
		s.DoTarget, s.StartWithVal, s.Eager, s.Restart = true, false, false, 0
	}
	if !s.Eager {
		s.Ghosts = rapid.SampledFrom([]int{0, 0, 1, 2}).Draw(t, "ghosts")
	}
	return s
}

type pair struct{ x, y int }

type result struct {
	failKey, failMsg string
	nontrivial       bool
	inconclusive     string
}

const startVal = 777777
const ghostVal = 424242

func runScenario(s scenario) result {
	var res result
	schedMu.Lock()
	defer schedMu.Unlock()
	sched := vlib.NewSched(s.Plan)
	sched.TrackAll()
	fpgo.SetVerifHook(sched.Hook)
	defer fpgo.SetVerifHook(nil)
	defer sched.Disable()
	var failMu sync.Mutex
	fail := func(k, f string, a ...any) {
		failMu.Lock()
		if res.failKey == "" {
			res.failKey, res.failMsg = k, fmt.Sprintf(f, a...)
		}
		failMu.Unlock()
	}
	R := 0
	for _, c := range s.Callers {
		R += c.K
	}
	total := R
	if s.StartWithVal {
		total++
	}
	h := fpgo.Handler.NewByCh(make(chan func(), 8))
	h2 := fpgo.Handler.New()
	defer h2.Close()
	runnerEnd := make(chan struct{})
	defer close(runnerEnd)
	runner := fpgo.CorNewGenerics[int](func() { <-runnerEnd })
	runner.Start()
	// a coroutine that has run to completion: DoNotation gives its effect a coroutine of its own whatever the
	// state of the handle it is called on
	finished := fpgo.CorNewGenerics[int](func() {})
	finished.Start()
	vlib.WaitUntil(vlib.StallBudget(), finished.IsDone)
	hClosed := fpgo.Handler.New()
	hClosed.Close()
	defer h.Close()
	hIDCh := make(chan uint64, 1)
	h.Post(func() { hIDCh <- vlib.GoID() })
	hID := <-hIDCh

	var targetLog []pair // target goroutine only, read after it finished
	var target *fpgo.CorDef[int]
	var targetStartedInside, targetDoneInside int32
	targetFinished := make(chan struct{})
	targetBody := func() {
		defer close(targetFinished)
		if target.IsStarted() || s.BareTarget {
			atomic.StoreInt32(&targetStartedInside, 1)
		}
		if target.IsDone() {
			atomic.StoreInt32(&targetDoneInside, 1)
		}
		prevX, sum := -1, 0
		for k := 0; k < total; k++ {
			var y int
			switch s.Shape {
			case shapeFixed:
				y = 500000 + k
			case shapeEcho:
				y = prevX
			case shapeAccumulate:
				y = sum
			}
			x := target.YieldRef(y)
			targetLog = append(targetLog, pair{x, y})
			prevX = x
			sum += x
		}
	}
	if s.BareTarget {
		target = fpgo.CorNewGenerics[int](func() {})
	} else {
		target = fpgo.CorNewGenerics[int](targetBody)
	}
	if target.IsStarted() || target.IsDone() {
		fail("C14/lifecycle", "a new coroutine reports IsStarted=%v IsDone=%v before Start", target.IsStarted(), target.IsDone())
	}
	callerLogs := make([][]pair, len(s.Callers))
	ioResults := make([][2]int, len(s.Callers)) // want, got
	doResults := make([][2]int, len(s.Callers))
	cors := make([]*fpgo.CorDef[int], len(s.Callers))
	var wg sync.WaitGroup
	callerBody := func(i int, self *fpgo.CorDef[int]) int {
		spec := s.Callers[i]
		last := 0
		if s.Eager {
			for !target.IsStarted() {
				runtime.Gosched()
			}
		}
		for j := 0; j < spec.K; j++ {
			if spec.IOAt == j {
				want := 9000 + i
				var effG uint64
				io := fpgo.MonadIONewGenerics(func() int { effG = vlib.GoID(); return want })
				if spec.IOHandler {
					io = io.ObserveOn(h)
				}
				switch spec.IOSub {
				case 1:
					io = io.SubscribeOn(h)
				case 2:
					io = io.SubscribeOn(h2)
				case 3:
					io = io.SubscribeOn(hClosed)
				}
				if spec.IOChain {
					inner := io
					io = fpgo.MonadIOJustGenerics(0).FlatMap(func(int) *fpgo.MonadIODef[int] { return inner })
				}
				ioResults[i] = [2]int{want, self.YieldFromIO(io)}
				if spec.IOChain {
					// the same composed IO polled twice: every YieldFromIO evaluates it anew
					n := 0
					poll := fpgo.MonadIONewGenerics(func() int { n++; return n }).FlatMap(func(v int) *fpgo.MonadIODef[int] { return fpgo.MonadIOJustGenerics(10 * v) })
					if a, b := self.YieldFromIO(poll), self.YieldFromIO(poll); a != 10 || b != 20 {
						fail("C14/yieldFromIO", "caller %d: two YieldFromIO calls on one composed IO whose source counts its evaluations returned %d and %d, the IO's values are 10 and 20", i, a, b)
					}
				}
				if spec.IOHandler && !spec.IOChain && effG != hID {
					fail("C14/yieldFromIO-handler", "caller %d: the effect of a MonadIO observed on a handler did not run on that handler's goroutine", i)
				}
			}
			x := (i+1)*1000 + j
			y := self.YieldFrom(target, x)
			callerLogs[i] = append(callerLogs[i], pair{x, y})
			last = y
			for g := 0; g < spec.Gap; g++ {
				// cooperative delay between requests
				time.Sleep(0)
			}
		}
		return last
	}
	var startedInside int32
	for i, spec := range s.Callers {
		i := i
		wg.Add(1)
		switch spec.Kind {
		case kindCor:
			var c *fpgo.CorDef[int]
			c = fpgo.CorNewGenerics[int](func() {
				defer wg.Done()
				if c.IsStarted() {
					atomic.AddInt32(&startedInside, 1)
				}
				if p, st := vlib.Try(func() { callerBody(i, c) }); p != nil {
					fail("C14/panic", "caller %d panicked: %v\n%s", i, p, st)
				}
			})
			cors[i] = c
		case kindDoNotation, kindBare:
			atomic.AddInt32(&startedInside, 1)
		}
	}
	startTarget := func() {
		if s.BareTarget {
			go targetBody()
			return
		}
		if s.DoTarget {
			ready := make(chan struct{})
			go func() {
				var factory fpgo.CorDef[int]
				factory.DoNotation(func(self *fpgo.CorDef[int]) int {
					target = self
					close(ready)
					targetBody()
					return 0
				})
			}()
			<-ready
			return
		}
		if s.StartWithVal {
			target.StartWithVal(startVal)
		} else {
			target.Start()
		}
		if s.Restart&1 != 0 {
			target.Start()
		}
		if s.Restart&2 != 0 {
			target.StartWithVal(888888)
		}
	}
	startOrFail := func() bool {
		ok, dump, inc := startGuarded(startTarget)
		if !ok {
			if inc {
				res.inconclusive = "Start slow"
			} else {
				fail("C14/start-blocks", "Start()/StartWithVal() of the target does not return (requests of callers that ran ahead are queued on it):\n%s", dump)
			}
		}
		return ok
	}
	if !s.Eager {
		if !startOrFail() {
			return res
		}
		if s.Ghosts > 0 {
			gone := fpgo.CorNewGenerics[int](func() {})
			gone.Start()
			if vlib.WaitUntil(vlib.StallBudget(), gone.IsDone) {
				ghostDone := make(chan struct{})
				go func() {
					defer close(ghostDone)
					for g := 0; g < s.Ghosts; g++ {
						if y := gone.YieldFrom(target, ghostVal+g); y != 0 {
							fail("C14/finished-caller", "YieldFrom called on a coroutine that has finished returned %d, want the zero value", y)
						}
					}
				}()
				select {
				case <-ghostDone:
				case <-time.After(vlib.StallBudget()):
					fail("C14/finished-caller", "YieldFrom called on a coroutine that has finished does not return:\n%s", vlib.AllStacks())
					return res
				}
			}
		}
	} else {
		defer func() {}() // (eager: the target is started after the callers, below)
	}
	for i, spec := range s.Callers {
		i := i
		switch spec.Kind {
		case kindCor:
			cors[i].Start()
		case kindNewAndStart:
			var c *fpgo.CorDef[int]
			ready := make(chan struct{})
			var factory fpgo.CorDef[int]
			c = factory.NewAndStart(func() {
				defer wg.Done()
				<-ready // c is assigned once NewAndStart returned
				if c.IsStarted() {
					atomic.AddInt32(&startedInside, 1)
				}
				if p, st := vlib.Try(func() { callerBody(i, c) }); p != nil {
					fail("C14/panic", "caller %d panicked: %v\n%s", i, p, st)
				}
			})
			cors[i] = c
			close(ready)
		case kindBare:
			go func() {
				defer wg.Done()
				me := fpgo.CorNewGenerics[int](func() {})
				if p, st := vlib.Try(func() { callerBody(i, me) }); p != nil {
					fail("C14/panic", "caller %d panicked: %v\n%s", i, p, st)
				}
			}()
		case kindDoNotation:
			go doNotationCaller(&wg, fail, func() {
				var zero fpgo.CorDef[int]
				d := &zero
				switch s.Callers[i].DoRecv {
				case 1:
					d = target
				case 2:
					d = runner
				case 3:
					d = finished
				}
				want := -12345
				var block *fpgo.CorDef[int]
				got := d.DoNotation(func(self *fpgo.CorDef[int]) int {
					block = self
					want = callerBody(i, self)
					return want
				})
				doResults[i] = [2]int{want, got}
				// the do-block's coroutine is a coroutine: its effect has returned, so it becomes done
				if block == nil || !vlib.WaitUntil(vlib.StallBudget(), block.IsDone) {
					fail("C14/lifecycle", "caller %d: IsDone() of a DoNotation block's coroutine stays false after the block returned", i)
				}
			})
		}
	}
	if s.Eager {
		// give the callers a moment to reach their spin loop, then start the target
		for g := 0; g < 20; g++ {
			runtime.Gosched()
		}
		if !startOrFail() {
			return res
		}
	}
	done := make(chan struct{})
	go func() { wg.Wait(); <-targetFinished; close(done) }()
	select {
	case <-done:
	case <-time.After(vlib.StallBudget()):
		sched.Disable()
		select {
		case <-done:
		case <-time.After(vlib.StallBudget()):
			verdict, dump := vlib.ClassifyStall([]string{"c14.runScenario", "c14.doNotationCaller"})
			if verdict == "blocked" {
				fail("C14/deadlock", "coroutines blocked for ever (target served %d of %d requests):\n%s", len(targetLog), total, dump)
			} else {
				res.inconclusive = "slow: " + verdict
			}
			return res
		}
	}
	if res.failKey != "" {
		return res
	}
	// ---- lifecycle
	if atomic.LoadInt32(&targetStartedInside) != 1 {
		fail("C14/lifecycle", "IsStarted() was false inside the running effect of the target")
	}
	if atomic.LoadInt32(&targetDoneInside) == 1 {
		fail("C14/lifecycle", "IsDone() was true inside the running effect of the target")
	}
	if int(atomic.LoadInt32(&startedInside)) != len(s.Callers) {
		fail("C14/lifecycle", "IsStarted() was false inside the running effect of a caller")
	}
	if !vlib.WaitUntil(vlib.StallBudget(), func() bool {
		if !target.IsDone() && !s.BareTarget {
			return false
		}
		for _, c := range cors {
			if c != nil && !c.IsDone() {
				return false
			}
		}
		return true
	}) {
		fail("C14/lifecycle", "IsDone() did not become true after the effect returned")
	} else {
		// a coroutine that has finished is one that was started: IsStarted stays true
		if !s.BareTarget && !target.IsStarted() {
			fail("C14/lifecycle", "IsStarted() of the target is false after its effect has returned (IsDone() is true)")
		}
		for i, c := range cors {
			if c != nil && c.IsDone() && !c.IsStarted() {
				fail("C14/lifecycle", "IsStarted() of caller %d is false after its effect has returned (IsDone() is true)", i)
			}
		}
		// "YieldFromIO returns the IO's value" - it evaluates the IO and uses nothing of the coroutine, so the
		// handles of the finished coroutines still do it (inline IO and IO observed on a handler)
		for i, c := range cors {
			if c == nil || !c.IsDone() {
				continue
			}
			for k, io := range []*fpgo.MonadIODef[int]{
				fpgo.MonadIONewGenerics(func() int { return 31000 + i }),
				fpgo.MonadIONewGenerics(func() int { time.Sleep(50 * time.Microsecond); return 32000 + i }).ObserveOn(h),
			} {
				out := make(chan int, 1)
				go func() { out <- c.YieldFromIO(io) }()
				select {
				case v := <-out:
					if v != 31000+1000*k+i {
						fail("C14/yieldFromIO", "the handle of finished coroutine %d: YieldFromIO returned %d, the IO's value is %d (IO observed on a handler: %v)", i, v, 31000+1000*k+i, k == 1)
					}
				case <-time.After(vlib.StallBudget()):
					fail("C14/yieldFromIO", "the handle of finished coroutine %d: YieldFromIO does not return", i)
				}
			}
		}
	}
	// ---- pairing oracle
	tl := targetLog
	if s.StartWithVal {
		if len(tl) == 0 || tl[0].x != startVal {
			fail("C14/startWithVal", "first YieldRef returned %v, want the StartWithVal value %d", tl, startVal)
			return res
		}
		tl = tl[1:]
	}
	if len(tl) != R {
		fail("C14/count", "target served %d requests, callers made %d", len(tl), R)
		return res
	}
	nextSeq := make([]int, len(s.Callers))
	yOf := map[int]int{} // x -> y yielded by the target when it took x
	interleaved := false
	lastCaller := -1
	switches := 0
	for k, p := range tl {
		ci, seq := p.x/1000-1, p.x%1000
		if ci < 0 || ci >= len(s.Callers) {
			fail("C14/invented", "target's %d-th YieldRef returned %d which no caller sent", k, p.x)
			return res
		}
		if seq != nextSeq[ci] {
			fail("C14/order", "target took request %d of caller %d at position %d, expected that caller's request #%d next (lost, duplicated or reordered)", seq, ci, k, nextSeq[ci])
			return res
		}
		nextSeq[ci]++
		yOf[p.x] = p.y
		if ci != lastCaller {
			switches++
			lastCaller = ci
		}
	}
	interleaved = switches > len(s.Callers)
	for i, lg := range callerLogs {
		if len(lg) != s.Callers[i].K {
			fail("C14/count", "caller %d completed %d of %d requests", i, len(lg), s.Callers[i].K)
			return res
		}
		for j, p := range lg {
			want, ok := yOf[p.x]
			if !ok {
				fail("C14/lost", "caller %d request %d (x=%d) never reached the target", i, j, p.x)
				return res
			}
			if p.y != want {
				fail("C14/misrouted", "caller %d request #%d (x=%d) was answered %d, but the target yielded %d when it took that request", i, j, p.x, p.y, want)
				return res
			}
		}
		if s.Callers[i].IOAt >= 0 && ioResults[i][0] != ioResults[i][1] {
			fail("C14/yieldFromIO", "caller %d: YieldFromIO returned %d, the IO's value is %d", i, ioResults[i][1], ioResults[i][0])
		}
		if s.Callers[i].Kind == kindDoNotation && doResults[i][0] != doResults[i][1] {
			fail("C14/doNotation", "caller %d: DoNotation returned %d, the effect returned %d", i, doResults[i][1], doResults[i][0])
		}
	}
	// shape-defined values (the target's own log defines them; checked for self-consistency)
	prevX, sum := -1, 0
	if s.StartWithVal {
		prevX, sum = startVal, startVal
	}
	for k, p := range tl {
		switch s.Shape {
		case shapeEcho:
			if p.y != prevX {
				fail("C14/harness", "echo shape inconsistent at %d", k)
			}
		case shapeAccumulate:
			if p.y != sum {
				fail("C14/harness", "accumulate shape inconsistent at %d", k)
			}
		}
		prevX = p.x
		sum += p.x
	}
	res.nontrivial = (len(s.Callers) >= 2 && interleaved) || R > 5
	return res
}

// startGuarded runs a Start/StartWithVal call that must return promptly whatever is queued on the
// coroutine; false = it is blocked for ever (dump in msg), inconclusive = merely slow.
func startGuarded(start func()) (ok bool, blockedDump string, inconclusive bool) {
	done := make(chan struct{})
	go func() { defer close(done); startGuardedBody(start) }()
	select {
	case <-done:
		return true, "", false
	case <-time.After(vlib.StallBudget()):
	}
	verdict, dump := vlib.ClassifyStall([]string{"c14.startGuardedBody"})
	if verdict == "blocked" {
		return false, dump, false
	}
	select {
	case <-done:
		return true, "", false
	case <-time.After(vlib.StallBudget()):
		return false, "", true
	}
}

func startGuardedBody(start func()) { start() }

func doNotationCaller(wg *sync.WaitGroup, fail func(k, f string, a ...any), body func()) {
	defer wg.Done()
	if p, st := vlib.Try(body); p != nil {
		fail("C14/panic", "DoNotation caller panicked: %v\n%s", p, st)
	}
}

func report(t vlib.TB, s scenario, res result, skip func()) {
	if res.inconclusive != "" && res.failKey == "" {
		vlib.S().Note("inconclusive (%s): %v", res.inconclusive, s)
		vlib.S().Class("inconclusive")
		return
	}
	if res.failKey == "" {
		return
	}
	vlib.WriteReplay("C14/scenario", s)
	if vlib.Fail(t, res.failKey, "%v: %s", s, res.failMsg) {
		skip()
	}
}

func TestRegress(t *testing.T) {
	cases := []scenario{
		{Shape: shapeFixed, Callers: []callerSpec{{K: 3, IOAt: -1}}},
		{Shape: shapeFixed, Callers: []callerSpec{{K: 5, IOAt: -1}}, Restart: 3},
		{Shape: shapeFixed, Callers: []callerSpec{{K: 3, IOAt: -1}, {K: 3, IOAt: -1}, {K: 2, IOAt: -1, Kind: kindDoNotation}}, StartWithVal: true, Eager: true},
		{Shape: shapeEcho, Callers: []callerSpec{{K: 8, IOAt: -1}, {K: 8, IOAt: 2, IOHandler: true}}, StartWithVal: true},
		{Shape: shapeFixed, Callers: []callerSpec{{K: 7, IOAt: -1, Kind: kindBare}, {K: 7, IOAt: 3, Kind: kindBare, IOSub: 2, IOChain: true}, {K: 2, IOAt: -1}}},
		{Shape: shapeEcho, Callers: []callerSpec{{K: 6, IOAt: -1, Kind: kindDoNotation}, {K: 3, IOAt: -1, Kind: kindBare}}, BareTarget: true},
		{Shape: shapeFixed, Callers: []callerSpec{{K: 4, IOAt: -1}, {K: 3, IOAt: -1, Kind: kindDoNotation}}, DoTarget: true, Ghosts: 2},
		{Shape: shapeAccumulate, Callers: []callerSpec{{K: 5, Kind: kindDoNotation, IOAt: 0}, {K: 5, IOAt: -1}, {K: 5, Kind: kindDoNotation, IOAt: -1}}},
		{Shape: shapeFixed, Callers: []callerSpec{{K: 4, IOAt: -1}, {K: 4, IOAt: -1}, {K: 4, IOAt: -1}, {K: 4, IOAt: -1}, {K: 4, IOAt: -1}, {K: 4, IOAt: -1}, {K: 4, IOAt: -1}, {K: 4, IOAt: -1}}, StartWithVal: true},
	}
	for _, s := range cases {
		for rep := 0; rep < 5; rep++ {
			vlib.S().Eval("regress")
			res := runScenario(s)
			if res.nontrivial {
				vlib.S().NonTrivial("regress", s.String())
			}
			report(t, s, res, func() {})
		}
	}
}

func TestReplayJSON(t *testing.T) {
	raw := vlib.ReplayCase("C14/scenario")
	if raw == nil {
		t.Skip("no replay case")
	}
	var s scenario
	if err := json.Unmarshal(raw, &s); err != nil {
		t.Fatal(err)
	}
	for i := 0; i < 100; i++ {
		if res := runScenario(s); res.failKey != "" {
			t.Fatalf("[key=%s] run %d: %s", res.failKey, i, res.failMsg)
		}
	}
}

func TestScenarios(t *testing.T) {
	vlib.Check(t, "scenarios", 3000, 40000, func(t *rapid.T) {
		s := genScenario(t)
		st := vlib.S()
		st.Eval("scenarios")
		res := runScenario(s)
		if res.nontrivial {
			st.NonTrivial("scenarios", s.String())
			st.Class("nontrivial")
		} else {
			st.Class("trivial")
		}
		report(t, s, res, func() { t.Skip("known") })
	})
}

// TestTargetReturnsEarly: "IsStarted/IsDone become true when the effect starts/returns" holds also
// when callers are still queued on the target at that moment (more outstanding requests than the
// request buffer of 5): the target serves a few requests, its effect returns, IsDone must become
// true, and the requests it did serve were paired correctly.
func TestTargetReturnsEarly(t *testing.T) {
	if vlib.Replaying() {
		t.Skip()
	}
	for rep := 0; rep < vlib.Pick(30, 300); rep++ {
		callers := 6 + rep%3
		serve := rep % 4
		var target *fpgo.CorDef[int]
		var served []pair
		returned := make(chan struct{})
		target = fpgo.CorNewGenerics[int](func() {
			defer close(returned)
			for k := 0; k < serve; k++ {
				x := target.YieldRef(7000 + k)
				served = append(served, pair{x, 7000 + k})
			}
		})
		answers := make([]int64, callers)
		for i := 0; i < callers; i++ {
			i := i
			var c *fpgo.CorDef[int]
			c = fpgo.CorNewGenerics[int](func() {
				atomic.StoreInt64(&answers[i], int64(c.YieldFrom(target, (i+1)*1000))+1)
			})
			c.Start()
		}
		// let the requests pile up, then start the target
		for g := 0; g < 50; g++ {
			runtime.Gosched()
		}
		vlib.S().Eval("returns-early")
		vlib.S().NonTrivial("returns-early", fmt.Sprintf("callers=%d served=%d", callers, serve))
		if ok, dump, inc := startGuarded(target.Start); !ok {
			if !inc {
				vlib.Fail(t, "C14/start-blocks", "callers=%d: Start() of a target with %d requests queued on it does not return:\n%s", callers, callers, dump)
			}
			return
		}
		select {
		case <-returned:
		case <-time.After(vlib.StallBudget()):
			vlib.Fail(t, "C14/returns-early", "callers=%d: the target effect (serving %d requests) did not return", callers, serve)
			return
		}
		if !vlib.WaitUntil(vlib.StallBudget(), target.IsDone) {
			vlib.WriteReplay("C14/returns-early", map[string]int{"callers": callers, "serve": serve})
			if vlib.Fail(t, "C14/lifecycle", "callers=%d served=%d: IsDone() is still false %v after the target's effect returned (callers were still queued on it)", callers, serve, vlib.StallBudget()) {
				continue
			}
			return
		}
		// the served requests: x belongs to a caller, and that caller (once it has its answer) got y
		for _, p := range served {
			ci := p.x/1000 - 1
			if ci < 0 || ci >= callers || p.x%1000 != 0 {
				vlib.Fail(t, "C14/invented", "target took %d which no caller sent", p.x)
				return
			}
			ok := vlib.WaitUntil(vlib.StallBudget(), func() bool { return atomic.LoadInt64(&answers[ci]) != 0 })
			if got := atomic.LoadInt64(&answers[ci]) - 1; !ok || got != int64(p.y) {
				vlib.Fail(t, "C14/misrouted", "caller %d was served (target yielded %d for its request) but received %d (answered=%v)", ci, p.y, got, ok)
				return
			}
		}
	}
}
