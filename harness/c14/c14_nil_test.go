package c14

import (
	"encoding/json"
	"fmt"
	"testing"
	"time"

	fpgo "github.com/TeaEntityLab/fpGo/v2"
	"pgregory.net/rapid"

	"verifharness/vlib"
)

// Part "nil-values": the hand-over protocol does not look at the values it carries: nil (the untyped nil
// of a CorDef[interface{}], a nil pointer of a CorDef[*int]) is a start value, a request value and a
// yielded value like any other. One caller, one generator: the generator sees the start value (if
// StartWithVal was used, also when it is nil) and then x1..xn, the caller gets back exactly the value
// the generator yielded while serving each request.

type nilCorCase struct {
	Iface bool  `json:"iface"`
	Start int   `json:"start"` // -1: Start(), otherwise StartWithVal(code)
	Xs    []int `json:"xs"`    // request values (codes: 0 = nil, k = the k-th value)
	Ys    []int `json:"ys"`    // yielded values, len = len(Xs) + (1 if Start >= 0)
}

func (c nilCorCase) String() string { b, _ := json.Marshal(c); return string(b) }

func runNilCor[T any](c nilCorCase, enc func(int) T, dec func(T) int) (key, msg string, inconclusive bool) {
	var seen []int
	var target *fpgo.CorDef[T]
	targetDone := make(chan struct{})
	target = fpgo.CorNewGenerics[T](func() {
		defer close(targetDone)
		for _, y := range c.Ys {
			seen = append(seen, dec(target.YieldRef(enc(y))))
		}
	})
	var got []int
	callerDone := make(chan struct{})
	var caller *fpgo.CorDef[T]
	caller = fpgo.CorNewGenerics[T](func() {
		defer close(callerDone)
		for _, x := range c.Xs {
			got = append(got, dec(caller.YieldFrom(target, enc(x))))
		}
	})
	p, st := vlib.Try(func() {
		if c.Start >= 0 {
			target.StartWithVal(enc(c.Start))
		} else {
			target.Start()
		}
		caller.Start()
	})
	if p != nil {
		return "C14/nil-values/panic", fmt.Sprintf("%v\n%s", p, st), false
	}
	off := 0
	wantSeen := append([]int{}, c.Xs...)
	if c.Start >= 0 {
		off = 1
		wantSeen = append([]int{c.Start}, c.Xs...)
	}
	wantGot := c.Ys[off:]
	for _, ch := range []chan struct{}{callerDone, targetDone} {
		select {
		case <-ch:
		case <-time.After(vlib.StallBudget()):
			verdict, dump := vlib.ClassifyStall([]string{"c14.runNilCor"})
			if verdict == "blocked" {
				return "C14/nil-values/stuck", fmt.Sprintf("the generator saw %v (want %v), the caller got %v (want %v), and they are stuck (0 = nil):\n%s", seen, wantSeen, got, wantGot, dump), false
			}
			return "", "", true
		}
	}
	if fmt.Sprint(seen) != fmt.Sprint(wantSeen) {
		return "C14/nil-values/target-saw", fmt.Sprintf("the generator's YieldRef calls returned %v, want the start value and the requests %v (0 = nil)", seen, wantSeen), false
	}
	if fmt.Sprint(got) != fmt.Sprint(wantGot) {
		return "C14/nil-values/caller-got", fmt.Sprintf("the caller's YieldFrom calls returned %v, want %v (0 = nil)", got, wantGot), false
	}
	if !vlib.WaitUntil(vlib.StallBudget(), target.IsDone) {
		return "C14/lifecycle", "IsDone() stays false after the generator's effect returned", false
	}
	return "", "", false
}

func runNilCorAny(c nilCorCase) (string, string, bool) {
	if c.Iface {
		return runNilCor[interface{}](c, func(k int) interface{} {
			if k == 0 {
				return nil
			}
			return k
		}, func(v interface{}) int {
			if v == nil {
				return 0
			}
			if n, ok := v.(int); ok {
				return n
			}
			return -99
		})
	}
	ptrs := [5]*int{nil, new(int), new(int), new(int), new(int)}
	return runNilCor[*int](c, func(k int) *int { return ptrs[k] }, func(v *int) int {
		for k, q := range ptrs {
			if v == q {
				return k
			}
		}
		return -99
	})
}

func TestNilValues(t *testing.T) {
	if vlib.Replaying() {
		raw := vlib.ReplayCase("C14/nil-values")
		if raw == nil {
			return
		}
		var c nilCorCase
		if err := json.Unmarshal(raw, &c); err != nil {
			t.Fatal(err)
		}
		if key, msg, _ := runNilCorAny(c); key != "" {
			t.Fatalf("[key=%s] %s", key, msg)
		}
		return
	}
	vlib.Check(t, "nil-values", 400, 6000, func(t *rapid.T) {
		c := nilCorCase{Iface: rapid.Bool().Draw(t, "iface"), Start: rapid.IntRange(-1, 2).Draw(t, "start")}
		c.Xs = rapid.SliceOfN(rapid.IntRange(0, 4), 1, 5).Draw(t, "xs")
		n := len(c.Xs)
		if c.Start >= 0 {
			n++
		}
		c.Ys = rapid.SliceOfN(rapid.IntRange(0, 4), n, n).Draw(t, "ys")
		vlib.S().Eval("nil-values")
		hasNil := c.Start == 0
		for _, v := range append(append([]int{}, c.Xs...), c.Ys...) {
			if v == 0 {
				hasNil = true
			}
		}
		key, msg, inc := runNilCorAny(c)
		if inc {
			return
		}
		if hasNil {
			vlib.S().NonTrivial("nil-values", c.String())
		}
		if key != "" {
			vlib.WriteReplay("C14/nil-values", c)
			if vlib.Fail(t, key, "%v: %s", c, msg) {
				t.Skip("known")
			}
		}
	})
}
