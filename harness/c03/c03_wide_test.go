package c03

import (
	"fmt"
	"testing"

	fpgo "github.com/TeaEntityLab/fpGo/v2"
	"pgregory.net/rapid"

	"verifharness/vlib"
)

// Part "wide-lists": the de-duplicating helpers over lists with MANY different values (up to 40 elements
// drawn from 24 values), where the other parts use short lists over a handful of values: Distinct and
// UniqBy keep first occurrences in order, Dedupe drops consecutive repeats, IsDistinct says whether
// any value occurs twice, Reverse / DuplicateSlice are element-wise. Also: DuplicateMap / DuplicateSlice
// of nil return a NEW (empty, writable) map / list, as documented.

func TestWideLists(t *testing.T) {
	if vlib.Replaying() {
		t.Skip()
	}
	vlib.Check(t, "wide-lists", 3000, 30000, func(t *rapid.T) {
		n := rapid.IntRange(0, 40).Draw(t, "n")
		vals := rapid.IntRange(4, 24).Draw(t, "values")
		list := make([]int, n)
		for i := range list {
			list[i] = rapid.IntRange(0, vals-1).Draw(t, "v")
		}
		in := append([]int{}, list...)
		vlib.S().Eval("wide-lists")
		distinctVals := map[int]bool{}
		for _, v := range list {
			distinctVals[v] = true
		}
		if len(distinctVals) >= 9 && len(distinctVals) < n {
			vlib.S().NonTrivial("wide-lists", fmt.Sprintf("n=%d distinct=%d", n, len(distinctVals)))
		}
		var first, dedupe []int
		seen := map[int]bool{}
		for i, v := range list {
			if !seen[v] {
				seen[v] = true
				first = append(first, v)
			}
			if i == 0 || list[i-1] != v {
				dedupe = append(dedupe, v)
			}
		}
		fail := func(key, f string, a ...any) {
			if vlib.Fail(t, "C03/wide-lists/"+key, "list %v: %s", in, fmt.Sprintf(f, a...)) {
				t.Skip("known")
			}
		}
		check := func(name string, got, want []int) {
			if fmt.Sprint(got) != fmt.Sprint(want) && !(len(got) == 0 && len(want) == 0) {
				fail(name, "%s = %v, want %v", name, got, want)
			}
		}
		p, st := vlib.Try(func() {
			check("Distinct", fpgo.Distinct(list...), first)
			check("UniqBy", fpgo.UniqBy(func(x int) int { return x }, list...), first)
			check("Dedupe", fpgo.Dedupe(list...), dedupe)
			if n > 0 {
				if got, want := fpgo.IsDistinct(list...), len(first) == n; got != want {
					fail("IsDistinct", "IsDistinct = %v, want %v", got, want)
				}
			}
			check("DuplicateSlice", fpgo.DuplicateSlice(list), list)
		})
		if p != nil {
			fail("panic", "%v\n%s", p, st)
		}
		if fmt.Sprint(list) != fmt.Sprint(in) {
			fail("input-modified", "the input list is now %v", list)
		}
	})
}

func TestDuplicateNil(t *testing.T) {
	if vlib.Replaying() {
		t.Skip()
	}
	vlib.S().Eval("duplicate-nil")
	vlib.S().NonTrivial("duplicate-nil", "DuplicateMap(nil)")
	vlib.S().NonTrivial("duplicate-nil", "DuplicateMapForInterface(nil)")
	p, st := vlib.Try(func() {
		d := fpgo.DuplicateMap[string, int](nil)
		if d == nil {
			vlib.Fail(t, "C03/DuplicateMap/result", "DuplicateMap(nil) returned a nil map, not a new map (writing to it panics)")
		} else {
			d["k"] = 1
		}
		e := fpgo.DuplicateMap(map[int]int{})
		if e == nil {
			vlib.Fail(t, "C03/DuplicateMap/result", "DuplicateMap(empty map) returned a nil map")
		} else {
			e[1] = 1
		}
		f := fpgo.DuplicateMapForInterface[int](nil)
		if f == nil {
			vlib.Fail(t, "C03/DuplicateMapForInterface/result", "DuplicateMapForInterface(nil) returned a nil map")
		} else {
			f["k"] = 1
		}
	})
	if p != nil {
		vlib.Fail(t, "C03/DuplicateMap/panic", "%v\n%s", p, st)
	}
	vlib.S().Exhaustive("duplicate-nil")
}
