// Package c03 checks property C03: every slice/map helper of fp.go returns the
// value given by its documented definition, leaves its inputs unmodified and
// never panics, for all inputs and all count/size/hop arguments.
//
// Method: one obviously-correct reference per helper, written from the doc
// comment (index loops, nothing shared with fp.go). Input slices are windows
// backing[lo:hi] of a larger array whose cells outside the window hold
// sentinel values, so that an in-place append, an over-read beyond len or a
// write through the input shows up either in the result or in the snapshot
// comparison that follows every call.
package c03

import (
	"fmt"
	"math"
	"sort"
	"strings"
	"testing"

	fpgo "github.com/TeaEntityLab/fpGo/v2"
	"pgregory.net/rapid"

	"verifharness/vlib"
)

func TestMain(m *testing.M) { vlib.Main(m) }

// ---------------------------------------------------------------- plumbing

// tb is what *testing.T and *rapid.T have in common (as far as we need it).
type tb interface {
	Fatalf(format string, args ...any)
	Helper()
	Skip(args ...any)
}

// kase is one executed case of one helper.
type kase struct {
	t      tb
	helper string
	part   string // evidence part (defaults to the helper name)
	typ    string
	cell   string          // refinement of the finding key (count class)
	pres   []func() string // input-preservation checks
	parts  []string        // full textual description (for failure messages)
	class  []string        // bounded description (for distinct counting)
	nt     bool
}

func newKase(t tb, helper, typ string) *kase {
	return &kase{t: t, helper: helper, part: helper, typ: typ}
}

func (c *kase) key(kind string) string { return "C03/" + c.helper + c.cell + "/" + kind }

func (c *kase) describe() string {
	return fmt.Sprintf("%s[%s] %s", c.helper, c.typ, strings.Join(c.parts, " "))
}

func (c *kase) fail(kind, format string, a ...any) {
	c.t.Helper()
	msg := fmt.Sprintf(format, a...)
	if vlib.Fail(c.t, c.key(kind), "%s: %s", c.describe(), msg) {
		c.t.Skip("known finding")
	}
}

// call runs the code under test, turning a panic into a failure, and then
// verifies that every registered input is bit-identical to its snapshot.
func (c *kase) call(f func()) {
	c.t.Helper()
	vlib.S().Eval(c.part)
	if p, stack := vlib.Try(f); p != nil {
		c.fail("panic", "fpgo.%s panicked: %v\n%s", c.helper, p, frames(stack))
	}
	c.preserved()
}

func (c *kase) preserved() {
	c.t.Helper()
	for _, chk := range c.pres {
		if m := chk(); m != "" {
			c.fail("input-modified", "%s", m)
		}
	}
}

func (c *kase) note(format string, a ...any) { c.parts = append(c.parts, fmt.Sprintf(format, a...)) }

func (c *kase) done() {
	s := vlib.S()
	if c.nt {
		s.Class("nontrivial")
		s.NonTrivial(c.part, fmt.Sprintf("%s[%s] %s", c.helper, c.typ, strings.Join(c.class, " ")))
	} else {
		s.Class("trivial")
	}
}

func frames(stack string) string {
	var keep []string
	for _, l := range strings.Split(stack, "\n") {
		if strings.Contains(l, "fpGo") || strings.Contains(l, "/fp.go") {
			keep = append(keep, strings.TrimSpace(l))
		}
		if len(keep) >= 6 {
			break
		}
	}
	return strings.Join(keep, "\n")
}

// ---------------------------------------------------------------- element types

type pt struct {
	A int
	B string
}

// elem describes one element type: a small-domain generator (many
// duplicates), sentinel values that are never generated, and a projection to
// a small int on which predicates / transformers / groupers are built.
type elem[T comparable] struct {
	name string
	gen  *rapid.Generator[T]
	sent func(i int) T
	proj func(T) int
}

var elemInt = elem[int]{
	name: "int",
	gen:  rapid.IntRange(-2, 6),
	sent: func(i int) int { return 9001 + i },
	proj: func(v int) int { return v },
}

var elemString = elem[string]{
	name: "string",
	gen:  rapid.SampledFrom([]string{"", "a", "b", "ab", "ba", "abc", "zz", "é"}),
	sent: func(i int) string { return fmt.Sprintf("SENTINEL#%d", i) },
	proj: func(s string) int {
		n := len(s)
		for i := 0; i < len(s); i++ {
			n += int(s[i])
		}
		return n % 11
	},
}

var elemPt = elem[pt]{
	name: "struct",
	gen: rapid.Custom(func(t *rapid.T) pt {
		return pt{A: rapid.IntRange(0, 3).Draw(t, "A"), B: rapid.SampledFrom([]string{"", "x", "y"}).Draw(t, "B")}
	}),
	sent: func(i int) pt { return pt{A: -7000 - i, B: "SENTINEL"} },
	proj: func(p pt) int { return p.A*3 + len(p.B) },
}

var elemFloat = elem[float64]{
	name: "float64",
	gen:  rapid.Custom(func(t *rapid.T) float64 { return float64(rapid.IntRange(-8, 8).Draw(t, "q")) / 4 }),
	sent: func(i int) float64 { return 9001.5 + float64(i) },
	proj: func(v float64) int { return int(v * 4) },
}

var elemUint8 = elem[uint8]{
	name: "uint8",
	gen:  rapid.Uint8Range(0, 9),
	sent: func(i int) uint8 { return uint8(200 + i) },
	proj: func(v uint8) int { return int(v) },
}

// wide numeric element types (Min / Max / MinMax only): values that do not
// survive a detour through float64 or a narrower type - around 2^53, at the
// limits of the type, infinities (no NaN: its ordering is not documented).
var wideInt64s = []int64{math.MinInt64, math.MinInt64 + 1, -(1 << 53) - 1, -(1 << 53), -1, 0, 1, 1 << 53, 1<<53 + 1, 1<<53 + 2,
	1<<62 + 1, math.MaxInt64 - 1, math.MaxInt64}
var wideUint64s = []uint64{0, 1, 1 << 53, 1<<53 + 1, 1 << 63, 1<<63 + 1, math.MaxUint64 - 1, math.MaxUint64}
var wideFloats = []float64{math.Inf(-1), -math.MaxFloat64, -1e300, -1, -math.SmallestNonzeroFloat64, 0, math.SmallestNonzeroFloat64,
	1, 1 << 53, 1<<53 + 2, 1e300, math.MaxFloat64, math.Inf(1)}

var elemInt64Wide = elem[int64]{
	name: "int64-wide",
	gen: rapid.OneOf(rapid.SampledFrom(wideInt64s), rapid.Int64(),
		rapid.Custom(func(t *rapid.T) int64 { return 1<<53 + int64(rapid.IntRange(-4, 4).Draw(t, "d")) })),
	sent: func(i int) int64 { return 9001 + int64(i) },
	proj: func(v int64) int { return int(v % 11) },
}

var elemUint64Wide = elem[uint64]{
	name: "uint64-wide",
	gen:  rapid.OneOf(rapid.SampledFrom(wideUint64s), rapid.Uint64()),
	sent: func(i int) uint64 { return 9001 + uint64(i) },
	proj: func(v uint64) int { return int(v % 11) },
}

var elemFloatWide = elem[float64]{
	name: "float64-wide",
	gen:  rapid.SampledFrom(wideFloats),
	sent: func(i int) float64 { return 9001.5 + float64(i) },
	proj: func(v float64) int { return 0 },
}

var elemFloat32Wide = elem[float32]{
	name: "float32-wide",
	gen:  rapid.SampledFrom([]float32{float32(math.Inf(-1)), -math.MaxFloat32, -1, 0, 1, 1 << 24, 1<<24 + 2, math.MaxFloat32, float32(math.Inf(1))}),
	sent: func(i int) float32 { return 9001.5 + float32(i) },
	proj: func(v float32) int { return 0 },
}

// ---------------------------------------------------------------- windows

// window is an input slice carved out of a larger backing array; the cells
// outside [lo,hi) hold sentinels. snap is the pristine copy the oracle reads.
type window[T comparable] struct {
	backing, snap []T
	lo, hi        int
	isNil         bool
}

func mkWindow[T comparable](e elem[T], data []T, pre, post int, isNil bool) *window[T] {
	w := &window[T]{isNil: isNil}
	if isNil {
		return w
	}
	b := make([]T, 0, pre+len(data)+post)
	for i := 0; i < pre; i++ {
		b = append(b, e.sent(i))
	}
	b = append(b, data...)
	for i := 0; i < post; i++ {
		b = append(b, e.sent(100+i))
	}
	w.backing = b[:len(b):len(b)]
	w.lo, w.hi = pre, pre+len(data)
	w.snap = append([]T(nil), w.backing...)
	return w
}

// s is the slice handed to fpGo: len = hi-lo, cap reaches to the end of the
// backing array (so the sentinels after hi are reachable by reslicing).
func (w *window[T]) s() []T {
	if w.isNil {
		return nil
	}
	return w.backing[w.lo:w.hi]
}

// data is the pristine content of the window.
func (w *window[T]) data() []T {
	if w.isNil {
		return nil
	}
	return w.snap[w.lo:w.hi]
}

func (w *window[T]) changed(label string) string {
	for i := range w.snap {
		if w.backing[i] != w.snap[i] {
			where := "inside the slice"
			if i < w.lo || i >= w.hi {
				where = "in the backing array outside the slice (sentinel overwritten)"
			}
			return fmt.Sprintf("input %s modified %s: cell %d was %v, now %v", label, where, i-w.lo, w.snap[i], w.backing[i])
		}
	}
	return ""
}

func hasDup[T comparable](s []T) bool {
	for i := range s {
		for j := i + 1; j < len(s); j++ {
			if s[i] == s[j] {
				return true
			}
		}
	}
	return false
}

// win draws a window and registers it with the case.
func win[T comparable](c *kase, t *rapid.T, e elem[T], label string, maxLen int) *window[T] {
	shape := rapid.IntRange(0, 9).Draw(t, label+".shape")
	n, isNil := 0, false
	switch {
	case shape == 0:
		isNil = true
	case shape == 1:
		n = 0
	case shape == 2:
		n = 1
	case shape <= 5:
		n = rapid.IntRange(2, 4).Draw(t, label+".len")
	default:
		n = rapid.IntRange(2, maxLen).Draw(t, label+".len")
	}
	data := make([]T, n)
	for i := range data {
		data[i] = e.gen.Draw(t, label+".elem")
	}
	pre := rapid.IntRange(0, 2).Draw(t, label+".pre")
	post := rapid.IntRange(0, 3).Draw(t, label+".post")
	w := mkWindow(e, data, pre, post, isNil)
	track(c, label, w)
	return w
}

func track[T comparable](c *kase, label string, w *window[T]) {
	c.pres = append(c.pres, func() string { return w.changed(label) })
	d := w.data()
	dup := hasDup(d)
	spare := 0
	if !w.isNil {
		spare = len(w.backing) - w.hi
	}
	c.note("%s=%v(nil=%v,spare-cap=%d)", label, d, w.isNil, spare)
	c.class = append(c.class, fmt.Sprintf("len(%s)=%d dup=%v nil=%v", label, len(d), dup, w.isNil))
	if len(d) >= 2 || dup {
		c.nt = true
	}
}

// count draws a count/size argument uniformly in [-3, n+3].
func count(c *kase, t *rapid.T, label string, n int) int {
	k := rapid.IntRange(-3, n+3).Draw(t, label)
	noteCount(c, label, k, n)
	return k
}

func noteCount(c *kase, label string, k, n int) {
	c.note("%s=%d", label, k)
	c.class = append(c.class, fmt.Sprintf("%s=%d", label, k))
	c.cell = "[" + countClass(label, k, n) + "]"
	if !(k > 0 && k < n) {
		c.nt = true
	}
}

func countClass(label string, k, n int) string {
	switch {
	case k < 0:
		return label + "<0"
	case k == 0:
		return label + "=0"
	case k < n:
		return "0<" + label + "<len"
	default:
		return label + ">=len"
	}
}

// ---------------------------------------------------------------- comparison helpers

func eqSeq[T comparable](a, b []T) bool {
	if len(a) != len(b) {
		return false
	}
	for i := range a {
		if a[i] != b[i] {
			return false
		}
	}
	return true
}

func expectSeq[T comparable](c *kase, got, want []T) {
	c.t.Helper()
	if !eqSeq(got, want) {
		c.fail("result", "got %v (len %d), documented result %v (len %d)", got, len(got), want, len(want))
	}
}

func expectSeqs[T comparable](c *kase, got, want [][]T) {
	c.t.Helper()
	ok := len(got) == len(want)
	for i := 0; ok && i < len(got); i++ {
		ok = eqSeq(got[i], want[i])
	}
	if !ok {
		c.fail("result", "got %v, documented result %v", got, want)
	}
}

func eqMap[K comparable, V comparable](a, b map[K]V) bool {
	if len(a) != len(b) {
		return false
	}
	for k, v := range a {
		if w, ok := b[k]; !ok || w != v {
			return false
		}
	}
	return true
}

func expectMap[K comparable, V comparable](c *kase, got, want map[K]V) {
	c.t.Helper()
	if !eqMap(got, want) {
		c.fail("result", "got %v, documented result %v", got, want)
	}
}

func expectBool(c *kase, got, want bool) {
	c.t.Helper()
	if got != want {
		c.fail("result", "got %v, documented result %v", got, want)
	}
}

func isPrefix[T comparable](p, s []T) bool { return len(p) <= len(s) && eqSeq(p, s[:len(p)]) }
func isSuffix[T comparable](p, s []T) bool { return len(p) <= len(s) && eqSeq(p, s[len(s)-len(p):]) }

func minInt(a, b int) int {
	if a < b {
		return a
	}
	return b
}

// ---------------------------------------------------------------- function families

func pm(v, k int) int { return ((v % k) + k) % k }

// predSpec is a predicate over the projection of an element (and, for the
// indexed helpers, its index).
type predSpec struct{ kind, k, r, c int }

func drawPred(c *kase, t *rapid.T, indexed bool) predSpec {
	maxKind := 3
	if indexed {
		maxKind = 5
	}
	p := predSpec{kind: rapid.IntRange(0, maxKind).Draw(t, "pred.kind")}
	p.k = rapid.IntRange(1, 4).Draw(t, "pred.k")
	p.r = rapid.IntRange(0, p.k-1).Draw(t, "pred.r")
	p.c = rapid.IntRange(-3, 12).Draw(t, "pred.c")
	c.note("pred=%s", p)
	return p
}

func (p predSpec) String() string {
	switch p.kind {
	case 0:
		return fmt.Sprintf("proj(x)%%%d==%d", p.k, p.r)
	case 1:
		return fmt.Sprintf("proj(x)<%d", p.c)
	case 2:
		return "true"
	case 3:
		return "false"
	case 4:
		return "i%2==0"
	default:
		return fmt.Sprintf("(proj(x)+i)%%%d==%d", p.k, p.r)
	}
}

func (p predSpec) on(v, i int) bool {
	switch p.kind {
	case 0:
		return pm(v, p.k) == p.r
	case 1:
		return v < p.c
	case 2:
		return true
	case 3:
		return false
	case 4:
		return i%2 == 0
	default:
		return pm(v+i, p.k) == p.r
	}
}

// ---------------------------------------------------------------- count helpers (shared with the directed / exhaustive parts)

// The docs are silent about count <= 0 for Take/TakeLast/Drop/DropLast: the
// oracle then only asks for a prefix (resp. suffix) of the input, which
// accepts "whole list" and "empty list" alike but not an over-read.

func checkTake[T comparable](c *kase, w *window[T], k int) {
	var got []T
	c.call(func() { got = fpgo.Take(k, w.s()...) })
	d := w.data()
	if k > 0 {
		expectSeq(c, got, d[:minInt(k, len(d))])
	} else if !isPrefix(got, d) {
		c.fail("result", "got %v: not a prefix of the input", got)
	}
}

func checkTakeLast[T comparable](c *kase, w *window[T], k int) {
	var got []T
	c.call(func() { got = fpgo.TakeLast(k, w.s()...) })
	d := w.data()
	if k > 0 {
		expectSeq(c, got, d[len(d)-minInt(k, len(d)):])
	} else if !isSuffix(got, d) {
		c.fail("result", "got %v: not a suffix of the input", got)
	}
}

func checkDrop[T comparable](c *kase, w *window[T], k int) {
	var got []T
	c.call(func() { got = fpgo.Drop(k, w.s()...) })
	d := w.data()
	if k > 0 {
		expectSeq(c, got, d[minInt(k, len(d)):])
	} else if !isSuffix(got, d) {
		c.fail("result", "got %v: not a suffix of the input", got)
	}
}

func checkDropLast[T comparable](c *kase, w *window[T], k int) {
	var got []T
	c.call(func() { got = fpgo.DropLast(k, w.s()...) })
	d := w.data()
	if k > 0 {
		expectSeq(c, got, d[:len(d)-minInt(k, len(d))])
	} else if !isPrefix(got, d) {
		c.fail("result", "got %v (len %d): not a prefix of the input (len %d)", got, len(got), len(d))
	}
}

func checkSplitEvery[T comparable](c *kase, w *window[T], size int) {
	var got [][]T
	c.call(func() { got = fpgo.SplitEvery(size, w.s()...) })
	d := w.data()
	// always: the groups concatenated give back the input
	var flat []T
	for _, g := range got {
		flat = append(flat, g...)
	}
	if !eqSeq(flat, d) {
		c.fail("result", "groups %v do not concatenate to the input", got)
	}
	if size <= 0 || len(d) <= 1 {
		return // grouping itself is not documented there
	}
	var want [][]T
	for i := 0; i < len(d); i += size {
		want = append(want, d[i:minInt(i+size, len(d))])
	}
	expectSeqs(c, got, want)
}

type countCheck struct {
	name string
	run  func(c *kase, w *window[int], k int)
}

var countChecks = []countCheck{
	{"Take", checkTake[int]},
	{"TakeLast", checkTakeLast[int]},
	{"Drop", checkDrop[int]},
	{"DropLast", checkDropLast[int]},
	{"SplitEvery", checkSplitEvery[int]},
}

func countLabel(helper string) string {
	if helper == "SplitEvery" {
		return "size"
	}
	return "count"
}

// directed is a JSON-serialisable case of one of the count helpers over int.
type directed struct {
	Helper string `json:"helper"`
	Data   []int  `json:"data"`
	Nil    bool   `json:"nil"`
	Pre    int    `json:"pre"`
	Post   int    `json:"post"`
	Count  int    `json:"count"`
}

func runDirected(t tb, part string, d directed) {
	for _, cc := range countChecks {
		if cc.name != d.Helper {
			continue
		}
		c := newKase(t, cc.name, "int")
		c.part = part
		w := mkWindow(elemInt, d.Data, d.Pre, d.Post, d.Nil)
		track(c, "list", w)
		noteCount(c, countLabel(cc.name), d.Count, len(d.Data))
		cc.run(c, w, d.Count)
		c.done()
		return
	}
	t.Fatalf("unknown helper %q in directed case", d.Helper)
}

// ---------------------------------------------------------------- helpers over any comparable element type

type runFn func(t *rapid.T)

func seqHelpers[T comparable](e elem[T]) map[string]runFn {
	h := map[string]runFn{}
	typ := e.name
	draw1 := func(t *rapid.T, label string) T { return e.gen.Draw(t, label) }

	h["Map"] = func(t *rapid.T) {
		c := newKase(t, "Map", typ)
		w := win(c, t, e, "list", 10)
		a, b := rapid.IntRange(-2, 3).Draw(t, "a"), rapid.IntRange(-2, 3).Draw(t, "b")
		c.note("fn=x->%d*proj(x)+%d|x", a, b)
		fn := func(x T) string { return fmt.Sprintf("%d|%v", a*e.proj(x)+b, x) }
		var got, applied []string
		c.call(func() {
			got = fpgo.Map(func(x T) string { r := fn(x); applied = append(applied, r); return r }, w.s()...)
		})
		want := []string{}
		for _, x := range w.data() {
			want = append(want, fn(x))
		}
		expectSeq(c, got, want)
		// "Map the values to the function from left to right": one application per value, in that order
		if fmt.Sprint(applied) != fmt.Sprint(want) {
			c.fail("application-order", "the function was applied in the order %v, documented: from left to right, once per value (%v)", applied, want)
		}
		c.done()
	}

	h["MapIndexed"] = func(t *rapid.T) {
		c := newKase(t, "MapIndexed", typ)
		w := win(c, t, e, "list", 10)
		a := rapid.IntRange(-2, 3).Draw(t, "a")
		c.note("fn=(x,i)->%d*proj(x)+i|x@i", a)
		fn := func(x T, i int) string { return fmt.Sprintf("%d|%v@%d", a*e.proj(x)+i, x, i) }
		var got, applied []string
		c.call(func() {
			got = fpgo.MapIndexed(func(x T, i int) string { r := fn(x, i); applied = append(applied, r); return r }, w.s()...)
		})
		want := []string{}
		for i, x := range w.data() {
			want = append(want, fn(x, i))
		}
		expectSeq(c, got, want)
		if fmt.Sprint(applied) != fmt.Sprint(want) {
			c.fail("application-order", "the function was applied in the order %v, documented: from left to right, once per value (%v)", applied, want)
		}
		c.done()
	}

	filterLike := func(name string, keepWhen bool, call func(fn func(T, int) bool, in []T) []T) runFn {
		return func(t *rapid.T) {
			c := newKase(t, name, typ)
			w := win(c, t, e, "list", 10)
			p := drawPred(c, t, true)
			fn := func(x T, i int) bool { return p.on(e.proj(x), i) }
			var got []T
			c.call(func() { got = call(fn, w.s()) })
			var want []T
			for i, x := range w.data() {
				if fn(x, i) == keepWhen {
					want = append(want, x)
				}
			}
			expectSeq(c, got, want)
			c.done()
		}
	}
	h["Filter"] = filterLike("Filter", true, func(fn func(T, int) bool, in []T) []T { return fpgo.Filter(fn, in...) })
	h["Reject"] = filterLike("Reject", false, func(fn func(T, int) bool, in []T) []T { return fpgo.Reject(fn, in...) })

	h["Reduce"] = func(t *rapid.T) {
		c := newKase(t, "Reduce", typ)
		w := win(c, t, e, "list", 10)
		memo := rapid.SampledFrom([]string{"", "m"}).Draw(t, "memo")
		c.note("fn=(memo,x)->memo+','+x memo=%q", memo)
		fn := func(m string, x T) string { return fmt.Sprintf("%s,%v", m, x) } // not commutative: fixes the order
		var got string
		c.call(func() { got = fpgo.Reduce(fn, memo, w.s()...) })
		want := memo
		for _, x := range w.data() {
			want = fn(want, x)
		}
		if got != want {
			c.fail("result", "got %q, documented result %q", got, want)
		}
		c.done()
	}

	h["Concat"] = func(t *rapid.T) {
		c := newKase(t, "Concat", typ)
		mine := win(c, t, e, "mine", 6)
		n := rapid.IntRange(0, 3).Draw(t, "nslices")
		var ws []*window[T]
		var slices [][]T
		for i := 0; i < n; i++ {
			w := win(c, t, e, fmt.Sprintf("s%d", i), 4)
			ws = append(ws, w)
			slices = append(slices, w.s())
		}
		var got []T
		c.call(func() { got = fpgo.Concat(mine.s(), slices...) })
		want := append([]T(nil), mine.data()...)
		for _, w := range ws {
			want = append(want, w.data()...)
		}
		expectSeq(c, got, want)
		c.done()
	}

	h["Flatten"] = func(t *rapid.T) {
		c := newKase(t, "Flatten", typ)
		n := rapid.IntRange(0, 4).Draw(t, "nslices")
		var ws []*window[T]
		var slices [][]T
		for i := 0; i < n; i++ {
			w := win(c, t, e, fmt.Sprintf("s%d", i), 4)
			ws = append(ws, w)
			slices = append(slices, w.s())
		}
		if n >= 2 {
			c.nt = true
		}
		var got []T
		c.call(func() { got = fpgo.Flatten(slices...) })
		var want []T
		for _, w := range ws {
			want = append(want, w.data()...)
		}
		expectSeq(c, got, want)
		c.done()
	}

	h["Distinct"] = func(t *rapid.T) {
		c := newKase(t, "Distinct", typ)
		w := win(c, t, e, "list", 10)
		var got []T
		c.call(func() { got = fpgo.Distinct(w.s()...) })
		// first occurrences, in order
		var want []T
		d := w.data()
		for i, x := range d {
			seen := false
			for j := 0; j < i; j++ {
				if d[j] == x {
					seen = true
				}
			}
			if !seen {
				want = append(want, x)
			}
		}
		expectSeq(c, got, want)
		c.done()
	}

	h["Dedupe"] = func(t *rapid.T) {
		c := newKase(t, "Dedupe", typ)
		w := win(c, t, e, "list", 10)
		var got []T
		c.call(func() { got = fpgo.Dedupe(w.s()...) })
		// removing consecutive duplicates
		var want []T
		d := w.data()
		for i, x := range d {
			if i == 0 || d[i-1] != x {
				want = append(want, x)
			}
		}
		expectSeq(c, got, want)
		c.done()
	}

	h["DropEq"] = func(t *rapid.T) {
		c := newKase(t, "DropEq", typ)
		w := win(c, t, e, "list", 10)
		item := draw1(t, "item")
		c.note("item=%v", item)
		var got []T
		c.call(func() { got = fpgo.DropEq(item, w.s()...) })
		var want []T
		for _, x := range w.data() {
			if x != item {
				want = append(want, x)
			}
		}
		expectSeq(c, got, want)
		c.done()
	}

	countHelper := func(name string, chk func(c *kase, w *window[T], k int)) runFn {
		return func(t *rapid.T) {
			c := newKase(t, name, typ)
			w := win(c, t, e, "list", 10)
			k := count(c, t, countLabel(name), len(w.data()))
			chk(c, w, k)
			c.done()
		}
	}
	h["Take"] = countHelper("Take", checkTake[T])
	h["TakeLast"] = countHelper("TakeLast", checkTakeLast[T])
	h["Drop"] = countHelper("Drop", checkDrop[T])
	h["DropLast"] = countHelper("DropLast", checkDropLast[T])
	h["SplitEvery"] = countHelper("SplitEvery", checkSplitEvery[T])

	h["DropWhile"] = func(t *rapid.T) {
		c := newKase(t, "DropWhile", typ)
		w := win(c, t, e, "list", 10)
		if rapid.IntRange(0, 15).Draw(t, "nilpred") == 0 {
			// documented: "Empty list if either one of arguments or both of them are nil"
			c.note("pred=nil")
			var got []T
			c.call(func() { got = fpgo.DropWhile[T](nil, w.s()...) })
			expectSeq(c, got, nil)
			c.done()
			return
		}
		p := drawPred(c, t, false)
		fn := func(x T) bool { return p.on(e.proj(x), 0) }
		var got []T
		c.call(func() { got = fpgo.DropWhile(fn, w.s()...) })
		d := w.data()
		i := 0
		for i < len(d) && fn(d[i]) {
			i++
		}
		expectSeq(c, got, d[i:])
		c.done()
	}

	h["Head"] = func(t *rapid.T) {
		c := newKase(t, "Head", typ)
		w := win(c, t, e, "list", 6)
		var got T
		c.call(func() { got = fpgo.Head(w.s()...) })
		if d := w.data(); len(d) > 0 && got != d[0] {
			c.fail("result", "got %v, first element is %v", got, d[0])
		}
		// empty input: only totality (the doc does not say what is returned)
		c.done()
	}

	h["Tail"] = func(t *rapid.T) {
		c := newKase(t, "Tail", typ)
		w := win(c, t, e, "list", 8)
		var got []T
		c.call(func() { got = fpgo.Tail(w.s()...) })
		d := w.data()
		if len(d) > 0 {
			d = d[1:]
		}
		expectSeq(c, got, d)
		c.done()
	}

	h["Reverse"] = func(t *rapid.T) {
		c := newKase(t, "Reverse", typ)
		w := win(c, t, e, "list", 10)
		var got []T
		c.call(func() { got = fpgo.Reverse(w.s()...) })
		d := w.data()
		want := make([]T, len(d))
		for i := range d {
			want[len(d)-1-i] = d[i]
		}
		expectSeq(c, got, want)
		c.done()
	}

	h["Prepend"] = func(t *rapid.T) {
		c := newKase(t, "Prepend", typ)
		w := win(c, t, e, "list", 8)
		item := draw1(t, "item")
		c.note("item=%v", item)
		var got []T
		c.call(func() { got = fpgo.Prepend(item, w.s()) })
		want := []T{item}
		want = append(want, w.data()...)
		expectSeq(c, got, want)
		c.done()
	}

	h["Partition"] = func(t *rapid.T) {
		c := newKase(t, "Partition", typ)
		w := win(c, t, e, "list", 10)
		p := drawPred(c, t, false)
		fn := func(x T) bool { return p.on(e.proj(x), 0) }
		var got [][]T
		c.call(func() { got = fpgo.Partition(fn, w.s()...) })
		var yes, no []T
		for _, x := range w.data() {
			if fn(x) {
				yes = append(yes, x)
			} else {
				no = append(no, x)
			}
		}
		expectSeqs(c, got, [][]T{yes, no})
		c.done()
	}

	h["GroupBy"] = func(t *rapid.T) {
		c := newKase(t, "GroupBy", typ)
		w := win(c, t, e, "list", 10)
		k := rapid.IntRange(1, 4).Draw(t, "k")
		c.note("grouper=proj(x)%%%d", k)
		fn := func(x T) int { return pm(e.proj(x), k) }
		var got map[int][]T
		c.call(func() { got = fpgo.GroupBy(fn, w.s()...) })
		want := map[int][]T{}
		for _, x := range w.data() {
			want[fn(x)] = append(want[fn(x)], x)
		}
		ok := len(got) == len(want)
		for id, g := range want {
			if !eqSeq(got[id], g) {
				ok = false
			}
		}
		if !ok {
			c.fail("result", "got %v, documented result %v", got, want)
		}
		c.done()
	}

	h["UniqBy"] = func(t *rapid.T) {
		c := newKase(t, "UniqBy", typ)
		w := win(c, t, e, "list", 10)
		k := rapid.IntRange(1, 5).Draw(t, "k")
		c.note("identify=proj(x)%%%d", k)
		fn := func(x T) int { return pm(e.proj(x), k) }
		var got []T
		c.call(func() { got = fpgo.UniqBy(fn, w.s()...) })
		var want []T
		var ids []int
		for _, x := range w.data() {
			seen := false
			for _, id := range ids {
				if id == fn(x) {
					seen = true
				}
			}
			if !seen {
				ids = append(ids, fn(x))
				want = append(want, x)
			}
		}
		expectSeq(c, got, want)
		c.done()
	}

	h["Zip"] = func(t *rapid.T) {
		c := newKase(t, "Zip", typ)
		w1 := win(c, t, e, "keys", 8)
		w2 := win(c, t, elemString, "values", 8)
		var got map[T]string
		c.call(func() { got = fpgo.Zip(w1.s(), w2.s()) })
		// pairs up to the shorter length; a later duplicate key wins
		want := map[T]string{}
		k, v := w1.data(), w2.data()
		for i := 0; i < minInt(len(k), len(v)); i++ {
			want[k[i]] = v[i]
		}
		expectMap(c, got, want)
		c.done()
	}

	h["Every"] = func(t *rapid.T) {
		c := newKase(t, "Every", typ)
		w := win(c, t, e, "list", 8)
		if rapid.IntRange(0, 15).Draw(t, "nilpred") == 0 {
			c.note("pred=nil") // documented: Every(nil) returns false
			var got bool
			c.call(func() { got = fpgo.Every[T](nil, w.s()...) })
			expectBool(c, got, false)
			c.done()
			return
		}
		p := drawPred(c, t, false)
		fn := func(x T) bool { return p.on(e.proj(x), 0) }
		var got bool
		c.call(func() { got = fpgo.Every(fn, w.s()...) })
		d := w.data()
		if len(d) > 0 { // empty list: fpGo's documented convention is false, mathematics says true: totality only
			want := true
			for _, x := range d {
				if !fn(x) {
					want = false
				}
			}
			expectBool(c, got, want)
		}
		c.done()
	}

	h["Some"] = func(t *rapid.T) {
		c := newKase(t, "Some", typ)
		w := win(c, t, e, "list", 8)
		if rapid.IntRange(0, 15).Draw(t, "nilpred") == 0 {
			c.note("pred=nil") // documented: Some(nil) returns false
			var got bool
			c.call(func() { got = fpgo.Some[T](nil, w.s()...) })
			expectBool(c, got, false)
			c.done()
			return
		}
		p := drawPred(c, t, false)
		fn := func(x T) bool { return p.on(e.proj(x), 0) }
		var got bool
		c.call(func() { got = fpgo.Some(fn, w.s()...) })
		want := false
		for _, x := range w.data() {
			if fn(x) {
				want = true
			}
		}
		expectBool(c, got, want)
		c.done()
	}

	h["Exists"] = func(t *rapid.T) {
		c := newKase(t, "Exists", typ)
		w := win(c, t, e, "list", 8)
		item := draw1(t, "item")
		c.note("item=%v", item)
		var got bool
		c.call(func() { got = fpgo.Exists(item, w.s()...) })
		want := false
		for _, x := range w.data() {
			if x == item {
				want = true
			}
		}
		expectBool(c, got, want)
		c.done()
	}

	h["IsEqual"] = func(t *rapid.T) {
		c := newKase(t, "IsEqual", typ)
		w1 := win(c, t, e, "list1", 8)
		var w2 *window[T]
		mode := rapid.IntRange(0, 4).Draw(t, "mode")
		if mode == 4 {
			// both arguments are views of ONE backing array (a list and a prefix / suffix / the list itself)
			s1 := w1.s()
			lo, hi := 0, len(s1)
			if len(s1) > 0 {
				switch rapid.IntRange(0, 2).Draw(t, "view") {
				case 0:
					hi = rapid.IntRange(0, len(s1)).Draw(t, "hi")
				case 1:
					lo = rapid.IntRange(0, len(s1)).Draw(t, "lo")
				}
			}
			s2 := s1[lo:hi]
			a, b := s1, s2
			if rapid.Bool().Draw(t, "swap") {
				a, b = b, a
			}
			var got bool
			c.call(func() { got = fpgo.IsEqual(a, b) })
			if len(a) > 0 || len(b) > 0 {
				expectBool(c, got, eqSeq(a, b))
			}
			c.done()
			return
		}
		if mode == 0 {
			w2 = win(c, t, e, "list2", 8)
		} else {
			// a copy of list1 in its own backing array, possibly perturbed
			d := append([]T(nil), w1.data()...)
			if mode == 2 && len(d) > 0 {
				d[rapid.IntRange(0, len(d)-1).Draw(t, "at")] = draw1(t, "new")
			}
			if mode == 3 && len(d) > 0 {
				d = d[:len(d)-1]
			}
			w2 = mkWindow(e, d, rapid.IntRange(0, 1).Draw(t, "pre2"), rapid.IntRange(0, 2).Draw(t, "post2"), false)
			track(c, "list2", w2)
		}
		var got bool
		c.call(func() { got = fpgo.IsEqual(w1.s(), w2.s()) })
		d1, d2 := w1.data(), w2.data()
		if len(d1) > 0 || len(d2) > 0 { // two empty lists: fpGo answers false by convention: totality only
			expectBool(c, got, eqSeq(d1, d2))
		}
		c.done()
	}

	h["IsDistinct"] = func(t *rapid.T) {
		c := newKase(t, "IsDistinct", typ)
		w := win(c, t, e, "list", 6)
		var got bool
		c.call(func() { got = fpgo.IsDistinct(w.s()...) })
		if d := w.data(); len(d) > 0 { // empty list: convention (false), totality only
			expectBool(c, got, !hasDup(d))
		}
		c.done()
	}

	h["SliceToMap"] = func(t *rapid.T) {
		c := newKase(t, "SliceToMap", typ)
		w := win(c, t, e, "list", 8)
		def := rapid.IntRange(-1, 2).Draw(t, "default")
		c.note("default=%d", def)
		var got map[T]int
		c.call(func() { got = fpgo.SliceToMap(def, w.s()...) })
		want := map[T]int{}
		for _, x := range w.data() {
			want[x] = def
		}
		expectMap(c, got, want)
		c.done()
	}

	h["DuplicateSlice"] = func(t *rapid.T) {
		c := newKase(t, "DuplicateSlice", typ)
		w := win(c, t, e, "list", 8)
		var got []T
		c.call(func() { got = fpgo.DuplicateSlice(w.s()) })
		expectSeq(c, got, w.data())
		// "Return a new Slice": writing to / appending to the copy must not reach the input
		for i := range got {
			got[i] = e.sent(500 + i)
		}
		got = append(got, e.sent(600))
		_ = got
		for _, chk := range c.pres {
			if m := chk(); m != "" {
				c.fail("aliases-input", "after writing to the returned slice: %s", m)
			}
		}
		c.done()
	}

	// ---- maps keyed by T

	h["Keys"] = func(t *rapid.T) {
		c := newKase(t, "Keys", typ)
		m := drawMap(c, t, e, "m")
		var got []T
		c.call(func() { got = fpgo.Keys(m.m) })
		ok := len(got) == len(m.snap) && !hasDup(got)
		for _, k := range got {
			if _, in := m.snap[k]; !in {
				ok = false
			}
		}
		if !ok {
			c.fail("result", "got %v: not exactly the keys of the map", got)
		}
		c.done()
	}

	h["Values"] = func(t *rapid.T) {
		c := newKase(t, "Values", typ)
		m := drawMap(c, t, e, "m")
		var got []int
		c.call(func() { got = fpgo.Values(m.m) })
		var want []int
		for _, v := range m.snap {
			want = append(want, v)
		}
		g := append([]int(nil), got...)
		sort.Ints(g)
		sort.Ints(want)
		if !eqSeq(g, want) {
			c.fail("result", "got %v: not the multiset of values %v", got, want)
		}
		c.done()
	}

	h["Merge"] = func(t *rapid.T) {
		c := newKase(t, "Merge", typ)
		m1 := drawMap(c, t, e, "map1")
		m2 := drawMap(c, t, e, "map2")
		var got map[T]int
		c.call(func() { got = fpgo.Merge(m1.m, m2.m) })
		want := map[T]int{}
		for k, v := range m1.snap {
			want[k] = v
		}
		for k, v := range m2.snap { // the second map is merged into the first: its entries win
			want[k] = v
		}
		expectMap(c, got, want)
		c.done()
	}

	h["IsEqualMap"] = func(t *rapid.T) {
		c := newKase(t, "IsEqualMap", typ)
		m1 := drawMap(c, t, e, "map1")
		var m2 *mapIn[T]
		mode := rapid.IntRange(0, 3).Draw(t, "mode")
		if mode == 0 {
			m2 = drawMap(c, t, e, "map2")
		} else {
			cp := map[T]int{}
			for k, v := range m1.snap {
				cp[k] = v
			}
			if mode == 2 && len(cp) > 0 {
				// change one value (key chosen deterministically: smallest projection, then textual form)
				cp[pickKey(cp, e)]++
			}
			if mode == 3 && len(cp) > 0 {
				k := pickKey(cp, e)
				v := cp[k]
				delete(cp, k)
				cp[e.sent(0)] = v // same size, one different key
			}
			m2 = trackMap(c, "map2", cp, false)
		}
		var got bool
		c.call(func() { got = fpgo.IsEqualMap(m1.m, m2.m) })
		if len(m1.snap) > 0 || len(m2.snap) > 0 { // two empty maps: convention (false), totality only
			expectBool(c, got, eqMap(m1.snap, m2.snap))
		}
		c.done()
	}

	h["DuplicateMap"] = func(t *rapid.T) {
		c := newKase(t, "DuplicateMap", typ)
		m := drawMap(c, t, e, "m")
		var got map[T]int
		c.call(func() { got = fpgo.DuplicateMap(m.m) })
		expectMap(c, got, m.snap)
		// "Return a new Map": writing to the copy must not reach the input
		if got != nil {
			for k := range m.snap {
				got[k] = -99
			}
			got[e.sent(1)] = -98
			for _, chk := range c.pres {
				if msg := chk(); msg != "" {
					c.fail("aliases-input", "after writing to the returned map: %s", msg)
				}
			}
		}
		c.done()
	}

	return h
}

// ---------------------------------------------------------------- map inputs

type mapIn[K comparable] struct {
	m, snap map[K]int
}

func pickKey[K comparable](m map[K]int, e elem[K]) K {
	type kv struct {
		k K
		s string
	}
	var ks []kv
	for k := range m {
		ks = append(ks, kv{k, fmt.Sprintf("%06d|%v", e.proj(k)+1000, k)})
	}
	sort.Slice(ks, func(i, j int) bool { return ks[i].s < ks[j].s })
	return ks[0].k
}

func drawMap[K comparable](c *kase, t *rapid.T, e elem[K], label string) *mapIn[K] {
	shape := rapid.IntRange(0, 7).Draw(t, label+".shape")
	if shape == 0 {
		return trackMap[K](c, label, nil, true)
	}
	n := 0
	switch {
	case shape == 1:
		n = 0
	case shape == 2:
		n = 1
	default:
		n = rapid.IntRange(2, 6).Draw(t, label+".n")
	}
	m := map[K]int{}
	for i := 0; i < n; i++ {
		m[e.gen.Draw(t, label+".key")] = rapid.IntRange(0, 3).Draw(t, label+".val")
	}
	return trackMap(c, label, m, false)
}

func trackMap[K comparable](c *kase, label string, m map[K]int, isNil bool) *mapIn[K] {
	in := &mapIn[K]{snap: map[K]int{}}
	if !isNil {
		in.m = map[K]int{}
	}
	for k, v := range m {
		in.m[k] = v
		in.snap[k] = v
	}
	c.pres = append(c.pres, func() string {
		if (in.m == nil) != isNil {
			return "input " + label + " nil-ness changed"
		}
		if !eqMap(in.m, in.snap) {
			return fmt.Sprintf("input map %s modified: was %v, now %v", label, in.snap, in.m)
		}
		return ""
	})
	// values with duplicates are what makes Values / IsEqualMap interesting
	vals := []int{}
	for _, v := range in.snap {
		vals = append(vals, v)
	}
	dup := hasDup(vals)
	c.note("%s=%v(nil=%v)", label, in.snap, isNil)
	c.class = append(c.class, fmt.Sprintf("len(%s)=%d dupvals=%v nil=%v", label, len(in.snap), dup, isNil))
	if len(in.snap) >= 2 || dup {
		c.nt = true
	}
	return in
}

// ---------------------------------------------------------------- numeric helpers

func numHelpers[T fpgo.Numeric](e elem[T]) map[string]runFn {
	h := map[string]runFn{}
	typ := e.name
	ref := func(d []T) (T, T) {
		var lo, hi T // documented: 0 for an empty or nil list
		for i, x := range d {
			if i == 0 || x < lo {
				lo = x
			}
			if i == 0 || x > hi {
				hi = x
			}
		}
		return lo, hi
	}
	h["Min"] = func(t *rapid.T) {
		c := newKase(t, "Min", typ)
		w := win(c, t, e, "list", 8)
		var got T
		c.call(func() { got = fpgo.Min(w.s()...) })
		if want, _ := ref(w.data()); got != want {
			c.fail("result", "got %v, documented result %v", got, want)
		}
		c.done()
	}
	h["Max"] = func(t *rapid.T) {
		c := newKase(t, "Max", typ)
		w := win(c, t, e, "list", 8)
		var got T
		c.call(func() { got = fpgo.Max(w.s()...) })
		if _, want := ref(w.data()); got != want {
			c.fail("result", "got %v, documented result %v", got, want)
		}
		c.done()
	}
	h["MinMax"] = func(t *rapid.T) {
		c := newKase(t, "MinMax", typ)
		w := win(c, t, e, "list", 8)
		var gotLo, gotHi T
		c.call(func() { gotLo, gotHi = fpgo.MinMax(w.s()...) })
		if lo, hi := ref(w.data()); gotLo != lo || gotHi != hi {
			c.fail("result", "got (%v,%v), documented result (%v,%v)", gotLo, gotHi, lo, hi)
		}
		c.done()
	}
	return h
}

// rangeHelper checks Range over a numeric type whose values are conv(q) for
// integer q (int: q itself; float64: q/4, exactly representable, so that
// repeated addition and multiplication agree and the oracle is exact).
func rangeHelper[T fpgo.Numeric](typ string, conv func(q int) T) runFn {
	return func(t *rapid.T) {
		c := newKase(t, "Range", typ)
		lower := rapid.IntRange(-1000, 960).Draw(t, "lower")
		if rapid.Bool().Draw(t, "small") {
			lower = rapid.IntRange(-6, 6).Draw(t, "lower.small")
		}
		span := rapid.IntRange(-5, 40).Draw(t, "span")
		higher := lower + span
		nhops := rapid.IntRange(0, 1).Draw(t, "nhops")
		hop := 1
		if typ == "float64" && nhops == 0 {
			hop = 4 // default hop 1 == 4 quarter units
		}
		var hops []T
		if nhops == 1 {
			hop = rapid.IntRange(-3, 9).Draw(t, "hop")
			hops = []T{conv(hop)}
		}
		c.note("lower=%v higher=%v hops=%v", conv(lower), conv(higher), hops)
		c.class = append(c.class, fmt.Sprintf("span=%d hop=%d nhops=%d", span, hop, nhops))
		c.cell = "[" + hopClass(nhops, hop) + "]"
		if span >= 2 || hop <= 0 {
			c.nt = true
		}
		var got []T
		c.call(func() { got = fpgo.Range(conv(lower), conv(higher), hops...) })
		var want []T
		if hop > 0 { // documented: empty list if the hop is 0 or negative
			for q := lower; q < higher; q += hop {
				want = append(want, conv(q))
			}
		}
		expectSeq(c, got, want)
		c.done()
	}
}

func hopClass(nhops, hop int) string {
	switch {
	case nhops == 0:
		return "no hop"
	case hop < 0:
		return "hop<0"
	case hop == 0:
		return "hop=0"
	default:
		return "hop>0"
	}
}

// ---------------------------------------------------------------- registry

// registry maps a helper name to its instantiations (one per element type).
var registry = buildRegistry()
var helperNames = sortedNames(registry)

func buildRegistry() map[string][]runFn {
	r := map[string][]runFn{}
	add := func(m map[string]runFn) {
		for k, f := range m {
			r[k] = append(r[k], f)
		}
	}
	add(seqHelpers(elemInt))
	add(seqHelpers(elemString))
	add(seqHelpers(elemPt))
	add(numHelpers(elemInt))
	add(numHelpers(elemFloat))
	add(numHelpers(elemUint8))
	add(numHelpers(elemInt64Wide))
	add(numHelpers(elemUint64Wide))
	add(numHelpers(elemFloatWide))
	add(numHelpers(elemFloat32Wide))
	r["Range"] = []runFn{
		rangeHelper("int", func(q int) int { return q }),
		rangeHelper("float64", func(q int) float64 { return float64(q) / 4 }),
	}
	return r
}

func sortedNames(r map[string][]runFn) []string {
	var n []string
	for k := range r {
		n = append(n, k)
	}
	sort.Strings(n)
	return n
}

// the helpers named by the property statement: the registry must cover them all
var statementHelpers = []string{"Map", "MapIndexed", "Filter", "Reject", "Reduce", "Concat", "Flatten", "Distinct",
	"Dedupe", "DropEq", "Drop", "DropLast", "DropWhile", "Take", "TakeLast", "Head", "Tail", "Reverse", "Prepend",
	"Partition", "SplitEvery", "GroupBy", "UniqBy", "Zip", "Range", "Keys", "Values", "Merge", "Min", "Max", "MinMax",
	"Every", "Some", "Exists", "IsEqual", "IsEqualMap", "IsDistinct", "SliceToMap", "DuplicateSlice", "DuplicateMap"}

func propHelper(name string) func(t *rapid.T) {
	runs := registry[name]
	return func(t *rapid.T) {
		i := 0
		if len(runs) > 1 {
			i = rapid.IntRange(0, len(runs)-1).Draw(t, "type")
		}
		runs[i](t)
	}
}

func propAny(t *rapid.T) {
	name := helperNames[rapid.IntRange(0, len(helperNames)-1).Draw(t, "helper")]
	propHelper(name)(t)
}
