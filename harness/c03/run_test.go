package c03

import (
	"encoding/json"
	"os"
	"path/filepath"
	"strings"
	"testing"

	"pgregory.net/rapid"

	"verifharness/vlib"
)

// ---------------------------------------------------------------- regressions (run first in both tiers)

var regressions = []directed{
	// DESIGN §4 #5: DropLast with a negative count sliced past len: with spare
	// capacity it returned the elements beyond the end of the input ...
	{Helper: "DropLast", Data: []int{1, 2}, Pre: 0, Post: 1, Count: -1},
	{Helper: "DropLast", Data: []int{1}, Pre: 1, Post: 3, Count: -3},
	// ... and without spare capacity it panicked (slice bounds out of range)
	{Helper: "DropLast", Data: []int{1, 2}, Pre: 0, Post: 0, Count: -1},
	{Helper: "DropLast", Data: []int{7}, Pre: 0, Post: 0, Count: -2},
	// neighbours that must keep working
	{Helper: "DropLast", Data: []int{1, 2, 3}, Post: 2, Count: 0},
	{Helper: "DropLast", Data: []int{1, 2, 3}, Post: 2, Count: 1},
	{Helper: "DropLast", Data: []int{1, 2, 3}, Post: 2, Count: 3},
	{Helper: "DropLast", Data: []int{1, 2, 3}, Post: 2, Count: 5},
	{Helper: "DropLast", Nil: true, Count: -1},
	{Helper: "DropLast", Data: []int{}, Post: 2, Count: -1},
	{Helper: "Drop", Data: []int{1, 2}, Pre: 1, Post: 1, Count: -1},
	{Helper: "Take", Data: []int{1, 2}, Pre: 1, Post: 1, Count: -1},
	{Helper: "TakeLast", Data: []int{1, 2}, Pre: 1, Post: 1, Count: -1},
	{Helper: "SplitEvery", Data: []int{1, 2, 3}, Pre: 1, Post: 1, Count: -1},
}

func TestRegress(t *testing.T) {
	if vlib.Replaying() {
		t.Skip()
	}
	for _, d := range regressions {
		runDirectedT(t, "regress", d)
	}
}

// dirT wraps a *testing.T for the directed / exhaustive parts: a replay
// document is written right before a failure is reported (there is no rapid
// fail file), and "skip this case" (known finding) unwinds only the case.
type dirT struct {
	*testing.T
	doc directed
}

type skipCase struct{}

func (h dirT) Fatalf(format string, args ...any) {
	h.T.Helper()
	vlib.WriteReplay("C03/count-case", h.doc)
	h.T.Fatalf(format, args...)
}

func (h dirT) Skip(args ...any) { panic(skipCase{}) }

func runDirectedT(t *testing.T, part string, d directed) {
	defer func() {
		if r := recover(); r != nil {
			if _, ok := r.(skipCase); !ok {
				panic(r)
			}
		}
	}()
	runDirected(dirT{t, d}, part, d)
}

func TestReplayJSON(t *testing.T) {
	raw := vlib.ReplayCase("C03/count-case")
	if raw == nil {
		t.Skip("no replay case")
	}
	var d directed
	if err := json.Unmarshal(raw, &d); err != nil {
		t.Fatalf("bad replay: %v", err)
	}
	runDirected(t, "replay", d)
}

// ---------------------------------------------------------------- coverage of the statement

func TestCoverage(t *testing.T) {
	for _, n := range statementHelpers {
		if len(registry[n]) == 0 {
			t.Fatalf("helper %s of the property statement has no check", n)
		}
	}
}

// ---------------------------------------------------------------- bounded-exhaustive: count helpers

// Every (helper, len 0..6, nil, spare capacity before/after, count in
// [-3,len+3]) combination of the five count/size helpers over int.
func TestCountsExhaustive(t *testing.T) {
	if vlib.Replaying() {
		t.Skip()
	}
	s := vlib.S()
	var idx int
	for _, cc := range countChecks {
		for n := -1; n <= 6; n++ { // -1 = nil slice
			for pre := 0; pre <= 1; pre++ {
				for post := 0; post <= 2; post++ {
					ln := n
					if n < 0 {
						ln = 0
					}
					for k := -3; k <= ln+3; k++ {
						idx++
						if idx%vlib.Shards() != vlib.Shard() {
							continue
						}
						d := directed{Helper: cc.name, Nil: n < 0, Pre: pre, Post: post, Count: k}
						for i := 0; i < ln; i++ {
							d.Data = append(d.Data, 1+i%4) // 1,2,3,4,1,2: duplicates from len 5
						}
						if n < 0 && (pre > 0 || post > 0) {
							continue
						}
						runDirectedT(t, "counts-exhaustive", d)
					}
				}
			}
		}
	}
	s.Exhaustive("counts-exhaustive")
	if vlib.Shard() == 0 {
		s.Note("counts-exhaustive: Take/TakeLast/Drop/DropLast/SplitEvery over int, len 0..6 and nil, 0..1 sentinel cells before and 0..2 after the slice, every count in [-3,len+3] (split over %d shards)", vlib.Shards())
	}
}

// ---------------------------------------------------------------- random cases (rapid), one part per helper

func TestHelpers(t *testing.T) {
	for _, name := range helperNames {
		name := name
		t.Run(name, func(t *testing.T) {
			replayFilter(t)
			vlib.Check(t, name, 10000, 150000, propHelper(name))
		})
	}
}

// FuzzHelpers drives the same property bodies with coverage-guided bytes
// (helper id first, then the helper's draws).
func FuzzHelpers(f *testing.F) {
	f.Add([]byte{})
	f.Add([]byte{0, 0, 0, 0, 0, 0, 0, 7, 0, 0, 0, 0, 0, 0, 0, 3})
	f.Fuzz(rapid.MakeFuzz(propAny))
}

// replayFilter skips a rapid-driven test when the process replays a saved
// case that belongs elsewhere: a JSON document (TestReplayJSON handles it) or
// the rapid fail file of another test.
func replayFilter(t *testing.T) {
	f := os.Getenv("VERIF_REPLAY_FILE")
	if f == "" {
		return
	}
	if !strings.HasSuffix(f, ".fail") {
		t.Skip("replaying a JSON case")
	}
	base := filepath.Base(f)
	name := strings.ReplaceAll(t.Name(), "/", "_")
	if strings.Contains(base, "Test") && !strings.Contains(base, name+"-") {
		t.Skip("fail file of another test")
	}
}
