package c04

// Adapters that give the generic family (StreamDef[int], MapSetDef[int,int],
// StreamSetDef[int,int]) and the interface{} family (StreamForInterfaceDef,
// SetForInterfaceDef, StreamSetForInterfaceDef) one int-based face, so that the
// interpreter and the reference model are written once.

import (
	"fmt"
	"unsafe"

	fpgo "github.com/TeaEntityLab/fpGo/v2"
)

const (
	nilElem = -1      // model value standing for a nil element of an interface{} stream
	badElem = 1 << 20 // an element of an unexpected dynamic type
)

func toI(v int) interface{} {
	if v == nilElem {
		return nil
	}
	return v
}

func fromI(x interface{}) int {
	switch t := x.(type) {
	case nil:
		return nilElem
	case int:
		return t
	}
	return badElem
}

// ELEMENTS of interface{} streams: the model values 5 and 6 are two DIFFERENT pointers to equal numbers.
// An element is what == says it is (the pointer), so 5 and 6 stay different elements although they are
// deeply equal; every other model value is a plain int. (Keys of sets stay plain ints.)
var ptrElem5, ptrElem6 = func() (*int, *int) { a, b := 100, 100; return &a, &b }()

func elemToI(v int) interface{} {
	switch v {
	case nilElem:
		return nil
	case 4:
		return (*int)(nil) // a typed nil pointer: an ordinary element (== itself), but "nil" for FilterNotNil
	case 5:
		return ptrElem5
	case 6:
		return ptrElem6
	}
	return v
}

func elemFromI(x interface{}) int {
	switch t := x.(type) {
	case nil:
		return nilElem
	case int:
		if t == 4 || t == 5 || t == 6 {
			return badElem
		}
		return t
	case *int:
		switch t {
		case nil:
			return 4
		case ptrElem5:
			return 5
		case ptrElem6:
			return 6
		}
	}
	return badElem
}

func elemsToI(in []int) []interface{} {
	if in == nil {
		return nil
	}
	out := make([]interface{}, len(in))
	for i, v := range in {
		out[i] = elemToI(v)
	}
	return out
}

func iToElems(in []interface{}) []int {
	out := make([]int, len(in))
	for i, v := range in {
		out[i] = elemFromI(v)
	}
	return out
}

func intsToI(in []int) []interface{} {
	if in == nil {
		return nil
	}
	out := make([]interface{}, len(in))
	for i, v := range in {
		out[i] = toI(v)
	}
	return out
}

func iToInts(in []interface{}) []int {
	out := make([]int, len(in))
	for i, v := range in {
		out[i] = fromI(v)
	}
	return out
}

// ---------------------------------------------------------------- functions handed to fpGo (pure, int domain)

func mapModel(v, i, c int) int {
	if v < 0 {
		return c % 7
	}
	return (v + i + c) % 7
}

func keepModel(v, i, c int) bool {
	switch c % 4 {
	case 0:
		return v%2 == 0
	case 1:
		return i%2 == 0
	case 2:
		return v >= 3
	}
	return (v+i)%3 == 0
}

func lessModel(a, b int, desc bool) bool {
	if desc {
		return a > b
	}
	return a < b
}

func keyMapModel(k, c int) int { return (k + c) % 4 }

func valMapModel(v any, c int) any {
	if n, ok := v.(int); ok {
		return (n + c) % 5
	}
	return c % 5
}

// ---------------------------------------------------------------- argument slices that must stay unchanged

type watcher struct {
	checks []func() string
}

func (w *watcher) ints(what string, in []int) []int {
	if in == nil {
		return nil
	}
	s := make([]int, len(in), len(in)+2) // spare capacity: an append on it would be visible below
	copy(s, in)
	snap := append([]int{}, in...)
	w.checks = append(w.checks, func() string {
		full := s[:len(snap)]
		for i := range snap {
			if full[i] != snap[i] {
				return fmt.Sprintf("argument slice of %s changed: now %v, was %v", what, full, snap)
			}
		}
		if spare := s[:cap(s)]; spare[len(snap)] != 0 || spare[len(snap)+1] != 0 {
			return fmt.Sprintf("spare capacity of the argument slice of %s was written: %v", what, spare)
		}
		return ""
	})
	return s
}

func (w *watcher) ifaces(what string, in []int) []interface{} {
	return w.ifacesWith(what, in, toI, fromI)
}

// elems: like ifaces, for ELEMENTS of interface{} streams (see elemToI)
func (w *watcher) elems(what string, in []int) []interface{} {
	return w.ifacesWith(what, in, elemToI, elemFromI)
}

func (w *watcher) ifacesWith(what string, in []int, toI func(int) interface{}, fromI func(interface{}) int) []interface{} {
	if in == nil {
		return nil
	}
	s := make([]interface{}, len(in), len(in)+2)
	for i, v := range in {
		s[i] = toI(v)
	}
	snap := append([]int{}, in...)
	w.checks = append(w.checks, func() string {
		full := s[:len(snap)]
		for i := range snap {
			if fromI(full[i]) != snap[i] {
				return fmt.Sprintf("argument slice of %s changed: now %v, was %v", what, full, snap)
			}
		}
		if spare := s[:cap(s)]; spare[len(snap)] != nil || spare[len(snap)+1] != nil {
			return fmt.Sprintf("spare capacity of the argument slice of %s was written: %v", what, spare)
		}
		return ""
	})
	return s
}

// ---------------------------------------------------------------- faces

type stream interface {
	addr() uintptr
	toArray() []int
	scribble() // ToArray(), then overwrite every element of the returned slice
	length() int
	get(i int) int
	contains(v int) bool
	mapf(c int) stream
	filter(c int) stream
	reject(c int) stream
	filterNotNil() stream
	distinct() stream
	appendItems(w *watcher, items []int) stream
	concat(w *watcher, slices [][]int) stream
	extend(w *watcher, streams []stream) stream // nil entry = nil pointer argument
	remove(i int) stream
	removeItem(w *watcher, items []int) stream
	reverse() stream
	sortBy(desc bool) stream
	sortByIndex(desc bool) stream
	minus(o stream) stream // nil = nil pointer argument
	intersection(o stream) stream
	clone() stream
	isSubset(o stream) bool
	isSuperset(o stream) bool
}

type set interface {
	addr() uintptr
	keys() []int
	values() []any
	asMap() map[int]any
	size() int
	get(k int) any
	containsKey(k int) bool
	containsValue(v any) bool
	mapKey(c int) set
	mapValue(c int) set
	add(w *watcher, keys []int) set
	removeKeys(w *watcher, keys []int) set
	removeValues(w *watcher, vals []int) set
	clone() set
	union(o set) set // nil = nil argument
	intersection(o set) set
	minus(o set) set
	setKV(k int, v int)
}

type sset interface {
	addr() uintptr
	keys() []int
	size() int
	containsKey(k int) bool
	get(k int) stream // nil when absent or a nil stream is stored
	valueSeqs() [][]int
	clone() sset
	union(o sset) sset // nil = nil pointer argument
	intersection(o sset) sset
	minusStreams(o sset) sset
	minusByKey(o sset) sset
	addKeys(w *watcher, keys []int) sset // nil result = not offered by this family
	removeKeys(w *watcher, keys []int) sset
	mapKey(c int) sset
	setStream(k int, s stream) // nil = store nil
}

// family constructors
type family interface {
	name() string
	newStream(kind int, elems []int) stream
	newSet(kind int, keys, vals []int) (s set, valuesGiven bool)
	newSSet(kind int, keys []int, state []int, elems [][]int) sset
}

// ================================================================ generic family

type gStream struct{ p *fpgo.StreamDef[int] }

func gs(p *fpgo.StreamDef[int]) stream { return gStream{p} }
func gptr(s stream) *fpgo.StreamDef[int] {
	if s == nil {
		return nil
	}
	return s.(gStream).p
}

func (g gStream) addr() uintptr  { return uintptr(unsafe.Pointer(g.p)) }
func (g gStream) toArray() []int { return g.p.ToArray() }
func (g gStream) scribble() {
	a := g.p.ToArray()
	for i := range a {
		a[i] = 99
	}
	if cap(a) > len(a) {
		a = append(a, 98)
	}
	_ = a
}
func (g gStream) length() int         { return g.p.Len() }
func (g gStream) get(i int) int       { return g.p.Get(i) }
func (g gStream) contains(v int) bool { return g.p.Contains(v) }
func (g gStream) mapf(c int) stream {
	return gs(g.p.Map(func(v int, i int) int { return mapModel(v, i, c) }))
}
func (g gStream) filter(c int) stream {
	return gs(g.p.Filter(func(v int, i int) bool { return keepModel(v, i, c) }))
}
func (g gStream) reject(c int) stream {
	return gs(g.p.Reject(func(v int, i int) bool { return keepModel(v, i, c) }))
}
func (g gStream) filterNotNil() stream { return gs(g.p.FilterNotNil()) }
func (g gStream) distinct() stream     { return gs(g.p.Distinct()) }
func (g gStream) appendItems(w *watcher, items []int) stream {
	return gs(g.p.Append(w.ints("Append", items)...))
}
func (g gStream) concat(w *watcher, slices [][]int) stream {
	args := make([][]int, len(slices))
	for i, s := range slices {
		args[i] = w.ints("Concat", s)
	}
	return gs(g.p.Concat(args...))
}
func (g gStream) extend(w *watcher, streams []stream) stream {
	args := make([]*fpgo.StreamDef[int], len(streams), len(streams)+1)
	for i, s := range streams {
		args[i] = gptr(s)
	}
	// the list of streams is the caller's (spread call): it still holds what it held afterwards
	snap := append([]*fpgo.StreamDef[int]{}, args...)
	w.checks = append(w.checks, func() string {
		for i := range snap {
			if args[i] != snap[i] {
				return fmt.Sprintf("the caller's list of streams handed to Extend(list...) changed at position %d (nil entries: %v)", i, nilPositions(len(snap), func(k int) bool { return snap[k] == nil }))
			}
		}
		return ""
	})
	return gs(g.p.Extend(args...))
}

func nilPositions(n int, isNil func(int) bool) []int {
	var r []int
	for i := 0; i < n; i++ {
		if isNil(i) {
			r = append(r, i)
		}
	}
	return r
}
func (g gStream) remove(i int) stream { return gs(g.p.Remove(i)) }
func (g gStream) removeItem(w *watcher, items []int) stream {
	return gs(g.p.RemoveItem(w.ints("RemoveItem", items)...))
}
func (g gStream) reverse() stream { return gs(g.p.Reverse()) }
func (g gStream) sortBy(desc bool) stream {
	return gs(g.p.Sort(func(a, b int) bool { return lessModel(a, b, desc) }))
}
func (g gStream) sortByIndex(desc bool) stream {
	p := g.p
	return gs(p.SortByIndex(func(a, b int) bool { return lessModel(p.Get(a), p.Get(b), desc) }))
}
func (g gStream) minus(o stream) stream        { return gs(g.p.Minus(gptr(o))) }
func (g gStream) intersection(o stream) stream { return gs(g.p.Intersection(gptr(o))) }
func (g gStream) clone() stream                { return gs(g.p.Clone()) }
func (g gStream) isSubset(o stream) bool       { return g.p.IsSubset(gptr(o)) }
func (g gStream) isSuperset(o stream) bool     { return g.p.IsSuperset(gptr(o)) }

type gSet struct{ p *fpgo.MapSetDef[int, int] }

func gset(d fpgo.SetDef[int, int]) set { return gSet{d.AsMapSet()} }
func gsetArg(o set) fpgo.SetDef[int, int] {
	if o == nil {
		return nil
	}
	return o.(gSet).p
}

func (g gSet) addr() uintptr { return uintptr(unsafe.Pointer(g.p)) }
func (g gSet) keys() []int   { return g.p.Keys() }
func (g gSet) values() []any {
	vs := g.p.Values()
	out := make([]any, len(vs))
	for i, v := range vs {
		out[i] = v
	}
	return out
}
func (g gSet) asMap() map[int]any {
	out := map[int]any{}
	for k, v := range g.p.AsMap() {
		out[k] = v
	}
	return out
}
func (g gSet) size() int              { return g.p.Size() }
func (g gSet) get(k int) any          { return g.p.Get(k) }
func (g gSet) containsKey(k int) bool { return g.p.ContainsKey(k) }
func (g gSet) containsValue(v any) bool {
	n, ok := v.(int)
	if !ok {
		return false
	}
	return g.p.ContainsValue(n)
}
func (g gSet) mapKey(c int) set {
	return gset(g.p.MapKey(func(k int) int { return keyMapModel(k, c) }))
}
func (g gSet) mapValue(c int) set {
	return gset(g.p.MapValue(func(v int) int { return valMapModel(v, c).(int) }))
}
func (g gSet) add(w *watcher, keys []int) set { return gset(g.p.Add(w.ints("Add", keys)...)) }
func (g gSet) removeKeys(w *watcher, keys []int) set {
	return gset(g.p.RemoveKeys(w.ints("RemoveKeys", keys)...))
}
func (g gSet) removeValues(w *watcher, vals []int) set {
	return gset(g.p.RemoveValues(w.ints("RemoveValues", vals)...))
}
func (g gSet) clone() set             { return gset(g.p.Clone()) }
func (g gSet) union(o set) set        { return gset(g.p.Union(gsetArg(o))) }
func (g gSet) intersection(o set) set { return gset(g.p.Intersection(gsetArg(o))) }
func (g gSet) minus(o set) set        { return gset(g.p.Minus(gsetArg(o))) }
func (g gSet) setKV(k int, v int)     { g.p.Set(k, v) }

type gSSet struct{ p *fpgo.StreamSetDef[int, int] }

func gssPtr(o sset) *fpgo.StreamSetDef[int, int] {
	if o == nil {
		return nil
	}
	return o.(gSSet).p
}

// the MapSet methods promoted into StreamSetDef return the MapSet view
// (SetDef[int,*StreamDef[int]]); re-wrap it as a StreamSet to keep one sort.
func gRewrap(d fpgo.SetDef[int, *fpgo.StreamDef[int]]) sset {
	return gSSet{fpgo.StreamSetFromMap(d.AsMap())}
}

func (g gSSet) addr() uintptr          { return uintptr(unsafe.Pointer(g.p)) }
func (g gSSet) keys() []int            { return g.p.Keys() }
func (g gSSet) size() int              { return g.p.Size() }
func (g gSSet) containsKey(k int) bool { return g.p.ContainsKey(k) }
func (g gSSet) get(k int) stream {
	v := g.p.Get(k)
	if v == nil {
		return nil
	}
	return gs(v)
}
func (g gSSet) valueSeqs() [][]int {
	vs := g.p.Values()
	out := make([][]int, len(vs))
	for i, v := range vs {
		if v != nil {
			out[i] = v.ToArray()
		}
	}
	return out
}
func (g gSSet) clone() sset              { return gSSet{g.p.Clone()} }
func (g gSSet) union(o sset) sset        { return gSSet{g.p.Union(gssPtr(o))} }
func (g gSSet) intersection(o sset) sset { return gSSet{g.p.Intersection(gssPtr(o))} }
func (g gSSet) minusStreams(o sset) sset { return gSSet{g.p.MinusStreams(gssPtr(o))} }
func (g gSSet) minusByKey(o sset) sset {
	var arg fpgo.SetDef[int, *fpgo.StreamDef[int]]
	if o != nil {
		arg = o.(gSSet).p.AsMapSet()
	}
	return gRewrap(g.p.Minus(arg))
}
func (g gSSet) addKeys(w *watcher, keys []int) sset {
	return gRewrap(g.p.Add(w.ints("StreamSet.Add", keys)...))
}
func (g gSSet) removeKeys(w *watcher, keys []int) sset {
	return gRewrap(g.p.RemoveKeys(w.ints("StreamSet.RemoveKeys", keys)...))
}
func (g gSSet) mapKey(c int) sset {
	return gRewrap(g.p.MapKey(func(k int) int { return keyMapModel(k, c) }))
}
func (g gSSet) setStream(k int, s stream) { g.p.Set(k, gptr(s)) }

type gFamily struct{}

func (gFamily) name() string { return "G" }
func (gFamily) newStream(kind int, elems []int) stream {
	own := append([]int{}, elems...) // owned by the collection from here on
	switch kind % 3 {
	case 0:
		return gs(fpgo.StreamFromArray(own))
	case 1:
		return gs(fpgo.StreamFrom(own...))
	}
	if len(own) == 0 {
		return gs(new(fpgo.StreamDef[int]))
	}
	return gs(fpgo.StreamFromArray(own))
}
func (gFamily) newSet(kind int, keys, vals []int) (set, bool) {
	switch kind % 3 {
	case 0:
		return gSet{fpgo.SetFromArray[int, int](append([]int{}, keys...))}, false
	case 1:
		return gSet{fpgo.SetFrom[int, int](append([]int{}, keys...)...)}, false
	}
	m := map[int]int{}
	for i, k := range keys {
		m[k] = vals[i%len(vals)]
	}
	return gSet{fpgo.SetFromMap(m)}, true
}
func (gFamily) newSSet(kind int, keys []int, state []int, elems [][]int) sset {
	switch kind % 3 {
	case 0:
		return gSSet{fpgo.StreamSetFromArray[int, int](append([]int{}, keys...))}
	case 1:
		s := fpgo.NewStreamSet[int, int]()
		for i, k := range keys {
			switch state[i] {
			case 0:
				s.Set(k, nil)
			case 1:
				s.Set(k, new(fpgo.StreamDef[int]))
			default:
				s.Set(k, fpgo.StreamFromArray(append([]int{}, elems[i]...)))
			}
		}
		return gSSet{s}
	}
	if len(keys) == 0 {
		// an empty stream set may also be built from a map that was never allocated (StreamSetFromMap copies
		// its argument; SetFromMap does not - it wraps the caller's map, so a nil map stays the caller's
		// business there and is not generated)
		return gSSet{fpgo.StreamSetFromMap[int, int](nil)}
	}
	m := map[int]*fpgo.StreamDef[int]{}
	for i, k := range keys {
		switch state[i] {
		case 0:
			m[k] = nil
		case 1:
			m[k] = fpgo.StreamFromArray([]int{})
		default:
			m[k] = fpgo.StreamFromArray(append([]int{}, elems[i]...))
		}
	}
	return gSSet{fpgo.StreamSetFromMap(m)}
}

// ================================================================ interface{} family

type iStream struct{ p *fpgo.StreamForInterfaceDef }

func is(p *fpgo.StreamForInterfaceDef) stream { return iStream{p} }
func iptr(s stream) *fpgo.StreamForInterfaceDef {
	if s == nil {
		return nil
	}
	return s.(iStream).p
}

func (g iStream) addr() uintptr  { return uintptr(unsafe.Pointer(g.p)) }
func (g iStream) toArray() []int { return iToElems(g.p.ToArray()) }
func (g iStream) scribble() {
	a := g.p.ToArray()
	for i := range a {
		a[i] = 99
	}
	if cap(a) > len(a) {
		a = append(a, 98)
	}
	_ = a
}
func (g iStream) length() int         { return g.p.Len() }
func (g iStream) get(i int) int       { return elemFromI(g.p.Get(i)) }
func (g iStream) contains(v int) bool { return g.p.Contains(elemToI(v)) }
func (g iStream) mapf(c int) stream {
	return is(g.p.Map(func(v interface{}, i int) interface{} { return elemToI(mapModel(elemFromI(v), i, c)) }))
}
func (g iStream) filter(c int) stream {
	return is(g.p.Filter(func(v interface{}, i int) bool { return keepModel(elemFromI(v), i, c) }))
}
func (g iStream) reject(c int) stream {
	return is(g.p.Reject(func(v interface{}, i int) bool { return keepModel(elemFromI(v), i, c) }))
}
func (g iStream) filterNotNil() stream { return is(g.p.FilterNotNil()) }
func (g iStream) distinct() stream     { return is(g.p.Distinct()) }
func (g iStream) appendItems(w *watcher, items []int) stream {
	return is(g.p.Append(w.elems("Append", items)...))
}
func (g iStream) concat(w *watcher, slices [][]int) stream {
	args := make([][]interface{}, len(slices))
	for i, s := range slices {
		args[i] = w.elems("Concat", s)
	}
	return is(g.p.Concat(args...))
}
func (g iStream) extend(w *watcher, streams []stream) stream {
	args := make([]*fpgo.StreamForInterfaceDef, len(streams), len(streams)+1)
	for i, s := range streams {
		args[i] = iptr(s)
	}
	snap := append([]*fpgo.StreamForInterfaceDef{}, args...)
	w.checks = append(w.checks, func() string {
		for i := range snap {
			if args[i] != snap[i] {
				return fmt.Sprintf("the caller's list of streams handed to Extend(list...) changed at position %d (nil entries: %v)", i, nilPositions(len(snap), func(k int) bool { return snap[k] == nil }))
			}
		}
		return ""
	})
	return is(g.p.Extend(args...))
}
func (g iStream) remove(i int) stream { return is(g.p.Remove(i)) }
func (g iStream) removeItem(w *watcher, items []int) stream {
	return is(g.p.RemoveItem(w.elems("RemoveItem", items)...))
}
func (g iStream) reverse() stream { return is(g.p.Reverse()) }
func (g iStream) sortBy(desc bool) stream {
	return is(g.p.Sort(func(a, b interface{}) bool { return lessModel(elemFromI(a), elemFromI(b), desc) }))
}
func (g iStream) sortByIndex(desc bool) stream {
	p := g.p
	return is(p.SortByIndex(func(a, b int) bool { return lessModel(elemFromI(p.Get(a)), elemFromI(p.Get(b)), desc) }))
}
func (g iStream) minus(o stream) stream        { return is(g.p.Minus(iptr(o))) }
func (g iStream) intersection(o stream) stream { return is(g.p.Intersection(iptr(o))) }
func (g iStream) clone() stream                { return is(g.p.Clone()) }
func (g iStream) isSubset(o stream) bool       { return g.p.IsSubset(iptr(o)) }
func (g iStream) isSuperset(o stream) bool     { return g.p.IsSuperset(iptr(o)) }

type iSet struct{ p *fpgo.SetForInterfaceDef }

func isetArg(o set) *fpgo.SetForInterfaceDef {
	if o == nil {
		return nil
	}
	return o.(iSet).p
}

func (g iSet) addr() uintptr { return uintptr(unsafe.Pointer(g.p)) }
func (g iSet) keys() []int   { return iToInts(g.p.Keys()) }
func (g iSet) values() []any {
	vs := g.p.Values()
	out := make([]any, len(vs))
	for i, v := range vs {
		out[i] = v
	}
	return out
}
func (g iSet) asMap() map[int]any {
	out := map[int]any{}
	for k, v := range *g.p {
		out[fromI(k)] = v
	}
	return out
}
func (g iSet) size() int                { return g.p.Size() }
func (g iSet) get(k int) any            { return g.p.Get(k) }
func (g iSet) containsKey(k int) bool   { return g.p.ContainsKey(k) }
func (g iSet) containsValue(v any) bool { return g.p.ContainsValue(v) }
func (g iSet) mapKey(c int) set {
	return iSet{g.p.MapKey(func(k interface{}) interface{} { return keyMapModel(fromI(k), c) })}
}
func (g iSet) mapValue(c int) set {
	return iSet{g.p.MapValue(func(v interface{}) interface{} { return valMapModel(v, c) })}
}
func (g iSet) add(w *watcher, keys []int) set { return iSet{g.p.Add(w.ifaces("Add", keys)...)} }
func (g iSet) removeKeys(w *watcher, keys []int) set {
	return iSet{g.p.RemoveKeys(w.ifaces("RemoveKeys", keys)...)}
}
func (g iSet) removeValues(w *watcher, vals []int) set {
	return iSet{g.p.RemoveValues(w.ifaces("RemoveValues", vals)...)}
}
func (g iSet) clone() set             { return iSet{g.p.Clone()} }
func (g iSet) union(o set) set        { return iSet{g.p.Union(isetArg(o))} }
func (g iSet) intersection(o set) set { return iSet{g.p.Intersection(isetArg(o))} }
func (g iSet) minus(o set) set        { return iSet{g.p.Minus(isetArg(o))} }
func (g iSet) setKV(k int, v int)     { g.p.Set(k, v) }

type iSSet struct {
	p *fpgo.StreamSetForInterfaceDef
}

func issPtr(o sset) *fpgo.StreamSetForInterfaceDef {
	if o == nil {
		return nil
	}
	return o.(iSSet).p
}

func asIStream(v interface{}) *fpgo.StreamForInterfaceDef {
	if v == nil {
		return nil
	}
	p, ok := v.(*fpgo.StreamForInterfaceDef)
	if !ok {
		panic(fmt.Sprintf("value stored in a StreamSetForInterface is not a stream: %T %v", v, v))
	}
	return p
}

// the SetForInterfaceDef methods promoted into StreamSetForInterfaceDef return
// the plain set view; re-wrap it as a StreamSetForInterface.
func iRewrap(d *fpgo.SetForInterfaceDef) sset {
	r := fpgo.NewStreamSetForInterface()
	for k, v := range *d {
		if p := asIStream(v); p != nil {
			r.Set(k, p)
		} else {
			r.Set(k, nil)
		}
	}
	return iSSet{r}
}

func (g iSSet) addr() uintptr          { return uintptr(unsafe.Pointer(g.p)) }
func (g iSSet) keys() []int            { return iToInts(g.p.Keys()) }
func (g iSSet) size() int              { return g.p.Size() }
func (g iSSet) containsKey(k int) bool { return g.p.ContainsKey(k) }
func (g iSSet) get(k int) stream {
	p := asIStream(g.p.Get(k))
	if p == nil {
		return nil
	}
	return is(p)
}
func (g iSSet) valueSeqs() [][]int {
	vs := g.p.Values()
	out := make([][]int, len(vs))
	for i, v := range vs {
		if p := asIStream(v); p != nil {
			out[i] = iToElems(p.ToArray())
		}
	}
	return out
}
func (g iSSet) clone() sset              { return iSSet{g.p.Clone()} }
func (g iSSet) union(o sset) sset        { return iSSet{g.p.Union(issPtr(o))} }
func (g iSSet) intersection(o sset) sset { return iSSet{g.p.Intersection(issPtr(o))} }
func (g iSSet) minusStreams(o sset) sset { return iSSet{g.p.MinusStreams(issPtr(o))} }
func (g iSSet) minusByKey(o sset) sset   { return iSSet{g.p.Minus(issPtr(o))} }
func (g iSSet) addKeys(w *watcher, keys []int) sset {
	// SetForInterfaceDef.Add stores the marker `true` under new keys; what is
	// stored under a key by Add is not part of the property (and is not a
	// stream), so Add is not driven on the interface{} StreamSet.
	return nil
}
func (g iSSet) removeKeys(w *watcher, keys []int) sset {
	return iRewrap(g.p.RemoveKeys(w.ifaces("StreamSet.RemoveKeys", keys)...))
}
func (g iSSet) mapKey(c int) sset {
	return iRewrap(g.p.MapKey(func(k interface{}) interface{} { return keyMapModel(fromI(k), c) }))
}
func (g iSSet) setStream(k int, s stream) {
	if s == nil {
		g.p.Set(k, nil)
		return
	}
	g.p.Set(k, iptr(s))
}

type iFamily struct{}

func (iFamily) name() string { return "I" }
func (iFamily) newStream(kind int, elems []int) stream {
	hasNil := false
	for _, v := range elems {
		if v == nilElem || v == 4 || v == 5 || v == 6 { // not plain ints in this family: FromArrayInt cannot build them
			hasNil = true
		}
	}
	switch kind % 3 {
	case 0:
		return is(fpgo.StreamForInterface.FromArray(elemsToI(append([]int{}, elems...))))
	case 1:
		return is(fpgo.StreamForInterface.From(elemsToI(append([]int{}, elems...))...))
	}
	if len(elems) == 0 {
		return is(new(fpgo.StreamForInterfaceDef))
	}
	if !hasNil {
		return is(fpgo.StreamForInterface.FromArrayInt(append([]int{}, elems...)))
	}
	return is(fpgo.StreamForInterface.FromArray(elemsToI(append([]int{}, elems...))))
}
func (iFamily) newSet(kind int, keys, vals []int) (set, bool) {
	switch kind % 3 {
	case 0:
		return iSet{fpgo.SetForInterfaceFromArray(intsToI(append([]int{}, keys...)))}, false
	case 1:
		return iSet{fpgo.SetForInterfaceFrom(intsToI(append([]int{}, keys...))...)}, false
	}
	m := map[interface{}]interface{}{}
	for i, k := range keys {
		m[k] = vals[i%len(vals)]
	}
	// SetForInterfaceFromMap keeps the keys only (values: not asserted)
	return iSet{fpgo.SetForInterfaceFromMap(m)}, false
}
func (iFamily) newSSet(kind int, keys []int, state []int, elems [][]int) sset {
	switch kind % 3 {
	case 0:
		return iSSet{fpgo.StreamSetForInterfaceFromArray(intsToI(append([]int{}, keys...)))}
	case 1:
		s := fpgo.NewStreamSetForInterface()
		for i, k := range keys {
			switch state[i] {
			case 0:
				s.Set(k, nil)
			case 1:
				s.Set(k, new(fpgo.StreamForInterfaceDef))
			default:
				s.Set(k, fpgo.StreamForInterface.FromArray(elemsToI(append([]int{}, elems[i]...))))
			}
		}
		return iSSet{s}
	}
	if len(keys) == 0 {
		return iSSet{fpgo.StreamSetForInterfaceFromMap(nil)}
	}
	m := map[interface{}]*fpgo.StreamForInterfaceDef{}
	for i, k := range keys {
		switch state[i] {
		case 0:
			m[k] = nil
		case 1:
			m[k] = fpgo.StreamForInterface.FromArray([]interface{}{})
		default:
			m[k] = fpgo.StreamForInterface.FromArray(elemsToI(append([]int{}, elems[i]...)))
		}
	}
	return iSSet{fpgo.StreamSetForInterfaceFromMap(m)}
}

func poisonCalls() {
	bad := []interface{}{0, 1, 2, 3, 4, 5, 6, nil, []int{1}}
	for _, f := range []func(){
		func() { fpgo.StreamForInterface.FromArray(bad).Distinct() },
		func() { fpgo.DistinctForInterface(bad...) },
		func() { fpgo.StreamForInterface.FromArray(bad).Intersection(fpgo.StreamForInterface.FromArray(bad)) },
		func() { fpgo.StreamForInterface.FromArray(bad).Minus(fpgo.StreamForInterface.FromArray(bad)) },
		func() { fpgo.SetForInterfaceFromArray(bad) },
	} {
		func() {
			defer func() { _ = recover() }()
			f()
		}()
	}
}
