package c04

import (
	"fmt"
	"testing"

	"verifharness/vlib"
)

// TestTemplates: bounded-exhaustive "operation, then in-place mutation" programs. For every
// binary/unary Set and StreamSet operation, every emptiness pattern of receiver and argument
// (empty, non-empty, nil argument), and every target of a following in-place mutator (receiver,
// argument, result), the program [new recv, new arg, op, mutate target, (observe everything)] is
// run against the model: a result that silently shares its map with an operand shows up as an
// older object changing. Random programs reach these shapes only with low probability.
func TestTemplates(t *testing.T) {
	if vlib.Replaying() {
		t.Skip()
	}
	s := vlib.S()
	type tmpl struct {
		name string
		p    program
	}
	var all []tmpl
	setRecv := [][][]int{{{}, {0}}, {{1, 2}, {3, 4}}}
	setArg := [][][]int{nil, {{}, {0}}, {{2, 3}, {1, 1}}, {{7}, {2}}}
	for fam := 0; fam < 2; fam++ {
		for kind := 0; kind < 3; kind++ {
			for ri, r := range setRecv {
				for ai, a := range setArg {
					for _, k := range []string{"m.Union", "m.Intersection", "m.Minus", "m.Clone", "m.Add", "m.RemoveKeys", "m.RemoveValues", "m.MapKey", "m.MapValue"} {
						for target := 0; target < 3; target++ {
							ops := []op{{K: "newSet", V: []int{kind}, L: r}}
							argIdx := -1
							if a != nil {
								ops = append(ops, op{K: "newSet", V: []int{(kind + 1) % 3}, L: a})
								argIdx = 1
							}
							o := op{K: k, R: 0}
							switch k {
							case "m.Union", "m.Intersection", "m.Minus":
								o.X = []int{argIdx}
							case "m.Add", "m.RemoveKeys":
								o.L = [][]int{{2, 9}}
							case "m.RemoveValues":
								o.L = [][]int{{3}}
							case "m.MapKey", "m.MapValue":
								o.V = []int{1}
							}
							ops = append(ops, o)
							resIdx := len(ops) - 1
							tgt := []int{0, argIdx, resIdx}[target]
							if tgt < 0 {
								continue
							}
							ops = append(ops, op{K: "m.Set", R: tgt, V: []int{5, 4}}, op{K: "m.Set", R: tgt, V: []int{2, 0}})
							all = append(all, tmpl{fmt.Sprintf("fam%d set kind%d r%d a%d %s mutate#%d", fam, kind, ri, ai, k, target), program{Fam: fam, Ops: ops}})
						}
					}
				}
			}
		}
		// StreamSets
		ssRecv := []op{
			{K: "newSSet", V: []int{0}, L: [][]int{{}}},
			{K: "newSSet", V: []int{1, 2}, L: [][]int{{1, 2}, {4, 5}, {6}}},
		}
		ssArg := []*op{nil,
			{K: "newSSet", V: []int{0}, L: [][]int{{}}},
			{K: "newSSet", V: []int{1, 1}, L: [][]int{{2, 3}, {5}, {}}},
			{K: "newSSet", V: []int{2}, L: [][]int{{7}, {1}}},
		}
		for ri, r := range ssRecv {
			for ai, a := range ssArg {
				for _, k := range []string{"ss.Union", "ss.Intersection", "ss.MinusStreams", "ss.Minus", "ss.Clone", "ss.RemoveKeys", "ss.MapKey"} {
					for target := 0; target < 3; target++ {
						ops := []op{r}
						argIdx := -1
						if a != nil {
							ops = append(ops, *a)
							argIdx = 1
						}
						// a stream to store with ss.Set
						ops = append(ops, op{K: "newStream", V: []int{0}, L: [][]int{{8, 9}}})
						streamIdx := len(ops) - 1
						o := op{K: k, R: 0}
						switch k {
						case "ss.Union", "ss.Intersection", "ss.MinusStreams", "ss.Minus":
							o.X = []int{argIdx}
						case "ss.RemoveKeys":
							o.L = [][]int{{2, 9}}
						case "ss.MapKey":
							o.V = []int{1}
						}
						ops = append(ops, o)
						resIdx := len(ops) - 1
						tgt := []int{0, argIdx, resIdx}[target]
						if tgt < 0 {
							continue
						}
						ops = append(ops, op{K: "ss.Set", R: tgt, V: []int{5}, X: []int{streamIdx}}, op{K: "ss.Set", R: tgt, V: []int{2}, X: []int{streamIdx}})
						all = append(all, tmpl{fmt.Sprintf("fam%d sset r%d a%d %s mutate#%d", fam, ri, ai, k, target), program{Fam: fam, Ops: ops}})
					}
				}
			}
		}
	}
	for _, tc := range all {
		s.Eval("templates")
		o := runProgram(tc.p)
		s.NonTrivial("templates", tc.name)
		if o.failKey != "" {
			vlib.WriteReplay("C04/program", tc.p)
			if vlib.Fail(t, o.failKey, "template %s [%v]: %s", tc.name, tc.p, o.failMsg) {
				continue
			}
		}
	}
	s.Exhaustive("templates")
	s.Note("templates: %d operation-then-mutate programs", len(all))
}
