package c04

import (
	"encoding/json"
	"fmt"
	"sort"
	"strings"
	"testing"

	"pgregory.net/rapid"

	"verifharness/vlib"
)

func TestMain(m *testing.M) { vlib.Main(m) }

// ---------------------------------------------------------------- programs

// op is one step of a program. R is the index of the receiver in the list of
// live objects (creation order), X are indices of argument objects (-1 = nil
// argument), V int arguments, L slice arguments (Nil marks nil slices of L).
type op struct {
	K   string  `json:"k"`
	R   int     `json:"r,omitempty"`
	X   []int   `json:"x,omitempty"`
	V   []int   `json:"v,omitempty"`
	L   [][]int `json:"l,omitempty"`
	Nil []int   `json:"nil,omitempty"`
}

type program struct {
	Fam int  `json:"fam"` // 0 generic, 1 interface{}
	Ops []op `json:"ops"`
	// Poison: before the program, the interface{} family is called with an unhashable element after some
	// ordinary ones (each call panics, with and without any change; the panics are recovered and
	// ignored): what the program's operations return must not depend on calls made earlier on other values
	Poison bool `json:"poison,omitempty"`
}

func (o op) String() string {
	var b strings.Builder
	fmt.Fprintf(&b, "%s", o.K)
	if !strings.HasPrefix(o.K, "new") {
		fmt.Fprintf(&b, "@%d", o.R)
	}
	b.WriteString("(")
	sep := ""
	for _, x := range o.X {
		fmt.Fprintf(&b, "%s#%d", sep, x)
		sep = ","
	}
	for _, v := range o.V {
		fmt.Fprintf(&b, "%s%d", sep, v)
		sep = ","
	}
	for i, l := range o.L {
		if isIn(i, o.Nil) {
			fmt.Fprintf(&b, "%snil", sep)
		} else {
			fmt.Fprintf(&b, "%s%v", sep, l)
		}
		sep = ","
	}
	b.WriteString(")")
	return b.String()
}

func (p program) String() string {
	parts := make([]string, len(p.Ops))
	for i, o := range p.Ops {
		parts[i] = o.String()
	}
	return fmt.Sprintf("fam=%s: %s", famName(p.Fam), strings.Join(parts, "; "))
}

// shape is the canonical description used for distinct counting (op names and
// receiver/argument indices, no element values).
func (p program) shape() string {
	parts := make([]string, len(p.Ops))
	for i, o := range p.Ops {
		s := o.K
		if !strings.HasPrefix(o.K, "new") {
			s += fmt.Sprintf("@%d", o.R)
		}
		if len(o.X) > 0 {
			s += fmt.Sprint(o.X)
		}
		parts[i] = s
	}
	return famName(p.Fam) + ":" + strings.Join(parts, ",")
}

func famName(f int) string {
	if f == 0 {
		return "G"
	}
	return "I"
}

func isIn(i int, l []int) bool {
	for _, x := range l {
		if x == i {
			return true
		}
	}
	return false
}

// ---------------------------------------------------------------- world (live objects + reference models)

const (
	sortStream = iota
	sortSet
	sortSSet
)

type sval struct {
	elems []int // nil stream and empty stream are both the empty sequence
}

type entry struct {
	sort   int
	st     stream
	se     set
	ss     sset
	addr   uintptr
	seq    []int         // model of a stream
	m      map[int]any   // model of a set: key -> value
	sm     map[int][]int // model of a stream set: key -> element sequence
	frozen bool          // stream is (or was) stored inside a stream set: no in-place mutator is applied to it
	born   int           // step that created it
}

type world struct {
	fam     family
	live    []*entry
	byAddr  map[uintptr]*entry
	w       watcher
	failKey string
	failMsg string
	step    int
	// non-triviality bookkeeping
	usedOld bool
	hazard  bool
	skipped int
	opCount map[string]int
}

func newWorld(fam int) *world {
	w := &world{byAddr: map[uintptr]*entry{}, opCount: map[string]int{}}
	if fam == 0 {
		w.fam = gFamily{}
	} else {
		w.fam = iFamily{}
	}
	return w
}

func (w *world) fail(key, f string, a ...any) {
	if w.failKey == "" {
		w.failKey = key
		w.failMsg = fmt.Sprintf(f, a...)
	}
}

func (w *world) sortName(s int) string {
	return [...]string{"Stream", "MapSet", "StreamSet"}[s]
}

func (w *world) cell(o op) string {
	k := o.K
	if i := strings.Index(k, "."); i >= 0 {
		k = k[i+1:]
	}
	s := sortStream
	switch {
	case strings.HasPrefix(o.K, "m."), o.K == "newSet":
		s = sortSet
	case strings.HasPrefix(o.K, "ss."), o.K == "newSSet":
		s = sortSSet
	}
	return fmt.Sprintf("C04/%s.%s.%s", w.fam.name(), w.sortName(s), k)
}

func (w *world) entryOf(idx, srt int) *entry {
	if idx < 0 || idx >= len(w.live) || w.live[idx].sort != srt {
		return nil
	}
	return w.live[idx]
}

func eqInts(a, b []int) bool {
	if len(a) != len(b) {
		return false
	}
	for i := range a {
		if a[i] != b[i] {
			return false
		}
	}
	return true
}

func sortedCopy(a []int) []int {
	c := append([]int{}, a...)
	sort.Ints(c)
	return c
}

func eqSetModel(a, b map[int]any) bool {
	if len(a) != len(b) {
		return false
	}
	for k, v := range a {
		if v2, ok := b[k]; !ok || v2 != v {
			return false
		}
	}
	return true
}

func eqSSModel(a, b map[int][]int) bool {
	if len(a) != len(b) {
		return false
	}
	for k, v := range a {
		if v2, ok := b[k]; !ok || !eqInts(v, v2) {
			return false
		}
	}
	return true
}

// registerStream records the result of a stream operation. If the returned
// pointer is an object that is already alive (allowed, e.g. Minus(empty)
// returning the receiver) the prescribed content must be the content that
// object already has.
func (w *world) registerStream(o op, h stream, want []int) *entry {
	if e, ok := w.byAddr[h.addr()]; ok {
		if e.sort != sortStream || !eqInts(e.seq, want) {
			w.fail(w.cell(o)+"/result", "step %d %v returned the already live object #%d holding %v, but the operation prescribes %v",
				w.step, o, w.indexOf(e), e.seq, want)
		}
		return e
	}
	e := &entry{sort: sortStream, st: h, addr: h.addr(), seq: append([]int{}, want...), born: w.step}
	w.live = append(w.live, e)
	w.byAddr[e.addr] = e
	return e
}

// mustBeNew: Clone of a sort that has in-place mutators must not hand back an
// object that is already alive.
func (w *world) mustBeNew(o op, addr uintptr) {
	if e, ok := w.byAddr[addr]; ok {
		w.fail(w.cell(o)+"/result", "step %d %v returned the already live object #%d instead of a new one", w.step, o, w.indexOf(e))
	}
}

func (w *world) indexOf(e *entry) int {
	for i, x := range w.live {
		if x == e {
			return i
		}
	}
	return -1
}

// registerSet: want maps every prescribed key to the list of acceptable
// values (nil list = value not prescribed, adopt the actual one).
func (w *world) registerSet(o op, h set, want map[int][]any) *entry {
	actual := h.asMap()
	resolved := map[int]any{}
	for k, allowed := range want {
		v, ok := actual[k]
		if !ok {
			w.fail(w.cell(o)+"/result", "step %d %v: key %d is missing from the result %v (prescribed keys %v)", w.step, o, k, actual, keysOfAllowed(want))
			continue
		}
		if allowed != nil {
			good := false
			for _, a := range allowed {
				if a == v {
					good = true
				}
			}
			if !good {
				w.fail(w.cell(o)+"/result", "step %d %v: key %d carries value %v, prescribed one of %v", w.step, o, k, v, allowed)
			}
		}
		resolved[k] = v
	}
	for k := range actual {
		if _, ok := want[k]; !ok {
			w.fail(w.cell(o)+"/result", "step %d %v: unexpected key %d in the result %v (prescribed keys %v)", w.step, o, k, actual, keysOfAllowed(want))
		}
	}
	if e, ok := w.byAddr[h.addr()]; ok {
		if e.sort != sortSet || !eqSetModel(e.m, resolved) {
			w.fail(w.cell(o)+"/result", "step %d %v returned the already live object #%d holding %v, but the operation prescribes %v",
				w.step, o, w.indexOf(e), e.m, resolved)
		}
		return e
	}
	e := &entry{sort: sortSet, se: h, addr: h.addr(), m: resolved, born: w.step}
	w.live = append(w.live, e)
	w.byAddr[e.addr] = e
	return e
}

func keysOfAllowed(m map[int][]any) []int {
	var ks []int
	for k := range m {
		ks = append(ks, k)
	}
	sort.Ints(ks)
	return ks
}

func seqOf(h stream) []int {
	if h == nil {
		return []int{}
	}
	return h.toArray()
}

// registerSSet: want maps every prescribed key to the acceptable element
// sequences of its stream.
func (w *world) registerSSet(o op, h sset, want map[int][][]int) *entry {
	resolved := map[int][]int{}
	actualKeys := h.keys()
	have := map[int]bool{}
	for _, k := range actualKeys {
		have[k] = true
	}
	for k, allowed := range want {
		if !have[k] {
			w.fail(w.cell(o)+"/result", "step %d %v: key %d is missing from the result (keys %v, prescribed %v)", w.step, o, k, sortedCopy(actualKeys), keysOfSS(want))
			continue
		}
		got := seqOf(h.get(k))
		good := false
		for _, a := range allowed {
			if eqInts(a, got) {
				good = true
			}
		}
		if !good {
			w.fail(w.cell(o)+"/result", "step %d %v: stream of key %d is %v, prescribed %v", w.step, o, k, got, allowed)
		}
		resolved[k] = got
	}
	for _, k := range actualKeys {
		if _, ok := want[k]; !ok {
			w.fail(w.cell(o)+"/result", "step %d %v: unexpected key %d in the result (keys %v, prescribed %v)", w.step, o, k, sortedCopy(actualKeys), keysOfSS(want))
		}
	}
	if e, ok := w.byAddr[h.addr()]; ok {
		if e.sort != sortSSet || !eqSSModel(e.sm, resolved) {
			w.fail(w.cell(o)+"/result", "step %d %v returned the already live object #%d holding %v, but the operation prescribes %v",
				w.step, o, w.indexOf(e), e.sm, resolved)
		}
		return e
	}
	e := &entry{sort: sortSSet, ss: h, addr: h.addr(), sm: resolved, born: w.step}
	w.live = append(w.live, e)
	w.byAddr[e.addr] = e
	return e
}

func keysOfSS(m map[int][][]int) []int {
	var ks []int
	for k := range m {
		ks = append(ks, k)
	}
	sort.Ints(ks)
	return ks
}

// ---------------------------------------------------------------- reference definitions (plain Go)

func mMap(a []int, c int) []int {
	r := make([]int, len(a))
	for i, v := range a {
		r[i] = mapModel(v, i, c)
	}
	return r
}

func mFilter(a []int, c int, keep bool) []int {
	r := []int{}
	for i, v := range a {
		if keepModel(v, i, c) == keep {
			r = append(r, v)
		}
	}
	return r
}

func mDistinct(a []int) []int {
	seen := map[int]bool{}
	r := []int{}
	for _, v := range a {
		if !seen[v] {
			seen[v] = true
			r = append(r, v)
		}
	}
	return r
}

func mWithout(a, b []int) []int {
	in := map[int]bool{}
	for _, v := range b {
		in[v] = true
	}
	r := []int{}
	for _, v := range a {
		if !in[v] {
			r = append(r, v)
		}
	}
	return r
}

func mIntersect(a, b []int) []int {
	in := map[int]bool{}
	for _, v := range b {
		in[v] = true
	}
	seen := map[int]bool{}
	r := []int{}
	for _, v := range a {
		if in[v] && !seen[v] {
			seen[v] = true
			r = append(r, v)
		}
	}
	return r
}

func mReverse(a []int) []int {
	r := make([]int, len(a))
	for i, v := range a {
		r[len(a)-1-i] = v
	}
	return r
}

func mSort(a []int, desc bool) []int {
	r := append([]int{}, a...)
	sort.SliceStable(r, func(i, j int) bool { return lessModel(r[i], r[j], desc) })
	return r
}

func cat(a []int, more ...[]int) []int {
	r := append([]int{}, a...)
	for _, m := range more {
		r = append(r, m...)
	}
	return r
}

// ---------------------------------------------------------------- interpreter

// exec runs one op: the fpGo call(s), the model update, the registration of the
// result, and afterwards the full re-observation of every live object.
func (w *world) exec(o op) {
	w.step++
	before := len(w.live)
	var recv, res *entry
	var args []*entry
	ran := false
	p, stack := vlib.Try(func() {
		recv, res, args, ran = w.apply(o)
	})
	if p != nil {
		w.fail(w.cell(o)+"/panic", "step %d %v panicked: %v\n%s", w.step, o, p, firstFrames(stack))
		return
	}
	if !ran {
		w.skipped++
		return
	}
	w.opCount[o.K]++
	if recv != nil && w.indexOf(recv) < before-1 {
		w.usedOld = true
	}
	if w.failKey != "" {
		return
	}
	w.observeAll(o, recv, res, args)
}

func firstFrames(stack string) string {
	lines := strings.Split(stack, "\n")
	var keep []string
	for _, l := range lines {
		if (strings.Contains(l, "fpGo") || strings.Contains(l, "fpgo")) && !strings.Contains(l, "verifharness") && !strings.HasPrefix(l, "\t") {
			// function lines only, without the (address) argument list: the message must
			// be identical between runs or rapid refuses to shrink ("flaky")
			if i := strings.LastIndex(l, "("); i > 0 {
				l = l[:i]
			}
			keep = append(keep, strings.TrimSpace(l))
		}
		if len(keep) >= 6 {
			break
		}
	}
	return strings.Join(keep, "\n")
}

func (o op) v(i, def int) int {
	if i < len(o.V) {
		return o.V[i]
	}
	return def
}

func (o op) l(i int) []int {
	if i < len(o.L) && !isIn(i, o.Nil) {
		if o.L[i] == nil {
			return []int{}
		}
		return o.L[i]
	}
	return nil
}

// argument object of the receiver's sort: (entry, isNilArgument, valid)
func (w *world) argObj(o op, i, srt int) (*entry, bool) {
	if i >= len(o.X) {
		return nil, false
	}
	if o.X[i] < 0 {
		return nil, true
	}
	e := w.entryOf(o.X[i], srt)
	return e, e != nil
}

func (w *world) apply(o op) (recv, res *entry, args []*entry, ran bool) {
	fam := w.fam
	switch o.K {
	case "newStream":
		elems := o.l(0)
		h := fam.newStream(o.v(0, 0), elems)
		return nil, w.registerStream(o, h, append([]int{}, elems...)), nil, true
	case "newSet":
		keys, vals := o.l(0), o.l(1)
		if len(vals) == 0 {
			vals = []int{0}
		}
		h, given := fam.newSet(o.v(0, 0), keys, vals)
		want := map[int][]any{}
		for i, k := range keys {
			if given {
				want[k] = []any{vals[i%len(vals)]}
			} else if _, ok := want[k]; !ok {
				want[k] = nil
			}
		}
		return nil, w.registerSet(o, h, want), nil, true
	case "newSSet":
		keys := o.l(0)
		kind := o.v(0, 0)
		state := make([]int, len(keys))
		elems := make([][]int, len(keys))
		want := map[int][][]int{}
		for i, k := range keys {
			state[i] = o.v(1+i, 1)
			elems[i] = o.l(1 + i)
			if state[i] < 2 || kind%3 == 0 {
				elems[i] = nil
			}
			want[k] = [][]int{append([]int{}, elems[i]...)}
		}
		h := fam.newSSet(kind, keys, state, elems)
		return nil, w.registerSSet(o, h, want), nil, true
	}

	switch {
	case strings.HasPrefix(o.K, "s."):
		return w.applyStream(o)
	case strings.HasPrefix(o.K, "m."):
		return w.applySet(o)
	case strings.HasPrefix(o.K, "ss."):
		return w.applySSet(o)
	}
	return nil, nil, nil, false
}

func (w *world) applyStream(o op) (recv, res *entry, args []*entry, ran bool) {
	recv = w.entryOf(o.R, sortStream)
	if recv == nil {
		return nil, nil, nil, false
	}
	h, a := recv.st, recv.seq
	reg := func(r stream, want []int) (*entry, *entry, []*entry, bool) {
		return recv, w.registerStream(o, r, want), args, true
	}
	switch o.K {
	case "s.Map":
		return reg(h.mapf(o.v(0, 0)), mMap(a, o.v(0, 0)))
	case "s.Filter":
		return reg(h.filter(o.v(0, 0)), mFilter(a, o.v(0, 0), true))
	case "s.Reject":
		return reg(h.reject(o.v(0, 0)), mFilter(a, o.v(0, 0), false))
	case "s.FilterNotNil":
		want := append([]int{}, a...)
		if w.fam.name() == "I" {
			// the untyped nil and the typed nil pointer (model value 4 in this family) are both "nil" here
			want = mWithout(a, []int{nilElem, 4})
		}
		return reg(h.filterNotNil(), want)
	case "s.Distinct":
		return reg(h.distinct(), mDistinct(a))
	case "s.Append":
		items := o.l(0)
		if len(items) > 0 && len(a) > 0 {
			w.hazard = true
		}
		return reg(h.appendItems(&w.w, items), cat(a, items))
	case "s.Concat":
		slices := make([][]int, len(o.L))
		for i := range o.L {
			slices[i] = o.l(i)
		}
		if len(a) > 0 {
			w.hazard = true
		}
		return reg(h.concat(&w.w, slices), cat(a, slices...))
	case "s.Extend":
		hs := make([]stream, len(o.X))
		want := append([]int{}, a...)
		for i := range o.X {
			e, ok := w.argObj(o, i, sortStream)
			if !ok {
				return nil, nil, nil, false
			}
			if e != nil {
				hs[i] = e.st
				want = append(want, e.seq...)
				args = append(args, e)
			}
		}
		return reg(h.extend(&w.w, hs), want)
	case "s.Remove":
		i := o.v(0, 0)
		inRange := i >= 0 && i < len(a)
		want := append([]int{}, a...)
		if inRange {
			want = append(want[:i], want[i+1:]...)
			if i < len(a)-1 {
				w.hazard = true
			}
		}
		if w.fam.name() == "I" {
			// documented in-place mutator: receiver == returned stream == model after removal
			if recv.frozen && inRange {
				return nil, nil, nil, false
			}
			r := h.remove(i)
			recv.seq = want
			return reg(r, want)
		}
		return reg(h.remove(i), want)
	case "s.RemoveItem":
		items := o.l(0)
		return reg(h.removeItem(&w.w, items), mWithout(a, items))
	case "s.Reverse":
		return reg(h.reverse(), mReverse(a))
	case "s.Sort":
		if len(a) >= 2 {
			w.hazard = true
		}
		return reg(h.sortBy(o.v(0, 0) == 1), mSort(a, o.v(0, 0) == 1))
	case "s.SortByIndex":
		if len(a) >= 2 {
			w.hazard = true
		}
		return reg(h.sortByIndex(o.v(0, 0) == 1), mSort(a, o.v(0, 0) == 1))
	case "s.Clone":
		r := h.clone()
		if w.fam.name() == "I" {
			// the interface{} stream has an in-place mutator: a clone must be a new object
			w.mustBeNew(o, r.addr())
		}
		return reg(r, append([]int{}, a...))
	case "s.Minus", "s.Intersection", "s.IsSubset", "s.IsSuperset":
		e, ok := w.argObj(o, 0, sortStream)
		if !ok {
			return nil, nil, nil, false
		}
		var oh stream
		var b []int
		if e != nil {
			oh, b = e.st, e.seq
			args = append(args, e)
		}
		switch o.K {
		case "s.Minus":
			return reg(h.minus(oh), mWithout(a, b))
		case "s.Intersection":
			return reg(h.intersection(oh), mIntersect(a, b))
		case "s.IsSubset":
			got := h.isSubset(oh)
			if len(a) > 0 && len(b) > 0 && got != (len(mWithout(a, b)) == 0) {
				w.fail(w.cell(o)+"/result", "step %d %v: %v.IsSubset(%v) = %v", w.step, o, a, b, got)
			}
			return recv, nil, args, true
		default:
			got := h.isSuperset(oh)
			if len(a) > 0 && len(b) > 0 && got != (len(mWithout(b, a)) == 0) {
				w.fail(w.cell(o)+"/result", "step %d %v: %v.IsSuperset(%v) = %v", w.step, o, a, b, got)
			}
			return recv, nil, args, true
		}
	}
	return nil, nil, nil, false
}

func one(v any) []any { return []any{v} }

func (w *world) applySet(o op) (recv, res *entry, args []*entry, ran bool) {
	recv = w.entryOf(o.R, sortSet)
	if recv == nil {
		return nil, nil, nil, false
	}
	h, a := recv.se, recv.m
	reg := func(r set, want map[int][]any) (*entry, *entry, []*entry, bool) {
		return recv, w.registerSet(o, r, want), args, true
	}
	same := func() map[int][]any {
		want := map[int][]any{}
		for k, v := range a {
			want[k] = one(v)
		}
		return want
	}
	switch o.K {
	case "m.MapKey":
		c := o.v(0, 0)
		want := map[int][]any{}
		for k, v := range a {
			want[keyMapModel(k, c)] = append(want[keyMapModel(k, c)], v)
		}
		return reg(h.mapKey(c), want)
	case "m.MapValue":
		c := o.v(0, 0)
		want := map[int][]any{}
		for k, v := range a {
			want[k] = one(valMapModel(v, c))
		}
		return reg(h.mapValue(c), want)
	case "m.Add":
		want := same()
		for _, k := range o.l(0) {
			if _, ok := want[k]; !ok {
				want[k] = nil // value stored by Add: not asserted
			}
		}
		return reg(h.add(&w.w, o.l(0)), want)
	case "m.RemoveKeys":
		want := same()
		for _, k := range o.l(0) {
			delete(want, k)
		}
		return reg(h.removeKeys(&w.w, o.l(0)), want)
	case "m.RemoveValues":
		want := same()
		for k, v := range a {
			for _, x := range o.l(0) {
				if v == any(x) {
					delete(want, k)
				}
			}
		}
		return reg(h.removeValues(&w.w, o.l(0)), want)
	case "m.Clone":
		r := h.clone()
		w.mustBeNew(o, r.addr()) // Set mutates in place: a clone must be a new object
		return reg(r, same())
	case "m.Set":
		w.hazard = true
		h.setKV(o.v(0, 0), o.v(1, 0))
		recv.m[o.v(0, 0)] = o.v(1, 0)
		return recv, nil, nil, true
	case "m.Union", "m.Intersection", "m.Minus":
		e, ok := w.argObj(o, 0, sortSet)
		if !ok {
			return nil, nil, nil, false
		}
		var oh set
		b := map[int]any{}
		if e != nil {
			oh, b = e.se, e.m
			args = append(args, e)
		}
		want := map[int][]any{}
		switch o.K {
		case "m.Union":
			for k, v := range a {
				want[k] = one(v)
			}
			for k, v := range b {
				want[k] = append(want[k], v)
			}
			return reg(h.union(oh), want)
		case "m.Intersection":
			for k, v := range a {
				if v2, ok := b[k]; ok {
					want[k] = []any{v, v2}
				}
			}
			return reg(h.intersection(oh), want)
		default:
			for k, v := range a {
				if _, ok := b[k]; !ok {
					want[k] = one(v)
				}
			}
			return reg(h.minus(oh), want)
		}
	}
	return nil, nil, nil, false
}

func (w *world) applySSet(o op) (recv, res *entry, args []*entry, ran bool) {
	recv = w.entryOf(o.R, sortSSet)
	if recv == nil {
		return nil, nil, nil, false
	}
	h, a := recv.ss, recv.sm
	reg := func(r sset, want map[int][][]int) (*entry, *entry, []*entry, bool) {
		return recv, w.registerSSet(o, r, want), args, true
	}
	same := func() map[int][][]int {
		want := map[int][][]int{}
		for k, v := range a {
			want[k] = [][]int{v}
		}
		return want
	}
	switch o.K {
	case "ss.Clone":
		r := h.clone()
		w.mustBeNew(o, r.addr()) // Set mutates in place: a clone must be a new object
		return reg(r, same())
	case "ss.Add":
		r := h.addKeys(&w.w, o.l(0))
		if r == nil {
			return nil, nil, nil, false
		}
		want := same()
		for _, k := range o.l(0) {
			if _, ok := want[k]; !ok {
				want[k] = [][]int{{}}
			}
		}
		return reg(r, want)
	case "ss.RemoveKeys":
		want := same()
		for _, k := range o.l(0) {
			delete(want, k)
		}
		return reg(h.removeKeys(&w.w, o.l(0)), want)
	case "ss.MapKey":
		c := o.v(0, 0)
		want := map[int][][]int{}
		for k, v := range a {
			want[keyMapModel(k, c)] = append(want[keyMapModel(k, c)], v)
		}
		return reg(h.mapKey(c), want)
	case "ss.Set":
		w.hazard = true
		k := o.v(0, 0)
		e, ok := w.argObj(o, 0, sortStream)
		if !ok {
			return nil, nil, nil, false
		}
		if e == nil {
			h.setStream(k, nil)
			recv.sm[k] = []int{}
			return recv, nil, nil, true
		}
		e.frozen = true
		h.setStream(k, e.st)
		recv.sm[k] = append([]int{}, e.seq...)
		return recv, nil, []*entry{e}, true
	case "ss.Get":
		k := o.v(0, 0)
		s := h.get(k)
		want, present := a[k]
		if s == nil {
			if present && len(want) > 0 {
				w.fail(w.cell(o)+"/result", "step %d %v: Get(%d) is nil, the key holds %v", w.step, o, k, want)
			}
			return recv, nil, nil, true
		}
		if !present {
			w.fail(w.cell(o)+"/result", "step %d %v: Get(%d) returned a stream for an absent key", w.step, o, k)
			return recv, nil, nil, true
		}
		r := w.registerStream(o, s, want)
		r.frozen = true
		return recv, r, nil, true
	case "ss.Union", "ss.Intersection", "ss.MinusStreams", "ss.Minus":
		e, ok := w.argObj(o, 0, sortSSet)
		if !ok {
			return nil, nil, nil, false
		}
		var oh sset
		b := map[int][]int{}
		if e != nil {
			oh, b = e.ss, e.sm
			args = append(args, e)
		}
		want := map[int][][]int{}
		switch o.K {
		case "ss.Union":
			// keys: union; per-key stream: the two streams concatenated (Extend,
			// pinned by the repo's TestStreamSetSetOperation)
			for k, v := range a {
				want[k] = [][]int{cat(v, b[k])}
			}
			for k, v := range b {
				if _, ok := a[k]; !ok {
					want[k] = [][]int{v}
				}
			}
			return reg(h.union(oh), want)
		case "ss.Intersection":
			// keys: intersection; per-key stream: Intersection of the two streams; when
			// the argument's stream is empty the implementation keeps the receiver's
			// stream (set algebra says empty): both are accepted.
			for k, v := range a {
				if v2, ok := b[k]; ok {
					if len(v2) > 0 {
						want[k] = [][]int{mIntersect(v, v2)}
					} else {
						want[k] = [][]int{v, {}}
					}
				}
			}
			return reg(h.intersection(oh), want)
		case "ss.MinusStreams":
			// doc: "keys will not be changed but Stream values will"
			for k, v := range a {
				want[k] = [][]int{mWithout(v, b[k])}
			}
			return reg(h.minusStreams(oh), want)
		default:
			for k, v := range a {
				if _, ok := b[k]; !ok {
					want[k] = [][]int{v}
				}
			}
			return reg(h.minusByKey(oh), want)
		}
	}
	return nil, nil, nil, false
}

// ---------------------------------------------------------------- observation

func role(e, recv, res *entry, args []*entry) string {
	switch {
	case e == res && e == recv:
		return "receiver-changed" // in-place result: content differs from the model after the op
	case e == res:
		return "result"
	case e == recv:
		return "receiver-changed"
	}
	for _, a := range args {
		if a == e {
			return "argument-changed"
		}
	}
	return "older-object-changed"
}

// observeAll re-reads every live object through every observer and compares
// with its model; also all argument slices ever passed.
func (w *world) observeAll(o op, recv, res *entry, args []*entry) {
	for idx, e := range w.live {
		var msg string
		p, stack := vlib.Try(func() { msg = w.observe(e) })
		if p != nil {
			w.fail(w.cell(o)+"/observe-panic", "after step %d %v: observing #%d (%s) panicked: %v\n%s", w.step, o, idx, role(e, recv, res, args), p, firstFrames(stack))
			return
		}
		if msg != "" {
			key := w.cell(o) + "/" + role(e, recv, res, args)
			if strings.HasPrefix(msg, "writing into") {
				key = fmt.Sprintf("C04/%s.Stream.ToArray/not-detached", w.fam.name())
			}
			w.fail(key, "after step %d %v: live object #%d (%s, created at step %d): %s", w.step, o, idx, w.sortName(e.sort), e.born, msg)
			return
		}
	}
	for _, c := range w.w.checks {
		if msg := c(); msg != "" {
			w.fail(w.cell(o)+"/argument-slice-changed", "after step %d %v: %s", w.step, o, msg)
			return
		}
	}
}

func (w *world) observe(e *entry) string {
	switch e.sort {
	case sortStream:
		h, want := e.st, e.seq
		if got := h.toArray(); !eqInts(got, want) {
			return fmt.Sprintf("ToArray()=%v, model %v", got, want)
		}
		if n := h.length(); n != len(want) {
			return fmt.Sprintf("Len()=%d, model %v", n, want)
		}
		for i, v := range want {
			if g := h.get(i); g != v {
				return fmt.Sprintf("Get(%d)=%d, model %v", i, g, want)
			}
		}
		for x := -1; x <= 7; x++ {
			in := false
			for _, v := range want {
				if v == x {
					in = true
				}
			}
			if g := h.contains(x); g != in {
				return fmt.Sprintf("Contains(%d)=%v, model %v", x, g, want)
			}
		}
		h.scribble()
		if got := h.toArray(); !eqInts(got, want) {
			return fmt.Sprintf("writing into the slice returned by ToArray() changed the stream: now %v, model %v", got, want)
		}
	case sortSet:
		h, want := e.se, e.m
		var wantKeys []int
		for k := range want {
			wantKeys = append(wantKeys, k)
		}
		sort.Ints(wantKeys)
		if got := sortedCopy(h.keys()); !eqInts(got, wantKeys) {
			return fmt.Sprintf("Keys()=%v, model %v", got, want)
		}
		if n := h.size(); n != len(want) {
			return fmt.Sprintf("Size()=%d, model %v", n, want)
		}
		if got := h.asMap(); !eqSetModel(got, want) {
			return fmt.Sprintf("map content %v, model %v", got, want)
		}
		vals := h.values()
		if len(vals) != len(want) {
			return fmt.Sprintf("Values()=%v, model %v", vals, want)
		}
		cnt := map[any]int{}
		for _, v := range want {
			cnt[v]++
		}
		for _, v := range vals {
			cnt[v]--
		}
		for v, c := range cnt {
			if c != 0 {
				return fmt.Sprintf("Values()=%v is not the multiset of model values %v (value %v off by %d)", vals, want, v, -c)
			}
		}
		for k := -1; k <= 8; k++ {
			v, ok := want[k]
			if g := h.containsKey(k); g != ok {
				return fmt.Sprintf("ContainsKey(%d)=%v, model %v", k, g, want)
			}
			if ok {
				if g := h.get(k); g != v {
					return fmt.Sprintf("Get(%d)=%v, model %v", k, g, want)
				}
				if !h.containsValue(v) {
					return fmt.Sprintf("ContainsValue(%v)=false, model %v", v, want)
				}
			}
		}
	case sortSSet:
		h, want := e.ss, e.sm
		var wantKeys []int
		for k := range want {
			wantKeys = append(wantKeys, k)
		}
		sort.Ints(wantKeys)
		if got := sortedCopy(h.keys()); !eqInts(got, wantKeys) {
			return fmt.Sprintf("Keys()=%v, model %v", got, want)
		}
		if n := h.size(); n != len(want) {
			return fmt.Sprintf("Size()=%d, model %v", n, want)
		}
		for k := -1; k <= 8; k++ {
			v, ok := want[k]
			if g := h.containsKey(k); g != ok {
				return fmt.Sprintf("ContainsKey(%d)=%v, model %v", k, g, want)
			}
			if ok {
				s := h.get(k)
				if got := seqOf(s); !eqInts(got, v) {
					return fmt.Sprintf("stream of key %d is %v, model %v", k, got, want)
				}
				if s != nil {
					if s.length() != len(v) {
						return fmt.Sprintf("Len() of the stream of key %d is %d, model %v", k, s.length(), want)
					}
					s.scribble()
					if got := seqOf(s); !eqInts(got, v) {
						return fmt.Sprintf("writing into ToArray() of the stream of key %d changed it: %v, model %v", k, got, want)
					}
				}
			}
		}
		seqs := h.valueSeqs()
		if len(seqs) != len(want) {
			return fmt.Sprintf("Values() has %d streams, model %v", len(seqs), want)
		}
		cnt := map[string]int{}
		for _, v := range want {
			cnt[fmt.Sprint(append([]int{}, v...))]++
		}
		for _, v := range seqs {
			cnt[fmt.Sprint(append([]int{}, v...))]--
		}
		for v, c := range cnt {
			if c != 0 {
				return fmt.Sprintf("Values() is not the multiset of model streams %v (stream %s off by %d)", want, v, -c)
			}
		}
	}
	return ""
}

// ---------------------------------------------------------------- running a whole program

type outcome struct {
	failKey    string
	failMsg    string
	nontrivial bool
	executed   int
	objects    int
}

func runProgram(p program) outcome {
	if p.Poison {
		poisonCalls()
	}
	w := newWorld(p.Fam)
	var out outcome
	for _, o := range p.Ops {
		w.exec(o)
		if w.failKey != "" {
			break
		}
	}
	out.failKey, out.failMsg = w.failKey, w.failMsg
	out.nontrivial = w.usedOld && w.hazard
	out.executed = w.step - w.skipped
	out.objects = len(w.live)
	return out
}

// ---------------------------------------------------------------- regressions (replay tier)

var regressions = []struct {
	name string
	p    program
}{
	{"DESIGN#6 generic Stream.Remove(i) rewrote the receiver's backing array", program{Fam: 0, Ops: []op{
		{K: "newStream", V: []int{0}, L: [][]int{{1, 2, 3, 4}}},
		{K: "s.Remove", R: 0, V: []int{1}},
	}}},
	{"DESIGN#6 via a stream held by a StreamSet", program{Fam: 0, Ops: []op{
		{K: "newSSet", V: []int{2, 2}, L: [][]int{{3}, {5, 6, 0}}},
		{K: "ss.Get", R: 0, V: []int{3}},
		{K: "s.Remove", R: 1, V: []int{0}},
	}}},
	{"DESIGN#7 generic MapSet: Set on the result of Intersection(empty)", program{Fam: 0, Ops: []op{
		{K: "newSet", V: []int{0}, L: [][]int{{1, 2}, {0}}},
		{K: "newSet", V: []int{0}, L: [][]int{{}, {0}}},
		{K: "m.Intersection", R: 0, X: []int{1}},
		{K: "m.Set", R: 2, V: []int{3, 4}},
	}}},
	{"DESIGN#7 interface{} Set: Set on the result of Intersection(nil)", program{Fam: 1, Ops: []op{
		{K: "newSet", V: []int{0}, L: [][]int{{1, 2}, {0}}},
		{K: "m.Intersection", R: 0, X: []int{-1}},
		{K: "m.Set", R: 1, V: []int{3, 4}},
	}}},
	{"DESIGN#8 generic MinusStreams(empty) dropped every key", program{Fam: 0, Ops: []op{
		{K: "newSSet", V: []int{1, 2, 1}, L: [][]int{{1, 2}, {4, 5}, {}}},
		{K: "newSSet", V: []int{0}, L: [][]int{{}}},
		{K: "ss.MinusStreams", R: 0, X: []int{1}},
	}}},
	{"DESIGN#8 interface{} MinusStreams(nil) dropped every key", program{Fam: 1, Ops: []op{
		{K: "newSSet", V: []int{1, 2, 1}, L: [][]int{{1, 2}, {4, 5}, {}}},
		{K: "ss.MinusStreams", R: 0, X: []int{-1}},
	}}},
	{"StreamSetForInterfaceFromMap stored a typed nil pointer for a nil stream: Clone dereferenced it", program{Fam: 1, Ops: []op{
		{K: "newSSet", V: []int{2, 0}, L: [][]int{{0}, {}}},
		{K: "ss.Clone", R: 0},
	}}},
	{"generic StreamSet.Union lost the receiver's stream when the argument holds the key with an empty stream", program{Fam: 0, Ops: []op{
		{K: "newSSet", V: []int{1, 2}, L: [][]int{{1}, {2, 6}}},
		{K: "newSSet", V: []int{1, 1, 2}, L: [][]int{{1, 3}, {}, {5}}},
		{K: "ss.Union", R: 0, X: []int{1}},
	}}},
	{"interface{} StreamSet.Union lost the receiver's stream when the argument holds the key with a nil stream", program{Fam: 1, Ops: []op{
		{K: "newSSet", V: []int{1, 2}, L: [][]int{{1}, {2, 6}}},
		{K: "newSSet", V: []int{1, 0, 2}, L: [][]int{{1, 3}, {}, {5}}},
		{K: "ss.Union", R: 0, X: []int{1}},
	}}},
	{"DESIGN#9 StreamSetForInterface.Minus(empty) returned the empty set", program{Fam: 1, Ops: []op{
		{K: "newSSet", V: []int{1, 2, 1}, L: [][]int{{1, 2}, {4, 5}, {}}},
		{K: "newSSet", V: []int{0}, L: [][]int{{}}},
		{K: "ss.Minus", R: 0, X: []int{1}},
	}}},
}

func TestRegress(t *testing.T) {
	type failure struct {
		key, msg string
		p        program
	}
	var fails []failure
	for _, r := range regressions {
		vlib.S().Eval("regress")
		o := runProgram(r.p)
		if o.nontrivial {
			vlib.S().NonTrivial("regress", r.p.shape())
		}
		if o.failKey != "" && !vlib.Known(o.failKey) {
			t.Logf("regression %q fails: [key=%s] %s", r.name, o.failKey, o.failMsg)
			fails = append(fails, failure{o.failKey, fmt.Sprintf("regression %q [%v]: %s", r.name, r.p, o.failMsg), r.p})
		}
	}
	if len(fails) > 0 {
		vlib.WriteReplay("C04/program", fails[0].p)
		vlib.Fail(t, fails[0].key, "%s (and %d more failing regressions)", fails[0].msg, len(fails)-1)
	}
}

func TestReplayJSON(t *testing.T) {
	raw := vlib.ReplayCase("C04/program")
	if raw == nil {
		t.Skip("no replay case")
	}
	var p program
	if err := json.Unmarshal(raw, &p); err != nil {
		t.Fatalf("bad replay: %v", err)
	}
	o := runProgram(p)
	if o.failKey != "" {
		t.Fatalf("[key=%s] replay [%v]: %s", o.failKey, p, o.failMsg)
	}
}

// ---------------------------------------------------------------- generator

func genElems(t *rapid.T, fam int, label string, maxLen int) []int {
	n := rapid.IntRange(0, maxLen).Draw(t, label+"_n")
	r := make([]int, n)
	for i := range r {
		// -1 stands for a nil element in the interface{} family (and is an ordinary int in the generic one)
		if rapid.IntRange(0, 11).Draw(t, label+"_nil") == 0 {
			r[i] = nilElem
		} else {
			r[i] = rapid.IntRange(0, 6).Draw(t, label)
		}
	}
	return r
}

func genKeys(t *rapid.T, label string, maxLen int) []int {
	n := rapid.IntRange(0, maxLen).Draw(t, label+"_n")
	r := make([]int, n)
	for i := range r {
		r[i] = rapid.IntRange(0, 5).Draw(t, label)
	}
	return r
}

func genNewStream(t *rapid.T, fam int) op {
	if rapid.IntRange(0, 11).Draw(t, "long") == 0 {
		// now and then a long stream (an implementation may switch algorithm with the length)
		n := rapid.IntRange(33, 70).Draw(t, "long_n")
		e := make([]int, n)
		for i := range e {
			e[i] = rapid.IntRange(0, 6).Draw(t, "long_e")
		}
		return op{K: "newStream", V: []int{rapid.IntRange(0, 2).Draw(t, "kind")}, L: [][]int{e}}
	}
	return op{K: "newStream", V: []int{rapid.IntRange(0, 2).Draw(t, "kind")}, L: [][]int{genElems(t, fam, "e", 8)}}
}

func genNewSet(t *rapid.T) op {
	keys := genKeys(t, "k", 6)
	vals := make([]int, len(keys)+1)
	for i := range vals {
		vals[i] = rapid.IntRange(0, 4).Draw(t, "val")
	}
	return op{K: "newSet", V: []int{rapid.IntRange(0, 2).Draw(t, "kind")}, L: [][]int{keys, vals}}
}

func genNewSSet(t *rapid.T, fam int) op {
	keys := mDistinct(genKeys(t, "k", 5))
	o := op{K: "newSSet", V: []int{rapid.IntRange(0, 2).Draw(t, "kind")}, L: [][]int{keys}}
	for range keys {
		st := rapid.SampledFrom([]int{0, 1, 2, 2, 2}).Draw(t, "state")
		o.V = append(o.V, st)
		if st == 2 {
			e := genElems(t, fam, "se", 5)
			if len(e) == 0 {
				e = []int{rapid.IntRange(0, 6).Draw(t, "se1")}
			}
			o.L = append(o.L, e)
		} else {
			o.L = append(o.L, []int{})
		}
	}
	return o
}

var streamOps = []string{"s.Remove", "s.Remove", "s.SortByIndex", "s.Append", "s.Sort", "s.Remove", "s.Concat", "s.Extend",
	"s.Map", "s.Filter", "s.Reject", "s.FilterNotNil", "s.Distinct", "s.Append", "s.RemoveItem", "s.Reverse", "s.SortByIndex",
	"s.Minus", "s.Intersection", "s.Clone", "s.IsSubset", "s.IsSuperset"}
var setOps = []string{"m.MapKey", "m.MapValue", "m.Add", "m.RemoveKeys", "m.RemoveValues", "m.Clone", "m.Union", "m.Intersection",
	"m.Minus", "m.Set", "m.Set"}
var ssetOps = []string{"ss.Clone", "ss.Union", "ss.Union", "ss.Intersection", "ss.Intersection", "ss.MinusStreams", "ss.MinusStreams",
	"ss.Minus", "ss.Add", "ss.RemoveKeys", "ss.MapKey", "ss.Set", "ss.Set", "ss.Get", "ss.Get"}

func (w *world) indicesOf(srt int) []int {
	var r []int
	for i, e := range w.live {
		if e.sort == srt {
			r = append(r, i)
		}
	}
	return r
}

// pickArg draws an argument object of the given sort: mostly a live one
// (possibly the receiver itself), sometimes nil.
func pickArg(t *rapid.T, cands []int) int {
	if len(cands) == 0 || rapid.IntRange(0, 9).Draw(t, "nilarg") == 0 {
		return -1
	}
	return rapid.SampledFrom(cands).Draw(t, "arg")
}

func genOp(t *rapid.T, w *world, fam int) op {
	streams, sets, ssets := w.indicesOf(sortStream), w.indicesOf(sortSet), w.indicesOf(sortSSet)
	// rapid biases integer draws towards small values: the operations come first,
	// the constructors last
	c := rapid.IntRange(0, 99).Draw(t, "what")
	switch {
	case c >= 95 || len(streams) == 0:
		return genNewStream(t, fam)
	case c >= 92 || len(sets) == 0:
		return genNewSet(t)
	case c >= 88 || len(ssets) == 0:
		return genNewSSet(t, fam)
	case c < 48:
		k := rapid.SampledFrom(streamOps).Draw(t, "sop")
		o := op{K: k, R: rapid.SampledFrom(streams).Draw(t, "recv")}
		n := len(w.live[o.R].seq)
		switch k {
		case "s.Map", "s.Filter", "s.Reject":
			o.V = []int{rapid.IntRange(0, 6).Draw(t, "c")}
		case "s.Append", "s.RemoveItem":
			o.L = [][]int{genElems(t, fam, "items", 4)}
			if rapid.IntRange(0, 14).Draw(t, "nilitems") == 0 {
				o.Nil = []int{0}
			}
		case "s.Concat":
			ns := rapid.IntRange(0, 3).Draw(t, "nslices")
			for i := 0; i < ns; i++ {
				o.L = append(o.L, genElems(t, fam, "slice", 4))
				if rapid.IntRange(0, 7).Draw(t, "nilslice") == 0 {
					o.Nil = append(o.Nil, i)
				}
			}
		case "s.Extend":
			ns := rapid.IntRange(0, 3).Draw(t, "nstreams")
			for i := 0; i < ns; i++ {
				o.X = append(o.X, pickArg(t, streams))
			}
		case "s.Remove":
			// the draw itself must not depend on the state (MapKey key collisions make
			// per-key stream contents depend on Go's map iteration order): draw a
			// number, derive an index in [-2, len+2] from it
			o.V = []int{-2 + rapid.IntRange(0, 199).Draw(t, "idx")%(n+5)}
		case "s.Sort", "s.SortByIndex":
			o.V = []int{rapid.IntRange(0, 1).Draw(t, "desc")}
		case "s.Minus", "s.Intersection", "s.IsSubset", "s.IsSuperset":
			o.X = []int{pickArg(t, streams)}
		}
		return o
	case c >= 70:
		k := rapid.SampledFrom(setOps).Draw(t, "mop")
		o := op{K: k, R: rapid.SampledFrom(sets).Draw(t, "recv")}
		switch k {
		case "m.MapKey", "m.MapValue":
			o.V = []int{rapid.IntRange(0, 4).Draw(t, "c")}
		case "m.Add", "m.RemoveKeys":
			o.L = [][]int{genKeys(t, "keys", 4)}
		case "m.RemoveValues":
			o.L = [][]int{genKeys(t, "vals", 3)}
		case "m.Set":
			o.V = []int{rapid.IntRange(0, 5).Draw(t, "k"), rapid.IntRange(0, 4).Draw(t, "v")}
		case "m.Union", "m.Intersection", "m.Minus":
			o.X = []int{pickArg(t, sets)}
		}
		return o
	default:
		k := rapid.SampledFrom(ssetOps).Draw(t, "ssop")
		o := op{K: k, R: rapid.SampledFrom(ssets).Draw(t, "recv")}
		switch k {
		case "ss.Add", "ss.RemoveKeys":
			o.L = [][]int{genKeys(t, "keys", 3)}
		case "ss.MapKey":
			o.V = []int{rapid.IntRange(0, 4).Draw(t, "c")}
		case "ss.Set", "ss.Get":
			// prefer keys that exist
			var ks []int
			for k := range w.live[o.R].sm {
				ks = append(ks, k)
			}
			sort.Ints(ks)
			if len(ks) > 0 && rapid.IntRange(0, 3).Draw(t, "existing") > 0 {
				o.V = []int{rapid.SampledFrom(ks).Draw(t, "k")}
			} else {
				o.V = []int{rapid.IntRange(0, 5).Draw(t, "k")}
			}
			if k == "ss.Set" {
				o.X = []int{pickArg(t, streams)}
			}
		case "ss.Union", "ss.Intersection", "ss.MinusStreams", "ss.Minus":
			o.X = []int{pickArg(t, ssets)}
		}
		return o
	}
}

func propProgram(t *rapid.T) {
	s := vlib.S()
	fam := rapid.IntRange(0, 1).Draw(t, "family")
	maxSteps := vlib.Pick(25, 60)
	n := rapid.IntRange(1, maxSteps).Draw(t, "steps")
	p := program{Fam: fam, Poison: rapid.IntRange(0, 7).Draw(t, "poison") == 0}
	if p.Poison {
		poisonCalls()
	}
	w := newWorld(fam)
	// a small initial population so that every sort has a receiver
	init := []op{genNewStream(t, fam), genNewStream(t, fam), genNewSet(t), genNewSSet(t, fam), genNewSSet(t, fam)}
	for _, o := range init {
		p.Ops = append(p.Ops, o)
		w.exec(o)
		if w.failKey != "" {
			break
		}
	}
	for i := 0; i < n && w.failKey == ""; i++ {
		o := genOp(t, w, fam)
		p.Ops = append(p.Ops, o)
		w.exec(o)
	}
	s.Eval("programs")
	s.ClassN("programs/steps-executed", int64(w.step-w.skipped))
	s.ClassN("programs/steps-skipped", int64(w.skipped))
	s.ClassN("programs/live-objects", int64(len(w.live)))
	s.Class("programs/family-" + famName(fam))
	for k, n := range w.opCount {
		s.ClassN("op/"+famName(fam)+"/"+k, int64(n))
	}
	if w.usedOld && w.hazard {
		s.NonTrivial("programs", p.shape())
		s.Class("programs/nontrivial")
	} else {
		s.Class("programs/trivial")
	}
	if w.failKey != "" {
		js, _ := json.Marshal(p)
		if vlib.Fail(t, w.failKey, "program [%v]\n%s\nJSON: %s", p, w.failMsg, js) {
			t.Skip("known finding")
		}
	}
}

func TestPrograms(t *testing.T) {
	if vlib.Replaying() && vlib.ReplayCase("C04/program") != nil {
		t.Skip()
	}
	vlib.Check(t, "programs", 20000, 150000, propProgram)
}
