package c01

// C01 — Maybe: one consistent notion of absence, monad laws, total.
//
// A case is (instantiation, shape, picks): the instantiation chooses the
// constructor (Maybe.Just or JustGenerics[T] for a fixed table of T), the shape
// chooses which kind of Go value is wrapped, the picks are the drawn numbers /
// strings the value is built from. Every case runs all MaybeDef observers
// against an oracle that is computed by the harness with package reflect only
// (never with fpgo.IsNil / fpgo.Kind / fpgo.IsPtr).

import (
	"encoding/json"
	"errors"
	"fmt"
	"math"
	"reflect"
	"sort"
	"strings"
	"testing"
	"unsafe"

	fpgo "github.com/TeaEntityLab/fpGo/v2"
	"pgregory.net/rapid"

	"verifharness/vlib"
)

func TestMain(m *testing.M) { vlib.Main(m) }

// ---------------------------------------------------------------- oracle helpers

// absent is the property's one fact: untyped nil or nil pointer.
func absent(v any) bool {
	if v == nil {
		return true
	}
	rv := reflect.ValueOf(v)
	return rv.Kind() == reflect.Ptr && rv.IsNil()
}

func isMaybeAny(v any) bool {
	_, ok := v.(fpgo.MaybeDef[any])
	return ok
}

// nonTrivial: nil-like value, or a pointer, or a nested Maybe (DESIGN C01 NT).
func nonTrivial(v any) bool {
	if v == nil || isMaybeAny(v) {
		return true
	}
	rv := reflect.ValueOf(v)
	switch rv.Kind() {
	case reflect.Ptr:
		return true
	case reflect.Map, reflect.Slice, reflect.Func, reflect.Chan:
		return rv.IsNil()
	}
	return false
}

// eqV compares two reflect values without ever calling Interface() (so that
// unexported fields, e.g. of fpgo's own Maybe structs, can be compared).
// deep=false: identity (same pointer / same map / same slice data / same bits).
// deep=true : structural equality through pointers, maps and slices
// (NaN equals NaN, funcs and chans still by identity).
func eqV(a, b reflect.Value, deep bool, depth int) bool {
	if depth > 12 {
		return true
	}
	if !a.IsValid() || !b.IsValid() {
		return a.IsValid() == b.IsValid()
	}
	if a.Type() != b.Type() {
		return false
	}
	switch a.Kind() {
	case reflect.Bool:
		return a.Bool() == b.Bool()
	case reflect.Int, reflect.Int8, reflect.Int16, reflect.Int32, reflect.Int64:
		return a.Int() == b.Int()
	case reflect.Uint, reflect.Uint8, reflect.Uint16, reflect.Uint32, reflect.Uint64, reflect.Uintptr:
		return a.Uint() == b.Uint()
	case reflect.Float32, reflect.Float64:
		return math.Float64bits(a.Float()) == math.Float64bits(b.Float()) ||
			(math.IsNaN(a.Float()) && math.IsNaN(b.Float()))
	case reflect.Complex64, reflect.Complex128:
		x, y := a.Complex(), b.Complex()
		return math.Float64bits(real(x)) == math.Float64bits(real(y)) && math.Float64bits(imag(x)) == math.Float64bits(imag(y))
	case reflect.String:
		return a.String() == b.String()
	case reflect.Func, reflect.Chan, reflect.UnsafePointer:
		return a.Pointer() == b.Pointer()
	case reflect.Ptr:
		if a.Pointer() == b.Pointer() {
			return true
		}
		if !deep || a.IsNil() || b.IsNil() {
			return false
		}
		return eqV(a.Elem(), b.Elem(), deep, depth+1)
	case reflect.Map:
		if a.Pointer() == b.Pointer() {
			return true
		}
		if !deep || a.IsNil() != b.IsNil() || a.Len() != b.Len() {
			return false
		}
		it := a.MapRange()
		for it.Next() {
			bv := b.MapIndex(it.Key())
			if !bv.IsValid() || !eqV(it.Value(), bv, deep, depth+1) {
				return false
			}
		}
		return true
	case reflect.Slice:
		if a.IsNil() != b.IsNil() || a.Len() != b.Len() {
			return false
		}
		if a.Pointer() == b.Pointer() && a.Cap() == b.Cap() {
			return true
		}
		if !deep {
			return false
		}
		for i := 0; i < a.Len(); i++ {
			if !eqV(a.Index(i), b.Index(i), deep, depth+1) {
				return false
			}
		}
		return true
	case reflect.Interface:
		if a.IsNil() || b.IsNil() {
			return a.IsNil() == b.IsNil()
		}
		return eqV(a.Elem(), b.Elem(), deep, depth+1)
	case reflect.Array:
		for i := 0; i < a.Len(); i++ {
			if !eqV(a.Index(i), b.Index(i), deep, depth+1) {
				return false
			}
		}
		return true
	case reflect.Struct:
		for i := 0; i < a.NumField(); i++ {
			if !eqV(a.Field(i), b.Field(i), deep, depth+1) {
				return false
			}
		}
		return true
	}
	return false
}

// same: a is "v itself" (identity).
func same(a, b any) bool { return eqV(reflect.ValueOf(a), reflect.ValueOf(b), false, 0) }

// equal: identity or structural equality.
func equal(a, b any) bool {
	return same(a, b) || eqV(reflect.ValueOf(a), reflect.ValueOf(b), true, 0)
}

// mutate changes the (settable) value so that it differs from before.
func mutate(rv reflect.Value) bool {
	if !rv.CanSet() {
		return false
	}
	if !rv.IsZero() {
		rv.Set(reflect.Zero(rv.Type()))
		return true
	}
	switch rv.Kind() {
	case reflect.Bool:
		rv.SetBool(true)
	case reflect.Int, reflect.Int8, reflect.Int16, reflect.Int32, reflect.Int64:
		rv.SetInt(1)
	case reflect.Uint, reflect.Uint8, reflect.Uint16, reflect.Uint32, reflect.Uint64, reflect.Uintptr:
		rv.SetUint(1)
	case reflect.Float32, reflect.Float64:
		rv.SetFloat(1)
	case reflect.String:
		rv.SetString("mutated")
	case reflect.Ptr:
		rv.Set(reflect.New(rv.Type().Elem()))
	case reflect.Map:
		rv.Set(reflect.MakeMap(rv.Type()))
	case reflect.Slice:
		rv.Set(reflect.MakeSlice(rv.Type(), 1, 1))
	case reflect.Interface:
		if rv.NumMethod() != 0 {
			return false
		}
		rv.Set(reflect.ValueOf(1))
	case reflect.Struct:
		for i := 0; i < rv.NumField(); i++ {
			if mutate(rv.Field(i)) {
				return true
			}
		}
		return false
	default:
		return false
	}
	return true
}

func show(v any) string {
	if v == nil {
		return "nil"
	}
	s := fmt.Sprintf("%T(%+v)", v, v)
	if len(s) > 120 {
		s = s[:120] + "…"
	}
	return s
}

// ---------------------------------------------------------------- failure collection

type chk struct {
	key, msg string
	what     string // case description
}

func (c *chk) failed() bool { return c.key != "" }

func (c *chk) fail(key, f string, a ...any) {
	if c.key == "" {
		c.key = key
		c.msg = c.what + ": " + fmt.Sprintf(f, a...)
	}
}

// call runs one observer under recover; a panic is a failure of that observer.
func (c *chk) call(observer string, f func()) bool {
	p, stack := vlib.Try(f)
	if p != nil {
		c.fail("C01/"+observer+"/panic", "%s panicked: %v\n%s", observer, p, firstFrames(stack))
		return false
	}
	return true
}

func firstFrames(stack string) string {
	var keep []string
	for _, l := range strings.Split(stack, "\n") {
		if strings.Contains(l, "fpGo") && !strings.Contains(l, "verifharness") {
			keep = append(keep, strings.TrimSpace(l))
		}
		if len(keep) >= 6 {
			break
		}
	}
	return strings.Join(keep, "\n")
}

// ---------------------------------------------------------------- the observer sweep

// extraConv are the exported conversions of the concrete Maybe values that are
// not part of MaybeDef (reached by interface assertion).
type extraConv interface {
	ToInt8() (int8, error)
	ToInt16() (int16, error)
	ToByte() (byte, error)
	ToUint8() (uint8, error)
	ToUint() (uint, error)
	ToUint16() (uint16, error)
	ToUint32() (uint32, error)
	ToUint64() (uint64, error)
	ToUintptr() (uintptr, error)
}

type params struct {
	FlatRet int `json:"flat_ret"` // what the recording FlatMap callback returns: 0 Just(fb), 1 absent, 2 Just(arg), 3 no Maybe at all (a nil MaybeDef)
}

// obsEqual: a and b agree on every observer the property fixes.
func obsEqual[T any](c *chk, key, what string, a, b fpgo.MaybeDef[T]) {
	c.call(key, func() {
		if a == nil {
			c.fail("C01/"+key, "%s: result is a nil MaybeDef", what)
			return
		}
		if a.IsNil() != b.IsNil() || a.IsPresent() != b.IsPresent() {
			c.fail("C01/"+key, "%s: IsNil/IsPresent %v/%v, want %v/%v", what, a.IsNil(), a.IsPresent(), b.IsNil(), b.IsPresent())
			return
		}
		if b.IsNil() {
			return
		}
		if !same(any(a.Unwrap()), any(b.Unwrap())) {
			c.fail("C01/"+key, "%s: wraps %s, want %s", what, show(any(a.Unwrap())), show(any(b.Unwrap())))
		}
		if a.Type() != b.Type() {
			c.fail("C01/"+key, "%s: Type %v, want %v", what, a.Type(), b.Type())
		}
	})
}

// exercise runs every observer of m = ctor(v) against the oracle.
func exercise[T any](c *chk, m fpgo.MaybeDef[T], v, fb T, p params) {
	av := any(v)
	ab := absent(av)
	if m == nil {
		c.fail("C01/constructor", "constructor returned a nil MaybeDef")
		return
	}

	// --- the one fact
	c.call("IsNil", func() {
		if got := m.IsNil(); got != ab {
			c.fail("C01/IsNil", "IsNil()=%v, oracle absent=%v", got, ab)
		}
	})
	c.call("IsPresent", func() {
		if got := m.IsPresent(); got != !ab {
			c.fail("C01/IsPresent", "IsPresent()=%v, oracle absent=%v", got, ab)
		}
	})

	// --- Or
	c.call("Or", func() {
		got := any(m.Or(fb))
		want := av
		if ab {
			want = any(fb)
		}
		if !same(got, want) {
			c.fail("C01/Or", "Or(%s)=%s, want %s (absent=%v)", show(any(fb)), show(got), show(want), ab)
		}
	})

	// --- Let
	c.call("Let", func() {
		n := 0
		m.Let(func() { n++ })
		want := 1
		if ab {
			want = 0
		}
		if n != want {
			c.fail("C01/Let", "Let ran its callback %d times, want %d (absent=%v)", n, want, ab)
		}
	})

	// --- UnwrapInterface / Unwrap / Type / Kind / IsType / IsKind / IsPtr / IsValid
	c.call("UnwrapInterface", func() {
		got := m.UnwrapInterface()
		if (got == nil) != ab {
			c.fail("C01/UnwrapInterface", "UnwrapInterface()=%s, oracle absent=%v", show(got), ab)
		} else if !ab && !same(got, av) {
			c.fail("C01/UnwrapInterface", "UnwrapInterface()=%s, want the wrapped value %s", show(got), show(av))
		}
	})
	c.call("Unwrap", func() {
		got := any(m.Unwrap())
		if !ab && !same(got, av) {
			c.fail("C01/Unwrap", "Unwrap()=%s, want the wrapped value %s", show(got), show(av))
		}
	})
	c.call("Type", func() {
		got := m.Type()
		if (got == nil) != ab {
			c.fail("C01/Type", "Type()=%v, oracle absent=%v", got, ab)
		} else if !ab && got != reflect.TypeOf(av) {
			c.fail("C01/Type", "Type()=%v, want %v", got, reflect.TypeOf(av))
		}
	})
	c.call("Kind", func() {
		got := m.Kind()
		if !ab && got != reflect.ValueOf(av).Kind() {
			c.fail("C01/Kind", "Kind()=%v, want %v", got, reflect.ValueOf(av).Kind())
		}
	})
	c.call("IsType", func() {
		other := reflect.TypeOf(struct{ harnessOnly int }{})
		r1, r2 := m.IsType(reflect.TypeOf(av)), m.IsType(other)
		if !ab && (!r1 || r2) {
			c.fail("C01/IsType", "IsType(own type)=%v IsType(other type)=%v", r1, r2)
		}
		// IsType is the question "is Type() this type": it agrees with Type() - for an absent value too
		// (Type() is nil there, whatever pointer type the nil had)
		if !m.IsType(m.Type()) {
			c.fail("C01/IsType", "IsType(Type())=false, Type()=%v", m.Type())
		}
		if ab && reflect.TypeOf(av) != nil && r1 {
			c.fail("C01/IsType", "absent value (a nil %v): Type() is nil but IsType(%v)=true", reflect.TypeOf(av), reflect.TypeOf(av))
		}
	})
	c.call("IsKind", func() {
		own := reflect.ValueOf(av).Kind()
		otherKind := reflect.UnsafePointer
		if own == otherKind {
			otherKind = reflect.Complex64
		}
		r1, r2 := m.IsKind(own), m.IsKind(otherKind)
		if !ab && (!r1 || r2) {
			c.fail("C01/IsKind", "IsKind(%v)=%v IsKind(%v)=%v", own, r1, otherKind, r2)
		}
	})
	c.call("IsPtr", func() {
		got := m.IsPtr()
		if !ab && got != (reflect.ValueOf(av).Kind() == reflect.Ptr) {
			c.fail("C01/IsPtr", "IsPtr()=%v for %s", got, show(av))
		}
	})
	c.call("IsValid", func() {
		got := m.IsValid()
		if !ab && !got {
			c.fail("C01/IsValid", "IsValid()=false for present %s", show(av))
		}
	})

	// --- ToString
	c.call("ToString", func() {
		got := m.ToString()
		if ab && got != "<nil>" {
			c.fail("C01/ToString", "absent value renders as %q, want \"<nil>\"", got)
		}
		if !ab {
			if s, ok := av.(string); ok && got != s {
				c.fail("C01/ToString", "string %q renders as %q", s, got)
			}
			if i, ok := av.(int); ok && got != fmt.Sprint(i) {
				c.fail("C01/ToString", "int %d renders as %q", i, got)
			}
		}
	})

	// --- ToPtr: total
	c.call("ToPtr", func() { _ = m.ToPtr() })

	// --- conversions report ErrConversionNil exactly when absent
	conv := func(name string, f func() error) {
		c.call(name, func() {
			err := f()
			if errors.Is(err, fpgo.ErrConversionNil) != ab {
				c.fail("C01/"+name+"/ErrConversionNil", "%s err=%v, oracle absent=%v", name, err, ab)
			}
		})
	}
	conv("ToFloat64", func() error { _, e := m.ToFloat64(); return e })
	conv("ToFloat32", func() error { _, e := m.ToFloat32(); return e })
	conv("ToInt", func() error { _, e := m.ToInt(); return e })
	conv("ToInt32", func() error { _, e := m.ToInt32(); return e })
	conv("ToInt64", func() error { _, e := m.ToInt64(); return e })
	conv("ToBool", func() error { _, e := m.ToBool(); return e })
	if x, ok := any(m).(extraConv); ok {
		conv("ToInt8", func() error { _, e := x.ToInt8(); return e })
		conv("ToInt16", func() error { _, e := x.ToInt16(); return e })
		conv("ToByte", func() error { _, e := x.ToByte(); return e })
		conv("ToUint8", func() error { _, e := x.ToUint8(); return e })
		conv("ToUint", func() error { _, e := x.ToUint(); return e })
		conv("ToUint16", func() error { _, e := x.ToUint16(); return e })
		conv("ToUint32", func() error { _, e := x.ToUint32(); return e })
		conv("ToUint64", func() error { _, e := x.ToUint64(); return e })
		conv("ToUintptr", func() error { _, e := x.ToUintptr(); return e })
		vlib.S().Class("extra-conversions/reachable")
	} else {
		vlib.S().Class("extra-conversions/not-reachable")
	}

	// --- Just (method): the same constructor on any receiver
	c.call("Just", func() {
		j := m.Just(av)
		if j == nil {
			c.fail("C01/Just", "m.Just(v) returned nil")
			return
		}
		if j.IsNil() != ab || j.IsPresent() == ab {
			c.fail("C01/Just", "m.Just(%s): IsNil=%v IsPresent=%v, oracle absent=%v", show(av), j.IsNil(), j.IsPresent(), ab)
		}
	})

	// --- FlatMap(f) is f applied to the wrapped value
	c.call("FlatMap", func() {
		var args []T
		var ret fpgo.MaybeDef[T]
		f := func(x T) fpgo.MaybeDef[T] {
			args = append(args, x)
			switch p.FlatRet {
			case 3:
				ret = nil
			case 1:
				var zero T
				ret = absentOf(zero, fb)
			case 2:
				ret = fpgo.JustGenerics[T](x)
			default:
				ret = fpgo.JustGenerics[T](fb)
			}
			return ret
		}
		got := m.FlatMap(f)
		// "FlatMap(f) is f applied to the wrapped value", with left identity: also for an absent value the
		// callback runs (once, with an absent argument) and its result is the result — Just(nil).FlatMap(f)
		// is f(nil), not a short-circuited None (f may well map nil to something present).
		if len(args) != 1 {
			c.fail("C01/FlatMap", "callback ran %d times, want 1", len(args))
			return
		}
		if ab {
			// absent receivers (e.g. the None singleton) need not remember which nil they were built from
			if !absent(any(args[0])) {
				c.fail("C01/FlatMap", "absent receiver: callback received %s", show(any(args[0])))
				return
			}
		} else if !same(any(args[0]), av) {
			c.fail("C01/FlatMap", "callback received %s, want the wrapped value %s", show(any(args[0])), show(av))
			return
		}
		if p.FlatRet == 3 {
			// f applied to the wrapped value is "no Maybe": that, not the receiver, is what FlatMap(f) is
			if got != nil {
				c.fail("C01/FlatMap", "the callback returned a nil MaybeDef, FlatMap(f) returned %s", show(any(got)))
			}
			return
		}
		obsEqual(c, "FlatMap", "FlatMap(f) vs f(wrapped)", got, ret)
	})
	// right identity, observer-wise
	c.call("FlatMap", func() {
		got := m.FlatMap(func(x T) fpgo.MaybeDef[T] { return fpgo.JustGenerics[T](x) })
		if got == nil || got.IsNil() != ab {
			c.fail("C01/FlatMap", "right identity: m.FlatMap(Just) absent=%v, want %v", got == nil || got.IsNil(), ab)
		} else if !ab && !same(any(got.Unwrap()), av) {
			c.fail("C01/FlatMap", "right identity: m.FlatMap(Just) wraps %s, want %s", show(any(got.Unwrap())), show(av))
		}
	})

	// --- ToMaybe flattens exactly one level
	c.call("ToMaybe", func() {
		got := m.ToMaybe()
		if inner, ok := av.(fpgo.MaybeDef[T]); ok && !ab {
			obsEqual(c, "ToMaybe", "Just(inner).ToMaybe() vs inner", got, inner)
		} else {
			obsEqual(c, "ToMaybe", "ToMaybe() of a non-Maybe payload vs receiver", got, m)
		}
	})

	// --- Clone: equal Maybe, distinct copy of the pointer target
	c.call("Clone", func() {
		cl := m.Clone()
		if cl == nil {
			c.fail("C01/Clone", "Clone() returned nil")
			return
		}
		if cl.IsNil() != ab || cl.IsPresent() == ab {
			c.fail("C01/Clone", "Clone(): IsNil=%v IsPresent=%v, oracle absent=%v", cl.IsNil(), cl.IsPresent(), ab)
			return
		}
		if ab {
			return
		}
		cv := any(cl.Unwrap())
		ro := reflect.ValueOf(av)
		if ro.Kind() != reflect.Ptr {
			if !equal(cv, av) {
				c.fail("C01/Clone", "Clone() wraps %s, want %s", show(cv), show(av))
			}
			return
		}
		rc := reflect.ValueOf(cv)
		if !rc.IsValid() || rc.Type() != ro.Type() || rc.IsNil() {
			c.fail("C01/Clone", "Clone() of %s wraps %s", show(av), show(cv))
			return
		}
		if !eqV(ro.Elem(), rc.Elem(), true, 0) {
			c.fail("C01/Clone", "*clone differs from *original: %s vs %s", show(cv), show(av))
			return
		}
		if ro.Type().Elem().Size() == 0 {
			return // zero-size pointees may legitimately share an address
		}
		if rc.Pointer() == ro.Pointer() {
			c.fail("C01/Clone/alias", "Clone() of a pointer returned the same pointer")
			return
		}
		snap := reflect.New(ro.Type().Elem()).Elem()
		snap.Set(ro.Elem())
		if mutate(rc.Elem()) {
			if !eqV(ro.Elem(), snap, false, 0) {
				ro.Elem().Set(snap)
				c.fail("C01/Clone/alias", "writing through the clone changed the original")
			}
		}
	})

	// --- CloneTo(m, dest): the clone of an ABSENT Maybe is absent, whatever destination is offered
	c.call("CloneTo", func() {
		if !ab {
			return
		}
		cl := fpgo.CloneTo[T](m, fb)
		if cl == nil || !cl.IsNil() || cl.IsPresent() {
			c.fail("C01/CloneTo", "CloneTo(absent, non-nil destination) is present: the clone of an absent value is not an equal Maybe")
		}
	})
}

// absentOf returns an absent MaybeDef[T] when T admits one (pointer or
// interface types); otherwise Just(fb).
func absentOf[T any](zero T, fb T) fpgo.MaybeDef[T] {
	if absent(any(zero)) {
		return fpgo.JustGenerics[T](zero)
	}
	return fpgo.JustGenerics[T](fb)
}

// ---------------------------------------------------------------- value shapes

// S is the struct shape.
type S struct {
	A int
	B string
}

type myErr struct{ msg string }

// hidden has only unexported fields (reflection may read but not export them).
type hidden struct {
	a int
	p *int
}

type intPtr *int

func (e *myErr) Error() string { return e.msg }

// calm tolerates a nil receiver in its String/Error methods (like *time.Location, *big.Int):
// a typed nil *calm is still ABSENT and must render as "<nil>", whatever fmt would print for it.
type calm struct{ n int }

func (c *calm) String() string {
	if c == nil {
		return "calm(nil-receiver)"
	}
	return fmt.Sprintf("calm(%d)", c.n)
}
func (c *calm) Error() string { return c.String() }

type picks struct {
	I     int64  `json:"i"`
	U     uint64 `json:"u"`
	FBits uint64 `json:"fbits"` // float64 bit pattern (NaN-safe in JSON)
	Str   string `json:"s"`
	N     int    `json:"n"` // small size / nesting depth 1..3
}

func (p picks) f() float64 { return math.Float64frombits(p.FBits) }

func funcA() {}
func funcB() {}

// anyShapes: every shape that can be wrapped as `any` (Maybe.Just and JustGenerics[any]).
var anyShapes = []string{
	"bool", "int", "int8", "int16", "int32", "int64", "uint", "uint8", "uint16", "uint32", "uint64", "uintptr",
	"float32", "float64", "complex128", "string", "struct", "array",
	"slice-nil", "slice-empty", "slice", "map-nil", "map", "func-nil", "func", "chan-nil", "chan",
	"*int", "*S", "*struct{}", "*string", "*[]int", "*any(nil)", "*any(int)", "**int(inner nil)", "**int", "*map(nil)",
	"nil *int", "nil *S", "nil **int", "nil *any", "nil", "error", "nil *myErr", "nil *calm", "*calm",
	"Just(x)", "Just^n(x)", "None", "Just(None)", "Just(Just(None))", "JustGenerics[any](nil)", "JustGenerics[int](x)",
	"*Maybe", "*hidden", "hidden", "nil named ptr", "named ptr", "unsafe.Pointer(nil)", "unsafe.Pointer", "[]any", "*[2]*int",
	// values whose own String()/Error() method panics for this particular value: rendering them is the
	// observers' business and must not panic either (fmt prints such values as %!v(PANIC=...))
	"faulty Stringer", "struct embedding nil Stringer", "*faulty error",
	// a reflect.Value is an ordinary struct value, whatever it describes
	"reflect.Value(ptr)", "reflect.Value(nil ptr)", "reflect.Value(int)", "reflect.Value{}",
	// a nil pointer is absent - also when its pointer TYPE happens to implement MaybeDef itself
	"nil *Box(embeds Maybe)", "*Box(embeds Maybe)",
}

// Box embeds a Maybe: *Box (and Box) implement MaybeDef[any] through the promoted methods
type Box struct {
	fpgo.MaybeDef[any]
	Tag string
}

// weekday-like enum whose String() indexes a table: out-of-range values make String() panic
type faultyEnum int

func (f faultyEnum) String() string { return [...]string{"a", "b"}[f] }

type embedsNil struct {
	fmt.Stringer
	N int
}

type faultyErr struct{ m map[string]string }

func (f *faultyErr) Error() string { f.m["x"] = "y"; return "never" } // writes to a nil map

// buildAny builds the value of a shape and a fallback value that is not
// identical to it.
func buildAny(shape string, p picks) (v any, fb any) {
	sentinel := &S{A: -1, B: "fallback"}
	fb = sentinel
	n := p.N
	if n < 1 {
		n = 1
	}
	switch shape {
	case "bool":
		return p.I%2 == 0, fb
	case "int":
		return int(p.I), fb
	case "int8":
		return int8(p.I), fb
	case "int16":
		return int16(p.I), fb
	case "int32":
		return int32(p.I), fb
	case "int64":
		return p.I, fb
	case "uint":
		return uint(p.U), fb
	case "uint8":
		return uint8(p.U), fb
	case "uint16":
		return uint16(p.U), fb
	case "uint32":
		return uint32(p.U), fb
	case "uint64":
		return p.U, fb
	case "uintptr":
		return uintptr(p.U), fb
	case "float32":
		return float32(p.f()), fb
	case "float64":
		return p.f(), fb
	case "complex128":
		return complex(p.f(), 1), fb
	case "string":
		return p.Str, fb
	case "struct":
		return S{A: int(p.I), B: p.Str}, fb
	case "array":
		return [2]int{int(p.I), 2}, fb
	case "slice-nil":
		return []int(nil), fb
	case "slice-empty":
		return []int{}, fb
	case "slice":
		return make([]int, n), fb
	case "map-nil":
		return map[string]int(nil), fb
	case "map":
		return map[string]int{p.Str: int(p.I)}, fb
	case "func-nil":
		return (func())(nil), fb
	case "func":
		return funcA, fb
	case "chan-nil":
		return (chan int)(nil), fb
	case "chan":
		return make(chan int, 1), fb
	case "*int":
		x := int(p.I)
		return &x, fb
	case "*S":
		return &S{A: int(p.I), B: p.Str}, fb
	case "*struct{}":
		return &struct{}{}, fb
	case "*string":
		s := p.Str
		return &s, fb
	case "*[]int":
		s := make([]int, n)
		return &s, fb
	case "*any(nil)":
		var a any
		return &a, fb
	case "*any(int)":
		var a any = int(p.I)
		return &a, fb
	case "**int(inner nil)":
		var ip *int
		return &ip, fb
	case "**int":
		x := int(p.I)
		ip := &x
		return &ip, fb
	case "*map(nil)":
		var mm map[string]int
		return &mm, fb
	case "nil *Box(embeds Maybe)":
		return (*Box)(nil), fb
	case "*Box(embeds Maybe)":
		return &Box{MaybeDef: fpgo.Maybe.Just(int(p.I)), Tag: "t"}, fb
	case "reflect.Value(ptr)":
		x := int(p.I)
		return reflect.ValueOf(&x), fb
	case "reflect.Value(nil ptr)":
		return reflect.ValueOf((*int)(nil)), fb
	case "reflect.Value(int)":
		return reflect.ValueOf(int(p.I)), fb
	case "reflect.Value{}":
		return reflect.Value{}, fb
	case "faulty Stringer":
		return faultyEnum(7 + int(p.I&3)), fb
	case "struct embedding nil Stringer":
		return embedsNil{N: int(p.I)}, fb
	case "*faulty error":
		return &faultyErr{}, fb
	case "nil *int":
		return (*int)(nil), fb
	case "nil *calm":
		return (*calm)(nil), fb
	case "*calm":
		return &calm{n: int(p.I)}, fb
	case "nil *S":
		return (*S)(nil), fb
	case "nil **int":
		return (**int)(nil), fb
	case "nil *any":
		return (*any)(nil), fb
	case "nil":
		return nil, fb
	case "error":
		return error(&myErr{msg: p.Str + "!"}), fb
	case "nil *myErr":
		return error((*myErr)(nil)), fb
	case "Just(x)":
		return fpgo.Maybe.Just(int(p.I)), fb
	case "Just^n(x)":
		x := int(p.I)
		var m fpgo.MaybeDef[any] = fpgo.Maybe.Just(&x)
		for i := 0; i < n; i++ {
			m = fpgo.Maybe.Just(m)
		}
		return m, fb
	case "None":
		return fpgo.None, fb
	case "Just(None)":
		return fpgo.Maybe.Just(fpgo.None), fb
	case "Just(Just(None))":
		return fpgo.Maybe.Just(fpgo.Maybe.Just(fpgo.None)), fb
	case "JustGenerics[any](nil)":
		return fpgo.JustGenerics[any](nil), fb
	case "JustGenerics[int](x)":
		return fpgo.JustGenerics[int](int(p.I)), fb
	}
	switch shape {
	case "*Maybe":
		m := fpgo.Maybe.Just(int(p.I))
		return &m, fb
	case "*hidden":
		return &hidden{a: int(p.I) | 1, p: new(int)}, fb
	case "hidden":
		return hidden{a: int(p.I), p: new(int)}, fb
	case "nil named ptr":
		return intPtr(nil), fb
	case "named ptr":
		x := int(p.I)
		return intPtr(&x), fb
	case "unsafe.Pointer(nil)":
		return unsafe.Pointer(nil), fb
	case "unsafe.Pointer":
		x := int(p.I)
		return unsafe.Pointer(&x), fb
	case "[]any":
		return []any{nil, (*int)(nil), int(p.I), p.Str}, fb
	case "*[2]*int":
		x := int(p.I)
		return &[2]*int{&x, nil}, fb
	}
	panic("unknown shape " + shape)
}

// instantiations: constructor x T. Each entry lists its shapes.
type inst struct {
	name   string
	shapes []string
	run    func(c *chk, shape string, p picks, pr params) (v any)
}

func runTyped[T any](c *chk, v, fb T, pr params) any {
	var m fpgo.MaybeDef[T]
	if !c.call("JustGenerics", func() { m = fpgo.JustGenerics[T](v) }) {
		return any(v)
	}
	exercise[T](c, m, v, fb, pr)
	return any(v)
}

var insts = []inst{
	{"Maybe.Just", anyShapes, func(c *chk, shape string, p picks, pr params) any {
		v, fb := buildAny(shape, p)
		var m fpgo.MaybeDef[any]
		if !c.call("Maybe.Just", func() { m = fpgo.Maybe.Just(v) }) {
			return v
		}
		exercise[any](c, m, v, fb, pr)
		return v
	}},
	{"None.Just", anyShapes, func(c *chk, shape string, p picks, pr params) any {
		v, fb := buildAny(shape, p)
		var m fpgo.MaybeDef[any]
		if !c.call("Maybe.Just", func() { m = fpgo.None.Just(v) }) {
			return v
		}
		exercise[any](c, m, v, fb, pr)
		return v
	}},
	{"JustGenerics[any]", anyShapes, func(c *chk, shape string, p picks, pr params) any {
		v, fb := buildAny(shape, p)
		return runTyped[any](c, v, fb, pr)
	}},
	{"JustGenerics[bool]", []string{"bool"}, func(c *chk, shape string, p picks, pr params) any {
		b := p.I%2 == 0
		return runTyped[bool](c, b, !b, pr)
	}},
	{"JustGenerics[int]", []string{"int"}, func(c *chk, shape string, p picks, pr params) any {
		return runTyped[int](c, int(p.I), int(p.I)+1, pr)
	}},
	{"JustGenerics[uint8]", []string{"uint8"}, func(c *chk, shape string, p picks, pr params) any {
		return runTyped[uint8](c, uint8(p.U), uint8(p.U)+1, pr)
	}},
	{"JustGenerics[float64]", []string{"float64"}, func(c *chk, shape string, p picks, pr params) any {
		return runTyped[float64](c, p.f(), 12345.5, pr)
	}},
	{"JustGenerics[string]", []string{"string"}, func(c *chk, shape string, p picks, pr params) any {
		return runTyped[string](c, p.Str, p.Str+"#fb", pr)
	}},
	{"JustGenerics[*int]", []string{"*int", "nil *int"}, func(c *chk, shape string, p picks, pr params) any {
		fb := new(int)
		if shape == "nil *int" {
			return runTyped[*int](c, nil, fb, pr)
		}
		x := int(p.I)
		return runTyped[*int](c, &x, fb, pr)
	}},
	{"JustGenerics[**int]", []string{"**int", "**int(inner nil)", "nil **int"}, func(c *chk, shape string, p picks, pr params) any {
		fbi := new(int)
		fb := &fbi
		switch shape {
		case "nil **int":
			return runTyped[**int](c, nil, fb, pr)
		case "**int(inner nil)":
			var ip *int
			return runTyped[**int](c, &ip, fb, pr)
		}
		x := int(p.I)
		ip := &x
		return runTyped[**int](c, &ip, fb, pr)
	}},
	{"JustGenerics[intPtr]", []string{"named ptr", "nil named ptr"}, func(c *chk, shape string, p picks, pr params) any {
		fb := intPtr(new(int))
		if shape == "nil named ptr" {
			return runTyped[intPtr](c, nil, fb, pr)
		}
		x := int(p.I)
		return runTyped[intPtr](c, &x, fb, pr)
	}},
	{"JustGenerics[*S]", []string{"*S", "nil *S"}, func(c *chk, shape string, p picks, pr params) any {
		fb := &S{A: -1}
		if shape == "nil *S" {
			return runTyped[*S](c, nil, fb, pr)
		}
		return runTyped[*S](c, &S{A: int(p.I), B: p.Str}, fb, pr)
	}},
	{"JustGenerics[[]int]", []string{"slice-nil", "slice-empty", "slice"}, func(c *chk, shape string, p picks, pr params) any {
		fb := []int{9, 9}
		switch shape {
		case "slice-nil":
			return runTyped[[]int](c, nil, fb, pr)
		case "slice-empty":
			return runTyped[[]int](c, []int{}, fb, pr)
		}
		n := p.N
		if n < 1 {
			n = 1
		}
		return runTyped[[]int](c, make([]int, n), fb, pr)
	}},
	{"JustGenerics[map[string]int]", []string{"map-nil", "map"}, func(c *chk, shape string, p picks, pr params) any {
		fb := map[string]int{"fb": 1}
		if shape == "map-nil" {
			return runTyped[map[string]int](c, nil, fb, pr)
		}
		return runTyped[map[string]int](c, map[string]int{p.Str: int(p.I)}, fb, pr)
	}},
	{"JustGenerics[func()]", []string{"func-nil", "func"}, func(c *chk, shape string, p picks, pr params) any {
		if shape == "func-nil" {
			return runTyped[func()](c, nil, funcB, pr)
		}
		return runTyped[func()](c, funcA, funcB, pr)
	}},
	{"JustGenerics[chan int]", []string{"chan-nil", "chan"}, func(c *chk, shape string, p picks, pr params) any {
		fb := make(chan int)
		if shape == "chan-nil" {
			return runTyped[chan int](c, nil, fb, pr)
		}
		return runTyped[chan int](c, make(chan int, 1), fb, pr)
	}},
	{"JustGenerics[S]", []string{"struct"}, func(c *chk, shape string, p picks, pr params) any {
		return runTyped[S](c, S{A: int(p.I), B: p.Str}, S{A: int(p.I) + 1, B: "fb"}, pr)
	}},
	{"JustGenerics[*calm]", []string{"*calm", "nil *calm"}, func(c *chk, shape string, p picks, pr params) any {
		fb := &calm{n: -7}
		if shape == "nil *calm" {
			return runTyped[*calm](c, nil, fb, pr)
		}
		return runTyped[*calm](c, &calm{n: int(p.I)}, fb, pr)
	}},
	{"JustGenerics[fmt.Stringer]", []string{"nil", "*calm", "nil *calm"}, func(c *chk, shape string, p picks, pr params) any {
		fb := fmt.Stringer(&calm{n: -7})
		switch shape {
		case "nil":
			return runTyped[fmt.Stringer](c, nil, fb, pr)
		case "nil *calm":
			return runTyped[fmt.Stringer](c, (*calm)(nil), fb, pr)
		}
		return runTyped[fmt.Stringer](c, &calm{n: int(p.I)}, fb, pr)
	}},
	{"JustGenerics[error]", []string{"nil", "error", "nil *myErr", "nil *calm"}, func(c *chk, shape string, p picks, pr params) any {
		fb := error(&myErr{msg: "fb"})
		switch shape {
		case "nil *calm":
			return runTyped[error](c, (*calm)(nil), fb, pr)
		case "nil":
			return runTyped[error](c, nil, fb, pr)
		case "nil *myErr":
			return runTyped[error](c, (*myErr)(nil), fb, pr)
		}
		return runTyped[error](c, &myErr{msg: p.Str + "!"}, fb, pr)
	}},
	{"JustGenerics[MaybeDef[any]]", []string{"nil", "None", "Just(x)", "Just(None)", "Just^n(x)"}, func(c *chk, shape string, p picks, pr params) any {
		fb := fpgo.Maybe.Just("fb")
		if shape == "nil" {
			return runTyped[fpgo.MaybeDef[any]](c, nil, fb, pr)
		}
		v, _ := buildAny(shape, p)
		return runTyped[fpgo.MaybeDef[any]](c, v.(fpgo.MaybeDef[any]), fb, pr)
	}},
}

var instByName = func() map[string]*inst {
	m := map[string]*inst{}
	for i := range insts {
		m[insts[i].name] = &insts[i]
	}
	return m
}()

// kase is one serialisable case.
type kase struct {
	Inst   string `json:"inst"`
	Shape  string `json:"shape"`
	Picks  picks  `json:"picks"`
	Params params `json:"params"`
}

func (k kase) String() string {
	return fmt.Sprintf("%s(%s) i=%d u=%d f=%v s=%q n=%d flatRet=%d", k.Inst, k.Shape, k.Picks.I, k.Picks.U, k.Picks.f(), k.Picks.Str, k.Picks.N, k.Params.FlatRet)
}

// runCase executes one case; part names the evidence part.
func runCase(part string, k kase) *chk {
	in := instByName[k.Inst]
	if in == nil {
		return &chk{key: "C01/harness", msg: "unknown instantiation " + k.Inst}
	}
	c := &chk{what: k.String()}
	s := vlib.S()
	s.Eval(part)
	v := in.run(c, k.Shape, k.Picks, k.Params)
	if absent(v) {
		s.Class(part + "/absent")
	} else {
		s.Class(part + "/present")
	}
	if nonTrivial(v) {
		s.NonTrivial(part, k.Inst+" x "+k.Shape)
		s.Class(part + "/nontrivial")
	}
	return c
}

var fixedPicks = []picks{
	{I: 7, U: 7, FBits: math.Float64bits(1.5), Str: "seven", N: 2},
	{I: 0, U: 0, FBits: math.Float64bits(0), Str: "", N: 1},
	{I: -1, U: math.MaxUint64, FBits: math.Float64bits(math.NaN()), Str: "<nil>", N: 3},
}

// ---------------------------------------------------------------- regressions (replay tier)

var regressions = []struct {
	note string
	k    kase
}{
	// DESIGN §4 #1: Clone of a non-nil pointer panicked (reflect Elem/Set on zero Value), both constructors
	{"Maybe.Just(&x).Clone()", kase{Inst: "Maybe.Just", Shape: "*int", Picks: fixedPicks[0]}},
	{"JustGenerics(&x).Clone()", kase{Inst: "JustGenerics[*int]", Shape: "*int", Picks: fixedPicks[0]}},
	{"JustGenerics[any](&S).Clone()", kase{Inst: "JustGenerics[any]", Shape: "*S", Picks: fixedPicks[0]}},
	{"JustGenerics[error](&myErr).Clone()", kase{Inst: "JustGenerics[error]", Shape: "error", Picks: fixedPicks[0]}},
	// found by the random part: the clone of a named pointer type had the unnamed type (JustGenerics[intPtr]: panic)
	{"Maybe.Just(intPtr(&x)).Clone()", kase{Inst: "Maybe.Just", Shape: "named ptr", Picks: fixedPicks[0]}},
	{"JustGenerics[intPtr](&x).Clone()", kase{Inst: "JustGenerics[intPtr]", Shape: "named ptr", Picks: fixedPicks[0]}},
	// DESIGN §4 #2: JustGenerics[*int](nil).ToPtr() panicked (Interface on zero Value)
	{"JustGenerics[*int](nil).ToPtr()", kase{Inst: "JustGenerics[*int]", Shape: "nil *int", Picks: fixedPicks[0]}},
	{"JustGenerics[any]((*S)(nil)).ToPtr()", kase{Inst: "JustGenerics[any]", Shape: "nil *S", Picks: fixedPicks[0]}},
	{"JustGenerics[error]((*myErr)(nil)).ToPtr()", kase{Inst: "JustGenerics[error]", Shape: "nil *myErr", Picks: fixedPicks[0]}},
	// DESIGN §4 #3: Maybe.Just(None).ToMaybe() was not flattened
	{"Maybe.Just(None).ToMaybe()", kase{Inst: "Maybe.Just", Shape: "None", Picks: fixedPicks[0]}},
	{"JustGenerics[any](None).ToMaybe()", kase{Inst: "JustGenerics[any]", Shape: "None", Picks: fixedPicks[0]}},
}

func TestRegress(t *testing.T) {
	for _, r := range regressions {
		r := r
		t.Run(r.note, func(t *testing.T) {
			for fr := 0; fr < 4; fr++ {
				k := r.k
				k.Params.FlatRet = fr
				c := runCase("regress", k)
				if c.failed() {
					if vlib.Fail(t, c.key, "regression %q: %s", r.note, c.msg) {
						continue
					}
				}
			}
		})
	}
}

func TestReplayJSON(t *testing.T) {
	raw := vlib.ReplayCase("C01/case")
	if raw == nil {
		t.Skip("no replay case")
	}
	var doc struct {
		Case kase `json:"case"`
	}
	if err := json.Unmarshal(raw, &doc); err != nil {
		t.Fatalf("bad replay: %v", err)
	}
	c := runCase("replay", doc.Case)
	if c.failed() {
		t.Fatalf("[key=%s] replay: %s", c.key, c.msg)
	}
}

// ---------------------------------------------------------------- the matrix (exhaustive over shapes x instantiations x observers)

func TestMatrix(t *testing.T) {
	if vlib.Replaying() {
		t.Skip()
	}
	s := vlib.S()
	cells := 0
	known := map[string]bool{}
	for _, in := range insts {
		for _, shape := range in.shapes {
			cells++
			if cells%vlib.Shards() != vlib.Shard() {
				continue
			}
			for pi, p := range fixedPicks {
				for fr := 0; fr < 4; fr++ {
					k := kase{Inst: in.name, Shape: shape, Picks: p, Params: params{FlatRet: fr}}
					c := runCase("matrix", k)
					if !c.failed() {
						continue
					}
					if vlib.Known(c.key) {
						known[c.key] = true
						continue
					}
					vlib.WriteReplay("C01/case", map[string]any{"case": k, "readable": k.String(), "failure": c.msg, "picks_index": pi})
					vlib.Fail(t, c.key, "%s", c.msg)
				}
			}
		}
	}
	s.Note("matrix: %d (instantiation x shape) cells x %d representative pick sets x 4 FlatMap callbacks, every MaybeDef observer + 9 extra conversions per case (shard %d of %d)",
		cells, len(fixedPicks), vlib.Shard(), vlib.Shards())
	s.Exhaustive("matrix")
}

// ---------------------------------------------------------------- random cases (rapid)

var instNames = func() []string {
	var n []string
	for _, in := range insts {
		n = append(n, in.name)
	}
	return n
}()

var specialFloats = []float64{0, math.Copysign(0, -1), math.NaN(), math.Inf(1), math.Inf(-1), 1, -1, math.MaxFloat64, math.SmallestNonzeroFloat64}

func genPicks(t *rapid.T) picks {
	var p picks
	p.I = rapid.OneOf(rapid.Int64Range(-3, 3), rapid.Int64()).Draw(t, "i")
	p.U = rapid.OneOf(rapid.Uint64Range(0, 3), rapid.Uint64()).Draw(t, "u")
	f := rapid.OneOf(rapid.SampledFrom(specialFloats), rapid.Float64()).Draw(t, "f")
	p.FBits = math.Float64bits(f)
	p.Str = rapid.OneOf(rapid.SampledFrom([]string{"", "<nil>", "0", "1", "true", "nil"}), rapid.StringN(0, 6, -1)).Draw(t, "s")
	p.N = rapid.IntRange(1, 3).Draw(t, "n")
	return p
}

func genCase(t *rapid.T) kase {
	// half of the cases use the three `any` constructors (all shapes), half the typed table
	var name string
	if rapid.Bool().Draw(t, "anyCtor") {
		name = rapid.SampledFrom([]string{"Maybe.Just", "JustGenerics[any]", "None.Just"}).Draw(t, "inst")
	} else {
		name = rapid.SampledFrom(instNames).Draw(t, "inst")
	}
	in := instByName[name]
	shape := rapid.SampledFrom(in.shapes).Draw(t, "shape")
	return kase{Inst: name, Shape: shape, Picks: genPicks(t), Params: params{FlatRet: rapid.IntRange(0, 3).Draw(t, "flatRet")}}
}

func propObservers(t *rapid.T) {
	k := genCase(t)
	c := runCase("random", k)
	if c.failed() {
		if vlib.Fail(t, c.key, "%s", c.msg) {
			t.Skip("known finding")
		}
	}
}

func TestRandom(t *testing.T) {
	vlib.Check(t, "random", 100000, 500000, propObservers)
}

// ---------------------------------------------------------------- monad laws over MaybeDef[any]

type pair struct {
	Tag int
	X   any
}

// lawFns is the function family for the laws (pure functions any -> MaybeDef[any]).
var lawFns = []struct {
	name string
	f    func(any) fpgo.MaybeDef[any]
}{
	{"Just", func(x any) fpgo.MaybeDef[any] { return fpgo.Maybe.Just(x) }},
	{"JustGenerics", func(x any) fpgo.MaybeDef[any] { return fpgo.JustGenerics[any](x) }},
	{"const None", func(x any) fpgo.MaybeDef[any] { return fpgo.None }},
	{"const absent", func(x any) fpgo.MaybeDef[any] { return fpgo.JustGenerics[any]((*int)(nil)) }},
	{"Just∘pair1", func(x any) fpgo.MaybeDef[any] { return fpgo.Maybe.Just(pair{1, x}) }},
	{"Just∘pair2", func(x any) fpgo.MaybeDef[any] { return fpgo.Maybe.Just(pair{2, x}) }},
	{"Just∘ptr", func(x any) fpgo.MaybeDef[any] { return fpgo.Maybe.Just(&pair{3, x}) }},
	{"absent-if-nil", func(x any) fpgo.MaybeDef[any] {
		if absent(x) {
			return fpgo.None
		}
		return fpgo.Maybe.Just(pair{4, x})
	}},
}

// lawEqual: observer-wise equality with structural comparison of the payload
// (Just∘ptr allocates, so identity would be too strict across two evaluations).
func lawEqual(c *chk, law string, a, b fpgo.MaybeDef[any]) {
	if a == nil || b == nil {
		c.fail("C01/FlatMap/"+law, "%s: nil MaybeDef", law)
		return
	}
	if a.IsNil() != b.IsNil() || a.IsPresent() != b.IsPresent() {
		c.fail("C01/FlatMap/"+law, "%s: sides disagree on absence: %v vs %v", law, a.IsNil(), b.IsNil())
		return
	}
	if a.IsNil() {
		return
	}
	if !equal(a.Unwrap(), b.Unwrap()) {
		c.fail("C01/FlatMap/"+law, "%s: %s vs %s", law, show(a.Unwrap()), show(b.Unwrap()))
	}
}

func propLaws(t *rapid.T) {
	shape := rapid.SampledFrom(anyShapes).Draw(t, "shape")
	p := genPicks(t)
	ctor := rapid.IntRange(0, 1).Draw(t, "ctor")
	fi := rapid.IntRange(0, len(lawFns)-1).Draw(t, "f")
	gi := rapid.IntRange(0, len(lawFns)-1).Draw(t, "g")
	f, g := lawFns[fi].f, lawFns[gi].f
	ctorName := []string{"Maybe.Just", "JustGenerics[any]"}[ctor]
	s := vlib.S()
	s.Eval("laws")
	v, _ := buildAny(shape, p)
	c := &chk{what: fmt.Sprintf("laws %s(%s) f=%s g=%s i=%d s=%q n=%d", ctorName, shape, lawFns[fi].name, lawFns[gi].name, p.I, p.Str, p.N)}
	c.call("FlatMap", func() {
		mk := func(x any) fpgo.MaybeDef[any] {
			if ctor == 0 {
				return fpgo.Maybe.Just(x)
			}
			return fpgo.JustGenerics[any](x)
		}
		m := mk(v)
		ab := absent(v)
		if !ab {
			// left identity: Just(a).FlatMap(f) = f(a)
			lawEqual(c, "left-identity", m.FlatMap(f), f(v))
		}
		// right identity: m.FlatMap(Just) = m
		lawEqual(c, "right-identity", m.FlatMap(mk), m)
		// associativity
		lhs := m.FlatMap(f).FlatMap(g)
		rhs := m.FlatMap(func(x any) fpgo.MaybeDef[any] { return f(x).FlatMap(g) })
		lawEqual(c, "associativity", lhs, rhs)
		// ToMaybe: exactly one level
		inner := mk(v)
		outer := mk(inner)
		flat := outer.ToMaybe()
		if flat == nil || flat.IsNil() != ab {
			c.fail("C01/ToMaybe", "Just(Just(v)).ToMaybe() absent=%v, want %v", flat == nil || flat.IsNil(), ab)
		} else if !ab && !same(flat.Unwrap(), v) {
			c.fail("C01/ToMaybe", "Just(Just(v)).ToMaybe() wraps %s, want %s", show(flat.Unwrap()), show(v))
		}
		outer2 := mk(outer)
		flat2 := outer2.ToMaybe()
		if flat2 == nil || flat2.IsNil() {
			c.fail("C01/ToMaybe", "Just(Just(Just(v))).ToMaybe() is absent")
		} else if _, ok := flat2.Unwrap().(fpgo.MaybeDef[any]); !ok {
			c.fail("C01/ToMaybe", "Just(Just(Just(v))).ToMaybe() lost more than one level: wraps %s", show(flat2.Unwrap()))
		}
	})
	if nonTrivial(v) {
		s.NonTrivial("laws", fmt.Sprintf("laws %s x %s x f=%s g=%s", ctorName, shape, lawFns[fi].name, lawFns[gi].name))
		s.Class("laws/nontrivial")
	} else {
		s.Class("laws/trivial")
	}
	if c.failed() {
		if vlib.Fail(t, c.key, "%s", c.msg) {
			t.Skip("known finding")
		}
	}
}

func TestLaws(t *testing.T) {
	vlib.Check(t, "laws", 50000, 250000, propLaws)
}

// keep sort imported for deterministic listings in notes
var _ = sort.Strings
