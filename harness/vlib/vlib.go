// Package vlib is the shared plumbing of the fpGo property checks: statistics
// and evidence, known-findings matching, replay files, the rapid wrapper that
// scales case counts by tier, and small helpers (goroutine id, recover).
package vlib

import (
	"encoding/json"
	"flag"
	"fmt"
	"hash/fnv"
	"os"
	"path/filepath"
	"runtime"
	"runtime/debug"
	"sort"
	"strconv"
	"strings"
	"sync"
	"testing"
	"time"

	"pgregory.net/rapid"
)

// ---------------------------------------------------------------- tier / seed

// Tier returns "quick" or "thorough" (env VERIF_TIER, default quick).
func Tier() string {
	if os.Getenv("VERIF_TIER") == "thorough" {
		return "thorough"
	}
	return "quick"
}

// Thorough reports whether the thorough tier is running.
func Thorough() bool { return Tier() == "thorough" }

// Pick returns q in the quick tier and th in the thorough tier.
func Pick(q, th int) int {
	if Thorough() {
		return th
	}
	return q
}

// Seed is the rapid seed of this process (VERIF_SHARD_SEED set by the driver).
func Seed() uint64 {
	if s, err := strconv.ParseUint(os.Getenv("VERIF_SHARD_SEED"), 10, 64); err == nil && s != 0 {
		return s
	}
	return 1
}

// Shard / Shards identify this process among the parallel shards of a run.
func Shard() int { n, _ := strconv.Atoi(os.Getenv("VERIF_SHARD")); return n }
func Shards() int {
	n, _ := strconv.Atoi(os.Getenv("VERIF_SHARDS"))
	if n < 1 {
		n = 1
	}
	return n
}

// ---------------------------------------------------------------- stats

// Stats collects what a check actually covered. Safe for concurrent use.
type Stats struct {
	mu          sync.Mutex
	Property    string
	evaluations int64
	nontrivial  map[uint64]struct{}
	classes     map[string]int64
	samples     []any
	sampleKeys  map[string]int
	known       map[string]*knownHit
	parts       map[string]*partInfo
	shortfall   []string
	notes       []string
	start       time.Time
}

type knownHit struct {
	What  string `json:"what"`
	Count int64  `json:"count"`
}

type partInfo struct {
	Evaluations int64 `json:"evaluations"`
	Exhaustive  bool  `json:"exhaustive"`
	Requested   int64 `json:"requested,omitempty"`
}

var (
	global     *Stats
	globalOnce sync.Once
)

// S returns the process-wide Stats (created by Main).
func S() *Stats {
	globalOnce.Do(func() {
		global = &Stats{
			Property:   os.Getenv("VERIF_PROPERTY"),
			nontrivial: map[uint64]struct{}{},
			classes:    map[string]int64{},
			sampleKeys: map[string]int{},
			known:      map[string]*knownHit{},
			parts:      map[string]*partInfo{},
			start:      time.Now(),
		}
	})
	return global
}

// Eval counts one executed case belonging to part (a sub-check name).
func (s *Stats) Eval(part string) {
	s.mu.Lock()
	s.evaluations++
	p := s.parts[part]
	if p == nil {
		p = &partInfo{}
		s.parts[part] = p
	}
	p.Evaluations++
	s.mu.Unlock()
}

// EvalN counts n executed cases belonging to part.
func (s *Stats) EvalN(part string, n int64) {
	s.mu.Lock()
	s.evaluations += n
	p := s.parts[part]
	if p == nil {
		p = &partInfo{}
		s.parts[part] = p
	}
	p.Evaluations += n
	s.mu.Unlock()
}

// Exhaustive marks part as a complete enumeration of a finite space.
func (s *Stats) Exhaustive(part string) {
	s.mu.Lock()
	p := s.parts[part]
	if p == nil {
		p = &partInfo{}
		s.parts[part] = p
	}
	p.Exhaustive = true
	s.mu.Unlock()
}

// Class increments a generator-health histogram bucket.
func (s *Stats) Class(name string) {
	s.mu.Lock()
	s.classes[name]++
	s.mu.Unlock()
}

// ClassN adds n to a histogram bucket.
func (s *Stats) ClassN(name string, n int64) {
	s.mu.Lock()
	s.classes[name] += n
	s.mu.Unlock()
}

// NonTrivial records a case that is non-trivial by the property's rule. desc
// is the canonical description used for distinctness; the first few per
// sampleGroup are kept verbatim as samples.
func (s *Stats) NonTrivial(sampleGroup string, desc string) {
	h := fnv.New64a()
	h.Write([]byte(desc))
	k := h.Sum64()
	s.mu.Lock()
	if _, ok := s.nontrivial[k]; !ok {
		s.nontrivial[k] = struct{}{}
		if s.sampleKeys[sampleGroup] < 3 && len(s.samples) < 60 {
			s.sampleKeys[sampleGroup]++
			d := desc
			if len(d) > 600 {
				d = d[:600] + "…"
			}
			s.samples = append(s.samples, map[string]any{"part": sampleGroup, "case": d})
		}
	}
	s.mu.Unlock()
}

// Note adds a free-text note to the evidence.
func (s *Stats) Note(format string, a ...any) {
	s.mu.Lock()
	if len(s.notes) < 50 {
		s.notes = append(s.notes, fmt.Sprintf(format, a...))
	}
	s.mu.Unlock()
}

// Shortfall records that a part ran fewer cases than requested (time budget).
func (s *Stats) Shortfall(part string, got, want int) {
	s.mu.Lock()
	s.shortfall = append(s.shortfall, fmt.Sprintf("%s: %d of %d", part, got, want))
	s.mu.Unlock()
}

type partial struct {
	Property    string               `json:"property"`
	Tier        string               `json:"tier"`
	Seed        uint64               `json:"seed"`
	Evaluations int64                `json:"evaluations"`
	NonTrivial  []uint64             `json:"nontrivial_hashes"`
	Classes     map[string]int64     `json:"classes"`
	Samples     []any                `json:"samples"`
	Known       map[string]*knownHit `json:"known"`
	Parts       map[string]*partInfo `json:"parts"`
	Shortfall   []string             `json:"shortfall"`
	Notes       []string             `json:"notes"`
	WallS       float64              `json:"wall_s"`
}

// Flush writes the partial evidence of this process to $VERIF_EVIDENCE_OUT.
func (s *Stats) Flush() {
	out := os.Getenv("VERIF_EVIDENCE_OUT")
	if out == "" {
		return
	}
	s.mu.Lock()
	defer s.mu.Unlock()
	p := partial{
		Property: s.Property, Tier: Tier(), Seed: Seed(), Evaluations: s.evaluations,
		Classes: s.classes, Samples: s.samples, Known: s.known, Parts: s.parts,
		Shortfall: s.shortfall, Notes: s.notes, WallS: time.Since(s.start).Seconds(),
	}
	for k := range s.nontrivial {
		p.NonTrivial = append(p.NonTrivial, k)
	}
	sort.Slice(p.NonTrivial, func(i, j int) bool { return p.NonTrivial[i] < p.NonTrivial[j] })
	b, _ := json.Marshal(p)
	_ = os.WriteFile(out, b, 0o644)
}

// Main is the TestMain body of every check package.
func Main(m *testing.M) {
	S()
	if !flag.Parsed() {
		flag.Parse()
	}
	_ = flag.Set("rapid.seed", strconv.FormatUint(Seed(), 10))
	// shrinking is a convenience: a failing case with stall budgets in it must not eat the check's deadline
	_ = flag.Set("rapid.shrinktime", "10s")
	code := m.Run()
	S().Flush()
	os.Exit(code)
}

// ---------------------------------------------------------------- known findings

type finding struct {
	Status   string `json:"status"`
	Property string `json:"property"`
	Key      string `json:"key"`
	What     string `json:"what"`
}

var (
	findingsOnce sync.Once
	openFindings map[string]finding
	printedKnown sync.Map
)

func loadFindings() {
	openFindings = map[string]finding{}
	path := os.Getenv("VERIF_KNOWN_FINDINGS")
	if path == "" {
		path = "/verif/known_findings.json"
	}
	b, err := os.ReadFile(path)
	if err != nil {
		return
	}
	var doc struct {
		Findings []finding `json:"findings"`
	}
	if json.Unmarshal(b, &doc) != nil {
		return
	}
	for _, f := range doc.Findings {
		if f.Status == "open" {
			openFindings[f.Key] = f
		}
	}
}

// Known reports whether key is listed as an open finding; when it is, the hit
// is counted, a KNOWN-FINDING line is printed once, and the caller must treat
// the case as excluded (not as a violation).
func Known(key string) bool {
	findingsOnce.Do(loadFindings)
	f, ok := openFindings[key]
	if !ok {
		return false
	}
	s := S()
	s.mu.Lock()
	h := s.known[key]
	if h == nil {
		h = &knownHit{What: f.What}
		s.known[key] = h
	}
	h.Count++
	s.mu.Unlock()
	if _, dup := printedKnown.LoadOrStore(key, true); !dup {
		fmt.Printf("KNOWN-FINDING: property=%s key=%s %s\n", f.Property, key, f.What)
	}
	return true
}

// TB is the subset of testing.TB / *rapid.T used by Fail.
type TB interface {
	Fatalf(format string, args ...any)
	Helper()
}

// Fail reports an oracle failure with a root-cause key. If the key is an open
// known finding it returns true (caller skips the rest of this case);
// otherwise it fails the test (does not return).
func Fail(t TB, key string, format string, args ...any) bool {
	t.Helper()
	if Known(key) {
		return true
	}
	msg := fmt.Sprintf(format, args...)
	fmt.Printf("FAILKEY: %s\n", key)
	t.Fatalf("[key=%s] %s", key, msg)
	return false
}

// ---------------------------------------------------------------- replay files

var replaySeq int64
var replayMu sync.Mutex

// WriteReplay stores a human-readable replay document for a failure that was
// not produced by rapid (directed / exhaustive / concurrent parts) and prints
// its path so the driver can reference it.
func WriteReplay(test string, doc any) string {
	dir := os.Getenv("VERIF_REPLAY_DIR")
	if dir == "" {
		dir = os.TempDir()
	}
	_ = os.MkdirAll(dir, 0o755)
	replayMu.Lock()
	replaySeq++
	n := replaySeq
	replayMu.Unlock()
	name := filepath.Join(dir, fmt.Sprintf("%s-%d-%d.json", sanitize(test), os.Getpid(), n))
	b, err := json.MarshalIndent(map[string]any{"test": test, "case": doc}, "", " ")
	if err != nil {
		b = []byte(fmt.Sprintf("{\"test\":%q,\"case\":%q}", test, fmt.Sprint(doc)))
	}
	_ = os.WriteFile(name, b, 0o644)
	fmt.Printf("REPLAY-FILE: %s\n", name)
	return name
}

func sanitize(s string) string {
	return strings.Map(func(r rune) rune {
		if r >= 'a' && r <= 'z' || r >= 'A' && r <= 'Z' || r >= '0' && r <= '9' || r == '-' || r == '_' {
			return r
		}
		return '_'
	}, s)
}

// ReplayCase returns the decoded "case" of $VERIF_REPLAY_FILE if it belongs to
// test, else nil.
func ReplayCase(test string) json.RawMessage {
	path := os.Getenv("VERIF_REPLAY_FILE")
	if path == "" || strings.HasSuffix(path, ".fail") {
		return nil
	}
	b, err := os.ReadFile(path)
	if err != nil {
		return nil
	}
	var doc struct {
		Test string          `json:"test"`
		Case json.RawMessage `json:"case"`
	}
	if json.Unmarshal(b, &doc) != nil || doc.Test != test {
		return nil
	}
	return doc.Case
}

// Replaying reports whether the process is in replay mode.
func Replaying() bool { return os.Getenv("VERIF_REPLAY_FILE") != "" }

// ---------------------------------------------------------------- rapid wrapper

// Check runs prop with rapid for quick/thorough case counts. The number of
// completed cases is compared with the request; a shortfall (deadline hit) is
// recorded so the driver reports "inconclusive" instead of success.
func Check(t *testing.T, part string, quick, thorough int, prop func(*rapid.T)) {
	t.Helper()
	n := Pick(quick, thorough)
	if v := os.Getenv("VERIF_CHECKS_OVERRIDE"); v != "" {
		if k, err := strconv.Atoi(v); err == nil {
			n = k
		}
	}
	if os.Getenv("VERIF_REPLAY_FILE") != "" && strings.HasSuffix(os.Getenv("VERIF_REPLAY_FILE"), ".fail") {
		_ = flag.Set("rapid.failfile", os.Getenv("VERIF_REPLAY_FILE"))
		n = 1
	}
	_ = flag.Set("rapid.checks", strconv.Itoa(n))
	var done int64
	var mu sync.Mutex
	rapid.Check(t, func(rt *rapid.T) {
		prop(rt)
		mu.Lock()
		done++
		mu.Unlock()
	})
	mu.Lock()
	d := done
	mu.Unlock()
	s := S()
	s.mu.Lock()
	p := s.parts[part]
	if p == nil {
		p = &partInfo{}
		s.parts[part] = p
	}
	p.Requested += int64(n)
	s.mu.Unlock()
	if !t.Failed() && int(d) < n && !Replaying() {
		s.Shortfall(part, int(d), n)
	}
}

// ---------------------------------------------------------------- helpers

// Try runs f and returns the recovered panic value (nil if none) and stack.
func Try(f func()) (p any, stack string) {
	defer func() {
		if r := recover(); r != nil {
			p = r
			stack = string(debug.Stack())
		}
	}()
	f()
	return nil, ""
}

// GoID returns the current goroutine's id (parsed from the stack header).
func GoID() uint64 {
	var buf [64]byte
	n := runtime.Stack(buf[:], false)
	f := strings.Fields(string(buf[:n]))
	if len(f) < 2 {
		return 0
	}
	id, _ := strconv.ParseUint(f[1], 10, 64)
	return id
}

// AllStacks returns a dump of all goroutines.
func AllStacks() string {
	buf := make([]byte, 1<<20)
	for {
		n := runtime.Stack(buf, true)
		if n < len(buf) {
			return string(buf[:n])
		}
		buf = make([]byte, 2*len(buf))
	}
}

// WaitUntil polls cond until it is true or the budget expires.
func WaitUntil(budget time.Duration, cond func() bool) bool {
	deadline := time.Now().Add(budget)
	for i := 0; ; i++ {
		if cond() {
			return true
		}
		if time.Now().After(deadline) {
			return cond()
		}
		if i < 50 {
			runtime.Gosched()
		} else {
			time.Sleep(50 * time.Microsecond)
		}
	}
}

// StallBudget is the liveness budget (see DESIGN 1.6).
func StallBudget() time.Duration {
	if Thorough() {
		return 10 * time.Second
	}
	return 5 * time.Second
}
