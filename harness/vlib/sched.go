package vlib

import (
	"fmt"
	"runtime"
	"sort"
	"strings"
	"sync"
	"sync/atomic"
	"time"

	"pgregory.net/rapid"
)

// Hook scheduler: the harness owns the schedule at the verif hook points of
// fpGo (build tag verif). A Plan maps a point name to a list of actions that
// are consumed in order by successive hits of that point on tracked objects.

type ActKind int

const (
	ActPass ActKind = iota
	ActYield
	ActSleep
	ActPark   // wait for Event (or timeout)
	ActSignal // signal Event, then pass
)

type Action struct {
	Kind  ActKind       `json:"kind"`
	N     int           `json:"n,omitempty"`     // yields
	D     time.Duration `json:"d,omitempty"`     // sleep / park timeout
	Event string        `json:"event,omitempty"` // park / signal
}

func (a Action) String() string {
	switch a.Kind {
	case ActPass:
		return "pass"
	case ActYield:
		return fmt.Sprintf("yield*%d", a.N)
	case ActSleep:
		return fmt.Sprintf("sleep(%v)", a.D)
	case ActPark:
		return fmt.Sprintf("park(%s,%v)", a.Event, a.D)
	case ActSignal:
		return fmt.Sprintf("signal(%s)", a.Event)
	}
	return "?"
}

type Plan map[string][]Action

func (p Plan) String() string {
	keys := make([]string, 0, len(p))
	for k := range p {
		keys = append(keys, k)
	}
	sort.Strings(keys)
	var sb strings.Builder
	for _, k := range keys {
		if len(p[k]) == 0 {
			continue
		}
		sb.WriteString(k)
		sb.WriteString(":[")
		for i, a := range p[k] {
			if i > 0 {
				sb.WriteString(" ")
			}
			sb.WriteString(a.String())
		}
		sb.WriteString("] ")
	}
	return sb.String()
}

type Sched struct {
	mu       sync.Mutex
	plan     map[string][]Action
	pos      map[string]int
	events   map[string]chan struct{}
	tracked  map[any]bool
	trackAll bool
	hits     map[string]int64
	parkTO   int64 // parks that ended by timeout
	parkOK   int64
	disabled int32
	// OnPoint, when set, is called for every hit on a tracked object after the
	// plan action ran (must be cheap and goroutine-safe).
	OnPoint func(point string, obj any)
}

func NewSched(plan Plan) *Sched {
	s := &Sched{
		plan:    map[string][]Action{},
		pos:     map[string]int{},
		events:  map[string]chan struct{}{},
		tracked: map[any]bool{},
		hits:    map[string]int64{},
	}
	for k, v := range plan {
		s.plan[k] = append([]Action(nil), v...)
	}
	return s
}

// Track registers an object (pointer) whose hook hits are subject to the plan.
func (s *Sched) Track(obj any) {
	s.mu.Lock()
	s.tracked[obj] = true
	s.mu.Unlock()
}

// TrackAll makes every object subject to the plan.
func (s *Sched) TrackAll() { s.mu.Lock(); s.trackAll = true; s.mu.Unlock() }

// Disable turns the scheduler into a pass-through (used at the end of a case so
// leftover goroutines of the library are never delayed).
func (s *Sched) Disable() {
	atomic.StoreInt32(&s.disabled, 1)
	s.mu.Lock()
	for _, ch := range s.events {
		select {
		case <-ch:
		default:
			close(ch)
		}
	}
	s.mu.Unlock()
}

func (s *Sched) event(name string) chan struct{} {
	ch := s.events[name]
	if ch == nil {
		ch = make(chan struct{})
		if atomic.LoadInt32(&s.disabled) == 1 {
			close(ch)
		}
		s.events[name] = ch
	}
	return ch
}

// Signal fires a sticky event.
func (s *Sched) Signal(name string) {
	s.mu.Lock()
	ch := s.event(name)
	select {
	case <-ch:
	default:
		close(ch)
	}
	s.mu.Unlock()
}

// Wait blocks until the event fired or the timeout elapsed; true = fired.
func (s *Sched) Wait(name string, timeout time.Duration) bool {
	s.mu.Lock()
	ch := s.event(name)
	s.mu.Unlock()
	select {
	case <-ch:
		return true
	default:
	}
	tm := time.NewTimer(timeout)
	defer tm.Stop()
	select {
	case <-ch:
		return true
	case <-tm.C:
		return false
	}
}

// Fired reports whether the event already fired.
func (s *Sched) Fired(name string) bool {
	s.mu.Lock()
	ch := s.event(name)
	s.mu.Unlock()
	select {
	case <-ch:
		return true
	default:
		return false
	}
}

// Hits returns how often a point was hit on tracked objects.
func (s *Sched) Hits(point string) int64 {
	s.mu.Lock()
	defer s.mu.Unlock()
	return s.hits[point]
}

// ParkStats returns (parks released by their event, parks ended by timeout).
func (s *Sched) ParkStats() (ok, timedOut int64) {
	return atomic.LoadInt64(&s.parkOK), atomic.LoadInt64(&s.parkTO)
}

// Hook is the function to install with SetVerifHook.
func (s *Sched) Hook(point string, obj any) {
	if atomic.LoadInt32(&s.disabled) == 1 {
		return
	}
	s.mu.Lock()
	if !s.trackAll && !s.tracked[obj] {
		s.mu.Unlock()
		return
	}
	s.hits[point]++
	var act Action
	if acts := s.plan[point]; s.pos[point] < len(acts) {
		act = acts[s.pos[point]]
		s.pos[point]++
	}
	// every hit fires the sticky event "hit:<point>"
	ch := s.event("hit:" + point)
	select {
	case <-ch:
	default:
		close(ch)
	}
	cb := s.OnPoint
	s.mu.Unlock()

	switch act.Kind {
	case ActYield:
		for i := 0; i < act.N; i++ {
			runtime.Gosched()
		}
	case ActSleep:
		time.Sleep(act.D)
	case ActPark:
		d := act.D
		if d <= 0 {
			d = 100 * time.Millisecond
		}
		if s.Wait(act.Event, d) {
			atomic.AddInt64(&s.parkOK, 1)
		} else {
			atomic.AddInt64(&s.parkTO, 1)
		}
	case ActSignal:
		s.Signal(act.Event)
	}
	if cb != nil {
		cb(point, obj)
	}
}

// DrawPlan draws a random perturbation plan (PCT-style delay injection): for
// each point a list of up to maxActs actions from {pass, yield*k, sleep<=200us}.
func DrawPlan(t *rapid.T, points []string, maxActs int) Plan {
	p := Plan{}
	density := rapid.IntRange(0, 3).Draw(t, "planDensity") // 0 = empty plan
	if density == 0 {
		return p
	}
	for _, pt := range points {
		n := rapid.IntRange(0, maxActs).Draw(t, "n:"+pt)
		var acts []Action
		for i := 0; i < n; i++ {
			switch rapid.IntRange(0, 2+density).Draw(t, "a") {
			case 0, 1:
				acts = append(acts, Action{Kind: ActPass})
			case 2, 3:
				acts = append(acts, Action{Kind: ActYield, N: rapid.IntRange(1, 20).Draw(t, "y")})
			default:
				acts = append(acts, Action{Kind: ActSleep, D: time.Duration(rapid.IntRange(1, 200).Draw(t, "us")) * time.Microsecond})
			}
		}
		if len(acts) > 0 {
			p[pt] = acts
		}
	}
	return p
}

// ---------------------------------------------------------------- stall classifier

// ClassifyStall inspects two goroutine dumps taken apart and decides whether
// the goroutines whose stacks mention any of the needles are all blocked (no
// runnable / running / sleeping frames): "blocked", "progressing" or "none".
func ClassifyStall(needles []string) (verdict string, dump string) {
	take := func() (string, map[string]string) {
		d := AllStacks()
		states := map[string]string{}
		for _, g := range strings.Split(d, "\n\n") {
			hdrEnd := strings.Index(g, "\n")
			if hdrEnd < 0 {
				continue
			}
			hdr := g[:hdrEnd]
			match := false
			for _, n := range needles {
				if strings.Contains(g, n) {
					match = true
					break
				}
			}
			if !match || !strings.HasPrefix(hdr, "goroutine ") {
				continue
			}
			if strings.Contains(g, "vlib.ClassifyStall") {
				continue
			}
			f := strings.Fields(hdr)
			id := f[1]
			lb := strings.Index(hdr, "[")
			rb := strings.LastIndex(hdr, "]")
			st := ""
			if lb >= 0 && rb > lb {
				st = hdr[lb+1 : rb]
			}
			if i := strings.Index(st, ","); i >= 0 {
				st = st[:i]
			}
			states[id] = st
		}
		return d, states
	}
	d1, s1 := take()
	time.Sleep(200 * time.Millisecond)
	d2, s2 := take()
	_ = d1
	if len(s2) == 0 {
		return "none", d2
	}
	blockedStates := map[string]bool{"chan send": true, "chan receive": true, "select": true,
		"sync.Mutex.Lock": true, "sync.RWMutex.Lock": true, "sync.RWMutex.RLock": true,
		"sync.WaitGroup.Wait": true, "semacquire": true, "sync.Cond.Wait": true,
		"chan send (nil chan)": true, "chan receive (nil chan)": true, "select (no cases)": true}
	for id, st := range s2 {
		if !blockedStates[st] {
			return "progressing", d2
		}
		if s1[id] != st {
			return "progressing", d2
		}
	}
	return "blocked", d2
}
