package c10

import (
	"encoding/json"
	"fmt"
	"runtime"
	"sync"
	"sync/atomic"
	"testing"
	"time"

	fpgo "github.com/TeaEntityLab/fpGo/v2"
	"pgregory.net/rapid"

	"verifharness/vlib"
)

// Part "fresh-handler": "with SubscribeOn(h) each delivery still happens exactly once, on h" - h has ONE
// goroutine, whoever posts to it first. A publisher is given a handler that nobody has used yet and
// several goroutines publish at the same instant; afterwards a few more values are published one by one.
// Every delivery must have run on one and the same goroutine, never two at once, each exactly once.

type freshCase struct {
	Cap        int `json:"cap"` // -1 = Handler.New()
	Subs       int `json:"subs"`
	Publishers int `json:"publishers"`
	Tail       int `json:"tail"`
	Rounds     int `json:"rounds"`
}

func runFreshRound(c freshCase) (key, msg string) {
	var h *fpgo.HandlerDef
	if c.Cap < 0 {
		h = fpgo.Handler.New()
	} else {
		h = fpgo.Handler.NewByCh(make(chan func(), c.Cap))
	}
	defer h.Close()
	p := fpgo.PublisherNewGenerics[int]()
	p.SubscribeOn(h)
	var mu sync.Mutex
	gs := map[uint64]int{}
	counts := map[[2]int]int{}
	var in, overlap int32
	total := int32(0)
	for i := 0; i < c.Subs; i++ {
		i := i
		p.Subscribe(fpgo.Subscription[int]{OnNext: func(v int) {
			if atomic.AddInt32(&in, 1) > 1 {
				atomic.StoreInt32(&overlap, 1)
			}
			g := vlib.GoID()
			mu.Lock()
			gs[g]++
			counts[[2]int{i, v}]++
			mu.Unlock()
			atomic.AddInt32(&in, -1)
			atomic.AddInt32(&total, 1)
		}})
	}
	// barrier: everybody is parked on one channel and released by closing it (no spinning: a dozen shards
	// of this check run side by side in the thorough tier)
	begin := make(chan struct{})
	var ready sync.WaitGroup
	var wg sync.WaitGroup
	for g := 0; g < c.Publishers; g++ {
		wg.Add(1)
		ready.Add(1)
		go func(v int) {
			defer wg.Done()
			ready.Done()
			<-begin
			p.Publish(v)
		}(g + 1)
	}
	ready.Wait()
	runtime.Gosched()
	close(begin)
	wg.Wait()
	for v := 0; v < c.Tail; v++ {
		p.Publish(100 + v)
	}
	want := int32(c.Subs * (c.Publishers + c.Tail))
	if !vlib.WaitUntil(vlib.StallBudget(), func() bool { return atomic.LoadInt32(&total) >= want }) {
		return "", "" // slow: not decided here
	}
	// let a possible surplus delivery show up
	fin := make(chan struct{})
	h.Post(func() { close(fin) })
	select {
	case <-fin:
	case <-time.After(vlib.StallBudget()):
	}
	mu.Lock()
	defer mu.Unlock()
	for k, n := range counts {
		if n != 1 {
			return "C10/subscribeOn-count", fmt.Sprintf("value %d delivered %d times to subscription %d", k[1], n, k[0])
		}
	}
	if len(counts) != int(want) {
		return "C10/subscribeOn-count", fmt.Sprintf("%d deliveries, want %d", len(counts), want)
	}
	if len(gs) > 1 {
		return "C10/subscribeOn-wrong-goroutine", fmt.Sprintf("deliveries with SubscribeOn(h) ran on %d different goroutines %v: h has one goroutine", len(gs), gs)
	}
	if atomic.LoadInt32(&overlap) == 1 {
		return "C10/subscribeOn-overlap", "two deliveries posted to one handler ran at the same time"
	}
	return "", ""
}

func TestFreshHandler(t *testing.T) {
	if vlib.Replaying() {
		raw := vlib.ReplayCase("C10/fresh")
		if raw == nil {
			return
		}
		var c freshCase
		if err := json.Unmarshal(raw, &c); err != nil {
			t.Fatal(err)
		}
		for i := 0; i < 20000; i++ {
			if key, msg := runFreshRound(c); key != "" {
				t.Fatalf("[key=%s] round %d: %s", key, i, msg)
			}
		}
		return
	}
	vlib.Check(t, "fresh-handler", 60, 150, func(t *rapid.T) {
		c := freshCase{
			Cap:        rapid.IntRange(-1, 2).Draw(t, "cap"),
			Subs:       rapid.IntRange(1, 3).Draw(t, "subs"),
			Publishers: rapid.IntRange(2, 8).Draw(t, "publishers"),
			Tail:       rapid.IntRange(0, 3).Draw(t, "tail"),
			Rounds:     200,
		}
		for r := 0; r < c.Rounds; r++ {
			vlib.S().Eval("fresh-handler")
			if key, msg := runFreshRound(c); key != "" {
				vlib.WriteReplay("C10/fresh", c)
				if vlib.Fail(t, key, "%+v round %d: %s", c, r, msg) {
					t.Skip("known")
				}
				return
			}
		}
		vlib.S().NonTrivial("fresh-handler", fmt.Sprintf("%+v", c))
	})
}
