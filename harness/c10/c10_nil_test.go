package c10

import (
	"fmt"
	"testing"

	fpgo "github.com/TeaEntityLab/fpGo/v2"
	"pgregory.net/rapid"

	"verifharness/vlib"
)

// Part "nil-values": "a publisher derived with Map(fn) publishes fn(v) for every v of its origin" - nil
// is a value like any other (the untyped nil of Publisher[interface{}], a nil pointer of Publisher[*int]),
// as a published value and as a result of fn. Chains of 1-3 Maps whose functions turn some values into
// nil and nil into something; every level has subscribers; every subscriber sees the images of all
// published values, in order, each exactly once.

// code 0 = nil, k>0 = value k
func TestNilValues(t *testing.T) {
	if vlib.Replaying() {
		t.Skip()
	}
	vlib.Check(t, "nil-values", 2000, 20000, func(t *rapid.T) {
		iface := rapid.Bool().Draw(t, "iface")
		depth := rapid.IntRange(1, 3).Draw(t, "depth")
		// fn at level d: table code -> code over codes 0..3
		tables := make([][4]int, depth)
		for d := range tables {
			for c := 0; c < 4; c++ {
				tables[d][c] = rapid.IntRange(0, 3).Draw(t, "img")
			}
		}
		vals := rapid.SliceOfN(rapid.IntRange(0, 3), 1, 6).Draw(t, "values")
		vlib.S().Eval("nil-values")
		// reference: what level d publishes
		want := make([][]int, depth+1)
		nilSeen := false
		for _, v := range vals {
			x := v
			want[0] = append(want[0], x)
			for d := 0; d < depth; d++ {
				x = tables[d][x]
				want[d+1] = append(want[d+1], x)
				if x == 0 {
					nilSeen = true
				}
			}
		}
		got := make([][]int, depth+1)
		ptrs := [4]*int{nil, new(int), new(int), new(int)}
		for i := 1; i < 4; i++ {
			*ptrs[i] = i
		}
		p, st := vlib.Try(func() {
			if iface {
				enc := func(c int) interface{} {
					if c == 0 {
						return nil
					}
					return c
				}
				dec := func(v interface{}) int {
					if v == nil {
						return 0
					}
					if n, ok := v.(int); ok {
						return n
					}
					return -99
				}
				pubs := []*fpgo.PublisherDef[interface{}]{fpgo.PublisherNewGenerics[interface{}]()}
				for d := 0; d < depth; d++ {
					d := d
					pubs = append(pubs, pubs[d].Map(func(v interface{}) interface{} { return enc(tables[d][dec(v)]) }))
				}
				for lvl, pb := range pubs {
					lvl := lvl
					pb.Subscribe(fpgo.Subscription[interface{}]{OnNext: func(v interface{}) { got[lvl] = append(got[lvl], dec(v)) }})
				}
				for _, v := range vals {
					pubs[0].Publish(enc(v))
				}
				return
			}
			dec := func(v *int) int {
				for c, q := range ptrs {
					if v == q {
						return c
					}
				}
				return -99
			}
			pubs := []*fpgo.PublisherDef[*int]{fpgo.PublisherNewGenerics[*int]()}
			for d := 0; d < depth; d++ {
				d := d
				pubs = append(pubs, pubs[d].Map(func(v *int) *int { return ptrs[tables[d][dec(v)]] }))
			}
			for lvl, pb := range pubs {
				lvl := lvl
				pb.Subscribe(fpgo.Subscription[*int]{OnNext: func(v *int) { got[lvl] = append(got[lvl], dec(v)) }})
			}
			for _, v := range vals {
				pubs[0].Publish(ptrs[v])
			}
		})
		desc := fmt.Sprintf("iface=%v tables=%v values=%v", iface, tables, vals)
		if nilSeen {
			vlib.S().NonTrivial("nil-values", desc)
		}
		key, msg := "", ""
		if p != nil {
			key, msg = "C10/nil-values/panic", fmt.Sprintf("%s: %v\n%s", desc, p, st)
		} else {
			for lvl := range want {
				if fmt.Sprint(got[lvl]) != fmt.Sprint(want[lvl]) {
					key, msg = "C10/nil-values/map", fmt.Sprintf("%s: the subscriber of Map level %d saw %v, want %v (0 = nil)", desc, lvl, got[lvl], want[lvl])
					break
				}
			}
		}
		if key != "" {
			vlib.WriteReplay("C10/nil-values", map[string]any{"iface": iface, "tables": tables, "values": vals})
			if vlib.Fail(t, key, "%s", msg) {
				t.Skip("known")
			}
		}
	})
}
