package c10

import (
	"encoding/json"
	"fmt"
	"strings"
	"sync"
	"sync/atomic"
	"testing"
	"time"

	fpgo "github.com/TeaEntityLab/fpGo/v2"
	"pgregory.net/rapid"

	"verifharness/vlib"
)

func TestMain(m *testing.M) { vlib.Main(m) }

// =====================================================================
// Part (a)+(c): deterministic re-entrant histories incl. Map chains
// =====================================================================

const (
	opSubscribe = iota
	opUnsubscribe
	opPublish
	opMap
	opUnsubscribeForeign   // a pointer that was never subscribed
	opSubscribeNil         // Subscribe(Subscription{}) : no OnNext
	opMute                 // set OnNext = nil through the pointer returned by Subscribe
	opUnmute               // give a subscription without OnNext (subscribed empty, or muted) its callback through the returned pointer
	opUnsubscribeElsewhere // Unsubscribe(handle) on a publisher the handle is NOT registered on (e.g. on a derived one): a no-op
)

const (
	actNothing = iota
	actUnsubSelf
	actUnsubOther
	actSubscribeNew
	actPublishNested
	actPanic // the subscriber panics (after having received the value)
)

type scriptItem struct {
	At  int `json:"at"` // on my At-th delivery (1-based)
	Act int `json:"act"`
	Arg int `json:"arg"`
}

type step struct {
	Op  int `json:"op"`
	Arg int `json:"arg"` // publisher index (sub/publish/map) or subscription index (unsub)
}

type history struct {
	Steps   []step         `json:"steps"`
	Scripts [][]scriptItem `json:"scripts"` // script of the i-th created subscription
}

func (h history) String() string {
	var sb strings.Builder
	for i, s := range h.Steps {
		if i > 0 {
			sb.WriteByte(' ')
		}
		sb.WriteString([]string{"Sub", "Unsub", "Pub", "Map", "UnsubForeign", "SubNil", "Mute", "Unmute", "UnsubElsewhere"}[s.Op])
		fmt.Fprintf(&sb, "(%d)", s.Arg)
	}
	sb.WriteString(" scripts=")
	for i, sc := range h.Scripts {
		if len(sc) == 0 {
			continue
		}
		fmt.Fprintf(&sb, "s%d:", i)
		for _, it := range sc {
			fmt.Fprintf(&sb, "[@%d %s %d]", it.At, []string{"-", "unsubSelf", "unsubOther", "subNew", "pubNested", "panic"}[it.Act], it.Arg)
		}
		sb.WriteByte(' ')
	}
	return sb.String()
}

type pubNode struct {
	id       int
	p        *fpgo.PublisherDef[string]
	model    []*subState
	children []*mapEdge
}

type mapEdge struct {
	child  *pubNode
	suffix string
}

type subState struct {
	muted      bool // no OnNext: receives nothing, must not disturb the others
	id         int
	owner      *pubNode
	ptr        *fpgo.Subscription[string]
	script     []scriptItem
	deliveries int
}

type expectRec struct {
	muted   map[*subState]bool
	pub     *pubNode
	val     string
	r0      []*subState
	touched map[*subState]bool
}

type pubRec struct {
	expects  []*expectRec
	panicked bool // a subscriber's panic came out of this Publish call
}

type delivery struct {
	val string
	sub *subState
}

type histResult struct {
	failKey, failMsg string
	nontrivial       bool
	reentrantChange  bool
}

type histRunner struct {
	h                history
	pubs             []*pubNode
	subs             []*subState
	active           []*pubRec
	finished         []*pubRec
	log              []delivery
	nextVal          int
	res              *histResult
	mutDuringPublish bool
}

func (r *histRunner) newPub() *pubNode {
	n := &pubNode{id: len(r.pubs), p: fpgo.PublisherNewGenerics[string]()}
	r.pubs = append(r.pubs, n)
	return n
}

func (r *histRunner) touch(s *subState) {
	for _, rec := range r.active {
		for _, e := range rec.expects {
			if e.pub == s.owner {
				e.touched[s] = true
			}
		}
	}
	if len(r.active) > 0 {
		r.mutDuringPublish = true
	}
}

func (r *histRunner) subscribe(pn *pubNode) *subState {
	st := &subState{id: len(r.subs), owner: pn}
	if st.id < len(r.h.Scripts) {
		st.script = r.h.Scripts[st.id]
	}
	r.subs = append(r.subs, st)
	// registered in the model before the call so that a publish racing inside is "touched"
	r.touch(st)
	st.ptr = pn.p.Subscribe(fpgo.Subscription[string]{OnNext: func(v string) { r.onNext(st, v) }})
	pn.model = append(pn.model[:len(pn.model):len(pn.model)], st)
	r.touch(st)
	return st
}

func (r *histRunner) unsubscribe(st *subState) {
	r.touch(st)
	st.owner.p.Unsubscribe(st.ptr)
	var nm []*subState
	for _, x := range st.owner.model {
		if x != st {
			nm = append(nm, x)
		}
	}
	st.owner.model = nm
	r.touch(st)
}

func (r *histRunner) expectTree(pn *pubNode, val string, out *[]*expectRec) {
	muted := map[*subState]bool{}
	for _, x := range pn.model {
		if x.muted {
			muted[x] = true
		}
	}
	*out = append(*out, &expectRec{pub: pn, val: val, r0: append([]*subState(nil), pn.model...), touched: map[*subState]bool{}, muted: muted})
	for _, e := range pn.children {
		r.expectTree(e.child, val+e.suffix, out)
	}
}

func (r *histRunner) publish(pn *pubNode) {
	r.nextVal++
	val := fmt.Sprintf("v%d", r.nextVal)
	rec := &pubRec{}
	r.expectTree(pn, val, &rec.expects)
	depth := len(r.active)
	r.active = append(r.active, rec)
	func() {
		defer func() {
			if p := recover(); p != nil {
				if p != any(errSubscriberPanic) {
					panic(p)
				}
				// a subscriber's own panic came out of Publish: the caller knows this Publish was cut short
				rec.panicked = true
			}
		}()
		pn.p.Publish(val)
	}()
	r.active = r.active[:depth]
	r.finished = append(r.finished, rec)
}

var errSubscriberPanic = fmt.Errorf("c10: subscriber panics")

func (r *histRunner) onNext(st *subState, v string) {
	r.log = append(r.log, delivery{v, st})
	st.deliveries++
	for _, it := range st.script {
		if it.At != st.deliveries {
			continue
		}
		switch it.Act {
		case actUnsubSelf:
			r.unsubscribe(st)
		case actUnsubOther:
			if len(r.subs) > 0 {
				r.unsubscribe(r.subs[it.Arg%len(r.subs)])
			}
		case actSubscribeNew:
			if len(r.subs) < 24 {
				r.subscribe(r.pubs[it.Arg%len(r.pubs)])
			}
		case actPublishNested:
			if len(r.active) < 4 {
				r.publish(r.pubs[it.Arg%len(r.pubs)])
			}
		case actPanic:
			panic(errSubscriberPanic)
		}
	}
}

func (r *histRunner) check() {
	fail := func(k, f string, a ...any) {
		if r.res.failKey == "" {
			r.res.failKey, r.res.failMsg = k, fmt.Sprintf(f, a...)
		}
	}
	expected := map[string]*expectRec{}
	for _, rec := range r.finished {
		for _, e := range rec.expects {
			expected[e.val] = e
		}
	}
	byVal := map[string][]*subState{}
	for _, d := range r.log {
		byVal[d.val] = append(byVal[d.val], d.sub)
	}
	for v, subs := range byVal {
		e := expected[v]
		if e == nil {
			fail("C10/invented-value", "value %q was delivered but never published (or mapped wrongly)", v)
			return
		}
		count := map[*subState]int{}
		for _, s := range subs {
			count[s]++
			if s.owner != e.pub {
				fail("C10/wrong-publisher", "value %q of publisher %d delivered to subscription s%d of publisher %d", v, e.pub.id, s.id, s.owner.id)
				return
			}
			if count[s] > 1 {
				fail("C10/delivered-twice", "value %q delivered twice to subscription s%d", v, s.id)
				return
			}
			inR0 := false
			for _, x := range e.r0 {
				if x == s {
					inR0 = true
				}
			}
			if !inR0 && !e.touched[s] {
				fail("C10/delivered-to-unregistered", "value %q delivered to s%d which was not registered when Publish began and was not added during it", v, s.id)
				return
			}
		}
	}
	for _, rec := range r.finished {
		if rec.panicked {
			// Publish did not return normally: which of the later subscriptions were still served is open
			continue
		}
		for _, e := range rec.expects {
			subs := byVal[e.val]
			pos := map[*subState]int{}
			for i, s := range subs {
				pos[s] = i
			}
			last := -1
			for _, s := range e.r0 {
				if e.touched[s] {
					continue
				}
				p, ok := pos[s]
				if e.muted[s] {
					if ok {
						fail("C10/delivered-to-muted", "value %q delivered to s%d which has no OnNext", e.val, s.id)
						return
					}
					continue
				}
				if !ok {
					fail("C10/skipped", "value %q (publisher %d) was not delivered to s%d, registered before the Publish and not (un)subscribed during it; deliveries=%v", e.val, e.pub.id, s.id, ids(subs))
					return
				}
				if p < last {
					fail("C10/order", "value %q delivered out of subscription order: %v, registration order %v", e.val, ids(subs), ids(e.r0))
					return
				}
				last = p
			}
		}
	}
}

func ids(ss []*subState) []int {
	out := make([]int, len(ss))
	for i, s := range ss {
		out[i] = s.id
	}
	return out
}

func runHistory(h history) histResult {
	var res histResult
	r := &histRunner{h: h, res: &res}
	r.newPub()
	done := make(chan struct{})
	var panicMsg string
	go func() {
		defer close(done)
		p, st := vlib.Try(func() { r.runSteps() })
		if p != nil {
			panicMsg = fmt.Sprintf("%v\n%s", p, st)
		}
	}()
	select {
	case <-done:
	case <-time.After(vlib.StallBudget()):
		verdict, dump := vlib.ClassifyStall([]string{"c10.(*histRunner).runSteps"})
		if verdict == "blocked" {
			res.failKey, res.failMsg = "C10/deadlock", "re-entrant history deadlocked:\n"+dump
		} else {
			res.failKey, res.failMsg = "", ""
			vlib.S().Note("history slow (%s): %v", verdict, h)
		}
		return res
	}
	if panicMsg != "" {
		res.failKey, res.failMsg = "C10/panic", panicMsg
		return res
	}
	r.check()
	res.reentrantChange = r.mutDuringPublish
	nsubs := 0
	for _, p := range r.pubs {
		if len(p.model) > nsubs {
			nsubs = len(p.model)
		}
	}
	res.nontrivial = r.mutDuringPublish && len(r.subs) >= 3
	return res
}

func (r *histRunner) runSteps() {
	for _, s := range r.h.Steps {
		switch s.Op {
		case opSubscribe:
			if len(r.subs) < 24 {
				r.subscribe(r.pubs[s.Arg%len(r.pubs)])
			}
		case opUnsubscribe:
			if len(r.subs) > 0 {
				r.unsubscribe(r.subs[s.Arg%len(r.subs)])
			}
		case opSubscribeNil:
			if len(r.subs) < 24 {
				pn := r.pubs[s.Arg%len(r.pubs)]
				st := &subState{id: len(r.subs), owner: pn, muted: true}
				r.subs = append(r.subs, st)
				st.ptr = pn.p.Subscribe(fpgo.Subscription[string]{})
				pn.model = append(pn.model[:len(pn.model):len(pn.model)], st)
			}
		case opMute:
			if len(r.subs) > 0 {
				st := r.subs[s.Arg%len(r.subs)]
				st.ptr.OnNext = nil
				st.muted = true
			}
		case opUnmute:
			// the two-step way of building a subscriber (s := p.Subscribe(Subscription{}); s.OnNext = ...):
			// the subscription has been registered since its Subscribe call and keeps its place in the order
			var muted []*subState
			for _, st := range r.subs {
				if st.muted {
					muted = append(muted, st)
				}
			}
			if len(muted) > 0 {
				st := muted[s.Arg%len(muted)]
				st.ptr.OnNext = func(v string) { r.onNext(st, v) }
				st.muted = false
			}
		case opUnsubscribeElsewhere:
			if len(r.subs) > 0 && len(r.pubs) > 1 {
				st := r.subs[s.Arg%len(r.subs)]
				pn := r.pubs[(s.Arg/3)%len(r.pubs)]
				if pn != st.owner {
					pn.p.Unsubscribe(st.ptr)
				}
			}
		case opUnsubscribeForeign:
			pn := r.pubs[s.Arg%len(r.pubs)]
			pn.p.Unsubscribe(&fpgo.Subscription[string]{OnNext: func(string) {}})
		case opPublish:
			r.publish(r.pubs[s.Arg%len(r.pubs)])
		case opMap:
			if len(r.pubs) < 4 {
				origin := r.pubs[s.Arg%len(r.pubs)]
				suffix := fmt.Sprintf(".f%d", len(r.pubs))
				child := &pubNode{id: len(r.pubs)}
				child.p = origin.p.Map(func(in string) string { return in + suffix })
				r.pubs = append(r.pubs, child)
				origin.children = append(origin.children, &mapEdge{child: child, suffix: suffix})
			}
		}
	}
}

func genHistory(t *rapid.T) history {
	var h history
	n := rapid.IntRange(1, 30).Draw(t, "steps")
	ops := []int{opSubscribe, opSubscribe, opSubscribe, opSubscribe, opPublish, opPublish, opPublish, opPublish, opUnsubscribe, opMap, opUnsubscribeForeign, opSubscribeNil, opSubscribeNil, opMute, opUnmute, opUnmute, opUnsubscribeElsewhere, opUnsubscribeElsewhere, opMap}
	for i := 0; i < n; i++ {
		h.Steps = append(h.Steps, step{Op: rapid.SampledFrom(ops).Draw(t, "op"), Arg: rapid.IntRange(0, 23).Draw(t, "arg")})
	}
	ns := rapid.IntRange(0, 12).Draw(t, "scripts")
	for i := 0; i < ns; i++ {
		var sc []scriptItem
		k := rapid.IntRange(0, 3).Draw(t, "items")
		for j := 0; j < k; j++ {
			sc = append(sc, scriptItem{
				At:  rapid.IntRange(1, 3).Draw(t, "at"),
				Act: rapid.SampledFrom([]int{actUnsubSelf, actUnsubSelf, actUnsubOther, actSubscribeNew, actPublishNested, actNothing, actPanic}).Draw(t, "act"),
				Arg: rapid.IntRange(0, 23).Draw(t, "sarg"),
			})
		}
		h.Scripts = append(h.Scripts, sc)
	}
	return h
}

// =====================================================================
// Part (d): SubscribeOn(handler)
// =====================================================================

type handlerCase struct {
	Cap   int `json:"cap"` // -1 = Handler.New()
	Subs  int `json:"subs"`
	Pubs  int `json:"pubs"`
	Yield int `json:"yield"`
	// Derived: the publisher that gets SubscribeOn(h), the subscriptions and the direct Publish calls is
	// itself derived with Map(identity) from an origin; OriginOn: 0 = the origin has no handler,
	// 1 = the origin has the same handler h, 2 = the origin has another handler
	Derived  bool `json:"derived"`
	OriginOn int  `json:"originOn"`
	// ViaOrigin (Derived only): the origin got its handler BEFORE Map was called, the derived publisher gets
	// none, the subscriptions are on the derived publisher and the values are published on the ORIGIN: every
	// subscription receives fn(v) exactly once (where is not claimed: the derived publisher has no handler)
	ViaOrigin bool `json:"viaOrigin,omitempty"`
	// LateOn: SubscribeOn(h) is called AFTER the subscriptions were made (first SubscribeOn(another handler),
	// then the subscriptions, then SubscribeOn(h)): the handler that counts is the one set when a value is
	// published
	LateOn bool `json:"lateOn,omitempty"`
}

func runHandlerCase(c handlerCase) histResult {
	var res histResult
	var h *fpgo.HandlerDef
	if c.Cap < 0 {
		h = fpgo.Handler.New()
	} else {
		h = fpgo.Handler.NewByCh(make(chan func(), c.Cap))
	}
	defer h.Close()
	var hid uint64
	ready := make(chan struct{})
	h.Post(func() { hid = vlib.GoID(); close(ready) })
	<-ready
	p := fpgo.PublisherNewGenerics[int]()
	pubOn := p
	barrierOn := h
	if c.Derived {
		origin := p
		switch c.OriginOn {
		case 1:
			origin.SubscribeOn(h)
		case 2:
			h2 := fpgo.Handler.New()
			defer h2.Close()
			origin.SubscribeOn(h2)
			if c.ViaOrigin {
				barrierOn = h2
			}
		}
		p = origin.Map(func(v int) int { return v })
	}
	lateOn := c.LateOn && !(c.Derived && c.ViaOrigin)
	if c.Derived && c.ViaOrigin {
		hid = 0 // no claim about the goroutine
	} else {
		pubOn = p
		if lateOn {
			hOld := fpgo.Handler.New()
			defer hOld.Close()
			p.SubscribeOn(hOld)
		} else {
			p.SubscribeOn(h)
		}
	}
	var mu sync.Mutex
	counts := make([]map[int]int, c.Subs)
	wrongG := 0
	for i := 0; i < c.Subs; i++ {
		i := i
		counts[i] = map[int]int{}
		p.Subscribe(fpgo.Subscription[int]{OnNext: func(v int) {
			g := vlib.GoID()
			mu.Lock()
			counts[i][v]++
			if g != hid && hid != 0 {
				wrongG++
			}
			mu.Unlock()
		}})
	}
	if lateOn {
		p.SubscribeOn(h)
	}
	done := make(chan struct{})
	go func() {
		defer close(done)
		for v := 1; v <= c.Pubs; v++ {
			pubOn.Publish(v)
		}
		fin := make(chan struct{})
		barrierOn.Post(func() { close(fin) })
		<-fin
	}()
	select {
	case <-done:
	case <-time.After(vlib.StallBudget()):
		if verdict, dump := vlib.ClassifyStall([]string{"c10.runHandlerCase"}); verdict == "blocked" {
			res.failKey, res.failMsg = "C10/subscribeOn-deadlock", fmt.Sprintf("publishing %d values with a SubscribeOn handler does not finish (publisher and handler goroutine blocked):\n%s", c.Pubs, dump)
			return res
		}
		vlib.S().Note("handler case slow: %+v", c)
		return res
	}
	mu.Lock()
	defer mu.Unlock()
	if wrongG > 0 {
		res.failKey, res.failMsg = "C10/subscribeOn-wrong-goroutine", fmt.Sprintf("%d deliveries did not run on the handler's goroutine", wrongG)
		return res
	}
	for i := 0; i < c.Subs; i++ {
		for v := 1; v <= c.Pubs; v++ {
			if counts[i][v] != 1 {
				res.failKey = "C10/subscribeOn-not-exactly-once"
				res.failMsg = fmt.Sprintf("with SubscribeOn(h): subscription %d received value %d %d times (all counts: %v)", i, v, counts[i][v], counts)
				return res
			}
		}
	}
	res.nontrivial = c.Subs >= 2 && c.Pubs >= 2
	return res
}

// =====================================================================
// Part (b): concurrent publishers / (un)subscribers with hook plans
// =====================================================================

type concCase struct {
	Publishers int       `json:"publishers"`
	PubCount   int       `json:"pubCount"`
	Static     int       `json:"static"`   // subscriptions registered before and kept
	Churners   int       `json:"churners"` // goroutines that subscribe/unsubscribe their own subscriptions
	ChurnOps   int       `json:"churnOps"`
	Directed   bool      `json:"directed"` // park a publisher after its snapshot until an Unsubscribe completed
	Plan       vlib.Plan `json:"plan"`
}

type concSub struct {
	id                  int
	ptr                 *fpgo.Subscription[int]
	subRet              int64 // stamp when Subscribe returned
	unsubCall, unsubRet int64 // 0 = never
	mu                  sync.Mutex
	got                 map[int]int
}

type pubSpan struct {
	v          int
	start, end int64
}

var schedMu sync.Mutex // one scheduler installed at a time

func runConc(c concCase) histResult {
	var res histResult
	schedMu.Lock()
	defer schedMu.Unlock()
	plan := vlib.Plan{}
	for k, v := range c.Plan {
		plan[k] = v
	}
	if c.Directed {
		plan["pub.publish.snapshot"] = append([]vlib.Action{{Kind: vlib.ActPark, Event: "unsub-done", D: 50 * time.Millisecond}}, plan["pub.publish.snapshot"]...)
	}
	sched := vlib.NewSched(plan)
	p := fpgo.PublisherNewGenerics[int]()
	sched.Track(p)
	fpgo.SetVerifHook(sched.Hook)
	defer fpgo.SetVerifHook(nil)
	defer sched.Disable()

	var clock int64
	var subsMu sync.Mutex
	var subs []*concSub
	newSub := func() *concSub {
		s := &concSub{got: map[int]int{}}
		subsMu.Lock()
		s.id = len(subs)
		subs = append(subs, s)
		subsMu.Unlock()
		s.ptr = p.Subscribe(fpgo.Subscription[int]{OnNext: func(v int) {
			s.mu.Lock()
			s.got[v]++
			s.mu.Unlock()
		}})
		atomic.StoreInt64(&s.subRet, atomic.AddInt64(&clock, 1))
		return s
	}
	unsub := func(s *concSub) {
		atomic.StoreInt64(&s.unsubCall, atomic.AddInt64(&clock, 1))
		p.Unsubscribe(s.ptr)
		atomic.StoreInt64(&s.unsubRet, atomic.AddInt64(&clock, 1))
	}
	for i := 0; i < c.Static; i++ {
		newSub()
	}
	var victim *concSub
	if c.Directed {
		victim = newSub() // will be unsubscribed while a publisher is parked after its snapshot
		for i := 0; i < 2; i++ {
			newSub()
		}
	}
	var spansMu sync.Mutex
	var spans []pubSpan
	var wg sync.WaitGroup
	var panicMsg atomic.Value
	for g := 0; g < c.Publishers; g++ {
		wg.Add(1)
		go func(g int) {
			defer wg.Done()
			pp, st := vlib.Try(func() {
				for k := 0; k < c.PubCount; k++ {
					v := g*1000 + k + 1
					a := atomic.AddInt64(&clock, 1)
					p.Publish(v)
					b := atomic.AddInt64(&clock, 1)
					spansMu.Lock()
					spans = append(spans, pubSpan{v, a, b})
					spansMu.Unlock()
				}
			})
			if pp != nil {
				panicMsg.Store(fmt.Sprintf("%v\n%s", pp, st))
			}
		}(g)
	}
	for g := 0; g < c.Churners; g++ {
		wg.Add(1)
		go func(g int) {
			defer wg.Done()
			pp, st := vlib.Try(func() {
				var mine []*concSub
				for k := 0; k < c.ChurnOps; k++ {
					if len(mine) == 0 || k%3 != 2 {
						mine = append(mine, newSub())
					} else {
						unsub(mine[0])
						mine = mine[1:]
					}
				}
			})
			if pp != nil {
				panicMsg.Store(fmt.Sprintf("%v\n%s", pp, st))
			}
		}(g)
	}
	if c.Directed {
		wg.Add(1)
		go func() {
			defer wg.Done()
			sched.Wait("hit:pub.publish.snapshot", 50*time.Millisecond)
			unsub(victim)
			sched.Signal("unsub-done")
		}()
	}
	done := make(chan struct{})
	go func() { wg.Wait(); close(done) }()
	select {
	case <-done:
	case <-time.After(vlib.StallBudget()):
		sched.Disable()
		select {
		case <-done:
		case <-time.After(vlib.StallBudget()):
			verdict, dump := vlib.ClassifyStall([]string{"c10.runConc"})
			if verdict == "blocked" {
				res.failKey, res.failMsg = "C10/deadlock", "concurrent scenario deadlocked:\n"+dump
			}
			return res
		}
	}
	if pm := panicMsg.Load(); pm != nil {
		res.failKey, res.failMsg = "C10/panic", pm.(string)
		return res
	}
	interleaved := false
	for _, sp := range spans {
		for _, s := range subs {
			s.mu.Lock()
			n := s.got[sp.v]
			s.mu.Unlock()
			sr, uc, ur := atomic.LoadInt64(&s.subRet), atomic.LoadInt64(&s.unsubCall), atomic.LoadInt64(&s.unsubRet)
			if n > 1 {
				res.failKey, res.failMsg = "C10/delivered-twice", fmt.Sprintf("value %d delivered %d times to subscription %d", sp.v, n, s.id)
				return res
			}
			registeredBefore := sr != 0 && sr < sp.start
			stillAfter := uc == 0 || uc > sp.end
			if registeredBefore && stillAfter && n != 1 {
				res.failKey = "C10/skipped"
				res.failMsg = fmt.Sprintf("value %d (publish span [%d,%d]) not delivered to subscription %d registered at %d and unsubscribed at %d (0=never)", sp.v, sp.start, sp.end, s.id, sr, uc)
				return res
			}
			if ur != 0 && ur < sp.start && n != 0 {
				res.failKey = "C10/delivered-after-unsubscribe"
				res.failMsg = fmt.Sprintf("value %d (publish began at %d) delivered to subscription %d whose Unsubscribe returned at %d", sp.v, sp.start, s.id, ur)
				return res
			}
			if (sr > sp.start && sr < sp.end) || (uc != 0 && uc < sp.end && ur > sp.start) {
				interleaved = true
			}
		}
	}
	res.nontrivial = interleaved && len(subs) >= 3
	return res
}

var pubPoints = []string{"pub.publish.snapshot", "pub.publish.beforeDeliver"}

func genConc(t *rapid.T) concCase {
	return concCase{
		Publishers: rapid.IntRange(1, 3).Draw(t, "publishers"),
		PubCount:   rapid.IntRange(1, 10).Draw(t, "pubCount"),
		Static:     rapid.IntRange(0, 4).Draw(t, "static"),
		Churners:   rapid.IntRange(0, 3).Draw(t, "churners"),
		ChurnOps:   rapid.IntRange(1, 12).Draw(t, "churnOps"),
		Directed:   rapid.Bool().Draw(t, "directed"),
		Plan:       vlib.DrawPlan(t, pubPoints, 6),
	}
}

// =====================================================================
// tests
// =====================================================================

func report(t vlib.TB, kind string, c any, res histResult, skip func()) {
	if res.failKey == "" {
		return
	}
	vlib.WriteReplay(kind, c)
	if vlib.Fail(t, res.failKey, "%v: %s", c, res.failMsg) {
		skip()
	}
}

var regressHistories = []history{
	// a subscription without OnNext in the middle must not hide the later ones
	{Steps: []step{{opSubscribe, 0}, {opSubscribeNil, 0}, {opSubscribe, 0}, {opMap, 0}, {opSubscribe, 1}, {opPublish, 0}, {opMute, 0}, {opPublish, 0}}},
	// DESIGN §4 #14: A unsubscribes itself inside its callback -> B skipped, C twice
	{Steps: []step{{opSubscribe, 0}, {opSubscribe, 0}, {opSubscribe, 0}, {opPublish, 0}, {opPublish, 0}},
		Scripts: [][]scriptItem{{{At: 1, Act: actUnsubSelf}}}},
	{Steps: []step{{opSubscribe, 0}, {opSubscribe, 0}, {opSubscribe, 0}, {opSubscribe, 0}, {opPublish, 0}},
		Scripts: [][]scriptItem{{}, {{At: 1, Act: actUnsubOther, Arg: 0}}}},
	{Steps: []step{{opSubscribe, 0}, {opMap, 0}, {opSubscribe, 1}, {opSubscribe, 1}, {opPublish, 0}, {opPublish, 1}},
		Scripts: [][]scriptItem{{{At: 1, Act: actSubscribeNew, Arg: 1}}, {{At: 1, Act: actUnsubSelf}}}},
}

func TestRegress(t *testing.T) {
	for _, h := range regressHistories {
		vlib.S().Eval("regress")
		res := runHistory(h)
		if res.nontrivial {
			vlib.S().NonTrivial("regress", h.String())
		}
		report(t, "C10/history", h, res, func() {})
	}
	// SubscribeOn: every subscription exactly once per value (loop-variable capture defect)
	for _, c := range []handlerCase{{Cap: -1, Subs: 3, Pubs: 20}, {Cap: 16, Subs: 4, Pubs: 50}, {Cap: 0, Subs: 2, Pubs: 50}, {Cap: -1, Subs: 2, Pubs: 10, Derived: true, OriginOn: 1}, {Cap: 1, Subs: 2, Pubs: 10, Derived: true, OriginOn: 2}, {Cap: -1, Subs: 2, Pubs: 5, Derived: true, OriginOn: 1, ViaOrigin: true}, {Cap: 4, Subs: 3, Pubs: 9, Derived: true, OriginOn: 2, ViaOrigin: true}} {
		for rep := 0; rep < 10; rep++ {
			vlib.S().Eval("regress")
			res := runHandlerCase(c)
			report(t, "C10/handler", c, res, func() {})
		}
	}
}

func TestReplayJSON(t *testing.T) {
	if raw := vlib.ReplayCase("C10/history"); raw != nil {
		var h history
		if err := json.Unmarshal(raw, &h); err != nil {
			t.Fatal(err)
		}
		if res := runHistory(h); res.failKey != "" {
			t.Fatalf("[key=%s] %s", res.failKey, res.failMsg)
		}
		return
	}
	if raw := vlib.ReplayCase("C10/handler"); raw != nil {
		var c handlerCase
		if err := json.Unmarshal(raw, &c); err != nil {
			t.Fatal(err)
		}
		for i := 0; i < 200; i++ {
			if res := runHandlerCase(c); res.failKey != "" {
				t.Fatalf("[key=%s] run %d: %s", res.failKey, i, res.failMsg)
			}
		}
		return
	}
	if raw := vlib.ReplayCase("C10/concurrent"); raw != nil {
		var c concCase
		if err := json.Unmarshal(raw, &c); err != nil {
			t.Fatal(err)
		}
		for i := 0; i < 300; i++ {
			if res := runConc(c); res.failKey != "" {
				t.Fatalf("[key=%s] run %d: %s", res.failKey, i, res.failMsg)
			}
		}
		return
	}
	t.Skip("no replay case")
}

func TestHistories(t *testing.T) {
	vlib.Check(t, "histories", 8000, 300000, func(t *rapid.T) {
		h := genHistory(t)
		st := vlib.S()
		st.Eval("histories")
		res := runHistory(h)
		if res.nontrivial {
			st.NonTrivial("histories", h.String())
			st.Class("hist/reentrant-change")
		} else {
			st.Class("hist/plain")
		}
		report(t, "C10/history", h, res, func() { t.Skip("known") })
	})
}

// runGatedHandler: SubscribeOn(h) with h busy. Publish(v) returns while h is still inside a gate
// task; only then one subscription is removed and another added. v was published while the removed
// one was registered during the whole call (it gets v exactly once) and before the new one existed
// (it never gets v): what a Publish delivers is fixed when Publish runs, not when h gets to it.
func runGatedHandler(nsubs, removeIdx int) (key, msg string) {
	h := fpgo.Handler.NewByCh(make(chan func(), 4*nsubs+8))
	defer h.Close()
	gate := make(chan struct{})
	h.Post(func() { <-gate })
	p := fpgo.PublisherNewGenerics[int]()
	p.SubscribeOn(h)
	var mu sync.Mutex
	got := map[int][]int{}
	mk := func(id int) fpgo.Subscription[int] {
		return fpgo.Subscription[int]{OnNext: func(v int) { mu.Lock(); got[id] = append(got[id], v); mu.Unlock() }}
	}
	subs := make([]*fpgo.Subscription[int], nsubs)
	for i := range subs {
		subs[i] = p.Subscribe(mk(i))
	}
	pubDone := make(chan struct{})
	go func() { defer close(pubDone); p.Publish(7) }()
	select {
	case <-pubDone:
	case <-time.After(vlib.StallBudget()):
		close(gate)
		return "", "" // Publish waits for the busy handler: nothing to decide here
	}
	p.Unsubscribe(subs[removeIdx])
	p.Subscribe(mk(100))
	close(gate)
	fin := make(chan struct{})
	h.Post(func() { close(fin) })
	select {
	case <-fin:
	case <-time.After(vlib.StallBudget()):
		return "", ""
	}
	mu.Lock()
	defer mu.Unlock()
	for i := 0; i < nsubs; i++ {
		if len(got[i]) != 1 || got[i][0] != 7 {
			return "C10/subscribeOn-late-snapshot", fmt.Sprintf("subscription %d (registered during the whole Publish(7) call%s) received %v, want exactly [7]", i, map[bool]string{true: ", unsubscribed only after Publish returned", false: ""}[i == removeIdx], got[i])
		}
	}
	if len(got[100]) != 0 {
		return "C10/subscribeOn-late-snapshot", fmt.Sprintf("a subscription added after Publish(7) had returned received %v", got[100])
	}
	return "", ""
}

func TestSubscribeOnGated(t *testing.T) {
	if vlib.Replaying() {
		t.Skip()
	}
	for n := 1; n <= 5; n++ {
		for r := 0; r < n; r++ {
			for rep := 0; rep < vlib.Pick(3, 30); rep++ {
				vlib.S().Eval("subscribeOn-gated")
				vlib.S().NonTrivial("subscribeOn-gated", fmt.Sprintf("subs=%d remove=%d", n, r))
				if key, msg := runGatedHandler(n, r); key != "" {
					vlib.WriteReplay("C10/gated", map[string]int{"subs": n, "remove": r})
					if vlib.Fail(t, key, "subs=%d remove=%d: %s", n, r, msg) {
						return
					}
				}
			}
		}
	}
}

func TestSubscribeOn(t *testing.T) {
	vlib.Check(t, "subscribeOn", 300, 10000, func(t *rapid.T) {
		c := handlerCase{
			Cap:  rapid.SampledFrom([]int{-1, 0, 1, 16}).Draw(t, "cap"),
			Subs: rapid.IntRange(1, 6).Draw(t, "subs"),
			Pubs: rapid.IntRange(1, 30).Draw(t, "pubs"),
		}
		if c.Derived = rapid.IntRange(0, 2).Draw(t, "derived") == 0; c.Derived {
			c.OriginOn = rapid.IntRange(0, 2).Draw(t, "originOn")
			c.ViaOrigin = c.OriginOn > 0 && rapid.Bool().Draw(t, "viaOrigin")
		}
		c.LateOn = rapid.IntRange(0, 3).Draw(t, "lateOn") == 0
		st := vlib.S()
		st.Eval("subscribeOn")
		res := runHandlerCase(c)
		if res.nontrivial {
			st.NonTrivial("subscribeOn", fmt.Sprintf("%+v", c))
		}
		report(t, "C10/handler", c, res, func() { t.Skip("known") })
	})
}

func TestConcurrent(t *testing.T) {
	vlib.Check(t, "concurrent", 400, 10000, func(t *rapid.T) {
		c := genConc(t)
		st := vlib.S()
		st.Eval("concurrent")
		res := runConc(c)
		if res.nontrivial {
			st.NonTrivial("concurrent", fmt.Sprintf("pubs=%d x%d static=%d churn=%dx%d directed=%v plan=%v", c.Publishers, c.PubCount, c.Static, c.Churners, c.ChurnOps, c.Directed, c.Plan))
			st.Class("conc/interleaved")
		} else {
			st.Class("conc/not-interleaved")
		}
		report(t, "C10/concurrent", c, res, func() { t.Skip("known") })
	})
}
