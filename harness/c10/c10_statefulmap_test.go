package c10

import (
	"fmt"
	"testing"

	fpgo "github.com/TeaEntityLab/fpGo/v2"
	"pgregory.net/rapid"

	"verifharness/vlib"
)

// Part "stateful-map": "a publisher derived with Map(fn) publishes fn(v) for every v of its origin": fn is
// applied once per value of the origin, and what it returned is THE value the derived publisher publishes -
// all its subscriptions (and the publishers derived from it) receive that one value, also when fn has a memory
// (numbering, running totals) or the derived publisher has no subscription at all.
func TestStatefulMap(t *testing.T) {
	if vlib.Replaying() {
		t.Skip()
	}
	vlib.Check(t, "stateful-map", 400, 6000, func(t *rapid.T) {
		subs := rapid.IntRange(0, 4).Draw(t, "subs")
		second := rapid.IntRange(0, 3).Draw(t, "secondLevelSubs")
		values := rapid.IntRange(1, 6).Draw(t, "values")
		vlib.S().Eval("stateful-map")
		if subs+second >= 2 {
			vlib.S().NonTrivial("stateful-map", fmt.Sprintf("subs=%d second=%d values=%d", subs, second, values))
		}
		origin := fpgo.PublisherNewGenerics[string]()
		calls1, calls2 := 0, 0
		derived := origin.Map(func(s string) string { calls1++; return fmt.Sprintf("%s#%d", s, calls1) })
		level2 := derived.Map(func(s string) string { calls2++; return fmt.Sprintf("%s/%d", s, calls2) })
		got := make([][]string, subs+second)
		for i := 0; i < subs; i++ {
			i := i
			derived.Subscribe(fpgo.Subscription[string]{OnNext: func(v string) { got[i] = append(got[i], v) }})
		}
		for j := 0; j < second; j++ {
			j := j
			level2.Subscribe(fpgo.Subscription[string]{OnNext: func(v string) { got[subs+j] = append(got[subs+j], v) }})
		}
		var want1, want2 []string
		for v := 1; v <= values; v++ {
			origin.Publish(fmt.Sprintf("v%d", v))
			want1 = append(want1, fmt.Sprintf("v%d#%d", v, v))
			want2 = append(want2, fmt.Sprintf("v%d#%d/%d", v, v, v))
		}
		fail := func(f string, a ...any) {
			if vlib.Fail(t, "C10/map-applied-per-delivery", f, a...) {
				t.Skip("known")
			}
		}
		if calls1 != values || calls2 != values {
			fail("%d values were published on the origin; the Map functions of the derived publishers were applied %d and %d times (subscriptions: %d on the first, %d on the second derived publisher)", values, calls1, calls2, subs, second)
			return
		}
		for i := range got {
			want := want1
			if i >= subs {
				want = want2
			}
			if fmt.Sprint(got[i]) != fmt.Sprint(want) {
				fail("subscription %d received %v, the derived publisher published %v", i, got[i], want)
				return
			}
		}
	})
}
