package c07

import (
	"encoding/json"
	"fmt"
	"sync/atomic"
	"testing"
	"time"

	fpgo "github.com/TeaEntityLab/fpGo/v2"
	"pgregory.net/rapid"

	"verifharness/vlib"
)

// Part "count-during-load": "Count equals accepted minus delivered" also while the loader is in the
// middle of a pass. M values are accepted (the channel is full, the rest sits in the overflow
// buffer), k are received straight from the channel, then nothing is offered or taken any more -
// accepted minus delivered is the constant M-k - while the loader, woken by GetChannel(), moves
// values from the buffer into the channel. The loader is held with a value in its hand (hook
// bcq.load.betweenPollOffer) while Count() is called; further Count() calls race the rest of the
// pass. Every one of them must answer M-k.

type countCase struct {
	ChanCap int `json:"chanCap"`
	Extra   int `json:"extra"` // values beyond the channel capacity (kept in the overflow buffer)
	Recv    int `json:"recv"`  // received from the channel before the loader runs
	HoldUs  int `json:"holdUs"`
	Spins   int `json:"spins"` // Count() calls racing the rest of the pass
}

func (c countCase) String() string { b, _ := json.Marshal(c); return string(b) }

func runCount(c countCase) (key, msg string, nontrivial bool) {
	schedMu.Lock()
	defer schedMu.Unlock()
	q := fpgo.NewBufferedChannelQueue[int](c.ChanCap, 10000, 100).SetLoadFromPoolDuration(20 * time.Microsecond)
	defer q.Close()
	var armed, holds int32
	inHand := make(chan struct{}, 1)
	release := make(chan struct{}, 1)
	fpgo.SetVerifHook(func(point string, obj any) {
		if obj != any(q) || point != "bcq.load.betweenPollOffer" {
			return
		}
		if atomic.CompareAndSwapInt32(&armed, 1, 0) {
			atomic.AddInt32(&holds, 1)
			inHand <- struct{}{}
			select {
			case <-release:
			case <-time.After(200 * time.Millisecond):
			}
		}
	})
	defer fpgo.SetVerifHook(nil)
	m := c.ChanCap + c.Extra
	for i := 0; i < m; i++ {
		if err := q.Offer(i); err != nil {
			return "", "", false // refused: not this part's business
		}
	}
	ch := q.GetChannel()
	if !vlib.WaitUntil(vlib.StallBudget(), func() bool { return len(ch) == c.ChanCap }) {
		return "", "", false
	}
	if n := q.Count(); n != m {
		return "C07/count", fmt.Sprintf("%d values accepted, none delivered, nothing in flight: Count()=%d", m, n), false
	}
	for i := 0; i < c.Recv; i++ {
		<-ch
	}
	want := m - c.Recv
	atomic.StoreInt32(&armed, 1)
	held := false
	for begin := time.Now(); !held && time.Since(begin) < vlib.StallBudget(); {
		q.GetChannel() // wakes the loader (consumes nothing)
		select {
		case <-inHand:
			held = true
		case <-time.After(time.Millisecond):
		}
	}
	if !held {
		atomic.StoreInt32(&armed, 0)
		return "", "", false // no loader pass moved anything: decided by the stranding checks, not here
	}
	got := make(chan int, 1)
	go func() { got <- q.Count() }()
	time.Sleep(time.Duration(c.HoldUs) * time.Microsecond)
	release <- struct{}{}
	var n int
	select {
	case n = <-got:
	case <-time.After(vlib.StallBudget()):
		return "C07/count-hang", "Count() called during a loader pass did not return:\n" + vlib.AllStacks(), true
	}
	if n != want {
		return "C07/count", fmt.Sprintf("%d accepted, %d delivered, no operation in flight, loader in the middle of a pass (a value in its hand): Count()=%d, want %d", m, c.Recv, n, want), true
	}
	for i := 0; i < c.Spins; i++ {
		if n := q.Count(); n != want {
			return "C07/count", fmt.Sprintf("%d accepted, %d delivered, no operation in flight, loader moving values: Count()=%d (call %d), want %d", m, c.Recv, n, i, want), true
		}
	}
	return "", "", true
}

func TestCountDuringLoad(t *testing.T) {
	if vlib.Replaying() {
		raw := vlib.ReplayCase("C07/count")
		if raw == nil {
			return
		}
		var c countCase
		if err := json.Unmarshal(raw, &c); err != nil {
			t.Fatal(err)
		}
		for i := 0; i < 50; i++ {
			if key, msg, _ := runCount(c); key != "" {
				t.Fatalf("[key=%s] %s", key, msg)
			}
		}
		return
	}
	vlib.Check(t, "count-during-load", 150, 3000, func(t *rapid.T) {
		c := countCase{ChanCap: rapid.IntRange(1, 6).Draw(t, "chanCap"), Extra: rapid.IntRange(1, 40).Draw(t, "extra"),
			HoldUs: rapid.IntRange(0, 300).Draw(t, "holdUs"), Spins: rapid.IntRange(0, 200).Draw(t, "spins")}
		c.Recv = rapid.IntRange(1, c.ChanCap).Draw(t, "recv")
		vlib.S().Eval("count-during-load")
		key, msg, nt := runCount(c)
		if nt {
			vlib.S().NonTrivial("count-during-load", c.String())
		}
		if key != "" {
			vlib.WriteReplay("C07/count", c)
			if vlib.Fail(t, key, "%v: %s", c, msg) {
				t.Skip("known")
			}
		}
	})
}
