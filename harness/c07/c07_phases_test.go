package c07

import (
	"encoding/json"
	"fmt"
	"testing"
	"time"

	fpgo "github.com/TeaEntityLab/fpGo/v2"
	"pgregory.net/rapid"

	"verifharness/vlib"
)

// Part "phased-bursts": one goroutine uses a BufferedChannelQueue in phases - a burst of offers much
// larger than the channel (the rest goes through the overflow buffer), then exactly that many removals
// through ONE removal call per phase (Take, TakeWithTimeout with a zero / negative / tiny / short time-out,
// Poll, or a receive from GetChannel()), then an idle pause long enough for the queue's house-keeping to
// trim its cache of spare nodes (nodeHookPoolSize 0-3). Every accepted value comes out exactly once, in
// order, in every phase: nothing of an earlier phase (recycled nodes, an idle loader) may leak into a later
// one, and a consumer that only ever uses one kind of call is still served ("nothing stranded").

type phase struct {
	Burst  int `json:"burst"`
	Mode   int `json:"mode"`   // 0 Take, 1 TakeWithTimeout(0), 2 TakeWithTimeout(-1ms), 3 TakeWithTimeout(1ns), 4 TakeWithTimeout(300us), 5 Poll, 6 <-GetChannel(), 7 receive from the channel GetChannel() returned BEFORE the burst
	IdleUs int `json:"idleUs"` // pause after the phase
}

type phasesCase struct {
	ChanCap  int     `json:"chanCap"`
	NodePool int     `json:"nodePool"`
	FreeUs   int     `json:"freeUs"`
	LoaderUs int     `json:"loaderUs"`
	Phases   []phase `json:"phases"`
}

func (c phasesCase) String() string { b, _ := json.Marshal(c); return string(b) }

var phaseModes = []string{"Take()", "TakeWithTimeout(0)", "TakeWithTimeout(-1ms)", "TakeWithTimeout(1ns)", "TakeWithTimeout(300us)", "Poll()", "<-GetChannel()", "a receive from the channel fetched before the burst"}

func runPhases(c phasesCase) (key, msg string, inconclusive bool) {
	schedMu.Lock()
	defer schedMu.Unlock()
	fpgo.SetVerifHook(nil)
	q := fpgo.NewBufferedChannelQueue[int](c.ChanCap, 10000, c.NodePool).
		SetLoadFromPoolDuration(time.Duration(c.LoaderUs) * time.Microsecond).
		SetFreeNodeHookPoolIntervalDuration(time.Duration(c.FreeUs) * time.Microsecond)
	defer q.Close()
	next := 0
	for pi, ph := range c.Phases {
		first := next
		early := q.GetChannel() // mode 7: the consumer holds on to this channel and makes no further call
		if ph.Mode == 7 {
			// let the loader pass that GetChannel() has triggered come and go before anything is offered
			time.Sleep(time.Duration(c.LoaderUs)*time.Microsecond + 500*time.Microsecond)
		}
		for i := 0; i < ph.Burst; i++ {
			if err := q.Offer(next); err != nil {
				return "C07/error-value", fmt.Sprintf("phase %d: Offer(%d) = %v on an open queue with room", pi, next, err), false
			}
			next++
		}
		type item struct {
			v   int
			err error
		}
		out := make(chan item, ph.Burst)
		stop := make(chan struct{})
		go func(mode, n int) {
			for got := 0; got < n; {
				select {
				case <-stop:
					return
				default:
				}
				var v int
				var err error
				switch mode {
				case 0:
					v, err = q.Take()
				case 1:
					v, err = q.TakeWithTimeout(0)
				case 2:
					v, err = q.TakeWithTimeout(-time.Millisecond)
				case 3:
					v, err = q.TakeWithTimeout(time.Nanosecond)
				case 4:
					v, err = q.TakeWithTimeout(300 * time.Microsecond)
				case 5:
					v, err = q.Poll()
				case 7:
					select {
					case v = <-early:
					case <-stop:
						return
					}
				default:
					select {
					case v = <-q.GetChannel():
					case <-stop:
						return
					}
				}
				if err == fpgo.ErrQueueTakeTimeout || err == fpgo.ErrQueueIsEmpty {
					time.Sleep(20 * time.Microsecond) // a polling consumer: try again a moment later
					continue
				}
				out <- item{v, err}
				if err != nil {
					return
				}
				got++
			}
		}(ph.Mode, ph.Burst)
		deadline := time.After(vlib.StallBudget())
		for i := 0; i < ph.Burst; i++ {
			select {
			case it := <-out:
				if it.err != nil {
					close(stop)
					return "C07/error-value", fmt.Sprintf("phase %d: %s = %v on an open queue holding accepted values", pi, phaseModes[ph.Mode], it.err), false
				}
				if it.v != first+i {
					close(stop)
					return "C07/fifo", fmt.Sprintf("phase %d (values %d..%d offered, removed with %s): removal #%d returned %d, want %d", pi, first, next-1, phaseModes[ph.Mode], i, it.v, first+i), false
				}
			case <-deadline:
				close(stop)
				cnt := q.Count()
				if cnt > 0 {
					return "C07/stranded", fmt.Sprintf("phase %d: a consumer that only calls %s got %d of the %d accepted values within %v; Count()=%d values stay in the queue, nothing else is going on", pi, phaseModes[ph.Mode], i, ph.Burst, vlib.StallBudget(), cnt), false
				}
				return "C07/lost", fmt.Sprintf("phase %d: %d of %d accepted values came out (%s), Count()=0", pi, i, ph.Burst, phaseModes[ph.Mode]), false
			}
		}
		if n := q.Count(); n != 0 {
			return "C07/count", fmt.Sprintf("phase %d: everything accepted was removed, Count() = %d", pi, n), false
		}
		time.Sleep(time.Duration(ph.IdleUs) * time.Microsecond)
	}
	return "", "", false
}

var phasesDirected = []phasesCase{
	{ChanCap: 1, NodePool: 1, FreeUs: 200, LoaderUs: 20, Phases: []phase{{30, 0, 1500}, {3, 6, 1500}, {10, 0, 1500}, {10, 5, 0}}},
	{ChanCap: 2, NodePool: 2, FreeUs: 300, LoaderUs: 0, Phases: []phase{{7, 1, 0}, {7, 2, 800}, {20, 3, 800}, {5, 4, 0}, {6, 7, 0}}},
	{ChanCap: 1, NodePool: 3, FreeUs: 300, LoaderUs: 200, Phases: []phase{{5, 7, 0}, {9, 7, 500}}},
}

func TestPhasedBurstsRegress(t *testing.T) {
	if vlib.Replaying() {
		t.Skip()
	}
	for _, c := range phasesDirected {
		vlib.S().Eval("phased-bursts")
		vlib.S().NonTrivial("phased-bursts", c.String())
		if key, msg, _ := runPhases(c); key != "" {
			vlib.WriteReplay("C07/phases", c)
			vlib.Fail(t, key, "%v: %s", c, msg)
		}
	}
}

func TestPhasedBurstsReplay(t *testing.T) {
	raw := vlib.ReplayCase("C07/phases")
	if raw == nil {
		t.Skip("no replay case")
	}
	var c phasesCase
	if err := json.Unmarshal(raw, &c); err != nil {
		t.Fatal(err)
	}
	for i := 0; i < 10; i++ {
		if key, msg, _ := runPhases(c); key != "" {
			t.Fatalf("[key=%s] %s", key, msg)
		}
	}
}

func TestPhasedBursts(t *testing.T) {
	if vlib.Replaying() {
		t.Skip()
	}
	vlib.Check(t, "phased-bursts", 120, 2000, func(t *rapid.T) {
		c := phasesCase{ChanCap: rapid.IntRange(1, 3).Draw(t, "chanCap"), NodePool: rapid.IntRange(0, 3).Draw(t, "nodePool"),
			FreeUs: rapid.SampledFrom([]int{200, 400}).Draw(t, "freeUs"), LoaderUs: rapid.SampledFrom([]int{0, 20, 200}).Draw(t, "loaderUs")}
		n := rapid.IntRange(2, 5).Draw(t, "phases")
		for i := 0; i < n; i++ {
			c.Phases = append(c.Phases, phase{Burst: rapid.IntRange(1, 40).Draw(t, "burst"), Mode: rapid.IntRange(0, 7).Draw(t, "mode"),
				IdleUs: rapid.SampledFrom([]int{0, 0, 900, 1500}).Draw(t, "idleUs")})
		}
		vlib.S().Eval("phased-bursts")
		vlib.S().NonTrivial("phased-bursts", c.String())
		key, msg, _ := runPhases(c)
		if key != "" {
			vlib.WriteReplay("C07/phases", c)
			if vlib.Fail(t, key, "%v: %s", c, msg) {
				t.Skip("known")
			}
		}
	})
}

// Part "never-block": "Offer/Poll never block" - whatever the loader is doing. A queue with an unbuffered
// channel (and a buffered one for comparison), a long loader interval (1.5 s) and nobody waiting for values:
// every Offer, Poll and Count returns at once, also while the loader is awake (it has just been woken by the
// previous call). "At once" is taken as half a second: three orders of magnitude above what the calls need,
// a third of what a call stuck behind one loader interval would take.
func TestNeverBlock(t *testing.T) {
	if vlib.Replaying() {
		t.Skip()
	}
	schedMu.Lock()
	defer schedMu.Unlock()
	fpgo.SetVerifHook(nil)
	for _, chanCap := range []int{0, 1} {
		q := fpgo.NewBufferedChannelQueue[int](chanCap, 8, 100).SetLoadFromPoolDuration(1500 * time.Millisecond)
		vlib.S().Eval("never-block")
		vlib.S().NonTrivial("never-block", fmt.Sprintf("chanCap=%d", chanCap))
		steps := []struct {
			name string
			fn   func()
		}{
			{"Offer(1)", func() { q.Offer(1) }}, {"Offer(2)", func() { q.Offer(2) }}, {"Poll()", func() { q.Poll() }}, {"Count()", func() { q.Count() }},
			{"Offer(3)", func() { q.Offer(3) }}, {"Poll()", func() { q.Poll() }}, {"TakeWithTimeout(1ms)", func() { q.TakeWithTimeout(time.Millisecond) }}, {"Offer(4)", func() { q.Offer(4) }},
		}
		for i, st := range steps {
			done := make(chan time.Duration, 1)
			go func() { t0 := time.Now(); st.fn(); done <- time.Since(t0) }()
			select {
			case d := <-done:
				if d > 500*time.Millisecond {
					vlib.Fail(t, "C07/blocks", "BufferedChannelQueue(%d, 8, 100) with a 1.5 s loader interval, nobody waiting for values: step %d %s took %v", chanCap, i, st.name, d)
					q.Close()
					return
				}
			case <-time.After(vlib.StallBudget()):
				vlib.Fail(t, "C07/blocks", "BufferedChannelQueue(%d, 8, 100) with a 1.5 s loader interval: step %d %s does not return", chanCap, i, st.name)
				return
			}
		}
		q.Close()
	}
}
