package c07

import (
	"encoding/json"
	"fmt"
	"runtime"
	"sync"
	"sync/atomic"
	"testing"
	"time"

	fpgo "github.com/TeaEntityLab/fpGo/v2"
	"pgregory.net/rapid"

	"verifharness/vlib"
)

// Part "concurrent-takers" ("once producers stop, repeated Take calls retrieve every accepted item",
// channelCapacity >= 1): M values are accepted (channel full, the rest in the overflow buffer), the
// loader is idle, nobody offers any more. K consumers then call Take / TakeWithTimeout at the same
// moment - they are held together right after their closed-check (hook bcq.take.afterClosedCheck /
// bcq.takeWithTimeout.afterClosedCheck) and released at once - and go on taking until together they
// have asked for exactly M values. Every one of those calls must return a value: a consumer that
// blocks (or keeps timing out) while accepted values sit in the buffer has been stranded.

type takersCase struct {
	ChanCap int   `json:"chanCap"`
	Extra   int   `json:"extra"`
	Takes   []int `json:"takes"` // per consumer; sum == ChanCap+Extra
	Timed   bool  `json:"timed"` // TakeWithTimeout(generous) instead of Take
}

func (c takersCase) String() string { b, _ := json.Marshal(c); return string(b) }

func takerLoop(q *fpgo.BufferedChannelQueue[int], n int, timed bool, got *int64, wg *sync.WaitGroup, errs chan<- string) {
	defer wg.Done()
	for i := 0; i < n; i++ {
		var err error
		if timed {
			// a timed call may time out (that is what the time-out is for): the consumer asks again, and every
			// call wakes the loader; what must not happen is that REPEATED calls get nothing for the stall budget
			deadline := time.Now().Add(vlib.StallBudget() + time.Second)
			for {
				_, err = q.TakeWithTimeout(100 * time.Millisecond)
				if err != fpgo.ErrQueueTakeTimeout || time.Now().After(deadline) {
					break
				}
			}
		} else {
			_, err = q.Take()
		}
		if err != nil {
			errs <- err.Error()
			return
		}
		atomic.AddInt64(got, 1)
	}
}

func runTakers(c takersCase) (key, msg string, nontrivial bool) {
	schedMu.Lock()
	defer schedMu.Unlock()
	q := fpgo.NewBufferedChannelQueue[int](c.ChanCap, 10000, 100).SetLoadFromPoolDuration(20 * time.Microsecond)
	defer q.Close()
	k := len(c.Takes)
	var arrived, released int32
	fpgo.SetVerifHook(func(point string, obj any) {
		if obj != any(q) || (point != "bcq.take.afterClosedCheck" && point != "bcq.takeWithTimeout.afterClosedCheck") {
			return
		}
		n := atomic.AddInt32(&arrived, 1)
		if int(n) > k {
			return
		}
		if int(n) == k {
			atomic.StoreInt32(&released, 1)
			return
		}
		// spin (not park): the consumers must leave this point within nanoseconds of each other - what is
		// being probed lies between here and the channel receive, a few instructions further on
		for t0 := time.Now(); atomic.LoadInt32(&released) == 0 && time.Since(t0) < 5*time.Millisecond; {
			if fewProcs {
				runtime.Gosched()
			}
		}
	})
	defer fpgo.SetVerifHook(nil)
	m := c.ChanCap + c.Extra
	for i := 0; i < m; i++ {
		if err := q.Offer(i); err != nil {
			return "", "", false
		}
	}
	ch := q.GetChannel()
	if !vlib.WaitUntil(vlib.StallBudget(), func() bool { return len(ch) == c.ChanCap }) {
		return "", "", false
	}
	time.Sleep(200 * time.Microsecond) // the loader has gone back to waiting
	var got int64
	var wg sync.WaitGroup
	errs := make(chan string, k)
	for _, n := range c.Takes {
		wg.Add(1)
		go takerLoop(q, n, c.Timed, &got, &wg, errs)
	}
	done := make(chan struct{})
	go func() { wg.Wait(); close(done) }()
	select {
	case <-done:
	case <-time.After(vlib.StallBudget()):
		verdict, dump := vlib.ClassifyStall([]string{"c07.takerLoop"})
		if verdict == "blocked" {
			return "C07/stranded", fmt.Sprintf("%d values accepted, producers stopped, %d consumers asked for exactly %d values with Take/TakeWithTimeout: only %d calls returned, the others block although Count()=%d values are held\n%s", m, k, m, atomic.LoadInt64(&got), q.Count(), dump), true
		}
		return "", "", false
	}
	select {
	case e := <-errs:
		return "C07/stranded", fmt.Sprintf("%d values accepted, producers stopped, %d consumers asked for exactly %d values: a call failed with %s (%d returned, Count()=%d)", m, k, m, e, atomic.LoadInt64(&got), q.Count()), true
	default:
	}
	if n := atomic.LoadInt64(&got); int(n) != m {
		return "C07/stranded", fmt.Sprintf("%d of %d values retrieved", n, m), true
	}
	return "", "", true
}

func TestConcurrentTakers(t *testing.T) {
	if vlib.Replaying() {
		raw := vlib.ReplayCase("C07/takers")
		if raw == nil {
			return
		}
		var c takersCase
		if err := json.Unmarshal(raw, &c); err != nil {
			t.Fatal(err)
		}
		for i := 0; i < 200; i++ {
			if key, msg, _ := runTakers(c); key != "" {
				t.Fatalf("[key=%s] %s", key, msg)
			}
		}
		return
	}
	vlib.Check(t, "concurrent-takers", 300, 5000, func(t *rapid.T) {
		c := takersCase{Timed: rapid.Bool().Draw(t, "timed")}
		k := rapid.IntRange(2, 4).Draw(t, "consumers")
		if rapid.Bool().Draw(t, "oneEach") {
			// every consumer takes exactly one value, the channel holds fewer values than there are consumers
			c.ChanCap = rapid.IntRange(1, k-1).Draw(t, "chanCap")
			c.Extra = k - c.ChanCap
			for i := 0; i < k; i++ {
				c.Takes = append(c.Takes, 1)
			}
		} else {
			c.ChanCap = rapid.IntRange(1, 3).Draw(t, "chanCap")
			c.Extra = rapid.IntRange(1, 12).Draw(t, "extra")
			left := c.ChanCap + c.Extra
			for i := 0; i < k; i++ {
				n := left
				if i < k-1 {
					n = rapid.IntRange(0, left).Draw(t, "n")
					if i == 0 && n == 0 {
						n = 1
					}
				}
				if n > left {
					n = left
				}
				c.Takes = append(c.Takes, n)
				left -= n
			}
		}
		vlib.S().Eval("concurrent-takers")
		key, msg, nt := runTakers(c)
		if nt {
			vlib.S().NonTrivial("concurrent-takers", c.String())
		}
		if key != "" {
			vlib.WriteReplay("C07/takers", c)
			if vlib.Fail(t, key, "%v: %s", c, msg) {
				t.Skip("known")
			}
		}
	})
}
