package c07

import (
	"encoding/json"
	"fmt"
	"math"
	"runtime"
	"sort"
	"strings"
	"sync"
	"sync/atomic"
	"testing"
	"time"

	fpgo "github.com/TeaEntityLab/fpGo/v2"
	"pgregory.net/rapid"

	"verifharness/vlib"
)

func TestMain(m *testing.M) { vlib.Main(m) }

var schedMu sync.Mutex

type config struct {
	C        int  `json:"c"`        // channel capacity
	B        int  `json:"b"`        // bufferSizeMaximum
	LoaderUs int  `json:"loaderUs"` // loader interval in microseconds
	Plain    bool `json:"plain"`    // plain ChannelQueue instead of BufferedChannelQueue
	// NodePool = nodeHookPoolSize (recycled-node cache trimmed by the free-node goroutine), FreeUs = its
	// interval (0 = same as the loader), ViaSetter = bound and pool size configured through the setters
	NodePool  int  `json:"nodePool"`
	FreeUs    int  `json:"freeUs"`
	ViaSetter bool `json:"viaSetter"`
}

func (c config) String() string {
	if c.Plain {
		return fmt.Sprintf("ChannelQueue(cap=%d)", c.C)
	}
	return fmt.Sprintf("Buffered(C=%d,B=%d,loader=%dus,nodePool=%d,free=%dus,setter=%v)", c.C, c.B, c.LoaderUs, c.NodePool, c.FreeUs, c.ViaSetter)
}

func genConfig(t *rapid.T, allowPlain bool) config {
	c := config{
		C:        rapid.SampledFrom([]int{0, 1, 1, 2, 3}).Draw(t, "C"),
		B:        rapid.SampledFrom([]int{0, 1, 2, 5, 50, math.MaxInt}).Draw(t, "B"), // MaxInt: an "unbounded" buffer
		LoaderUs: rapid.SampledFrom([]int{10, 200, 2000}).Draw(t, "loaderUs"),
	}
	c.NodePool = rapid.SampledFrom([]int{0, 1, 3, 100}).Draw(t, "nodePool")
	c.FreeUs = rapid.SampledFrom([]int{0, 10, 100}).Draw(t, "freeUs")
	c.ViaSetter = rapid.Bool().Draw(t, "viaSetter")
	if allowPlain && rapid.IntRange(0, 5).Draw(t, "plain") == 0 {
		c.Plain = true
		c.B = 0
	}
	return c
}

var loaderPoints = []string{"bcq.load.wake", "bcq.load.betweenPollOffer", "bcq.load.beforeSleep",
	"bcq.offer.locked", "bcq.offer.beforePool", "bcq.poll.afterClosedCheck", "bcq.take.afterClosedCheck",
	"bcq.takeWithTimeout.afterClosedCheck", "bcq.getChannel.entry"}

// queue abstracts BufferedChannelQueue and plain ChannelQueue
type queue struct {
	cfg   config
	b     *fpgo.BufferedChannelQueue[int]
	plain fpgo.ChannelQueue[int]
	sched *vlib.Sched
}

func newQueue(cfg config, plan vlib.Plan) *queue {
	q := &queue{cfg: cfg}
	if cfg.Plain {
		q.plain = fpgo.NewChannelQueue[int](cfg.C)
		return q
	}
	q.sched = vlib.NewSched(plan)
	fpgo.SetVerifHook(q.sched.Hook)
	// the constructor starts the loader at once: build with TrackAll for the
	// construction window, then restrict to this queue
	freeUs := cfg.FreeUs
	if freeUs == 0 {
		freeUs = cfg.LoaderUs
	}
	if cfg.ViaSetter {
		first := cfg.B + 7
		if cfg.B > math.MaxInt-7 {
			first = cfg.B - 7
		}
		q.b = fpgo.NewBufferedChannelQueue[int](cfg.C, first, 55).
			SetBufferSizeMaximum(cfg.B).
			SetNodeHookPoolSize(cfg.NodePool)
	} else {
		q.b = fpgo.NewBufferedChannelQueue[int](cfg.C, cfg.B, cfg.NodePool)
	}
	q.b.SetLoadFromPoolDuration(time.Duration(cfg.LoaderUs) * time.Microsecond).
		SetFreeNodeHookPoolIntervalDuration(time.Duration(freeUs) * time.Microsecond)
	if q.b.GetBufferSizeMaximum() != cfg.B || q.b.GetNodeHookPoolSize() != cfg.NodePool {
		panic("harness: configuration getters disagree with what was set")
	}
	q.sched.Track(q.b)
	return q
}

func (q *queue) close() {
	if q.cfg.Plain {
		close(q.plain) // releases consumers blocked in Take (they see ErrQueueIsClosed)
		return
	}
	q.sched.Disable()
	// a queue whose lock is wedged (that is a finding of its own, reported where it was noticed) must not
	// wedge the harness as well: Close gets a bounded wait
	done := make(chan struct{})
	go func() { defer close(done); q.b.Close() }()
	select {
	case <-done:
	case <-time.After(vlib.StallBudget()):
	}
	fpgo.SetVerifHook(nil)
}

func (q *queue) Offer(v int) error {
	if q.cfg.Plain {
		return q.plain.Offer(v)
	}
	return q.b.Offer(v)
}
func (q *queue) Put(v int) error {
	if q.cfg.Plain {
		return q.plain.Offer(v) // ChannelQueue.Put blocks by design; use Offer
	}
	return q.b.Put(v)
}
func (q *queue) Poll() (int, error) {
	if q.cfg.Plain {
		return q.plain.Poll()
	}
	return q.b.Poll()
}
func (q *queue) Take() (int, error) {
	if q.cfg.Plain {
		return q.plain.Take()
	}
	return q.b.Take()
}
func (q *queue) TakeWithTimeout(d time.Duration) (int, error) {
	if q.cfg.Plain {
		return q.plain.TakeWithTimeout(d)
	}
	return q.b.TakeWithTimeout(d)
}
func (q *queue) Chan() chan int {
	if q.cfg.Plain {
		return q.plain
	}
	return q.b.GetChannel()
}
func (q *queue) Count() int {
	if q.cfg.Plain {
		return len(q.plain)
	}
	return q.b.Count()
}
func (q *queue) capacity() int {
	if q.cfg.Plain {
		return q.cfg.C
	}
	if q.cfg.B > math.MaxInt-q.cfg.C {
		return math.MaxInt
	}
	return q.cfg.C + q.cfg.B
}

// quiesce waits until a loader pass that began after this call has ended.
// Returns false if that did not happen within the budget.
func (q *queue) quiesce() bool {
	if q.cfg.Plain {
		return true
	}
	w0 := q.sched.Hits("bcq.load.wake")
	q.b.GetChannel() // posts a wake-up
	return vlib.WaitUntil(vlib.StallBudget(), func() bool {
		return q.sched.Hits("bcq.load.beforeSleep") >= w0+1
	})
}

// minimal n at which ErrQueueIsFull can be legitimate
func (c config) fullNeeds() int {
	if c.Plain || c.B == 0 {
		return c.C
	}
	return c.B
}

// =====================================================================
// (a) sequential histories
// =====================================================================

const (
	sOffer = iota
	sPut
	sPoll
	sTakeT
	sCount
	sQuiesce
	sChanRecv
)

var sNames = []string{"Offer", "Put", "Poll", "TakeT", "Count", "Quiesce", "ChanRecv"}

type seqCase struct {
	Cfg   config    `json:"cfg"`
	Ops   []int     `json:"ops"`
	Drain int       `json:"drain"` // consumer operation used alone for the final drain (cTake..cChan)
	Plan  vlib.Plan `json:"plan"`
}

func (s seqCase) String() string {
	parts := make([]string, len(s.Ops))
	for i, o := range s.Ops {
		parts[i] = sNames[o]
	}
	return s.Cfg.String() + " " + strings.Join(parts, ",") + fmt.Sprintf(" drain=%d", s.Drain) + " plan=" + s.Plan.String()
}

type result struct {
	failKey, failMsg string
	nontrivial       bool
	inconclusive     string
}

// runSeq runs one sequential history under a hang guard: every call of the history is made by ONE
// goroutine with nobody else using the queue, so a call that never returns ("Offer/Poll never block", and
// nothing a single caller does can wait for somebody else) is a violation, not a reason to wait for the
// test binary's time limit.
func runSeq(s seqCase) result {
	schedMu.Lock()
	defer schedMu.Unlock()
	done := make(chan result, 1)
	go seqRunner(s, done)
	select {
	case res := <-done:
		return res
	case <-time.After(6 * vlib.StallBudget()):
	}
	verdict, dump := vlib.ClassifyStall([]string{"c07.seqRunner"})
	select {
	case res := <-done:
		return res
	default:
	}
	if verdict == "blocked" {
		return result{failKey: "C07/blocks", failMsg: fmt.Sprintf("a sequential history (one goroutine, nobody else uses the queue) does not finish: a queue call blocks for ever\n%s", dump)}
	}
	return result{inconclusive: "sequential history slow: " + verdict}
}

// seqRunner is the goroutine of one sequential history (its name is looked up in goroutine dumps).
func seqRunner(s seqCase, done chan<- result) { done <- runSeqHistory(s) }

func runSeqHistory(s seqCase) result {
	var res result
	q := newQueue(s.Cfg, s.Plan)
	defer q.close()
	cfg := s.Cfg
	var model []int
	next := 1
	quiesced := true // empty fresh queue
	fail := func(k, f string, a ...any) {
		if res.failKey == "" {
			res.failKey, res.failMsg = k, fmt.Sprintf(f, a...)
		}
	}
	hang := func(name string, fn func()) bool {
		done := make(chan struct{})
		go func() { defer close(done); fn() }()
		select {
		case <-done:
			return false
		case <-time.After(vlib.StallBudget()):
			fail("C07/blocks", "%s did not return (non-blocking operation blocked)", name)
			return true
		}
	}
	checkRemoval := func(i int, name string, v int, err error, emptyErr error, mustDeliver bool) {
		if err == nil {
			if len(model) == 0 {
				fail("C07/invented", "step %d %s returned %d from an empty queue", i, name, v)
				return
			}
			if v != model[0] {
				fail("C07/fifo", "step %d %s returned %d, head of the accepted sequence is %d (model %v)", i, name, v, model[0], model)
				return
			}
			model = model[1:]
			return
		}
		if err != emptyErr {
			fail("C07/error-value", "step %d %s returned unexpected error %v", i, name, err)
			return
		}
		if mustDeliver {
			fail("C07/stranded", "step %d %s reported %v although %d accepted items are undelivered and the loader has finished a pass (model %v)", i, name, err, len(model), model)
		}
	}
	p, st := vlib.Try(func() {
		for i, o := range s.Ops {
			n := len(model)
			switch o {
			case sOffer, sPut:
				v := next
				next++
				var err error
				if hang(sNames[o], func() {
					if o == sOffer {
						err = q.Offer(v)
					} else {
						err = q.Put(v)
					}
				}) {
					return
				}
				switch {
				case err == nil:
					if n >= q.capacity() {
						fail("C07/bound", "step %d %s accepted item although %d items are held (capacity %d)", i, sNames[o], n, q.capacity())
					}
					model = append(model[:len(model):len(model)], v)
				case err == fpgo.ErrQueueIsFull:
					if n < cfg.fullNeeds() {
						fail("C07/full-too-early", "step %d %s failed with ErrQueueIsFull while only %d items are held (%v)", i, sNames[o], n, cfg)
					}
					if quiesced && n < q.capacity() {
						fail("C07/full-too-early", "step %d %s failed with ErrQueueIsFull after quiescence with %d of %d slots used", i, sNames[o], n, q.capacity())
					}
				default:
					fail("C07/error-value", "step %d %s returned unexpected error %v", i, sNames[o], err)
				}
				quiesced = false
			case sPoll:
				var v int
				var err error
				if hang("Poll", func() { v, err = q.Poll() }) {
					return
				}
				checkRemoval(i, "Poll", v, err, fpgo.ErrQueueIsEmpty, quiesced && n > 0 && cfg.C >= 1)
				quiesced = false
			case sTakeT:
				d := 200 * time.Microsecond
				must := quiesced && n > 0 && cfg.C >= 1
				if must {
					d = 2 * time.Second
				}
				v, err := q.TakeWithTimeout(d)
				checkRemoval(i, "TakeWithTimeout", v, err, fpgo.ErrQueueTakeTimeout, must)
				quiesced = false
			case sChanRecv:
				select {
				case v := <-q.Chan():
					checkRemoval(i, "<-GetChannel()", v, nil, nil, false)
				default:
					if quiesced && n > 0 && cfg.C >= 1 {
						fail("C07/stranded", "step %d: channel empty after quiescence with %d items held", i, n)
					}
				}
				quiesced = false
			case sCount:
				c := q.Count()
				if c > q.capacity() || c < 0 {
					fail("C07/bound", "step %d Count()=%d exceeds capacity %d", i, c, q.capacity())
				}
				if quiesced && c != n {
					fail("C07/count", "step %d Count()=%d at quiescence, accepted-delivered=%d", i, c, n)
				}
			case sQuiesce:
				if !q.quiesce() {
					res.inconclusive = "loader pass not observed"
					return
				}
				quiesced = true
				if c := q.Count(); c != n {
					fail("C07/count", "step %d Count()=%d at quiescence, accepted-delivered=%d", i, c, n)
				}
			}
			if res.failKey != "" {
				return
			}
		}
		// nothing stranded: once producers stopped, repeated calls of ONE consumer
		// operation (drawn) must retrieve every accepted item, with no further Offer and
		// no other call that could wake the loader on its behalf
		// With an unbuffered channel (C=0) the statement does not claim the stranding clause: the non-blocking
		// loader can only hand over to a consumer that is ALREADY waiting. Exactly that much is checked there
		// (drainWaiting): a consumer that is parked in Take() when a loader pass runs gets the head item.
		if cfg.C == 0 && !cfg.Plain {
			drainWaiting(q, &model, fail, &res)
			return
		}
		if cfg.C >= 1 {
			attempts, lastProgress := 0, time.Now()
			for len(model) > 0 {
				var v int
				var err error
				got := false
				switch s.Drain {
				case cPoll:
					v, err = q.Poll()
					got = err == nil
					if err != nil && err != fpgo.ErrQueueIsEmpty {
						fail("C07/error-value", "drain Poll: %v", err)
					}
				case cTakeT:
					v, err = q.TakeWithTimeout(200 * time.Microsecond)
					got = err == nil
					if err != nil && err != fpgo.ErrQueueTakeTimeout {
						fail("C07/error-value", "drain TakeWithTimeout: %v", err)
					}
				case cChan:
					select {
					case v = <-q.Chan():
						got = true
					case <-time.After(200 * time.Microsecond):
					}
				case cTake:
					type tr struct {
						v   int
						err error
					}
					ch := make(chan tr, 1)
					go func() { v, err := q.Take(); ch <- tr{v, err} }()
					select {
					case r := <-ch:
						v, err, got = r.v, r.err, r.err == nil
						if r.err != nil {
							fail("C07/error-value", "drain Take: %v", r.err)
						}
					case <-time.After(vlib.StallBudget()):
						fail("C07/stranded", "Take() blocks although %d accepted items %v are undelivered and no producer is active", len(model), model)
					}
				}
				if res.failKey != "" {
					return
				}
				attempts++
				if got {
					if v != model[0] {
						fail("C07/fifo", "drain returned %d, expected %d (model %v)", v, model[0], model)
						return
					}
					model = model[1:]
					lastProgress = time.Now()
					attempts = 0
					continue
				}
				if attempts > 2000 && time.Since(lastProgress) > vlib.StallBudget() {
					fail("C07/stranded", "accepted items %v were never delivered: %d consecutive %s attempts over %v got nothing and no producer is active (loader: %d wake-ups, %d hand-over attempts in total)\n%s", model, attempts, []string{"Take", "TakeWithTimeout", "Poll", "<-GetChannel()"}[s.Drain], time.Since(lastProgress).Round(time.Millisecond), q.sched.Hits("bcq.load.wake"), q.sched.Hits("bcq.load.betweenPollOffer"), vlib.AllStacks())
					return
				}
				if attempts > 50 {
					time.Sleep(50 * time.Microsecond)
				}
			}
			if res.failKey == "" {
				if !q.quiesce() {
					res.inconclusive = "loader pass not observed"
					return
				}
				if c := q.Count(); c != 0 {
					fail("C07/count", "Count()=%d after everything was delivered", c)
				}
				if v, err := q.Poll(); err == nil {
					fail("C07/invented", "Poll returned %d from a drained queue", v)
				}
			}
		}
	})
	if p != nil && res.failKey == "" {
		res.failKey, res.failMsg = "C07/panic", fmt.Sprintf("%v\n%s", p, st)
	}
	if !cfg.Plain {
		res.nontrivial = q.sched.Hits("bcq.offer.beforePool") > 0 && q.sched.Hits("bcq.load.betweenPollOffer") > 0
	}
	return res
}

func genSeq(t *rapid.T) seqCase {
	s := seqCase{Cfg: genConfig(t, true)}
	n := rapid.IntRange(1, 60).Draw(t, "n")
	ops := []int{sOffer, sOffer, sOffer, sPut, sPoll, sPoll, sTakeT, sCount, sQuiesce, sChanRecv}
	for i := 0; i < n; i++ {
		s.Ops = append(s.Ops, rapid.SampledFrom(ops).Draw(t, "op"))
	}
	s.Drain = rapid.IntRange(0, 3).Draw(t, "drain")
	if !s.Cfg.Plain {
		s.Plan = vlib.DrawPlan(t, loaderPoints, 6)
	}
	return s
}

// =====================================================================
// (b) concurrent scenarios
// =====================================================================

const (
	cTake = iota
	cTakeT
	cPoll
	cChan
)

type concCase struct {
	Cfg       config    `json:"cfg"`
	Producers []int     `json:"producers"` // number of offers per producer
	Consumers []int     `json:"consumers"` // consumer kind
	PutEvery  int       `json:"putEvery"`
	Gap       int       `json:"gap"`
	Plan      vlib.Plan `json:"plan"`
}

// waitingTake is the consumer of drainWaiting (its name is looked up in goroutine dumps).
func waitingTake(q *queue, out chan<- [2]int) {
	v, err := q.b.Take()
	if err != nil {
		out <- [2]int{0, 1}
		return
	}
	out <- [2]int{v, 0}
}

// takeParked reports whether a goroutine running waitingTake is parked in a channel receive.
func takeParked() bool {
	for _, g := range strings.Split(vlib.AllStacks(), "\n\n") {
		if strings.Contains(g, "c07.waitingTake") {
			hdr := g
			if i := strings.Index(g, "\n"); i >= 0 {
				hdr = g[:i]
			}
			return strings.Contains(hdr, "[chan receive")
		}
	}
	return false
}

// drainWaiting (channelCapacity 0): for every undelivered item a consumer is started in Take() and, once
// it is parked on the channel, loader passes are triggered with GetChannel() (which posts a wake-up and
// consumes nothing). A pass that runs while the consumer waits must hand the head item over. Three
// observed passes (hook bcq.load.wake) without a delivery are a violation; a stall without observed
// passes is inconclusive.
func drainWaiting(q *queue, model *[]int, fail func(string, string, ...any), res *result) {
	for len(*model) > 0 {
		out := make(chan [2]int, 1)
		go waitingTake(q, out)
		if !vlib.WaitUntil(vlib.StallBudget(), func() bool { return takeParked() || len(out) > 0 }) {
			res.inconclusive = "consumer did not park"
			return
		}
		wake0 := q.sched.Hits("bcq.load.wake")
		begin := time.Now()
		var r [2]int
		got := false
		for !got {
			select {
			case r = <-out:
				got = true
				continue
			default:
			}
			q.b.GetChannel()
			select {
			case r = <-out:
				got = true
			case <-time.After(time.Millisecond):
			}
			if !got && time.Since(begin) > vlib.StallBudget() {
				if passes := q.sched.Hits("bcq.load.wake") - wake0; passes >= 3 {
					fail("C07/stranded", "channelCapacity 0: a consumer parked in Take() was not served although the loader ran %d passes (%d hand-over attempts in total) with %d accepted items %v held\n%s", passes, q.sched.Hits("bcq.load.betweenPollOffer"), len(*model), *model, vlib.AllStacks())
				} else {
					res.inconclusive = "loader passes not observed"
				}
				return
			}
		}
		if r[1] != 0 {
			fail("C07/error-value", "Take() of a waiting consumer failed on an open queue")
			return
		}
		if r[0] != (*model)[0] {
			fail("C07/fifo", "waiting Take returned %d, expected %d (model %v)", r[0], (*model)[0], *model)
			return
		}
		*model = (*model)[1:]
	}
	if !q.quiesce() {
		res.inconclusive = "loader pass not observed"
		return
	}
	if c := q.Count(); c != 0 {
		fail("C07/count", "Count()=%d after everything was delivered", c)
	}
}

func (c concCase) String() string {
	return fmt.Sprintf("%v producers=%v consumers=%v gap=%d plan=%v", c.Cfg, c.Producers, c.Consumers, c.Gap, c.Plan)
}

func genConc(t *rapid.T) concCase {
	c := concCase{Cfg: genConfig(t, true)}
	if c.Cfg.C == 0 {
		c.Cfg.C = 1 // the stranding clause is stated for channelCapacity >= 1; capacity 0 is covered by the sequential part
	}
	np := rapid.IntRange(1, 4).Draw(t, "P")
	for i := 0; i < np; i++ {
		c.Producers = append(c.Producers, rapid.IntRange(1, 75).Draw(t, "n"))
	}
	nk := rapid.IntRange(1, 4).Draw(t, "K")
	for i := 0; i < nk; i++ {
		c.Consumers = append(c.Consumers, rapid.IntRange(0, 3).Draw(t, "kind"))
	}
	c.Gap = rapid.IntRange(0, 3).Draw(t, "gap")
	if !c.Cfg.Plain {
		c.Plan = vlib.DrawPlan(t, loaderPoints, 8)
	}
	return c
}

type consumed struct {
	consumer int
	val      int
}

func runConc(c concCase) result {
	var res result
	schedMu.Lock()
	defer schedMu.Unlock()
	q := newQueue(c.Cfg, c.Plan)
	closed := false
	defer func() {
		if !closed {
			q.close()
		}
	}()
	var failMu sync.Mutex
	fail := func(k, f string, a ...any) {
		failMu.Lock()
		if res.failKey == "" {
			res.failKey, res.failMsg = k, fmt.Sprintf(f, a...)
		}
		failMu.Unlock()
	}
	var offersStarted, rejectedDone, delivered int64
	accepted := make([][]int, len(c.Producers))
	var stop int32
	var prodWg, consWg sync.WaitGroup
	logs := make([][]int, len(c.Consumers)+1)
	for p, n := range c.Producers {
		prodWg.Add(1)
		go producerLoop(&prodWg, func() {
			for k := 1; k <= n; k++ {
				v := (p+1)*100000 + k
				dLo := atomic.LoadInt64(&delivered)
				rLo := atomic.LoadInt64(&rejectedDone)
				atomic.AddInt64(&offersStarted, 1)
				var err error
				if k%2 == 0 {
					err = q.Put(v)
				} else {
					err = q.Offer(v)
				}
				switch err {
				case nil:
					accepted[p] = append(accepted[p], v)
				case fpgo.ErrQueueIsFull:
					aHi := atomic.LoadInt64(&offersStarted) - 1 - rLo // offers that might have been accepted, excluding this one
					if nMax := aHi - dLo; nMax < int64(c.Cfg.fullNeeds()) {
						fail("C07/full-too-early", "Offer(%d) failed with ErrQueueIsFull although at most %d items can have been held (%v)", v, nMax, c.Cfg)
					}
					atomic.AddInt64(&rejectedDone, 1)
				default:
					fail("C07/error-value", "Offer returned unexpected error %v", err)
				}
				for g := 0; g < c.Gap; g++ {
					runtime.Gosched()
				}
			}
		}, fail)
	}
	var takeWg sync.WaitGroup // consumers blocked in Take() are released by closing the queue at the very end
	for k, kind := range c.Consumers {
		wg := &consWg
		if kind == cTake {
			wg = &takeWg
		}
		wg.Add(1)
		go consumerLoop(wg, func() {
			for atomic.LoadInt32(&stop) == 0 {
				var v int
				var err error
				switch kind {
				case cTake:
					v, err = q.Take()
					if err == fpgo.ErrQueueIsClosed {
						return
					}
				case cTakeT:
					v, err = q.TakeWithTimeout(300 * time.Microsecond)
					if err == fpgo.ErrQueueTakeTimeout {
						continue
					}
				case cPoll:
					v, err = q.Poll()
					if err == fpgo.ErrQueueIsEmpty {
						runtime.Gosched()
						continue
					}
				case cChan:
					select {
					case x, ok := <-q.Chan():
						if !ok {
							return
						}
						v = x
					case <-time.After(300 * time.Microsecond):
						continue
					}
				}
				if err != nil {
					if err == fpgo.ErrQueueIsClosed && atomic.LoadInt32(&stop) == 1 {
						return
					}
					fail("C07/error-value", "consumer kind %d got unexpected error %v", kind, err)
					return
				}
				logs[k] = append(logs[k], v)
				atomic.AddInt64(&delivered, 1)
			}
		}, fail)
	}
	// Count sampler
	var samplerWg sync.WaitGroup
	var maxCount int64
	samplerWg.Add(1)
	go func() {
		defer samplerWg.Done()
		for atomic.LoadInt32(&stop) == 0 {
			n := int64(q.Count())
			if n > atomic.LoadInt64(&maxCount) {
				atomic.StoreInt64(&maxCount, n)
			}
			runtime.Gosched()
		}
	}()
	waitWG := func(wg *sync.WaitGroup, needle string, what string) bool {
		done := make(chan struct{})
		go func() { wg.Wait(); close(done) }()
		select {
		case <-done:
			return true
		case <-time.After(vlib.StallBudget()):
			verdict, dump := vlib.ClassifyStall([]string{needle})
			if verdict == "blocked" {
				fail("C07/blocks", "%s blocked for ever:\n%s", what, dump)
			} else {
				res.inconclusive = what + " slow: " + verdict
			}
			return false
		}
	}
	if !waitWG(&prodWg, "c07.producerLoop", "producers (Offer/Put must never block)") {
		atomic.StoreInt32(&stop, 1)
		return res
	}
	totalAccepted := 0
	for _, a := range accepted {
		totalAccepted += len(a)
	}
	// producers stopped: the consumers alone (repeated Take/Poll/receive calls) must get
	// everything out; the harness makes no call on the queue that could wake the loader
	{
		last, lastProgress := atomic.LoadInt64(&delivered), time.Now()
		for atomic.LoadInt64(&delivered) < int64(totalAccepted) {
			time.Sleep(100 * time.Microsecond)
			if d := atomic.LoadInt64(&delivered); d != last {
				last, lastProgress = d, time.Now()
			} else if time.Since(lastProgress) > vlib.StallBudget() {
				break // decided below from the logs ("stranded")
			}
		}
	}
	harness := len(c.Consumers)
	_ = harness
	atomic.StoreInt32(&stop, 1)
	if !waitWG(&samplerWg, "c07.runConc", "Count()") {
		return res
	}
	missing := int64(totalAccepted) - atomic.LoadInt64(&delivered)
	var countAtEnd int
	quiescedOK := true
	if res.inconclusive == "" {
		quiescedOK = q.quiesce()
		countAtEnd = q.Count()
	}
	// non-blocking / timed consumers leave on the stop flag; only then close the
	// queue (closing is not part of this property) to release blocked Take() callers
	if !waitWG(&consWg, "c07.consumerLoop", "consumers") {
		return res
	}
	q.close()
	closed = true
	if !waitWG(&takeWg, "c07.consumerLoop", "Take consumers after Close") {
		return res
	}
	if res.failKey != "" || res.inconclusive != "" {
		return res
	}
	// ---- oracle over the logs
	acceptedSet := map[int]bool{}
	for _, a := range accepted {
		for _, v := range a {
			acceptedSet[v] = true
		}
	}
	seen := map[int]int{}
	total := 0
	for k, lg := range logs {
		last := map[int]int{}
		for _, v := range lg {
			total++
			if !acceptedSet[v] {
				fail("C07/invented", "consumer %d received %d which was never accepted", k, v)
				return res
			}
			seen[v]++
			if seen[v] > 1 {
				fail("C07/duplicate", "value %d delivered twice", v)
				return res
			}
			p, seq := v/100000, v%100000
			if seq < last[p] {
				fail("C07/fifo", "consumer %d received %d after a later value (%d) of the same producer", k, v, p*100000+last[p])
				return res
			}
			last[p] = seq
		}
	}
	if total != totalAccepted {
		var lost []int
		for v := range acceptedSet {
			if seen[v] == 0 {
				lost = append(lost, v)
			}
		}
		sort.Ints(lost)
		if len(lost) > 10 {
			lost = lost[:10]
		}
		fail("C07/stranded", "%d accepted items were never delivered although producers stopped and consumers kept taking (missing by counter %d), e.g. %v", totalAccepted-total, missing, lost)
		return res
	}
	if int(atomic.LoadInt64(&maxCount)) > q.capacity() {
		fail("C07/bound", "Count() sampled %d > channelCapacity+bufferSizeMaximum = %d", maxCount, q.capacity())
		return res
	}
	if quiescedOK && countAtEnd != 0 {
		fail("C07/count", "Count()=%d at quiescence after everything was delivered", countAtEnd)
		return res
	}
	if !c.Cfg.Plain {
		res.nontrivial = q.sched.Hits("bcq.offer.beforePool") > 0 && q.sched.Hits("bcq.load.betweenPollOffer") > 0
	} else {
		res.nontrivial = len(c.Producers) >= 2 && len(c.Consumers) >= 2
	}
	return res
}

func producerLoop(wg *sync.WaitGroup, body func(), fail func(k, f string, a ...any)) {
	defer wg.Done()
	if p, st := vlib.Try(body); p != nil {
		fail("C07/panic", "producer panicked: %v\n%s", p, st)
	}
}

func consumerLoop(wg *sync.WaitGroup, body func(), fail func(k, f string, a ...any)) {
	defer wg.Done()
	if p, st := vlib.Try(body); p != nil {
		fail("C07/panic", "consumer panicked: %v\n%s", p, st)
	}
}

// =====================================================================
// tests
// =====================================================================

func report(t vlib.TB, kind string, c fmt.Stringer, res result, skip func()) {
	if res.inconclusive != "" && res.failKey == "" {
		vlib.S().Note("inconclusive (%s): %v", res.inconclusive, c)
		vlib.S().Class("inconclusive")
		return
	}
	if res.failKey == "" {
		return
	}
	vlib.WriteReplay(kind, c)
	if vlib.Fail(t, res.failKey, "%v: %s", c, res.failMsg) {
		skip()
	}
}

func TestRegress(t *testing.T) {
	seqs := []seqCase{
		{Cfg: config{C: 1, B: 2, LoaderUs: 10}, Ops: []int{sOffer, sOffer, sOffer, sOffer, sQuiesce, sPoll, sQuiesce, sPoll, sQuiesce, sPoll, sPoll}},
		{Cfg: config{C: 3, B: 1, LoaderUs: 200}, Ops: []int{sOffer, sOffer, sOffer, sOffer, sOffer, sQuiesce, sOffer, sTakeT, sTakeT, sTakeT, sQuiesce, sTakeT, sCount}},
		{Cfg: config{C: 0, B: 5, LoaderUs: 10}, Ops: []int{sOffer, sOffer, sPoll, sCount, sQuiesce, sCount}},
		{Cfg: config{C: 0, B: 5, LoaderUs: 200}, Ops: []int{sOffer, sOffer, sOffer, sOffer, sOffer}, Drain: cTakeT},
		{Cfg: config{C: 0, B: 2, LoaderUs: 2000}, Ops: []int{sOffer, sOffer}, Drain: cChan},
		{Cfg: config{C: 2, B: 0, LoaderUs: 10}, Ops: []int{sOffer, sOffer, sOffer, sPoll, sOffer, sQuiesce, sOffer}},
		{Cfg: config{C: 2, Plain: true}, Ops: []int{sOffer, sOffer, sOffer, sPoll, sTakeT, sTakeT}},
	}
	for _, s := range seqs {
		vlib.S().Eval("regress")
		res := runSeq(s)
		if res.nontrivial {
			vlib.S().NonTrivial("regress", s.String())
		}
		report(t, "C07/seq", s, res, func() {})
	}
	concs := []concCase{
		{Cfg: config{C: 1, B: 50, LoaderUs: 10}, Producers: []int{60}, Consumers: []int{cTakeT}},
		{Cfg: config{C: 2, B: 5, LoaderUs: 200}, Producers: []int{40, 40}, Consumers: []int{cTake, cPoll, cChan}},
		{Cfg: config{C: 1, B: 1, LoaderUs: 10}, Producers: []int{30, 30, 30}, Consumers: []int{cPoll}},
	}
	for _, c := range concs {
		vlib.S().Eval("regress")
		res := runConc(c)
		if res.nontrivial {
			vlib.S().NonTrivial("regress", c.String())
		}
		report(t, "C07/conc", c, res, func() {})
	}
}

func TestReplayJSON(t *testing.T) {
	if raw := vlib.ReplayCase("C07/seq"); raw != nil {
		var s seqCase
		if err := json.Unmarshal(raw, &s); err != nil {
			t.Fatal(err)
		}
		for i := 0; i < 100; i++ {
			if res := runSeq(s); res.failKey != "" {
				t.Fatalf("[key=%s] run %d: %s", res.failKey, i, res.failMsg)
			}
		}
		return
	}
	if raw := vlib.ReplayCase("C07/conc"); raw != nil {
		var c concCase
		if err := json.Unmarshal(raw, &c); err != nil {
			t.Fatal(err)
		}
		for i := 0; i < 100; i++ {
			if res := runConc(c); res.failKey != "" {
				t.Fatalf("[key=%s] run %d: %s", res.failKey, i, res.failMsg)
			}
		}
		return
	}
	t.Skip("no replay case")
}

func TestSequential(t *testing.T) {
	vlib.Check(t, "sequential", 600, 10000, func(t *rapid.T) {
		s := genSeq(t)
		st := vlib.S()
		st.Eval("sequential")
		res := runSeq(s)
		if res.nontrivial {
			st.NonTrivial("sequential", s.String())
			st.Class("seq/overflow+loader")
		} else {
			st.Class("seq/other")
		}
		report(t, "C07/seq", s, res, func() { t.Skip("known") })
	})
}

func TestConcurrent(t *testing.T) {
	vlib.Check(t, "concurrent", 400, 6000, func(t *rapid.T) {
		c := genConc(t)
		st := vlib.S()
		st.Eval("concurrent")
		res := runConc(c)
		if res.nontrivial {
			st.NonTrivial("concurrent", c.String())
			st.Class("conc/overflow+loader")
		} else {
			st.Class("conc/other")
		}
		report(t, "C07/conc", c, res, func() { t.Skip("known") })
	})
}
