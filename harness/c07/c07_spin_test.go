package c07

import (
	"encoding/json"
	"fmt"
	"runtime"
	"strings"
	"sync/atomic"
	"testing"
	"time"

	fpgo "github.com/TeaEntityLab/fpGo/v2"
	"pgregory.net/rapid"

	"verifharness/vlib"
)

// Part "spinning-producer": a small bounded queue (channelCapacity C >= 1, bufferSizeMaximum B), one
// producer that offers M values and simply retries whenever it is told ErrQueueIsFull, one consumer that
// calls Take() M times. Nothing else wakes anybody. All M values arrive, in order: a consumer blocked in
// Take() on an empty channel while accepted values sit in the buffer (and the producer is told "full" for
// ever) is a stranded queue. No hooks are installed (the windows are a few instructions wide).

type spinCase struct {
	ChanCap int `json:"chanCap"`
	Buffer  int `json:"buffer"`
	M       int `json:"m"`
}

func spinProducer(q *fpgo.BufferedChannelQueue[int], m int, accepted *int64, stop *int32) {
	for v := 0; v < m; v++ {
		for q.Offer(v) != nil {
			if atomic.LoadInt32(stop) == 1 {
				return
			}
			if fewProcs {
				runtime.Gosched() // with one or two Ps a spinning loop would only burn its time slice
			}
		}
		atomic.AddInt64(accepted, 1)
	}
}

func spinConsumer(q *fpgo.BufferedChannelQueue[int], m int, got *int64, bad *int64, done chan<- struct{}) {
	defer close(done)
	for i := 0; i < m; i++ {
		v, err := q.Take()
		if err != nil {
			return
		}
		if v != i {
			atomic.StoreInt64(bad, int64(i)+1)
		}
		atomic.AddInt64(got, 1)
	}
}

var fewProcs = runtime.GOMAXPROCS(0) <= 2

func runSpin(c spinCase) (key, msg string, inconclusive bool) {
	schedMu.Lock()
	defer schedMu.Unlock()
	if fewProcs && c.M > 500 {
		c.M = 500
	}
	fpgo.SetVerifHook(nil)
	q := fpgo.NewBufferedChannelQueue[int](c.ChanCap, c.Buffer, 100).SetLoadFromPoolDuration(0)
	var accepted, got, bad int64
	var stop int32
	done := make(chan struct{})
	go spinProducer(q, c.M, &accepted, &stop)
	go spinConsumer(q, c.M, &got, &bad, done)
	defer func() {
		atomic.StoreInt32(&stop, 1)
		q.Close()
	}()
	last, lastChange := int64(-1), time.Now()
	for {
		select {
		case <-done:
			if b := atomic.LoadInt64(&bad); b != 0 {
				return "C07/fifo", fmt.Sprintf("single producer, single consumer: Take #%d returned another value than the %d-th accepted one", b-1, b-1), false
			}
			if g := atomic.LoadInt64(&got); int(g) != c.M {
				return "C07/error-value", fmt.Sprintf("Take failed on an open queue after %d values", g), false
			}
			return "", "", false
		case <-time.After(20 * time.Millisecond):
		}
		g := atomic.LoadInt64(&got)
		if g != last {
			last, lastChange = g, time.Now()
			continue
		}
		if time.Since(lastChange) > vlib.StallBudget() {
			verdict, dump := vlib.ClassifyStall([]string{"c07.spinConsumer"})
			if verdict == "blocked" && q.Count() > 0 {
				return "C07/stranded", fmt.Sprintf("the consumer is blocked in Take() after %d of %d values although Count()=%d accepted values are held (the producer, %d accepted, only hears ErrQueueIsFull)\n%s", g, c.M, q.Count(), atomic.LoadInt64(&accepted), dump), false
			}
			return "", "", true
		}
	}
}

func TestSpinningProducer(t *testing.T) {
	if vlib.Replaying() {
		raw := vlib.ReplayCase("C07/spin")
		if raw == nil {
			return
		}
		var c spinCase
		if err := json.Unmarshal(raw, &c); err != nil {
			t.Fatal(err)
		}
		for i := 0; i < 10; i++ {
			if key, msg, _ := runSpin(c); key != "" {
				t.Fatalf("[key=%s] %s", key, msg)
			}
		}
		return
	}
	vlib.Check(t, "spinning-producer", 20, 200, func(t *rapid.T) {
		c := spinCase{ChanCap: rapid.IntRange(1, 2).Draw(t, "chanCap"), Buffer: rapid.IntRange(1, 3).Draw(t, "buffer"), M: rapid.SampledFrom([]int{2000, 5000, 10000}).Draw(t, "m")}
		vlib.S().Eval("spinning-producer")
		key, msg, inc := runSpin(c)
		if inc {
			vlib.S().Class("spinning-producer/inconclusive")
			return
		}
		vlib.S().NonTrivial("spinning-producer", fmt.Sprintf("%+v", c))
		if key != "" {
			vlib.WriteReplay("C07/spin", c)
			if vlib.Fail(t, key, "%+v: %s", c, msg) {
				t.Skip("known")
			}
		}
	})
}

// Part "rendezvous-poll" (plain ChannelQueue of capacity 0): a value whose producer is parked in Put is
// "immediately available": Poll receives it (and Put returns); only when nobody offers is the queue empty.
func TestRendezvousPoll(t *testing.T) {
	if vlib.Replaying() {
		t.Skip()
	}
	for round := 0; round < vlib.Pick(200, 2000); round++ {
		vlib.S().Eval("rendezvous-poll")
		q := fpgo.NewChannelQueue[int](0)
		if v, err := q.Poll(); err != fpgo.ErrQueueIsEmpty {
			vlib.Fail(t, "C07/error-value", "Poll on an empty capacity-0 ChannelQueue returned (%d, %v), want ErrQueueIsEmpty", v, err)
			return
		}
		n := 1 + round%3
		putDone := make(chan error, n)
		for i := 0; i < n; i++ {
			go rendezvousPut(q, 100+i, putDone)
		}
		if !vlib.WaitUntil(vlib.StallBudget(), func() bool { return parkedIn("c07.rendezvousPut", "[chan send") >= n }) {
			continue
		}
		seen := map[int]bool{}
		deadline := time.Now().Add(vlib.StallBudget())
		for len(seen) < n && time.Now().Before(deadline) {
			if v, err := q.Poll(); err == nil {
				if seen[v] || v < 100 || v >= 100+n {
					vlib.Fail(t, "C07/invented", "Poll returned %d twice or out of nowhere", v)
					return
				}
				seen[v] = true
			} else if err != fpgo.ErrQueueIsEmpty {
				vlib.Fail(t, "C07/error-value", "Poll: %v", err)
				return
			}
		}
		if len(seen) < n {
			vlib.Fail(t, "C07/stranded", "capacity-0 ChannelQueue: %d producers are parked in Put, repeated Poll calls over %v obtained only %d of their values", n, vlib.StallBudget(), len(seen))
			return
		}
		for i := 0; i < n; i++ {
			select {
			case <-putDone:
			case <-time.After(vlib.StallBudget()):
				vlib.Fail(t, "C07/stranded", "Put did not return although its value was polled")
				return
			}
		}
		if round%20 == 0 {
			vlib.S().NonTrivial("rendezvous-poll", fmt.Sprintf("producers=%d", n))
		}
	}
}

func rendezvousPut(q fpgo.ChannelQueue[int], v int, done chan<- error) { done <- q.Put(v) }

// parkedIn counts the goroutines that have a frame of function fn and are in the given wait state.
func parkedIn(fn, state string) int {
	n := 0
	for _, g := range strings.Split(vlib.AllStacks(), "\n\n") {
		if strings.Contains(g, fn) {
			hdr := g
			if i := strings.Index(g, "\n"); i >= 0 {
				hdr = g[:i]
			}
			if strings.Contains(hdr, state) {
				n++
			}
		}
	}
	return n
}
