package c13

import (
	"encoding/json"
	"fmt"
	"runtime"
	"sort"
	"sync"
	"testing"
	"time"

	fpgo "github.com/TeaEntityLab/fpGo/v2"
	"pgregory.net/rapid"

	"verifharness/vlib"
)

// Part "shared-reply-channel" ("every asker gets its own answer ... no matter how many asks are in
// flight"): one caller fans several requests into ONE buffered reply channel of its own
// (AskNewByOptionsGenerics(msg, ch) + AskChannel for each), all of them in flight before it reads
// anything. The answers are f(request); the caller must find every one of them, each exactly once, on
// its channel. Several such callers run side by side on one actor.

type sharedReplyCase struct {
	Groups  []int `json:"groups"`  // requests per caller
	Slack   int   `json:"slack"`   // extra capacity of each reply channel
	Gap     int   `json:"gap"`     // yields between two submissions
	SlowUs  int   `json:"slowUs"`  // the actor answers every request after that delay
	ViaNewM bool  `json:"viaNewM"` // AskDef method constructor instead of the function
}

func (c sharedReplyCase) String() string { b, _ := json.Marshal(c); return string(b) }

func sharedAsker(actor *fpgo.ActorDef[interface{}], c sharedReplyCase, g, n int, wg *sync.WaitGroup, fail func(string, string)) {
	defer wg.Done()
	ch := make(chan int, n+c.Slack)
	var want []int
	var factory fpgo.AskDef[int, int]
	for k := 0; k < n; k++ {
		id := g*100 + k
		want = append(want, f(id))
		var a *fpgo.AskDef[int, int]
		if c.ViaNewM {
			a = factory.NewByOptions(id, ch)
		} else {
			a = fpgo.AskNewByOptionsGenerics[int, int](id, ch)
		}
		if got := a.AskChannel(actor); got != ch {
			fail("C13/shared-reply-channel", "AskChannel did not return the caller-supplied channel")
			return
		}
		for y := 0; y < c.Gap; y++ {
			runtime.Gosched()
		}
	}
	var got []int
	deadline := time.After(vlib.StallBudget())
	for len(got) < n {
		select {
		case v := <-ch:
			got = append(got, v)
		case <-deadline:
			sort.Ints(got)
			fail("C13/shared-reply-channel", fmt.Sprintf("caller %d put %d requests in flight on one reply channel (capacity %d) and found only the answers %v on it, want %v", g, n, n+c.Slack, got, want))
			return
		}
	}
	sort.Ints(got)
	sort.Ints(want)
	if fmt.Sprint(got) != fmt.Sprint(want) {
		fail("C13/shared-reply-channel", fmt.Sprintf("caller %d: answers %v, want %v", g, got, want))
	}
	select {
	case v := <-ch:
		fail("C13/shared-reply-channel", fmt.Sprintf("caller %d: surplus answer %d", g, v))
	case <-time.After(200 * time.Microsecond):
	}
}

func runSharedReply(c sharedReplyCase) (key, msg string) {
	actor := fpgo.ActorNewGenerics(func(self *fpgo.ActorDef[interface{}], m interface{}) {
		if a, ok := m.(*fpgo.AskDef[int, int]); ok {
			if c.SlowUs > 0 {
				time.Sleep(time.Duration(c.SlowUs) * time.Microsecond)
			}
			a.Reply(f(a.Message))
		}
	})
	defer actor.Close()
	var mu sync.Mutex
	fail := func(k, m string) {
		mu.Lock()
		if key == "" {
			key, msg = k, m
		}
		mu.Unlock()
	}
	var wg sync.WaitGroup
	for g, n := range c.Groups {
		wg.Add(1)
		go sharedAsker(actor, c, g, n, &wg, fail)
	}
	wg.Wait()
	return
}

func TestSharedReplyChannel(t *testing.T) {
	if vlib.Replaying() {
		raw := vlib.ReplayCase("C13/shared-reply")
		if raw == nil {
			return
		}
		var c sharedReplyCase
		if err := json.Unmarshal(raw, &c); err != nil {
			t.Fatal(err)
		}
		for i := 0; i < 20; i++ {
			if key, msg := runSharedReply(c); key != "" {
				t.Fatalf("[key=%s] %s", key, msg)
			}
		}
		return
	}
	vlib.Check(t, "shared-reply-channel", 200, 3000, func(t *rapid.T) {
		c := sharedReplyCase{Groups: rapid.SliceOfN(rapid.IntRange(1, 8), 1, 3).Draw(t, "groups"), Slack: rapid.IntRange(0, 2).Draw(t, "slack"),
			Gap: rapid.IntRange(0, 3).Draw(t, "gap"), SlowUs: rapid.SampledFrom([]int{0, 0, 50, 300}).Draw(t, "slowUs"), ViaNewM: rapid.Bool().Draw(t, "viaNewM")}
		vlib.S().Eval("shared-reply-channel")
		multi := false
		for _, n := range c.Groups {
			if n >= 2 {
				multi = true
			}
		}
		if multi {
			vlib.S().NonTrivial("shared-reply-channel", c.String())
		}
		if key, msg := runSharedReply(c); key != "" {
			vlib.WriteReplay("C13/shared-reply", c)
			if vlib.Fail(t, key, "%v: %s", c, msg) {
				t.Skip("known")
			}
		}
	})
}
