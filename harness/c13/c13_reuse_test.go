package c13

import (
	"encoding/json"
	"fmt"
	"sync"
	"testing"
	"time"

	fpgo "github.com/TeaEntityLab/fpGo/v2"
	"pgregory.net/rapid"

	"verifharness/vlib"
)

// Part "ask-families": "each AskOnce / AskOnceWithTimeout / AskChannel CALL receives exactly the value the
// actor passed to Reply for that very request" - counted per call, not per Ask object:
//   - one Ask value is asked several times in a row through AskChannel (which leaves it usable), the last
//     call through any of the three APIs; the actor answers the n-th arrival of a message m with m*1000+n;
//   - Asks are made with the method form New / NewByOptions called on a CONSTRUCTED Ask (a prototype the
//     askers share), by several goroutines at once: every derived Ask is a request of its own, with its own
//     answer, whatever else of the family is in flight.

type familyCase struct {
	Askers int  `json:"askers"`
	Reuse  int  `json:"reuse"`  // AskChannel calls on the same Ask before the final call (0 = none)
	Final  int  `json:"final"`  // 0 AskOnce, 1 AskOnceWithTimeout, 2 AskChannel
	Proto  int  `json:"proto"`  // 0 package constructor, 1 prototype.New(msg), 2 prototype.NewByOptions(msg, own channel)
	Shared bool `json:"shared"` // one prototype for all askers (else one per asker)
	Cap    int  `json:"cap"`    // actor mailbox capacity, -1 default
}

func (c familyCase) String() string { b, _ := json.Marshal(c); return string(b) }

func runFamily(c familyCase) (key, msg string, inconclusive bool) {
	seen := map[int]int{} // actor goroutine only
	effect := func(_ *fpgo.ActorDef[interface{}], m interface{}) {
		if a, ok := m.(*fpgo.AskDef[int, int]); ok {
			seen[a.Message]++
			a.Reply(a.Message*1000 + seen[a.Message])
		}
	}
	var actor *fpgo.ActorDef[interface{}]
	if c.Cap < 0 {
		actor = fpgo.ActorNewGenerics(effect)
	} else {
		actor = fpgo.ActorNewByOptionsGenerics(effect, make(chan interface{}, c.Cap), map[string]interface{}{})
	}
	defer actor.Close()
	sharedProto := fpgo.AskNewGenerics[int, int](-1)
	var mu sync.Mutex
	fail := func(k, f string, a ...any) {
		mu.Lock()
		if key == "" {
			key, msg = k, fmt.Sprintf(f, a...)
		}
		mu.Unlock()
	}
	var wg sync.WaitGroup
	start := make(chan struct{})
	for i := 0; i < c.Askers; i++ {
		wg.Add(1)
		go familyAsker(&wg, start, func() {
			m := i + 1
			proto := sharedProto
			if !c.Shared {
				proto = fpgo.AskNewGenerics[int, int](-2 - i)
			}
			var a *fpgo.AskDef[int, int]
			switch c.Proto {
			case 1:
				a = proto.New(m)
			case 2:
				a = proto.NewByOptions(m, make(chan int))
			default:
				a = fpgo.AskNewGenerics[int, int](m)
			}
			for n := 1; n <= c.Reuse; n++ {
				if got := <-a.AskChannel(actor); got != m*1000+n {
					fail("C13/wrong-reply", "asker %d, call #%d on one Ask (AskChannel): got %d, the actor replied %d to that request", m, n, got, m*1000+n)
					return
				}
			}
			want := m*1000 + c.Reuse + 1
			var got int
			var err error
			switch c.Final {
			case 0:
				got = a.AskOnce(actor)
			case 1:
				got, err = a.AskOnceWithTimeout(actor, 4*vlib.StallBudget())
			default:
				got = <-a.AskChannel(actor)
			}
			if err != nil || got != want {
				fail("C13/wrong-reply", "asker %d, call #%d on its Ask (%s): got (%d, %v), the actor replied %d to that request", m, c.Reuse+1, []string{"AskOnce", "AskOnceWithTimeout", "AskChannel"}[c.Final], got, err, want)
			}
		})
	}
	close(start)
	done := make(chan struct{})
	go func() { wg.Wait(); close(done) }()
	select {
	case <-done:
	case <-time.After(vlib.StallBudget()):
		mu.Lock()
		k := key
		mu.Unlock()
		if k != "" {
			return key, msg, false
		}
		verdict, dump := vlib.ClassifyStall([]string{"c13.familyAsker"})
		if verdict == "blocked" {
			return "C13/no-reply", "askers wait for ever although the actor is idle and answers every request it gets:\n" + dump, false
		}
		return "", "", true
	}
	return key, msg, false
}

// familyAsker is the body of the askers (its name is looked up in goroutine dumps).
func familyAsker(wg *sync.WaitGroup, start chan struct{}, body func()) {
	defer wg.Done()
	<-start
	body()
}

var familyDirected = []familyCase{
	{Askers: 1, Reuse: 3, Final: 1, Cap: -1},
	{Askers: 8, Reuse: 0, Final: 0, Proto: 1, Shared: true, Cap: -1},
	{Askers: 4, Reuse: 2, Final: 2, Proto: 2, Shared: true, Cap: 2},
}

func TestAskFamiliesRegress(t *testing.T) {
	if vlib.Replaying() {
		t.Skip()
	}
	for _, c := range familyDirected {
		vlib.S().Eval("ask-families")
		vlib.S().NonTrivial("ask-families", c.String())
		if key, msg, _ := runFamily(c); key != "" {
			vlib.WriteReplay("C13/family", c)
			vlib.Fail(t, key, "%v: %s", c, msg)
		}
	}
}

func TestAskFamiliesReplay(t *testing.T) {
	raw := vlib.ReplayCase("C13/family")
	if raw == nil {
		t.Skip("no replay case")
	}
	var c familyCase
	if err := json.Unmarshal(raw, &c); err != nil {
		t.Fatal(err)
	}
	for i := 0; i < 20; i++ {
		if key, msg, _ := runFamily(c); key != "" {
			t.Fatalf("[key=%s] %s", key, msg)
		}
	}
}

func TestAskFamilies(t *testing.T) {
	if vlib.Replaying() {
		t.Skip()
	}
	vlib.Check(t, "ask-families", 300, 5000, func(t *rapid.T) {
		c := familyCase{Askers: rapid.IntRange(1, 8).Draw(t, "askers"), Reuse: rapid.IntRange(0, 3).Draw(t, "reuse"), Final: rapid.IntRange(0, 2).Draw(t, "final"),
			Proto: rapid.IntRange(0, 2).Draw(t, "proto"), Shared: rapid.Bool().Draw(t, "shared"), Cap: rapid.SampledFrom([]int{-1, 0, 2}).Draw(t, "cap")}
		vlib.S().Eval("ask-families")
		key, msg, inc := runFamily(c)
		if inc {
			vlib.S().Class("ask-families/inconclusive")
			return
		}
		if c.Reuse > 0 || (c.Proto > 0 && c.Askers > 1) {
			vlib.S().NonTrivial("ask-families", c.String())
		}
		if key != "" {
			vlib.WriteReplay("C13/family", c)
			if vlib.Fail(t, key, "%v: %s", c, msg) {
				t.Skip("known")
			}
		}
	})
}
