package c13

import (
	"encoding/json"
	"fmt"
	"math"
	"runtime"
	"strings"
	"sync"
	"sync/atomic"
	"testing"
	"time"

	fpgo "github.com/TeaEntityLab/fpGo/v2"
	"pgregory.net/rapid"

	"verifharness/vlib"
)

func TestMain(m *testing.M) { vlib.Main(m) }

const (
	apiOnce = iota
	apiTimeout
	apiChannel
)

const (
	latImmediate = iota // reply at once (timeout, if any, is 10s: never fires)
	latDeferred         // reply when a later flush message arrives (many asks in flight); timeout 10s
	latNever            // never reply; timeout 2ms (apiTimeout only)
	latLate             // reply after the asker has returned ErrActorAskTimeout (apiTimeout only)
	latRacing           // reply timeout+delta after receipt (apiTimeout only)
)

var latNames = []string{"immediate", "deferred", "never", "late", "racing"}
var apiNames = []string{"AskOnce", "AskOnceWithTimeout", "AskChannel"}

type ask struct {
	API     int `json:"api"`
	Lat     int `json:"lat"`
	DeltaUs int `json:"deltaUs"` // racing: reply at timeout+delta
	// Ctor: 0 AskNewGenerics, 1 AskNewByOptionsGenerics(caller-supplied unbuffered reply channel),
	// 2 method form New, 3 method form NewByOptions(unbuffered)
	Ctor int `json:"ctor"`
	// ReplyBuf: capacity of the caller-supplied reply channel (Ctor 1 and 3)
	ReplyBuf int `json:"replyBuf"`
	// ReadDelayUs (AskChannel): the asker waits that long before it starts reading the reply channel
	ReadDelayUs int `json:"readDelayUs"`
	// TimeoutKind (never/late): 0 = 2ms, 1 = zero timeout, 2 = negative timeout (both expire at once)
	TimeoutKind int `json:"timeoutKind"`
	// Patience (apiTimeout with a reply that does arrive: immediate/deferred): index into patiences, the
	// timeout the asker is willing to wait; every one of them is far longer than the reply takes
	Patience int `json:"patience,omitempty"`
	// LateReplies (late): how many times the actor replies to the abandoned request (a provisional and a
	// final answer, a hedged request answered by two replicas): every one of them is discarded
	LateReplies int `json:"lateReplies,omitempty"`
	// BuildDelayUs: the Ask object is built that long before it is asked (prepared batch / retry queue);
	// the timeout budget starts with the call, not with the construction of the request
	BuildDelayUs int `json:"buildDelayUs"`
}

type scenario struct {
	Askers [][]ask `json:"askers"`
	Cap    int     `json:"cap"` // actor mailbox capacity (-1 default)
}

func (s scenario) String() string {
	var sb strings.Builder
	fmt.Fprintf(&sb, "cap=%d", s.Cap)
	for i, a := range s.Askers {
		fmt.Fprintf(&sb, " a%d=[", i)
		for j, k := range a {
			if j > 0 {
				sb.WriteByte(' ')
			}
			fmt.Fprintf(&sb, "%s/%s/c%d.%d", apiNames[k.API][3:], latNames[k.Lat], k.Ctor, k.ReplyBuf)
			if k.ReadDelayUs > 0 {
				fmt.Fprintf(&sb, "/read+%dus", k.ReadDelayUs)
			}
			if k.TimeoutKind > 0 {
				fmt.Fprintf(&sb, "/t%d", k.TimeoutKind)
			}
			if k.Patience > 0 {
				fmt.Fprintf(&sb, "/patience%d", k.Patience)
			}
			if k.BuildDelayUs > 0 {
				fmt.Fprintf(&sb, "/built-%dus", k.BuildDelayUs)
			}
			if k.Lat == latRacing {
				fmt.Fprintf(&sb, "%+d", k.DeltaUs)
			}
		}
		sb.WriteByte(']')
	}
	return sb.String()
}

func f(id int) int { return id*7 + 3 }

type lateGo struct{ id int }
type flush struct{}

type result struct {
	failKey, failMsg string
	inconclusive     string
	nontrivial       bool
}

const racingTimeout = 1500 * time.Microsecond

var patiences = []time.Duration{10 * time.Second, math.MaxInt64, math.MaxInt64 - 500*time.Microsecond, 10*time.Second + 1, time.Hour + 999*time.Microsecond, math.MaxInt64 / 2}

func genScenario(t *rapid.T) scenario {
	var s scenario
	s.Cap = rapid.SampledFrom([]int{-1, -1, 0, 4}).Draw(t, "cap")
	na := rapid.IntRange(1, 16).Draw(t, "askers")
	maxAsks := 20
	if na > 6 {
		maxAsks = 6
	}
	for i := 0; i < na; i++ {
		n := rapid.IntRange(1, maxAsks).Draw(t, "n")
		var as []ask
		for j := 0; j < n; j++ {
			var a ask
			a.API = rapid.IntRange(0, 2).Draw(t, "api")
			if a.API == apiTimeout {
				a.Lat = rapid.SampledFrom([]int{latImmediate, latDeferred, latNever, latLate, latLate, latRacing}).Draw(t, "lat")
			} else {
				a.Lat = rapid.SampledFrom([]int{latImmediate, latDeferred}).Draw(t, "lat")
			}
			if a.Lat == latRacing {
				a.DeltaUs = rapid.IntRange(-300, 300).Draw(t, "delta")
			}
			if a.API == apiTimeout && (a.Lat == latImmediate || a.Lat == latDeferred) {
				a.Patience = rapid.SampledFrom([]int{0, 0, 0, 1, 2, 3, 4, 5}).Draw(t, "patience")
			}
			a.Ctor = rapid.IntRange(0, 3).Draw(t, "ctor")
			if a.Ctor == 1 || a.Ctor == 3 {
				a.ReplyBuf = rapid.SampledFrom([]int{0, 0, 1, 2}).Draw(t, "replyBuf")
			}
			if a.API == apiChannel {
				a.ReadDelayUs = rapid.SampledFrom([]int{0, 0, 20, 200}).Draw(t, "readDelay")
			}
			if a.Lat == latLate {
				a.LateReplies = rapid.SampledFrom([]int{0, 0, 1, 2}).Draw(t, "lateReplies")
			}
			if a.Lat == latNever || a.Lat == latLate {
				a.TimeoutKind = rapid.SampledFrom([]int{0, 0, 1, 2}).Draw(t, "timeoutKind")
				if a.TimeoutKind == 0 {
					a.BuildDelayUs = rapid.SampledFrom([]int{0, 0, 1500}).Draw(t, "buildDelay")
				}
			}
			as = append(as, a)
		}
		s.Askers = append(s.Askers, as)
	}
	return s
}

func runScenario(s scenario) result {
	var res result
	// id -> ask spec
	type key struct{ asker, idx int }
	specs := map[int]ask{}
	ids := map[key]int{}
	next := 1
	for i, as := range s.Askers {
		for j, a := range as {
			specs[next] = a
			ids[key{i, j}] = next
			next++
		}
	}
	// the final probe ask (see below) is known to the actor from the start: the effect reads specs from
	// the actor's goroutine, so the map must not be written once the actor runs
	probeID := next
	specs[probeID] = ask{API: apiOnce, Lat: latImmediate}
	var actorPanic atomic.Value
	var replyStarted, replyReturned int64
	pending := map[int]*fpgo.AskDef[int, int]{} // actor goroutine only
	var deferred []*fpgo.AskDef[int, int]       // actor goroutine only
	doReply := func(a *fpgo.AskDef[int, int]) {
		atomic.AddInt64(&replyStarted, 1)
		p, st := vlib.Try(func() { a.Reply(f(a.Message)) })
		if p != nil {
			actorPanic.Store(fmt.Sprintf("Reply for request %d (%s) panicked inside the actor: %v\n%s", a.Message, latNames[specs[a.Message].Lat], p, trim(st)))
		}
		atomic.AddInt64(&replyReturned, 1)
	}
	effect := func(self *fpgo.ActorDef[interface{}], msg interface{}) {
		switch m := msg.(type) {
		case *fpgo.AskDef[int, int]:
			sp := specs[m.Message]
			switch sp.Lat {
			case latImmediate:
				doReply(m)
			case latDeferred:
				deferred = append(deferred, m)
			case latNever:
			case latLate:
				pending[m.Message] = m
			case latRacing:
				time.Sleep(racingTimeout + time.Duration(sp.DeltaUs)*time.Microsecond)
				doReply(m)
			}
		case lateGo:
			if a := pending[m.id]; a != nil {
				delete(pending, m.id)
				// the actor reads the payload only now (a slow handler): the asker's giving up does not change
				// the request the actor holds
				if a.Message != m.id {
					actorPanic.Store(fmt.Sprintf("[payload] the actor holds request %d; after the asker timed out its Message reads %d", m.id, a.Message))
					return
				}
				for n := 0; n <= specs[m.id].LateReplies; n++ {
					doReply(a)
				}
			}
		case flush:
			d := deferred
			deferred = nil
			for _, a := range d {
				doReply(a)
			}
		}
	}
	var actor *fpgo.ActorDef[interface{}]
	if s.Cap < 0 {
		actor = fpgo.ActorNewGenerics(effect)
	} else {
		actor = fpgo.ActorNewByOptionsGenerics(effect, make(chan interface{}, s.Cap), map[string]interface{}{})
	}
	defer actor.Close()

	var wg sync.WaitGroup
	var failMu sync.Mutex
	setFail := func(k, m string) {
		failMu.Lock()
		if res.failKey == "" {
			res.failKey, res.failMsg = k, m
		}
		failMu.Unlock()
	}
	var inflight, maxInflight int64
	var askersDone int32
	start := make(chan struct{})
	for i := range s.Askers {
		wg.Add(1)
		go askerLoop(i, &wg, start, setFail, func(i int) {
			{
				for j, sp := range s.Askers[i] {
					id := ids[key{i, j}]
					var a *fpgo.AskDef[int, int]
					var factory fpgo.AskDef[int, int]
					switch sp.Ctor {
					case 1:
						a = fpgo.AskNewByOptionsGenerics[int, int](id, make(chan int, sp.ReplyBuf))
					case 2:
						a = factory.New(id)
					case 3:
						a = factory.NewByOptions(id, make(chan int, sp.ReplyBuf))
					default:
						a = fpgo.AskNewGenerics[int, int](id)
					}
					if sp.BuildDelayUs > 0 {
						time.Sleep(time.Duration(sp.BuildDelayUs) * time.Microsecond)
					}
					n := atomic.AddInt64(&inflight, 1)
					for {
						m := atomic.LoadInt64(&maxInflight)
						if n <= m || atomic.CompareAndSwapInt64(&maxInflight, m, n) {
							break
						}
					}
					switch sp.API {
					case apiOnce:
						got := a.AskOnce(actor)
						if got != f(id) {
							setFail("C13/wrong-reply", fmt.Sprintf("AskOnce(%d) got %d want %d", id, got, f(id)))
						}
					case apiChannel:
						ch := a.AskChannel(actor)
						if sp.ReadDelayUs > 0 {
							time.Sleep(time.Duration(sp.ReadDelayUs) * time.Microsecond)
						}
						got := <-ch
						if got != f(id) {
							setFail("C13/wrong-reply", fmt.Sprintf("AskChannel(%d) got %d want %d", id, got, f(id)))
						}
					case apiTimeout:
						timeout := patiences[sp.Patience]
						switch sp.Lat {
						case latNever, latLate:
							timeout = []time.Duration{2 * time.Millisecond, 0, -time.Millisecond}[sp.TimeoutKind]
						case latRacing:
							timeout = racingTimeout
						}
						t0 := time.Now()
						got, err := a.AskOnceWithTimeout(actor, timeout)
						// a timeout can fire late (load) but never early: the budget starts with this call
						if el := time.Since(t0); err == fpgo.ErrActorAskTimeout && timeout > 0 && el < timeout*8/10 {
							setFail("C13/timeout-fired-early", fmt.Sprintf("AskOnceWithTimeout(%d, %v) returned ErrActorAskTimeout after only %v (request built %dus before the call)", id, timeout, el, sp.BuildDelayUs))
						}
						switch sp.Lat {
						case latImmediate, latDeferred:
							if err != nil || got != f(id) {
								setFail("C13/wrong-reply", fmt.Sprintf("AskOnceWithTimeout(%d, %v) %s = (%d,%v) want (%d,nil)", id, timeout, latNames[sp.Lat], got, err, f(id)))
							}
						case latNever, latLate:
							if err != fpgo.ErrActorAskTimeout || got != 0 {
								setFail("C13/timeout-result", fmt.Sprintf("AskOnceWithTimeout(%d, timeout kind %d) without reply = (%d,%v) want (0,ErrActorAskTimeout)", id, sp.TimeoutKind, got, err))
							}
						case latRacing:
							if !(err == nil && got == f(id)) && !(err == fpgo.ErrActorAskTimeout && got == 0) {
								setFail("C13/timeout-result", fmt.Sprintf("racing AskOnceWithTimeout(%d) = (%d,%v): neither the reply nor a clean timeout", id, got, err))
							}
						}
						if sp.Lat == latLate {
							// the asker has returned with a timeout: only now let the actor reply
							actor.Send(lateGo{id})
						}
					}
					atomic.AddInt64(&inflight, -1)
				}
			}
		})
	}
	// flusher: releases deferred replies until all askers are done
	flushDone := make(chan struct{})
	go func() {
		defer close(flushDone)
		for atomic.LoadInt32(&askersDone) == 0 {
			if p, _ := vlib.Try(func() { actor.Send(flush{}) }); p != nil {
				return
			}
			for k := 0; k < 5; k++ {
				runtime.Gosched()
			}
			time.Sleep(20 * time.Microsecond)
		}
	}()
	done := make(chan struct{})
	go func() { wg.Wait(); close(done) }()
	close(start)
	select {
	case <-done:
	case <-time.After(vlib.StallBudget()):
		verdict, dump := vlib.ClassifyStall([]string{"c13.askerLoop"})
		atomic.StoreInt32(&askersDone, 1)
		if ap := actorPanic.Load(); ap != nil {
			res.failKey, res.failMsg = actorFailKey(ap.(string)), ap.(string)
			return res
		}
		if verdict == "blocked" {
			res.failKey, res.failMsg = "C13/stuck", "askers/actor blocked for ever (started replies "+fmt.Sprint(atomic.LoadInt64(&replyStarted))+", returned "+fmt.Sprint(atomic.LoadInt64(&replyReturned))+"):\n"+dump
		} else {
			res.inconclusive = "askers slow: " + verdict
		}
		return res
	}
	atomic.StoreInt32(&askersDone, 1)
	select {
	case <-flushDone:
	case <-time.After(vlib.StallBudget()):
		// the flusher cannot hand its message to the actor: the actor no longer takes messages
		if ap := actorPanic.Load(); ap != nil {
			res.failKey, res.failMsg = actorFailKey(ap.(string)), ap.(string)
			return res
		}
		a, b := atomic.LoadInt64(&replyStarted), atomic.LoadInt64(&replyReturned)
		verdict, dump := vlib.ClassifyStall([]string{"ActorDef[...]).run"})
		if verdict == "blocked" && a != b {
			res.failKey, res.failMsg = "C13/reply-blocks", fmt.Sprintf("the actor is blocked inside Reply (%d Reply calls started, %d returned) and no longer serves messages:\n%s", a, b, dump)
		} else if verdict == "blocked" {
			res.failKey, res.failMsg = "C13/actor-blocked", "the actor no longer takes messages:\n"+dump
		} else {
			res.inconclusive = "flusher slow: " + verdict
		}
		return res
	}
	if res.failKey != "" {
		return res
	}
	// the actor must still be alive and serving: a fresh immediate ask is answered
	probe := make(chan int, 1)
	go func() {
		p, _ := vlib.Try(func() { probe <- fpgo.AskNewGenerics[int, int](probeID).AskOnce(actor) })
		if p != nil {
			probe <- -1
		}
	}()
	select {
	case got := <-probe:
		if got != f(probeID) {
			res.failKey, res.failMsg = "C13/actor-dead", fmt.Sprintf("probe ask after the storm got %d want %d", got, f(probeID))
			return res
		}
	case <-time.After(vlib.StallBudget()):
		if ap := actorPanic.Load(); ap != nil {
			res.failKey, res.failMsg = actorFailKey(ap.(string)), ap.(string)
			return res
		}
		verdict, dump := vlib.ClassifyStall([]string{"ActorDef[...]).run"})
		if verdict == "blocked" {
			res.failKey, res.failMsg = "C13/actor-blocked", fmt.Sprintf("actor no longer serves requests (replies started %d, returned %d):\n%s", atomic.LoadInt64(&replyStarted), atomic.LoadInt64(&replyReturned), dump)
		} else {
			res.inconclusive = "probe slow: " + verdict
		}
		return res
	}
	if ap := actorPanic.Load(); ap != nil {
		res.failKey, res.failMsg = actorFailKey(ap.(string)), ap.(string)
		return res
	}
	if !vlib.WaitUntil(vlib.StallBudget(), func() bool {
		return atomic.LoadInt64(&replyStarted) == atomic.LoadInt64(&replyReturned)
	}) {
		a, b := atomic.LoadInt64(&replyStarted), atomic.LoadInt64(&replyReturned)
		verdict, dump := vlib.ClassifyStall([]string{"ActorDef"})
		if verdict == "blocked" {
			res.failKey, res.failMsg = "C13/reply-blocks", fmt.Sprintf("%d Reply calls started but only %d returned:\n%s", a, b, dump)
		} else {
			res.inconclusive = "reply slow: " + verdict
		}
		return res
	}
	hasLate := false
	for _, as := range s.Askers {
		for _, a := range as {
			if a.Lat == latLate || a.Lat == latRacing {
				hasLate = true
			}
		}
	}
	res.nontrivial = atomic.LoadInt64(&maxInflight) >= 2 || hasLate
	return res
}

// askerLoop is a named function so that the stall classifier can find asker goroutines.
func askerLoop(i int, wg *sync.WaitGroup, start chan struct{}, setFail func(k, m string), body func(i int)) {
	defer wg.Done()
	<-start
	p, st := vlib.Try(func() { body(i) })
	if p != nil {
		setFail("C13/asker-panic", fmt.Sprintf("asker %d panicked: %v\n%s", i, p, trim(st)))
	}
}

func trim(stack string) string {
	var keep []string
	for _, l := range strings.Split(stack, "\n") {
		if strings.Contains(l, "fpGo") {
			keep = append(keep, strings.TrimSpace(l))
		}
		if len(keep) >= 6 {
			break
		}
	}
	return strings.Join(keep, "\n")
}

func report(t vlib.TB, s scenario, res result, skip func()) {
	if res.inconclusive != "" {
		vlib.S().Note("inconclusive case (%s): %v", res.inconclusive, s)
		vlib.S().Class("inconclusive")
		return
	}
	if res.failKey == "" {
		return
	}
	vlib.WriteReplay("C13/scenario", s)
	if vlib.Fail(t, res.failKey, "%v: %s", s, res.failMsg) {
		skip()
	}
}

func TestRegress(t *testing.T) {
	cases := []scenario{
		// DESIGN §4 #15: reply produced after the timeout
		{Cap: -1, Askers: [][]ask{{{API: apiTimeout, Lat: latLate}}}},
		{Cap: -1, Askers: [][]ask{{{API: apiTimeout, Lat: latLate}, {API: apiOnce, Lat: latImmediate}}, {{API: apiChannel, Lat: latDeferred}}}},
		{Cap: 4, Askers: [][]ask{{{API: apiTimeout, Lat: latRacing, DeltaUs: 50}}, {{API: apiTimeout, Lat: latRacing, DeltaUs: -50}}}},
		{Cap: -1, Askers: [][]ask{{{API: apiTimeout, Lat: latNever}, {API: apiTimeout, Lat: latImmediate}}}},
		{Cap: -1, Askers: [][]ask{{{API: apiTimeout, Lat: latNever, BuildDelayUs: 1500}, {API: apiTimeout, Lat: latLate, BuildDelayUs: 1500, Ctor: 1}}}},
		{Cap: -1, Askers: [][]ask{{{API: apiChannel, Lat: latImmediate, Ctor: 1, ReadDelayUs: 200}, {API: apiChannel, Lat: latImmediate, Ctor: 3, ReadDelayUs: 20}}}},
		{Cap: -1, Askers: [][]ask{{{API: apiTimeout, Lat: latNever, TimeoutKind: 1}, {API: apiTimeout, Lat: latLate, TimeoutKind: 2}, {API: apiOnce, Lat: latImmediate, Ctor: 2}, {API: apiTimeout, Lat: latImmediate, Patience: 1}, {API: apiTimeout, Lat: latDeferred, Patience: 2}}}},
	}
	for _, s := range cases {
		for rep := 0; rep < 5; rep++ {
			vlib.S().Eval("regress")
			res := runScenario(s)
			if res.nontrivial {
				vlib.S().NonTrivial("regress", s.String())
			}
			report(t, s, res, func() {})
		}
	}
}

func TestReplayJSON(t *testing.T) {
	raw := vlib.ReplayCase("C13/scenario")
	if raw == nil {
		t.Skip("no replay case")
	}
	var s scenario
	if err := json.Unmarshal(raw, &s); err != nil {
		t.Fatal(err)
	}
	for i := 0; i < 100; i++ {
		if res := runScenario(s); res.failKey != "" {
			t.Fatalf("[key=%s] run %d: %s", res.failKey, i, res.failMsg)
		}
	}
}

func TestAsk(t *testing.T) {
	vlib.Check(t, "ask", 500, 6000, func(t *rapid.T) {
		s := genScenario(t)
		st := vlib.S()
		st.Eval("ask")
		res := runScenario(s)
		if res.nontrivial {
			st.NonTrivial("ask", s.String())
			st.Class("nontrivial")
		} else {
			st.Class("trivial")
		}
		for _, as := range s.Askers {
			for _, a := range as {
				st.Class("lat=" + latNames[a.Lat])
			}
		}
		report(t, s, res, func() { t.Skip("known") })
	})
}

// TestNearDeadline: "all reply latencies relative to the timeout ... shortly before/after it". On one
// actor, a request whose reply lands within a few microseconds of its deadline is followed by an
// unrelated request with a comfortable timeout that is answered at once: whatever the first one did
// to timers / channels, the second must get its own reply with a nil error.
func TestNearDeadline(t *testing.T) {
	if vlib.Replaying() {
		t.Skip()
	}
	rounds := vlib.Pick(500, 5000)
	const timeout = 1200 * time.Microsecond
	var delay int64 // microseconds the actor waits before replying to "near" requests
	actor := fpgo.ActorNewGenerics(func(_ *fpgo.ActorDef[interface{}], msg interface{}) {
		a, ok := msg.(*fpgo.AskDef[int, int])
		if !ok {
			return
		}
		if a.Message < 0 {
			// spin (not sleep) so that the reply lands close to the asker's deadline
			until := time.Now().Add(time.Duration(atomic.LoadInt64(&delay)) * time.Microsecond)
			for time.Now().Before(until) {
			}
		}
		vlib.Try(func() { a.Reply(f(a.Message)) })
	})
	defer actor.Close()
	for r := 0; r < rounds; r++ {
		// sweep the reply moment across [timeout-60us, timeout+20us]
		atomic.StoreInt64(&delay, int64(timeout/time.Microsecond)-60+int64(r%81))
		id := -(r + 1)
		got, err := fpgo.AskNewGenerics[int, int](id).AskOnceWithTimeout(actor, timeout)
		vlib.S().Eval("near-deadline")
		if !(err == nil && got == f(id)) && !(err == fpgo.ErrActorAskTimeout && got == 0) {
			vlib.Fail(t, "C13/timeout-result", "near-deadline ask %d = (%d,%v): neither its reply nor a clean timeout", id, got, err)
			return
		}
		// the unrelated, comfortable request
		t0 := time.Now()
		got2, err2 := fpgo.AskNewGenerics[int, int](r+1).AskOnceWithTimeout(actor, 2*time.Second)
		if err2 != nil || got2 != f(r+1) {
			vlib.WriteReplay("C13/near-deadline", map[string]any{"round": r, "delayUs": atomic.LoadInt64(&delay)})
			vlib.Fail(t, "C13/later-ask-disturbed", "round %d: after a request answered %dus into a %v timeout, the next request (timeout 2s, answered at once) returned (%d,%v) after %v, want (%d,nil)", r, atomic.LoadInt64(&delay), timeout, got2, err2, time.Since(t0), f(r+1))
			return
		}
		if r%100 == 0 {
			vlib.S().NonTrivial("near-deadline", fmt.Sprintf("round %d reply at %dus of a %v timeout", r, atomic.LoadInt64(&delay), timeout))
		}
	}
}

func actorFailKey(msg string) string {
	if strings.HasPrefix(msg, "[payload]") {
		return "C13/payload-changed"
	}
	return "C13/reply-after-timeout-panic"
}
