package c13

import (
	"errors"
	"fmt"
	"testing"
	"time"

	fpgo "github.com/TeaEntityLab/fpGo/v2"
	"pgregory.net/rapid"

	"verifharness/vlib"
)

// Part "close-while-serving": "each AskOnce receives exactly the value the actor passed to Reply for
// that very request" - also when the actor closes itself (or is closed) while it serves the request and
// still answers it. The asker had to wait for the hand-over because the actor was busy with an earlier
// message.

type closeServeCase struct {
	API        int  `json:"api"`        // 0 AskOnce, 1 AskOnceWithTimeout(generous), 2 AskChannel
	CloseFirst bool `json:"closeFirst"` // Close before Reply (otherwise right after it)
	BusyUs     int  `json:"busyUs"`     // how long the earlier message keeps the actor busy
	Cap        int  `json:"cap"`        // -1 unbuffered default
}

func runCloseServe(c closeServeCase) (key, msg string, inconclusive bool) {
	effect := func(self *fpgo.ActorDef[interface{}], m interface{}) {
		switch v := m.(type) {
		case time.Duration:
			time.Sleep(v)
		case *fpgo.AskDef[int, int]:
			if c.CloseFirst {
				self.Close()
			}
			v.Reply(f(v.Message))
			if !c.CloseFirst {
				self.Close()
			}
		}
	}
	var actor *fpgo.ActorDef[interface{}]
	if c.Cap < 0 {
		actor = fpgo.ActorNewGenerics(effect)
	} else {
		actor = fpgo.ActorNewByOptionsGenerics(effect, make(chan interface{}, c.Cap), map[string]interface{}{})
	}
	actor.Send(time.Duration(c.BusyUs) * time.Microsecond)
	type out struct {
		v   int
		err error
	}
	res := make(chan out, 1)
	go func() {
		a := fpgo.AskNewGenerics[int, int](41)
		switch c.API {
		case 0:
			res <- out{v: a.AskOnce(actor)}
		case 1:
			v, err := a.AskOnceWithTimeout(actor, vlib.StallBudget()*4)
			res <- out{v, err}
		default:
			res <- out{v: <-a.AskChannel(actor)}
		}
	}()
	select {
	case o := <-res:
		if o.err != nil || o.v != f(41) {
			return "C13/close-while-serving", fmt.Sprintf("the actor closed itself while serving the request and replied %d; the asker got (%d, %v)", f(41), o.v, o.err), false
		}
	case <-time.After(vlib.StallBudget()):
		verdict, dump := vlib.ClassifyStall([]string{"c13.runCloseServe"})
		if verdict == "blocked" {
			return "C13/close-while-serving", "the asker never got the reply of an actor that closed itself while serving the request:\n" + dump, false
		}
		return "", "", true
	}
	return "", "", false
}

func TestCloseWhileServing(t *testing.T) {
	if vlib.Replaying() {
		t.Skip()
	}
	vlib.Check(t, "close-while-serving", 300, 5000, func(t *rapid.T) {
		c := closeServeCase{API: rapid.IntRange(0, 2).Draw(t, "api"), CloseFirst: rapid.Bool().Draw(t, "closeFirst"),
			BusyUs: rapid.SampledFrom([]int{0, 50, 300, 1000}).Draw(t, "busyUs"), Cap: rapid.SampledFrom([]int{-1, 0, 1, 4}).Draw(t, "cap")}
		vlib.S().Eval("close-while-serving")
		key, msg, inc := runCloseServe(c)
		if inc {
			return
		}
		vlib.S().NonTrivial("close-while-serving", fmt.Sprintf("%+v", c))
		if key != "" {
			vlib.WriteReplay("C13/close-serve", c)
			if vlib.Fail(t, key, "%+v: %s", c, msg) {
				t.Skip("known")
			}
		}
	})
}

// Part "reply-values": the reply is a value of the caller's type R, whatever it is - an error value, a
// nil error, a nil interface, a pointer: AskOnceWithTimeout returns that very value and a nil error when
// the actor answers in time, AskOnce and AskChannel return that very value.

type valErr struct{ code int }

func (v *valErr) Error() string { return fmt.Sprintf("validation failed: %d", v.code) }

func TestReplyValues(t *testing.T) {
	if vlib.Replaying() {
		t.Skip()
	}
	sentinel := errors.New("sentinel")
	ve := &valErr{7}
	x := 5
	replies := []interface{}{sentinel, ve, error(nil), nil, &x, 42, "text", fmt.Errorf("wrapped: %w", sentinel), (*valErr)(nil)}
	n := 0
	for ri, r := range replies {
		for api := 0; api < 3; api++ {
			for typ := 0; typ < 2; typ++ {
				r, ri, api, typ := r, ri, api, typ
				if typ == 0 {
					if _, isErr := r.(error); !isErr && r != nil {
						continue // R = error: only error values and nil
					}
				}
				vlib.S().Eval("reply-values")
				vlib.S().NonTrivial("reply-values", fmt.Sprintf("reply#%d api=%d R=%d", ri, api, typ))
				n++
				var got interface{}
				var err error
				p, st := vlib.Try(func() {
					if typ == 0 {
						var want error
						if r != nil {
							want = r.(error)
						}
						actor := fpgo.ActorNewGenerics(func(self *fpgo.ActorDef[interface{}], m interface{}) {
							if a, ok := m.(*fpgo.AskDef[int, error]); ok {
								a.Reply(want)
							}
						})
						defer actor.Close()
						a := fpgo.AskNewGenerics[int, error](1)
						switch api {
						case 0:
							got = a.AskOnce(actor)
						case 1:
							got, err = a.AskOnceWithTimeout(actor, vlib.StallBudget())
						default:
							got = <-a.AskChannel(actor)
						}
						return
					}
					actor := fpgo.ActorNewGenerics(func(self *fpgo.ActorDef[interface{}], m interface{}) {
						if a, ok := m.(*fpgo.AskDef[int, interface{}]); ok {
							a.Reply(r)
						}
					})
					defer actor.Close()
					a := fpgo.AskNewGenerics[int, interface{}](1)
					switch api {
					case 0:
						got = a.AskOnce(actor)
					case 1:
						got, err = a.AskOnceWithTimeout(actor, vlib.StallBudget())
					default:
						got = <-a.AskChannel(actor)
					}
				})
				key, msg := "", ""
				switch {
				case p != nil:
					key, msg = "C13/reply-values/panic", fmt.Sprintf("%v\n%s", p, st)
				case err != nil:
					key, msg = "C13/reply-values/error", fmt.Sprintf("the actor answered in time with the value %v (%T); AskOnceWithTimeout returned the error %v", r, r, err)
				case got != r:
					key, msg = "C13/reply-values/value", fmt.Sprintf("the actor replied %v (%T), the asker got %v (%T)", r, r, got, got)
				}
				if key != "" {
					vlib.Fail(t, key, "reply #%d, api %d, R kind %d: %s", ri, api, typ, msg)
				}
			}
		}
	}
	vlib.S().Exhaustive("reply-values")
}
