package c20

import (
	"fmt"
	"regexp"
	"strings"
	"testing"

	fpgo "github.com/TeaEntityLab/fpGo/v2"
	"pgregory.net/rapid"

	"verifharness/vlib"
)

// Part "regex": the Regex pattern accepts a value iff it is a string that the regular expression
// matches (Go regexp semantics: unanchored search unless the expression anchors itself). Expressions
// are generated around a literal - plain, anchored at either or both ends (^ $ \A \z), with escaped
// metacharacters, classes, repetition, alternation, flags - and probed with the literal itself, the
// literal inside a longer string, prefixes, the empty string and non-strings. In a list
// [Regex(e1), Regex(e2), Otherwise] the first accepting pattern answers.

var regexLiterals = []string{"world", "v1.2", "abc", "a", "cc", "x+y", "été", ""}

func genRegex(t *rapid.T, label string) (expr, lit string) {
	lit = rapid.SampledFrom(regexLiterals).Draw(t, label+"lit")
	body := regexp.QuoteMeta(lit)
	switch rapid.IntRange(0, 7).Draw(t, label+"shape") {
	case 0: // plain literal
	case 1:
		body = "(?:" + body + ")+"
	case 2:
		body = body + "|zzz"
	case 3:
		body = "(?i)" + body
	case 4:
		if lit != "" {
			body = "[" + regexp.QuoteMeta(lit[:1]) + "]" + regexp.QuoteMeta(lit[1:])
		}
	case 5:
		body = body + "?"
	default:
	}
	pre := rapid.SampledFrom([]string{"", "", "^", `\A`}).Draw(t, label+"pre")
	post := rapid.SampledFrom([]string{"", "", "$", `\z`}).Draw(t, label+"post")
	return pre + body + post, lit
}

func genRegexProbe(t *rapid.T, lits []string) interface{} {
	lit := rapid.SampledFrom(lits).Draw(t, "plit")
	switch rapid.IntRange(0, 9).Draw(t, "pshape") {
	case 0:
		return lit
	case 1:
		return "hello " + lit + "!"
	case 2:
		return lit + " tail"
	case 3:
		return "head " + lit
	case 4:
		return lit + lit
	case 5:
		if len(lit) > 1 {
			return lit[:len(lit)-1]
		}
		return ""
	case 6:
		return ""
	case 7:
		return lit + "\n"
	case 8:
		return rapid.SampledFrom([]interface{}{nil, 42, []byte(lit), &lit, 3.5}).Draw(t, "nonstring")
	}
	return "zzz"
}

func TestRegexPatterns(t *testing.T) {
	if vlib.Replaying() {
		t.Skip()
	}
	vlib.Check(t, "regex", 6000, 60000, func(t *rapid.T) {
		n := rapid.IntRange(1, 2).Draw(t, "patterns")
		var exprs, lits []string
		for i := 0; i < n; i++ {
			e, l := genRegex(t, fmt.Sprintf("e%d", i))
			exprs, lits = append(exprs, e), append(lits, l)
		}
		probe := genRegexProbe(t, lits)
		api := rapid.IntRange(0, 1).Draw(t, "api")
		withOtherwise := rapid.IntRange(0, 3).Draw(t, "otherwise") > 0
		vlib.S().Eval("regex")
		// reference
		want := -1
		s, isString := probe.(string)
		for i, e := range exprs {
			if isString {
				if m, err := regexp.MatchString(e, s); err == nil && m {
					want = i
					break
				}
			}
		}
		if want < 0 && withOtherwise {
			want = n
		}
		desc := fmt.Sprintf("Regex%q otherwise=%v probe=%#v api=%d", exprs, withOtherwise, probe, api)
		if isString && want >= 0 && want < n {
			e := exprs[want]
			anchored := strings.HasPrefix(e, "^") || strings.HasPrefix(e, `\A`) || strings.HasSuffix(e, "$") || strings.HasSuffix(e, `\z`)
			if anchored || s != lits[want] {
				vlib.S().NonTrivial("regex", desc)
			}
		}
		got := -2
		var pats []fpgo.Pattern
		for i, e := range exprs {
			i := i
			pats = append(pats, fpgo.InCaseOfRegex(e, func(interface{}) interface{} { got = i; return i }))
		}
		if withOtherwise {
			pats = append(pats, fpgo.Otherwise(func(interface{}) interface{} { got = n; return n }))
		}
		var res interface{}
		p, st := vlib.Try(func() {
			if api == 1 {
				res = fpgo.DefPattern(pats...).MatchFor(probe)
			} else {
				res = fpgo.Either(probe, pats...)
			}
		})
		key, msg := "", ""
		switch {
		case p != nil && want >= 0:
			key, msg = "C20/regex/panic-though-accepted", fmt.Sprintf("%s panicked (%v) although pattern #%d accepts the value\n%s", desc, p, want, firstFrames(st))
		case p != nil:
			if got != -2 {
				key, msg = "C20/regex/effect-before-panic", fmt.Sprintf("%s ran the effect of #%d and then panicked", desc, got)
			}
		case want < 0:
			key, msg = "C20/regex/accepted", fmt.Sprintf("%s answered through pattern #%d although no pattern accepts the value (must panic)", desc, got)
		case got != want:
			key, msg = "C20/regex/wrong-pattern", fmt.Sprintf("%s answered through pattern #%d, the first accepting pattern is #%d", desc, got, want)
		case res != want:
			key, msg = "C20/regex/result", fmt.Sprintf("%s returned %v, the effect returned %d", desc, res, want)
		}
		if key != "" {
			vlib.WriteReplay("C20/regex", map[string]any{"exprs": exprs, "probe": fmt.Sprintf("%#v", probe), "api": api, "otherwise": withOtherwise})
			if vlib.Fail(t, key, "%s", msg) {
				t.Skip("known")
			}
		}
	})
}
