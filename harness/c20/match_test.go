package c20

import (
	"fmt"
	"math"
	"reflect"
	"regexp"
	"strconv"
	"strings"
	"sync"
	"testing"

	fpgo "github.com/TeaEntityLab/fpGo/v2"
	"pgregory.net/rapid"

	"verifharness/vlib"
)

// ---------------------------------------------------------------- three-valued reference
//
// yes / no are fixed by the property statement; unspec marks corners the
// statement does not fix (typed nil pointers and nil slices against Kind /
// NilType / product kinds): both answers are accepted there.

type tri int

const (
	no tri = iota
	yes
	unspec
)

func triOf(b bool) tri {
	if b {
		return yes
	}
	return no
}

func triAnd(a, b tri) tri {
	if a == no || b == no {
		return no
	}
	if a == yes && b == yes {
		return yes
	}
	return unspec
}

func triOr(a, b tri) tri {
	if a == yes || b == yes {
		return yes
	}
	if a == no && b == no {
		return no
	}
	return unspec
}

// ---------------------------------------------------------------- composite types

type ctSpec struct {
	Form    string         `json:"form"` // "nil", "prod", "sum"
	Kinds   []reflect.Kind `json:"kinds,omitempty"`
	Members []ctSpec       `json:"members,omitempty"`
}

func (c ctSpec) String() string {
	switch c.Form {
	case "nil":
		return "NilType"
	case "prod":
		parts := make([]string, len(c.Kinds))
		for i, k := range c.Kinds {
			parts[i] = k.String()
		}
		return "Product(" + strings.Join(parts, ",") + ")"
	}
	parts := make([]string, len(c.Members))
	for i, m := range c.Members {
		parts[i] = m.String()
	}
	return "Sum(" + strings.Join(parts, "|") + ")"
}

func (c ctSpec) build() fpgo.CompType {
	switch c.Form {
	case "nil":
		return fpgo.NilType
	case "prod":
		return fpgo.DefProduct(c.Kinds...)
	}
	ms := make([]fpgo.CompType, len(c.Members))
	for i, m := range c.Members {
		ms[i] = m.build()
	}
	return fpgo.DefSum(ms...)
}

// nilness of a single value: untyped nil is nil; typed nil pointers and nil
// slices are left open.
func isNilTri(v interface{}) tri {
	if v == nil {
		return yes
	}
	rv := reflect.ValueOf(v)
	switch rv.Kind() {
	case reflect.Ptr, reflect.Slice, reflect.Map, reflect.Func, reflect.Chan:
		if rv.IsNil() {
			return unspec
		}
	}
	return no
}

// hasKindTri: "v is a (non-nil) value of reflect kind k".
func hasKindTri(v interface{}, k reflect.Kind) tri {
	if v == nil {
		return no
	}
	rv := reflect.ValueOf(v)
	if rv.Kind() != k {
		return no
	}
	// a nil slice / map / func / chan IS a value of that kind (reflect.ValueOf(v).Kind() says so); only for a
	// typed nil POINTER the statement leaves open whether it counts as a value or as nil
	if rv.Kind() == reflect.Ptr && rv.IsNil() {
		return unspec
	}
	return yes
}

// refMatches is the reference for CompType.Matches: NilType matches exactly one
// nil value, a product type matches a tuple of the same length whose values
// have the listed kinds, a sum type matches what any member matches.
func refMatches(c ctSpec, vals []interface{}) tri {
	switch c.Form {
	case "nil":
		if len(vals) != 1 {
			return no
		}
		return isNilTri(vals[0])
	case "prod":
		if len(vals) != len(c.Kinds) {
			return no
		}
		r := yes
		for i, v := range vals {
			r = triAnd(r, hasKindTri(v, c.Kinds[i]))
		}
		return r
	}
	r := no
	for _, m := range c.Members {
		r = triOr(r, refMatches(m, vals))
	}
	return r
}

// ---------------------------------------------------------------- probes and parameter tables

type S struct{ A int }

type probe struct {
	name   string
	val    interface{}
	class  string
	cdObjs []interface{} // objects of a CompData / *CompData probe
	cd     int           // 0: not CompData, 1: CompData value, 2: non-nil *CompData
}

var (
	ptrS   = &S{1}
	intVal = 5
	ptrInt = &intVal

	sumABN  = ctSpec{Form: "sum", Members: []ctSpec{{Form: "nil"}, {Form: "prod", Kinds: []reflect.Kind{reflect.Int, reflect.String}}, {Form: "prod", Kinds: []reflect.Kind{reflect.String, reflect.String}}}}
	ctTable = []ctSpec{
		sumABN,
		{Form: "prod", Kinds: []reflect.Kind{reflect.Int}},
		{Form: "prod", Kinds: []reflect.Kind{reflect.Struct}},
		{Form: "prod", Kinds: []reflect.Kind{reflect.Ptr}},
		{Form: "sum", Members: []ctSpec{{Form: "nil"}}},
		{Form: "prod", Kinds: []reflect.Kind{reflect.String}},
		{Form: "prod", Kinds: []reflect.Kind{}},
		{Form: "sum", Members: []ctSpec{{Form: "prod", Kinds: []reflect.Kind{reflect.Slice}}, {Form: "prod", Kinds: []reflect.Kind{reflect.Float64}}}},
		{Form: "sum", Members: []ctSpec{{Form: "prod", Kinds: []reflect.Kind{reflect.String}}, {Form: "sum", Members: []ctSpec{{Form: "prod", Kinds: []reflect.Kind{reflect.Int}}, {Form: "nil"}}}}},
		{Form: "prod", Kinds: []reflect.Kind{reflect.Int, reflect.Int}},
	}
	kindTable  = []reflect.Kind{reflect.Int, reflect.String, reflect.Struct, reflect.Ptr, reflect.Float64, reflect.Slice, reflect.Bool, reflect.Map}
	equalTable = []interface{}{42, "ccc", nil, S{1}, ptrS, "world", 3.5, true, 0.0, (*S)(nil)}
	regexTable = []string{"c+", "^w", "^$", "T$", ".*"}

	patternKinds = []string{"Kind", "Equal", "Regex", "SumType", "Otherwise"}

	probesOnce  sync.Once
	probeTable  []probe
	probeErrors []string
)

func paramCount(kind string) int {
	switch kind {
	case "Kind":
		return len(kindTable)
	case "Equal":
		return len(equalTable)
	case "Regex":
		return len(regexTable)
	case "SumType":
		return len(ctTable)
	}
	return 1
}

// probes builds the probe table once; CompData probes come from NewCompData
// (their construction is itself checked: a nil result is reported).
func probes() []probe {
	probesOnce.Do(func() {
		add := func(name, class string, v interface{}) {
			probeTable = append(probeTable, probe{name: name, val: v, class: class})
		}
		add("42", "int", 42)
		add("0", "int", 0)
		add("3.5", "float", 3.5)
		// two values that are == and still distinguishable: the effect receives the matched value, not the
		// pattern's own
		add("0.0", "float", 0.0)
		add("-0.0", "float", math.Copysign(0, -1))
		add(`"ccc"`, "string", "ccc")
		add(`"world"`, "string", "world")
		add(`"TEST"`, "string", "TEST")
		add(`""`, "string", "")
		add("nil", "nil", nil)
		add("(*S)(nil)", "typed-nil-ptr", (*S)(nil))
		add("(*int)(nil)", "typed-nil-ptr", (*int)(nil))
		add("(*CompData)(nil)", "typed-nil-ptr", (*fpgo.CompData)(nil))
		add("S{1}", "struct", S{1})
		add("S{2}", "struct", S{2})
		add("&S{1}", "ptr-to-struct", ptrS)
		add("&S{1}'", "ptr-to-struct", &S{1})
		add("&int", "ptr-to-int", ptrInt)
		add("[]int{1,2}", "slice", []int{1, 2})
		add("[]int(nil)", "nil-slice", []int(nil))
		add("map[string]int(nil)", "nil-map", map[string]int(nil))
		add("map[string]int{}", "map", map[string]int{})
		add("true", "bool", true)
		cds := []struct {
			ct   ctSpec
			objs []interface{}
		}{
			{sumABN, []interface{}{"1", "1"}},
			{sumABN, []interface{}{7, "x"}},
			{sumABN, []interface{}{nil}},
			{ctTable[1], []interface{}{42}},
			{ctTable[6], []interface{}{}},
			{ctTable[2], []interface{}{S{1}}},
		}
		for _, c := range cds {
			var cd *fpgo.CompData
			p, _ := vlib.Try(func() { cd = fpgo.NewCompData(c.ct.build(), c.objs...) })
			if p != nil || cd == nil {
				probeErrors = append(probeErrors, fmt.Sprintf("NewCompData(%s, %v) = nil/panic (%v) although the values match", c.ct, c.objs, p))
				continue
			}
			name := fmt.Sprintf("CompData%v", c.objs)
			probeTable = append(probeTable, probe{name: "&" + name, val: cd, class: "*CompData", cdObjs: c.objs, cd: 2})
			probeTable = append(probeTable, probe{name: name, val: *cd, class: "CompData", cdObjs: c.objs, cd: 1})
		}
	})
	return probeTable
}

// ---------------------------------------------------------------- cases

type patSpec struct {
	Kind  string `json:"kind"`  // Kind, Equal, Regex, SumType, Otherwise
	Param int    `json:"param"` // index into the parameter table of that kind
}

func (p patSpec) String() string {
	switch p.Kind {
	case "Kind":
		return "Kind(" + kindTable[p.Param].String() + ")"
	case "Equal":
		if p.Param == 4 {
			return "Equal(&S{1})"
		}
		return fmt.Sprintf("Equal(%#v)", equalTable[p.Param])
	case "Regex":
		return fmt.Sprintf("Regex(%q)", regexTable[p.Param])
	case "SumType":
		return "SumType(" + ctTable[p.Param].String() + ")"
	}
	return "Otherwise"
}

type matchCase struct {
	Pats  []patSpec `json:"patterns"`
	Probe int       `json:"probe"` // index into probes()
	API   int       `json:"api"`   // 0 Either, 1 DefPattern(...).MatchFor
	// NilEffect: the effects return nil (an effect used for its side effect, or identity on a nil
	// probe): a nil result is still the result of the accepting pattern, not "no match"
	NilEffect bool `json:"nilEffect,omitempty"`
	// PanicEffect: the effects panic (with a value of their own). The effect of the first accepting pattern
	// is still the only one applied, and what comes out is that effect's panic - not a later pattern's
	// result, not "Cannot match" (a pattern did accept)
	PanicEffect bool `json:"panicEffect,omitempty"`
	// readable rendering, ignored on replay
	Readable string `json:"readable,omitempty"`
}

// compact is the canonical (cheap) description used for distinct counting.
func (c matchCase) compact() string {
	b := make([]byte, 0, 48)
	b = append(b, "match|api"...)
	b = strconv.AppendInt(b, int64(c.API), 10)
	if c.NilEffect {
		b = append(b, "|nilEffect"...)
	}
	if c.PanicEffect {
		b = append(b, "|panicEffect"...)
	}
	b = append(b, '|')
	if c.Probe >= 0 && c.Probe < len(probes()) {
		b = append(b, probes()[c.Probe].name...)
	}
	for _, p := range c.Pats {
		b = append(b, '|')
		b = append(b, p.Kind...)
		b = strconv.AppendInt(b, int64(p.Param), 10)
	}
	return string(b)
}

func (c matchCase) String() string {
	parts := make([]string, len(c.Pats))
	for i, p := range c.Pats {
		parts[i] = p.String()
	}
	api := "Either"
	if c.API == 1 {
		api = "MatchFor"
	}
	name := "?"
	if c.Probe < len(probes()) {
		name = probes()[c.Probe].name
	}
	return fmt.Sprintf("%s(%s; %s)", api, name, strings.Join(parts, ", "))
}

// accepts is the reference written from the statement. seen is the value the
// pattern tests; cd tells whether the probe is a CompData (objs = its objects).
func accepts(p patSpec, seen interface{}, isCD bool, objs []interface{}) tri {
	switch p.Kind {
	case "Kind":
		return hasKindTri(seen, kindTable[p.Param])
	case "Equal":
		// comparable pattern values only: == never panics here.
		if equalTable[p.Param] == seen {
			return yes
		}
		// "equality" is Go's == on the two values: another pointer to an equal struct, or a
		// struct holding a different pointer to an equal target, is NOT equal (a DeepEqual
		// based test would let the equality pattern swallow values meant for later patterns).
		if equalTable[p.Param] == nil && isNilTri(seen) == unspec {
			return unspec // Equal(nil) against a typed nil pointer / nil slice
		}
		return no
	case "Regex":
		s, ok := seen.(string)
		if !ok {
			return no
		}
		m, err := regexp.MatchString(regexTable[p.Param], s)
		return triOf(err == nil && m)
	case "SumType":
		if isCD {
			return refMatches(ctTable[p.Param], objs)
		}
		return refMatches(ctTable[p.Param], []interface{}{seen})
	case "Otherwise":
		return yes
	}
	panic("harness: unknown pattern kind " + p.Kind)
}

// acceptable returns the set of admissible outcomes: index of the pattern whose
// effect runs, or -1 for "panics". For a non-nil *CompData probe the patterns
// may test the dereferenced CompData (documented intent) or the pointer.
func acceptable(c matchCase, pr probe) map[int]bool {
	set := map[int]bool{}
	views := []interface{}{pr.val}
	if pr.cd == 2 {
		views = []interface{}{*(pr.val.(*fpgo.CompData)), pr.val}
	}
	for _, seen := range views {
		matched := false
		for i, p := range c.Pats {
			a := accepts(p, seen, pr.cd != 0, pr.cdObjs)
			if a == yes {
				set[i] = true
				matched = true
				break
			}
			if a == unspec {
				set[i] = true
			}
		}
		if !matched {
			set[-1] = true
		}
	}
	return set
}

// sameArg: did the effect receive the probe value?
func sameArg(arg interface{}, pr probe) bool {
	if pr.cd == 2 {
		if p, ok := arg.(*fpgo.CompData); ok {
			return p == pr.val.(*fpgo.CompData)
		}
		if v, ok := arg.(fpgo.CompData); ok {
			return reflect.DeepEqual(v, *(pr.val.(*fpgo.CompData)))
		}
		return false
	}
	if arg == nil || pr.val == nil {
		return arg == nil && pr.val == nil
	}
	ta, tb := reflect.TypeOf(arg), reflect.TypeOf(pr.val)
	if ta != tb {
		return false
	}
	if fa, ok := arg.(float64); ok {
		return math.Float64bits(fa) == math.Float64bits(pr.val.(float64))
	}
	if ta.Comparable() {
		return arg == pr.val
	}
	return reflect.DeepEqual(arg, pr.val)
}

func outcomeName(c matchCase, i int) string {
	if i < 0 {
		return "panic"
	}
	return fmt.Sprintf("#%d %s", i, c.Pats[i])
}

type effectPanic struct{ idx int }

func runMatch(c matchCase) (o outcome) {
	ps := probes()
	if c.Probe < 0 || c.Probe >= len(ps) {
		o.failKey, o.failMsg = "C20/harness", fmt.Sprintf("probe index %d out of range", c.Probe)
		return
	}
	pr := ps[c.Probe]
	o.desc = c.compact()
	ok := acceptable(c, pr)
	// non-trivial: >= 2 patterns and either an earlier non-accepting pattern
	// precedes the accepting one, or >= 2 patterns accept the value
	if len(c.Pats) >= 2 {
		first, accepting := -1, 0
		for i, p := range c.Pats {
			seen := pr.val
			if pr.cd == 2 {
				seen = *(pr.val.(*fpgo.CompData))
			}
			if accepts(p, seen, pr.cd != 0, pr.cdObjs) == yes {
				if first < 0 {
					first = i
				}
				accepting++
			}
		}
		o.nontrivial = first > 0 || accepting >= 2
	}

	type call struct {
		idx int
		arg interface{}
	}
	var calls []call
	pats := make([]fpgo.Pattern, len(c.Pats))
	for i, p := range c.Pats {
		i := i
		eff := func(x interface{}) interface{} {
			calls = append(calls, call{i, x})
			if c.PanicEffect {
				panic(effectPanic{i})
			}
			if c.NilEffect {
				return nil
			}
			return fmt.Sprintf("effect-%d", i)
		}
		switch p.Kind {
		case "Kind":
			pats[i] = fpgo.InCaseOfKind(kindTable[p.Param], eff)
		case "Equal":
			pats[i] = fpgo.InCaseOfEqual(equalTable[p.Param], eff)
		case "Regex":
			pats[i] = fpgo.InCaseOfRegex(regexTable[p.Param], eff)
		case "SumType":
			pats[i] = fpgo.InCaseOfSumType(ctTable[p.Param].build(), eff)
		default:
			pats[i] = fpgo.Otherwise(eff)
		}
	}
	var res interface{}
	pv, stack := vlib.Try(func() {
		if c.API == 1 {
			res = fpgo.DefPattern(pats...).MatchFor(pr.val)
		} else {
			res = fpgo.Either(pr.val, pats...)
		}
	})
	fail := func(key, f string, a ...any) {
		if o.failKey == "" {
			o.failKey, o.failMsg = "C20/match/"+key, fmt.Sprintf(f, a...)
		}
	}
	wantNames := func() string {
		var parts []string
		for i := -1; i < len(c.Pats); i++ {
			if ok[i] {
				parts = append(parts, outcomeName(c, i))
			}
		}
		return strings.Join(parts, " or ")
	}
	if ep, isEffect := pv.(effectPanic); c.PanicEffect && (isEffect || len(calls) > 0) {
		switch {
		case len(calls) != 1:
			fail("effects-run", "%s with panicking effects ran %d effects (%v), want exactly one: the first accepting pattern's", c, len(calls), calls)
		case !ok[calls[0].idx]:
			fail("wrong-pattern:"+c.Pats[calls[0].idx].Kind+":probe="+pr.class, "%s answered through %s, want %s", c, outcomeName(c, calls[0].idx), wantNames())
		case !isEffect || ep.idx != calls[0].idx:
			fail("effect-panic-lost", "%s: the effect of %s (the first accepting pattern) panicked; the call came back with result %v / panic %v instead of that panic", c, outcomeName(c, calls[0].idx), res, pv)
		case !sameArg(calls[0].arg, pr):
			fail("effect-argument:probe="+pr.class, "%s: the effect of %s received %#v (%T), want the matched value %s", c, outcomeName(c, calls[0].idx), calls[0].arg, calls[0].arg, pr.name)
		}
		return
	}
	if pv != nil {
		if !ok[-1] {
			fail("panic-though-accepted:probe="+pr.class, "%s panicked (%v) although the first accepting pattern is %s\n%s", c, pv, wantNames(), firstFrames(stack))
		} else if len(calls) != 0 {
			fail("effect-before-panic", "%s panicked (%v) after running effects %v", c, pv, calls)
		}
		return
	}
	if len(calls) != 1 {
		fail("effects-run", "%s ran %d effects (%v), want exactly one", c, len(calls), calls)
		return
	}
	got := calls[0].idx
	if !ok[got] {
		if ok[-1] && len(ok) == 1 {
			fail("accepted-by:"+c.Pats[got].Kind+":probe="+pr.class, "%s answered through %s although no pattern accepts the value (must panic)", c, outcomeName(c, got))
		} else {
			fail("wrong-pattern:"+c.Pats[got].Kind+":probe="+pr.class, "%s answered through %s, want %s", c, outcomeName(c, got), wantNames())
		}
		return
	}
	if c.NilEffect {
		if res != nil {
			fail("result", "%s returned %v, the effect of %s returned nil", c, res, outcomeName(c, got))
			return
		}
	} else if res != fmt.Sprintf("effect-%d", got) {
		fail("result", "%s returned %v, want the result of %s", c, res, outcomeName(c, got))
		return
	}
	if !sameArg(calls[0].arg, pr) {
		fail("effect-argument:probe="+pr.class, "%s: the effect of %s received %#v (%T), want the matched value %s", c, outcomeName(c, got), calls[0].arg, calls[0].arg, pr.name)
	}
	return
}

func probeIndex(name string) int {
	for i, p := range probes() {
		if p.name == name {
			return i
		}
	}
	return -1
}

func matchRegressions() []matchCase {
	return []matchCase{
		// DESIGN §4 #24: SumType pattern panicked on a struct that is not a CompData
		{Pats: []patSpec{{"SumType", 0}, {"Otherwise", 0}}, Probe: probeIndex("S{1}")},
		{Pats: []patSpec{{"SumType", 2}}, Probe: probeIndex("S{1}"), API: 1},
		// DESIGN §4 #25: MatchFor dereferenced every pointer to a struct
		{Pats: []patSpec{{"Kind", 3}, {"Otherwise", 0}}, Probe: probeIndex("&S{1}")},
		{Pats: []patSpec{{"Equal", 4}}, Probe: probeIndex("&S{1}"), API: 1},
		{Pats: []patSpec{{"Otherwise", 0}}, Probe: probeIndex("&S{1}")},
		// the repo's example order, first-match with several accepting patterns
		{Pats: []patSpec{{"Kind", 0}, {"Equal", 5}, {"SumType", 0}, {"Regex", 0}, {"Otherwise", 0}}, Probe: probeIndex(`"ccc"`)},
		{Pats: []patSpec{{"Otherwise", 0}, {"Kind", 0}}, Probe: probeIndex("42")},
		{Pats: []patSpec{{"Regex", 0}, {"Equal", 1}, {"Kind", 1}}, Probe: probeIndex(`"ccc"`), API: 1},
		{Pats: []patSpec{{"Kind", 0}, {"SumType", 0}}, Probe: probeIndex(`&CompData[1 1]`)},
		{Pats: []patSpec{{"Kind", 0}, {"Regex", 4}}, Probe: probeIndex("3.5")},
		{Pats: nil, Probe: probeIndex("42")},
	}
}

// ---------------------------------------------------------------- exhaustive pattern-order matrix

// orderedLists: every permutation of every subset of the five pattern kinds
// (1+5+20+60+120+120 = 326 lists), shortest first.
func orderedLists() [][]string {
	var out [][]string
	var rec func(cur []string, used int, want int)
	rec = func(cur []string, used int, want int) {
		if len(cur) == want {
			out = append(out, append([]string{}, cur...))
			return
		}
		for i, k := range patternKinds {
			if used&(1<<i) != 0 {
				continue
			}
			rec(append(cur, k), used|1<<i, want)
		}
	}
	for n := 0; n <= len(patternKinds); n++ {
		rec(nil, 0, n)
	}
	return out
}

// configs: parameter choices (kind, equal value, regex, composite type) for the
// five patterns. Quick: a fixed 12-row covering table; thorough: 126 rows.
func paramConfigs() [][4]int {
	if vlib.Thorough() {
		// all (kind, equal) pairs and all (composite type, kind) pairs, the other
		// two parameters cycling
		var out [][4]int
		for k := range kindTable {
			for e := range equalTable {
				out = append(out, [4]int{k, e, (k + e) % len(regexTable), (3*k + e) % len(ctTable)})
			}
		}
		for c := range ctTable {
			for k := range kindTable {
				out = append(out, [4]int{k, (c + k) % len(equalTable), c % len(regexTable), c})
			}
		}
		return out
	}
	// every parameter value appears at least once; rows chosen so that several
	// patterns accept the same probe (e.g. Kind(String)+Equal("ccc")+Regex(c+))
	return [][4]int{
		{0, 0, 0, 0}, {1, 1, 0, 5}, {2, 3, 1, 2}, {3, 4, 2, 3}, {4, 6, 3, 7}, {5, 2, 4, 4}, {6, 7, 4, 6},
		{1, 5, 1, 8}, {0, 2, 2, 1}, {3, 3, 3, 9}, {2, 4, 0, 0}, {1, 0, 4, 5}, {7, 2, 0, 4}, {5, 2, 1, 0}, {4, 8, 3, 7}, {3, 9, 2, 3}, {0, 9, 4, 4},
	}
}

func TestMatchExhaustive(t *testing.T) {
	if vlib.Replaying() {
		t.Skip()
	}
	s := vlib.S()
	ps := probes()
	for _, e := range probeErrors {
		vlib.Fail(t, "C20/NewCompData/rejects-matching", "%s", e)
	}
	lists := orderedLists()
	cfgs := paramConfigs()
	shard, shards := vlib.Shard(), vlib.Shards()
	type found struct {
		c matchCase
		o outcome
	}
	var failures []found
	seenKeys := map[string]bool{}
	var idx int64
	for _, list := range lists {
		for ci, cfg := range cfgs {
			// a list without parameterised patterns needs one configuration only
			if ci > 0 && !usesParams(list) {
				break
			}
			idx++
			if int(idx%int64(shards)) != shard {
				continue
			}
			pats := make([]patSpec, len(list))
			for i, k := range list {
				pats[i] = patSpec{Kind: k}
				switch k {
				case "Kind":
					pats[i].Param = cfg[0]
				case "Equal":
					pats[i].Param = cfg[1]
				case "Regex":
					pats[i].Param = cfg[2]
				case "SumType":
					pats[i].Param = cfg[3]
				}
			}
			for pi := range ps {
				c := matchCase{Pats: pats, Probe: pi, API: int(idx+int64(pi)) % 2, NilEffect: (idx+int64(pi))%5 == 3, PanicEffect: (idx+int64(pi))%7 == 4}
				s.Eval("match-exhaustive")
				o := runMatch(c)
				if o.nontrivial {
					s.NonTrivial("match-exhaustive", o.desc)
				}
				if o.failKey != "" && !seenKeys[o.failKey] {
					seenKeys[o.failKey] = true
					if vlib.Known(o.failKey) {
						continue
					}
					failures = append(failures, found{c, o})
				}
			}
		}
	}
	s.Exhaustive("match-exhaustive")
	s.Note("match-exhaustive: %d ordered pattern lists (all permutations of all subsets of 5 kinds) x %d parameter configurations x %d probes (shard %d of %d)",
		len(lists), len(cfgs), len(ps), shard, shards)
	if len(failures) > 0 {
		// shortest-first enumeration: the first failure per root-cause key is minimal in list length
		var all []string
		for _, f := range failures {
			all = append(all, fmt.Sprintf("[key=%s] %s", f.o.failKey, f.o.failMsg))
		}
		first := failures[0]
		first.c.Readable = first.c.String()
		vlib.WriteReplay("C20/match", first.c)
		vlib.Fail(t, first.o.failKey, "%d distinct failures:\n%s", len(failures), strings.Join(all, "\n"))
	}
}

func usesParams(list []string) bool {
	for _, k := range list {
		if k != "Otherwise" {
			return true
		}
	}
	return false
}

// ---------------------------------------------------------------- random pattern lists (rapid, also the fuzz body)

func propMatch(t *rapid.T) {
	n := rapid.IntRange(0, 7).Draw(t, "npatterns")
	c := matchCase{API: rapid.IntRange(0, 1).Draw(t, "api"), NilEffect: rapid.IntRange(0, 3).Draw(t, "nilEffect") == 0, PanicEffect: rapid.IntRange(0, 4).Draw(t, "panicEffect") == 0}
	for i := 0; i < n; i++ {
		k := rapid.SampledFrom(patternKinds).Draw(t, "kind")
		c.Pats = append(c.Pats, patSpec{Kind: k, Param: rapid.IntRange(0, paramCount(k)-1).Draw(t, "param")})
	}
	c.Probe = rapid.IntRange(0, len(probes())-1).Draw(t, "probe")
	o := runMatch(c)
	s := vlib.S()
	s.Eval("match-random")
	s.Class("match-random/probe=" + probes()[c.Probe].class)
	if o.nontrivial {
		s.NonTrivial("match-random", o.desc)
		s.Class("match-random/nontrivial")
	} else {
		s.Class("match-random/trivial")
	}
	if o.failKey != "" {
		if vlib.Fail(t, o.failKey, "%s", o.failMsg) {
			t.Skip("known finding")
		}
	}
}

func TestMatchRandom(t *testing.T) {
	vlib.Check(t, "match-random", 15000, 150000, propMatch)
}

func FuzzMatch(f *testing.F) {
	f.Add([]byte{})
	f.Add([]byte{2, 0, 0, 0, 0, 0, 0, 0, 3, 0, 0, 0, 0, 0, 0, 0, 4, 0, 0, 0, 0, 0, 0, 0})
	f.Fuzz(rapid.MakeFuzz(propMatch))
}

// ---------------------------------------------------------------- NewCompData iff reference Matches

var valuePool = []struct {
	name string
	v    interface{}
}{
	{"1", 1}, {`"a"`, "a"}, {"2.5", 2.5}, {"nil", nil}, {"S{1}", S{1}}, {"&S{1}", ptrS}, {"[]int{1}", []int{1}}, {"true", true},
	{"(*S)(nil)", (*S)(nil)}, {"[]int(nil)", []int(nil)},
}

var compKinds = []reflect.Kind{reflect.Int, reflect.String, reflect.Float64, reflect.Struct, reflect.Ptr, reflect.Slice, reflect.Bool}

func kindValue(t *rapid.T, k reflect.Kind) int {
	// index into valuePool of a (non-nil) value of kind k
	for i, v := range valuePool {
		if v.v != nil && reflect.ValueOf(v.v).Kind() == k && isNilTri(v.v) == no {
			return i
		}
	}
	return 0
}

func genCT(t *rapid.T, depth int) ctSpec {
	form := rapid.IntRange(0, 5).Draw(t, "form")
	switch {
	case form == 0:
		return ctSpec{Form: "nil"}
	case form <= 3 || depth >= 2:
		n := rapid.IntRange(0, 3).Draw(t, "nkinds")
		c := ctSpec{Form: "prod", Kinds: []reflect.Kind{}}
		for i := 0; i < n; i++ {
			c.Kinds = append(c.Kinds, rapid.SampledFrom(compKinds).Draw(t, "k"))
		}
		return c
	}
	n := rapid.IntRange(0, 3).Draw(t, "nmembers")
	c := ctSpec{Form: "sum"}
	for i := 0; i < n; i++ {
		c.Members = append(c.Members, genCT(t, depth+1))
	}
	return c
}

// products lists the product members reachable in a type (to construct matching tuples).
func products(c ctSpec, out *[]ctSpec) {
	switch c.Form {
	case "prod":
		*out = append(*out, c)
	case "sum":
		for _, m := range c.Members {
			products(m, out)
		}
	}
}

func propNewCompData(t *rapid.T) {
	ct := genCT(t, 0)
	var idx []int
	var prods []ctSpec
	products(ct, &prods)
	if len(prods) > 0 && rapid.Bool().Draw(t, "constructed") {
		// construct a tuple for one product member, then maybe spoil one position
		p := rapid.SampledFrom(prods).Draw(t, "member")
		for _, k := range p.Kinds {
			idx = append(idx, kindValue(t, k))
		}
		if len(idx) > 0 && rapid.IntRange(0, 2).Draw(t, "spoil") == 0 {
			idx[rapid.IntRange(0, len(idx)-1).Draw(t, "pos")] = rapid.IntRange(0, len(valuePool)-1).Draw(t, "other")
		}
	} else {
		n := rapid.IntRange(0, 3).Draw(t, "nvals")
		for i := 0; i < n; i++ {
			idx = append(idx, rapid.IntRange(0, len(valuePool)-1).Draw(t, "val"))
		}
	}
	vals := make([]interface{}, len(idx))
	names := make([]string, len(idx))
	for i, k := range idx {
		vals[i], names[i] = valuePool[k].v, valuePool[k].name
	}
	want := refMatches(ct, vals)
	s := vlib.S()
	s.Eval("newcompdata")
	desc := fmt.Sprintf("NewCompData(%s; %s)", ct, strings.Join(names, ", "))
	switch want {
	case yes:
		s.Class("newcompdata/matches")
		s.NonTrivial("newcompdata", desc)
	case no:
		s.Class("newcompdata/does-not-match")
		if len(prods) > 0 || ct.Form == "nil" {
			s.NonTrivial("newcompdata", desc)
		}
	default:
		s.Class("newcompdata/unspecified")
		return
	}
	var cd *fpgo.CompData
	var direct bool
	built := ct.build()
	if p, stack := vlib.Try(func() {
		cd = fpgo.NewCompData(built, vals...)
		direct = built.Matches(vals...)
	}); p != nil {
		if vlib.Fail(t, "C20/NewCompData/panic", "%s panicked: %v\n%s", desc, p, firstFrames(stack)) {
			t.Skip("known finding")
		}
	}
	if (cd != nil) != (want == yes) {
		key := "C20/NewCompData/rejects-matching"
		if cd != nil {
			key = "C20/NewCompData/accepts-non-matching"
		}
		if vlib.Fail(t, key, "%s returned %v, reference Matches = %v", desc, cd, want == yes) {
			t.Skip("known finding")
		}
	}
	if direct != (want == yes) {
		if vlib.Fail(t, "C20/CompType.Matches", "%s.Matches(%s) = %v, reference %v", ct, strings.Join(names, ", "), direct, want == yes) {
			t.Skip("known finding")
		}
	}
	if cd != nil {
		// the value is usable: it matches its own type, and a SumType pattern on it
		// runs its effect with the CompData (or the pointer)
		var res interface{}
		var arg interface{}
		var matches bool
		if p, stack := vlib.Try(func() {
			matches = fpgo.MatchCompTypeRef(built, cd) && fpgo.MatchCompType(built, *cd)
			res = fpgo.Either(cd, fpgo.InCaseOfSumType(built, func(x interface{}) interface{} { arg = x; return "hit" }))
		}); p != nil {
			if vlib.Fail(t, "C20/NewCompData/unusable", "%s: value panics when matched: %v\n%s", desc, p, firstFrames(stack)) {
				t.Skip("known finding")
			}
		}
		pr := probe{val: cd, cd: 2}
		if !matches || res != "hit" || !sameArg(arg, pr) {
			if vlib.Fail(t, "C20/NewCompData/unusable", "%s: MatchCompType=%v, Either(SumType)=%v with argument %#v", desc, matches, res, arg) {
				t.Skip("known finding")
			}
		}
	}
}

func TestNewCompData(t *testing.T) {
	vlib.Check(t, "newcompdata", 8000, 80000, propNewCompData)
}
