package c20

import (
	"fmt"
	"runtime"
	"sync"
	"sync/atomic"
	"testing"
	"time"

	fpgo "github.com/TeaEntityLab/fpGo/v2"
	"pgregory.net/rapid"

	"verifharness/vlib"
)

// ---------------------------------------------------------------- CurryDef under goroutines
//
// G goroutines make their Calls in order; every Call carries a block of
// tagged integers (tag = goroutine*1000 + call*10 + position, unique). The
// curried function records the argument list it sees and returns a unique
// token. Everything (blocks, yields, the MarkDone moment) is fixed before the
// goroutines start; only the Go scheduler decides the interleaving.

type curryScenario struct {
	Blocks [][][]int `json:"blocks"` // [goroutine][call] -> block
	// Mode 0: never done. Mode 1: the function itself calls MarkDone during its
	// M-th invocation. Mode 2: another goroutine calls MarkDone once M Calls have returned.
	Mode   int   `json:"mode"`
	M      int   `json:"m"`
	Yields []int `json:"yields"` // per invocation: runtime.Gosched() count inside the function (3 = also sleep 20µs)
	Iface  bool  `json:"iface"`  // CurryNew (interface{}) instead of CurryNewGenerics[int,int]
}

type curryAPI interface {
	call(args []int)
	markDone()
	isDone() bool
	result() (int, bool)
}

type curryInt struct{ c *fpgo.CurryDef[int, int] }

// call hands the block over as a spread slice with spare capacity and then reuses (overwrites) its
// buffer, as a caller filling one scratch buffer per Call does: the curry must have taken its own
// copy of the arguments, and must not write into the caller's spare capacity.
func (w curryInt) call(args []int) {
	buf := make([]int, len(args), len(args)+4)
	copy(buf, args)
	ext := buf[:cap(buf)]
	for i := len(args); i < len(ext); i++ {
		ext[i] = -555
	}
	w.c.Call(buf...)
	for i := len(args); i < len(ext); i++ {
		if ext[i] != -555 {
			atomic.AddInt64(&callerBufferWritten, 1)
		}
	}
	for i := range buf {
		buf[i] = -777
	}
}

// callerBufferWritten counts writes of the library into a caller's argument buffer beyond its length.
var callerBufferWritten int64

func (w curryInt) markDone()           { w.c.MarkDone() }
func (w curryInt) isDone() bool        { return w.c.IsDone() }
func (w curryInt) result() (int, bool) { return w.c.Result(), true }

type curryIface struct {
	c *fpgo.CurryDef[interface{}, interface{}]
}

func (w curryIface) call(args []int) {
	xs := make([]interface{}, len(args), len(args)+4)
	for i, a := range args {
		xs[i] = a
	}
	w.c.Call(xs...)
	for i := range xs {
		xs[i] = -777 // the caller reuses its buffer
	}
}
func (w curryIface) markDone()    { w.c.MarkDone() }
func (w curryIface) isDone() bool { return w.c.IsDone() }
func (w curryIface) result() (int, bool) {
	r := w.c.Result()
	if r == nil {
		return 0, true // zero value: no invocation yet
	}
	i, ok := r.(int)
	return i, ok
}

func (sc curryScenario) total() int {
	n := 0
	for _, g := range sc.Blocks {
		n += len(g)
	}
	return n
}

func (sc curryScenario) shape() string {
	s := fmt.Sprintf("curry|iface=%v|mode=%d|m=%d|", sc.Iface, sc.Mode, sc.M)
	for _, g := range sc.Blocks {
		s += "["
		for _, b := range g {
			s += fmt.Sprint(len(b))
		}
		s += "]"
	}
	return s + fmt.Sprint(sc.Yields)
}

const tokenBase = 100000

func runCurry(sc curryScenario) (o outcome) {
	total := sc.total()
	o.desc = sc.shape()
	o.nontrivial = len(sc.Blocks) >= 2
	fail := func(kind, f string, a ...any) {
		if o.failKey == "" {
			o.failKey, o.failMsg = "C20/CurryDef/"+kind, fmt.Sprintf(f, a...)
		}
	}

	var mu sync.Mutex
	var records [][]int // argument list seen by the i-th invocation (by entry order)
	var api curryAPI
	body := func(markDone func(), args []int) int {
		cp := append([]int{}, args...)
		mu.Lock()
		seq := len(records)
		records = append(records, cp)
		mu.Unlock()
		if seq < len(sc.Yields) {
			for y := 0; y < sc.Yields[seq]; y++ {
				runtime.Gosched()
			}
			if sc.Yields[seq] >= 3 {
				time.Sleep(20 * time.Microsecond)
			}
		}
		if sc.Mode == 1 && seq+1 == sc.M {
			markDone()
		}
		return tokenBase + seq
	}
	if sc.Iface {
		c := fpgo.CurryNew(func(c *fpgo.CurryDef[interface{}, interface{}], args ...interface{}) interface{} {
			ints := make([]int, len(args))
			for i, a := range args {
				ints[i], _ = a.(int)
			}
			// a step function may look at what has been computed so far (a running total does)
			_, _ = c.Result(), c.IsDone()
			return body(c.MarkDone, ints)
		})
		api = curryIface{c}
	} else {
		c := fpgo.CurryNewGenerics(func(c *fpgo.CurryDef[int, int], args ...int) int {
			_, _ = c.Result(), c.IsDone()
			return body(c.MarkDone, args)
		})
		api = curryInt{c}
	}

	if api.isDone() {
		fail("done-flag", "a fresh CurryDef reports IsDone")
		return
	}

	var completed int64 // Calls that have returned
	var completedAtMark int64 = -1
	start := make(chan struct{})
	var wg sync.WaitGroup
	var panics sync.Map
	for g := range sc.Blocks {
		g := g
		wg.Add(1)
		go func() {
			defer wg.Done()
			<-start
			for _, b := range sc.Blocks[g] {
				if p, stack := vlib.Try(func() { api.call(b) }); p != nil {
					panics.Store(g, fmt.Sprintf("%v\n%s", p, firstFrames(stack)))
					return
				}
				atomic.AddInt64(&completed, 1)
			}
		}()
	}
	allDone := make(chan struct{})
	var markWG sync.WaitGroup
	if sc.Mode == 2 {
		markWG.Add(1)
		go func() {
			defer markWG.Done()
			<-start
			for atomic.LoadInt64(&completed) < int64(sc.M) {
				select {
				case <-allDone:
					atomic.StoreInt64(&completedAtMark, atomic.LoadInt64(&completed))
					api.markDone()
					return
				default:
					runtime.Gosched()
				}
			}
			atomic.StoreInt64(&completedAtMark, atomic.LoadInt64(&completed))
			api.markDone()
		}()
	}
	close(start)
	{
		// the Calls run the step function and nothing else: if they do not come back, the CurryDef has wedged itself
		callsBack := make(chan struct{})
		go func() { wg.Wait(); close(callsBack) }()
		select {
		case <-callsBack:
		case <-time.After(2 * vlib.StallBudget()):
			if verdict, dump := vlib.ClassifyStall([]string{"c20.runCurry"}); verdict == "blocked" {
				fail("deadlock", "%d of the Calls have returned, the others (and with them the CurryDef) are blocked for good; the step function reads Result()/IsDone() and otherwise only counts:\n%s", atomic.LoadInt64(&completed), dump)
				return
			}
			<-callsBack
		}
	}
	close(allDone)
	markWG.Wait()

	panics.Range(func(k, v any) bool {
		fail("panic", "Call panicked in goroutine %v: %v", k, v)
		return false
	})
	if o.failKey != "" {
		return
	}

	mu.Lock()
	recs := append([][]int(nil), records...)
	mu.Unlock()

	// (1) number of invocations
	switch sc.Mode {
	case 0:
		if len(recs) != total {
			fail("invocations", "%d Calls, never done: function invoked %d times", total, len(recs))
		}
	case 1:
		want := total
		if sc.M < want {
			want = sc.M
		}
		if len(recs) != want {
			fail("invocations", "%d Calls, MarkDone inside invocation %d: function invoked %d times, want %d", total, sc.M, len(recs), want)
		}
	case 2:
		lo := int(atomic.LoadInt64(&completedAtMark))
		if len(recs) < lo || len(recs) > total {
			fail("invocations", "%d Calls, %d had returned before MarkDone was called: function invoked %d times", total, lo, len(recs))
		}
	}
	if o.failKey != "" {
		return
	}

	// (2) every invocation saw the previous argument list extended by exactly
	// one whole block, each goroutine's blocks in its own call order
	next := make([]int, len(sc.Blocks))
	var prev []int
	empties := 0 // invocations that saw no new argument (Calls with an empty argument list), not yet attributed
	for i, r := range recs {
		if len(r) < len(prev) || !equalInts(r[:len(prev)], prev) {
			fail("accumulation", "invocation %d saw %v, which does not extend the previous argument list %v", i+1, r, prev)
			return
		}
		if len(r) == len(prev) {
			empties++
			continue
		}
		ext := r[len(prev):]
		g := ext[0] / 1000
		// the empty Calls this caller made before this one have been invoked before it
		for g >= 0 && g < len(sc.Blocks) && next[g] < len(sc.Blocks[g]) && len(sc.Blocks[g][next[g]]) == 0 {
			if empties == 0 {
				fail("accumulation", "invocation %d saw %v: caller %d's earlier Call() without arguments was not invoked before it", i+1, r, g)
				return
			}
			empties--
			next[g]++
		}
		if g < 0 || g >= len(sc.Blocks) || next[g] >= len(sc.Blocks[g]) || !equalInts(ext, sc.Blocks[g][next[g]]) {
			fail("accumulation", "invocation %d saw %v: the new part %v is not the next whole block of one caller (previous list %v)", i+1, r, ext, prev)
			return
		}
		next[g]++
		prev = r
	}
	for g := range sc.Blocks {
		for next[g] < len(sc.Blocks[g]) && len(sc.Blocks[g][next[g]]) == 0 && empties > 0 {
			empties--
			next[g]++
		}
	}
	if empties != 0 {
		fail("accumulation", "%d invocations saw no new argument although no Call() without arguments was due", empties)
		return
	}

	// (3) Result is the value of the last invocation (the one that saw all
	// arguments accumulated so far)
	res, ok := api.result()
	if !ok {
		fail("result", "Result() is not a value returned by the function")
		return
	}
	wantRes := 0
	if len(recs) > 0 {
		wantRes = tokenBase + len(recs) - 1
	}
	if res != wantRes {
		fail("result", "after %d invocations Result()=%d, want the last invocation's value %d", len(recs), res, wantRes)
		return
	}

	// (4) after MarkDone: frozen
	wantDone := sc.Mode == 2 || (sc.Mode == 1 && sc.M <= total)
	if api.isDone() != wantDone {
		fail("done-flag", "IsDone()=%v, want %v (mode %d, m=%d, %d Calls)", api.isDone(), wantDone, sc.Mode, sc.M, total)
		return
	}
	if !wantDone {
		api.markDone()
		if !api.isDone() {
			fail("done-flag", "IsDone() false after MarkDone")
			return
		}
	}
	if p, stack := vlib.Try(func() { api.call([]int{999999}) }); p != nil {
		fail("panic", "Call after MarkDone panicked: %v\n%s", p, firstFrames(stack))
		return
	}
	mu.Lock()
	after := len(records)
	mu.Unlock()
	if after != len(recs) {
		fail("frozen", "a Call after MarkDone invoked the function again")
		return
	}
	if res2, _ := api.result(); res2 != wantRes {
		fail("frozen", "Result() changed from %d to %d by a Call after MarkDone", wantRes, res2)
	}
	return
}

var curryRegressions = []curryScenario{
	// the repo's own example shape: three Calls from one goroutine, done inside the third
	{Blocks: [][][]int{{{0}, {10}, {20}}}, Mode: 1, M: 3, Iface: true},
	{Blocks: [][][]int{{{0, 1}, {10}}, {{1000}, {1010, 1011, 1012}}, {{2000}}}, Mode: 0, Yields: []int{2, 0, 3, 1, 0}},
	{Blocks: [][][]int{{{0}, {10}}, {{1000}, {1010}}}, Mode: 1, M: 2, Yields: []int{1, 3}},
	{Blocks: [][][]int{{{0}, {10}}, {{1000}, {1010}}, {{2000}, {2010}}}, Mode: 2, M: 3, Yields: []int{0, 1, 2, 3}},
}

func genCurry(t *rapid.T) curryScenario {
	g := rapid.IntRange(1, 8).Draw(t, "goroutines")
	sc := curryScenario{Mode: rapid.IntRange(0, 2).Draw(t, "mode"), Iface: rapid.IntRange(0, 3).Draw(t, "iface") == 0}
	for i := 0; i < g; i++ {
		calls := rapid.IntRange(1, 5).Draw(t, "calls")
		var blocks [][]int
		for c := 0; c < calls; c++ {
			n := rapid.SampledFrom([]int{0, 1, 1, 2, 3}).Draw(t, "blocklen") // 0: a Call with no arguments is a Call
			b := make([]int, n)
			for p := range b {
				b[p] = i*1000 + c*10 + p
			}
			blocks = append(blocks, b)
		}
		sc.Blocks = append(sc.Blocks, blocks)
	}
	total := sc.total()
	if sc.Mode != 0 {
		sc.M = rapid.IntRange(1, total+1).Draw(t, "m")
	}
	sc.Yields = make([]int, total)
	for i := range sc.Yields {
		sc.Yields[i] = rapid.IntRange(0, 3).Draw(t, "yield")
	}
	return sc
}

func propCurry(t *rapid.T) {
	sc := genCurry(t) // everything is drawn before any goroutine starts
	o := runCurry(sc)
	s := vlib.S()
	s.Eval("currydef")
	s.Class(fmt.Sprintf("currydef/goroutines=%d", len(sc.Blocks)))
	s.Class(fmt.Sprintf("currydef/mode=%d", sc.Mode))
	if o.nontrivial {
		s.NonTrivial("currydef", o.desc)
	}
	if o.failKey == "" && atomic.SwapInt64(&callerBufferWritten, 0) > 0 {
		o.failKey, o.failMsg = "C20/CurryDef/caller-buffer", "Call(buf...) wrote into the caller's argument buffer beyond its length"
	}
	if o.failKey != "" {
		vlib.WriteReplay("C20/curry", sc)
		if vlib.Fail(t, o.failKey, "%s: %s", sc.shape(), o.failMsg) {
			t.Skip("known finding")
		}
	}
}

func TestCurryDef(t *testing.T) {
	vlib.Check(t, "currydef", 400, 4000, propCurry)
}
