package c20

import (
	"errors"
	"fmt"
	"testing"

	fpgo "github.com/TeaEntityLab/fpGo/v2"
	"pgregory.net/rapid"

	"verifharness/vlib"
)

// ---------------------------------------------------------------- CurryParam* / MakeVariadic* / MakeNumericReturn*

type adapterCase struct {
	Adapter string `json:"adapter"` // CurryParam, CurryParam1ForSlice1, MakeVariadicParam, MakeVariadicReturn, MakeNumericReturnForVariadicParamReturnBool1, ...
	N       int    `json:"n"`       // arity (bound parameters / fixed parameters / return values)
	Bound   []int  `json:"bound"`   // bound parameters (CurryParam*)
	Args    []int  `json:"args"`    // supplied arguments
	Ret     []int  `json:"ret"`     // what the callee returns
	Bool    bool   `json:"bool"`    // callee's answer for the MakeNumericReturn* family
	Float   bool   `json:"float"`   // numeric return type float64 instead of int
}

func (c adapterCase) name() string {
	switch c.Adapter {
	case "CurryParam", "MakeVariadicParam", "MakeVariadicReturn":
		return fmt.Sprintf("%s%d", c.Adapter, c.N)
	}
	return c.Adapter
}

// runAdapter returns what the callee recorded, the adapter's result and the
// expectations derived from the statement: the callee sees exactly bound ++
// supplied (CurryParam*), exactly the first N supplied (MakeVariadicParamN),
// exactly the supplied list (MakeVariadicReturnN, MakeNumericReturn*), and
// its result is passed through.
func runAdapter(c adapterCase) (o outcome) {
	o.desc = fmt.Sprintf("adapter|%s|bound=%v|args=%v|ret=%v|%v", c.name(), c.Bound, c.Args, c.Ret, c.Bool)
	distinct := map[int]bool{}
	for _, x := range c.Bound {
		distinct[x] = true
	}
	for _, x := range c.Args {
		distinct[x] = true
	}
	o.nontrivial = len(distinct) >= 2
	var calls [][]int
	rec := func(xs ...int) { calls = append(calls, append([]int{}, xs...)) }
	var got []int
	var want []int
	var wantSeen []int
	a, b := c.Bound, c.Ret
	off := 0
	r := func(i int) int { return b[i] + off }
	var inst func(...int) []int // the adapter instance, where it can be called again
	p, stack := vlib.Try(func() {
		switch c.name() {
		case "CurryParam1ForSlice1":
			wantSeen, want = append(append([]int{}, a...), c.Args...), c.Ret[:1]
			f := fpgo.CurryParam1ForSlice1(func(x int, xs []int) int { rec(append([]int{x}, xs...)...); return r(0) }, a[0])
			inst = func(xs ...int) []int { return []int{f(xs...)} }
			got = inst(c.Args...)
		case "CurryParam1":
			wantSeen, want = append(append([]int{}, a...), c.Args...), c.Ret[:1]
			f := fpgo.CurryParam1(func(x int, xs ...int) int { rec(append([]int{x}, xs...)...); return r(0) }, a[0])
			inst = func(xs ...int) []int { return []int{f(xs...)} }
			got = inst(c.Args...)
		case "CurryParam2":
			wantSeen, want = append(append([]int{}, a...), c.Args...), c.Ret[:1]
			f := fpgo.CurryParam2(func(x, y int, xs ...int) int { rec(append([]int{x, y}, xs...)...); return r(0) }, a[0], a[1])
			inst = func(xs ...int) []int { return []int{f(xs...)} }
			got = inst(c.Args...)
		case "CurryParam3":
			wantSeen, want = append(append([]int{}, a...), c.Args...), c.Ret[:1]
			f := fpgo.CurryParam3(func(x, y, z int, xs ...int) int { rec(append([]int{x, y, z}, xs...)...); return r(0) }, a[0], a[1], a[2])
			inst = func(xs ...int) []int { return []int{f(xs...)} }
			got = inst(c.Args...)
		case "CurryParam4":
			wantSeen, want = append(append([]int{}, a...), c.Args...), c.Ret[:1]
			f := fpgo.CurryParam4(func(x, y, z, u int, xs ...int) int { rec(append([]int{x, y, z, u}, xs...)...); return r(0) }, a[0], a[1], a[2], a[3])
			inst = func(xs ...int) []int { return []int{f(xs...)} }
			got = inst(c.Args...)
		case "CurryParam5":
			wantSeen, want = append(append([]int{}, a...), c.Args...), c.Ret[:1]
			f := fpgo.CurryParam5(func(x, y, z, u, v int, xs ...int) int { rec(append([]int{x, y, z, u, v}, xs...)...); return r(0) }, a[0], a[1], a[2], a[3], a[4])
			inst = func(xs ...int) []int { return []int{f(xs...)} }
			got = inst(c.Args...)
		case "CurryParam6":
			wantSeen, want = append(append([]int{}, a...), c.Args...), c.Ret[:1]
			f := fpgo.CurryParam6(func(x, y, z, u, v, w int, xs ...int) int {
				rec(append([]int{x, y, z, u, v, w}, xs...)...)
				return r(0)
			}, a[0], a[1], a[2], a[3], a[4], a[5])
			inst = func(xs ...int) []int { return []int{f(xs...)} }
			got = inst(c.Args...)

		case "MakeVariadicParam1":
			wantSeen, want = c.Args[:1], c.Ret
			got = fpgo.MakeVariadicParam1(func(x int) []int { rec(x); return c.Ret })(c.Args...)
		case "MakeVariadicParam2":
			wantSeen, want = c.Args[:2], c.Ret
			got = fpgo.MakeVariadicParam2(func(x, y int) []int { rec(x, y); return c.Ret })(c.Args...)
		case "MakeVariadicParam3":
			wantSeen, want = c.Args[:3], c.Ret
			got = fpgo.MakeVariadicParam3(func(x, y, z int) []int { rec(x, y, z); return c.Ret })(c.Args...)
		case "MakeVariadicParam4":
			wantSeen, want = c.Args[:4], c.Ret
			got = fpgo.MakeVariadicParam4(func(x, y, z, u int) []int { rec(x, y, z, u); return c.Ret })(c.Args...)
		case "MakeVariadicParam5":
			wantSeen, want = c.Args[:5], c.Ret
			got = fpgo.MakeVariadicParam5(func(x, y, z, u, v int) []int { rec(x, y, z, u, v); return c.Ret })(c.Args...)
		case "MakeVariadicParam6":
			wantSeen, want = c.Args[:6], c.Ret
			got = fpgo.MakeVariadicParam6(func(x, y, z, u, v, w int) []int { rec(x, y, z, u, v, w); return c.Ret })(c.Args...)

		case "MakeVariadicReturn1":
			wantSeen, want = c.Args, c.Ret[:1]
			inst = fpgo.MakeVariadicReturn1(func(xs ...int) int { rec(xs...); return r(0) })
			got = inst(c.Args...)
		case "MakeVariadicReturn2":
			wantSeen, want = c.Args, c.Ret[:2]
			inst = fpgo.MakeVariadicReturn2(func(xs ...int) (int, int) { rec(xs...); return r(0), r(1) })
			got = inst(c.Args...)
		case "MakeVariadicReturn3":
			wantSeen, want = c.Args, c.Ret[:3]
			inst = fpgo.MakeVariadicReturn3(func(xs ...int) (int, int, int) { rec(xs...); return r(0), r(1), r(2) })
			got = inst(c.Args...)
		case "MakeVariadicReturn4":
			wantSeen, want = c.Args, c.Ret[:4]
			inst = fpgo.MakeVariadicReturn4(func(xs ...int) (int, int, int, int) { rec(xs...); return r(0), r(1), r(2), r(3) })
			got = inst(c.Args...)
		case "MakeVariadicReturn5":
			wantSeen, want = c.Args, c.Ret[:5]
			inst = fpgo.MakeVariadicReturn5(func(xs ...int) (int, int, int, int, int) {
				rec(xs...)
				return r(0), r(1), r(2), r(3), r(4)
			})
			got = inst(c.Args...)
		case "MakeVariadicReturn6":
			wantSeen, want = c.Args, c.Ret[:6]
			inst = fpgo.MakeVariadicReturn6(func(xs ...int) (int, int, int, int, int, int) {
				rec(xs...)
				return r(0), r(1), r(2), r(3), r(4), r(5)
			})
			got = inst(c.Args...)

		case "MakeNumericReturnForVariadicParamReturnBool1", "MakeNumericReturnForSliceParamReturnBool1", "MakeNumericReturnForParam1ReturnBool1":
			wantSeen = c.Args
			if c.name() == "MakeNumericReturnForParam1ReturnBool1" {
				wantSeen = c.Args[:1]
			}
			want = []int{0}
			if c.Bool {
				want = []int{1}
			}
			fv := func(xs ...int) bool { rec(xs...); return c.Bool }
			fs := func(xs []int) bool { rec(xs...); return c.Bool }
			f1 := func(x int) bool { rec(x); return c.Bool }
			if c.Float {
				var res []float64
				switch c.name() {
				case "MakeNumericReturnForVariadicParamReturnBool1":
					res = fpgo.MakeNumericReturnForVariadicParamReturnBool1[int, float64](fv)(c.Args...)
				case "MakeNumericReturnForSliceParamReturnBool1":
					res = fpgo.MakeNumericReturnForSliceParamReturnBool1[int, float64](fs)(c.Args...)
				default:
					res = fpgo.MakeNumericReturnForParam1ReturnBool1[int, float64](f1)(c.Args...)
				}
				for _, x := range res {
					if x != 0 && x != 1 {
						got = append(got, -1)
					} else {
						got = append(got, int(x))
					}
				}
			} else {
				switch c.name() {
				case "MakeNumericReturnForVariadicParamReturnBool1":
					got = fpgo.MakeNumericReturnForVariadicParamReturnBool1[int, int](fv)(c.Args...)
				case "MakeNumericReturnForSliceParamReturnBool1":
					got = fpgo.MakeNumericReturnForSliceParamReturnBool1[int, int](fs)(c.Args...)
				default:
					got = fpgo.MakeNumericReturnForParam1ReturnBool1[int, int](f1)(c.Args...)
				}
			}
		default:
			panic("harness: unknown adapter " + c.name())
		}
	})
	key := "C20/" + c.name()
	if p != nil {
		o.failKey, o.failMsg = key+"/panic", fmt.Sprintf("%s bound=%v args=%v: panic %v\n%s", c.name(), c.Bound, c.Args, p, firstFrames(stack))
		return
	}
	if len(calls) != 1 {
		o.failKey, o.failMsg = key+"/calls", fmt.Sprintf("%s bound=%v args=%v: callee invoked %d times (%v), want once", c.name(), c.Bound, c.Args, len(calls), calls)
		return
	}
	if !equalInts(calls[0], wantSeen) {
		o.failKey, o.failMsg = key+"/arguments", fmt.Sprintf("%s bound=%v args=%v: callee received %v, want %v", c.name(), c.Bound, c.Args, calls[0], wantSeen)
		return
	}
	if !equalInts(got, want) {
		o.failKey, o.failMsg = key+"/result", fmt.Sprintf("%s bound=%v args=%v: result %v, want %v", c.name(), c.Bound, c.Args, got, want)
		return
	}
	// the same instance again: its callee now returns other values; the second result is the second
	// call's, and the FIRST result, which the caller still holds, is what it was (and stays so when the
	// caller overwrites the second one)
	if inst != nil {
		off = 100
		var got2 []int
		if p, stack := vlib.Try(func() { got2 = inst(c.Args...) }); p != nil {
			o.failKey, o.failMsg = key+"/panic", fmt.Sprintf("%s: second call of the same instance panicked: %v\n%s", c.name(), p, firstFrames(stack))
			return
		}
		want2 := make([]int, len(want))
		for i := range want {
			want2[i] = want[i] + 100
		}
		if !equalInts(got2, want2) {
			o.failKey, o.failMsg = key+"/result", fmt.Sprintf("%s bound=%v args=%v: second call of the same instance returned %v, want %v", c.name(), c.Bound, c.Args, got2, want2)
			return
		}
		for i := range got2 {
			got2[i] = -7
		}
		if !equalInts(got, want) {
			o.failKey, o.failMsg = key+"/result-retention", fmt.Sprintf("%s bound=%v args=%v: the first result was %v; after a second call of the same instance (and the caller overwriting that second result) it reads %v", c.name(), c.Bound, c.Args, want, got)
		}
	}
	return
}

var adapterKinds = []string{"CurryParam", "CurryParam", "CurryParam1ForSlice1", "MakeVariadicParam", "MakeVariadicParam", "MakeVariadicReturn", "MakeVariadicReturn",
	"MakeNumericReturnForVariadicParamReturnBool1", "MakeNumericReturnForSliceParamReturnBool1", "MakeNumericReturnForParam1ReturnBool1"}

// distinct values so that any swap / drop / duplication of an argument shows
func genDistinct(t *rapid.T, n int, label string) []int {
	base := rapid.IntRange(-50, 50).Draw(t, label+"0")
	out := make([]int, n)
	cur := base
	for i := range out {
		cur += rapid.IntRange(1, 9).Draw(t, label)
		out[i] = cur
	}
	// a drawn rotation + optional reversal so that the values are not monotone
	if n > 1 {
		k := rapid.IntRange(0, n-1).Draw(t, label+"rot")
		out = append(out[k:], out[:k]...)
		if rapid.Bool().Draw(t, label+"rev") {
			for i, j := 0, n-1; i < j; i, j = i+1, j-1 {
				out[i], out[j] = out[j], out[i]
			}
		}
	}
	return out
}

func genAdapterCase(t *rapid.T) adapterCase {
	c := adapterCase{Adapter: rapid.SampledFrom(adapterKinds).Draw(t, "adapter")}
	extra := rapid.IntRange(0, 3).Draw(t, "extra")
	switch c.Adapter {
	case "CurryParam":
		c.N = rapid.IntRange(1, 6).Draw(t, "n")
		all := genDistinct(t, c.N+extra, "v")
		c.Bound, c.Args = all[:c.N], all[c.N:]
		c.Ret = genDistinct(t, 1, "r")
	case "CurryParam1ForSlice1":
		c.N = 1
		all := genDistinct(t, 1+extra, "v")
		c.Bound, c.Args = all[:1], all[1:]
		c.Ret = genDistinct(t, 1, "r")
	case "MakeVariadicParam":
		c.N = rapid.IntRange(1, 6).Draw(t, "n")
		c.Args = genDistinct(t, c.N+extra, "v") // length >= arity
		c.Ret = genDistinct(t, rapid.IntRange(0, 3).Draw(t, "nret"), "r")
	case "MakeVariadicReturn":
		c.N = rapid.IntRange(1, 6).Draw(t, "n")
		c.Args = genDistinct(t, extra+rapid.IntRange(0, 2).Draw(t, "more"), "v")
		c.Ret = genDistinct(t, c.N, "r")
	case "MakeNumericReturnForParam1ReturnBool1":
		c.Args = genDistinct(t, 1+extra, "v")
		c.Bool = rapid.Bool().Draw(t, "bool")
		c.Float = rapid.Bool().Draw(t, "float")
	default:
		c.Args = genDistinct(t, extra+rapid.IntRange(0, 2).Draw(t, "more"), "v")
		c.Bool = rapid.Bool().Draw(t, "bool")
		c.Float = rapid.Bool().Draw(t, "float")
	}
	return c
}

func propAdapter(t *rapid.T) {
	c := genAdapterCase(t)
	o := runAdapter(c)
	s := vlib.S()
	s.Eval("adapters")
	s.Class("adapters/" + c.name())
	if o.nontrivial {
		s.NonTrivial("adapters/"+c.Adapter, o.desc)
	}
	if o.failKey != "" {
		if vlib.Fail(t, o.failKey, "%s", o.failMsg) {
			t.Skip("known finding")
		}
	}
}

func TestAdapters(t *testing.T) {
	vlib.Check(t, "adapters", 5000, 50000, propAdapter)
}

// ---------------------------------------------------------------- Trampoline

// A step machine: the k-th call (1-based) of the step function maps its input
// state xs to next(xs) and reports done exactly at call N; if ErrAt > 0 the
// ErrAt-th call reports an error instead. Reference: a plain loop.
type trampCase struct {
	N     int   `json:"n"`      // call that reports done (1..)
	ErrAt int   `json:"err_at"` // call that reports an error (0 = never; < N when set)
	Input []int `json:"input"`
	Mul   int   `json:"mul"`
}

func (c trampCase) next(k int, xs []int) []int {
	// depends on the call number, on every element and changes the arity
	out := make([]int, 0, len(xs)+1)
	for _, x := range xs {
		out = append(out, c.Mul*x+k)
	}
	if k%3 == 0 {
		out = append(out, k)
	} else if k%3 == 1 && len(out) > 1 {
		out = out[1:]
	}
	return out
}

var errStep = errors.New("step failed")

func runTrampoline(c trampCase) (o outcome) {
	o.desc = fmt.Sprintf("trampoline|n=%d|err=%d|%v|mul=%d", c.N, c.ErrAt, c.Input, c.Mul)
	o.nontrivial = c.N >= 2 && (c.ErrAt == 0 || c.ErrAt >= 2)
	// reference loop
	var wantInputs [][]int
	state := append([]int{}, c.Input...)
	var wantErr error
	for k := 1; ; k++ {
		wantInputs = append(wantInputs, append([]int{}, state...))
		if k == c.ErrAt {
			wantErr = errStep
			break
		}
		state = c.next(k, state)
		if k == c.N {
			break
		}
	}
	var seen [][]int
	var got []int
	var gotErr error
	p, stack := vlib.Try(func() {
		got, gotErr = fpgo.Trampoline(func(xs ...int) ([]int, bool, error) {
			seen = append(seen, append([]int{}, xs...))
			k := len(seen)
			if k > c.N+3 {
				// runaway guard: stop a loop that ignores isDone (reported below as a wrong call count)
				return xs, true, nil
			}
			if k == c.ErrAt {
				return nil, false, errStep
			}
			return c.next(k, xs), k >= c.N, nil
		}, append([]int{}, c.Input...)...)
	})
	fail := func(kind, f string, a ...any) {
		if o.failKey == "" {
			o.failKey, o.failMsg = "C20/Trampoline/"+kind, fmt.Sprintf(f, a...)
		}
	}
	if p != nil {
		fail("panic", "Trampoline %+v: panic %v\n%s", c, p, firstFrames(stack))
		return
	}
	if len(seen) != len(wantInputs) {
		fail("steps", "Trampoline %+v: step called %d times, reference loop %d times", c, len(seen), len(wantInputs))
		return
	}
	for i := range seen {
		if !equalInts(seen[i], wantInputs[i]) {
			fail("step-input", "Trampoline %+v: call %d received %v, want %v", c, i+1, seen[i], wantInputs[i])
			return
		}
	}
	if wantErr != nil {
		if !errors.Is(gotErr, wantErr) {
			fail("error", "Trampoline %+v: err=%v, want the step's error", c, gotErr)
		}
		return // the result accompanying an error is not specified
	}
	if gotErr != nil {
		fail("error", "Trampoline %+v: unexpected err=%v", c, gotErr)
		return
	}
	if !equalInts(got, state) {
		fail("result", "Trampoline %+v: result %v, want %v", c, got, state)
	}
	return
}

func propTrampoline(t *rapid.T) {
	c := trampCase{N: rapid.IntRange(1, 12).Draw(t, "n"), Mul: rapid.SampledFrom([]int{1, 2, -1, 3}).Draw(t, "mul")}
	if c.N > 1 && rapid.IntRange(0, 2).Draw(t, "haserr") == 0 {
		c.ErrAt = rapid.IntRange(1, c.N-1).Draw(t, "errat")
	}
	m := rapid.IntRange(0, 3).Draw(t, "ninput")
	for i := 0; i < m; i++ {
		c.Input = append(c.Input, rapid.IntRange(-4, 4).Draw(t, "x"))
	}
	o := runTrampoline(c)
	s := vlib.S()
	s.Eval("trampoline")
	if o.nontrivial {
		s.NonTrivial("trampoline", o.desc)
	}
	if c.ErrAt > 0 {
		s.Class("trampoline/error")
	} else {
		s.Class("trampoline/done")
	}
	if o.failKey != "" {
		if vlib.Fail(t, o.failKey, "%s", o.failMsg) {
			t.Skip("known finding")
		}
	}
}

func TestTrampoline(t *testing.T) {
	vlib.Check(t, "trampoline", 3000, 30000, propTrampoline)
}
