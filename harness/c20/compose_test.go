package c20

import (
	"fmt"
	"strings"
	"testing"

	fpgo "github.com/TeaEntityLab/fpGo/v2"
	"pgregory.net/rapid"

	"verifharness/vlib"
)

// ---------------------------------------------------------------- function family
//
// Distinguishable, mostly non-commuting, arity-changing total functions on
// integer lists. apply is the reference semantics (pure, allocates).

type fnSpec struct {
	Op string `json:"op"`
	A  int    `json:"a"`
	B  int    `json:"b"`
}

func (f fnSpec) String() string {
	switch f.Op {
	case "aff":
		return fmt.Sprintf("map(%d*x+%d)", f.A, f.B)
	case "app":
		return fmt.Sprintf("append(%d)", f.A)
	case "head":
		return fmt.Sprintf("head(%d*x+%d)", f.A, f.B)
	}
	return f.Op
}

func (f fnSpec) apply(xs []int) []int {
	switch f.Op {
	case "aff":
		out := make([]int, len(xs))
		for i, x := range xs {
			out[i] = f.A*x + f.B
		}
		return out
	case "app":
		return append(append([]int{}, xs...), f.A)
	case "rev":
		out := make([]int, len(xs))
		for i, x := range xs {
			out[len(xs)-1-i] = x
		}
		return out
	case "sumlen":
		s := 0
		for _, x := range xs {
			s += x
		}
		return []int{s, len(xs)}
	case "head":
		if len(xs) == 0 {
			return []int{f.B}
		}
		return []int{f.A*xs[0] + f.B}
	case "dup":
		if len(xs) > 32 {
			return append([]int{}, xs...)
		}
		return append(append([]int{}, xs...), xs...)
	case "drop":
		if len(xs) == 0 {
			return []int{}
		}
		return append([]int{}, xs[1:]...)
	}
	panic("harness: unknown op " + f.Op)
}

type traceEntry struct {
	Fn   int
	Args []int
}

func traceString(tr []traceEntry) string {
	parts := make([]string, len(tr))
	for i, e := range tr {
		parts[i] = fmt.Sprintf("f%d%v", e.Fn, e.Args)
	}
	return strings.Join(parts, " ")
}

// tree is a bracketing of the function list f0..fn-1 (leftmost = outermost):
// a node is Compose(kids...) or, equivalently, Pipe(reversed kids...).
type tree struct {
	Leaf int     `json:"leaf"`
	Kids []*tree `json:"kids,omitempty"`
	Pipe bool    `json:"pipe"`
	Wrap bool    `json:"wrap"` // leaf wrapped in a one-element Compose/Pipe
}

func (n *tree) String() string {
	name := "C"
	if n.Pipe {
		name = "P"
	}
	if n.Kids == nil {
		if n.Wrap {
			return fmt.Sprintf("%s(f%d)", name, n.Leaf)
		}
		return fmt.Sprintf("f%d", n.Leaf)
	}
	parts := make([]string, len(n.Kids))
	for i, k := range n.Kids {
		parts[i] = k.String()
	}
	if n.Pipe {
		for i, j := 0, len(parts)-1; i < j; i, j = i+1, j-1 {
			parts[i], parts[j] = parts[j], parts[i]
		}
	}
	return name + "(" + strings.Join(parts, ",") + ")"
}

func buildTree[T any](n *tree, leaves []func(...T) []T, compose, pipe func(...func(...T) []T) func(...T) []T) func(...T) []T {
	if n.Kids == nil {
		f := leaves[n.Leaf]
		if n.Wrap {
			if n.Pipe {
				return pipe(f)
			}
			return compose(f)
		}
		return f
	}
	ks := make([]func(...T) []T, len(n.Kids))
	for i, k := range n.Kids {
		ks[i] = buildTree(k, leaves, compose, pipe)
	}
	if n.Pipe {
		for i, j := 0, len(ks)-1; i < j; i, j = i+1, j-1 {
			ks[i], ks[j] = ks[j], ks[i]
		}
		return pipe(ks...)
	}
	return compose(ks...)
}

type composeCase struct {
	Fns   []fnSpec `json:"fns"`
	Input []int    `json:"input"`
	Tree  *tree    `json:"tree"`
	Iface bool     `json:"iface"` // ComposeInterface / PipeInterface over interface{} values
}

func (c composeCase) fnsString() string {
	parts := make([]string, len(c.Fns))
	for i, f := range c.Fns {
		parts[i] = f.String()
	}
	return strings.Join(parts, " ∘ ")
}

// reference: Compose(f0..fn-1)(x) = f0(f1(...fn-1(x))), a right fold; the
// trace lists every application in the order it must happen.
func refCompose(fns []fnSpec, in []int) ([]int, []traceEntry) {
	cur := append([]int{}, in...)
	var tr []traceEntry
	for i := len(fns) - 1; i >= 0; i-- {
		tr = append(tr, traceEntry{Fn: i, Args: append([]int{}, cur...)})
		cur = fns[i].apply(cur)
	}
	return cur, tr
}

func equalInts(a, b []int) bool {
	if len(a) != len(b) {
		return false
	}
	for i := range a {
		if a[i] != b[i] {
			return false
		}
	}
	return true
}

func equalTrace(a, b []traceEntry) bool {
	if len(a) != len(b) {
		return false
	}
	for i := range a {
		if a[i].Fn != b[i].Fn || !equalInts(a[i].Args, b[i].Args) {
			return false
		}
	}
	return true
}

// composeVariants builds the three combinations under test for element type T.
func composeVariants[T any](c composeCase, toT func(int) T, fromT func(T) int, trace *[]traceEntry,
	compose, pipe func(...func(...T) []T) func(...T) []T) (names []string, fs []func(...T) []T) {
	leaves := make([]func(...T) []T, len(c.Fns))
	for i := range c.Fns {
		i, spec := i, c.Fns[i]
		leaves[i] = func(xs ...T) []T {
			ints := make([]int, len(xs))
			for k, x := range xs {
				ints[k] = fromT(x)
			}
			*trace = append(*trace, traceEntry{Fn: i, Args: ints})
			res := spec.apply(ints)
			out := make([]T, len(res))
			for k, r := range res {
				out[k] = toT(r)
			}
			return out
		}
	}
	rev := make([]func(...T) []T, len(leaves))
	for i, f := range leaves {
		rev[len(leaves)-1-i] = f
	}
	names = []string{"Compose(f0..fn)", "Pipe(fn..f0)", "regrouped " + c.Tree.String()}
	fs = []func(...T) []T{compose(leaves...), pipe(rev...), buildTree(c.Tree, leaves, compose, pipe)}
	return
}

func runCompose(c composeCase) (o outcome) {
	want, wantTrace := refCompose(c.Fns, c.Input)
	// non-trivial: >= 2 members and the order of application matters on this input
	if len(c.Fns) >= 2 {
		rev := make([]fnSpec, len(c.Fns))
		for i, f := range c.Fns {
			rev[len(c.Fns)-1-i] = f
		}
		other, _ := refCompose(rev, c.Input)
		o.nontrivial = !equalInts(other, want)
	}
	o.desc = fmt.Sprintf("compose|iface=%v|%s|%v|%s", c.Iface, c.fnsString(), c.Input, c.Tree.String())
	fail := func(kind, f string, a ...any) {
		if o.failKey == "" {
			o.failKey = "C20/" + kind
			o.failMsg = fmt.Sprintf(f, a...)
		}
	}
	var trace []traceEntry
	run := func(name string, call func() []int) {
		trace = nil
		var got []int
		if p, stack := vlib.Try(func() { got = call() }); p != nil {
			fail("compose/panic", "%s of [%s] on %v: panic %v\n%s", name, c.fnsString(), c.Input, p, firstFrames(stack))
			return
		}
		root := "Compose"
		if strings.HasPrefix(name, "Pipe") {
			root = "Pipe"
		} else if strings.HasPrefix(name, "regrouped") {
			root = "regroup"
		}
		if !equalInts(got, want) {
			fail(root+"/result", "%s of [%s] on %v = %v, want f0(f1(..fn(x))) = %v", name, c.fnsString(), c.Input, got, want)
			return
		}
		if !equalTrace(trace, wantTrace) {
			fail(root+"/applications", "%s of [%s] on %v applied {%s}, want {%s}", name, c.fnsString(), c.Input, traceString(trace), traceString(wantTrace))
		}
	}
	if c.Iface {
		in := make([]interface{}, len(c.Input))
		for i, x := range c.Input {
			in[i] = x
		}
		names, fs := composeVariants(c, func(i int) interface{} { return i }, func(x interface{}) int { return x.(int) }, &trace,
			fpgo.ComposeInterface, fpgo.PipeInterface)
		for k := range fs {
			f := fs[k]
			run(names[k]+" [interface{}]", func() []int {
				res := f(append([]interface{}{}, in...)...)
				out := make([]int, len(res))
				for i, r := range res {
					out[i] = r.(int)
				}
				return out
			})
		}
		return
	}
	names, fs := composeVariants(c, func(i int) int { return i }, func(x int) int { return x }, &trace,
		fpgo.Compose[int], fpgo.Pipe[int])
	for k := range fs {
		f := fs[k]
		run(names[k], func() []int { return f(append([]int{}, c.Input...)...) })
	}
	return
}

var composeRegressions = []composeCase{
	{Fns: []fnSpec{{Op: "aff", A: 2, B: 1}, {Op: "app", A: 5}}, Input: []int{1}, Tree: &tree{Kids: []*tree{{Leaf: 0}, {Leaf: 1}}}},
	{Fns: []fnSpec{{Op: "sumlen"}, {Op: "rev"}, {Op: "app", A: 3}, {Op: "head", A: 2, B: 1}}, Input: []int{4, 5},
		Tree: &tree{Pipe: true, Kids: []*tree{{Kids: []*tree{{Leaf: 0}, {Leaf: 1, Wrap: true}}}, {Pipe: true, Kids: []*tree{{Leaf: 2}, {Leaf: 3}}}}}},
	{Fns: []fnSpec{{Op: "drop"}, {Op: "dup"}, {Op: "app", A: 1}}, Input: nil, Iface: true,
		Tree: &tree{Kids: []*tree{{Leaf: 0}, {Kids: []*tree{{Leaf: 1}, {Leaf: 2}}}}}},
}

// ---------------------------------------------------------------- generators

var fnPool = []fnSpec{
	{Op: "aff", A: 2, B: 1}, {Op: "aff", A: 3, B: 0}, {Op: "aff", A: -1, B: 2}, {Op: "aff", A: 1, B: 1},
	{Op: "app", A: 0}, {Op: "app", A: 7},
	{Op: "rev"}, {Op: "sumlen"},
	{Op: "head", A: 2, B: 3}, {Op: "head", A: 1, B: 0},
	{Op: "dup"}, {Op: "drop"},
}

func genTree(t *rapid.T, lo, hi int) *tree {
	if hi-lo == 1 {
		n := &tree{Leaf: lo, Wrap: rapid.IntRange(0, 3).Draw(t, "wrap") == 0}
		if n.Wrap {
			n.Pipe = rapid.Bool().Draw(t, "pipe")
		}
		return n
	}
	n := &tree{Pipe: rapid.Bool().Draw(t, "pipe")}
	maxParts := hi - lo
	if maxParts > 3 {
		maxParts = 3
	}
	parts := rapid.IntRange(2, maxParts).Draw(t, "parts")
	cuts := []int{lo}
	for p := 1; p < parts; p++ {
		// leave room for the remaining parts
		c := rapid.IntRange(cuts[len(cuts)-1]+1, hi-(parts-p)).Draw(t, "cut")
		cuts = append(cuts, c)
	}
	cuts = append(cuts, hi)
	for i := 0; i+1 < len(cuts); i++ {
		n.Kids = append(n.Kids, genTree(t, cuts[i], cuts[i+1]))
	}
	return n
}

func genComposeCase(t *rapid.T) composeCase {
	n := rapid.IntRange(1, 6).Draw(t, "nfns")
	c := composeCase{Iface: rapid.IntRange(0, 3).Draw(t, "iface") == 0}
	for i := 0; i < n; i++ {
		c.Fns = append(c.Fns, rapid.SampledFrom(fnPool).Draw(t, "fn"))
	}
	m := rapid.IntRange(0, 4).Draw(t, "ninput")
	for i := 0; i < m; i++ {
		c.Input = append(c.Input, rapid.IntRange(-5, 5).Draw(t, "x"))
	}
	c.Tree = genTree(t, 0, n)
	return c
}

func propCompose(t *rapid.T) {
	c := genComposeCase(t)
	o := runCompose(c)
	s := vlib.S()
	s.Eval("compose")
	s.Class(fmt.Sprintf("compose/len=%d", len(c.Fns)))
	if o.nontrivial {
		s.NonTrivial("compose", o.desc)
		s.Class("compose/order-matters")
	} else {
		s.Class("compose/order-irrelevant")
	}
	if o.failKey != "" {
		if vlib.Fail(t, o.failKey, "%s", o.failMsg) {
			t.Skip("known finding")
		}
	}
}

func TestCompose(t *testing.T) {
	vlib.Check(t, "compose", 10000, 100000, propCompose)
}
