// Package c20 decides property C20: combinators compose in the documented
// order (Compose / Pipe / CurryParamN / MakeVariadic* / Trampoline / CurryDef)
// and pattern matching is first-match (MatchFor / Either / NewCompData).
//
// Files: compose_test.go (Compose/Pipe and regrouping), curryparam_test.go
// (CurryParam*, MakeVariadic*, MakeNumericReturn*, Trampoline), curry_test.go
// (CurryDef under goroutines), match_test.go (pattern matching, NewCompData).
package c20

import (
	"encoding/json"
	"strings"
	"testing"

	"verifharness/vlib"
)

func TestMain(m *testing.M) { vlib.Main(m) }

func firstFrames(stack string) string {
	var keep []string
	for _, l := range strings.Split(stack, "\n") {
		if strings.Contains(l, "fpGo") || strings.Contains(l, "/repo/") || strings.Contains(l, "/wt-") {
			keep = append(keep, strings.TrimSpace(l))
		}
		if len(keep) >= 6 {
			break
		}
	}
	return strings.Join(keep, "\n")
}

// ---------------------------------------------------------------- regressions (replay tier)

// TestRegress runs first in both tiers: the shrunk cases of the defects found
// (DESIGN §4 #24, #25) plus a few directed combinator cases.
func TestRegress(t *testing.T) {
	s := vlib.S()
	for i, c := range matchRegressions() {
		s.Eval("regress")
		o := runMatch(c)
		if o.nontrivial {
			s.NonTrivial("regress", o.desc)
		}
		if o.failKey != "" {
			vlib.WriteReplay("C20/match", c)
			if vlib.Fail(t, o.failKey, "match regression %d: %s", i, o.failMsg) {
				continue
			}
		}
	}
	for i, c := range composeRegressions {
		s.Eval("regress")
		o := runCompose(c)
		if o.nontrivial {
			s.NonTrivial("regress", o.desc)
		}
		if o.failKey != "" {
			if vlib.Fail(t, o.failKey, "compose regression %d: %s", i, o.failMsg) {
				continue
			}
		}
	}
	for i, c := range curryRegressions {
		s.Eval("regress")
		o := runCurry(c)
		if o.nontrivial {
			s.NonTrivial("regress", o.desc)
		}
		if o.failKey != "" {
			vlib.WriteReplay("C20/curry", c)
			if vlib.Fail(t, o.failKey, "curry regression %d: %s", i, o.failMsg) {
				continue
			}
		}
	}
}

func TestReplayJSON(t *testing.T) {
	if raw := vlib.ReplayCase("C20/match"); raw != nil {
		var c matchCase
		if err := json.Unmarshal(raw, &c); err != nil {
			t.Fatalf("bad replay: %v", err)
		}
		if o := runMatch(c); o.failKey != "" {
			t.Fatalf("[key=%s] replay: %s", o.failKey, o.failMsg)
		}
		return
	}
	if raw := vlib.ReplayCase("C20/curry"); raw != nil {
		var c curryScenario
		if err := json.Unmarshal(raw, &c); err != nil {
			t.Fatalf("bad replay: %v", err)
		}
		// schedule-dependent: re-run the same scenario many times
		for i := 0; i < 300; i++ {
			if o := runCurry(c); o.failKey != "" {
				t.Fatalf("[key=%s] replay (run %d of 300): %s", o.failKey, i+1, o.failMsg)
			}
		}
		return
	}
	t.Skip("no replay case")
}

type outcome struct {
	failKey    string
	failMsg    string
	nontrivial bool
	desc       string
}
