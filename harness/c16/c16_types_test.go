package c16

import (
	"fmt"
	"sync"
	"sync/atomic"
	"testing"
	"time"

	fpgo "github.com/TeaEntityLab/fpGo/v2"
	"pgregory.net/rapid"

	"verifharness/vlib"
)

// Part "result-types": PMap is generic in its result type; "f applied exactly once to every element",
// "the call returns after all applications finished" and the length/order of the result do not depend on
// what R is - also not when R carries no data (struct{}, [0]int: PMap used for its effects), is an
// array, a pointer, a func or a channel.

type unit struct{}

func checkTyped[R any](t *rapid.T, name string, n, pool int, random bool, f func(int) R, same func(i int, r R) bool) {
	list := make([]int, n)
	for i := range list {
		list[i] = i
	}
	var mu sync.Mutex
	calls := map[int]int{}
	var running, finished int32
	g := func(x int) R {
		atomic.AddInt32(&running, 1)
		mu.Lock()
		calls[x]++
		mu.Unlock()
		r := f(x)
		atomic.AddInt32(&finished, 1)
		atomic.AddInt32(&running, -1)
		return r
	}
	var opt *fpgo.PMapOption
	if pool != -2 {
		opt = &fpgo.PMapOption{FixedPool: pool, RandomOrder: random}
	}
	desc := fmt.Sprintf("R=%s n=%d pool=%d random=%v", name, n, pool, random)
	vlib.S().Eval("result-types")
	if n > 1 && pool > 0 && pool < n {
		vlib.S().NonTrivial("result-types", desc)
	}
	var res []R
	done := make(chan interface{}, 1)
	go func() {
		p, _ := vlib.Try(func() { res = fpgo.PMap(g, opt, list...) })
		done <- p
	}()
	fail := func(key, format string, a ...any) {
		if vlib.Fail(t, key, "%s: %s", desc, fmt.Sprintf(format, a...)) {
			t.Skip("known finding")
		}
	}
	select {
	case p := <-done:
		if p != nil {
			fail("C16/panic", "PMap panicked: %v", p)
			return
		}
	case <-time.After(vlib.StallBudget()):
		fail("C16/no-return", "PMap did not return (%d of %d applications finished)", atomic.LoadInt32(&finished), n)
		return
	}
	if r := atomic.LoadInt32(&running); r != 0 {
		fail("C16/returned-early", "PMap returned while %d applications were still running", r)
		return
	}
	mu.Lock()
	defer mu.Unlock()
	for i := 0; i < n; i++ {
		if calls[i] != 1 {
			fail("C16/applied-not-once", "f was applied %d times to element %d (applications per element: %v)", calls[i], i, calls)
			return
		}
	}
	if len(res) != n {
		fail("C16/result-length", "result has %d elements, want %d", len(res), n)
		return
	}
	if !random {
		for i, r := range res {
			if !same(i, r) {
				fail("C16/result-values", "result[%d] is not f(list[%d])", i, i)
				return
			}
		}
	}
}

func TestResultTypes(t *testing.T) {
	if vlib.Replaying() {
		t.Skip()
	}
	ptrs := make([]*int, 64)
	for i := range ptrs {
		v := i
		ptrs[i] = &v
	}
	vlib.Check(t, "result-types", 1500, 15000, func(t *rapid.T) {
		n := rapid.SampledFrom([]int{0, 1, 2, 5, 9, 20, 40}).Draw(t, "n")
		pool := rapid.SampledFrom([]int{-2, -1, 0, 1, 2, 3, 8}).Draw(t, "pool")
		random := rapid.Bool().Draw(t, "random")
		switch rapid.IntRange(0, 6).Draw(t, "type") {
		case 0:
			checkTyped(t, "struct{}", n, pool, random, func(int) unit { return unit{} }, func(int, unit) bool { return true })
		case 1:
			checkTyped(t, "[0]int", n, pool, random, func(int) [0]int { return [0]int{} }, func(int, [0]int) bool { return true })
		case 2:
			checkTyped(t, "[2]int", n, pool, random, func(x int) [2]int { return [2]int{x, -x} }, func(i int, r [2]int) bool { return r == [2]int{i, -i} })
		case 3:
			checkTyped(t, "*int", n, pool, random, func(x int) *int {
				if x%3 == 0 {
					return nil
				}
				return ptrs[x]
			}, func(i int, r *int) bool { return (i%3 == 0 && r == nil) || (i%3 != 0 && r == ptrs[i]) })
		case 4:
			checkTyped(t, "func() int", n, pool, random, func(x int) func() int { return func() int { return x } }, func(i int, r func() int) bool { return r != nil && r() == i })
		case 5:
			checkTyped(t, "*struct{}", n, pool, random, func(int) *unit { return &unit{} }, func(_ int, r *unit) bool { return r != nil })
		default:
			checkTyped(t, "string", n, pool, random, func(x int) string { return fmt.Sprint(x) }, func(i int, r string) bool { return r == fmt.Sprint(i) })
		}
	})
}
