// Package c16 checks property C16: PMap is Map run in parallel — same results
// (ordered mode: element-wise; RandomOrder: as a multiset), f applied exactly
// once per element and to nothing else, at most min(FixedPool,len) calls in
// flight (len when no positive pool size is given), all applications finished
// when PMap returns, and PMap returns at all — for every completion order.
//
// The schedule is owned through f itself: in the controlled modes every call
// of f parks in a completion controller, which releases the parked call with
// the highest drawn priority once the parked set has reached the expected
// parallelism or has been stable for a short window. That forces drawn
// completion orders (including the exact reverse of the input order) without
// assuming how many workers the implementation really uses: with fewer
// workers the stability window fires, so the controller never deadlocks.
package c16

import (
	"encoding/json"
	"fmt"
	"math"
	"os"
	"path/filepath"
	"regexp"
	"runtime"
	"sort"
	"strings"
	"sync"
	"testing"
	"time"

	fpgo "github.com/TeaEntityLab/fpGo/v2"
	"pgregory.net/rapid"

	"verifharness/vlib"
)

func TestMain(m *testing.M) { vlib.Main(m) }

// ---------------------------------------------------------------- scenario

const (
	ctlNone       = 0 // f returns at once
	ctlYields     = 1 // f yields a drawn, per-element number of times (data-dependent duration)
	ctlControlled = 2 // completion controller: release when parked set == expected parallelism, or stable
	ctlStableOnly = 3 // completion controller: release only when the parked set is stable (sees over-parallelism)
)

var ctlNames = [...]string{"none", "yields", "controlled", "controlled-stable-only"}

// scenario is one fully drawn case (JSON = replay document).
type scenario struct {
	Vals   []int `json:"vals"`   // the list (element i is item{i, Vals[i]})
	Opt    bool  `json:"opt"`    // false: option == nil
	Pool   int   `json:"pool"`   // PMapOption.FixedPool
	Random bool  `json:"random"` // PMapOption.RandomOrder
	A      int   `json:"a"`      // f(x) = A*x.Val + B
	B      int   `json:"b"`
	Ctl    int   `json:"ctl"`
	Prio   []int `json:"prio"`   // controlled modes: priority of element i (highest parked is released first)
	Yields []int `json:"yields"` // ctlYields: Gosched count for element i
}

func (sc scenario) String() string {
	b, _ := json.Marshal(sc)
	return string(b)
}

// item carries its index so that duplicate values are distinguished and a
// foreign argument is recognised.
type item struct{ Idx, Val int }

// expected parallelism / documented bound on calls in flight
func (sc scenario) par() int {
	n := len(sc.Vals)
	if sc.Opt && sc.Pool > 0 && sc.Pool < n {
		return sc.Pool
	}
	return n
}

func (sc scenario) poolClass() string {
	n := len(sc.Vals)
	switch {
	case !sc.Opt:
		return "no-option"
	case sc.Pool <= 0:
		return "pool<=0"
	case sc.Pool == 1 && n > 1:
		return "pool=1"
	case sc.Pool < n:
		return "pool<len"
	case sc.Pool == n:
		return "pool=len"
	default:
		return "pool>len"
	}
}

// ---------------------------------------------------------------- shared state of one run + completion controller

type waiter struct {
	idx, prio int
	ch        chan struct{} // closed by the controller: go on
	fin       chan struct{} // closed by f once the completion is recorded
}

type state struct {
	mu          sync.Mutex
	calls       []int // per index
	foreign     []item
	started     int
	finished    int
	inflight    int
	maxInflight int
	order       []int // completion order (indices)
	waiting     []*waiter
	released    int
	stableRel   int // releases triggered by the stability window (less targeted)
	wake        chan struct{}
}

func (st *state) progress() int64 {
	st.mu.Lock()
	defer st.mu.Unlock()
	return int64(st.started + st.finished + st.released)
}

func (st *state) parked() int {
	st.mu.Lock()
	defer st.mu.Unlock()
	return len(st.waiting)
}

const stabilityWindow = 250 * time.Microsecond

// controller releases parked calls, highest priority first. It never blocks
// on the implementation: whenever a call is parked, either the parked set
// reaches the expected parallelism (release now) or nothing arrives for one
// stability window (release anyway).
func (st *state) controller(total, par int, stableOnly bool, stop <-chan struct{}, exited chan<- struct{}) {
	defer close(exited)
	timer := time.NewTimer(stabilityWindow)
	defer timer.Stop()
	for {
		stable := false
		select {
		case <-stop:
			st.mu.Lock()
			for _, w := range st.waiting {
				close(w.ch)
			}
			st.waiting = nil
			st.mu.Unlock()
			return
		case <-st.wake:
		case <-timer.C:
			stable = true
		}
		st.mu.Lock()
		for {
			n := len(st.waiting)
			want := total - st.released
			if par < want {
				want = par
			}
			if !(n > 0 && (stable || (!stableOnly && n >= want))) {
				break
			}
			best := 0
			for i, w := range st.waiting {
				if w.prio > st.waiting[best].prio {
					best = i
				}
			}
			w := st.waiting[best]
			st.waiting = append(st.waiting[:best], st.waiting[best+1:]...)
			st.released++
			if stable {
				st.stableRel++
			}
			close(w.ch)
			stable = false // the window releases one call; the rest must qualify by count
			// Let the released call record its completion before the next one is
			// released, so that completions happen in priority order. This cannot
			// block: the call only needs st.mu, which is not held here.
			st.mu.Unlock()
			<-w.fin
			runtime.Gosched()
			st.mu.Lock()
		}
		st.mu.Unlock()
		if !timer.Stop() {
			select {
			case <-timer.C:
			default:
			}
		}
		timer.Reset(stabilityWindow)
	}
}

// ---------------------------------------------------------------- running one scenario

type outcome struct {
	FailKey      string `json:"fail_key,omitempty"`
	FailMsg      string `json:"fail_msg,omitempty"`
	Inconclusive string `json:"inconclusive,omitempty"`
	Order        []int  `json:"completion_order"`
	Result       []int  `json:"result"`
	MaxInflight  int    `json:"max_inflight"`
	StableRel    int    `json:"stability_releases"`
}

func (o *outcome) fail(key, format string, a ...any) {
	if o.FailKey == "" {
		o.FailKey = key
		o.FailMsg = fmt.Sprintf(format, a...)
	}
}

func runScenario(sc scenario) outcome {
	var out outcome
	n := len(sc.Vals)
	list := make([]item, n)
	for i, v := range sc.Vals {
		list[i] = item{i, v}
	}
	st := &state{calls: make([]int, n), wake: make(chan struct{}, 1)}
	controlled := sc.Ctl == ctlControlled || sc.Ctl == ctlStableOnly

	f := func(it item) int {
		st.mu.Lock()
		if it.Idx < 0 || it.Idx >= n || sc.Vals[it.Idx] != it.Val {
			st.foreign = append(st.foreign, it)
			st.mu.Unlock()
			return sc.A*it.Val + sc.B
		}
		st.calls[it.Idx]++
		st.started++
		st.inflight++
		if st.inflight > st.maxInflight {
			st.maxInflight = st.inflight
		}
		var w *waiter
		if controlled {
			w = &waiter{idx: it.Idx, prio: sc.Prio[it.Idx], ch: make(chan struct{}), fin: make(chan struct{})}
			st.waiting = append(st.waiting, w)
		}
		st.mu.Unlock()
		switch {
		case controlled:
			select {
			case st.wake <- struct{}{}:
			default:
			}
			<-w.ch
		case sc.Ctl == ctlYields:
			for k := 0; k < sc.Yields[it.Idx]; k++ {
				runtime.Gosched()
			}
		}
		st.mu.Lock()
		st.inflight--
		st.finished++
		st.order = append(st.order, it.Idx)
		st.mu.Unlock()
		if w != nil {
			close(w.fin)
		}
		return sc.A*it.Val + sc.B
	}

	var opt *fpgo.PMapOption
	if sc.Opt {
		opt = &fpgo.PMapOption{FixedPool: sc.Pool, RandomOrder: sc.Random}
	}

	stop := make(chan struct{})
	exited := make(chan struct{})
	if controlled {
		go st.controller(n, sc.par(), sc.Ctl == ctlStableOnly, stop, exited)
	} else {
		close(exited)
	}

	var res []int
	var panicVal any
	var panicStack string
	startedAtReturn, finishedAtReturn := 0, 0
	status, report := guard(func() {
		panicVal, panicStack = vlib.Try(func() { res = fpgo.PMap(f, opt, list...) })
		st.mu.Lock()
		startedAtReturn, finishedAtReturn = st.started, st.finished
		st.mu.Unlock()
	}, st.progress, st.parked)

	if status != guardReturned {
		// PMap did not return. Leave the scenario's goroutines alone (they are
		// the evidence); the controller keeps serving whatever still arrives.
		st.mu.Lock()
		out.Order = append([]int(nil), st.order...)
		out.MaxInflight = st.maxInflight
		st.mu.Unlock()
		if status == guardHung {
			out.fail("C16/hang", "PMap did not return and every goroutine of the call is blocked for good:\n%s", report)
		} else {
			out.Inconclusive = report
		}
		return out
	}
	close(stop)
	<-exited

	st.mu.Lock()
	defer st.mu.Unlock()
	out.Order = append([]int(nil), st.order...)
	out.Result = res
	out.MaxInflight = st.maxInflight
	out.StableRel = st.stableRel

	if panicVal != nil {
		out.fail("C16/panic", "PMap panicked: %v\n%s", panicVal, firstFrames(panicStack))
		return out
	}
	// --- results
	want := make([]int, n)
	for i, v := range sc.Vals {
		want[i] = sc.A*v + sc.B
	}
	if len(res) != n {
		out.fail("C16/result-length", "len(result)=%d, len(list)=%d; result %v", len(res), n, res)
	} else {
		same := true
		for i := range want {
			if res[i] != want[i] {
				same = false
			}
		}
		if !same {
			g, w := append([]int(nil), res...), append([]int(nil), want...)
			sort.Ints(g)
			sort.Ints(w)
			perm := true
			for i := range g {
				if g[i] != w[i] {
					perm = false
				}
			}
			switch {
			case !perm:
				out.fail("C16/result-values", "result %v is not (a permutation of) Map(f,list) = %v", res, want)
			case !(sc.Opt && sc.Random):
				out.fail("C16/ordered-mode-order", "ordered mode: result %v != Map(f,list) = %v (completion order %v)", res, want, st.order)
			}
		}
	}
	// --- exactly once, nothing else
	if len(st.foreign) > 0 {
		out.fail("C16/foreign-argument", "f was applied to values that are not list elements: %v", st.foreign)
	}
	for i, k := range st.calls {
		if k != 1 {
			out.fail("C16/applied-not-once", "f was applied %d times to element %d (value %d); calls per index %v", k, i, sc.Vals[i], st.calls)
			break
		}
	}
	// --- returns after all applications finished
	if finishedAtReturn != startedAtReturn || st.started != startedAtReturn {
		out.fail("C16/returned-before-all-finished", "when PMap returned %d applications had started and %d had finished (%d started in total)",
			startedAtReturn, finishedAtReturn, st.started)
	}
	// --- concurrency bound
	if bound := sc.par(); st.maxInflight > bound {
		out.fail("C16/concurrency-bound", "%d applications in flight at once, documented bound %d (FixedPool=%d option=%v len=%d)",
			st.maxInflight, bound, sc.Pool, sc.Opt, n)
	}
	return out
}

func firstFrames(stack string) string {
	var keep []string
	for _, l := range strings.Split(stack, "\n") {
		if strings.Contains(l, "fpGo") || strings.Contains(l, "/fp.go") {
			keep = append(keep, strings.TrimSpace(l))
		}
		if len(keep) >= 6 {
			break
		}
	}
	return strings.Join(keep, "\n")
}

// ---------------------------------------------------------------- hang guard + blocked-state classifier (DESIGN 1.6)

const (
	guardReturned  = 0
	guardHung      = 1 // violation: nothing can make progress any more
	guardUndecided = 2 // slow / not classifiable: inconclusive, never a violation
)

var replaysWritten int

var hangsSeen int // after the first confirmed hang the budget shrinks (rapid re-runs the case while shrinking)

// goroutines with fpgo frames that exist before the first scenario (package
// init starts a default Handler loop): never part of a PMap call.
var (
	preexisting     map[string]string
	preexistingOnce sync.Once
)

var reGoroutine = regexp.MustCompile(`^goroutine (\d+) \[([^\],]+)`)

// blockedForGood lists the wait states in which a goroutine can only be woken
// by another goroutine (no timer, no I/O).
func blockedForGood(state string) bool {
	switch {
	case strings.HasPrefix(state, "chan receive"), strings.HasPrefix(state, "chan send"),
		strings.HasPrefix(state, "select"), strings.HasPrefix(state, "semacquire"),
		strings.HasPrefix(state, "sync."):
		return true
	}
	return false
}

// callGoroutines returns id -> state of every goroutine that has a frame of
// package fpgo on its stack (the PMap caller, feeder, workers, closer), and
// whether all of them are blocked for good.
func callGoroutines() (map[string]string, bool, string) {
	dump := vlib.AllStacks()
	ids := map[string]string{}
	all := true
	var text []string
	for _, block := range strings.Split(dump, "\n\n") {
		if !strings.Contains(block, "fpGo/v2.") {
			continue
		}
		m := reGoroutine.FindStringSubmatch(block)
		if m == nil {
			continue
		}
		if _, old := preexisting[m[1]]; old {
			continue
		}
		ids[m[1]] = m[2]
		if !blockedForGood(m[2]) {
			all = false
		}
		lines := strings.Split(block, "\n")
		if len(lines) > 9 {
			lines = lines[:9]
		}
		text = append(text, strings.Join(lines, "\n"))
	}
	return ids, all, strings.Join(text, "\n\n")
}

// guard runs call on its own goroutine and waits for it. If it does not
// return within the stall budget while the progress counter stands still, the
// goroutines of the call are classified: a hang is reported only if, in two
// dumps taken apart, the same goroutines are all parked in channel / select /
// sync waits and no call of f is parked in the harness' own controller.
func guard(call func(), progress func() int64, parked func() int) (int, string) {
	preexistingOnce.Do(func() {
		ids, _, _ := callGoroutines()
		preexisting = ids
	})
	done := make(chan struct{})
	go func() {
		defer close(done)
		call()
	}()
	budget := vlib.StallBudget()
	if hangsSeen > 0 {
		budget = 300 * time.Millisecond
	}
	hardCap := 6 * budget
	slice := budget / 10
	waited := time.Duration(0)
	still := time.Duration(0)
	last := progress()
	for {
		select {
		case <-done:
			return guardReturned, ""
		case <-time.After(slice):
		}
		waited += slice
		if p := progress(); p != last {
			last, still = p, 0
		} else {
			still += slice
		}
		if still >= budget {
			break
		}
		if waited >= hardCap {
			return guardUndecided, fmt.Sprintf("PMap still running after %v but progressing (progress counter %d): slow, not hung", waited, last)
		}
	}
	if k := parked(); k > 0 {
		return guardUndecided, fmt.Sprintf("no progress for %v but %d calls of f are parked in the harness controller (harness problem, not a PMap hang)", budget, k)
	}
	ids1, all1, text := callGoroutines()
	gap := 200 * time.Millisecond
	if hangsSeen > 0 {
		gap = 50 * time.Millisecond
	}
	select {
	case <-done:
		return guardReturned, ""
	case <-time.After(gap):
	}
	ids2, all2, _ := callGoroutines()
	sameSet := len(ids1) == len(ids2) && len(ids1) > 0
	for id, s := range ids1 {
		if ids2[id] != s {
			sameSet = false
		}
	}
	if all1 && all2 && sameSet && progress() == last && parked() == 0 {
		hangsSeen++
		return guardHung, text
	}
	return guardUndecided, fmt.Sprintf("no progress for %v but not every goroutine of the call is blocked for good (or the picture changed between two dumps):\n%s", budget, text)
}

// inconclusive ends the process with a status the driver maps to exit 2.
func inconclusive(msg string) {
	fmt.Printf("INCONCLUSIVE-HANG-GUARD: %s\n", msg)
	vlib.S().Note("hang guard undecided: %s", msg)
	vlib.S().Shortfall("hang-guard", 0, 1)
	vlib.S().Flush()
	os.Exit(3)
}

// ---------------------------------------------------------------- verdict + statistics

func isAscending(o []int) bool {
	for i := 1; i < len(o); i++ {
		if o[i] < o[i-1] {
			return false
		}
	}
	return true
}

func isExactReverse(o []int, n int) bool {
	if len(o) != n || n < 2 {
		return false
	}
	for i, x := range o {
		if x != n-1-i {
			return false
		}
	}
	return true
}

// judge records statistics for an executed scenario and reports a failure.
// It returns true if the case hit a known finding (caller skips).
func judge(t vlib.TB, part string, sc scenario, out outcome) bool {
	s := vlib.S()
	s.Eval(part)
	if out.Inconclusive != "" {
		if hangsSeen > 0 { // re-run of an already reported hang while shrinking: do not kill the process
			return false
		}
		inconclusive(out.Inconclusive + "\nscenario: " + sc.String())
	}
	n := len(sc.Vals)
	mode := "ordered"
	if sc.Opt && sc.Random {
		mode = "random-order"
	}
	s.Class("pool/" + sc.poolClass())
	s.Class("mode/" + mode)
	s.Class("ctl/" + ctlNames[sc.Ctl])
	if isExactReverse(out.Order, n) {
		s.Class("completion/exact-reverse")
	}
	if out.StableRel > 0 {
		s.Class("controller/released-by-stability-window")
	}
	if n >= 3 && !isAscending(out.Order) {
		s.Class("nontrivial")
		s.NonTrivial(part, fmt.Sprintf("len=%d %s %s ctl=%s completion-order=%v", n, sc.poolClass(), mode, ctlNames[sc.Ctl], out.Order))
	} else {
		s.Class("trivial")
	}
	if out.FailKey != "" {
		if !vlib.Known(out.FailKey) && replaysWritten < 3 { // rapid re-runs failing cases while shrinking
			replaysWritten++
			vlib.WriteReplay("C16/scenario", map[string]any{"scenario": sc, "observed": out})
		}
		return vlib.Fail(t, out.FailKey, "scenario %s: %s", sc.String(), out.FailMsg)
	}
	return false
}

// ---------------------------------------------------------------- regressions / directed cases (run first)

func seq(n int) []int {
	v := make([]int, n)
	for i := range v {
		v[i] = i + 1
	}
	return v
}

func revPrio(n int) []int { // highest index first => exact reverse completion when all are parked
	p := make([]int, n)
	for i := range p {
		p[i] = i
	}
	return p
}

// No defect of PMap is known; the table pins the directed schedules the
// property talks about (reverse completion, every pool class, both modes).
func directedScenarios() []scenario {
	var out []scenario
	for _, n := range []int{0, 1, 2, 5, 12} {
		for _, random := range []bool{false, true} {
			pools := []struct {
				opt  bool
				pool int
			}{{false, 0}, {true, -2}, {true, 0}, {true, 1}, {true, 2}, {true, n - 1}, {true, n}, {true, n + 3}}
			for _, p := range pools {
				for _, ctl := range []int{ctlControlled, ctlStableOnly} {
					out = append(out, scenario{Vals: seq(n), Opt: p.opt, Pool: p.pool, Random: random && p.opt, A: 2, B: 1,
						Ctl: ctl, Prio: revPrio(n), Yields: make([]int, n)})
				}
			}
		}
	}
	return out
}

func TestRegress(t *testing.T) {
	if vlib.Replaying() {
		t.Skip()
	}
	for _, sc := range directedScenarios() {
		out := runScenario(sc)
		if judge(t, "regress", sc, out) {
			continue
		}
	}
}

// TestReplayJSON re-runs a saved scenario up to 300 times (the schedule is
// only partly owned by the harness) and fails if it reproduces at least once.
func TestReplayJSON(t *testing.T) {
	raw := vlib.ReplayCase("C16/scenario")
	if raw == nil {
		t.Skip("no replay case")
	}
	var doc struct {
		Scenario scenario `json:"scenario"`
	}
	if err := json.Unmarshal(raw, &doc); err != nil {
		t.Fatalf("bad replay: %v", err)
	}
	sc := doc.Scenario
	n := len(sc.Vals)
	if len(sc.Prio) != n || len(sc.Yields) != n || sc.Ctl < 0 || sc.Ctl > ctlStableOnly {
		t.Fatalf("bad replay: inconsistent scenario")
	}
	hits, runs, first := 0, 0, outcome{}
	for runs < 300 {
		runs++
		out := runScenario(sc)
		if out.Inconclusive != "" {
			inconclusive(out.Inconclusive)
		}
		if out.FailKey != "" {
			if hits == 0 {
				first = out
			}
			hits++
			if out.FailKey == "C16/hang" {
				break
			}
		}
	}
	fmt.Printf("REPLAY-STATS: reproduced %d of %d runs\n", hits, runs)
	if hits > 0 {
		t.Fatalf("[key=%s] reproduced %d of %d runs; scenario %s: %s", first.FailKey, hits, runs, sc.String(), first.FailMsg)
	}
}

// ---------------------------------------------------------------- generated scenarios (rapid)

func genScenario(t *rapid.T) scenario {
	var n int
	if rapid.IntRange(0, 3).Draw(t, "lenclass") == 0 {
		n = rapid.IntRange(0, 3).Draw(t, "len.small")
	} else {
		n = rapid.IntRange(0, 40).Draw(t, "len")
	}
	sc := scenario{Vals: make([]int, n), Prio: make([]int, n), Yields: make([]int, n)}
	distinct := rapid.Bool().Draw(t, "distinct")
	for i := range sc.Vals {
		if distinct {
			sc.Vals[i] = i + 1
		} else {
			sc.Vals[i] = rapid.IntRange(-5, 20).Draw(t, "val") // duplicates likely
		}
	}
	switch rapid.IntRange(0, 7).Draw(t, "pool") {
	case 0:
		sc.Opt = false
	case 1:
		sc.Opt, sc.Pool = true, -2
	case 2:
		sc.Opt, sc.Pool = true, 0
	case 3:
		sc.Opt, sc.Pool = true, 1
	case 4:
		sc.Opt, sc.Pool = true, 2
	case 5:
		sc.Opt, sc.Pool = true, n-1
	case 6:
		sc.Opt, sc.Pool = true, n
	default:
		sc.Opt, sc.Pool = true, n+3
	}
	if sc.Opt {
		sc.Random = rapid.Bool().Draw(t, "random")
	}
	sc.A = rapid.IntRange(-3, 3).Draw(t, "a")
	sc.B = rapid.IntRange(-5, 5).Draw(t, "b")
	sc.Ctl = rapid.SampledFrom([]int{ctlNone, ctlYields, ctlControlled, ctlControlled, ctlControlled, ctlStableOnly}).Draw(t, "ctl")
	switch rapid.IntRange(0, 3).Draw(t, "priomode") {
	case 0: // exact reverse
		for i := range sc.Prio {
			sc.Prio[i] = i
		}
	case 1: // input order
		for i := range sc.Prio {
			sc.Prio[i] = n - i
		}
	default: // drawn permutation
		if n > 0 {
			copy(sc.Prio, rapid.Permutation(revPrio(n)).Draw(t, "prio"))
		}
	}
	for i := range sc.Yields {
		sc.Yields[i] = rapid.IntRange(0, 4).Draw(t, "yield")
	}
	return sc
}

func propPMap(t *rapid.T) {
	sc := genScenario(t)
	out := runScenario(sc)
	if judge(t, "pmap", sc, out) {
		t.Skip("known finding")
	}
}

func TestPMap(t *testing.T) {
	replayFilter(t)
	vlib.Check(t, "pmap", 6000, 100000, propPMap)
}

// ---------------------------------------------------------------- second instantiation: PMap[int,string], duplicates, no controller

func propPlain(t *rapid.T) {
	n := rapid.IntRange(0, 40).Draw(t, "len")
	// the list is often a prefix of a larger array (an append-grown slice, xs[:n]): what lies beyond its length
	// is not part of the list
	spare := rapid.SampledFrom([]int{0, 0, 1, 3, 17}).Draw(t, "spareCapacity")
	backing := make([]int, n+spare)
	for i := range backing {
		backing[i] = 777
	}
	vals := backing[:n]
	for i := range vals {
		vals[i] = rapid.IntRange(0, 9).Draw(t, "val")
	}
	var opt *fpgo.PMapOption
	pool, random := 0, false
	if rapid.Bool().Draw(t, "opt") {
		pool = rapid.IntRange(-2, n+3).Draw(t, "pool")
		if rapid.IntRange(0, 7).Draw(t, "hugePool") == 0 {
			// "values larger than the list" has no upper end
			pool = rapid.SampledFrom([]int{1 << 20, math.MaxInt32, math.MaxInt / 3, math.MaxInt}).Draw(t, "pool")
		}
		random = rapid.Bool().Draw(t, "random")
		opt = &fpgo.PMapOption{FixedPool: pool, RandomOrder: random}
	}
	yields := rapid.IntRange(0, 3).Draw(t, "yields")
	desc := fmt.Sprintf("PMap[int,string] vals=%v option=%v pool=%d random=%v", vals, opt != nil, pool, random)

	var mu sync.Mutex
	calls := map[int]int{}
	progress := int64(0)
	f := func(x int) string {
		mu.Lock()
		calls[x]++
		progress++
		mu.Unlock()
		for k := 0; k < yields*(x%3); k++ {
			runtime.Gosched()
		}
		return fmt.Sprintf("<%d>", x)
	}
	var res []string
	var pv any
	status, report := guard(func() { pv, _ = vlib.Try(func() { res = fpgo.PMap(f, opt, vals...) }) },
		func() int64 { mu.Lock(); defer mu.Unlock(); return progress }, func() int { return 0 })
	vlib.S().Eval("plain")
	fail := func(key, format string, a ...any) {
		if vlib.Fail(t, key, "%s: %s", desc, fmt.Sprintf(format, a...)) {
			t.Skip("known finding")
		}
	}
	switch status {
	case guardHung:
		fail("C16/hang", "PMap did not return and every goroutine of the call is blocked for good:\n%s", report)
		return
	case guardUndecided:
		if hangsSeen == 0 {
			inconclusive(report + "\n" + desc)
		}
		return
	}
	if pv != nil {
		fail("C16/panic", "PMap panicked: %v", pv)
	}
	want := make([]string, n)
	mult := map[int]int{}
	for i, v := range vals {
		want[i] = fmt.Sprintf("<%d>", v)
		mult[v]++
	}
	if len(res) != n {
		fail("C16/result-length", "len(result)=%d, len(list)=%d", len(res), n)
	}
	g, w := append([]string(nil), res...), append([]string(nil), want...)
	if random {
		sort.Strings(g)
		sort.Strings(w)
	}
	for i := range w {
		if g[i] != w[i] {
			if random {
				fail("C16/result-values", "result %v is not a permutation of %v", res, want)
			}
			sort.Strings(g)
			sort.Strings(w)
			for j := range w {
				if g[j] != w[j] {
					fail("C16/result-values", "result %v is not (a permutation of) %v", res, want)
				}
			}
			fail("C16/ordered-mode-order", "ordered mode: result %v != %v", res, want)
		}
	}
	mu.Lock()
	defer mu.Unlock()
	for v, k := range calls {
		if mult[v] == 0 {
			fail("C16/foreign-argument", "f applied to %d which is not in the list", v)
		}
		if k != mult[v] {
			fail("C16/applied-not-once", "f applied %d times to value %d which occurs %d times", k, v, mult[v])
		}
	}
	for v, k := range mult {
		if calls[v] != k {
			fail("C16/applied-not-once", "f applied %d times to value %d which occurs %d times", calls[v], v, k)
		}
	}
}

func TestPlain(t *testing.T) {
	replayFilter(t)
	vlib.Check(t, "plain", 3000, 50000, propPlain)
}

// replayFilter skips a rapid-driven test when the process replays a saved
// case that belongs elsewhere: a JSON document (TestReplayJSON handles it) or
// the rapid fail file of another test.
func replayFilter(t *testing.T) {
	f := os.Getenv("VERIF_REPLAY_FILE")
	if f == "" {
		return
	}
	if !strings.HasSuffix(f, ".fail") {
		t.Skip("replaying a JSON case")
	}
	base := filepath.Base(f)
	name := strings.ReplaceAll(t.Name(), "/", "_")
	if strings.Contains(base, "Test") && !strings.Contains(base, name+"-") {
		t.Skip("fail file of another test")
	}
}
