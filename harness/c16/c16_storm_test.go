package c16

import (
	"fmt"
	"runtime"
	"sync/atomic"
	"testing"

	fpgo "github.com/TeaEntityLab/fpGo/v2"

	"verifharness/vlib"
)

// Part "bound-storm": "at most min(FixedPool, len(list)) goroutines at a time ... for every goroutine
// schedule": thousands of calls with a pool smaller than the list (8, 32, 128 over 200-400 elements),
// both order modes, f counting how many applications are in flight. One application too many in one call is a
// violation; so is a wrong result.

func TestBoundStorm(t *testing.T) {
	if vlib.Replaying() {
		t.Skip()
	}
	scale := vlib.Pick(1, 10)
	for _, cfg := range []struct{ pool, n, calls int }{{8, 200, 500}, {32, 200, 2000}, {128, 200, 3000}, {128, 400, 500}} {
		for _, random := range []bool{true, false} {
			callsPer := cfg.calls * scale
			if !random {
				callsPer /= 4
			}
			list := make([]int, cfg.n)
			for i := range list {
				list[i] = i
			}
			opt := &fpgo.PMapOption{FixedPool: cfg.pool, RandomOrder: random}
			for call := 0; call < callsPer; call++ {
				var in, maxIn int32
				var applied int64
				f := func(x int) int {
					n := atomic.AddInt32(&in, 1)
					for {
						m := atomic.LoadInt32(&maxIn)
						if n <= m || atomic.CompareAndSwapInt32(&maxIn, m, n) {
							break
						}
					}
					atomic.AddInt64(&applied, 1)
					runtime.Gosched()
					atomic.AddInt32(&in, -1)
					return x + 1
				}
				var res []int
				p, st := vlib.Try(func() { res = fpgo.PMap(f, opt, list...) })
				vlib.S().Eval("bound-storm")
				desc := fmt.Sprintf("FixedPool=%d len=%d random=%v", cfg.pool, cfg.n, random)
				if call == 0 {
					vlib.S().NonTrivial("bound-storm", desc)
				}
				switch {
				case p != nil:
					vlib.Fail(t, "C16/panic", "%s call %d: %v\n%s", desc, call, p, st)
					return
				case int(maxIn) > cfg.pool:
					vlib.Fail(t, "C16/concurrency-bound", "%s call %d: %d applications of f at the same time, the bound is %d", desc, call, maxIn, cfg.pool)
					return
				case applied != int64(cfg.n) || len(res) != cfg.n:
					vlib.Fail(t, "C16/result-values", "%s call %d: f applied %d times, %d results", desc, call, applied, len(res))
					return
				}
				sum := 0
				for i, v := range res {
					sum += v
					if !random && v != i+1 {
						vlib.Fail(t, "C16/ordered-mode-order", "%s call %d: result[%d] = %d, want %d", desc, call, i, v, i+1)
						return
					}
				}
				if sum != cfg.n*(cfg.n+1)/2 {
					vlib.Fail(t, "C16/result-values", "%s call %d: the results are not a permutation of Map(f, list)", desc, call)
					return
				}
			}
		}
	}
}
