package c16

import (
	"errors"
	"fmt"
	"runtime"
	"sort"
	"sync"
	"sync/atomic"
	"testing"

	fpgo "github.com/TeaEntityLab/fpGo/v2"
	"pgregory.net/rapid"

	"verifharness/vlib"
)

// Part "shared-option": one *PMapOption value is reused for a sequence of PMap calls over lists of
// different lengths (including the empty list), as a caller holding a configured option does. Every
// call obeys "at most min(FixedPool, len(list)) goroutines at a time" for the FixedPool the CALLER
// configured — PMap must not rewrite the caller's option. The result type is an interface type
// (error) and f returns nil for some elements: "exactly Map(f, list)" holds for every f and R.

var errOdd = errors.New("odd")

func propSharedOption(t *rapid.T) {
	pool := rapid.IntRange(-1, 4).Draw(t, "pool")
	random := rapid.Bool().Draw(t, "random")
	ncalls := rapid.IntRange(1, 5).Draw(t, "calls")
	lens := make([]int, ncalls)
	for i := range lens {
		lens[i] = rapid.SampledFrom([]int{0, 0, 1, 3, 6, 9, 14}).Draw(t, "len")
	}
	opt := &fpgo.PMapOption{FixedPool: pool, RandomOrder: random}
	desc := fmt.Sprintf("shared option pool=%d random=%v lens=%v", pool, random, lens)
	vlib.S().Eval("shared-option")
	zeroSeen, later := false, false
	for _, n := range lens {
		if n == 0 {
			zeroSeen = true
		} else if zeroSeen {
			later = true
		}
	}
	if later && pool > 0 {
		vlib.S().NonTrivial("shared-option", desc)
	}
	fail := func(key, format string, a ...any) {
		if vlib.Fail(t, key, "%s: %s", desc, fmt.Sprintf(format, a...)) {
			t.Skip("known finding")
		}
	}
	for ci, n := range lens {
		list := make([]int, n)
		for i := range list {
			list[i] = ci*100 + i
		}
		var inflight, maxIn int32
		var mu sync.Mutex
		calls := map[int]int{}
		f := func(x int) error {
			c := atomic.AddInt32(&inflight, 1)
			for {
				m := atomic.LoadInt32(&maxIn)
				if c <= m || atomic.CompareAndSwapInt32(&maxIn, m, c) {
					break
				}
			}
			mu.Lock()
			calls[x]++
			mu.Unlock()
			for k := 0; k < 30; k++ {
				runtime.Gosched()
			}
			atomic.AddInt32(&inflight, -1)
			if x%2 == 0 {
				return nil // a nil interface value is an ordinary result
			}
			return errOdd
		}
		var res []error
		var pv any
		status, report := guard(func() { pv, _ = vlib.Try(func() { res = fpgo.PMap(f, opt, list...) }) },
			func() int64 { mu.Lock(); defer mu.Unlock(); return int64(len(calls)) }, func() int { return 0 })
		switch status {
		case guardHung:
			fail("C16/hang", "call %d (len %d): PMap did not return:\n%s", ci, n, report)
			return
		case guardUndecided:
			if hangsSeen == 0 {
				inconclusive(report + "\n" + desc)
			}
			return
		}
		if pv != nil {
			fail("C16/panic", "call %d (len %d, R = error, f returns nil for even elements): PMap panicked: %v", ci, n, pv)
			return
		}
		if opt.FixedPool != pool || opt.RandomOrder != random {
			// not a violation by itself; what matters is that later calls still obey the configured bound
			vlib.S().Class("shared-option/option-rewritten")
		}
		if len(res) != n {
			fail("C16/result-length", "call %d: len(result)=%d, len(list)=%d", ci, len(res), n)
			return
		}
		want := make([]string, n)
		got := make([]string, n)
		for i, x := range list {
			want[i] = fmt.Sprint(f0(x))
			got[i] = fmt.Sprint(res[i])
		}
		if random {
			sort.Strings(want)
			sort.Strings(got)
		}
		for i := range want {
			if want[i] != got[i] {
				fail("C16/result-values", "call %d: result %v, Map gives %v", ci, got, want)
				return
			}
		}
		bound := n
		if pool > 0 && pool < n {
			bound = pool
		}
		if int(maxIn) > bound {
			fail("C16/concurrency-bound", "call %d (len %d): %d applications of f at the same time, bound is min(FixedPool=%d, len) = %d", ci, n, maxIn, pool, bound)
			return
		}
		for _, x := range list {
			if calls[x] != 1 {
				fail("C16/applied-not-once", "call %d: f applied %d times to element %d", ci, calls[x], x)
				return
			}
		}
	}
}

func f0(x int) error {
	if x%2 == 0 {
		return nil
	}
	return errOdd
}

func TestSharedOption(t *testing.T) {
	replayFilter(t)
	vlib.Check(t, "shared-option", 1500, 20000, propSharedOption)
}
