package c02

// C02 — Maybe numeric conversions are value-preserving or fail; never silently wrap.
//
// Every case is (source value, target conversion, constructor mode). The exact
// mathematical value of the source is held as a *big.Rat (or a non-finite
// class); the oracle decides must-succeed / must-fail / either, and whenever
// the conversion returns a nil error the result must be the exact expected
// number. Nothing of fpGo is used to compute expectations.

import (
	"encoding/json"
	"errors"
	"fmt"
	"math"
	"math/big"
	"math/bits"
	"strconv"
	"strings"
	"testing"
	"time"

	fpgo "github.com/TeaEntityLab/fpGo/v2"
	"pgregory.net/rapid"

	"verifharness/vlib"
)

func TestMain(m *testing.M) { vlib.Main(m) }

// ---------------------------------------------------------------- sources

const (
	clsFinite = iota
	clsNaN
	clsPosInf
	clsNegInf
)

// source is one wrapped value.
type source struct {
	Type string `json:"type"` // bool,int,int8,...,uintptr,float32,float64,string-int,string-float
	Bits uint64 `json:"bits"` // two's complement / IEEE bits / 0|1 (unused for strings)
	Str  string `json:"str"`  // string sources
}

var intTypes = []string{"int", "int8", "int16", "int32", "int64"}
var uintTypes = []string{"uint", "uint8", "uint16", "uint32", "uint64", "uintptr"}
var numericTypes = []string{"bool", "int", "int8", "int16", "int32", "int64", "uint", "uint8", "uint16", "uint32", "uint64", "uintptr", "float32", "float64"}

func typeBits(t string) int {
	switch t {
	case "int8", "uint8":
		return 8
	case "int16", "uint16":
		return 16
	case "int32", "uint32", "float32":
		return 32
	case "int", "uint", "uintptr":
		return bits.UintSize
	}
	return 64
}

// goValue returns the Go value to wrap.
func (s source) goValue() any {
	switch s.Type {
	case "bool":
		return s.Bits != 0
	case "int":
		return int(int64(s.Bits))
	case "int8":
		return int8(s.Bits)
	case "int16":
		return int16(s.Bits)
	case "int32":
		return int32(s.Bits)
	case "int64":
		return int64(s.Bits)
	case "uint":
		return uint(s.Bits)
	case "uint8":
		return uint8(s.Bits)
	case "uint16":
		return uint16(s.Bits)
	case "uint32":
		return uint32(s.Bits)
	case "uint64":
		return s.Bits
	case "uintptr":
		return uintptr(s.Bits)
	case "float32":
		return math.Float32frombits(uint32(s.Bits))
	case "float64":
		return math.Float64frombits(s.Bits)
	case "string-int", "string-float":
		return s.Str
	}
	panic("bad source type " + s.Type)
}

// exact returns the class and, when finite, the exact rational value.
func (s source) exact() (int, *big.Rat) {
	switch s.Type {
	case "bool":
		if s.Bits != 0 {
			return clsFinite, big.NewRat(1, 1)
		}
		return clsFinite, new(big.Rat)
	case "int", "int8", "int16", "int32", "int64":
		var v int64
		switch s.Type {
		case "int":
			v = int64(int(int64(s.Bits)))
		case "int8":
			v = int64(int8(s.Bits))
		case "int16":
			v = int64(int16(s.Bits))
		case "int32":
			v = int64(int32(s.Bits))
		default:
			v = int64(s.Bits)
		}
		return clsFinite, new(big.Rat).SetInt64(v)
	case "uint", "uint8", "uint16", "uint32", "uint64", "uintptr":
		var v uint64
		switch s.Type {
		case "uint":
			v = uint64(uint(s.Bits))
		case "uint8":
			v = uint64(uint8(s.Bits))
		case "uint16":
			v = uint64(uint16(s.Bits))
		case "uint32":
			v = uint64(uint32(s.Bits))
		case "uintptr":
			v = uint64(uintptr(s.Bits))
		default:
			v = s.Bits
		}
		return clsFinite, new(big.Rat).SetInt(new(big.Int).SetUint64(v))
	case "float32", "float64":
		var f float64
		if s.Type == "float32" {
			f = float64(math.Float32frombits(uint32(s.Bits))) // exact widening
		} else {
			f = math.Float64frombits(s.Bits)
		}
		switch {
		case math.IsNaN(f):
			return clsNaN, nil
		case math.IsInf(f, 1):
			return clsPosInf, nil
		case math.IsInf(f, -1):
			return clsNegInf, nil
		}
		return clsFinite, new(big.Rat).SetFloat64(f)
	case "string-int", "string-float":
		switch s.Str {
		case "NaN":
			return clsNaN, nil
		case "+Inf", "Inf":
			return clsPosInf, nil
		case "-Inf":
			return clsNegInf, nil
		}
		r, ok := new(big.Rat).SetString(s.Str)
		if !ok || strings.ContainsAny(s.Str, "/xXpP_") {
			panic("harness generated an unparsable numeric string: " + s.Str)
		}
		return clsFinite, r
	}
	panic("bad source type " + s.Type)
}

func (s source) String() string {
	switch s.Type {
	case "string-int", "string-float":
		return fmt.Sprintf("string(%q)", s.Str)
	case "float32":
		f := math.Float32frombits(uint32(s.Bits))
		return fmt.Sprintf("float32(%s = %s)", strconv.FormatFloat(float64(f), 'g', -1, 32), strconv.FormatFloat(float64(f), 'x', -1, 32))
	case "float64":
		f := math.Float64frombits(s.Bits)
		return fmt.Sprintf("float64(%s = %s)", strconv.FormatFloat(f, 'g', -1, 64), strconv.FormatFloat(f, 'x', -1, 64))
	}
	return fmt.Sprintf("%s(%v)", s.Type, s.goValue())
}

func (s source) goType() string {
	if strings.HasPrefix(s.Type, "string") {
		return "string"
	}
	return s.Type
}

// ---------------------------------------------------------------- targets

type conv interface {
	ToInt() (int, error)
	ToInt8() (int8, error)
	ToInt16() (int16, error)
	ToInt32() (int32, error)
	ToInt64() (int64, error)
	ToByte() (byte, error)
	ToUint8() (uint8, error)
	ToUint() (uint, error)
	ToUint16() (uint16, error)
	ToUint32() (uint32, error)
	ToUint64() (uint64, error)
	ToUintptr() (uintptr, error)
	ToFloat32() (float32, error)
	ToFloat64() (float64, error)
	ToBool() (bool, error)
}

const (
	kSigned = iota
	kUnsigned
	kFloat32
	kFloat64
	kBool
)

type target struct {
	name string
	kind int
	// integer targets: real range [lo,hi] and portable must-accept range [plo,phi]
	lo, hi, plo, phi *big.Int
	// call returns the result as exact integer (integer targets), float (float targets) or bool
	call func(c conv) (i *big.Int, f float64, b bool, err error)
}

func pow2(n uint) *big.Int     { return new(big.Int).Lsh(big.NewInt(1), n) }
func sub1(x *big.Int) *big.Int { return new(big.Int).Sub(x, big.NewInt(1)) }
func neg(x *big.Int) *big.Int  { return new(big.Int).Neg(x) }

func sTarget(name string, realBits, portableBits uint, call func(c conv) (int64, error)) target {
	return target{name: name, kind: kSigned,
		lo: neg(pow2(realBits - 1)), hi: sub1(pow2(realBits - 1)),
		plo: neg(pow2(portableBits - 1)), phi: sub1(pow2(portableBits - 1)),
		call: func(c conv) (*big.Int, float64, bool, error) {
			v, err := call(c)
			return big.NewInt(v), 0, false, err
		}}
}

func uTarget(name string, realBits, portableBits uint, call func(c conv) (uint64, error)) target {
	return target{name: name, kind: kUnsigned,
		lo: big.NewInt(0), hi: sub1(pow2(realBits)),
		plo: big.NewInt(0), phi: sub1(pow2(portableBits)),
		call: func(c conv) (*big.Int, float64, bool, error) {
			v, err := call(c)
			return new(big.Int).SetUint64(v), 0, false, err
		}}
}

var targets = []target{
	sTarget("ToInt", bits.UintSize, 32, func(c conv) (int64, error) { v, e := c.ToInt(); return int64(v), e }),
	sTarget("ToInt8", 8, 8, func(c conv) (int64, error) { v, e := c.ToInt8(); return int64(v), e }),
	sTarget("ToInt16", 16, 16, func(c conv) (int64, error) { v, e := c.ToInt16(); return int64(v), e }),
	sTarget("ToInt32", 32, 32, func(c conv) (int64, error) { v, e := c.ToInt32(); return int64(v), e }),
	sTarget("ToInt64", 64, 64, func(c conv) (int64, error) { v, e := c.ToInt64(); return v, e }),
	uTarget("ToByte", 8, 8, func(c conv) (uint64, error) { v, e := c.ToByte(); return uint64(v), e }),
	uTarget("ToUint8", 8, 8, func(c conv) (uint64, error) { v, e := c.ToUint8(); return uint64(v), e }),
	uTarget("ToUint", bits.UintSize, 32, func(c conv) (uint64, error) { v, e := c.ToUint(); return uint64(v), e }),
	uTarget("ToUint16", 16, 16, func(c conv) (uint64, error) { v, e := c.ToUint16(); return uint64(v), e }),
	uTarget("ToUint32", 32, 32, func(c conv) (uint64, error) { v, e := c.ToUint32(); return uint64(v), e }),
	uTarget("ToUint64", 64, 64, func(c conv) (uint64, error) { v, e := c.ToUint64(); return v, e }),
	uTarget("ToUintptr", bits.UintSize, 32, func(c conv) (uint64, error) { v, e := c.ToUintptr(); return uint64(v), e }),
	{name: "ToFloat32", kind: kFloat32, call: func(c conv) (*big.Int, float64, bool, error) {
		v, e := c.ToFloat32()
		return nil, float64(v), false, e
	}},
	{name: "ToFloat64", kind: kFloat64, call: func(c conv) (*big.Int, float64, bool, error) {
		v, e := c.ToFloat64()
		return nil, v, false, e
	}},
	{name: "ToBool", kind: kBool, call: func(c conv) (*big.Int, float64, bool, error) {
		v, e := c.ToBool()
		return nil, 0, v, e
	}},
}

var targetByName = func() map[string]*target {
	m := map[string]*target{}
	for i := range targets {
		m[targets[i].name] = &targets[i]
	}
	return m
}()

// applicable: which (source, target) pairs the statement covers.
func applicable(s source, t *target) bool {
	switch s.Type {
	case "string-int": // plain decimal integer renderings -> integer targets
		return t.kind == kSigned || t.kind == kUnsigned
	case "string-float": // strconv.FormatFloat renderings -> float targets
		return t.kind == kFloat32 || t.kind == kFloat64
	}
	return true
}

// ---------------------------------------------------------------- wrapping (both constructors)

const numModes = 3

func wrapTyped[T any](v any) any { return fpgo.JustGenerics[T](v.(T)) }

// wrap builds the Maybe: mode 0 Maybe.Just(v), 1 JustGenerics[any](v), 2 JustGenerics[T](v).
func wrap(v any, mode int) conv {
	var m any
	switch mode {
	case 0:
		m = fpgo.Maybe.Just(v)
	case 1:
		m = fpgo.JustGenerics[any](v)
	default:
		switch v.(type) {
		case bool:
			m = wrapTyped[bool](v)
		case int:
			m = wrapTyped[int](v)
		case int8:
			m = wrapTyped[int8](v)
		case int16:
			m = wrapTyped[int16](v)
		case int32:
			m = wrapTyped[int32](v)
		case int64:
			m = wrapTyped[int64](v)
		case uint:
			m = wrapTyped[uint](v)
		case uint8:
			m = wrapTyped[uint8](v)
		case uint16:
			m = wrapTyped[uint16](v)
		case uint32:
			m = wrapTyped[uint32](v)
		case uint64:
			m = wrapTyped[uint64](v)
		case uintptr:
			m = wrapTyped[uintptr](v)
		case float32:
			m = wrapTyped[float32](v)
		case float64:
			m = wrapTyped[float64](v)
		case string:
			m = wrapTyped[string](v)
		default:
			m = fpgo.JustGenerics[any](v)
		}
	}
	c, ok := m.(conv)
	if !ok {
		return nil
	}
	return c
}

// ---------------------------------------------------------------- oracle

// roundHalfAway rounds x to the nearest integer, ties away from zero.
func roundHalfAway(x *big.Rat) *big.Int {
	num, den := x.Num(), x.Denom()                      // den > 0
	q, r := new(big.Int).QuoRem(num, den, new(big.Int)) // truncated toward zero
	r2 := new(big.Int).Abs(r)
	r2.Lsh(r2, 1)
	if r2.Cmp(den) >= 0 {
		if num.Sign() < 0 {
			q.Sub(q, big.NewInt(1))
		} else {
			q.Add(q, big.NewInt(1))
		}
	}
	return q
}

func inRangeRat(x *big.Rat, lo, hi *big.Int) bool {
	return x.Cmp(new(big.Rat).SetInt(lo)) >= 0 && x.Cmp(new(big.Rat).SetInt(hi)) <= 0
}

func inRangeInt(x, lo, hi *big.Int) bool { return x.Cmp(lo) >= 0 && x.Cmp(hi) <= 0 }

var (
	maxF32 = new(big.Rat).SetFloat64(math.MaxFloat32)
	maxF64 = new(big.Rat).SetFloat64(math.MaxFloat64)
)

type verdict struct {
	key, msg   string
	nontrivial string // value class when the case is non-trivial by the rule, else ""
	outcome    string // "ok-value", "ok-error", for the class histogram
}

// judge runs one conversion and compares with the exact oracle.
func judge(s source, t *target, mode int) (v verdict) {
	cell := "C02/" + t.name + "<-" + s.goType()
	what := fmt.Sprintf("%s.%s() [mode %d]", s, t.name, mode)
	cls, x := s.exact()
	var (
		gi   *big.Int
		gf   float64
		gb   bool
		err  error
		have bool
	)
	p, stack := vlib.Try(func() {
		c := wrap(s.goValue(), mode)
		if c == nil {
			return
		}
		have = true
		gi, gf, gb, err = t.call(c)
	})
	if p != nil {
		v.key, v.msg = cell+"/panic", fmt.Sprintf("%s panicked: %v\n%s", what, p, stack)
		return
	}
	if !have {
		v.key, v.msg = "C02/conversion-methods-unreachable", "the Maybe value does not expose the 15 conversion methods"
		return
	}
	if err == nil {
		v.outcome = "value"
	} else {
		v.outcome = "error"
	}
	fail := func(f string, a ...any) {
		if v.key == "" {
			v.key, v.msg = cell, what+": "+fmt.Sprintf(f, a...)
		}
	}

	switch t.kind {
	case kSigned, kUnsigned:
		if cls != clsFinite {
			v.nontrivial = "non-finite"
			if err == nil {
				fail("non-finite source converted with nil error to %v", gi)
			}
			return
		}
		r := roundHalfAway(x)
		mustOK := inRangeRat(x, t.plo, t.phi)
		mustFail := !inRangeInt(r, t.lo, t.hi)
		v.nontrivial = intClass(x, r, t)
		switch {
		case err == nil && mustFail:
			fail("value %s is outside %s's range but the conversion returned (%v, nil)", r, t.name, gi)
		case err == nil && gi.Cmp(r) != 0:
			fail("returned (%v, nil), mathematically %s (exact source %s)", gi, r, x.RatString())
		case err != nil && mustOK:
			fail("value fits %s but the conversion failed: %v", t.name, err)
		}
	case kFloat32, kFloat64:
		if cls != clsFinite {
			v.nontrivial = "non-finite"
			if err == nil {
				ok := (cls == clsNaN && math.IsNaN(gf)) || (cls == clsPosInf && math.IsInf(gf, 1)) || (cls == clsNegInf && math.IsInf(gf, -1))
				if !ok {
					fail("non-finite source converted with nil error to %v", gf)
				}
			} else if gt := s.goType(); gt == "float32" || gt == "float64" {
				// NaN and the infinities are values of both float types: a float source holding one fits
				// the float target ("every value that fits the target type converts successfully")
				fail("a %s holding a non-finite value fits %s but the conversion failed: %v", gt, t.name, err)
			}
			return
		}
		var nearest float64
		var fits bool
		ax := new(big.Rat).Abs(x)
		if t.kind == kFloat32 {
			n32, _ := x.Float32()
			nearest = float64(n32)
			fits = ax.Cmp(maxF32) <= 0
		} else {
			nearest, _ = x.Float64()
			fits = ax.Cmp(maxF64) <= 0
		}
		v.nontrivial = floatClass(ax, t)
		overflow := math.IsInf(nearest, 0)
		switch {
		case err != nil && fits:
			fail("value fits %s but the conversion failed: %v", t.name, err)
		case err == nil && overflow:
			fail("finite source overflows %s but the conversion returned (%v, nil)", t.name, gf)
		case err == nil && (math.IsNaN(gf) || math.IsInf(gf, 0)):
			fail("finite source converted to %v with nil error", gf)
		case err == nil && gf != nearest:
			// accept the other neighbour only at an exact tie
			dg := new(big.Rat).Sub(new(big.Rat).SetFloat64(gf), x)
			dn := new(big.Rat).Sub(new(big.Rat).SetFloat64(nearest), x)
			if dg.Abs(dg).Cmp(dn.Abs(dn)) != 0 {
				fail("returned (%v, nil), nearest representable value is %v", gf, nearest)
			}
		}
	case kBool:
		if s.goType() == "string" {
			return
		}
		if cls != clsFinite {
			v.nontrivial = "non-finite"
			if err == nil && !gb {
				fail("ToBool of a non-finite number returned (false, nil)")
			}
			return
		}
		want := x.Sign() != 0
		if s.Type == "bool" {
			want = s.Bits != 0
		}
		if x.Sign() == 0 || x.Cmp(big.NewRat(1, 1)) < 0 && x.Cmp(big.NewRat(-1, 1)) > 0 {
			v.nontrivial = "zero-or-fraction"
		}
		if err != nil {
			fail("ToBool of a number failed: %v", err)
		} else if gb != want {
			fail("ToBool returned %v, want %v (value != 0)", gb, want)
		}
	}
	return
}

// intClass names the value class when x is within 1 of a bound of the target
// or negative for an unsigned target; "" otherwise.
func intClass(x *big.Rat, r *big.Int, t *target) string {
	one := big.NewRat(1, 1)
	near := func(b *big.Int) string {
		d := new(big.Rat).Sub(x, new(big.Rat).SetInt(b))
		ad := new(big.Rat).Abs(d)
		if ad.Cmp(one) > 0 {
			return ""
		}
		switch {
		case d.Sign() == 0:
			return "at"
		case d.Sign() < 0 && ad.Cmp(one) == 0:
			return "-1"
		case d.Sign() < 0:
			return "-frac"
		case ad.Cmp(one) == 0:
			return "+1"
		}
		return "+frac"
	}
	for _, b := range []struct {
		n string
		v *big.Int
	}{{"lo", t.lo}, {"hi", t.hi}, {"plo", t.plo}, {"phi", t.phi}} {
		if c := near(b.v); c != "" {
			return b.n + ":" + c
		}
	}
	if t.kind == kUnsigned && x.Sign() < 0 {
		return "negative->unsigned"
	}
	return ""
}

// floatClass: within one float32/float64 ulp of the largest finite value.
func floatClass(ax *big.Rat, t *target) string {
	max, ulp := maxF64, new(big.Rat).SetFloat64(math.Ldexp(1, 971))
	if t.kind == kFloat32 {
		max, ulp = maxF32, new(big.Rat).SetFloat64(math.Ldexp(1, 104))
	}
	d := new(big.Rat).Sub(ax, max)
	if new(big.Rat).Abs(d).Cmp(ulp) <= 0 {
		switch d.Sign() {
		case 0:
			return "at-max"
		case 1:
			return "above-max"
		}
		return "below-max"
	}
	return ""
}

// runCase = judge + statistics.
func runCase(part string, s source, t *target, mode int) verdict {
	st := vlib.S()
	st.Eval(part)
	v := judge(s, t, mode)
	if v.nontrivial != "" {
		st.NonTrivial(part, fmt.Sprintf("%s -> %s : %s", s.goType(), t.name, v.nontrivial))
		st.Class(part + "/nontrivial")
	} else {
		st.Class(part + "/interior")
	}
	st.Class(part + "/returned-" + v.outcome)
	return v
}

// ---------------------------------------------------------------- replay document

type kase struct {
	Source source `json:"source"`
	Target string `json:"target"`
	Mode   int    `json:"mode"`
}

func TestReplayJSON(t *testing.T) {
	raw := vlib.ReplayCase("C02/case")
	if raw == nil {
		t.Skip("no replay case")
	}
	var doc struct {
		Case kase `json:"case"`
	}
	if err := json.Unmarshal(raw, &doc); err != nil {
		t.Fatalf("bad replay: %v", err)
	}
	tg := targetByName[doc.Case.Target]
	if tg == nil {
		t.Fatalf("bad replay target %q", doc.Case.Target)
	}
	v := runCase("replay", doc.Case.Source, tg, doc.Case.Mode)
	if v.key != "" {
		t.Fatalf("[key=%s] replay: %s", v.key, v.msg)
	}
}

// ---------------------------------------------------------------- boundary set

// bounds of all targets and their immediate neighbours (as exact integers).
func boundaryInts() []*big.Int {
	var base []*big.Int
	base = append(base, big.NewInt(0))
	for _, n := range []uint{7, 8, 15, 16, 24, 31, 32, 53, 63, 64} {
		base = append(base, pow2(n), neg(pow2(n)))
	}
	seen := map[string]bool{}
	var out []*big.Int
	for _, b := range base {
		for d := int64(-2); d <= 2; d++ {
			c := new(big.Int).Add(b, big.NewInt(d))
			if !seen[c.String()] {
				seen[c.String()] = true
				out = append(out, c)
			}
		}
	}
	return out
}

// midpointInts: m*2^(e-p+1) + 2^(e-p) + d for mantissa widths p in {24, 53}, exponents e up to 63,
// a few mantissa patterns m (even and odd last bit) and d in {-1, +1}, both signs.
func midpointInts() []*big.Int {
	var out []*big.Int
	for _, p := range []uint{24, 53} {
		for e := p + 1; e <= 63; e++ {
			half := pow2(e - p) // half an ulp at exponent e
			ulp := pow2(e - p + 1)
			for _, m := range []*big.Int{pow2(p - 1), new(big.Int).Add(pow2(p-1), big.NewInt(1)), sub1(pow2(p)), new(big.Int).Sub(pow2(p), big.NewInt(2))} {
				base := new(big.Int).Add(new(big.Int).Mul(m, ulp), half)
				for _, d := range []int64{-1, 1} {
					v := new(big.Int).Add(base, big.NewInt(d))
					out = append(out, v, neg(v))
				}
			}
		}
	}
	return out
}

func fitsInt(c *big.Int, typ string) (uint64, bool) {
	n := uint(typeBits(typ))
	for _, it := range intTypes {
		if it == typ {
			if c.Cmp(neg(pow2(n-1))) >= 0 && c.Cmp(sub1(pow2(n-1))) <= 0 {
				return uint64(c.Int64()), true
			}
			return 0, false
		}
	}
	if c.Sign() >= 0 && c.Cmp(sub1(pow2(n))) <= 0 {
		return c.Uint64(), true
	}
	return 0, false
}

func f64src(f float64) source { return source{Type: "float64", Bits: math.Float64bits(f)} }
func f32src(f float32) source { return source{Type: "float32", Bits: uint64(math.Float32bits(f))} }

var fracOffsets = []float64{0.49, 0.5, 0.51, 0.25, 0.75, 0.999}

// boundarySources builds the boundary value set of every source type.
func boundarySources() []source {
	var out []source
	seen := map[source]bool{}
	add := func(s source) {
		if !seen[s] {
			seen[s] = true
			out = append(out, s)
		}
	}
	add(source{Type: "bool", Bits: 0})
	add(source{Type: "bool", Bits: 1})
	cands := boundaryInts()
	for _, typ := range append(append([]string{}, intTypes...), uintTypes...) {
		for _, c := range cands {
			if b, ok := fitsInt(c, typ); ok {
				add(source{Type: typ, Bits: b})
			}
		}
		// integers one off an exact float32 / float64 rounding midpoint (more significant bits than the
		// target mantissa): converting them through an intermediate float type rounds twice and can
		// end one ulp away from the nearest value
		for _, c := range midpointInts() {
			if b, ok := fitsInt(c, typ); ok {
				add(source{Type: typ, Bits: b})
			}
		}
	}
	// floats
	for _, c := range cands {
		cf, _ := new(big.Float).SetInt(c).Float64()
		// float64 neighbours
		for _, f := range []float64{cf, math.Nextafter(cf, math.Inf(1)), math.Nextafter(cf, math.Inf(-1))} {
			add(f64src(f))
		}
		for _, o := range fracOffsets {
			add(f64src(cf + o))
			add(f64src(cf - o))
		}
		// the immediate float neighbours of every rounding tie c±0.5 (an implementation that
		// rounds by adding 0.5 and truncating gets the predecessor of a tie wrong)
		for _, tie := range []float64{cf + 0.5, cf - 0.5} {
			add(f64src(math.Nextafter(tie, math.Inf(1))))
			add(f64src(math.Nextafter(tie, math.Inf(-1))))
			t32 := float32(tie)
			if float64(t32) == tie {
				add(f32src(math.Nextafter32(t32, float32(math.Inf(1)))))
				add(f32src(math.Nextafter32(t32, float32(math.Inf(-1)))))
			}
		}
		c32 := float32(cf)
		for _, f := range []float32{c32, math.Nextafter32(c32, float32(math.Inf(1))), math.Nextafter32(c32, float32(math.Inf(-1)))} {
			add(f32src(f))
		}
		for _, o := range fracOffsets {
			add(f32src(c32 + float32(o)))
			add(f32src(c32 - float32(o)))
		}
	}
	negZero := math.Copysign(0, -1)
	half32 := math.Ldexp(1, 103) // half a float32 ulp at MaxFloat32
	for _, f := range []float64{0, negZero, math.NaN(), math.Inf(1), math.Inf(-1),
		math.MaxFloat64, -math.MaxFloat64, math.Nextafter(math.MaxFloat64, 0),
		math.SmallestNonzeroFloat64, -math.SmallestNonzeroFloat64, 2.2250738585072014e-308, 2.225073858507201e-308,
		math.MaxFloat32, -math.MaxFloat32,
		math.Nextafter(math.MaxFloat32, math.Inf(1)), math.Nextafter(math.MaxFloat32, 0),
		math.MaxFloat32 + half32, math.Nextafter(math.MaxFloat32+half32, 0), math.Nextafter(math.MaxFloat32+half32, math.Inf(1)),
		-(math.MaxFloat32 + half32), -math.Nextafter(math.MaxFloat32+half32, 0),
		math.Ldexp(1, 128), -math.Ldexp(1, 128), 1e39, -1e39, 1e300, -1e300,
		math.SmallestNonzeroFloat32, math.SmallestNonzeroFloat32 / 2, math.Nextafter(math.SmallestNonzeroFloat32/2, 1), math.SmallestNonzeroFloat32 / 4,
		1.1754943508222875e-38, math.Nextafter(1.1754943508222875e-38, 0),
		1 + math.Ldexp(1, -24), math.Nextafter(1+math.Ldexp(1, -24), 2), 1 + 3*math.Ldexp(1, -24), // float32 ties
		0.1, -0.1, 1.1, 1.2, 1e10, -1e10, 1e19, 1e20, -1e19, math.Pi} {
		add(f64src(f))
	}
	for _, f := range []float32{0, float32(negZero), float32(math.NaN()), float32(math.Inf(1)), float32(math.Inf(-1)),
		math.MaxFloat32, -math.MaxFloat32, math.Nextafter32(math.MaxFloat32, 0),
		math.SmallestNonzeroFloat32, -math.SmallestNonzeroFloat32, 1.1754944e-38, 0.1, -0.1, 1.1, 1e10, -1e10, 1e19, 1e20, 3e38} {
		add(f32src(f))
	}
	// strings: decimal renderings of the integer candidates (+ some far out of range)
	for _, c := range cands {
		add(source{Type: "string-int", Str: c.String()})
	}
	for _, extra := range []string{"200", "-5", "40000", "3000000000", "100000000000000000000", "-100000000000000000000", "1", "-1", "12345"} {
		add(source{Type: "string-int", Str: extra})
	}
	// zero-padded decimal renderings are still decimal numbers ("010" is ten, "08" is eight)
	for _, extra := range []string{"010", "0755", "-010", "08", "-08", "007", "00", "0255", "0256", "00032767", "0032768", "0000000000000000000042", "09223372036854775807", "018446744073709551615"} {
		add(source{Type: "string-int", Str: extra})
	}
	// strings: FormatFloat renderings of the float boundary set
	for _, s := range append([]source{}, out...) {
		switch s.Type {
		case "float64":
			f := math.Float64frombits(s.Bits)
			for _, fm := range []byte{'g', 'e', 'f'} {
				add(source{Type: "string-float", Str: strconv.FormatFloat(f, fm, -1, 64)})
			}
		case "float32":
			f := float64(math.Float32frombits(uint32(s.Bits)))
			add(source{Type: "string-float", Str: strconv.FormatFloat(f, 'g', -1, 32)})
		}
	}
	return out
}

// ---------------------------------------------------------------- regressions (replay tier)

func iSrc(typ string, v int64) source  { return source{Type: typ, Bits: uint64(v)} }
func uSrc(typ string, v uint64) source { return source{Type: typ, Bits: v} }
func sInt(s string) source             { return source{Type: "string-int", Str: s} }

var regressions = []struct {
	s source
	t string
}{
	// DESIGN §4 #4: narrowing without (correct) range guard
	{f64src(1e10), "ToInt32"},                     // (-2147483648, nil)
	{f64src(math.NaN()), "ToInt32"},               // (garbage, nil)
	{f64src(-1), "ToUint32"},                      // wraps
	{f64src(4294967296), "ToUint32"},              // wraps
	{f64src(-1), "ToUintptr"},                     // (2^64-1, nil)
	{f32src(-1), "ToUintptr"},                     //
	{f64src(math.Inf(1)), "ToUintptr"},            //
	{f32src(2147483648), "ToInt32"},               // guard constant rounds up in float32
	{f32src(9223372036854775808), "ToInt64"},      // 2^63 passes `<= MaxInt64`
	{f64src(9223372036854775808), "ToInt64"},      //
	{f32src(4294967296), "ToUint32"},              // 2^32 passes `<= MaxUint32` in float32
	{f64src(18446744073709551616), "ToUint64"},    // 2^64 passes `<= MaxUint64`
	{f32src(18446744073709551616), "ToUint64"},    //
	{iSrc("int8", -1), "ToByte"},                  // (255, nil)
	{iSrc("int8", -1), "ToUint8"},                 //
	{iSrc("int", -1), "ToUint"},                   // (2^64-1, nil)
	{iSrc("int8", -1), "ToUint"},                  //
	{iSrc("int16", -1), "ToUint"},                 //
	{iSrc("int32", -1), "ToUint"},                 //
	{iSrc("int8", -1), "ToUint16"},                //
	{iSrc("int16", -1), "ToUint16"},               //
	{iSrc("int8", -1), "ToUint32"},                //
	{iSrc("int16", -1), "ToUint32"},               //
	{iSrc("int32", -1), "ToUint32"},               //
	{iSrc("int", -1), "ToUint64"},                 //
	{iSrc("int8", -1), "ToUint64"},                //
	{iSrc("int16", -1), "ToUint64"},               //
	{iSrc("int32", -1), "ToUint64"},               //
	{iSrc("int64", -1), "ToUint64"},               //
	{iSrc("int", -1), "ToUintptr"},                //
	{iSrc("int8", -1), "ToUintptr"},               //
	{iSrc("int16", -1), "ToUintptr"},              //
	{iSrc("int32", -1), "ToUintptr"},              //
	{iSrc("int64", -1), "ToUintptr"},              //
	{sInt("200"), "ToByte"},                       // fitting value rejected (parsed as int8)
	{sInt("-5"), "ToByte"},                        // (251, nil)
	{sInt("-5"), "ToUint"},                        //
	{sInt("4294967295"), "ToUint"},                // fitting value rejected (parsed as int32)
	{sInt("40000"), "ToUint16"},                   //
	{sInt("-5"), "ToUint16"},                      //
	{sInt("4294967295"), "ToUint32"},              //
	{sInt("-5"), "ToUint32"},                      //
	{sInt("18446744073709551615"), "ToUint64"},    //
	{sInt("-5"), "ToUint64"},                      //
	{sInt("4294967295"), "ToUintptr"},             // passes today; keeps the portable bound pinned
	{sInt("-5"), "ToUintptr"},                     //
	{f64src(1e300), "ToFloat32"},                  // (+Inf, nil)
	{f64src(-1e39), "ToFloat32"},                  //
	{uSrc("uint64", math.MaxUint64), "ToFloat32"}, // fits
	{f64src(math.MaxFloat32), "ToFloat32"},        // fits
}

func TestRegress(t *testing.T) {
	for _, r := range regressions {
		r := r
		tg := targetByName[r.t]
		t.Run(fmt.Sprintf("%s.%s", r.s, r.t), func(t *testing.T) {
			for mode := 0; mode < numModes; mode++ {
				v := runCase("regress", r.s, tg, mode)
				if v.key != "" {
					if vlib.Fail(t, v.key, "%s", v.msg) {
						continue
					}
				}
			}
		})
	}
}

// ---------------------------------------------------------------- the boundary matrix (exhaustive)

func TestMatrix(t *testing.T) {
	if vlib.Replaying() {
		t.Skip()
	}
	st := vlib.S()
	srcs := boundarySources()
	perType := map[string]int{}
	type failure struct {
		k kase
		v verdict
	}
	var fails []failure
	seenKey := map[string]bool{}
	idx := 0
	for _, s := range srcs {
		perType[s.Type]++
		for ti := range targets {
			tg := &targets[ti]
			if !applicable(s, tg) {
				continue
			}
			idx++
			if idx%vlib.Shards() != vlib.Shard() {
				continue
			}
			for mode := 0; mode < numModes; mode++ {
				v := runCase("matrix", s, tg, mode)
				if v.key == "" || seenKey[v.key] {
					continue
				}
				seenKey[v.key] = true
				if vlib.Known(v.key) {
					continue
				}
				fails = append(fails, failure{kase{s, tg.name, mode}, v})
			}
		}
	}
	var types []string
	for _, k := range append(append([]string{}, numericTypes...), "string-int", "string-float") {
		types = append(types, fmt.Sprintf("%s:%d", k, perType[k]))
	}
	st.Note("matrix: %d boundary sources (%s) x %d conversions x %d constructor modes (shard %d of %d)",
		len(srcs), strings.Join(types, " "), len(targets), numModes, vlib.Shard(), vlib.Shards())
	st.Exhaustive("matrix")
	if len(fails) > 0 {
		var lines []string
		for _, f := range fails {
			lines = append(lines, fmt.Sprintf("[key=%s] %s", f.v.key, f.v.msg))
		}
		t.Logf("%d failing cells (first case of each):\n%s", len(fails), strings.Join(lines, "\n"))
		f := fails[0]
		vlib.WriteReplay("C02/case", map[string]any{"case": f.k, "readable": fmt.Sprintf("%s.%s() mode %d", f.k.Source, f.k.Target, f.k.Mode), "failure": f.v.msg, "failing_cells": len(fails)})
		vlib.Fail(t, f.v.key, "%s (and %d more failing cells, see log)", f.v.msg, len(fails)-1)
	}
}

// ---------------------------------------------------------------- unsupported kinds

type rec struct{ A int }

type numLike struct{ n int }

func (n numLike) String() string { return strconv.Itoa(n.n) }

type errLike struct{ n int }

func (e errLike) Error() string { return strconv.Itoa(e.n) }

func TestUnsupported(t *testing.T) {
	x := 5
	vals := []struct {
		name string
		v    any
	}{
		{"struct", rec{1}}, {"slice", []int{1}}, {"map", map[string]int{"a": 1}}, {"func", func() {}},
		{"chan", make(chan int)}, {"array", [2]int{1, 2}}, {"complex128", complex(1, 2)}, {"complex64", complex64(complex(1, 0))},
		{"*int", &x}, {"*struct", &rec{1}}, {"error", errors.New("1")}, {"Maybe", fpgo.Maybe.Just(1)},
		// unsupported kinds whose text looks like a number (fmt.Stringer / error / TextMarshaler): still unsupported
		{"Stringer-struct", numLike{42}}, {"*Stringer-struct", &numLike{7}}, {"*big.Int", big.NewInt(300)}, {"big.Float", *big.NewFloat(1.5)},
		{"time.Time", time.Unix(0, 0)}, {"error-struct", errLike{1}}, {"[]byte", []byte("12")}, {"[1]string", [1]string{"3"}},
	}
	for _, val := range vals {
		for ti := range targets {
			tg := &targets[ti]
			for mode := 0; mode < 2; mode++ {
				vlib.S().Eval("unsupported")
				var err error
				p, stack := vlib.Try(func() {
					c := wrap(val.v, mode)
					_, _, _, err = tg.call(c)
				})
				key := "C02/" + tg.name + "<-unsupported:" + val.name
				if p != nil {
					if vlib.Fail(t, key+"/panic", "%s of %s panicked: %v\n%s", tg.name, val.name, p, stack) {
						continue
					}
				}
				if !errors.Is(err, fpgo.ErrConversionUnsupported) {
					if vlib.Fail(t, key, "%s of a %s returned err=%v, want ErrConversionUnsupported", tg.name, val.name, err) {
						continue
					}
				}
			}
		}
	}
	vlib.S().Exhaustive("unsupported")
}

// ---------------------------------------------------------------- random cases (rapid)

var allSourceTypes = append(append([]string{}, numericTypes...), "string-int", "string-float")

var boundaryCands = boundaryInts()

// genNear draws an exact integer near a boundary.
func genNear(t *rapid.T) *big.Int {
	b := rapid.SampledFrom(boundaryCands).Draw(t, "bound")
	d := rapid.Int64Range(-300, 300).Draw(t, "delta")
	return new(big.Int).Add(b, big.NewInt(d))
}

func genFloat64(t *rapid.T) float64 {
	switch rapid.IntRange(0, 4).Draw(t, "fkind") {
	case 0: // raw bit pattern
		return math.Float64frombits(rapid.Uint64().Draw(t, "bits"))
	case 1: // near a boundary, with a fraction
		c, _ := new(big.Float).SetInt(genNear(t)).Float64()
		return c + rapid.Float64Range(-2, 2).Draw(t, "frac")
	case 2: // near a boundary, k ulps away
		c, _ := new(big.Float).SetInt(genNear(t)).Float64()
		k := rapid.IntRange(-3, 3).Draw(t, "ulps")
		for ; k > 0; k-- {
			c = math.Nextafter(c, math.Inf(1))
		}
		for ; k < 0; k++ {
			c = math.Nextafter(c, math.Inf(-1))
		}
		return c
	case 3: // around the float32 limits
		scale := rapid.SampledFrom([]float64{math.MaxFloat32, math.SmallestNonzeroFloat32, 1.1754943508222875e-38, 1}).Draw(t, "scale")
		return scale * rapid.Float64Range(0.5, 2).Draw(t, "mul") * float64(rapid.SampledFrom([]int{1, -1}).Draw(t, "sign"))
	}
	return rapid.Float64().Draw(t, "any")
}

func genSource(t *rapid.T) source {
	typ := rapid.SampledFrom(allSourceTypes).Draw(t, "type")
	switch typ {
	case "bool":
		return source{Type: typ, Bits: uint64(rapid.IntRange(0, 1).Draw(t, "b"))}
	case "float64":
		return f64src(genFloat64(t))
	case "float32":
		if rapid.Bool().Draw(t, "raw32") {
			return source{Type: typ, Bits: uint64(rapid.Uint32().Draw(t, "bits"))}
		}
		return f32src(float32(genFloat64(t)))
	case "string-int":
		if rapid.Bool().Draw(t, "near") {
			return source{Type: typ, Str: genNear(t).String()}
		}
		// up to 25 digits
		n := new(big.Int).SetUint64(rapid.Uint64().Draw(t, "mag"))
		if rapid.Bool().Draw(t, "big") {
			n.Mul(n, big.NewInt(rapid.Int64Range(1, 1000000).Draw(t, "mul")))
		} else {
			n.Rsh(n, uint(rapid.IntRange(0, 63).Draw(t, "shift")))
		}
		if rapid.Bool().Draw(t, "neg") {
			n.Neg(n)
		}
		return source{Type: typ, Str: n.String()}
	case "string-float":
		f := genFloat64(t)
		if rapid.Bool().Draw(t, "as32") {
			return source{Type: typ, Str: strconv.FormatFloat(float64(float32(f)), rapid.SampledFrom([]byte{'g', 'e', 'f'}).Draw(t, "fmt"), -1, 32)}
		}
		return source{Type: typ, Str: strconv.FormatFloat(f, rapid.SampledFrom([]byte{'g', 'e', 'f'}).Draw(t, "fmt"), -1, 64)}
	}
	// integer types: raw bits or near a boundary (when it fits)
	if rapid.Bool().Draw(t, "near") {
		if b, ok := fitsInt(genNear(t), typ); ok {
			return source{Type: typ, Bits: b}
		}
	}
	raw := rapid.Uint64().Draw(t, "bits")
	n := uint(typeBits(typ))
	if n < 64 {
		raw &= (1 << n) - 1
		// sign-extend for the signed types so that Bits is canonical
		for _, it := range intTypes {
			if it == typ && raw&(1<<(n-1)) != 0 {
				raw |= ^uint64(0) << n
			}
		}
	}
	return source{Type: typ, Bits: raw}
}

func propRandom(t *rapid.T) {
	s := genSource(t)
	var app []*target
	for i := range targets {
		if applicable(s, &targets[i]) {
			app = append(app, &targets[i])
		}
	}
	tg := app[rapid.IntRange(0, len(app)-1).Draw(t, "target")]
	mode := rapid.IntRange(0, numModes-1).Draw(t, "mode")
	v := runCase("random", s, tg, mode)
	if v.key != "" {
		if vlib.Fail(t, v.key, "%s", v.msg) {
			t.Skip("known finding")
		}
	}
}

func TestRandom(t *testing.T) {
	vlib.Check(t, "random", 300000, 2000000, propRandom)
}

// FuzzConvert drives the same property with coverage-guided bytes (thorough tier).
func FuzzConvert(f *testing.F) {
	f.Add([]byte{})
	f.Add([]byte{0, 0, 0, 0, 0, 0, 0, 13, 0, 0, 0, 0, 0, 0, 0, 2, 0x41, 0xdf, 0xff, 0xff, 0xff, 0xc0, 0, 0})
	f.Add([]byte{0xff, 0xff, 0xff, 0xff, 0xff, 0xff, 0xff, 0xff, 0x7f, 0xff, 0xff, 0xff, 0xff, 0xff, 0xff, 0xff})
	f.Fuzz(rapid.MakeFuzz(propRandom))
}
