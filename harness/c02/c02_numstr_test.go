package c02

import (
	"fmt"
	"math"
	"math/big"
	"strings"
	"testing"

	"pgregory.net/rapid"

	"verifharness/vlib"
)

// Part "numeric-strings": strings that denote a number in any of the usual spellings - integer,
// with a decimal point, with a fraction, with an exponent, hexadecimal float, absurdly small or large -
// are converted to every target. The statement leaves open WHICH spellings a conversion accepts; what
// it fixes is the outcome when one is accepted (nil error): an integer target holds the number itself
// (for a fractional number: a nearest integer), never a value off by one or more; a float target the
// nearest representable value; ToBool exactly (number != 0). A value outside the target's range is an
// error. The exact value of the string comes from math/big.

func genNumString(t *rapid.T) string {
	sign := rapid.SampledFrom([]string{"", "", "-", "+"}).Draw(t, "sign")
	var mant string
	switch rapid.IntRange(0, 5).Draw(t, "mant") {
	case 0: // around powers of two (53, 63, 64 bits and small ones)
		e := rapid.SampledFrom([]uint{7, 8, 15, 16, 24, 31, 32, 53, 54, 62, 63, 64}).Draw(t, "pow")
		v := new(big.Int).Lsh(big.NewInt(1), e)
		v.Add(v, big.NewInt(int64(rapid.IntRange(-2, 2).Draw(t, "off"))))
		mant = v.String()
	case 1:
		mant = fmt.Sprint(rapid.Uint64().Draw(t, "u64"))
	case 2:
		mant = fmt.Sprint(rapid.IntRange(0, 300).Draw(t, "small"))
	case 3:
		mant = "0"
	case 4:
		mant = fmt.Sprint(rapid.IntRange(1, 9).Draw(t, "d"))
	default:
		mant = fmt.Sprint(rapid.Uint32().Draw(t, "u32"))
	}
	switch rapid.IntRange(0, 7).Draw(t, "form") {
	case 0:
		return sign + mant
	case 1:
		return sign + mant + ".0"
	case 2:
		return sign + mant + "." + rapid.SampledFrom([]string{"5", "25", "4999999999", "5000000001", "000", "9"}).Draw(t, "frac")
	case 3:
		return sign + mant + "e0"
	case 4:
		return sign + mant + "e" + fmt.Sprint(rapid.IntRange(-3, 3).Draw(t, "exp"))
	case 5: // far too small / far too large
		return sign + mant + "e" + rapid.SampledFrom([]string{"-400", "-325", "-324", "-46", "-45", "39", "309", "400"}).Draw(t, "bigexp")
	case 6:
		return sign + "0x1p" + fmt.Sprint(rapid.SampledFrom([]int{-1080, -1075, -1074, -150, -149, -1, 0, 10, 63, 64, 127, 128, 1023, 1024}).Draw(t, "p"))
	default:
		return sign + "0." + strings.Repeat("0", rapid.SampledFrom([]int{0, 3, 50, 330, 400}).Draw(t, "zeros")) + "1"
	}
}

func TestNumericStrings(t *testing.T) {
	if vlib.Replaying() {
		t.Skip()
	}
	half := big.NewRat(1, 2)
	vlib.Check(t, "numeric-strings", 20000, 200000, func(t *rapid.T) {
		str := genNumString(t)
		x, ok := new(big.Rat).SetString(strings.TrimPrefix(str, "+"))
		if !ok {
			t.Skip("harness: not a number for math/big")
		}
		tg := &targets[rapid.IntRange(0, len(targets)-1).Draw(t, "target")]
		mode := rapid.IntRange(0, 1).Draw(t, "mode")
		vlib.S().Eval("numeric-strings")
		var gi *big.Int
		var gf float64
		var gb bool
		var err error
		p, stack := vlib.Try(func() { gi, gf, gb, err = tg.call(wrap(str, mode)) })
		key := "C02/" + tg.name + "<-numeric-string"
		if p != nil {
			if vlib.Fail(t, key+"/panic", "%s of %q panicked: %v\n%s", tg.name, str, p, stack) {
				t.Skip("known")
			}
			return
		}
		if err != nil {
			return // rejecting a spelling is always allowed
		}
		if !x.IsInt() || strings.ContainsAny(str, ".epx") {
			vlib.S().NonTrivial("numeric-strings", tg.name+"|"+shapeOf(str))
		}
		msg := ""
		switch tg.kind {
		case kSigned, kUnsigned:
			d := new(big.Rat).Sub(new(big.Rat).SetInt(gi), x)
			if d.Abs(d).Cmp(half) > 0 {
				msg = fmt.Sprintf("returned (%v, nil): not the number the string denotes (nor a nearest integer of it)", gi)
			}
		case kBool:
			if gb != (x.Sign() != 0) {
				msg = fmt.Sprintf("returned (%v, nil), the number is %s zero", gb, map[bool]string{true: "not", false: ""}[x.Sign() != 0])
			}
		case kFloat32, kFloat64:
			if math.IsInf(gf, 0) || math.IsNaN(gf) {
				msg = fmt.Sprintf("returned (%v, nil) for a finite number", gf)
				break
			}
			// nearest representable value (either neighbour at a tie): |gf - x| <= |other - x| for both neighbours of gf
			bad := false
			for _, dir := range []float64{math.Inf(1), math.Inf(-1)} {
				var nb float64
				if tg.kind == kFloat32 {
					nb = float64(math.Nextafter32(float32(gf), float32(dir)))
				} else {
					nb = math.Nextafter(gf, dir)
				}
				if math.IsInf(nb, 0) {
					continue
				}
				dg := new(big.Rat).Sub(new(big.Rat).SetFloat64(gf), x)
				dn := new(big.Rat).Sub(new(big.Rat).SetFloat64(nb), x)
				if dg.Abs(dg).Cmp(dn.Abs(dn)) > 0 {
					bad = true
				}
			}
			if bad {
				msg = fmt.Sprintf("returned (%v, nil): a neighbouring value is closer to the number", gf)
			}
		}
		if msg != "" {
			vlib.WriteReplay("C02/numstr", map[string]any{"string": str, "target": tg.name, "mode": mode})
			if vlib.Fail(t, key, "%s(%q) %s", tg.name, str, msg) {
				t.Skip("known")
			}
		}
	})
}

func shapeOf(s string) string {
	switch {
	case strings.Contains(s, "x"):
		return "hex"
	case strings.Contains(s, "e"):
		return "exp"
	case strings.Contains(s, "."):
		return "point"
	}
	return "int"
}
