package c06

import (
	"encoding/json"
	"fmt"
	"os"
	"strings"
	"sync"
	"sync/atomic"
	"testing"
	"time"

	fpgo "github.com/TeaEntityLab/fpGo/v2"
	"pgregory.net/rapid"

	"verifharness/vlib"
)

func TestMain(m *testing.M) {
	go watchdog()
	vlib.Main(m)
}

// ---------------------------------------------------------------- hang watchdog
//
// Every walk inside LinkedListQueue is bounded by the number of nodes, so a history that
// does not return has run into a cycle of links: that is a violation ("no sequence panics"
// / returns what the ideal deque returns). The stuck goroutine cannot be interrupted, so
// the watchdog writes the replay, reports and ends the process.

var (
	wdMu      sync.Mutex
	wdHistory []op
	wdDrain   int
	wdTicks   int64 // incremented at the start and end of every history
)

func wdBegin(h []op, drain int) {
	wdMu.Lock()
	wdHistory = append(wdHistory[:0], h...)
	wdDrain = drain
	wdMu.Unlock()
	atomic.AddInt64(&wdTicks, 1)
}

func wdEnd() { atomic.AddInt64(&wdTicks, 1) }

func watchdog() {
	last, since := int64(-1), time.Now()
	for {
		time.Sleep(500 * time.Millisecond)
		t := atomic.LoadInt64(&wdTicks)
		if t != last || t%2 == 0 { // progress, or no history in flight
			last, since = t, time.Now()
			continue
		}
		if time.Since(since) < 20*time.Second {
			continue
		}
		wdMu.Lock()
		h := append([]op(nil), wdHistory...)
		d := wdDrain
		wdMu.Unlock()
		if vlib.Known("C06/hang") {
			os.Exit(0)
		}
		vlib.WriteReplay("C06/history", map[string]any{"ops": h, "drain": d, "readable": histString(h), "failure": "history did not return within 20s (cycle in the node links)"})
		fmt.Printf("FAILKEY: C06/hang\n--- FAIL: history [%s] drain=%d did not return within 20s: a walk over the node links does not terminate (cycle)\n", histString(h), d)
		vlib.S().Flush()
		os.Exit(1)
	}
}

// ---------------------------------------------------------------- operations

const (
	opOffer = iota
	opUnshift
	opShift
	opPop
	opPeek
	opClear
	opKeep
	opClearNodePool
	opCount
	opPut
	opPush
	opPoll
	opTake
	// interface views
	opQOffer
	opQPut
	opQPoll
	opQTake
	opSPush
	opSPop
	numOps
)

var opNames = [...]string{"Offer", "Unshift", "Shift", "Pop", "Peek", "Clear", "Keep", "ClearNodePool", "Count",
	"Put", "Push", "Poll", "Take", "Q.Offer", "Q.Put", "Q.Poll", "Q.Take", "S.Push", "S.Pop"}

type op struct {
	Kind int `json:"k"`
	Arg  int `json:"a"`
}

func (o op) String() string {
	if o.Kind == opKeep {
		return fmt.Sprintf("Keep(%d)", o.Arg)
	}
	return opNames[o.Kind]
}

func histString(h []op) string {
	parts := make([]string, len(h))
	for i, o := range h {
		parts[i] = o.String()
	}
	return strings.Join(parts, ",")
}

func isInsert(k int) bool {
	switch k {
	case opOffer, opUnshift, opPut, opPush, opQOffer, opQPut, opSPush:
		return true
	}
	return false
}
func isHeadRemoval(k int) bool {
	switch k {
	case opShift, opPoll, opTake, opQPoll, opQTake:
		return true
	}
	return false
}
func isTailRemoval(k int) bool { return k == opPop || k == opSPop }
func isPoolOp(k int) bool      { return k == opKeep || k == opClearNodePool || k == opClear }

// result of running one history
type outcome struct {
	failKey    string
	failMsg    string
	nontrivial bool
}

// value mapping: element i of the history is represented by conv(i)
func runHistory[T comparable](h []op, conv func(int) T, drainMode int) outcome {
	var out outcome
	wdBegin(h, drainMode)
	defer wdEnd()
	p, stack := vlib.Try(func() {
		q := fpgo.NewLinkedListQueue[T]()
		var qi fpgo.Queue[T] = q
		var si fpgo.Stack[T] = q
		var model []T
		next := 0
		var zero T
		headRem, tailRem := false, false
		insertSincePool := false
		poolAfterInsert := false
		fail := func(key, f string, a ...any) {
			if out.failKey == "" {
				out.failKey = key
				out.failMsg = fmt.Sprintf(f, a...)
			}
		}
		checkRemoval := func(i int, o op, got T, err error, head bool, emptyErr error) {
			if len(model) == 0 {
				if err != emptyErr {
					fail("C06/error", "step %d %v on empty: err=%v want %v", i, o, err, emptyErr)
				}
				if got != zero {
					fail("C06/value", "step %d %v on empty returned non-zero %v", i, o, got)
				}
				return
			}
			var want T
			if head {
				want = model[0]
			} else {
				want = model[len(model)-1]
			}
			if err != nil {
				fail("C06/error", "step %d %v on %v: unexpected err %v", i, o, model, err)
			} else if got != want {
				fail("C06/value", "step %d %v: got %v want %v (model %v)", i, o, got, want, model)
			}
			if len(model) >= 2 {
				if head {
					headRem = true
				} else {
					tailRem = true
				}
			}
			if poolAfterInsert {
				out.nontrivial = true
			}
			if head {
				model = model[1:]
			} else {
				model = model[:len(model)-1]
			}
		}
		for i, o := range h {
			switch o.Kind {
			case opOffer, opPut, opPush, opQOffer, opQPut, opSPush:
				v := conv(next)
				next++
				var err error
				switch o.Kind {
				case opOffer:
					err = q.Offer(v)
				case opPut:
					err = q.Put(v)
				case opPush:
					err = q.Push(v)
				case opQOffer:
					err = qi.Offer(v)
				case opQPut:
					err = qi.Put(v)
				case opSPush:
					err = si.Push(v)
				}
				if err != nil {
					fail("C06/error", "step %d %v returned %v", i, o, err)
				}
				model = append(model[:len(model):len(model)], v)
				insertSincePool = true
			case opUnshift:
				v := conv(next)
				next++
				if err := q.Unshift(v); err != nil {
					fail("C06/error", "step %d Unshift returned %v", i, err)
				}
				model = append([]T{v}, model...)
				insertSincePool = true
			case opShift, opPoll, opTake, opQPoll, opQTake:
				var got T
				var err error
				switch o.Kind {
				case opShift:
					got, err = q.Shift()
				case opPoll:
					got, err = q.Poll()
				case opTake:
					got, err = q.Take()
				case opQPoll:
					got, err = qi.Poll()
				case opQTake:
					got, err = qi.Take()
				}
				checkRemoval(i, o, got, err, true, fpgo.ErrQueueIsEmpty)
			case opPop, opSPop:
				var got T
				var err error
				if o.Kind == opPop {
					got, err = q.Pop()
				} else {
					got, err = si.Pop()
				}
				checkRemoval(i, o, got, err, false, fpgo.ErrStackIsEmpty)
			case opPeek:
				got, err := q.Peek()
				if len(model) == 0 {
					if err != fpgo.ErrQueueIsEmpty {
						fail("C06/error", "step %d Peek on empty: err=%v", i, err)
					}
				} else if err != nil || got != model[0] {
					fail("C06/value", "step %d Peek: got %v,%v want %v", i, got, err, model[0])
				}
			case opClear:
				q.Clear()
				model = nil
			case opKeep:
				q.KeepNodePoolCount(o.Arg)
			case opClearNodePool:
				q.ClearNodePool()
			case opCount:
			}
			if isPoolOp(o.Kind) && insertSincePool && len(model) > 0 {
				poolAfterInsert = true
			}
			if c := q.Count(); c != len(model) {
				fail("C06/count", "step %d %v: Count()=%d want %d", i, o, c, len(model))
			}
			if out.failKey != "" {
				return
			}
		}
		if headRem && tailRem {
			out.nontrivial = true
		}
		// drain: 0 = alternate Shift/Pop, 1 = all Shift, 2 = all Pop
		for step := 0; len(model) > 0; step++ {
			head := drainMode == 1 || (drainMode == 0 && step%2 == 0)
			var got T
			var err error
			if head {
				got, err = q.Shift()
			} else {
				got, err = q.Pop()
			}
			o := op{Kind: opShift}
			if !head {
				o.Kind = opPop
			}
			checkRemoval(len(h)+step, o, got, err, head, nil)
			if q.Count() != len(model) {
				fail("C06/count", "drain step %d: Count()=%d want %d", step, q.Count(), len(model))
			}
			if out.failKey != "" {
				return
			}
		}
		if _, err := q.Shift(); err != fpgo.ErrQueueIsEmpty {
			fail("C06/error", "after drain Shift err=%v", err)
		}
		if _, err := q.Pop(); err != fpgo.ErrStackIsEmpty {
			fail("C06/error", "after drain Pop err=%v", err)
		}
		if _, err := q.Peek(); err != fpgo.ErrQueueIsEmpty {
			fail("C06/error", "after drain Peek err=%v", err)
		}
	})
	if p != nil && out.failKey == "" {
		out.failKey = "C06/panic"
		out.failMsg = fmt.Sprintf("panic: %v\n%s", p, firstFrames(stack))
	}
	return out
}

func firstFrames(stack string) string {
	lines := strings.Split(stack, "\n")
	var keep []string
	for _, l := range lines {
		if strings.Contains(l, "fpGo") || strings.Contains(l, "/repo/") {
			keep = append(keep, strings.TrimSpace(l))
		}
		if len(keep) >= 6 {
			break
		}
	}
	return strings.Join(keep, "\n")
}

func convInt(i int) int    { return 100 + i }
func convStr(i int) string { return fmt.Sprintf("v%d", i) }

type rec struct {
	A int
	B string
}

func convRec(i int) rec { return rec{A: i + 1, B: "r"} }

func runAllTypes(h []op, drainMode int) outcome {
	o := runHistory(h, convInt, drainMode)
	if o.failKey != "" {
		return o
	}
	o2 := runHistory(h, convStr, drainMode)
	if o2.failKey != "" {
		return o2
	}
	return o
}

// ---------------------------------------------------------------- regressions (replay tier)

var regressions = [][]op{
	// DESIGN §4 #11: Shift/Pop left dangling links
	{{Kind: opOffer}, {Kind: opOffer}, {Kind: opShift}, {Kind: opPop}, {Kind: opPoll}},
	{{Kind: opOffer}, {Kind: opOffer}, {Kind: opPop}, {Kind: opShift}, {Kind: opPop}},
	{{Kind: opOffer}, {Kind: opOffer}, {Kind: opShift}, {Kind: opPop}, {Kind: opOffer}, {Kind: opShift}},
	{{Kind: opUnshift}, {Kind: opUnshift}, {Kind: opPop}, {Kind: opShift}, {Kind: opUnshift}, {Kind: opPop}},
	{{Kind: opOffer}, {Kind: opOffer}, {Kind: opOffer}, {Kind: opClear}, {Kind: opOffer}, {Kind: opKeep, Arg: 1}, {Kind: opOffer}, {Kind: opPop}, {Kind: opPop}},
}

func TestRegress(t *testing.T) {
	for i, h := range regressions {
		for dm := 0; dm < 3; dm++ {
			vlib.S().Eval("regress")
			o := runAllTypes(h, dm)
			if o.nontrivial {
				vlib.S().NonTrivial("regress", histString(h))
			}
			if o.failKey != "" {
				if vlib.Fail(t, o.failKey, "regression %d [%s] drain=%d: %s", i, histString(h), dm, o.failMsg) {
					continue
				}
			}
		}
	}
}

func TestReplayJSON(t *testing.T) {
	raw := vlib.ReplayCase("C06/history")
	if raw == nil {
		t.Skip("no replay case")
	}
	var c struct {
		Ops   []op `json:"ops"`
		Drain int  `json:"drain"`
	}
	if err := json.Unmarshal(raw, &c); err != nil {
		t.Fatalf("bad replay: %v", err)
	}
	o := runAllTypes(c.Ops, c.Drain)
	if o.failKey != "" {
		t.Fatalf("[key=%s] replay [%s]: %s", o.failKey, histString(c.Ops), o.failMsg)
	}
}

// ---------------------------------------------------------------- exhaustive enumeration

var alphabet = []op{
	{Kind: opOffer}, {Kind: opUnshift}, {Kind: opShift}, {Kind: opPop}, {Kind: opPeek},
	{Kind: opClear}, {Kind: opKeep, Arg: 1}, {Kind: opKeep, Arg: 3}, {Kind: opClearNodePool},
}

func TestExhaustive(t *testing.T) {
	if vlib.Replaying() {
		t.Skip()
	}
	maxLen := vlib.Pick(6, 7)
	shard, shards := vlib.Shard(), vlib.Shards()
	s := vlib.S()
	h := make([]op, 0, maxLen)
	var idx int64
	var firstFail *outcome
	var failHist []op
	knownSeen := map[string]bool{}
	var rec func()
	rec = func() {
		if firstFail != nil {
			return
		}
		if len(h) > 0 {
			idx++
			// shard by enumeration index of complete histories
			if int(idx%int64(shards)) == shard {
				s.Eval("exhaustive")
				o := runHistory(h, convInt, 0)
				if o.nontrivial {
					s.NonTrivial("exhaustive", histString(h))
				}
				if o.failKey != "" {
					if vlib.Known(o.failKey) {
						knownSeen[o.failKey] = true
					} else {
						firstFail = &o
						failHist = append([]op(nil), h...)
						return
					}
				}
			}
		}
		if len(h) == maxLen {
			return
		}
		for _, a := range alphabet {
			h = append(h, a)
			rec()
			h = h[:len(h)-1]
		}
	}
	rec()
	if firstFail != nil {
		// enumeration is shortest-first per prefix but DFS: the failing history found
		// first is minimal in the sense that no proper prefix fails.
		vlib.WriteReplay("C06/history", map[string]any{"ops": failHist, "drain": 0, "readable": histString(failHist), "failure": firstFail.failMsg})
		vlib.Fail(t, firstFail.failKey, "history [%s]: %s", histString(failHist), firstFail.failMsg)
	}
	if shards == 1 {
		s.Exhaustive("exhaustive")
	}
	s.Note("exhaustive: all histories of length 1..%d over a 9-symbol alphabet (shard %d of %d)", maxLen, shard, shards)
	s.Exhaustive("exhaustive")
}

// ---------------------------------------------------------------- random histories (rapid)

func genHistory(t *rapid.T) ([]op, int) {
	n := rapid.IntRange(1, 80).Draw(t, "n")
	// weights: bias towards inserts so that the deque is often non-empty
	kinds := []int{opOffer, opOffer, opUnshift, opUnshift, opPut, opPush, opQOffer, opQPut, opSPush,
		opShift, opPop, opPoll, opTake, opQPoll, opQTake, opSPop, opShift, opPop,
		opPeek, opCount, opClear, opKeep, opKeep, opClearNodePool}
	h := make([]op, n)
	for i := range h {
		k := rapid.SampledFrom(kinds).Draw(t, "k")
		o := op{Kind: k}
		if k == opKeep {
			o.Arg = rapid.IntRange(-1, 6).Draw(t, "keep")
		}
		h[i] = o
	}
	return h, rapid.IntRange(0, 2).Draw(t, "drain")
}

func propRandom(t *rapid.T) {
	h, dm := genHistory(t)
	s := vlib.S()
	s.Eval("random")
	o := runHistory(h, convInt, dm)
	if o.failKey == "" {
		o2 := runHistory(h, convRec, dm)
		if o2.failKey != "" {
			o = o2
		}
	}
	if o.nontrivial {
		s.NonTrivial("random", histString(h))
		s.Class("random/nontrivial")
	} else {
		s.Class("random/trivial")
	}
	if o.failKey != "" {
		if vlib.Fail(t, o.failKey, "history [%s] drain=%d: %s", histString(h), dm, o.failMsg) {
			t.Skip("known finding")
		}
	}
}

func TestRandom(t *testing.T) {
	vlib.Check(t, "random", 20000, 200000, propRandom)
}

func FuzzDeque(f *testing.F) {
	f.Add([]byte{})
	f.Add([]byte{0, 0, 0, 0, 0, 0, 0, 0, 2, 0, 0, 0, 0, 0, 0, 0})
	f.Fuzz(rapid.MakeFuzz(propRandom))
}

// Part "large-backlog": the same model comparison over histories made of long runs - hundreds of
// insertions, hundreds of removals from either end, pool maintenance in between - so that the backlog (and
// with it the queue's recycling of nodes) goes far beyond what the short random histories reach, up and down
// several times.
func propLargeBacklog(t *rapid.T) {
	inserts := []int{opOffer, opUnshift, opPut, opPush, opQOffer, opSPush}
	removals := []int{opShift, opPop, opPoll, opTake, opQPoll, opSPop}
	var h []op
	runs := rapid.IntRange(3, 9).Draw(t, "runs")
	for r := 0; r < runs; r++ {
		n := rapid.SampledFrom([]int{20, 100, 257, 300, 400, 600, 900}).Draw(t, "len")
		var kinds []int
		switch rapid.IntRange(0, 4).Draw(t, "what") {
		case 0, 1:
			kinds = []int{rapid.SampledFrom(inserts).Draw(t, "ins")}
		case 2, 3:
			kinds = []int{rapid.SampledFrom(removals).Draw(t, "rem")}
		default:
			kinds = []int{rapid.SampledFrom(inserts).Draw(t, "ins"), rapid.SampledFrom(removals).Draw(t, "rem"), rapid.SampledFrom(removals).Draw(t, "rem2")}
		}
		for i := 0; i < n; i++ {
			h = append(h, op{Kind: kinds[i%len(kinds)]})
		}
		switch rapid.IntRange(0, 5).Draw(t, "pool") {
		case 0:
			h = append(h, op{Kind: opKeep, Arg: rapid.SampledFrom([]int{0, 1, 5, 300}).Draw(t, "keep")})
		case 1:
			h = append(h, op{Kind: opClearNodePool})
		case 2:
			h = append(h, op{Kind: opPeek}, op{Kind: opCount})
		}
	}
	dm := rapid.IntRange(0, 2).Draw(t, "drain")
	s := vlib.S()
	s.Eval("large-backlog")
	o := runHistory(h, convInt, dm)
	if o.nontrivial {
		s.NonTrivial("large-backlog", fmt.Sprintf("%d ops, %d runs, %x", len(h), runs, fnv32(histString(h))))
	}
	if o.failKey != "" {
		if vlib.Fail(t, o.failKey, "history of %d operations in %d runs, drain=%d: %s", len(h), runs, dm, o.failMsg) {
			t.Skip("known finding")
		}
	}
}

func TestLargeBacklog(t *testing.T) {
	vlib.Check(t, "large-backlog", 150, 3000, propLargeBacklog)
}

func fnv32(str string) uint32 {
	h := uint32(2166136261)
	for i := 0; i < len(str); i++ {
		h = (h ^ uint32(str[i])) * 16777619
	}
	return h
}
