package c17

import (
	"bytes"
	"context"
	"encoding/json"
	"errors"
	"fmt"
	"io"
	"mime"
	"mime/multipart"
	"net/http"
	"net/url"
	"os"
	"path/filepath"
	"reflect"
	"regexp"
	"sort"
	"strings"
	"sync"
	"syscall"
	"testing"
	"time"

	fpgo "github.com/TeaEntityLab/fpGo/v2"
	network "github.com/TeaEntityLab/fpGo/v2/network"
	"pgregory.net/rapid"

	"verifharness/vlib"
)

func TestMain(m *testing.M) { vlib.Main(m) }

// ---------------------------------------------------------------- case description (JSON-serialisable)

const (
	cGet = iota
	cDelete
	cPostJSON
	cPutJSON
	cPatchJSON
	cPostMP
	cPutMP
	cPatchMP
	cGenNoBody
	cGenBody
	cGenMP
	numCtors
)

var ctorNames = [...]string{"APIMakeGet", "APIMakeDelete", "APIMakePostJSONBody", "APIMakePutJSONBody", "APIMakePatchJSONBody",
	"APIMakePostMultipartBody", "APIMakePutMultipartBody", "APIMakePatchMultipartBody",
	"APIMakeDoNewRequest", "APIMakeDoNewRequestWithBodySerializer", "APIMakeDoNewRequestWithMultipartSerializer"}

// the generic constructors take any method token: the request's method is the one the constructor names,
// as it was written (extension methods, lower or mixed case)
var verbs = []string{http.MethodGet, http.MethodHead, http.MethodOptions, http.MethodDelete, http.MethodPost, http.MethodPut, http.MethodPatch,
	"PURGE", "Purge", "link", "M-SEARCH"}

func (c *apiCase) wantMethod() string {
	switch c.Ctor {
	case cGet:
		return http.MethodGet
	case cDelete:
		return http.MethodDelete
	case cPostJSON, cPostMP:
		return http.MethodPost
	case cPutJSON, cPutMP:
		return http.MethodPut
	case cPatchJSON, cPatchMP:
		return http.MethodPatch
	}
	return c.Method
}

func (c *apiCase) isJSONBody() bool {
	return c.Ctor == cPostJSON || c.Ctor == cPutJSON || c.Ctor == cPatchJSON || c.Ctor == cGenBody
}
func (c *apiCase) isMultipart() bool {
	return c.Ctor == cPostMP || c.Ctor == cPutMP || c.Ctor == cPatchMP || c.Ctor == cGenMP
}

type pval struct {
	K string  `json:"k"` // "s" string, "i" int, "b" bool, "f" float64, "f32" float32, "i64" int64, "u8" uint8, "dur" time.Duration (a Stringer)
	S string  `json:"s,omitempty"`
	I int     `json:"i,omitempty"`
	B bool    `json:"b,omitempty"`
	F float64 `json:"f,omitempty"`
}

func (p pval) value() interface{} {
	switch p.K {
	case "i":
		return p.I
	case "b":
		return p.B
	case "f":
		return p.F
	case "f32":
		return float32(p.F)
	case "i64":
		return int64(p.I)
	case "u8":
		return uint8(p.I)
	case "dur":
		return time.Duration(p.I) * time.Millisecond
	}
	return p.S
}

type param struct {
	Key string `json:"key"`
	Val pval   `json:"val"`
}

const (
	bNilIface = iota
	bStruct
	bMap
	bNilPtr
	bPtr
	bNilMap
	bUnserialisable
	bString
	bSlice
	numBodyKinds
)

type bodyT struct {
	A int    `json:"a"`
	B string `json:"b"`
	C []int  `json:"c,omitempty"`
}

type bodySpec struct {
	Kind int    `json:"kind"`
	A    int    `json:"a,omitempty"`
	B    string `json:"b,omitempty"`
}

func (b bodySpec) value() interface{} {
	switch b.Kind {
	case bStruct:
		return bodyT{A: b.A, B: b.B}
	case bMap:
		return map[string]interface{}{"a": b.A, "b": b.B, "nested": map[string]interface{}{"k": []int{b.A}}}
	case bNilPtr:
		return (*bodyT)(nil)
	case bPtr:
		return &bodyT{A: b.A, B: b.B, C: []int{1, b.A}}
	case bNilMap:
		return map[string]interface{}(nil)
	case bUnserialisable:
		return map[string]interface{}{"a": b.A, "ch": make(chan int)}
	case bString:
		return b.B
	case bSlice:
		return []interface{}{b.A, b.B}
	}
	return nil
}

// nilLike: "no body" and "the serializer's output for nil" are both reasonable.
func (b bodySpec) nilLike() bool {
	return b.Kind == bNilIface || b.Kind == bNilPtr || b.Kind == bNilMap
}

type formSpec struct {
	Nil     bool                `json:"nil,omitempty"`
	Value   map[string][]string `json:"value,omitempty"`
	Files   map[string][]int    `json:"files,omitempty"` // field -> indices into the fixture files
	Missing bool                `json:"missing,omitempty"`
}

const (
	serDefault = iota
	serCustom
	serFailing
	serBrokenReader // the serializer succeeds; the io.Reader it returns fails after some bytes
)

const (
	desDefault = iota
	desCustomFresh
	desTargetErr
	desNilErr
)

const (
	fNone = iota
	fTransport
	fBodyRead
)

type respSpec struct {
	Body  string `json:"body"`
	Fault int    `json:"fault,omitempty"`
	// how the body arrives, as with a real connection: Chunk > 0 = at most Chunk bytes per Read call;
	// Announce = the response's ContentLength field carries the body's length (else -1, unknown)
	Chunk    int  `json:"chunk,omitempty"`
	Announce bool `json:"announce,omitempty"`
	// ErrKind (transport fault): which error the transport reports (index into transportErrs): whatever it
	// is, the evaluation has sent its one request and the error comes back as Err
	ErrKind int `json:"errKind,omitempty"`
	// Status: the response's status code (0 = 200). The body is decoded into the target whatever the status
	// (2xx, 4xx, 5xx; redirects are not generated: the client would follow them)
	Status int `json:"status,omitempty"`
}

var transportErrs = []error{errTransport, io.EOF, io.ErrUnexpectedEOF, fmt.Errorf("c17: read tcp 10.0.0.1:443: %w", io.EOF),
	context.DeadlineExceeded, syscall.ECONNRESET, os.ErrDeadlineExceeded}

// chunkReader hands out at most n bytes per Read (n <= 0: as many as fit)
type chunkReader struct {
	r io.Reader
	n int
}

func (c *chunkReader) Read(p []byte) (int, error) {
	if c.n > 0 && len(p) > c.n {
		p = p[:c.n]
	}
	return c.r.Read(p)
}

type apiCase struct {
	Ctor      int         `json:"ctor"`
	Method    string      `json:"method,omitempty"`
	Base      string      `json:"base"`
	Template  string      `json:"template"`
	NilParams bool        `json:"nilParams,omitempty"`
	Params    []param     `json:"params,omitempty"`
	HeaderNil bool        `json:"headerNil,omitempty"`
	Header    [][2]string `json:"header,omitempty"`
	Body      bodySpec    `json:"body"`
	CT        string      `json:"ct,omitempty"`
	Form      formSpec    `json:"form"`
	Ser       int         `json:"ser,omitempty"`
	Des       int         `json:"des,omitempty"`
	RType     int         `json:"rtype,omitempty"` // 0 struct, 1 map
	Resp      []respSpec  `json:"resp"`            // one per evaluation
	// Ambiguous: a supplied value (or stray brace) forms another supplied {key} token; the expected
	// URL is the single-pass substitution of the TEMPLATE's placeholders (values are not rescanned)
	Ambiguous bool `json:"ambiguous,omitempty"`
	// Via: how the returned MonadIO is evaluated: 0 Eval(), 1 composed first (FlatMap into Just; composing is
	// not evaluating: nothing may be sent by it) and the composition is evaluated, 2 Subscribe (no handlers)
	Via int `json:"via,omitempty"`
}

func wrapEval[R any](c *apiCase, m *fpgo.MonadIODef[*network.APIResponse[R]]) func() *network.APIResponse[R] {
	switch c.Via {
	case 1:
		return m.FlatMap(func(r *network.APIResponse[R]) *fpgo.MonadIODef[*network.APIResponse[R]] {
			return fpgo.MonadIOJustGenerics(r)
		}).Eval
	case 2:
		return func() (out *network.APIResponse[R]) {
			m.Subscribe(fpgo.Subscription[*network.APIResponse[R]]{OnNext: func(r *network.APIResponse[R]) { out = r }})
			return
		}
	}
	return m.Eval
}

func (c *apiCase) String() string { b, _ := json.Marshal(c); return string(b) }

// ---------------------------------------------------------------- expected URL

// substituteAll replaces every "{key}" token of a supplied key by its value in
// one left-to-right pass (replaced text is never rescanned).
func substituteAll(tmpl string, ps []param) string {
	var sb strings.Builder
	for i := 0; i < len(tmpl); {
		matched := false
		if tmpl[i] == '{' {
			for _, p := range ps {
				tok := "{" + p.Key + "}"
				if strings.HasPrefix(tmpl[i:], tok) {
					sb.WriteString(fmt.Sprintf("%v", p.Val.value()))
					i += len(tok)
					matched = true
					break
				}
			}
		}
		if !matched {
			sb.WriteByte(tmpl[i])
			i++
		}
	}
	return sb.String()
}

// orderIndependent: does replacing one key after the other give the same
// text as the single pass for every order of the keys? (It does not when a
// value or a stray brace forms a new {key} token; such cases have no unique
// expected URL and are not generated.)
func orderIndependent(tmpl string, ps []param) bool {
	want := substituteAll(tmpl, ps)
	idx := make([]int, len(ps))
	for i := range idx {
		idx[i] = i
	}
	ok := true
	var perm func(k int)
	perm = func(k int) {
		if !ok {
			return
		}
		if k == len(idx) {
			s := tmpl
			for _, i := range idx {
				s = strings.ReplaceAll(s, "{"+ps[i].Key+"}", fmt.Sprintf("%v", ps[i].Val.value()))
			}
			if s != want {
				ok = false
			}
			return
		}
		for i := k; i < len(idx); i++ {
			idx[k], idx[i] = idx[i], idx[k]
			perm(k + 1)
			idx[k], idx[i] = idx[i], idx[k]
		}
	}
	perm(0)
	return ok
}

// ---------------------------------------------------------------- stub transport

var (
	errTransport = errors.New("c17: injected transport failure")
	errBodyRead  = errors.New("c17: injected response-body read failure")
	errSer       = errors.New("c17: injected serializer failure")
	errStream    = errors.New("c17: the serializer's output stream broke off")
	errDes       = errors.New("c17: injected deserializer failure")
)

type captured struct {
	Method string
	URL    string
	Header http.Header
	Body   []byte
}

type stubRT struct {
	mu   sync.Mutex
	reqs []captured
	plan []respSpec
}

type failingReader struct {
	data []byte
	done bool
	err  error // nil: errBodyRead
}

func (f *failingReader) Read(p []byte) (int, error) {
	if !f.done && len(f.data) > 0 {
		f.done = true
		n := copy(p, f.data)
		return n, nil
	}
	if f.err != nil {
		return 0, f.err
	}
	return 0, errBodyRead
}

func (s *stubRT) RoundTrip(req *http.Request) (*http.Response, error) {
	c := captured{Method: req.Method, URL: req.URL.String(), Header: req.Header.Clone()}
	if req.Body != nil {
		var rerr error
		c.Body, rerr = io.ReadAll(req.Body)
		req.Body.Close()
		if rerr != nil {
			// like net/http's transport: a request whose body cannot be read is not delivered
			return nil, rerr
		}
	}
	// What an interceptor or a transport may do to the request's header must
	// never reach the API's DefaultHeader.
	keys := make([]string, 0, len(req.Header))
	for k := range req.Header {
		keys = append(keys, k)
	}
	sort.Strings(keys)
	for i, k := range keys {
		if i%2 == 0 {
			req.Header.Add(k, "added-downstream")
		} else {
			req.Header.Del(k)
		}
	}
	req.Header.Set("X-Downstream", "1")
	s.mu.Lock()
	idx := len(s.reqs)
	s.reqs = append(s.reqs, c)
	s.mu.Unlock()
	spec := respSpec{Body: "{}"}
	if idx < len(s.plan) {
		spec = s.plan[idx]
	}
	if spec.Fault == fTransport {
		return nil, transportErrs[spec.ErrKind%len(transportErrs)]
	}
	// like net/http's transport, the response body can only be read while the request context is alive
	var body io.ReadCloser = io.NopCloser(&ctxReader{ctx: req.Context(), r: &chunkReader{r: strings.NewReader(spec.Body), n: spec.Chunk}})
	if spec.Fault == fBodyRead {
		body = io.NopCloser(&failingReader{data: []byte(spec.Body)})
	}
	contentLength := int64(-1)
	if spec.Announce {
		contentLength = int64(len(spec.Body))
	}
	status := spec.Status
	if status == 0 {
		status = 200
	}
	return &http.Response{Status: fmt.Sprintf("%d %s", status, http.StatusText(status)), StatusCode: status, Proto: "HTTP/1.1", ProtoMajor: 1, ProtoMinor: 1,
		Header: http.Header{"Content-Type": {"application/json"}}, Body: body, ContentLength: contentLength, Request: req}, nil
}

// ctxReader fails with the context's error once the request context is done (what the real
// transport's body does after cancel): the body must be decoded before the context is released.
type ctxReader struct {
	ctx context.Context
	r   io.Reader
}

func (c *ctxReader) Read(p []byte) (int, error) {
	if err := c.ctx.Err(); err != nil {
		return 0, err
	}
	return c.r.Read(p)
}

func (s *stubRT) count() int {
	s.mu.Lock()
	defer s.mu.Unlock()
	return len(s.reqs)
}

func (s *stubRT) at(i int) captured {
	s.mu.Lock()
	defer s.mu.Unlock()
	return s.reqs[i]
}

// ---------------------------------------------------------------- response types

type respT struct {
	ID   int      `json:"id"`
	Name string   `json:"name"`
	Tags []string `json:"tags"`
}

type rKind[R any] struct {
	clone func(*R) *R
	fresh func() *R
}

var rStruct = rKind[respT]{
	clone: func(r *respT) *respT {
		c := *r
		if r.Tags != nil {
			c.Tags = append([]string{}, r.Tags...)
		}
		return &c
	},
	fresh: func() *respT { return &respT{ID: -1, Name: "initial"} },
}

type respMap = map[string]interface{}

var rMap = rKind[respMap]{
	clone: func(r *respMap) *respMap {
		if *r == nil {
			var m respMap
			return &m
		}
		c := respMap{}
		for k, v := range *r {
			c[k] = v
		}
		return &c
	},
	fresh: func() *respMap { m := respMap{"kept": "yes"}; return &m },
}

// ---------------------------------------------------------------- fixtures (multipart files)

var fixtureDir string
var fixtureNames = []string{"alpha.txt", "beta.bin", "empty.dat"}
var fixtureData = [][]byte{[]byte("alpha file\ncontent"), {0, 1, 2, 255, 254, '\r', '\n', '-', '-'}, {}}

func fixtures(tb testing.TB) {
	d := tb.TempDir() // removed by the testing package when the test ends
	for i, n := range fixtureNames {
		if err := os.WriteFile(filepath.Join(d, n), fixtureData[i], 0o644); err != nil {
			tb.Fatalf("fixtures: %v", err)
		}
	}
	fixtureDir = d
	tb.Cleanup(func() { fixtureDir = "" })
	for _, b := range bases {
		if u, err := url.Parse(b); err != nil || u.String() != b {
			tb.Fatalf("harness: base URL %q does not round-trip through url.Parse", b)
		}
	}
}

func (f formSpec) build() *network.MultipartForm {
	if f.Nil {
		return nil
	}
	form := &network.MultipartForm{Value: f.Value}
	if len(f.Files) > 0 || f.Missing {
		form.File = map[string][]string{}
		for field, idxs := range f.Files {
			for _, i := range idxs {
				form.File[field] = append(form.File[field], filepath.Join(fixtureDir, fixtureNames[i]))
			}
		}
		if f.Missing {
			form.File["missing"] = append(form.File["missing"], filepath.Join(fixtureDir, "does-not-exist"))
		}
	}
	return form
}

func customMultipartRepr(form *network.MultipartForm) string {
	if form == nil {
		form = &network.MultipartForm{}
	}
	var keys []string
	for k := range form.Value {
		keys = append(keys, k)
	}
	sort.Strings(keys)
	var sb strings.Builder
	sb.WriteString("MP")
	for _, k := range keys {
		fmt.Fprintf(&sb, "|%s=%q", k, form.Value[k])
	}
	keys = keys[:0]
	for k := range form.File {
		keys = append(keys, k)
	}
	sort.Strings(keys)
	for _, k := range keys {
		var base []string
		for _, p := range form.File[k] {
			base = append(base, filepath.Base(p))
		}
		fmt.Fprintf(&sb, "|file:%s=%q", k, base)
	}
	return sb.String()
}

const customMPType = "application/x-c17-form; v=1"

// ---------------------------------------------------------------- running one case

type result struct{ key, msg string }

func (r *result) fail(key, f string, a ...any) {
	if r.key == "" {
		r.key, r.msg = key, fmt.Sprintf(f, a...)
	}
}

func firstFrames(stack string) string {
	var keep []string
	for _, l := range strings.Split(stack, "\n") {
		if strings.Contains(l, "fpGo") {
			keep = append(keep, strings.TrimSpace(l))
		}
		if len(keep) >= 6 {
			break
		}
	}
	return strings.Join(keep, "\n")
}

// panicSite names the innermost fpGo function on a recovered panic's stack.
func panicSite(stack string) string {
	for _, l := range strings.Split(stack, "\n") {
		if i := strings.Index(l, "TeaEntityLab/fpGo/v2"); i >= 0 && !strings.HasPrefix(l, "\t") {
			name := l[i+len("TeaEntityLab/fpGo/v2"):]
			name = strings.TrimPrefix(name, "/")
			if j := strings.IndexAny(name, "[("); j >= 0 {
				name = name[:j]
			}
			return name
		}
	}
	return "unknown"
}

func headerSnapshot(h http.Header) http.Header {
	if h == nil {
		return nil
	}
	return h.Clone()
}

func sameHeader(a, b http.Header) bool {
	if len(a) == 0 && len(b) == 0 {
		return true
	}
	return reflect.DeepEqual(a, b)
}

func runCase[R any](c *apiCase, rk rKind[R]) (res result) {
	stub := &stubRT{plan: c.Resp}
	sh := network.NewSimpleHTTPWithClientAndInterceptors(&http.Client{Transport: stub})
	api := network.NewSimpleAPIWithSimpleHTTP(c.Base, sh)
	if !c.HeaderNil {
		api.DefaultHeader = http.Header{}
		for _, kv := range c.Header {
			api.DefaultHeader.Add(kv[0], kv[1])
		}
	}
	headerBefore := headerSnapshot(api.DefaultHeader)

	// serializers / deserializer (configured before the API function is made)
	var serCalls int
	bodySer := network.BodySerializer(network.JSONBodySerializer)
	switch c.Ser {
	case serCustom:
		bodySer = func(body interface{}) (io.Reader, error) {
			serCalls++
			b, err := json.Marshal(body)
			if err != nil {
				return nil, err
			}
			return strings.NewReader("custom:" + string(b)), nil
		}
	case serFailing:
		bodySer = func(body interface{}) (io.Reader, error) { serCalls++; return nil, errSer }
	case serBrokenReader:
		bodySer = func(body interface{}) (io.Reader, error) {
			serCalls++
			return &failingReader{data: []byte(`{"streamed":"this body breaks off after a few bytes"`), err: errStream}, nil
		}
	}
	mpSer := network.MultipartSerializer(network.GeneralMultipartSerializer)
	switch c.Ser {
	case serCustom:
		mpSer = func(f *network.MultipartForm) (io.Reader, string, error) {
			serCalls++
			return bytes.NewBufferString(customMultipartRepr(f)), customMPType, nil
		}
	case serFailing:
		mpSer = func(f *network.MultipartForm) (io.Reader, string, error) { serCalls++; return nil, "", errSer }
	case serBrokenReader:
		mpSer = func(f *network.MultipartForm) (io.Reader, string, error) {
			serCalls++
			return &failingReader{data: []byte("--b\r\nContent-Disposition: form-data; name=\"a\"\r\n\r\n"), err: errStream}, customMPType, nil
		}
	}
	if c.Ser != serDefault {
		api.RequestSerializerForJSON = bodySer
		api.RequestSerializerForMultipart = mpSer
	}
	switch c.Des {
	case desCustomFresh:
		api.ResponseDeserializer = func(body []byte, target interface{}) (interface{}, error) {
			fresh := new(R)
			if err := json.Unmarshal(body, fresh); err != nil {
				return target, err
			}
			return fresh, nil
		}
	case desTargetErr:
		api.ResponseDeserializer = func(body []byte, target interface{}) (interface{}, error) { return target, errDes }
	case desNilErr:
		api.ResponseDeserializer = func(body []byte, target interface{}) (interface{}, error) { return nil, errDes }
	}

	var pp network.PathParam
	if !c.NilParams {
		pp = network.PathParam{}
		for _, p := range c.Params {
			pp[p.Key] = p.Val.value()
		}
	}
	body := c.Body.value()
	form := c.Form.build()
	target := rk.fresh()

	// --- make the API function and call it: nothing may be sent
	var eval func() *network.APIResponse[R]
	if p, stack := vlib.Try(func() {
		switch c.Ctor {
		case cGet:
			m := network.APIMakeGet[R](api, c.Template)(pp, target)
			eval = wrapEval(c, m)
		case cDelete:
			m := network.APIMakeDelete[R](api, c.Template)(pp, target)
			eval = wrapEval(c, m)
		case cPostJSON:
			m := network.APIMakePostJSONBody[interface{}, R](api, c.Template)(pp, body, target)
			eval = wrapEval(c, m)
		case cPutJSON:
			m := network.APIMakePutJSONBody[interface{}, R](api, c.Template)(pp, body, target)
			eval = wrapEval(c, m)
		case cPatchJSON:
			m := network.APIMakePatchJSONBody[interface{}, R](api, c.Template)(pp, body, target)
			eval = wrapEval(c, m)
		case cPostMP:
			m := network.APIMakePostMultipartBody[R](api, c.Template)(pp, form, target)
			eval = wrapEval(c, m)
		case cPutMP:
			m := network.APIMakePutMultipartBody[R](api, c.Template)(pp, form, target)
			eval = wrapEval(c, m)
		case cPatchMP:
			m := network.APIMakePatchMultipartBody[R](api, c.Template)(pp, form, target)
			eval = wrapEval(c, m)
		case cGenNoBody:
			m := network.APIMakeDoNewRequest[R](api, c.Method, c.Template)(pp, target)
			eval = wrapEval(c, m)
		case cGenBody:
			m := network.APIMakeDoNewRequestWithBodySerializer[interface{}, R](api, c.Method, c.Template, c.CT, bodySer)(pp, body, target)
			eval = wrapEval(c, m)
		case cGenMP:
			m := network.APIMakeDoNewRequestWithMultipartSerializer[R](api, c.Method, c.Template, mpSer)(pp, form, target)
			eval = wrapEval(c, m)
		}
	}); p != nil {
		res.fail("C17/panic:"+panicSite(stack)+":construct", "%s: panic while building the API call: %v\n%s", ctorNames[c.Ctor], p, firstFrames(stack))
		return
	}
	if n := stub.count(); n != 0 {
		res.fail("C17/lazy", "%s sent %d request(s) before the MonadIO was evaluated", ctorNames[c.Ctor], n)
		return
	}

	// --- what each evaluation must do
	supplied := c.Params
	if c.NilParams {
		supplied = nil
	}
	wantRaw := c.Base + "/" + substituteAll(c.Template, supplied)
	wantURL, urlErr := url.Parse(wantRaw)

	serFails := false // the serializer certainly fails (when it is called)
	hasBody := c.isJSONBody() || c.isMultipart()
	bodyOptional := false // nil-like body: the serializer may legitimately be skipped
	if c.isJSONBody() {
		bodyOptional = c.Body.nilLike()
		switch c.Ser {
		case serFailing:
			serFails = true
		default:
			if _, err := json.Marshal(body); err != nil {
				serFails = true
			}
		}
	}
	if c.isMultipart() {
		bodyOptional = c.Form.Nil
		if !c.Form.Nil {
			serFails = c.Ser == serFailing || (c.Ser == serDefault && c.Form.Missing)
		} else if c.Ser == serFailing {
			serFails = true
		}
	}

	// what every evaluation handed back, looked at again after all later evaluations of the same MonadIO:
	// a result belongs to its evaluation
	type handedBack struct {
		r        *network.APIResponse[R]
		err      error
		httpResp *http.Response
	}
	var kept []handedBack
	defer func() {
		if res.key != "" {
			return
		}
		for j, k := range kept {
			if k.r.Err != k.err || k.r.Response != k.httpResp {
				res.fail("C17/result-changed", "evaluation %d handed back Err=%v and the response %p; after %d further evaluation(s) the value it handed back holds Err=%v and the response %p", j, k.err, k.httpResp, len(kept)-1-j, k.r.Err, k.r.Response)
				return
			}
		}
	}()
	for i := 0; i < len(c.Resp); i++ {
		sent := stub.count()
		serBefore := serCalls
		targetBefore := rk.clone(target)
		var resp *network.APIResponse[R]
		if p, stack := vlib.Try(func() { resp = eval() }); p != nil {
			res.fail("C17/panic:"+panicSite(stack)+":"+c.faultName(i), "%s evaluation %d panicked instead of returning Err: %v\n%s", ctorNames[c.Ctor], i, p, firstFrames(stack))
			return
		}
		if resp == nil {
			res.fail("C17/nil-response", "evaluation %d returned a nil *APIResponse", i)
			return
		}
		kept = append(kept, handedBack{resp, resp.Err, resp.Response})
		n := stub.count() - sent
		if c.Ser == serBrokenReader && serCalls > serBefore && urlErr == nil {
			// the body the serializer produced cannot be read to its end: the request cannot have been
			// delivered, and the failure comes back as Err
			if resp.Err == nil {
				res.fail("C17/fault:not-reported", "evaluation %d: the serializer's output stream failed after %d bytes, but Err is nil (%d request(s) reached the transport)", i, 20, n)
				return
			}
			if !errors.Is(resp.Err, errStream) {
				res.fail("C17/fault:serializer-stream", "evaluation %d: Err=%v does not carry the error of the serializer's output stream", i, resp.Err)
				return
			}
			continue
		}
		if !sameHeader(api.DefaultHeader, headerBefore) {
			res.fail("C17/header:shared-map", "evaluation %d changed api.DefaultHeader from %v to %v: the request carried the shared map, not a copy", i, headerBefore, api.DefaultHeader)
			return
		}
		mustNotSend := urlErr != nil || (serFails && !bodyOptional)
		maySkipSend := serFails && bodyOptional
		if mustNotSend || (maySkipSend && n == 0) {
			if n != 0 {
				res.fail("C17/request-count:after-failure", "evaluation %d sent %d request(s) although %s", i, n, c.whyNoSend(urlErr))
				return
			}
			if resp.Err == nil {
				res.fail("C17/fault:not-reported", "evaluation %d: %s, but Err is nil", i, c.whyNoSend(urlErr))
				return
			}
			if urlErr == nil && c.Ser == serFailing && !errors.Is(resp.Err, errSer) {
				res.fail("C17/fault:serializer", "evaluation %d: Err=%v does not carry the serializer's error", i, resp.Err)
				return
			}
			continue
		}
		if n != 1 {
			res.fail("C17/request-count", "evaluation %d issued %d requests, want exactly 1 (Err=%v)", i, n, resp.Err)
			return
		}
		got := stub.at(sent)
		if got.Method != c.wantMethod() {
			res.fail("C17/method:"+ctorNames[c.Ctor], "%s sent %s, the constructor names %s", ctorNames[c.Ctor], got.Method, c.wantMethod())
			return
		}
		if got.URL != wantURL.String() {
			key := "C17/url"
			if c.Ambiguous {
				key = "C17/url:value-contains-placeholder"
			}
			res.fail(key, "request URL %q, want %q (= BaseURL + \"/\" + %q with %v substituted)", got.URL, wantURL.String(), c.Template, supplied)
			return
		}
		// headers: every default entry is there; declared Content-Type is there
		if !c.HeaderNil {
			for k, vs := range headerBefore {
				gv := got.Header[k]
				for _, v := range vs {
					if !contains(gv, v) {
						res.fail("C17/header:default-missing", "request header %q = %v lacks default value %q", k, gv, v)
						return
					}
				}
			}
		}
		// body + content type
		sentBody := hasBody && !(bodyOptional && len(got.Body) == 0)
		ct := got.Header.Values("Content-Type")
		switch {
		case !hasBody:
			if len(got.Body) != 0 {
				res.fail("C17/body:unexpected", "%s sent a body %q", ctorNames[c.Ctor], got.Body)
				return
			}
		case !sentBody:
			// nil body, nothing sent: accepted - the request of a body-carrying constructor still carries the
			// Content-Type the constructor declares
			if c.isJSONBody() {
				declared := "application/json"
				if c.Ctor == cGenBody {
					declared = c.CT
				}
				if declared != "" && !containsSub(ct, declared) {
					res.fail("C17/header:content-type", "request without a body (nil body value): Content-Type %v lacks the declared %q", ct, declared)
					return
				}
			}
		case c.isJSONBody():
			declared := "application/json"
			if c.Ctor == cGenBody {
				declared = c.CT
			}
			if declared != "" && !containsSub(ct, declared) {
				res.fail("C17/header:content-type", "Content-Type %v lacks the declared %q", ct, declared)
				return
			}
			raw, _ := json.Marshal(body)
			want := raw
			key := "C17/body:json"
			if c.Ser == serCustom {
				want = append([]byte("custom:"), raw...)
				key = "C17/body:custom-serializer"
			}
			same := bytes.Equal(got.Body, want)
			if !same && c.Ser == serDefault {
				// the default serializer is "JSON": formatting is its own business
				var g, w interface{}
				same = json.Unmarshal(got.Body, &g) == nil && json.Unmarshal(want, &w) == nil && reflect.DeepEqual(g, w)
			}
			if !same {
				res.fail(key, "request body %q, serializer output is %q", got.Body, want)
				return
			}
		case c.isMultipart() && c.Ser == serCustom:
			if !containsSub(ct, customMPType) {
				res.fail("C17/header:content-type", "Content-Type %v lacks the serializer's %q", ct, customMPType)
				return
			}
			if want := customMultipartRepr(form); string(got.Body) != want {
				res.fail("C17/body:custom-serializer", "request body %q, serializer output is %q", got.Body, want)
				return
			}
		case c.isMultipart():
			if msg := checkMultipart(ct, got.Body, form); msg != "" {
				res.fail("C17/body:multipart", "%s", msg)
				return
			}
		}
		// outcome
		spec := c.Resp[i]
		switch {
		case spec.Fault == fTransport:
			if want := transportErrs[spec.ErrKind%len(transportErrs)]; !errors.Is(resp.Err, want) {
				res.fail("C17/fault:transport", "evaluation %d: the transport failed with %v but Err=%v", i, want, resp.Err)
				return
			}
		case spec.Fault == fBodyRead:
			if !errors.Is(resp.Err, errBodyRead) {
				res.fail("C17/fault:body-read", "evaluation %d: reading the response body failed but Err=%v", i, resp.Err)
				return
			}
		case c.Des == desTargetErr || c.Des == desNilErr:
			if !errors.Is(resp.Err, errDes) {
				res.fail("C17/fault:deserializer", "evaluation %d: deserializer failed but Err=%v", i, resp.Err)
				return
			}
		default:
			exp := targetBefore
			if c.Des == desCustomFresh {
				exp = new(R)
			}
			wantErr := json.Unmarshal([]byte(spec.Body), exp)
			if wantErr != nil {
				if resp.Err == nil {
					res.fail("C17/decode:error-lost", "evaluation %d: body %q does not decode (%v) but Err is nil", i, spec.Body, wantErr)
					return
				}
				break
			}
			if resp.Err != nil {
				res.fail("C17/decode:spurious-error", "evaluation %d: body %q decodes but Err=%v", i, spec.Body, resp.Err)
				return
			}
			if resp.TargetObject == nil || !reflect.DeepEqual(*resp.TargetObject, *exp) {
				res.fail("C17/decode:TargetObject", "evaluation %d: TargetObject=%+v, decoded body is %+v", i, resp.TargetObject, *exp)
				return
			}
			if c.Des == desDefault && !reflect.DeepEqual(*target, *exp) {
				res.fail("C17/decode:target", "evaluation %d: supplied target holds %+v, decoded body is %+v", i, *target, *exp)
				return
			}
		}
	}
	return
}

func (c *apiCase) faultName(i int) string {
	switch {
	case c.Resp[i].Fault == fTransport:
		return "transport-error"
	case c.Resp[i].Fault == fBodyRead:
		return "body-read-error"
	case c.Des == desNilErr:
		return "deserializer-nil-err"
	case c.Des == desTargetErr:
		return "deserializer-target-err"
	case c.Ser == serFailing:
		return "serializer-error"
	}
	return "no-fault"
}

func (c *apiCase) whyNoSend(urlErr error) string {
	if urlErr != nil {
		return fmt.Sprintf("the URL does not parse (%v)", urlErr)
	}
	return "the body serializer failed"
}

func containsSub(vs []string, sub string) bool {
	for _, x := range vs {
		if strings.Contains(x, sub) {
			return true
		}
	}
	return false
}

func contains(vs []string, v string) bool {
	for _, x := range vs {
		if x == v {
			return true
		}
	}
	return false
}

func checkMultipart(cts []string, body []byte, form *network.MultipartForm) string {
	if form == nil {
		form = &network.MultipartForm{}
	}
	boundary := ""
	for _, ct := range cts {
		mt, params, err := mime.ParseMediaType(ct)
		if err == nil && mt == "multipart/form-data" && params["boundary"] != "" {
			boundary = params["boundary"]
		}
	}
	if boundary == "" {
		return fmt.Sprintf("Content-Type %v declares no multipart/form-data boundary", cts)
	}
	got, err := multipart.NewReader(bytes.NewReader(body), boundary).ReadForm(1 << 20)
	if err != nil {
		return fmt.Sprintf("body is not a multipart form for the declared boundary: %v", err)
	}
	defer got.RemoveAll()
	wantV := map[string][]string{}
	for k, vs := range form.Value {
		if len(vs) > 0 {
			wantV[k] = vs
		}
	}
	if len(got.Value) != len(wantV) {
		return fmt.Sprintf("form values %v, want %v", got.Value, wantV)
	}
	for k, vs := range wantV {
		if !reflect.DeepEqual(got.Value[k], vs) {
			return fmt.Sprintf("form values %v, want %v", got.Value, wantV)
		}
	}
	nFiles := 0
	for field, paths := range form.File {
		if len(paths) == 0 {
			continue
		}
		nFiles++
		fhs := got.File[field]
		if len(fhs) != len(paths) {
			return fmt.Sprintf("field %q carries %d files, want %d", field, len(fhs), len(paths))
		}
		for i, p := range paths {
			if fhs[i].Filename != filepath.Base(p) {
				return fmt.Sprintf("field %q file %d named %q, want %q", field, i, fhs[i].Filename, filepath.Base(p))
			}
			f, err := fhs[i].Open()
			if err != nil {
				return err.Error()
			}
			data, _ := io.ReadAll(f)
			f.Close()
			want, _ := os.ReadFile(p)
			if !bytes.Equal(data, want) {
				return fmt.Sprintf("field %q file %q content %q, want %q", field, fhs[i].Filename, data, want)
			}
		}
	}
	if len(got.File) != nFiles {
		return fmt.Sprintf("form has %d file fields, want %d", len(got.File), nFiles)
	}
	return ""
}

func run(c *apiCase) result {
	if c.RType == 1 {
		return runCase(c, rMap)
	}
	return runCase(c, rStruct)
}

// ---------------------------------------------------------------- statistics

var placeholderRe = regexp.MustCompile(`\{[^{}]+\}`)

func (c *apiCase) shape() (nPlace, matching, extra int) {
	keys := map[string]bool{}
	if !c.NilParams {
		for _, p := range c.Params {
			keys[p.Key] = true
		}
	}
	for k := range keys {
		n := strings.Count(c.Template, "{"+k+"}")
		if n > 0 {
			matching++
		} else {
			extra++
		}
	}
	nPlace = len(placeholderRe.FindAllString(c.Template, -1))
	return
}

func (c *apiCase) anyFault() string {
	for i := range c.Resp {
		if f := c.faultName(i); f != "no-fault" {
			return f
		}
	}
	if c.Ser == serFailing || (c.isMultipart() && c.Form.Missing) || (c.isJSONBody() && c.Body.Kind == bUnserialisable) {
		return "serializer-error"
	}
	return "no-fault"
}

func account(part string, c *apiCase) {
	s := vlib.S()
	s.Eval(part)
	nPlace, matching, extra := c.shape()
	fault := c.anyFault()
	s.Class("ctor/" + ctorNames[c.Ctor])
	s.Class(fmt.Sprintf("placeholders/%d", min(nPlace, 5)))
	s.Class(fmt.Sprintf("supplied-matching/%d", matching))
	s.Class("fault/" + fault)
	s.Class(fmt.Sprintf("evaluations/%d", len(c.Resp)))
	m := c.wantMethod()
	nonPostBody := (c.isJSONBody() || c.isMultipart()) && m != http.MethodPost
	if len(c.Resp) > 0 && ((nPlace >= 2 && matching >= 2) || nonPostBody || fault != "no-fault") {
		s.NonTrivial(part, fmt.Sprintf("%s %s placeholders=%d matching=%d extra=%d nilParams=%v fault=%s evals=%d ser=%d des=%d", ctorNames[c.Ctor], m, nPlace, matching, extra, c.NilParams, fault, len(c.Resp), c.Ser, c.Des))
		s.Class(part + "/nontrivial")
	} else {
		s.Class(part + "/trivial")
	}
}

// ---------------------------------------------------------------- generators

var bases = []string{"http://api.test", "https://example.org:8443", "http://127.0.0.1:9/v1", "http://h/a/b", "https://svc.internal/prefix%20x"}

var keyPool = []string{"id", "uid", "a", "ab", "x.y", "k-1", "q", "n", "名"}

type piece struct {
	Lit string
	Key string // non-empty: a placeholder
}

func stripBraces(s string) string { return strings.NewReplacer("{", "", "}", "").Replace(s) }

func genLiteral(t *rapid.T, label string) string {
	return rapid.StringOfN(rapid.SampledFrom([]rune("abcxyz019._-~:@ %{}é")), 0, 5, -1).Draw(t, label)
}

func genValue(t *rapid.T) pval {
	switch rapid.IntRange(0, 9).Draw(t, "vkind") {
	case 0:
		return pval{K: "i", I: rapid.IntRange(-5, 100000).Draw(t, "vi")}
	case 1:
		return pval{K: "b", B: rapid.Bool().Draw(t, "vb")}
	case 2:
		// values of other numeric types and a Stringer: "replaced by its value" is the value's default rendering
		switch rapid.IntRange(0, 4).Draw(t, "numKind") {
		case 0:
			return pval{K: "f32", F: rapid.SampledFrom([]float64{0.1, 37.7749, 1.5, -2.3, 1e10}).Draw(t, "vf32")}
		case 1:
			return pval{K: "i64", I: rapid.IntRange(-5, 1<<40).Draw(t, "vi64")}
		case 2:
			return pval{K: "u8", I: rapid.IntRange(0, 255).Draw(t, "vu8")}
		case 3:
			return pval{K: "dur", I: rapid.IntRange(0, 90000).Draw(t, "vdur")}
		}
		return pval{K: "f", F: rapid.SampledFrom([]float64{0.5, 2, -1.25, 1e21, 0.1, 1e-7}).Draw(t, "vf")}
	case 3:
		// a value that is itself a placeholder token (kept only when harmless)
		return pval{K: "s", S: "{" + rapid.SampledFrom(keyPool).Draw(t, "vtok") + "}"}
	}
	return pval{K: "s", S: rapid.StringOfN(rapid.SampledFrom([]rune("abcXYZ0189 %/?&=#+.-_~é名{}")), 0, 8, -1).Draw(t, "vs")}
}

// genTemplate draws path segments and an optional query, with 0..4 placeholders.
func genTemplate(t *rapid.T) (pieces []piece, keys []string) {
	nPlace := rapid.SampledFrom([]int{0, 1, 1, 2, 2, 2, 3, 3, 4}).Draw(t, "nplace")
	nSeg := rapid.IntRange(1, 4).Draw(t, "nseg")
	slots := nSeg + rapid.IntRange(0, 2).Draw(t, "nquery")
	if rapid.IntRange(0, 7).Draw(t, "leadingSlash") == 0 {
		pieces = append(pieces, piece{Lit: "/"})
	}
	placeAt := map[int]int{}
	for i := 0; i < nPlace; i++ {
		placeAt[rapid.IntRange(0, slots-1).Draw(t, "slot")]++
	}
	for s := 0; s < slots; s++ {
		switch {
		case s == 0:
		case s < nSeg:
			pieces = append(pieces, piece{Lit: "/"})
		case s == nSeg:
			pieces = append(pieces, piece{Lit: "?p" + fmt.Sprint(s) + "="})
		default:
			pieces = append(pieces, piece{Lit: "&p" + fmt.Sprint(s) + "="})
		}
		pieces = append(pieces, piece{Lit: genLiteral(t, "lit")})
		for j := 0; j < placeAt[s]; j++ {
			k := rapid.SampledFrom(keyPool).Draw(t, "key")
			keys = append(keys, k)
			pieces = append(pieces, piece{Key: k})
			if rapid.Bool().Draw(t, "sep") {
				pieces = append(pieces, piece{Lit: genLiteral(t, "lit2")})
			}
		}
	}
	return
}

func render(pieces []piece, braces bool) string {
	var sb strings.Builder
	for _, p := range pieces {
		if p.Key != "" {
			sb.WriteString("{" + p.Key + "}")
		} else if braces {
			sb.WriteString(p.Lit)
		} else {
			sb.WriteString(stripBraces(p.Lit))
		}
	}
	return sb.String()
}

func genURLPart(t *rapid.T, c *apiCase) {
	c.Base = rapid.SampledFrom(bases).Draw(t, "base")
	pieces, keys := genTemplate(t)
	seen := map[string]bool{}
	for _, k := range keys {
		if seen[k] {
			continue
		}
		seen[k] = true
		if rapid.IntRange(0, 5).Draw(t, "supply") > 0 {
			c.Params = append(c.Params, param{Key: k, Val: genValue(t)})
		}
	}
	for i, n := 0, rapid.SampledFrom([]int{0, 0, 0, 1, 2}).Draw(t, "extra"); i < n; i++ {
		k := rapid.SampledFrom(keyPool).Draw(t, "extraKey")
		if !seen[k] {
			seen[k] = true
			c.Params = append(c.Params, param{Key: k, Val: genValue(t)})
		}
	}
	c.NilParams = len(c.Params) == 0 && rapid.Bool().Draw(t, "nilParams")
	c.Template = render(pieces, true)
	if !orderIndependent(c.Template, c.Params) && rapid.Bool().Draw(t, "keepAmbiguous") {
		// a value contains another supplied {key}: "every supplied {key} of the template replaced
		// by its value" means one pass over the template; replaced text is not substituted again
		vlib.S().Class("template/value-contains-placeholder")
		c.Ambiguous = true
	} else if !orderIndependent(c.Template, c.Params) {
		// drop the brace characters that are not placeholders
		vlib.S().Class("template/braces-dropped")
		c.Template = render(pieces, false)
		for i := range c.Params {
			if c.Params[i].Val.K == "s" {
				c.Params[i].Val.S = stripBraces(c.Params[i].Val.S)
			}
		}
	}
}

var headerKeys = []string{"Accept", "Authorization", "X-Trace-Id", "X-Tenant", "Content-Type", "User-Agent"}

func genCase(t *rapid.T) *apiCase {
	c := &apiCase{}
	c.Ctor = rapid.SampledFrom([]int{cPutJSON, cGenBody, cPatchMP, cGet, cGenMP, cPostJSON, cGenNoBody, cPutMP, cPatchJSON, cDelete, cPostMP, cGenBody, cGenMP}).Draw(t, "ctor")
	if c.Ctor >= cGenNoBody {
		c.Method = rapid.SampledFrom(verbs).Draw(t, "method")
	}
	genURLPart(t, c)
	c.HeaderNil = rapid.IntRange(0, 3).Draw(t, "headerNil") == 0
	if !c.HeaderNil {
		for i, n := 0, rapid.IntRange(0, 4).Draw(t, "nheader"); i < n; i++ {
			k := rapid.SampledFrom(headerKeys).Draw(t, "hk")
			v := rapid.SampledFrom([]string{"a", "application/xml", "Bearer t0k", "text/plain; charset=utf-8", "42"}).Draw(t, "hv")
			c.Header = append(c.Header, [2]string{k, v})
		}
	}
	c.Body = bodySpec{Kind: rapid.IntRange(0, numBodyKinds-1).Draw(t, "bodyKind"), A: rapid.IntRange(-3, 1000).Draw(t, "ba"),
		B: rapid.SampledFrom([]string{"", "x", "héllo \"q\"", "<&>"}).Draw(t, "bb")}
	c.CT = rapid.SampledFrom([]string{"application/json", "application/json", "text/plain", "application/x-thing; v=2", ""}).Draw(t, "ct")
	if c.isMultipart() {
		c.Form.Nil = rapid.IntRange(0, 7).Draw(t, "formNil") == 0
		if !c.Form.Nil {
			for i, n := 0, rapid.IntRange(0, 3).Draw(t, "nvalues"); i < n; i++ {
				if c.Form.Value == nil {
					c.Form.Value = map[string][]string{}
				}
				k := rapid.SampledFrom([]string{"title", "userId", "body", "t a g"}).Draw(t, "fk")
				v := rapid.SampledFrom([]string{"", "1", "two words", "line\r\nbreak", "é"}).Draw(t, "fv")
				c.Form.Value[k] = append(c.Form.Value[k], v)
			}
			for i, n := 0, rapid.SampledFrom([]int{0, 0, 1, 2}).Draw(t, "nfiles"); i < n; i++ {
				if c.Form.Files == nil {
					c.Form.Files = map[string][]int{}
				}
				k := rapid.SampledFrom([]string{"file", "attachment"}).Draw(t, "ffk")
				c.Form.Files[k] = append(c.Form.Files[k], rapid.IntRange(0, len(fixtureNames)-1).Draw(t, "ffi"))
			}
			c.Form.Missing = rapid.IntRange(0, 9).Draw(t, "missingFile") == 0
		}
	}
	c.Ser = rapid.SampledFrom([]int{serDefault, serDefault, serDefault, serCustom, serFailing, serBrokenReader}).Draw(t, "ser")
	c.Des = rapid.SampledFrom([]int{desDefault, desDefault, desDefault, desCustomFresh, desTargetErr, desNilErr}).Draw(t, "des")
	c.RType = rapid.IntRange(0, 1).Draw(t, "rtype")
	c.Via = rapid.SampledFrom([]int{0, 0, 1, 2}).Draw(t, "via")
	nEval := rapid.SampledFrom([]int{0, 1, 1, 2, 2, 3}).Draw(t, "evals")
	bodies := []string{`{"id":7,"name":"n","tags":["a","b"]}`, `{"id":3}`, `{}`, `null`, `{"id":"x"}`, `{"id":`, ``, `[1,2]`, `{"name":"ü","tags":null,"other":{"k":1}}`,
		// a complete JSON value followed by something else is not a JSON document
		`{"id":7}{"error":"late"}`, `{"id":7}]`, "{\"id\":7}\n<html>502</html>", `{"id":7} `}
	c.Resp = []respSpec{}
	for i := 0; i < nEval; i++ {
		r := respSpec{Body: rapid.SampledFrom(bodies).Draw(t, "respBody")}
		r.Fault = rapid.SampledFrom([]int{fNone, fNone, fNone, fNone, fTransport, fBodyRead}).Draw(t, "fault")
		if r.Fault == fTransport {
			r.ErrKind = rapid.IntRange(0, len(transportErrs)-1).Draw(t, "errKind")
		}
		r.Chunk = rapid.SampledFrom([]int{0, 0, 1, 3, 16}).Draw(t, "chunk")
		r.Announce = rapid.Bool().Draw(t, "announce")
		r.Status = rapid.SampledFrom([]int{0, 0, 0, 201, 202, 404, 409, 500, 503}).Draw(t, "status")
		c.Resp = append(c.Resp, r)
	}
	return c
}

func propCase(t *rapid.T) {
	c := genCase(t)
	account("cases", c)
	if r := run(c); r.key != "" {
		if vlib.Fail(t, r.key, "%s\ncase: %s", r.msg, c) {
			t.Skip("known finding")
		}
	}
}

// propTemplate is the fuzz-friendly slice of the domain: arbitrary template
// text and parameter values, one evaluation, request count / method / URL.
func propTemplate(t *rapid.T) {
	c := &apiCase{Ctor: rapid.SampledFrom([]int{cGet, cDelete, cPostJSON, cGenNoBody}).Draw(t, "ctor"), Method: http.MethodOptions}
	c.Base = rapid.SampledFrom(bases).Draw(t, "base")
	var sb strings.Builder
	var keys []string
	for i, n := 0, rapid.IntRange(0, 8).Draw(t, "npieces"); i < n; i++ {
		if rapid.Bool().Draw(t, "isKey") && len(keys) < 4 {
			k := rapid.OneOf(rapid.SampledFrom(keyPool), rapid.String().Filter(func(s string) bool { return s != "" && !strings.ContainsAny(s, "{}") })).Draw(t, "key")
			keys = append(keys, k)
			sb.WriteString("{" + k + "}")
		} else {
			sb.WriteString(rapid.String().Draw(t, "lit"))
		}
	}
	c.Template = sb.String()
	seen := map[string]bool{}
	for _, k := range keys {
		if !seen[k] && rapid.IntRange(0, 4).Draw(t, "supply") > 0 {
			c.Params = append(c.Params, param{Key: k, Val: pval{K: "s", S: rapid.String().Draw(t, "val")}})
		}
		seen[k] = true
	}
	if !orderIndependent(c.Template, c.Params) {
		t.Skip("no unique expected URL")
	}
	c.Body = bodySpec{Kind: bStruct, A: 1, B: "x"}
	c.Resp = []respSpec{{Body: `{"id":1}`}}
	account("templates", c)
	if r := run(c); r.key != "" {
		if vlib.Fail(t, r.key, "%s\ncase: %s", r.msg, c) {
			t.Skip("known finding")
		}
	}
}

// ---------------------------------------------------------------- regression table (runs first)

var okResp = []respSpec{{Body: `{"id":7,"name":"n","tags":["a"]}`, Chunk: 5, Announce: true}}

var regressions = []*apiCase{
	// DESIGN §4 #20: every Put*/Patch* constructor passed http.MethodPost
	{Ctor: cPutJSON, Base: "http://api.test", Template: "posts", Body: bodySpec{Kind: bStruct, A: 4, B: "bb"}, Resp: okResp},
	{Ctor: cPatchJSON, Base: "http://api.test", Template: "posts", Body: bodySpec{Kind: bStruct, A: 3, B: "cc"}, Resp: okResp},
	{Ctor: cPutMP, Base: "http://api.test", Template: "posts", Form: formSpec{Value: map[string][]string{"title": {"bb"}}}, Resp: okResp},
	{Ctor: cPatchMP, Base: "http://api.test", Template: "posts", Form: formSpec{Value: map[string][]string{"title": {"cc"}}, Files: map[string][]int{"file": {0, 1}}}, Resp: okResp},
	// DESIGN §4 #21: replacePathParams restarted from the template for every key
	{Ctor: cGet, Base: "http://api.test", Template: "users/{uid}/posts/{id}", Params: []param{{"uid", pval{K: "i", I: 5}}, {"id", pval{K: "s", S: "p 1"}}}, Resp: okResp},
	{Ctor: cDelete, Base: "http://h/a/b", Template: "{a}/{ab}?q={q}&n={n}", Params: []param{{"a", pval{K: "s", S: "x"}}, {"ab", pval{K: "b", B: true}}, {"q", pval{K: "s", S: "1&z=2"}}, {"n", pval{K: "f", F: 0.5}}, {"unused", pval{K: "i", I: 1}}}, Resp: okResp},
	// DESIGN §4 #22: a deserializer returning (nil, err) made decodeResponseBody panic
	{Ctor: cGet, Base: "http://api.test", Template: "posts", Des: desNilErr, Resp: okResp},
	{Ctor: cPostJSON, Base: "http://api.test", Template: "posts", Des: desNilErr, RType: 1, Body: bodySpec{Kind: bMap, A: 1}, Resp: []respSpec{{Body: "{}"}, {Body: "{}"}}},
	// neighbours that must keep holding
	{Ctor: cPostJSON, Base: "http://api.test", Template: "posts/{id}", Params: []param{{"id", pval{K: "s", S: "%"}}}, Body: bodySpec{Kind: bStruct}, Resp: okResp},
	{Ctor: cGenBody, Method: http.MethodPut, CT: "text/plain", Ser: serFailing, Base: "http://api.test", Template: "x", Body: bodySpec{Kind: bString, B: "x"}, Resp: okResp},
	{Ctor: cPostMP, Base: "http://api.test", Template: "up", Form: formSpec{Missing: true}, Resp: okResp},
	{Ctor: cGenNoBody, Method: http.MethodHead, Base: "http://api.test", Template: "x", Header: [][2]string{{"Accept", "a"}, {"Content-Type", "text/plain"}}, Resp: []respSpec{{Body: "{}", Fault: fTransport}, {Body: "{}", Fault: fBodyRead}, {Body: `{"id":`}}},
	{Ctor: cPostJSON, Base: "http://api.test", Template: "posts", Header: [][2]string{{"Content-Type", "application/xml"}, {"X-Tenant", "42"}}, Des: desTargetErr, Body: bodySpec{Kind: bNilPtr}, Resp: []respSpec{{Body: "{}"}, {Body: "{}"}, {Body: "{}"}}},
}

func TestRegress(t *testing.T) {
	if vlib.Replaying() {
		t.Skip()
	}
	fixtures(t)
	for i, c := range regressions {
		for rtype := 0; rtype < 2; rtype++ {
			cc := *c
			if c.RType == 0 {
				cc.RType = rtype
			}
			account("regress", &cc)
			if r := run(&cc); r.key != "" {
				vlib.WriteReplay("C17/case", &cc)
				if vlib.Fail(t, r.key, "regression %d: %s\ncase: %s", i, r.msg, &cc) {
					continue
				}
			}
		}
	}
}

func TestReplayJSON(t *testing.T) {
	raw := vlib.ReplayCase("C17/case")
	if raw == nil {
		t.Skip("no replay case")
	}
	fixtures(t)
	var c apiCase
	if err := json.Unmarshal(raw, &c); err != nil {
		t.Fatalf("bad replay: %v", err)
	}
	if r := run(&c); r.key != "" {
		t.Fatalf("[key=%s] replay: %s\ncase: %s", r.key, r.msg, &c)
	}
}

// ---------------------------------------------------------------- rapid entry points

func TestCases(t *testing.T) {
	if vlib.Replaying() && vlib.ReplayCase("C17/case") != nil {
		t.Skip()
	}
	fixtures(t)
	vlib.Check(t, "cases", 20000, 120000, propCase)
}

func TestTemplates(t *testing.T) {
	if vlib.Replaying() && vlib.ReplayCase("C17/case") != nil {
		t.Skip()
	}
	vlib.Check(t, "templates", 5000, 40000, propTemplate)
}

func FuzzTemplate(f *testing.F) {
	f.Add([]byte{})
	f.Add([]byte{0, 0, 0, 0, 0, 0, 0, 0, 3, 0, 0, 0, 0, 0, 0, 0, 1, 0, 0, 0, 0, 0, 0, 0})
	f.Fuzz(rapid.MakeFuzz(propTemplate))
}
