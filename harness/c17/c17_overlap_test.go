package c17

import (
	"bytes"
	"encoding/json"
	"fmt"
	"io"
	"mime"
	"mime/multipart"
	"net/http"
	"strings"
	"sync"
	"testing"

	"github.com/TeaEntityLab/fpGo/v2/network"
	"pgregory.net/rapid"

	"verifharness/vlib"
)

// Part "overlapping-evaluations": "each evaluation issues exactly one request ... whose body is the
// serializer's output for the given body" - also when evaluations overlap: while the transport has the
// request of evaluation A in hand and has not yet read its body, other evaluations (of the same API value,
// of other APIs of the same SimpleAPI, of another SimpleAPI) run to completion - nested inside A's
// RoundTrip (a token refresh, a lookup the transport or an interceptor makes), or on other goroutines. Every
// request's body is the JSON of ITS body value. The calls use the default JSON serializer.

type overlapCase struct {
	Bodies   []int `json:"bodies"`   // payload sizes (bytes of the "pad" field) of the evaluations; [0] is the outer one
	Nested   bool  `json:"nested"`   // the others run nested in the outer RoundTrip; else concurrently on goroutines
	SameAPI  bool  `json:"sameAPI"`  // all evaluations through one SimpleAPIDef
	Ctor     int   `json:"ctor"`     // 0 Post, 1 Put, 2 Patch
	ReadLate bool  `json:"readLate"` // concurrent: transports read the request body only after all requests have arrived
}

func (c overlapCase) String() string { b, _ := json.Marshal(c); return string(b) }

type overlapBody struct {
	ID  int    `json:"id"`
	Pad string `json:"pad"`
}

type overlapRT struct {
	mu      sync.Mutex
	got     map[string][]byte
	nested  func()
	arrived *sync.WaitGroup
}

func (o *overlapRT) RoundTrip(req *http.Request) (*http.Response, error) {
	if o.nested != nil && strings.HasSuffix(req.URL.Path, "/e0") {
		o.nested()
	}
	if o.arrived != nil {
		o.arrived.Done()
		o.arrived.Wait()
	}
	var b []byte
	if req.Body != nil {
		b, _ = io.ReadAll(req.Body)
		req.Body.Close()
	}
	o.mu.Lock()
	o.got[req.URL.Path] = b
	o.mu.Unlock()
	return &http.Response{Status: "200 OK", StatusCode: 200, Proto: "HTTP/1.1", ProtoMajor: 1, ProtoMinor: 1,
		Header: http.Header{"Content-Type": {"application/json"}}, Body: io.NopCloser(strings.NewReader("{}")), ContentLength: -1, Request: req}, nil
}

func runOverlap(c overlapCase) (key, msg string) {
	rt := &overlapRT{got: map[string][]byte{}}
	mkAPI := func() *network.SimpleAPIDef {
		return network.NewSimpleAPIWithSimpleHTTP("http://overlap.test", network.NewSimpleHTTPWithClientAndInterceptors(&http.Client{Transport: rt}))
	}
	shared := mkAPI()
	type R = map[string]interface{}
	evals := make([]func() error, len(c.Bodies))
	want := make([][]byte, len(c.Bodies))
	for i, n := range c.Bodies {
		i := i
		body := overlapBody{ID: i, Pad: strings.Repeat(string(rune('a'+i%26)), n)}
		want[i], _ = json.Marshal(body)
		api := shared
		if !c.SameAPI {
			api = mkAPI()
		}
		tmpl := fmt.Sprintf("e%d", i)
		var mk network.APIHasBody[interface{}, R]
		switch c.Ctor {
		case 0:
			mk = network.APIMakePostJSONBody[interface{}, R](api, tmpl)
		case 1:
			mk = network.APIMakePutJSONBody[interface{}, R](api, tmpl)
		default:
			mk = network.APIMakePatchJSONBody[interface{}, R](api, tmpl)
		}
		m := mk(nil, body, new(R))
		evals[i] = func() error { return m.Eval().Err }
	}
	errs := make([]error, len(evals))
	p, st := vlib.Try(func() {
		if c.Nested {
			rt.nested = func() {
				for i := 1; i < len(evals); i++ {
					errs[i] = evals[i]()
				}
			}
			errs[0] = evals[0]()
			return
		}
		var wg sync.WaitGroup
		if c.ReadLate {
			rt.arrived = &sync.WaitGroup{}
			rt.arrived.Add(len(evals))
		}
		for i := range evals {
			i := i
			wg.Add(1)
			go func() { defer wg.Done(); errs[i] = evals[i]() }()
		}
		wg.Wait()
	})
	if p != nil {
		return "C17/overlap/panic", fmt.Sprintf("%v\n%s", p, st)
	}
	for i := range evals {
		if errs[i] != nil {
			return "C17/overlap/err", fmt.Sprintf("evaluation %d: Err = %v (the stub answers 200 {} to everything)", i, errs[i])
		}
		got, ok := rt.got[fmt.Sprintf("/e%d", i)]
		if !ok {
			return "C17/overlap/request-count", fmt.Sprintf("evaluation %d: no request arrived", i)
		}
		if !bytes.Equal(got, want[i]) {
			return "C17/overlap/body", fmt.Sprintf("evaluation %d sent the body %.80q (%d bytes); the serializer's output for its body value is %.80q (%d bytes)", i, got, len(got), want[i], len(want[i]))
		}
	}
	return "", ""
}

var overlapDirected = []overlapCase{
	{Bodies: []int{4, 4}, Nested: true, SameAPI: true},
	{Bodies: []int{100, 3, 50}, Nested: true},
	{Bodies: []int{10, 200, 10, 10}, ReadLate: true, SameAPI: true, Ctor: 1},
}

func TestOverlapRegress(t *testing.T) {
	if vlib.Replaying() {
		t.Skip()
	}
	for _, c := range overlapDirected {
		vlib.S().Eval("overlapping-evaluations")
		vlib.S().NonTrivial("overlapping-evaluations", c.String())
		if key, msg := runOverlap(c); key != "" {
			vlib.WriteReplay("C17/overlap", c)
			vlib.Fail(t, key, "%v: %s", c, msg)
		}
	}
}

func TestOverlapReplay(t *testing.T) {
	raw := vlib.ReplayCase("C17/overlap")
	if raw == nil {
		t.Skip("no replay case")
	}
	var c overlapCase
	if err := json.Unmarshal(raw, &c); err != nil {
		t.Fatal(err)
	}
	for i := 0; i < 20; i++ {
		if key, msg := runOverlap(c); key != "" {
			t.Fatalf("[key=%s] %s", key, msg)
		}
	}
}

func TestOverlap(t *testing.T) {
	if vlib.Replaying() {
		t.Skip()
	}
	vlib.Check(t, "overlapping-evaluations", 300, 5000, func(t *rapid.T) {
		c := overlapCase{Bodies: rapid.SliceOfN(rapid.SampledFrom([]int{0, 1, 8, 64, 700, 5000}), 2, 6).Draw(t, "bodies"),
			Nested: rapid.Bool().Draw(t, "nested"), SameAPI: rapid.Bool().Draw(t, "sameAPI"), Ctor: rapid.IntRange(0, 2).Draw(t, "ctor"), ReadLate: rapid.Bool().Draw(t, "readLate")}
		vlib.S().Eval("overlapping-evaluations")
		vlib.S().NonTrivial("overlapping-evaluations", c.String())
		if key, msg := runOverlap(c); key != "" {
			vlib.WriteReplay("C17/overlap", c)
			if vlib.Fail(t, key, "%v: %s", c, msg) {
				t.Skip("known")
			}
		}
	})
}

// Part "api-function-reuse": an API function (the value APIMake...Body returns) is called several times with
// different bodies; the MonadIOs are evaluated in a drawn order (possibly each twice). Every request carries
// the serializer's output for the body of ITS call - multipart: the fields of its own form, with a boundary
// that its own Content-Type declares; a call with a nil form sends no body and no multipart Content-Type of
// an earlier call; JSON: its own value.

type reuseCase struct {
	Multipart bool  `json:"multipart"`
	Ctor      int   `json:"ctor"`   // 0 Post, 1 Put, 2 Patch
	Bodies    []int `json:"bodies"` // per call: -1 = nil form / nil body pointer, else a payload id
	Order     []int `json:"order"`  // evaluation order (indices into Bodies, repeats allowed)
}

func (c reuseCase) String() string { b, _ := json.Marshal(c); return string(b) }

type reuseRT struct {
	mu   sync.Mutex
	reqs []captured
}

func (r *reuseRT) RoundTrip(req *http.Request) (*http.Response, error) {
	c := captured{Method: req.Method, URL: req.URL.String(), Header: req.Header.Clone()}
	if req.Body != nil {
		c.Body, _ = io.ReadAll(req.Body)
		req.Body.Close()
	}
	r.mu.Lock()
	r.reqs = append(r.reqs, c)
	r.mu.Unlock()
	return &http.Response{Status: "200 OK", StatusCode: 200, Proto: "HTTP/1.1", ProtoMajor: 1, ProtoMinor: 1,
		Header: http.Header{"Content-Type": {"application/json"}}, Body: io.NopCloser(strings.NewReader("{}")), ContentLength: -1, Request: req}, nil
}

func runReuse(c reuseCase) (key, msg string) {
	rt := &reuseRT{}
	api := network.NewSimpleAPIWithSimpleHTTP("http://reuse.test", network.NewSimpleHTTPWithClientAndInterceptors(&http.Client{Transport: rt}))
	type R = map[string]interface{}
	evals := make([]func() *network.APIResponse[R], len(c.Bodies))
	p, st := vlib.Try(func() {
		if c.Multipart {
			var fn network.APIMultipart[R]
			switch c.Ctor {
			case 0:
				fn = network.APIMakePostMultipartBody[R](api, "up/{n}")
			case 1:
				fn = network.APIMakePutMultipartBody[R](api, "up/{n}")
			default:
				fn = network.APIMakePatchMultipartBody[R](api, "up/{n}")
			}
			for i, b := range c.Bodies {
				var form *network.MultipartForm
				if b >= 0 {
					form = &network.MultipartForm{Value: map[string][]string{"id": {fmt.Sprint(b)}, "pad": {strings.Repeat("x", b%50)}}}
				}
				evals[i] = fn(network.PathParam{"n": i}, form, new(R)).Eval
			}
			return
		}
		var fn network.APIHasBody[*overlapBody, R]
		switch c.Ctor {
		case 0:
			fn = network.APIMakePostJSONBody[*overlapBody, R](api, "up/{n}")
		case 1:
			fn = network.APIMakePutJSONBody[*overlapBody, R](api, "up/{n}")
		default:
			fn = network.APIMakePatchJSONBody[*overlapBody, R](api, "up/{n}")
		}
		for i, b := range c.Bodies {
			var body *overlapBody
			if b >= 0 {
				body = &overlapBody{ID: b, Pad: strings.Repeat("y", b%50)}
			}
			evals[i] = fn(network.PathParam{"n": i}, body, new(R)).Eval
		}
	})
	if p != nil {
		return "C17/reuse/panic", fmt.Sprintf("%v\n%s", p, st)
	}
	for step, i := range c.Order {
		before := len(rt.reqs)
		var resp *network.APIResponse[R]
		if p, st := vlib.Try(func() { resp = evals[i]() }); p != nil {
			return "C17/reuse/panic", fmt.Sprintf("evaluation of call %d panicked: %v\n%s", i, p, st)
		}
		if resp == nil || resp.Err != nil {
			return "C17/reuse/err", fmt.Sprintf("step %d (call %d): Err = %v", step, i, resp)
		}
		if len(rt.reqs) != before+1 {
			return "C17/request-count", fmt.Sprintf("step %d (call %d): %d requests sent, want 1", step, i, len(rt.reqs)-before)
		}
		got := rt.reqs[before]
		if want := fmt.Sprintf("http://reuse.test/up/%d", i); got.URL != want {
			return "C17/url", fmt.Sprintf("step %d (call %d): URL %q, want %q", step, i, got.URL, want)
		}
		b := c.Bodies[i]
		ct := got.Header.Get("Content-Type")
		if b < 0 {
			if len(got.Body) != 0 {
				return "C17/body:unexpected", fmt.Sprintf("step %d: call %d was made with a nil body/form, its request carries the body %.60q", step, i, got.Body)
			}
			if c.Multipart && strings.HasPrefix(ct, "multipart/") {
				return "C17/header:content-type", fmt.Sprintf("step %d: call %d was made with a nil form, its request declares %q (no form was serialized for this call)", step, i, ct)
			}
			continue
		}
		if !c.Multipart {
			want, _ := json.Marshal(&overlapBody{ID: b, Pad: strings.Repeat("y", b%50)})
			if !bytes.Equal(got.Body, want) {
				return "C17/body:json", fmt.Sprintf("step %d: call %d sent %.80q, the serializer's output for its body is %.80q", step, i, got.Body, want)
			}
			continue
		}
		mediaType, params, err := mime.ParseMediaType(ct)
		if err != nil || mediaType != "multipart/form-data" || params["boundary"] == "" {
			return "C17/header:content-type", fmt.Sprintf("step %d: call %d declares Content-Type %q, want multipart/form-data with a boundary", step, i, ct)
		}
		form, err := multipart.NewReader(bytes.NewReader(got.Body), params["boundary"]).ReadForm(1 << 20)
		if err != nil {
			return "C17/body:multipart", fmt.Sprintf("step %d: the body of call %d (%d bytes) does not parse with the boundary its own Content-Type declares: %v", step, i, len(got.Body), err)
		}
		if fmt.Sprint(form.Value["id"]) != fmt.Sprint([]string{fmt.Sprint(b)}) || fmt.Sprint(form.Value["pad"]) != fmt.Sprint([]string{strings.Repeat("x", b%50)}) {
			return "C17/body:multipart", fmt.Sprintf("step %d: call %d was made with the form id=%d; its request carries the fields %v", step, i, b, form.Value)
		}
	}
	return "", ""
}

func TestAPIFunctionReuse(t *testing.T) {
	if vlib.Replaying() {
		t.Skip()
	}
	vlib.Check(t, "api-function-reuse", 400, 6000, func(t *rapid.T) {
		c := reuseCase{Multipart: rapid.Bool().Draw(t, "multipart"), Ctor: rapid.IntRange(0, 2).Draw(t, "ctor")}
		n := rapid.IntRange(2, 4).Draw(t, "calls")
		for i := 0; i < n; i++ {
			c.Bodies = append(c.Bodies, rapid.SampledFrom([]int{-1, 3, 17, 120, 999}).Draw(t, "body"))
		}
		c.Order = rapid.SliceOfN(rapid.IntRange(0, n-1), n, 2*n).Draw(t, "order")
		vlib.S().Eval("api-function-reuse")
		vlib.S().NonTrivial("api-function-reuse", c.String())
		if key, msg := runReuse(c); key != "" {
			if vlib.Fail(t, key, "%v: %s", c, msg) {
				t.Skip("known")
			}
		}
	})
}
