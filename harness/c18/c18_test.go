package c18

import (
	"context"
	"encoding/json"
	"errors"
	"fmt"
	"io"
	"net/http"
	"net/url"
	"os"
	"reflect"
	"runtime/debug"
	"strconv"
	"strings"
	"testing"
	"time"

	network "github.com/TeaEntityLab/fpGo/v2/network"
	"pgregory.net/rapid"

	"verifharness/vlib"
)

func TestMain(m *testing.M) {
	// a SimpleHTTP that wraps itself recurses without passing any stub: die fast
	debug.SetMaxStack(64 << 20)
	vlib.Main(m)
}

// ---------------------------------------------------------------- history (JSON-serialisable)

const (
	oAdd = iota
	oRemove
	oClear
	oSetFresh    // SetHTTPClient(new client over stub Arg)
	oSetCurrent  // SetHTTPClient(GetHTTPClient())
	oSetEarlier  // SetHTTPClient(a client set earlier, index Arg)
	oSetCopy     // SetHTTPClient(copy of the current client struct)
	oRequest     // direct verb
	oAPIRequest  // through a SimpleAPI built on the SimpleHTTP
	oSecondShare // thorough only: a second SimpleHTTP is created on the current client
	oSetRetarget // the caller re-points the bound client at another transport, then SetHTTPClient(that client)
)

type op struct {
	Kind   int    `json:"kind"`
	IDs    []int  `json:"ids,omitempty"`    // Add / Remove
	Arg    int    `json:"arg,omitempty"`    // stub index / earlier-client index
	Verb   string `json:"verb,omitempty"`   // requests
	FailAt int    `json:"failAt,omitempty"` // requests: index of the invocation that fails, -1 none
}

func (o op) String() string {
	switch o.Kind {
	case oAdd:
		return fmt.Sprintf("Add%v", o.IDs)
	case oRemove:
		return fmt.Sprintf("Remove%v", o.IDs)
	case oClear:
		return "Clear"
	case oSetFresh:
		return fmt.Sprintf("SetFresh(%c)", 'A'+o.Arg)
	case oSetCurrent:
		return "SetCurrent"
	case oSetEarlier:
		return fmt.Sprintf("SetEarlier(%d)", o.Arg)
	case oSetCopy:
		return "SetCopy"
	case oSetRetarget:
		return fmt.Sprintf("SetRetarget(%c)", 'A'+o.Arg)
	case oRequest:
		return fmt.Sprintf("%s(fail=%d)", o.Verb, o.FailAt)
	case oAPIRequest:
		return fmt.Sprintf("API-%s(fail=%d)", o.Verb, o.FailAt)
	}
	return "SecondInstanceOnSameClient"
}

type history struct {
	Initial []int `json:"initial"`
	Ops     []op  `json:"ops"`
}

func (h *history) String() string {
	p := make([]string, len(h.Ops))
	for i, o := range h.Ops {
		p[i] = o.String()
	}
	return fmt.Sprintf("New%v;%s", h.Initial, strings.Join(p, ";"))
}

// ---------------------------------------------------------------- stubs

var (
	errTagged  = errors.New("c18: interceptor refused the request")
	errRunaway = errors.New("c18: more than 100 interceptor/transport invocations for one request")
)

const poolSize = 6
const invocationCap = 100

type seen struct {
	Who    string
	Method string
	URL    string
}

// reqState is what the stubs record for the request in flight.
type reqState struct {
	n         int // invocations so far (interceptors of the instance under test + transports)
	failAt    int
	calls     []string
	seen      []seen
	atTransp  http.Header
	runaway   bool
	guardHits int   // invocations of the second instance's guard interceptor
	returned  error // the very error value the failing interceptor returned
}

// refusal is the failing interceptors' own error type (every second failure uses it): what reaches the
// caller is the interceptor's error - its type and fields - not merely the cause it wraps
type refusal struct {
	Interceptor, Position int
	cause                 error
}

func (r *refusal) Error() string {
	return fmt.Sprintf("interceptor %d at position %d refused: %v", r.Interceptor, r.Position, r.cause)
}
func (r *refusal) Unwrap() error { return r.cause }

type quotaError int

func (q quotaError) Error() string { return fmt.Sprintf("c18: quota exceeded (%d left)", int(q)) }

// waitError follows the net.Error convention (Timeout() reports true), as a rate limiter's or a token
// fetch's error would: it is the interceptor's error all the same
type waitError struct{ id int }

func (w *waitError) Error() string {
	return fmt.Sprintf("c18: interceptor %d gave up waiting for its rate limiter", w.id)
}
func (w *waitError) Timeout() bool   { return true }
func (w *waitError) Temporary() bool { return true }

type forbidden struct{}

func (forbidden) Error() string { return "c18: forbidden" }

type codeError struct {
	Code int
	Text string
}

func (c codeError) Error() string { return fmt.Sprintf("c18: code %d %s", c.Code, c.Text) }

type machine struct {
	sh     *network.SimpleHTTPDef
	api    *network.SimpleAPIDef
	pool   [poolSize]*network.Interceptor
	stubs  [2]*stubRT
	second *network.SimpleHTTPDef
	guard  *network.Interceptor
	cur    *reqState
	// lastCtx: the context of the last request a transport answered, as the transport saw it
	lastCtx context.Context

	model      []int
	clients    []*http.Client
	clientStub []int // underlying stub of clients[i]
	wantStub   int   // stub that must see the next request, -1 = any one of them
	nSet       int
	removed    bool
	decoy      *network.Interceptor
	reqNo      int
	anyNT      bool
}

type stubRT struct {
	name string
	m    *machine
}

func (s *stubRT) RoundTrip(req *http.Request) (*http.Response, error) {
	if req.Body != nil {
		io.Copy(io.Discard, req.Body)
		req.Body.Close()
	}
	st := s.m.cur
	st.n++
	if st.n > invocationCap {
		st.runaway = true
		return nil, errRunaway
	}
	st.calls = append(st.calls, "T"+s.name)
	st.seen = append(st.seen, seen{"T" + s.name, req.Method, req.URL.String()})
	if st.atTransp == nil {
		st.atTransp = req.Header.Clone()
	}
	return &http.Response{Status: "200 OK", StatusCode: 200, Proto: "HTTP/1.1", ProtoMajor: 1, ProtoMinor: 1,
		Header: http.Header{}, Body: io.NopCloser(strings.NewReader(`{"ok":true}`)), ContentLength: -1, Request: req}, nil
}

// scribble: the argument slices of the constructor / AddInterceptor / RemoveInterceptor belong to the
// caller, who re-uses them: after the call every slot (spare capacity included) is overwritten with an
// interceptor that was never registered. If it ever runs, the registry aliased the caller's slice.
func (m *machine) scribble(ps []*network.Interceptor) {
	ps = ps[:cap(ps)]
	for i := range ps {
		ps[i] = m.decoy
	}
}

func newMachine(initial []int) *machine {
	m := &machine{wantStub: 0}
	m.stubs = [2]*stubRT{{name: "A", m: m}, {name: "B", m: m}}
	for i := 0; i < poolSize; i++ {
		id := i
		f := network.Interceptor(func(req *http.Request) error {
			st := m.cur
			st.n++
			if st.n > invocationCap {
				st.runaway = true
				return errRunaway
			}
			me := "I" + strconv.Itoa(id)
			st.calls = append(st.calls, me)
			st.seen = append(st.seen, seen{me, req.Method, req.URL.String()})
			if (id+st.n)%3 == 0 {
				// the idiom for changing a request one does not own: give it a header map of its own first
				req.Header = req.Header.Clone()
			}
			req.Header.Add("X-I"+strconv.Itoa(id), strconv.Itoa(st.n))
			if st.n-1 == st.failAt {
				switch (id + st.n) % 4 {
				case 0:
					st.returned = &refusal{Interceptor: id, Position: st.n - 1, cause: errTagged}
				case 2:
					// errors that are plain values, among them values that are the zero value of their type
					st.returned = []error{quotaError(0), forbidden{}, quotaError(7), codeError{}, &waitError{id}, os.ErrDeadlineExceeded}[(id+st.n/4)%6]
				default:
					st.returned = fmt.Errorf("interceptor %d at position %d: %w", id, st.n-1, errTagged)
				}
				return st.returned
			}
			return nil
		})
		m.pool[i] = &f
	}
	g := network.Interceptor(func(req *http.Request) error {
		m.cur.guardHits++
		if m.cur.guardHits > invocationCap {
			m.cur.runaway = true
			return errRunaway
		}
		return nil
	})
	m.guard = &g
	d := network.Interceptor(func(req *http.Request) error {
		st := m.cur
		st.n++
		if st.n > invocationCap {
			st.runaway = true
			return errRunaway
		}
		st.calls = append(st.calls, "I!decoy")
		req.Header.Add("X-I!decoy", "1")
		return nil
	})
	m.decoy = &d
	c := &http.Client{Transport: m.stubs[0]}
	init := make([]*network.Interceptor, 0, len(initial)+2)
	for _, id := range initial {
		init = append(init, m.pool[id])
		m.model = append(m.model, id)
	}
	m.sh = network.NewSimpleHTTPWithClientAndInterceptors(c, init...)
	m.scribble(init)
	m.api = network.NewSimpleAPIWithSimpleHTTP("http://c18.test", m.sh)
	// a non-nil DefaultHeader: interceptors' header changes must stay confined to the request they ran on
	m.api.DefaultHeader = http.Header{"X-Default": {"d"}}
	m.clients = append(m.clients, c)
	m.clientStub = append(m.clientStub, 0)
	return m
}

type result struct{ key, msg string }

func (r *result) fail(key, f string, a ...any) {
	if r.key == "" {
		r.key, r.msg = key, fmt.Sprintf(f, a...)
	}
}

func firstFrames(stack string) string {
	var keep []string
	for _, l := range strings.Split(stack, "\n") {
		if strings.Contains(l, "fpGo") {
			keep = append(keep, strings.TrimSpace(l))
		}
		if len(keep) >= 6 {
			break
		}
	}
	return strings.Join(keep, "\n")
}

type apiResp = map[string]interface{}

// apply executes one operation on the real object and on the model and checks
// the request oracle. It returns whether the request was non-trivial.
func (m *machine) apply(o op) (res result) {
	suffix := ""
	if m.second != nil {
		suffix = ":two-instances-shared-client"
	}
	var panicked any
	var stack string
	switch o.Kind {
	case oAdd:
		ps := make([]*network.Interceptor, 0, len(o.IDs)+len(o.IDs)%3)
		for _, id := range o.IDs {
			ps = append(ps, m.pool[id])
			m.model = append(m.model, id)
		}
		panicked, stack = vlib.Try(func() { m.sh.AddInterceptor(ps...) })
		m.scribble(ps)
	case oRemove:
		var ps []*network.Interceptor
		for _, id := range o.IDs {
			ps = append(ps, m.pool[id])
			var kept []int
			for _, x := range m.model {
				if x != id {
					kept = append(kept, x)
				}
			}
			m.model = kept
		}
		m.removed = true
		panicked, stack = vlib.Try(func() { m.sh.RemoveInterceptor(ps...) })
		m.scribble(ps)
	case oClear:
		m.model = nil
		m.removed = true
		panicked, stack = vlib.Try(func() { m.sh.ClearInterceptor() })
	case oSetFresh:
		c := &http.Client{Transport: m.stubs[o.Arg]}
		m.clients = append(m.clients, c)
		m.clientStub = append(m.clientStub, o.Arg)
		m.wantStub = o.Arg
		m.nSet++
		panicked, stack = vlib.Try(func() { m.sh.SetHTTPClient(c) })
	case oSetCurrent:
		m.nSet++
		panicked, stack = vlib.Try(func() { m.sh.SetHTTPClient(m.sh.GetHTTPClient()) })
	case oSetEarlier:
		k := o.Arg % len(m.clients)
		// The client was created over clientStub[k]; whether requests now reach that
		// transport or the one wrapped last is not stated: any single one is accepted.
		if m.clientStub[k] != m.wantStub {
			m.wantStub = -1
		}
		m.nSet++
		panicked, stack = vlib.Try(func() { m.sh.SetHTTPClient(m.clients[k]) })
	case oSetRetarget:
		m.nSet++
		m.wantStub = o.Arg
		panicked, stack = vlib.Try(func() {
			c := m.sh.GetHTTPClient()
			c.Transport = m.stubs[o.Arg]
			for i, known := range m.clients {
				if known == c {
					m.clientStub[i] = o.Arg // that client now sits on the other base transport
				}
			}
			m.sh.SetHTTPClient(c)
		})
	case oSetCopy:
		m.nSet++
		panicked, stack = vlib.Try(func() {
			c := *m.sh.GetHTTPClient()
			m.sh.SetHTTPClient(&c)
		})
	case oSecondShare:
		if m.second == nil {
			panicked, stack = vlib.Try(func() {
				m.second = network.NewSimpleHTTPWithClientAndInterceptors(m.sh.GetHTTPClient(), m.guard)
			})
		}
	case oRequest, oAPIRequest:
		return m.request(o, suffix)
	}
	if panicked != nil {
		res.fail("C18/panic:"+o.String()[:strings.IndexAny(o.String()+"(", "([")]+suffix, "%v panicked: %v\n%s", o, panicked, firstFrames(stack))
	}
	return
}

func (m *machine) request(o op, suffix string) (res result) {
	m.reqNo++
	st := &reqState{failAt: o.FailAt}
	m.cur = st
	rawURL := fmt.Sprintf("http://c18.test/r/%d", m.reqNo)
	var err error
	p, stack := vlib.Try(func() {
		if o.Kind == oRequest {
			var r *network.ResponseWithError
			// a third of the direct requests go through the lower-level entry points
			switch {
			case m.reqNo%3 == 1:
				req, _ := http.NewRequest(o.Verb, rawURL, nil)
				r = m.sh.DoRequest(req)
			case m.reqNo%3 == 2 && (o.Verb == http.MethodPost || o.Verb == http.MethodPut || o.Verb == http.MethodPatch):
				ctx, cancel := m.sh.GetContextTimeout()
				if o.FailAt >= 0 && o.FailAt < len(m.model) && m.reqNo%2 == 0 {
					cancel()
				}
				r = m.sh.DoNewRequestWithBodyOptions(ctx, http.Header{"X-Own": {"1"}}, o.Verb, rawURL, strings.NewReader(`{"a":3}`), "application/json")
				cancel()
			case m.reqNo%3 == 2:
				ctx, cancel := m.sh.GetContextTimeout()
				if m.lastCtx != nil && m.reqNo%4 >= 2 {
					// a follow-up request made in the context of an earlier, completed one (its values - trace ids and
					// the like - travel along, its cancellation does not): a request like any other
					cancel()
					ctx, cancel = context.WithTimeout(context.WithoutCancel(m.lastCtx), 5*time.Second)
				}
				if o.FailAt >= 0 && o.FailAt < len(m.model) && m.reqNo%2 == 0 {
					// the caller's context is already done when an interceptor refuses the request: the caller
					// still learns the interceptor's error
					cancel()
				}
				r = m.sh.DoNewRequest(ctx, http.Header{"X-Own": {"1"}}, o.Verb, rawURL)
				cancel()
			}
			if r == nil {
				switch o.Verb {
				case http.MethodGet:
					r = m.sh.Get(rawURL)
				case http.MethodHead:
					r = m.sh.Head(rawURL)
				case http.MethodOptions:
					r = m.sh.Options(rawURL)
				case http.MethodDelete:
					r = m.sh.Delete(rawURL)
				case http.MethodPost:
					r = m.sh.Post(rawURL, "application/json", strings.NewReader(`{"a":1}`))
				case http.MethodPut:
					r = m.sh.Put(rawURL, "application/json", strings.NewReader(`{"a":2}`))
				case http.MethodPatch:
					r = m.sh.Patch(rawURL, "text/plain", strings.NewReader(`x`))
				}
			}
			if r == nil {
				err = errors.New("nil *ResponseWithError")
			} else {
				err = r.Err
				if r.Response != nil && r.Response.Body != nil {
					r.Response.Body.Close()
				}
				if r.Response != nil && r.Response.Request != nil {
					m.lastCtx = r.Response.Request.Context()
				}
			}
			return
		}
		pp := network.PathParam{"n": m.reqNo}
		var r *network.APIResponse[apiResp]
		tgt := &apiResp{}
		switch o.Verb {
		case http.MethodGet:
			r = network.APIMakeGet[apiResp](m.api, "r/{n}")(pp, tgt).Eval()
		case http.MethodDelete:
			r = network.APIMakeDelete[apiResp](m.api, "r/{n}")(pp, tgt).Eval()
		case http.MethodPost:
			r = network.APIMakePostJSONBody[apiResp, apiResp](m.api, "r/{n}")(pp, apiResp{"a": 1}, tgt).Eval()
		case http.MethodPut:
			r = network.APIMakePutJSONBody[apiResp, apiResp](m.api, "r/{n}")(pp, apiResp{"a": 2}, tgt).Eval()
		case http.MethodPatch:
			r = network.APIMakePatchMultipartBody[apiResp](m.api, "r/{n}")(pp, &network.MultipartForm{Value: map[string][]string{"k": {"v"}}}, tgt).Eval()
		default:
			r = network.APIMakeDoNewRequest[apiResp](m.api, o.Verb, "r/{n}")(pp, tgt).Eval()
		}
		if r == nil {
			err = errors.New("nil *APIResponse")
		} else {
			err = r.Err
		}
	})
	if p != nil {
		res.fail("C18/panic:request"+suffix, "%v panicked: %v\n%s", o, p, firstFrames(stack))
		return
	}
	key := func(k string) string { return "C18/" + k + suffix }
	if st.runaway {
		res.fail(key("recursion"), "%v: more than %d interceptor/transport invocations for one request (calls so far %v…)", o, invocationCap, st.calls[:min(len(st.calls), 12)])
		return
	}
	// expected call log
	var want []string
	fails := false
	for i, id := range m.model {
		want = append(want, "I"+strconv.Itoa(id))
		if i == o.FailAt {
			fails = true
			break
		}
	}
	var gotI, gotT []string
	lastI := -1
	firstT := -1
	for i, c := range st.calls {
		if c[0] == 'I' {
			gotI = append(gotI, c)
			lastI = i
		} else {
			gotT = append(gotT, c)
			if firstT < 0 {
				firstT = i
			}
		}
	}
	if !reflect.DeepEqual(gotI, want) && !(len(gotI) == 0 && len(want) == 0) {
		res.fail(key(interceptorKey(gotI, want, fails)), "%v with registered %v: interceptors ran %v, want %v", o, m.model, gotI, want)
		return
	}
	if fails {
		if len(gotT) != 0 {
			res.fail(key("transport-after-error"), "%v: interceptor at position %d failed but the transport was still called (%v)", o, o.FailAt, st.calls)
			return
		}
		if err == nil || (errors.Is(st.returned, errTagged) && !errors.Is(err, errTagged)) {
			res.fail(key("error-not-surfaced"), "%v: interceptor at position %d failed (%v) but the caller got Err=%v", o, o.FailAt, st.returned, err)
			return
		}
		var asRefusal *refusal
		if wantRefusal, _ := st.returned.(*refusal); !errors.Is(err, st.returned) || (wantRefusal != nil && (!errors.As(err, &asRefusal) || asRefusal != wantRefusal)) {
			res.fail(key("error-not-surfaced"), "%v: the interceptor at position %d returned the error %#v (%v); the caller's Err=%#v does not contain it (errors.Is/As): only something it wraps came back", o, o.FailAt, st.returned, st.returned, err)
			return
		}
	} else {
		if len(gotT) != 1 {
			res.fail(key("transport-count"), "%v: transport called %d times (%v), want exactly once", o, len(gotT), st.calls)
			return
		}
		if firstT < lastI {
			res.fail(key("transport-before-interceptor"), "%v: call order %v", o, st.calls)
			return
		}
		if m.wantStub >= 0 && gotT[0] != "T"+m.stubs[m.wantStub].name {
			res.fail(key("wrong-transport"), "%v: request reached %s, the client set last wraps transport %s", o, gotT[0], m.stubs[m.wantStub].name)
			return
		}
		if err != nil {
			res.fail(key("spurious-error"), "%v: all interceptors and the transport succeeded but Err=%v", o, err)
			return
		}
		// header changes reach the transport
		wantH := map[string][]string{}
		for i, id := range m.model {
			k := "X-I" + strconv.Itoa(id)
			wantH[k] = append(wantH[k], strconv.Itoa(i+1))
		}
		for k, vs := range wantH {
			if !reflect.DeepEqual(st.atTransp.Values(k), vs) {
				res.fail(key("header-lost"), "%v: transport saw %s=%v, interceptors set %v", o, k, st.atTransp.Values(k), vs)
				return
			}
		}
		// ... and only the changes of the interceptors that ran on THIS request
		for k, vs := range st.atTransp {
			if strings.HasPrefix(k, "X-I") && wantH[k] == nil {
				res.fail(key("header-of-unregistered-interceptor"), "%v: transport saw %s=%v although that interceptor is not registered (header changes of an earlier request leaked)", o, k, vs)
				return
			}
		}
	}
	// everybody saw the outgoing request
	u, _ := url.Parse(rawURL)
	for _, s := range st.seen {
		if s.Method != o.Verb || s.URL != u.String() {
			res.fail(key("wrong-request"), "%v: %s saw %s %s, the outgoing request is %s %s", o, s.Who, s.Method, s.URL, o.Verb, u)
			return
		}
	}
	if len(m.model) >= 2 && (m.removed || (o.FailAt >= 0 && o.FailAt < len(m.model)-1) || m.nSet >= 2) {
		m.anyNT = true
	}
	return
}

func interceptorKey(got, want []string, fails bool) string {
	switch {
	case fails && len(got) > len(want):
		return "chain-continues-after-error"
	case len(got) > len(want):
		return "interceptor-extra-or-repeated"
	case len(got) < len(want):
		return "interceptor-skipped"
	}
	g, w := append([]string(nil), got...), append([]string(nil), want...)
	sortStrings(g)
	sortStrings(w)
	if reflect.DeepEqual(g, w) {
		return "interceptor-order"
	}
	return "interceptor-set"
}

func sortStrings(s []string) {
	for i := 1; i < len(s); i++ {
		for j := i; j > 0 && s[j] < s[j-1]; j-- {
			s[j], s[j-1] = s[j-1], s[j]
		}
	}
}

// runHistory replays a recorded history from scratch.
func runHistory(h *history) (result, *machine) {
	m := newMachine(h.Initial)
	for _, o := range h.Ops {
		if r := m.apply(o); r.key != "" {
			return r, m
		}
	}
	return result{}, m
}

// ---------------------------------------------------------------- rapid state machine

var verbs = []string{http.MethodGet, http.MethodHead, http.MethodOptions, http.MethodDelete, http.MethodPost, http.MethodPut, http.MethodPatch}

func genIDs(t *rapid.T, label string, lo, hi int) []int {
	return rapid.SliceOfN(rapid.IntRange(0, poolSize-1), lo, hi).Draw(t, label)
}

func genFailAt(t *rapid.T, registered int) int {
	if registered == 0 || rapid.IntRange(0, 2).Draw(t, "noFail") == 0 {
		return -1
	}
	return rapid.IntRange(0, registered-1).Draw(t, "failAt")
}

func propMachine(allowSecond bool) func(t *rapid.T) {
	return func(t *rapid.T) {
		h := &history{Initial: genIDs(t, "initial", 0, 2)}
		if h.Initial == nil {
			h.Initial = []int{}
		}
		m := newMachine(h.Initial)
		s := vlib.S()
		do := func(t *rapid.T, o op) {
			h.Ops = append(h.Ops, o)
			s.Class("op/" + o.String()[:strings.IndexAny(o.String()+"(", "([")])
			if o.Kind == oRequest || o.Kind == oAPIRequest {
				s.Class(fmt.Sprintf("request/registered=%d", min(len(m.model), 7)))
				if o.FailAt >= 0 {
					s.Class("request/failing")
				}
			}
			if r := m.apply(o); r.key != "" {
				b, _ := json.Marshal(h)
				if vlib.Fail(t, r.key, "%s\nhistory: %s\njson: %s", r.msg, h, b) {
					t.Skip("known finding")
				}
			}
		}
		actions := map[string]func(*rapid.T){
			"Add":    func(t *rapid.T) { do(t, op{Kind: oAdd, IDs: genIDs(t, "add", 1, 3)}) },
			"Remove": func(t *rapid.T) { do(t, op{Kind: oRemove, IDs: genIDs(t, "remove", 0, 3)}) },
			"Clear": func(t *rapid.T) {
				if rapid.IntRange(0, 2).Draw(t, "reallyClear") == 0 {
					do(t, op{Kind: oClear})
				} else {
					do(t, op{Kind: oAdd, IDs: genIDs(t, "add", 1, 2)})
				}
			},
			"SetClient": func(t *rapid.T) {
				o := op{Kind: rapid.SampledFrom([]int{oSetFresh, oSetFresh, oSetCurrent, oSetEarlier, oSetCopy, oSetRetarget}).Draw(t, "how")}
				if o.Kind == oSetFresh || o.Kind == oSetRetarget {
					o.Arg = rapid.IntRange(0, 1).Draw(t, "stub")
				}
				if o.Kind == oSetEarlier {
					o.Arg = rapid.IntRange(0, len(m.clients)-1).Draw(t, "which")
				}
				do(t, o)
			},
		}
		direct := func(t *rapid.T) {
			do(t, op{Kind: oRequest, Verb: rapid.SampledFrom(verbs).Draw(t, "verb"), FailAt: genFailAt(t, len(m.model))})
		}
		viaAPI := func(t *rapid.T) {
			do(t, op{Kind: oAPIRequest, Verb: rapid.SampledFrom(verbs).Draw(t, "verb"), FailAt: genFailAt(t, len(m.model))})
		}
		// rapid picks action keys uniformly: requests get 5 of 9 keys
		for _, k := range []string{"Request1", "Request2", "Request3"} {
			actions[k] = direct
		}
		for _, k := range []string{"APIRequest1", "APIRequest2"} {
			actions[k] = viaAPI
		}
		if allowSecond {
			actions["SecondInstance"] = func(t *rapid.T) {
				if m.second != nil {
					t.Skip("already there")
				}
				do(t, op{Kind: oSecondShare})
			}
		}
		t.Repeat(actions)
		part := "histories"
		if allowSecond {
			part = "histories-two-instances"
		}
		s.Eval(part)
		if m.anyNT {
			s.NonTrivial(part, h.String())
			s.Class(part + "/nontrivial")
		} else {
			s.Class(part + "/trivial")
		}
		s.ClassN("requests", int64(m.reqNo))
	}
}

// ---------------------------------------------------------------- regression / directed table (runs first)

func req(verb string, failAt int) op    { return op{Kind: oRequest, Verb: verb, FailAt: failAt} }
func apiReq(verb string, failAt int) op { return op{Kind: oAPIRequest, Verb: verb, FailAt: failAt} }

// The table pins the shrunk two-instance defect and the histories that the
// mutants under /verif/mutants/c18-*.patch break.
var directed = []history{
	// found by TestTwoInstances on the pinned tree: a second SimpleHTTP wraps the same client, then
	// SetHTTPClient(same client) on the first made the two instances wrap each other: endless recursion
	{Initial: []int{}, Ops: []op{{Kind: oSecondShare}, {Kind: oSetCurrent}, req("GET", -1)}},
	{Initial: []int{0, 1}, Ops: []op{req("GET", -1), {Kind: oSecondShare}, req("POST", 1), {Kind: oSetCurrent}, {Kind: oSetCopy}, apiReq("PUT", -1), {Kind: oSetEarlier, Arg: 0}, req("GET", 0), {Kind: oSetFresh, Arg: 1}, req("GET", -1), {Kind: oSetEarlier, Arg: 0}, req("DELETE", -1)}},
	{Initial: []int{}, Ops: []op{req("GET", -1), apiReq("GET", -1)}},
	{Initial: []int{0, 1}, Ops: []op{req("GET", -1), req("POST", 0), apiReq("PUT", 1), apiReq("PATCH", 0)}},
	{Initial: []int{2}, Ops: []op{{Kind: oAdd, IDs: []int{0, 1, 0}}, req("HEAD", -1), req("DELETE", 2), {Kind: oRemove, IDs: []int{0, 5}}, req("OPTIONS", -1), apiReq("DELETE", 1), {Kind: oClear}, req("PATCH", -1)}},
	{Initial: []int{3, 4}, Ops: []op{{Kind: oSetCurrent}, req("GET", -1), {Kind: oSetFresh, Arg: 1}, req("GET", 0), req("PUT", -1), {Kind: oSetCopy}, apiReq("POST", -1), {Kind: oSetFresh, Arg: 0}, {Kind: oSetCurrent}, {Kind: oSetCurrent}, req("GET", -1), {Kind: oSetEarlier, Arg: 1}, req("GET", -1), apiReq("HEAD", 1)}},
	{Initial: []int{1, 2, 3}, Ops: []op{{Kind: oRemove, IDs: []int{2, 1}}, req("GET", -1), {Kind: oAdd, IDs: []int{5}}, {Kind: oAdd, IDs: []int{4, 4}}, req("POST", 3), {Kind: oRemove, IDs: []int{4}}, apiReq("OPTIONS", -1)}},
}

func TestRegress(t *testing.T) {
	if vlib.Replaying() {
		t.Skip()
	}
	for i := range directed {
		h := &directed[i]
		vlib.S().Eval("regress")
		r, m := runHistory(h)
		if m.anyNT {
			vlib.S().NonTrivial("regress", h.String())
		}
		if r.key != "" {
			vlib.WriteReplay("C18/history", h)
			if vlib.Fail(t, r.key, "directed history %d: %s\nhistory: %s", i, r.msg, h) {
				continue
			}
		}
	}
}

func TestReplayJSON(t *testing.T) {
	raw := vlib.ReplayCase("C18/history")
	if raw == nil {
		t.Skip("no replay case")
	}
	var h history
	if err := json.Unmarshal(raw, &h); err != nil {
		t.Fatalf("bad replay: %v", err)
	}
	if r, _ := runHistory(&h); r.key != "" {
		t.Fatalf("[key=%s] replay: %s\nhistory: %s", r.key, r.msg, &h)
	}
}

// ---------------------------------------------------------------- rapid entry points

func TestHistories(t *testing.T) {
	if vlib.Replaying() && vlib.ReplayCase("C18/history") != nil {
		t.Skip()
	}
	vlib.Check(t, "histories", 6000, 150000, propMachine(false))
}

// Two SimpleHTTP instances wrapped around one client (DESIGN C18 B): thorough only.
func TestTwoInstances(t *testing.T) {
	if !vlib.Thorough() || vlib.Replaying() {
		t.Skip("thorough tier only")
	}
	vlib.Check(t, "histories-two-instances", 0, 5000, propMachine(true))
}
