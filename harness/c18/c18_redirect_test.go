package c18

import (
	"encoding/json"
	"errors"
	"fmt"
	"io"
	"net/http"
	"strconv"
	"strings"
	"testing"

	"github.com/TeaEntityLab/fpGo/v2/network"
	"pgregory.net/rapid"

	"verifharness/vlib"
)

// Part "redirects": one call of the caller can put several requests on the wire - the server answers
// 301/302/303/307/308 and http.Client follows. Every one of those outgoing requests is a request made
// through the SimpleHTTP: before the transport sees it, all registered interceptors have run on it,
// once each, in order, and the transport sees their header changes on that very request. An
// interceptor error on any hop stops the chain, the transport and the call.

type redirectCase struct {
	IDs    []int  `json:"ids"`    // registered interceptors (duplicates allowed)
	Codes  []int  `json:"codes"`  // status of the first len(Codes) answers, then 200
	Verb   string `json:"verb"`   // GET HEAD POST
	API    bool   `json:"api"`    // through SimpleAPI (GET only)
	FailAt [2]int `json:"failAt"` // hop, position of a failing interceptor; hop < 0 = nobody fails
}

func (c redirectCase) String() string { b, _ := json.Marshal(c); return string(b) }

type redirectRT struct {
	codes []int
	log   *[]string
	hdrs  *[]http.Header
}

func (r redirectRT) RoundTrip(req *http.Request) (*http.Response, error) {
	if req.Body != nil {
		io.Copy(io.Discard, req.Body)
		req.Body.Close()
	}
	n := len(*r.hdrs)
	*r.log = append(*r.log, "T")
	*r.hdrs = append(*r.hdrs, req.Header.Clone())
	if len(*r.log) > 400 {
		return nil, errors.New("runaway")
	}
	resp := &http.Response{Status: "200 OK", StatusCode: 200, Proto: "HTTP/1.1", ProtoMajor: 1, ProtoMinor: 1,
		Header: http.Header{}, Body: io.NopCloser(strings.NewReader(`{"ok":true}`)), ContentLength: -1, Request: req}
	if n < len(r.codes) {
		resp.StatusCode = r.codes[n]
		resp.Status = strconv.Itoa(r.codes[n]) + " Redirect"
		resp.Header.Set("Location", fmt.Sprintf("http://c18.redirect/hop/%d", n+1))
		resp.Body = io.NopCloser(strings.NewReader(""))
	}
	return resp, nil
}

var errHop = errors.New("interceptor refuses this hop")

func runRedirect(c redirectCase) (key, msg string, nontrivial bool) {
	var log []string
	var hdrs []http.Header
	hop := func() int { return len(hdrs) }
	sh := network.NewSimpleHTTPWithClientAndInterceptors(&http.Client{Transport: redirectRT{codes: c.Codes, log: &log, hdrs: &hdrs}})
	for _, id := range c.IDs {
		id := id
		f := network.Interceptor(func(req *http.Request) error {
			if len(log) > 400 {
				return errors.New("runaway")
			}
			// position within this hop's chain run = interceptor entries since the last transport entry
			p := 0
			for i := len(log) - 1; i >= 0 && log[i] != "T"; i-- {
				p++
			}
			log = append(log, "I"+strconv.Itoa(id))
			req.Header.Add("X-I"+strconv.Itoa(id), fmt.Sprintf("h%d", hop()))
			if c.FailAt[0] == hop() && c.FailAt[1] == p {
				return fmt.Errorf("hop %d position %d: %w", hop(), p, errHop)
			}
			return nil
		})
		sh.AddInterceptor(&f)
	}
	var err error
	p, st := vlib.Try(func() {
		const u = "http://c18.redirect/start"
		switch {
		case c.API:
			api := network.NewSimpleAPIWithSimpleHTTP("http://c18.redirect", sh)
			tgt := &apiResp{}
			err = network.APIMakeGet[apiResp](api, "start")(nil, tgt).Eval().Err
		case c.Verb == http.MethodHead:
			err = sh.Head(u).Err
		case c.Verb == http.MethodPost:
			err = sh.Post(u, "application/json", strings.NewReader(`{"a":1}`)).Err
		default:
			err = sh.Get(u).Err
		}
	})
	if p != nil {
		return "C18/redirect/panic", fmt.Sprintf("%v\n%s", p, firstFrames(st)), false
	}
	// expected log
	var want []string
	failed := false
	hops := len(c.Codes) + 1
	for h := 0; h < hops && !failed; h++ {
		for p, id := range c.IDs {
			want = append(want, "I"+strconv.Itoa(id))
			if c.FailAt[0] == h && c.FailAt[1] == p {
				failed = true
				break
			}
		}
		if !failed {
			want = append(want, "T")
		}
	}
	if strings.Join(log, " ") != strings.Join(want, " ") {
		return "C18/redirect/chain", fmt.Sprintf("call log %v, want %v (every outgoing request - the redirected ones too - passes the whole chain once, in order, before the transport sees it)", log, want), false
	}
	if failed {
		if !errors.Is(err, errHop) {
			return "C18/redirect/error-not-surfaced", fmt.Sprintf("interceptor failed on hop %d but the caller got Err=%v", c.FailAt[0], err), false
		}
	} else if err != nil {
		return "C18/redirect/spurious-error", fmt.Sprintf("nobody failed but Err=%v", err), false
	}
	for h, hd := range hdrs {
		cnt := map[int]int{}
		for _, id := range c.IDs {
			cnt[id]++
		}
		for id, n := range cnt {
			got := 0
			for _, v := range hd.Values("X-I" + strconv.Itoa(id)) {
				if v == fmt.Sprintf("h%d", h) {
					got++
				}
			}
			if got != n {
				return "C18/redirect/header-lost", fmt.Sprintf("hop %d: the transport saw X-I%d=%v, the interceptor set it %d time(s) on this hop's request", h, id, hd.Values("X-I"+strconv.Itoa(id)), n), false
			}
		}
	}
	return "", "", len(c.Codes) >= 1 && len(c.IDs) >= 1
}

var redirectDirected = []redirectCase{
	{IDs: []int{0, 1}, Codes: []int{302}, Verb: "GET", FailAt: [2]int{-1, 0}},
	{IDs: []int{2}, Codes: []int{307, 301}, Verb: "POST", FailAt: [2]int{1, 0}},
	{IDs: []int{1, 1, 0}, Codes: []int{303}, Verb: "GET", API: true, FailAt: [2]int{-1, 0}},
}

func TestRedirectRegress(t *testing.T) {
	if vlib.Replaying() {
		t.Skip()
	}
	for _, c := range redirectDirected {
		vlib.S().Eval("redirects")
		key, msg, nt := runRedirect(c)
		if nt {
			vlib.S().NonTrivial("redirects", c.String())
		}
		if key != "" {
			vlib.WriteReplay("C18/redirect", c)
			vlib.Fail(t, key, "%v: %s", c, msg)
		}
	}
}

func TestRedirectReplay(t *testing.T) {
	raw := vlib.ReplayCase("C18/redirect")
	if raw == nil {
		t.Skip("no replay case")
	}
	var c redirectCase
	if err := json.Unmarshal(raw, &c); err != nil {
		t.Fatal(err)
	}
	if key, msg, _ := runRedirect(c); key != "" {
		t.Fatalf("[key=%s] %s", key, msg)
	}
}

func TestRedirects(t *testing.T) {
	if vlib.Replaying() {
		t.Skip()
	}
	vlib.Check(t, "redirects", 1500, 30000, func(t *rapid.T) {
		c := redirectCase{
			IDs:   rapid.SliceOfN(rapid.IntRange(0, 3), 0, 4).Draw(t, "ids"),
			Codes: rapid.SliceOfN(rapid.SampledFrom([]int{301, 302, 303, 307, 308}), 0, 3).Draw(t, "codes"),
			Verb:  rapid.SampledFrom([]string{"GET", "HEAD", "POST"}).Draw(t, "verb"),
			API:   rapid.IntRange(0, 3).Draw(t, "api") == 0,
		}
		c.FailAt = [2]int{-1, 0}
		if len(c.IDs) > 0 && rapid.IntRange(0, 3).Draw(t, "fails") == 0 {
			c.FailAt = [2]int{rapid.IntRange(0, len(c.Codes)).Draw(t, "failHop"), rapid.IntRange(0, len(c.IDs)-1).Draw(t, "failPos")}
		}
		vlib.S().Eval("redirects")
		key, msg, nt := runRedirect(c)
		if nt {
			vlib.S().NonTrivial("redirects", c.String())
		}
		if key != "" {
			vlib.WriteReplay("C18/redirect", c)
			if vlib.Fail(t, key, "%v: %s", c, msg) {
				t.Skip("known")
			}
		}
	})
}
