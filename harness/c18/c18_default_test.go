package c18

import (
	"encoding/json"
	"fmt"
	"net/http"
	"strings"
	"testing"

	"github.com/TeaEntityLab/fpGo/v2/network"
	"pgregory.net/rapid"

	"verifharness/vlib"
)

// Part "default-constructors": several instances made by NewSimpleHTTP() / NewSimpleAPI(...) live in
// one process. Each instance has its own interceptor chain: a request through one instance runs that
// instance's interceptors only, once each, in order. (http.DefaultTransport is replaced by a stub for
// the duration so that no socket is opened; a constructor that binds instances to a shared client
// would make their chains stack.)

type defaultCase struct {
	Insts []int   `json:"insts"` // per instance: 0 = NewSimpleHTTP(), 1 = NewSimpleAPI(base).GetSimpleHTTP()
	Adds  [][]int `json:"adds"`  // per instance: interceptor ids to register
	Reqs  []int   `json:"reqs"`  // instance index per request
}

func runDefault(c defaultCase) (key, msg string) {
	var log []string
	oldT := http.DefaultTransport
	oldC := http.DefaultClient.Transport
	http.DefaultTransport = logRT{&log}
	defer func() { http.DefaultTransport = oldT; http.DefaultClient.Transport = oldC }()
	mk := func(inst, id int) *network.Interceptor {
		f := network.Interceptor(func(*http.Request) error {
			log = append(log, fmt.Sprintf("I%d.%d", inst, id))
			if len(log) > 300 {
				return fmt.Errorf("runaway")
			}
			return nil
		})
		return &f
	}
	p, st := vlib.Try(func() {
		insts := make([]*network.SimpleHTTPDef, len(c.Insts))
		for i, k := range c.Insts {
			if k == 0 {
				insts[i] = network.NewSimpleHTTP()
			} else {
				insts[i] = network.NewSimpleAPI("http://c18.default").GetSimpleHTTP()
			}
			for _, id := range c.Adds[i] {
				insts[i].AddInterceptor(mk(i, id))
			}
		}
		for step, r := range c.Reqs {
			log = nil
			resp := insts[r].Get("http://c18.default/x")
			var want []string
			for _, id := range c.Adds[r] {
				want = append(want, fmt.Sprintf("I%d.%d", r, id))
			}
			want = append(want, "T")
			if resp.Err != nil {
				key, msg = "C18/default-constructors", fmt.Sprintf("request %d on instance %d failed: %v (ran %v)", step, r, resp.Err, log)
				return
			}
			if strings.Join(log, ",") != strings.Join(want, ",") {
				key, msg = "C18/default-constructors", fmt.Sprintf("request %d on instance %d ran %v, its own chain is %v (instances created by the default constructors must not share a client/chain)", step, r, log, want)
				return
			}
		}
	})
	if p != nil && key == "" {
		key, msg = "C18/default-constructors-panic", fmt.Sprintf("%v\n%s", p, firstFrames(st))
	}
	return
}

func TestDefaultConstructors(t *testing.T) {
	if vlib.Replaying() {
		t.Skip()
	}
	vlib.Check(t, "default-constructors", 400, 4000, func(t *rapid.T) {
		n := rapid.IntRange(1, 3).Draw(t, "insts")
		c := defaultCase{}
		for i := 0; i < n; i++ {
			c.Insts = append(c.Insts, rapid.IntRange(0, 1).Draw(t, "ctor"))
			c.Adds = append(c.Adds, rapid.SliceOfN(rapid.IntRange(0, 3), 0, 3).Draw(t, "adds"))
		}
		c.Reqs = rapid.SliceOfN(rapid.IntRange(0, n-1), 1, 4).Draw(t, "reqs")
		vlib.S().Eval("default-constructors")
		if n >= 2 {
			vlib.S().NonTrivial("default-constructors", fmt.Sprintf("%+v", c))
		}
		if key, msg := runDefault(c); key != "" {
			vlib.WriteReplay("C18/default", c)
			if vlib.Fail(t, key, "%+v: %s", c, msg) {
				t.Skip("known")
			}
		}
	})
}

// Part "multi-instance": several SimpleHTTP instances, some built on one shared *http.Client, are
// re-pointed at clients (fresh ones, the shared one, each other's) in a drawn order. Whatever the
// SetHTTPClient history: a request made through instance i runs instance i's own registered
// interceptors exactly once each, in order, and ends in exactly one call of a real transport.
// (Interceptors of other instances that sit in the same client's transport chain may run as well;
// that is not asserted either way.)

type multiOp struct {
	Kind int   `json:"kind"` // 0 add, 1 remove, 2 SetHTTPClient(fresh), 3 SetHTTPClient(shared), 4 SetHTTPClient(client of instance Arg), 5 request
	Inst int   `json:"inst"`
	Arg  int   `json:"arg"`
	IDs  []int `json:"ids"`
}

type multiCase struct {
	Insts  int       `json:"insts"`
	Shared []bool    `json:"shared"` // instance i is constructed on the shared client
	Ops    []multiOp `json:"ops"`
}

func runMulti(c multiCase) (key, msg string, nontrivial bool) {
	var log []string
	shared := &http.Client{Transport: logRT{&log}}
	mk := func(inst, id int) *network.Interceptor {
		f := network.Interceptor(func(*http.Request) error {
			log = append(log, fmt.Sprintf("I%d.%d", inst, id))
			if len(log) > 400 {
				return fmt.Errorf("runaway")
			}
			return nil
		})
		return &f
	}
	icpt := map[[2]int]*network.Interceptor{}
	get := func(inst, id int) *network.Interceptor {
		k := [2]int{inst, id}
		if icpt[k] == nil {
			icpt[k] = mk(inst, id)
		}
		return icpt[k]
	}
	insts := make([]*network.SimpleHTTPDef, c.Insts)
	models := make([][]int, c.Insts)
	moved := false
	p, st := vlib.Try(func() {
		for i := range insts {
			if c.Shared[i] {
				insts[i] = network.NewSimpleHTTPWithClientAndInterceptors(shared)
			} else {
				insts[i] = network.NewSimpleHTTPWithClientAndInterceptors(&http.Client{Transport: logRT{&log}})
			}
		}
		for step, o := range c.Ops {
			in := insts[o.Inst]
			switch o.Kind {
			case 0:
				for _, id := range o.IDs {
					in.AddInterceptor(get(o.Inst, id))
					models[o.Inst] = append(models[o.Inst], id)
				}
			case 1:
				for _, id := range o.IDs {
					in.RemoveInterceptor(get(o.Inst, id))
					var nm []int
					for _, x := range models[o.Inst] {
						if x != id {
							nm = append(nm, x)
						}
					}
					models[o.Inst] = nm
				}
			case 2:
				in.SetHTTPClient(&http.Client{Transport: logRT{&log}})
				moved = true
			case 3:
				in.SetHTTPClient(shared)
				moved = true
			case 4:
				in.SetHTTPClient(insts[o.Arg%c.Insts].GetHTTPClient())
				moved = true
			case 5:
				log = nil
				resp := in.Get("http://c18.multi/x")
				if resp.Err != nil {
					key, msg = "C18/multi-instance", fmt.Sprintf("step %d: request through instance %d failed: %v (log %v)", step, o.Inst, resp.Err, log)
					return
				}
				var own []string
				ts := 0
				for i, e := range log {
					if strings.HasPrefix(e, fmt.Sprintf("I%d.", o.Inst)) {
						own = append(own, e)
					}
					if e == "T" {
						ts++
						if i != len(log)-1 {
							key, msg = "C18/multi-instance", fmt.Sprintf("step %d: the transport was reached before the end of the chain: %v", step, log)
							return
						}
					}
				}
				var want []string
				for _, id := range models[o.Inst] {
					want = append(want, fmt.Sprintf("I%d.%d", o.Inst, id))
				}
				if strings.Join(own, ",") != strings.Join(want, ",") || ts != 1 {
					key = "C18/multi-instance"
					msg = fmt.Sprintf("step %d: request through instance %d ran %v (its own interceptors: %v, transports: %d), want its registered chain %v exactly once and one transport call", step, o.Inst, log, own, ts, want)
					return
				}
				if moved && c.Insts >= 2 {
					nontrivial = true
				}
			}
		}
	})
	if p != nil && key == "" {
		key, msg = "C18/multi-instance-panic", fmt.Sprintf("%v\n%s", p, firstFrames(st))
	}
	return
}

func TestMultiInstance(t *testing.T) {
	if vlib.Replaying() {
		t.Skip()
	}
	vlib.Check(t, "multi-instance", 3000, 30000, func(t *rapid.T) {
		n := rapid.IntRange(1, 3).Draw(t, "insts")
		c := multiCase{Insts: n}
		for i := 0; i < n; i++ {
			c.Shared = append(c.Shared, rapid.IntRange(0, 2).Draw(t, "shared") > 0)
		}
		steps := rapid.IntRange(1, 12).Draw(t, "steps")
		for i := 0; i < steps; i++ {
			o := multiOp{Kind: rapid.SampledFrom([]int{0, 0, 1, 2, 3, 4, 5, 5, 5}).Draw(t, "kind"), Inst: rapid.IntRange(0, n-1).Draw(t, "inst")}
			switch o.Kind {
			case 0, 1:
				o.IDs = rapid.SliceOfN(rapid.IntRange(0, 2), 1, 2).Draw(t, "ids")
			case 4:
				o.Arg = rapid.IntRange(0, n-1).Draw(t, "of")
			}
			c.Ops = append(c.Ops, o)
		}
		for i := 0; i < n; i++ {
			c.Ops = append(c.Ops, multiOp{Kind: 5, Inst: i})
		}
		vlib.S().Eval("multi-instance")
		key, msg, nt := runMulti(c)
		if nt {
			vlib.S().NonTrivial("multi-instance", fmt.Sprintf("%+v", c))
		}
		if key != "" {
			vlib.WriteReplay("C18/multi", c)
			if vlib.Fail(t, key, "%+v: %s", c, msg) {
				t.Skip("known")
			}
		}
	})
}

// Shrunk cases of the multi-instance part (plain regression checks, no generator involved).
// The first is the history that failed on the tree before /repo 36bc8a1: A and B on one client,
// A has an interceptor, B moves to another client, a request through A ran no interceptor.
var multiDirected = []multiCase{
	{Insts: 2, Shared: []bool{true, true}, Ops: []multiOp{{Kind: 0, Inst: 0, IDs: []int{0}}, {Kind: 2, Inst: 1}, {Kind: 5, Inst: 0}, {Kind: 5, Inst: 1}}},
	{Insts: 2, Shared: []bool{true, true}, Ops: []multiOp{{Kind: 0, Inst: 0, IDs: []int{0}}, {Kind: 0, Inst: 1, IDs: []int{1}}, {Kind: 2, Inst: 0}, {Kind: 5, Inst: 0}, {Kind: 5, Inst: 1}, {Kind: 3, Inst: 0}, {Kind: 5, Inst: 0}, {Kind: 5, Inst: 1}}},
	{Insts: 3, Shared: []bool{true, true, true}, Ops: []multiOp{{Kind: 0, Inst: 0, IDs: []int{0}}, {Kind: 0, Inst: 1, IDs: []int{1}}, {Kind: 0, Inst: 2, IDs: []int{2}}, {Kind: 2, Inst: 1}, {Kind: 5, Inst: 0}, {Kind: 5, Inst: 1}, {Kind: 5, Inst: 2}, {Kind: 4, Inst: 0, Arg: 1}, {Kind: 5, Inst: 0}, {Kind: 5, Inst: 1}, {Kind: 5, Inst: 2}}},
}

func TestMultiInstanceRegress(t *testing.T) {
	if vlib.Replaying() {
		t.Skip()
	}
	for i, c := range multiDirected {
		vlib.S().Eval("multi-instance")
		key, msg, nt := runMulti(c)
		if nt {
			vlib.S().NonTrivial("multi-instance", fmt.Sprintf("%+v", c))
		}
		if key != "" {
			vlib.WriteReplay("C18/multi", c)
			vlib.Fail(t, key, "directed case %d %+v: %s", i, c, msg)
		}
	}
}

func TestMultiInstanceReplay(t *testing.T) {
	raw := vlib.ReplayCase("C18/multi")
	if raw == nil {
		t.Skip("no replay case")
	}
	var c multiCase
	if err := json.Unmarshal(raw, &c); err != nil {
		t.Fatal(err)
	}
	if key, msg, _ := runMulti(c); key != "" {
		t.Fatalf("[key=%s] %s", key, msg)
	}
}
