package c18

import (
	"fmt"
	"net/http"
	"strings"
	"testing"

	"github.com/TeaEntityLab/fpGo/v2/network"
	"pgregory.net/rapid"

	"verifharness/vlib"
)

// Part "default-constructors": several instances made by NewSimpleHTTP() / NewSimpleAPI(...) live in
// one process. Each instance has its own interceptor chain: a request through one instance runs that
// instance's interceptors only, once each, in order. (http.DefaultTransport is replaced by a stub for
// the duration so that no socket is opened; a constructor that binds instances to a shared client
// would make their chains stack.)

type defaultCase struct {
	Insts []int   `json:"insts"` // per instance: 0 = NewSimpleHTTP(), 1 = NewSimpleAPI(base).GetSimpleHTTP()
	Adds  [][]int `json:"adds"`  // per instance: interceptor ids to register
	Reqs  []int   `json:"reqs"`  // instance index per request
}

func runDefault(c defaultCase) (key, msg string) {
	var log []string
	oldT := http.DefaultTransport
	oldC := http.DefaultClient.Transport
	http.DefaultTransport = logRT{&log}
	defer func() { http.DefaultTransport = oldT; http.DefaultClient.Transport = oldC }()
	mk := func(inst, id int) *network.Interceptor {
		f := network.Interceptor(func(*http.Request) error {
			log = append(log, fmt.Sprintf("I%d.%d", inst, id))
			if len(log) > 300 {
				return fmt.Errorf("runaway")
			}
			return nil
		})
		return &f
	}
	p, st := vlib.Try(func() {
		insts := make([]*network.SimpleHTTPDef, len(c.Insts))
		for i, k := range c.Insts {
			if k == 0 {
				insts[i] = network.NewSimpleHTTP()
			} else {
				insts[i] = network.NewSimpleAPI("http://c18.default").GetSimpleHTTP()
			}
			for _, id := range c.Adds[i] {
				insts[i].AddInterceptor(mk(i, id))
			}
		}
		for step, r := range c.Reqs {
			log = nil
			resp := insts[r].Get("http://c18.default/x")
			var want []string
			for _, id := range c.Adds[r] {
				want = append(want, fmt.Sprintf("I%d.%d", r, id))
			}
			want = append(want, "T")
			if resp.Err != nil {
				key, msg = "C18/default-constructors", fmt.Sprintf("request %d on instance %d failed: %v (ran %v)", step, r, resp.Err, log)
				return
			}
			if strings.Join(log, ",") != strings.Join(want, ",") {
				key, msg = "C18/default-constructors", fmt.Sprintf("request %d on instance %d ran %v, its own chain is %v (instances created by the default constructors must not share a client/chain)", step, r, log, want)
				return
			}
		}
	})
	if p != nil && key == "" {
		key, msg = "C18/default-constructors-panic", fmt.Sprintf("%v\n%s", p, firstFrames(st))
	}
	return
}

func TestDefaultConstructors(t *testing.T) {
	if vlib.Replaying() {
		t.Skip()
	}
	vlib.Check(t, "default-constructors", 400, 4000, func(t *rapid.T) {
		n := rapid.IntRange(1, 3).Draw(t, "insts")
		c := defaultCase{}
		for i := 0; i < n; i++ {
			c.Insts = append(c.Insts, rapid.IntRange(0, 1).Draw(t, "ctor"))
			c.Adds = append(c.Adds, rapid.SliceOfN(rapid.IntRange(0, 3), 0, 3).Draw(t, "adds"))
		}
		c.Reqs = rapid.SliceOfN(rapid.IntRange(0, n-1), 1, 4).Draw(t, "reqs")
		vlib.S().Eval("default-constructors")
		if n >= 2 {
			vlib.S().NonTrivial("default-constructors", fmt.Sprintf("%+v", c))
		}
		if key, msg := runDefault(c); key != "" {
			vlib.WriteReplay("C18/default", c)
			if vlib.Fail(t, key, "%+v: %s", c, msg) {
				t.Skip("known")
			}
		}
	})
}
