package c18

import (
	"encoding/json"
	"fmt"
	"io"
	"net/http"
	"strings"
	"testing"

	"github.com/TeaEntityLab/fpGo/v2/network"
	"pgregory.net/rapid"

	"verifharness/vlib"
)

// Part "shared-slice": several SimpleHTTP instances are constructed from the SAME
// caller-owned interceptor slice (which may have spare capacity, as any slice built
// with append has). Add/Remove/Clear on one instance must affect exactly that
// instance's chain for subsequent requests.

type sharedOp struct {
	Inst int   `json:"inst"`
	Kind int   `json:"kind"` // oAdd, oRemove, oClear, oRequest
	IDs  []int `json:"ids"`
}

type sharedCase struct {
	Base     []int      `json:"base"`
	SpareCap int        `json:"spareCap"`
	Insts    int        `json:"insts"`
	Ops      []sharedOp `json:"ops"`
}

func (c sharedCase) String() string {
	var sb strings.Builder
	fmt.Fprintf(&sb, "base=%v spare=%d insts=%d ops=", c.Base, c.SpareCap, c.Insts)
	for _, o := range c.Ops {
		fmt.Fprintf(&sb, "[i%d %s %v]", o.Inst, map[int]string{oAdd: "Add", oRemove: "Remove", oClear: "Clear", oRequest: "Request"}[o.Kind], o.IDs)
	}
	return sb.String()
}

type logRT struct{ log *[]string }

func (l logRT) RoundTrip(req *http.Request) (*http.Response, error) {
	*l.log = append(*l.log, "T")
	return &http.Response{Status: "200 OK", StatusCode: 200, Proto: "HTTP/1.1", ProtoMajor: 1, ProtoMinor: 1,
		Header: http.Header{}, Body: io.NopCloser(strings.NewReader(`{}`)), ContentLength: -1, Request: req}, nil
}

func runShared(c sharedCase) (key, msg string, nontrivial bool) {
	var log []string
	pool := make([]*network.Interceptor, 8)
	for i := range pool {
		id := i
		f := network.Interceptor(func(*http.Request) error {
			log = append(log, fmt.Sprintf("I%d", id))
			if len(log) > 200 {
				return fmt.Errorf("runaway")
			}
			return nil
		})
		pool[i] = &f
	}
	base := make([]*network.Interceptor, 0, len(c.Base)+c.SpareCap)
	for _, id := range c.Base {
		base = append(base, pool[id])
	}
	insts := make([]*network.SimpleHTTPDef, c.Insts)
	models := make([][]int, c.Insts)
	p, st := vlib.Try(func() {
		for i := range insts {
			insts[i] = network.NewSimpleHTTPWithClientAndInterceptors(&http.Client{Transport: logRT{&log}}, base...)
			models[i] = append([]int{}, c.Base...)
		}
		touched := map[int]bool{}
		for step, o := range c.Ops {
			in := insts[o.Inst]
			var ptrs []*network.Interceptor
			for _, id := range o.IDs {
				ptrs = append(ptrs, pool[id])
			}
			switch o.Kind {
			case oAdd:
				in.AddInterceptor(ptrs...)
				models[o.Inst] = append(models[o.Inst], o.IDs...)
				touched[o.Inst] = true
			case oRemove:
				in.RemoveInterceptor(ptrs...)
				for _, id := range o.IDs {
					var nm []int
					for _, x := range models[o.Inst] {
						if x != id {
							nm = append(nm, x)
						}
					}
					models[o.Inst] = nm
				}
				touched[o.Inst] = true
			case oClear:
				in.ClearInterceptor()
				models[o.Inst] = nil
				touched[o.Inst] = true
			case oRequest:
				log = nil
				resp := in.Get("http://example.invalid/x")
				var want []string
				for _, id := range models[o.Inst] {
					want = append(want, fmt.Sprintf("I%d", id))
				}
				want = append(want, "T")
				if resp.Err != nil {
					key, msg = "C18/shared-slice", fmt.Sprintf("step %d: request on instance %d failed: %v", step, o.Inst, resp.Err)
					return
				}
				if strings.Join(log, ",") != strings.Join(want, ",") {
					key = "C18/shared-slice"
					msg = fmt.Sprintf("step %d: request on instance %d ran %v, registered chain is %v (instances were built from one shared interceptor slice; an Add/Remove on another instance leaked)", step, o.Inst, log, want)
					return
				}
				if len(touched) >= 2 {
					nontrivial = true
				}
			}
		}
	})
	if p != nil && key == "" {
		key, msg = "C18/shared-slice-panic", fmt.Sprintf("%v\n%s", p, firstFrames(st))
	}
	return
}

func genShared(t *rapid.T) sharedCase {
	c := sharedCase{
		Base:     rapid.SliceOfN(rapid.IntRange(0, 7), 0, 3).Draw(t, "base"),
		SpareCap: rapid.IntRange(0, 3).Draw(t, "spare"),
		Insts:    rapid.IntRange(1, 3).Draw(t, "insts"),
	}
	n := rapid.IntRange(1, 14).Draw(t, "n")
	for i := 0; i < n; i++ {
		o := sharedOp{Inst: rapid.IntRange(0, c.Insts-1).Draw(t, "inst"),
			Kind: rapid.SampledFrom([]int{oAdd, oAdd, oAdd, oRemove, oClear, oRequest, oRequest, oRequest}).Draw(t, "kind")}
		if o.Kind == oAdd || o.Kind == oRemove {
			o.IDs = rapid.SliceOfN(rapid.IntRange(0, 7), 1, 2).Draw(t, "ids")
		}
		c.Ops = append(c.Ops, o)
	}
	// always finish by exercising every instance
	for i := 0; i < c.Insts; i++ {
		c.Ops = append(c.Ops, sharedOp{Inst: i, Kind: oRequest})
	}
	return c
}

func TestSharedSliceRegress(t *testing.T) {
	c := sharedCase{Base: []int{0, 1}, SpareCap: 2, Insts: 2, Ops: []sharedOp{
		{Inst: 0, Kind: oAdd, IDs: []int{2}}, {Inst: 1, Kind: oAdd, IDs: []int{3}},
		{Inst: 0, Kind: oRequest}, {Inst: 1, Kind: oRequest}}}
	vlib.S().Eval("shared-slice")
	key, msg, nt := runShared(c)
	if nt {
		vlib.S().NonTrivial("shared-slice", c.String())
	}
	if key != "" {
		vlib.WriteReplay("C18/shared", c)
		vlib.Fail(t, key, "%v: %s", c, msg)
	}
}

func TestSharedSliceReplay(t *testing.T) {
	raw := vlib.ReplayCase("C18/shared")
	if raw == nil {
		t.Skip("no replay case")
	}
	var c sharedCase
	if err := json.Unmarshal(raw, &c); err != nil {
		t.Fatal(err)
	}
	if key, msg, _ := runShared(c); key != "" {
		t.Fatalf("[key=%s] %s", key, msg)
	}
}

func TestSharedSlice(t *testing.T) {
	if vlib.Replaying() {
		t.Skip()
	}
	vlib.Check(t, "shared-slice", 3000, 20000, func(t *rapid.T) {
		c := genShared(t)
		vlib.S().Eval("shared-slice")
		key, msg, nt := runShared(c)
		if nt {
			vlib.S().NonTrivial("shared-slice", c.String())
		}
		if key != "" {
			vlib.WriteReplay("C18/shared", c)
			if vlib.Fail(t, key, "%v: %s", c, msg) {
				t.Skip("known")
			}
		}
	})
}
