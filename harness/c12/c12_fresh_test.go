package c12

import (
	"encoding/json"
	"fmt"
	"runtime"
	"sync"
	"sync/atomic"
	"testing"

	fpgo "github.com/TeaEntityLab/fpGo/v2"
	"pgregory.net/rapid"

	"verifharness/vlib"
)

// Part "fresh-mailbox": a Handler / Actor that nobody has used yet gets its FIRST submissions from
// several goroutines at the same instant (then a few more, one by one): still one at a time, all on one
// goroutine, each exactly once.

type freshMailboxCase struct {
	Kind    string `json:"kind"` // handler | actor
	Cap     int    `json:"cap"`  // -1 default constructor
	Senders int    `json:"senders"`
	Tail    int    `json:"tail"`
}

func runFreshMailbox(c freshMailboxCase) (key, msg string) {
	var mu sync.Mutex
	gs := map[uint64]int{}
	seen := map[int]int{}
	var in, overlap, total int32
	body := func(v int) {
		if atomic.AddInt32(&in, 1) > 1 {
			atomic.StoreInt32(&overlap, 1)
		}
		g := vlib.GoID()
		mu.Lock()
		gs[g]++
		seen[v]++
		mu.Unlock()
		atomic.AddInt32(&in, -1)
		atomic.AddInt32(&total, 1)
	}
	var send func(int)
	var closeIt func()
	if c.Kind == "actor" {
		var a *fpgo.ActorDef[int]
		if c.Cap < 0 {
			a = fpgo.ActorNewGenerics(func(_ *fpgo.ActorDef[int], v int) { body(v) })
		} else {
			a = fpgo.ActorNewByOptionsGenerics(func(_ *fpgo.ActorDef[int], v int) { body(v) }, make(chan int, c.Cap), map[string]interface{}{})
		}
		send, closeIt = a.Send, a.Close
	} else {
		var h *fpgo.HandlerDef
		if c.Cap < 0 {
			h = fpgo.Handler.New()
		} else {
			h = fpgo.Handler.NewByCh(make(chan func(), c.Cap))
		}
		send, closeIt = func(v int) { h.Post(func() { body(v) }) }, h.Close
	}
	defer closeIt()
	begin := make(chan struct{})
	var ready, wg sync.WaitGroup
	for i := 0; i < c.Senders; i++ {
		wg.Add(1)
		ready.Add(1)
		go func(v int) {
			defer wg.Done()
			ready.Done()
			<-begin
			send(v)
		}(i)
	}
	ready.Wait()
	runtime.Gosched()
	close(begin)
	wg.Wait()
	for i := 0; i < c.Tail; i++ {
		send(100 + i)
	}
	want := int32(c.Senders + c.Tail)
	if !vlib.WaitUntil(vlib.StallBudget(), func() bool { return atomic.LoadInt32(&total) >= want }) {
		return "C12/fresh-mailbox/lost", fmt.Sprintf("%d submissions, %d processed", want, atomic.LoadInt32(&total))
	}
	mu.Lock()
	defer mu.Unlock()
	for v, n := range seen {
		if n != 1 {
			return "C12/fresh-mailbox/count", fmt.Sprintf("message %d processed %d times", v, n)
		}
	}
	if len(gs) > 1 {
		return "C12/fresh-mailbox/goroutine", fmt.Sprintf("the work of one %s ran on %d different goroutines %v", c.Kind, len(gs), gs)
	}
	if atomic.LoadInt32(&overlap) == 1 {
		return "C12/fresh-mailbox/overlap", fmt.Sprintf("two pieces of work of one %s ran at the same time", c.Kind)
	}
	return "", ""
}

func TestFreshMailbox(t *testing.T) {
	if vlib.Replaying() {
		raw := vlib.ReplayCase("C12/fresh")
		if raw == nil {
			return
		}
		var c freshMailboxCase
		if err := json.Unmarshal(raw, &c); err != nil {
			t.Fatal(err)
		}
		for i := 0; i < 20000; i++ {
			if key, msg := runFreshMailbox(c); key != "" {
				t.Fatalf("[key=%s] round %d: %s", key, i, msg)
			}
		}
		return
	}
	vlib.Check(t, "fresh-mailbox", 60, 150, func(t *rapid.T) {
		c := freshMailboxCase{Kind: rapid.SampledFrom([]string{"handler", "handler", "actor"}).Draw(t, "kind"), Cap: rapid.IntRange(-1, 2).Draw(t, "cap"),
			Senders: rapid.IntRange(2, 8).Draw(t, "senders"), Tail: rapid.IntRange(0, 3).Draw(t, "tail")}
		for r := 0; r < 200; r++ {
			vlib.S().Eval("fresh-mailbox")
			if key, msg := runFreshMailbox(c); key != "" {
				vlib.WriteReplay("C12/fresh", c)
				if vlib.Fail(t, key, "%+v round %d: %s", c, r, msg) {
					t.Skip("known")
				}
				return
			}
		}
		b, _ := json.Marshal(c)
		vlib.S().NonTrivial("fresh-mailbox", string(b))
	})
}
