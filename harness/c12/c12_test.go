package c12

import (
	"encoding/json"
	"fmt"
	"runtime"
	"strings"
	"sync"
	"sync/atomic"
	"testing"
	"time"

	fpgo "github.com/TeaEntityLab/fpGo/v2"
	"pgregory.net/rapid"

	"verifharness/vlib"
)

func TestMain(m *testing.M) { vlib.Main(m) }

// lateRuns counts work that ran although it was submitted after Close returned
// (checked again at the very end of the process: "never runs").
var lateRuns int64

type scenario struct {
	Kind     string `json:"kind"`     // "handler" | "actor"
	Cap      int    `json:"cap"`      // mailbox capacity; -1 = library default constructor
	Counts   []int  `json:"counts"`   // messages per sender
	Work     int    `json:"work"`     // yields inside each message
	SendGap  int    `json:"sendGap"`  // yields between sends
	PostLate int    `json:"postLate"` // submissions after Close
	// CloseEarly: the first message is held on a gate, all senders finish (the mailbox buffers
	// everything), Close() is called while the messages are still pending, then the gate opens:
	// everything submitted before Close must still be processed exactly once.
	CloseEarly bool `json:"closeEarly"`
	// PollState (actors): while the senders run, a monitor goroutine and the effect itself keep asking
	// IsClosed(): a question, not an operation - it answers false on the open actor and takes nothing away
	PollState bool `json:"pollState"`
}

func (s scenario) String() string {
	return fmt.Sprintf("%s cap=%d counts=%v work=%d gap=%d late=%d closeEarly=%v pollState=%v", s.Kind, s.Cap, s.Counts, s.Work, s.SendGap, s.PostLate, s.CloseEarly, s.PollState)
}

type tag struct{ sender, seq int }

type result struct {
	failKey, failMsg string
	overlappedSends  bool
	inconclusive     string
}

type mailbox struct {
	gate      chan struct{}
	gateUsed  int32
	inflight  int32
	maxIn     int32
	mu        sync.Mutex
	log       []tag
	wrongSelf int32
}

func (mb *mailbox) process(tg tag, work int) {
	n := atomic.AddInt32(&mb.inflight, 1)
	for {
		m := atomic.LoadInt32(&mb.maxIn)
		if n <= m || atomic.CompareAndSwapInt32(&mb.maxIn, m, n) {
			break
		}
	}
	// the gate is held INSIDE the counted region: whoever else processes a message of this
	// mailbox meanwhile (e.g. a Close that drains the queue itself) shows up as a second one in flight
	if mb.gate != nil && atomic.CompareAndSwapInt32(&mb.gateUsed, 0, 1) {
		<-mb.gate
	}
	for i := 0; i < work; i++ {
		runtime.Gosched()
	}
	mb.mu.Lock()
	mb.log = append(mb.log, tg)
	mb.mu.Unlock()
	atomic.AddInt32(&mb.inflight, -1)
}

func (mb *mailbox) count() int {
	mb.mu.Lock()
	defer mb.mu.Unlock()
	return len(mb.log)
}

func genScenario(t *rapid.T) scenario {
	var s scenario
	s.Kind = rapid.SampledFrom([]string{"handler", "actor", "actorAsk"}).Draw(t, "kind")
	s.Cap = rapid.SampledFrom([]int{-1, 0, 1, 4, 64}).Draw(t, "cap")
	ns := rapid.IntRange(1, 16).Draw(t, "senders")
	maxMsg := 200
	if ns > 4 {
		maxMsg = 40
	}
	if rapid.Bool().Draw(t, "small") {
		maxMsg = 6
	}
	for i := 0; i < ns; i++ {
		s.Counts = append(s.Counts, rapid.IntRange(1, maxMsg).Draw(t, "n"))
	}
	s.Work = rapid.SampledFrom([]int{0, 0, 1, 3}).Draw(t, "work")
	s.SendGap = rapid.SampledFrom([]int{0, 0, 1, 2}).Draw(t, "gap")
	s.PostLate = rapid.IntRange(0, 3).Draw(t, "late")
	s.PollState = s.Kind != "handler" && rapid.IntRange(0, 2).Draw(t, "pollState") == 0
	if s.Cap >= 1 && rapid.IntRange(0, 2).Draw(t, "closeEarly") == 0 {
		// keep the total within the mailbox capacity so that all senders can finish while the gate is shut
		s.CloseEarly = true
		left := s.Cap
		var counts []int
		for _, c := range s.Counts {
			if left == 0 {
				break
			}
			if c > left {
				c = left
			}
			counts = append(counts, c)
			left -= c
		}
		s.Counts = counts
	}
	return s
}

func runScenario(s scenario) result {
	var res result
	mb := &mailbox{}
	if s.CloseEarly {
		mb.gate = make(chan struct{})
	}
	var send func(tg tag)
	var closeIt func()
	var isClosed func() bool
	var closedTooEarly int32
	var actor *fpgo.ActorDef[tag]
	switch s.Kind {
	case "handler":
		var h *fpgo.HandlerDef
		if s.Cap < 0 {
			h = fpgo.Handler.GetDefault().New() // any handler value is a factory
		} else {
			h = fpgo.Handler.NewByCh(make(chan func(), s.Cap))
		}
		send = func(tg tag) { h.Post(func() { mb.process(tg, s.Work) }) }
		closeIt = h.Close
	case "actor":
		effect := func(self *fpgo.ActorDef[tag], tg tag) {
			if self != actor {
				atomic.AddInt32(&mb.wrongSelf, 1)
			}
			if s.PollState && !s.CloseEarly && self.IsClosed() {
				atomic.AddInt32(&closedTooEarly, 1)
			}
			mb.process(tg, s.Work)
		}
		var factory fpgo.ActorDef[tag]
		switch {
		case s.Cap < 0 && len(s.Counts)%2 == 0:
			actor = factory.New(effect) // method-form constructors
		case s.Cap < 0:
			actor = fpgo.ActorNewGenerics(effect)
		case len(s.Counts)%2 == 0:
			actor = factory.NewByOptions(effect, make(chan tag, s.Cap), map[string]interface{}{})
		default:
			actor = fpgo.ActorNewByOptionsGenerics(effect, make(chan tag, s.Cap), map[string]interface{}{})
		}
		send = func(tg tag) { actor.Send(tg) }
		closeIt = actor.Close
		isClosed = actor.IsClosed
	case "actorAsk":
		// an actor of interface{} messages; every other submission of a sender goes through
		// Ask.AskChannel (which submits the request object to the same mailbox) instead of Send
		var anyActor *fpgo.ActorDef[interface{}]
		effect := func(self *fpgo.ActorDef[interface{}], m interface{}) {
			if self != anyActor {
				atomic.AddInt32(&mb.wrongSelf, 1)
			}
			switch v := m.(type) {
			case tag:
				mb.process(v, s.Work)
			case *fpgo.AskDef[tag, int]:
				mb.process(v.Message, s.Work)
				v.Reply(1) // reply channel is buffered: never blocks the actor
			}
		}
		if s.Cap < 0 {
			anyActor = fpgo.ActorNewGenerics(effect)
		} else {
			anyActor = fpgo.ActorNewByOptionsGenerics(effect, make(chan interface{}, s.Cap), map[string]interface{}{})
		}
		send = func(tg tag) {
			if tg.seq%2 == 1 {
				fpgo.AskNewByOptionsGenerics[tag, int](tg, make(chan int, 1)).AskChannel(anyActor)
			} else {
				anyActor.Send(tg)
			}
		}
		closeIt = anyActor.Close
		isClosed = anyActor.IsClosed
	}
	stopPoll := make(chan struct{})
	pollDone := make(chan struct{})
	if s.PollState && isClosed != nil && !s.CloseEarly {
		go func() {
			defer close(pollDone)
			for {
				select {
				case <-stopPoll:
					return
				default:
				}
				if isClosed() {
					atomic.AddInt32(&closedTooEarly, 1)
				}
				runtime.Gosched()
			}
		}()
	} else {
		close(pollDone)
	}
	stopPolling := func() {
		select {
		case <-stopPoll:
		default:
			close(stopPoll)
		}
		<-pollDone
	}
	defer stopPolling()
	total := 0
	for _, c := range s.Counts {
		total += c
	}
	var wg sync.WaitGroup
	start := make(chan struct{})
	var clock int64
	type span struct{ a, b int64 }
	spans := make([][]span, len(s.Counts))
	panics := make([]string, len(s.Counts))
	for i, c := range s.Counts {
		wg.Add(1)
		go func(i, c int) {
			defer wg.Done()
			<-start
			p, st := vlib.Try(func() {
				for j := 0; j < c; j++ {
					a := atomic.AddInt64(&clock, 1)
					send(tag{i, j})
					b := atomic.AddInt64(&clock, 1)
					if j < 50 {
						spans[i] = append(spans[i], span{a, b})
					}
					for k := 0; k < s.SendGap; k++ {
						runtime.Gosched()
					}
				}
			})
			if p != nil {
				panics[i] = fmt.Sprintf("%v\n%s", p, st)
			}
		}(i, c)
	}
	done := make(chan struct{})
	go func() { wg.Wait(); close(done) }()
	close(start)
	select {
	case <-done:
	case <-time.After(vlib.StallBudget()):
		verdict, dump := vlib.ClassifyStall([]string{"c12.runScenario"})
		if verdict == "blocked" {
			res.failKey, res.failMsg = "C12/senders-blocked", "senders blocked for ever:\n"+dump
		} else {
			res.inconclusive = "senders slow: " + verdict
		}
		return res
	}
	for i, p := range panics {
		if p != "" {
			res.failKey, res.failMsg = "C12/panic", fmt.Sprintf("sender %d: %s", i, p)
			return res
		}
	}
	closedEarly := false
	if s.CloseEarly {
		// everything was submitted (Send/Post returned) before this Close; Close must not wait for
		// (or run) the queued work itself, but even if it does the harness must not hang on its own gate
		closeDone := make(chan struct{})
		go func() { defer close(closeDone); closeIt() }()
		select {
		case <-closeDone:
		case <-time.After(100 * time.Millisecond):
		}
		closedEarly = true
		close(mb.gate)
		select {
		case <-closeDone:
		case <-time.After(vlib.StallBudget()):
			res.failKey, res.failMsg = "C12/close-blocks", "Close() did not return"
			return res
		}
	}
	if !vlib.WaitUntil(vlib.StallBudget(), func() bool { return mb.count() >= total }) {
		time.Sleep(100 * time.Millisecond)
		c1 := mb.count()
		time.Sleep(300 * time.Millisecond)
		if c2 := mb.count(); c2 == c1 && c1 < total && atomic.LoadInt32(&mb.inflight) == 0 {
			res.failKey = "C12/lost"
			res.failMsg = fmt.Sprintf("only %d of %d submitted messages were processed and the mailbox is idle (closeEarly=%v)", c1, total, s.CloseEarly)
		} else {
			res.inconclusive = "processing slow"
		}
		return res
	}
	stopPolling()
	if n := atomic.LoadInt32(&closedTooEarly); n > 0 {
		res.failKey, res.failMsg = "C12/isclosed", fmt.Sprintf("IsClosed() answered true %d times while the actor was open", n)
		return res
	}
	if !closedEarly {
		closeIt()
	}
	if isClosed != nil && !isClosed() {
		res.failKey, res.failMsg = "C12/isclosed", "IsClosed() is false after Close() returned"
		return res
	}
	// submissions after Close has returned must be dropped, without panic
	lateBefore := atomic.LoadInt64(&lateRuns)
	for i := 0; i < s.PostLate; i++ {
		p, st := vlib.Try(func() {
			switch s.Kind {
			case "handler":
				// cannot reach h here; handled through send with a marker tag
				send(tag{-1, i})
			case "actor":
				send(tag{-1, i})
			}
		})
		if p != nil {
			res.failKey, res.failMsg = "C12/post-after-close-panic", fmt.Sprintf("submission after Close panicked: %v\n%s", p, st)
			return res
		}
	}
	for i := 0; i < 20; i++ {
		runtime.Gosched()
	}
	_ = lateBefore
	// ---- oracle over the log
	mb.mu.Lock()
	log := append([]tag(nil), mb.log...)
	mb.mu.Unlock()
	if atomic.LoadInt32(&mb.maxIn) > 1 {
		res.failKey, res.failMsg = "C12/not-serial", fmt.Sprintf("%d messages were in flight at the same time on one mailbox", mb.maxIn)
		return res
	}
	if atomic.LoadInt32(&mb.wrongSelf) > 0 {
		res.failKey, res.failMsg = "C12/wrong-self", "effect received a different actor than the one the message was sent to"
		return res
	}
	seen := map[tag]int{}
	lastSeq := map[int]int{}
	for _, tg := range log {
		if tg.sender == -1 {
			atomic.AddInt64(&lateRuns, 1)
			res.failKey, res.failMsg = "C12/ran-after-close", fmt.Sprintf("work submitted after Close() returned was executed (late #%d)", tg.seq)
			return res
		}
		seen[tg]++
		if seen[tg] > 1 {
			res.failKey, res.failMsg = "C12/duplicate", fmt.Sprintf("message %v processed twice", tg)
			return res
		}
		if l, ok := lastSeq[tg.sender]; ok && tg.seq < l {
			res.failKey, res.failMsg = "C12/order", fmt.Sprintf("sender %d: message %d processed after message %d", tg.sender, tg.seq, l)
			return res
		}
		lastSeq[tg.sender] = tg.seq
	}
	if len(seen) != total {
		res.failKey, res.failMsg = "C12/lost", fmt.Sprintf("%d distinct messages processed, %d submitted", len(seen), total)
		return res
	}
	// non-trivial: sends of two different senders overlapped in time
outer:
	for i := range spans {
		for j := i + 1; j < len(spans); j++ {
			for _, x := range spans[i] {
				for _, y := range spans[j] {
					if x.a < y.b && y.a < x.b {
						res.overlappedSends = true
						break outer
					}
				}
			}
		}
	}
	return res
}

func report(t vlib.TB, s any, kind string, res result, skip func()) {
	if res.inconclusive != "" {
		vlib.S().Note("inconclusive case (%s): %v", res.inconclusive, s)
		vlib.S().Class("inconclusive")
		return
	}
	if res.failKey == "" {
		return
	}
	vlib.WriteReplay(kind, s)
	if vlib.Fail(t, res.failKey, "%v: %s", s, res.failMsg) {
		skip()
	}
}

// ---------------------------------------------------------------- spawn trees

type treeScenario struct {
	// Parent[i] = index of the parent of node i (node 0 is the root, Parent[0] = -1)
	Parent []int `json:"parent"`
	// ClosedBeforeSpawn[i]: node i is closed before its later children are spawned
	CloseAt []int `json:"closeAt"` // CloseAt[i] = number of children after which node i is closed (-1 never)
	Msgs    int   `json:"msgs"`
}

func genTree(t *rapid.T) treeScenario {
	n := rapid.IntRange(1, 12).Draw(t, "nodes")
	ts := treeScenario{Parent: []int{-1}, CloseAt: []int{rapid.IntRange(-1, 2).Draw(t, "c0")}}
	depth := []int{0}
	for i := 1; i < n; i++ {
		// pick a parent with depth < 3
		var cands []int
		for j := 0; j < i; j++ {
			if depth[j] < 3 {
				cands = append(cands, j)
			}
		}
		p := rapid.SampledFrom(cands).Draw(t, "parent")
		ts.Parent = append(ts.Parent, p)
		depth = append(depth, depth[p]+1)
		ts.CloseAt = append(ts.CloseAt, rapid.IntRange(-1, 2).Draw(t, "c"))
	}
	ts.Msgs = rapid.IntRange(1, 5).Draw(t, "msgs")
	return ts
}

func runTree(ts treeScenario) result {
	var res result
	n := len(ts.Parent)
	nodes := make([]*fpgo.ActorDef[int], n)
	closedAtSpawn := make([]bool, n) // parent was closed when node i was spawned
	children := make([]int, n)
	closed := make([]bool, n)
	var got [][]int = make([][]int, n)
	var mu sync.Mutex
	var wrongSelf int32
	mkEffect := func(i int) func(*fpgo.ActorDef[int], int) {
		return func(self *fpgo.ActorDef[int], m int) {
			mu.Lock()
			if nodes[i] != nil && self != nodes[i] {
				wrongSelf++
			}
			got[i] = append(got[i], m)
			mu.Unlock()
		}
	}
	p, st := vlib.Try(func() {
		mu.Lock()
		nodes[0] = fpgo.ActorNewGenerics(mkEffect(0))
		mu.Unlock()
		if ts.CloseAt[0] == 0 {
			nodes[0].Close()
			closed[0] = true
		}
		for i := 1; i < n; i++ {
			par := ts.Parent[i]
			closedAtSpawn[i] = closed[par]
			c := nodes[par].Spawn(mkEffect(i))
			mu.Lock()
			nodes[i] = c
			mu.Unlock()
			children[par]++
			if !closed[par] && ts.CloseAt[par] == children[par] {
				nodes[par].Close()
				closed[par] = true
			}
			if ts.CloseAt[i] == 0 {
				c.Close()
				closed[i] = true
			}
		}
		// work submitted to an actor after its Close returned is dropped — it is not processed by that
		// actor, nor by its parent, a child or anybody else
		for i := 0; i < n; i++ {
			if closed[i] {
				nodes[i].Send(900000 + i)
			}
		}
		// every open node is an independent mailbox
		for i := 0; i < n; i++ {
			if closed[i] {
				continue
			}
			for m := 0; m < ts.Msgs; m++ {
				nodes[i].Send(1000*i + m)
			}
		}
	})
	if p != nil {
		res.failKey, res.failMsg = "C12/tree-panic", fmt.Sprintf("%v\n%s", p, st)
		return res
	}
	want := 0
	for i := 0; i < n; i++ {
		if !closed[i] {
			want += ts.Msgs
		}
	}
	cnt := func() int {
		mu.Lock()
		defer mu.Unlock()
		c := 0
		for _, g := range got {
			c += len(g)
		}
		return c
	}
	if !vlib.WaitUntil(vlib.StallBudget(), func() bool { return cnt() >= want }) {
		res.inconclusive = "tree messages slow"
		return res
	}
	// each open mailbox is FIFO and has now processed its own messages, which were sent after the late
	// ones: anything forwarded to it earlier has been processed too
	mu.Lock()
	defer mu.Unlock()
	if wrongSelf > 0 {
		res.failKey, res.failMsg = "C12/wrong-self", "a spawned actor's effect received a different actor as self"
		return res
	}
	for i := 0; i < n; i++ {
		for _, v := range got[i] {
			if v >= 900000 {
				res.failKey, res.failMsg = "C12/ran-after-close", fmt.Sprintf("message %d, sent to actor %d after its Close() returned, was processed by actor %d", v, v-900000, i)
				return res
			}
		}
	}
	for i := 0; i < n; i++ {
		if !closed[i] {
			if len(got[i]) != ts.Msgs {
				res.failKey, res.failMsg = "C12/tree-mailbox", fmt.Sprintf("node %d received %v, want its own %d messages", i, got[i], ts.Msgs)
				return res
			}
			for m, v := range got[i] {
				if v != 1000*i+m {
					res.failKey, res.failMsg = "C12/tree-mailbox", fmt.Sprintf("node %d received %v (foreign or reordered message)", i, got[i])
					return res
				}
			}
		} else if len(got[i]) != 0 {
			res.failKey, res.failMsg = "C12/tree-mailbox", fmt.Sprintf("closed node %d received %v", i, got[i])
			return res
		}
	}
	// registration
	ids := map[time.Time]int{}
	for i := 0; i < n; i++ {
		ids[nodes[i].GetID()]++
	}
	for i := 1; i < n; i++ {
		par := nodes[ts.Parent[i]]
		if ids[nodes[i].GetID()] > 1 {
			continue // identical time-based ids: lookup by id is ambiguous, not asserted
		}
		if closedAtSpawn[i] {
			if nodes[i].GetParent() != nil {
				res.failKey, res.failMsg = "C12/tree-registration", fmt.Sprintf("node %d spawned from a closed parent has a parent", i)
				return res
			}
			if par.GetChild(nodes[i].GetID()) != nil {
				res.failKey, res.failMsg = "C12/tree-registration", fmt.Sprintf("node %d spawned from a closed parent is registered as its child", i)
				return res
			}
		} else {
			if nodes[i].GetParent() != par {
				res.failKey, res.failMsg = "C12/tree-registration", fmt.Sprintf("node %d: GetParent() is not the actor it was spawned from", i)
				return res
			}
			if par.GetChild(nodes[i].GetID()) != nodes[i] {
				res.failKey, res.failMsg = "C12/tree-registration", fmt.Sprintf("node %d: parent.GetChild(id) does not return it", i)
				return res
			}
		}
		// not registered anywhere else
		for j := 0; j < n; j++ {
			if j != ts.Parent[i] && nodes[j].GetChild(nodes[i].GetID()) == nodes[i] {
				res.failKey, res.failMsg = "C12/tree-registration", fmt.Sprintf("node %d is registered under node %d which is not its parent", i, j)
				return res
			}
		}
	}
	if nodes[0].GetParent() != nil {
		res.failKey, res.failMsg = "C12/tree-registration", "root has a parent"
		return res
	}
	for i := 0; i < n; i++ {
		if !closed[i] {
			nodes[i].Close()
		}
	}
	return res
}

// ---------------------------------------------------------------- tests

func TestRegress(t *testing.T) {
	cases := []scenario{
		{Kind: "handler", Cap: -1, Counts: []int{5, 5}, Work: 1, PostLate: 2},
		{Kind: "actor", Cap: 4, Counts: []int{20, 20, 20}, Work: 1, PostLate: 1},
		{Kind: "handler", Cap: 64, Counts: []int{50, 50, 50, 50}, Work: 3, SendGap: 1, PostLate: 3},
		{Kind: "actor", Cap: 4, Counts: []int{2, 2}, CloseEarly: true, PostLate: 1},
		{Kind: "handler", Cap: 1, Counts: []int{1}, CloseEarly: true},
		{Kind: "actorAsk", Cap: 0, Counts: []int{10}},
		{Kind: "actorAsk", Cap: 4, Counts: []int{4}, CloseEarly: true},
	}
	for _, s := range cases {
		vlib.S().Eval("regress")
		res := runScenario(s)
		if res.overlappedSends {
			vlib.S().NonTrivial("regress", s.String())
		}
		report(t, s, "C12/scenario", res, func() {})
	}
}

func TestReplayJSON(t *testing.T) {
	if raw := vlib.ReplayCase("C12/scenario"); raw != nil {
		var s scenario
		if err := json.Unmarshal(raw, &s); err != nil {
			t.Fatal(err)
		}
		for i := 0; i < 200; i++ {
			if res := runScenario(s); res.failKey != "" {
				t.Fatalf("[key=%s] run %d: %s", res.failKey, i, res.failMsg)
			}
		}
		return
	}
	if raw := vlib.ReplayCase("C12/tree"); raw != nil {
		var s treeScenario
		if err := json.Unmarshal(raw, &s); err != nil {
			t.Fatal(err)
		}
		for i := 0; i < 50; i++ {
			if res := runTree(s); res.failKey != "" {
				t.Fatalf("[key=%s] run %d: %s", res.failKey, i, res.failMsg)
			}
		}
		return
	}
	t.Skip("no replay case")
}

func TestMailbox(t *testing.T) {
	vlib.Check(t, "mailbox", 2500, 40000, func(t *rapid.T) {
		s := genScenario(t)
		st := vlib.S()
		st.Eval("mailbox")
		res := runScenario(s)
		if res.overlappedSends {
			st.NonTrivial("mailbox", s.String())
			st.Class("sends-overlapped")
		} else {
			st.Class("sends-not-overlapped")
		}
		st.Class("kind=" + s.Kind)
		report(t, s, "C12/scenario", res, func() { t.Skip("known") })
	})
}

func TestSpawnTree(t *testing.T) {
	vlib.Check(t, "tree", 2500, 40000, func(t *rapid.T) {
		ts := genTree(t)
		st := vlib.S()
		st.Eval("tree")
		res := runTree(ts)
		desc := fmt.Sprintf("parent=%v closeAt=%v msgs=%d", ts.Parent, ts.CloseAt, ts.Msgs)
		anyClosed := strings.Contains(fmt.Sprint(ts.CloseAt), "0") || strings.Contains(fmt.Sprint(ts.CloseAt), "1") || strings.Contains(fmt.Sprint(ts.CloseAt), "2")
		if len(ts.Parent) >= 3 && anyClosed {
			st.NonTrivial("tree", desc)
		}
		report(t, ts, "C12/tree", res, func() { t.Skip("known") })
	})
}

// TestZLate runs last: nothing submitted after a Close may ever have run.
func TestZLate(t *testing.T) {
	time.Sleep(20 * time.Millisecond)
	if n := atomic.LoadInt64(&lateRuns); n > 0 {
		vlib.Fail(t, "C12/ran-after-close", "%d submissions made after Close() returned were executed", n)
	}
}
