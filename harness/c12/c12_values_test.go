package c12

import (
	"encoding/json"
	"fmt"
	"sync"
	"testing"
	"time"

	fpgo "github.com/TeaEntityLab/fpGo/v2"
	"pgregory.net/rapid"

	"verifharness/vlib"
)

// Part "message-values": "messages sent to one Actor are each processed exactly once ... in the order in
// which any single sender submitted them" whatever the message is: the untyped nil of an
// Actor[interface{}], a nil pointer, a zero value, and an Ask request whose asker has meanwhile given up
// (AskOnceWithTimeout expired while the request was still waiting in the mailbox) are messages like any
// other. One sender; the first message keeps the actor busy until everything has been sent.

// kinds: 0 int, 1 untyped nil, 2 nil *int, 3 zero int, 4 ask with an expiring timeout, 5 ask via AskChannel (never read)
type valuesCase struct {
	Cap   int   `json:"cap"`
	Kinds []int `json:"kinds"`
}

func (c valuesCase) String() string { b, _ := json.Marshal(c); return string(b) }

func runValues(c valuesCase) (key, msg string, inconclusive bool) {
	var mu sync.Mutex
	var log []string
	gate := make(chan struct{})
	entered := make(chan struct{}, 1)
	effect := func(self *fpgo.ActorDef[interface{}], m interface{}) {
		tag := ""
		switch v := m.(type) {
		case nil:
			tag = "nil"
		case string:
			tag = v
			if v == "gate" {
				entered <- struct{}{}
				<-gate
			}
		case int:
			tag = fmt.Sprintf("int:%d", v)
		case *int:
			tag = fmt.Sprintf("*int:%v", v == nil)
		case *fpgo.AskDef[int, int]:
			tag = fmt.Sprintf("ask:%d", v.Message)
			if v.Message < 2000 { // requests >= 2000 were made with AskChannel and nobody reads their channel
				v.Reply(v.Message)
			}
		default:
			tag = fmt.Sprintf("?%T", m)
		}
		mu.Lock()
		log = append(log, tag)
		mu.Unlock()
	}
	actor := fpgo.ActorNewByOptionsGenerics(effect, make(chan interface{}, c.Cap), map[string]interface{}{})
	defer actor.Close()
	released := false
	defer func() {
		if !released {
			close(gate)
		}
	}()
	want := []string{"gate"}
	actor.Send("gate")
	select {
	case <-entered:
	case <-time.After(vlib.StallBudget()):
		return "", "", true
	}
	p, st := vlib.Try(func() {
		for i, k := range c.Kinds {
			switch k {
			case 0:
				actor.Send(i + 1)
				want = append(want, fmt.Sprintf("int:%d", i+1))
			case 1:
				actor.Send(nil)
				want = append(want, "nil")
			case 2:
				actor.Send((*int)(nil))
				want = append(want, "*int:true")
			case 3:
				actor.Send(0)
				want = append(want, "int:0")
			case 4:
				// the asker gives up after 300us; its request stays in the mailbox
				fpgo.AskNewGenerics[int, int](1000+i).AskOnceWithTimeout(actor, 300*time.Microsecond)
				want = append(want, fmt.Sprintf("ask:%d", 1000+i))
			case 5:
				fpgo.AskNewGenerics[int, int](2000 + i).AskChannel(actor)
				want = append(want, fmt.Sprintf("ask:%d", 2000+i))
			}
		}
	})
	if p != nil {
		return "C12/message-values/panic", fmt.Sprintf("%v\n%s", p, st), false
	}
	released = true
	close(gate)
	vlib.WaitUntil(vlib.StallBudget(), func() bool { mu.Lock(); defer mu.Unlock(); return len(log) >= len(want) })
	time.Sleep(200 * time.Microsecond)
	mu.Lock()
	defer mu.Unlock()
	if fmt.Sprint(log) != fmt.Sprint(want) {
		return "C12/message-values", fmt.Sprintf("one sender sent %v; the effect processed %v", want, log), false
	}
	return "", "", false
}

func TestMessageValues(t *testing.T) {
	if vlib.Replaying() {
		raw := vlib.ReplayCase("C12/values")
		if raw == nil {
			return
		}
		var c valuesCase
		if err := json.Unmarshal(raw, &c); err != nil {
			t.Fatal(err)
		}
		if key, msg, _ := runValues(c); key != "" {
			t.Fatalf("[key=%s] %s", key, msg)
		}
		return
	}
	vlib.Check(t, "message-values", 300, 5000, func(t *rapid.T) {
		c := valuesCase{Kinds: rapid.SliceOfN(rapid.IntRange(0, 5), 1, 6).Draw(t, "kinds")}
		// the mailbox buffers everything that is sent while the actor is busy
		c.Cap = len(c.Kinds) + rapid.IntRange(0, 2).Draw(t, "slack")
		vlib.S().Eval("message-values")
		unusual := false
		for _, k := range c.Kinds {
			if k != 0 {
				unusual = true
			}
		}
		key, msg, inc := runValues(c)
		if inc {
			return
		}
		if unusual {
			vlib.S().NonTrivial("message-values", c.String())
		}
		if key != "" {
			vlib.WriteReplay("C12/values", c)
			if vlib.Fail(t, key, "%v: %s", c, msg) {
				t.Skip("known")
			}
		}
	})
}
