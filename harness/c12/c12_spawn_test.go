package c12

import (
	"encoding/json"
	"fmt"
	"sync"
	"testing"
	"time"

	fpgo "github.com/TeaEntityLab/fpGo/v2"
	"pgregory.net/rapid"

	"verifharness/vlib"
)

// Part "spawn-in-effect": children are spawned where actors usually spawn them - inside the
// parent's effect, several back-to-back - before and after the parent's Close:
//   - every child spawned while the parent was open is registered: GetParent() is the parent,
//     parent.GetChild(child.GetID()) is that very child (so ids of siblings are distinct), and a
//     message routed through the registry lands in that child's mailbox and nowhere else;
//   - a child spawned after Close has returned (the effect is still working through the messages
//     that were queued before the Close) is NOT registered: GetParent() is nil and the parent's
//     registry does not know it; it is an independent, working mailbox all the same.

type spawnMsg struct {
	ID    int  `json:"id"`
	Burst int  `json:"burst"` // children spawned back-to-back by this message
	Gate  bool `json:"-"`
}

type spawnCase struct {
	Cap     int   `json:"cap"`     // -1: Actor.New (unbuffered), >= 0: NewByOptions with that capacity
	Open    []int `json:"open"`    // bursts of the messages processed while the parent is open
	Backlog []int `json:"backlog"` // bursts of the messages that are in flight / queued when Close is called (len <= cap+1)
	Method  bool  `json:"method"`  // constructors via the Actor utility value
}

func (c spawnCase) String() string { b, _ := json.Marshal(c); return string(b) }

type spawned struct {
	a     *fpgo.ActorDef[interface{}]
	msg   int
	late  bool // spawned after Close returned
	inbox []int
}

func runSpawn(c spawnCase) (key, msg string, nontrivial bool) {
	var mu sync.Mutex
	var kids []*spawned
	entered := make(chan struct{}, 1)
	gate := make(chan struct{})
	processed := make(chan int, 64)
	closedNow := false // written by the harness before the gate opens, read by the effect afterwards
	effect := func(self *fpgo.ActorDef[interface{}], m interface{}) {
		sm := m.(spawnMsg)
		if sm.Gate {
			entered <- struct{}{}
			<-gate
		}
		batch := make([]*fpgo.ActorDef[interface{}], 0, sm.Burst)
		recs := make([]*spawned, sm.Burst)
		for i := range recs {
			recs[i] = &spawned{msg: sm.ID}
		}
		for i := 0; i < sm.Burst; i++ {
			r := recs[i]
			batch = append(batch, self.Spawn(func(_ *fpgo.ActorDef[interface{}], v interface{}) {
				mu.Lock()
				r.inbox = append(r.inbox, v.(int))
				mu.Unlock()
			}))
		}
		mu.Lock()
		for i, a := range batch {
			recs[i].a = a
			recs[i].late = closedNow
			kids = append(kids, recs[i])
		}
		mu.Unlock()
		processed <- sm.ID
	}
	var parent *fpgo.ActorDef[interface{}]
	switch {
	case c.Cap < 0 && c.Method:
		parent = fpgo.Actor.New(effect)
	case c.Cap < 0:
		parent = fpgo.ActorNewGenerics(effect)
	case c.Method:
		parent = fpgo.Actor.NewByOptions(effect, make(chan interface{}, c.Cap), map[string]interface{}{})
	default:
		parent = fpgo.ActorNewByOptionsGenerics(effect, make(chan interface{}, c.Cap), map[string]interface{}{})
	}
	parentClosed := false
	defer func() {
		if !parentClosed {
			parent.Close()
		}
		mu.Lock()
		for _, k := range kids {
			if k.a != nil {
				k.a.Close()
			}
		}
		mu.Unlock()
	}()
	waitProcessed := func(n int) bool {
		tm := time.After(vlib.StallBudget())
		for i := 0; i < n; i++ {
			select {
			case <-processed:
			case <-tm:
				return false
			}
		}
		return true
	}
	id := 0
	p, st := vlib.Try(func() {
		for _, b := range c.Open {
			parent.Send(spawnMsg{ID: id, Burst: b})
			id++
		}
	})
	if p != nil {
		return "C12/spawn/panic", fmt.Sprintf("%v\n%s", p, st), false
	}
	if !waitProcessed(len(c.Open)) {
		return "C12/spawn/stall", "messages sent to an open actor were not processed:\n" + vlib.AllStacks(), false
	}
	if len(c.Backlog) > 0 {
		p, st = vlib.Try(func() {
			for i, b := range c.Backlog {
				parent.Send(spawnMsg{ID: id, Burst: b, Gate: i == 0})
				id++
				if i == 0 {
					<-entered
				}
			}
			parent.Close()
			parentClosed = true
			mu.Lock()
			closedNow = true
			mu.Unlock()
			close(gate)
		})
		if p != nil {
			return "C12/spawn/panic", fmt.Sprintf("%v\n%s", p, st), false
		}
		if !waitProcessed(len(c.Backlog)) {
			return "C12/spawn/stall", "messages queued before Close were not processed after it:\n" + vlib.AllStacks(), false
		}
	}
	mu.Lock()
	all := append([]*spawned(nil), kids...)
	mu.Unlock()
	seen := map[time.Time]int{}
	nReg, nLate := 0, 0
	for i, k := range all {
		if k.a == nil {
			return "C12/spawn/nil", fmt.Sprintf("Spawn returned nil (child %d of message %d)", i, k.msg), false
		}
		if j, dup := seen[k.a.GetID()]; dup {
			if !k.late && !all[j].late {
				return "C12/spawn/registry", fmt.Sprintf("children %d and %d of one parent have the same id %v: only one of them can be found with GetChild", j, i, k.a.GetID()), false
			}
		}
		seen[k.a.GetID()] = i
	}
	for i, k := range all {
		if k.late {
			nLate++
			if k.a.GetParent() != nil {
				return "C12/spawn/registered-after-close", fmt.Sprintf("child %d was spawned (by message %d) after the parent's Close had returned, but GetParent() is set", i, k.msg), false
			}
			if parent.GetChild(k.a.GetID()) == k.a {
				return "C12/spawn/registered-after-close", fmt.Sprintf("child %d was spawned (by message %d) after the parent's Close had returned, but the parent's registry holds it", i, k.msg), false
			}
			continue
		}
		nReg++
		if k.a.GetParent() != parent {
			return "C12/spawn/registry", fmt.Sprintf("child %d (message %d, parent open): GetParent() is not the spawning actor", i, k.msg), false
		}
		if got := parent.GetChild(k.a.GetID()); got != k.a {
			which := "nil"
			for j, o := range all {
				if o.a == got {
					which = fmt.Sprintf("child %d", j)
				}
			}
			return "C12/spawn/registry", fmt.Sprintf("child %d (message %d, parent open): parent.GetChild(child.GetID()) returns %s", i, k.msg, which), false
		}
	}
	// independent mailboxes: route one message to every child (through the registry where registered)
	p, st = vlib.Try(func() {
		for i, k := range all {
			if k.late {
				k.a.Send(i)
			} else {
				parent.GetChild(k.a.GetID()).Send(i)
			}
		}
	})
	if p != nil {
		return "C12/spawn/panic", fmt.Sprintf("%v\n%s", p, st), false
	}
	ok := vlib.WaitUntil(vlib.StallBudget(), func() bool {
		mu.Lock()
		defer mu.Unlock()
		for _, k := range all {
			if len(k.inbox) < 1 {
				return false
			}
		}
		return true
	})
	mu.Lock()
	defer mu.Unlock()
	for i, k := range all {
		if len(k.inbox) != 1 || k.inbox[0] != i {
			return "C12/spawn/routing", fmt.Sprintf("child %d was sent exactly the message %d, its mailbox processed %v (all delivered: %v)", i, i, k.inbox, ok), false
		}
	}
	return "", "", nReg >= 2 || nLate >= 1
}

var spawnDirected = []spawnCase{
	{Cap: -1, Open: []int{64}},
	{Cap: 3, Open: []int{2}, Backlog: []int{1, 2, 1, 1}},
	{Cap: 2, Open: nil, Backlog: []int{0, 1, 1}, Method: true},
	{Cap: 0, Open: []int{1, 1}, Backlog: []int{3}},
}

func TestSpawnRegress(t *testing.T) {
	if vlib.Replaying() {
		t.Skip()
	}
	for _, c := range spawnDirected {
		vlib.S().Eval("spawn-in-effect")
		key, msg, nt := runSpawn(c)
		if nt {
			vlib.S().NonTrivial("spawn-in-effect", c.String())
		}
		if key != "" {
			vlib.WriteReplay("C12/spawn", c)
			vlib.Fail(t, key, "%v: %s", c, msg)
		}
	}
}

func TestSpawnReplay(t *testing.T) {
	raw := vlib.ReplayCase("C12/spawn")
	if raw == nil {
		t.Skip("no replay case")
	}
	var c spawnCase
	if err := json.Unmarshal(raw, &c); err != nil {
		t.Fatal(err)
	}
	for i := 0; i < 50; i++ {
		if key, msg, _ := runSpawn(c); key != "" {
			t.Fatalf("[key=%s] %s", key, msg)
		}
	}
}

func TestSpawnInEffect(t *testing.T) {
	if vlib.Replaying() {
		t.Skip()
	}
	vlib.Check(t, "spawn-in-effect", 600, 8000, func(t *rapid.T) {
		c := spawnCase{Cap: rapid.IntRange(-1, 4).Draw(t, "cap"), Method: rapid.Bool().Draw(t, "method")}
		burst := rapid.OneOf(rapid.IntRange(0, 4), rapid.IntRange(0, 4), rapid.IntRange(16, 96))
		c.Open = rapid.SliceOfN(burst, 0, 3).Draw(t, "open")
		maxBacklog := 1
		if c.Cap > 0 {
			maxBacklog = c.Cap + 1
		}
		c.Backlog = rapid.SliceOfN(rapid.IntRange(0, 3), 0, maxBacklog).Draw(t, "backlog")
		vlib.S().Eval("spawn-in-effect")
		key, msg, nt := runSpawn(c)
		if nt {
			vlib.S().NonTrivial("spawn-in-effect", c.String())
		}
		if len(c.Backlog) > 1 {
			vlib.S().Class("spawn/backlog-at-close")
		}
		if key != "" {
			vlib.WriteReplay("C12/spawn", c)
			if vlib.Fail(t, key, "%v: %s", c, msg) {
				t.Skip("known")
			}
		}
	})
}
