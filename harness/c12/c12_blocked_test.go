package c12

import (
	"encoding/json"
	"fmt"
	"strings"
	"sync"
	"sync/atomic"
	"testing"
	"time"

	fpgo "github.com/TeaEntityLab/fpGo/v2"
	"pgregory.net/rapid"

	"verifharness/vlib"
)

// Part "blocked-at-close": the mailbox is busy (its first message waits on a gate), Cap further
// submissions are buffered and Extra more senders are blocked inside Send/Post when Close() is
// called; then the gate opens. Whatever happens to the blocked submissions (they were made before
// Close returned: processed or dropped, both fine), the mailbox stays a mailbox: work runs one at a
// time, on the mailbox's own goroutine, each message at most once, and the buffered ones exactly once.

type blockedCase struct {
	Kind  string `json:"kind"` // actor | handler
	Cap   int    `json:"cap"`
	Extra int    `json:"extra"`
	Work  int    `json:"work"`
}

func (c blockedCase) String() string { b, _ := json.Marshal(c); return string(b) }

// blockedSender is the body of the senders (its name is looked up in goroutine dumps).
func blockedSender(send func(int), v int, wg *sync.WaitGroup) {
	defer wg.Done()
	send(v)
}

func sendersParked(n int) bool {
	k := 0
	for _, g := range strings.Split(vlib.AllStacks(), "\n\n") {
		if strings.Contains(g, "c12.blockedSender") {
			hdr := g
			if i := strings.Index(g, "\n"); i >= 0 {
				hdr = g[:i]
			}
			if strings.Contains(hdr, "[chan send") {
				k++
			}
		}
	}
	return k >= n
}

func runBlocked(c blockedCase) (key, msg string, inconclusive bool) {
	var mu sync.Mutex
	runs := map[int]int{}
	gids := map[uint64]int{}
	var in, maxIn int32
	gate := make(chan struct{})
	entered := make(chan struct{}, 1)
	body := func(v int) {
		n := atomic.AddInt32(&in, 1)
		for {
			m := atomic.LoadInt32(&maxIn)
			if n <= m || atomic.CompareAndSwapInt32(&maxIn, m, n) {
				break
			}
		}
		g := vlib.GoID()
		mu.Lock()
		runs[v]++
		gids[g]++
		mu.Unlock()
		if v == 0 {
			entered <- struct{}{}
			<-gate
		}
		for i := 0; i < c.Work; i++ {
			time.Sleep(20 * time.Microsecond)
		}
		atomic.AddInt32(&in, -1)
	}
	var send func(int)
	var closeFn func()
	var wrongSelf int32
	if c.Kind == "actor" {
		var a *fpgo.ActorDef[int]
		a = fpgo.ActorNewByOptionsGenerics(func(self *fpgo.ActorDef[int], v int) {
			if self != a {
				atomic.AddInt32(&wrongSelf, 1)
			}
			body(v)
		}, make(chan int, c.Cap), map[string]interface{}{})
		send, closeFn = a.Send, a.Close
	} else {
		h := fpgo.Handler.NewByCh(make(chan func(), c.Cap))
		send, closeFn = func(v int) { h.Post(func() { body(v) }) }, h.Close
	}
	released := false
	defer func() {
		if !released {
			close(gate)
		}
	}()
	send(0)
	select {
	case <-entered:
	case <-time.After(vlib.StallBudget()):
		closeFn()
		return "", "", true
	}
	for v := 1; v <= c.Cap; v++ {
		send(v) // buffered: returns at once
	}
	var wg sync.WaitGroup
	for v := c.Cap + 1; v <= c.Cap+c.Extra; v++ {
		wg.Add(1)
		go blockedSender(send, v, &wg)
	}
	if !vlib.WaitUntil(vlib.StallBudget(), func() bool { return sendersParked(c.Extra) }) {
		closeFn()
		return "", "", true
	}
	// Close normally returns at once. A Close that waits for the busy mailbox is given the open gate
	// (nothing about the duration of Close is claimed); one that does not come back even then hangs.
	type closeResult struct {
		p  interface{}
		st string
	}
	closeDone := make(chan closeResult, 1)
	go func() {
		p, st := vlib.Try(closeFn)
		closeDone <- closeResult{p, st}
	}()
	var cr closeResult
	select {
	case cr = <-closeDone:
	case <-time.After(100 * time.Millisecond):
		released = true
		close(gate)
		select {
		case cr = <-closeDone:
		case <-time.After(vlib.StallBudget()):
			if verdict, dump := vlib.ClassifyStall([]string{"c12.runBlocked"}); verdict == "blocked" {
				return "C12/blocked-at-close/close-hangs", "Close() does not return although the mailbox is free to run:\n" + dump, false
			}
			return "", "", true
		}
	}
	if cr.p != nil {
		return "C12/blocked-at-close/panic", fmt.Sprintf("Close panicked: %v\n%s", cr.p, cr.st), false
	}
	// Close has returned: work submitted from now on is dropped without running
	var lateWG sync.WaitGroup
	for v := 1000; v < 1002; v++ {
		lateWG.Add(1)
		go blockedSender(send, v, &lateWG)
	}
	// the blocked senders must come back (their submission is dropped or was taken)
	back := make(chan struct{})
	go func() { wg.Wait(); close(back) }()
	select {
	case <-back:
	case <-time.After(vlib.StallBudget()):
		return "C12/blocked-at-close/sender-stuck", "senders blocked in Send/Post when Close was called never returned:\n" + vlib.AllStacks(), false
	}
	time.Sleep(200 * time.Microsecond) // anything running beside the parked mailbox shows up in the gauge now
	if !released {
		released = true
		close(gate)
	}
	ok := vlib.WaitUntil(vlib.StallBudget(), func() bool {
		if atomic.LoadInt32(&in) != 0 {
			return false
		}
		mu.Lock()
		defer mu.Unlock()
		for v := 0; v <= c.Cap; v++ {
			if runs[v] < 1 {
				return false
			}
		}
		return true
	})
	time.Sleep(300 * time.Microsecond)
	mu.Lock()
	defer mu.Unlock()
	if m := atomic.LoadInt32(&maxIn); m > 1 {
		return "C12/blocked-at-close/overlap", fmt.Sprintf("%d messages of one mailbox were being processed at the same time (runs %v)", m, runs), false
	}
	if len(gids) > 1 {
		return "C12/blocked-at-close/goroutine", fmt.Sprintf("messages of one mailbox were processed on %d different goroutines %v (runs %v)", len(gids), gids, runs), false
	}
	for v := 1000; v < 1002; v++ {
		if runs[v] > 0 {
			return "C12/ran-after-close", fmt.Sprintf("message %d was submitted after Close() had returned (the mailbox still had a backlog then) and was processed", v), false
		}
	}
	for v, n := range runs {
		if n > 1 {
			return "C12/blocked-at-close/twice", fmt.Sprintf("message %d processed %d times", v, n), false
		}
	}
	if !ok {
		return "C12/blocked-at-close/lost", fmt.Sprintf("messages 0..%d were accepted into the mailbox before Close, processed: %v", c.Cap, runs), false
	}
	if atomic.LoadInt32(&wrongSelf) != 0 {
		return "C12/blocked-at-close/self", "the effect did not receive its own actor", false
	}
	return "", "", false
}

func TestBlockedAtClose(t *testing.T) {
	if vlib.Replaying() {
		raw := vlib.ReplayCase("C12/blocked")
		if raw == nil {
			return
		}
		var c blockedCase
		if err := json.Unmarshal(raw, &c); err != nil {
			t.Fatal(err)
		}
		for i := 0; i < 30; i++ {
			if key, msg, _ := runBlocked(c); key != "" {
				t.Fatalf("[key=%s] %s", key, msg)
			}
		}
		return
	}
	vlib.Check(t, "blocked-at-close", 200, 3000, func(t *rapid.T) {
		c := blockedCase{Kind: rapid.SampledFrom([]string{"actor", "handler"}).Draw(t, "kind"), Cap: rapid.IntRange(0, 3).Draw(t, "cap"),
			Extra: rapid.IntRange(1, 5).Draw(t, "extra"), Work: rapid.IntRange(0, 2).Draw(t, "work")}
		vlib.S().Eval("blocked-at-close")
		key, msg, inc := runBlocked(c)
		if inc {
			vlib.S().Class("blocked-at-close/inconclusive")
			return
		}
		vlib.S().NonTrivial("blocked-at-close", c.String())
		if key != "" {
			vlib.WriteReplay("C12/blocked", c)
			if vlib.Fail(t, key, "%v: %s", c, msg) {
				t.Skip("known")
			}
		}
	})
}
