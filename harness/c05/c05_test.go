package c05

import (
	"encoding/json"
	"fmt"
	"os"
	"path/filepath"
	"sort"
	"strings"
	"testing"

	fpgo "github.com/TeaEntityLab/fpGo/v2"
	"pgregory.net/rapid"

	"verifharness/vlib"
)

func TestMain(m *testing.M) { vlib.Main(m) }

// ---------------------------------------------------------------- cases

// tcase is one operand tuple. A nil slice is a nil operand, an empty non-nil
// slice an empty operand (JSON: null / []). For the StreamSet part K1/K2 map a
// key to its stream (null = nil stream, [] = empty stream) and K2Nil makes the
// argument a nil set.
type tcase struct {
	Part  string        `json:"part"` // slices | streams | sets | ssets
	A     []int         `json:"a"`
	B     []int         `json:"b"`
	C     []int         `json:"c"`
	UseC  bool          `json:"usec,omitempty"`
	X     int           `json:"x"`
	K1    map[int][]int `json:"k1,omitempty"`
	K2    map[int][]int `json:"k2,omitempty"`
	K2Nil bool          `json:"k2nil,omitempty"`
	// Poison: before the case, the interface{} family is called with an element that cannot be a map key
	// (a slice) after a few ordinary ones; whatever those calls do (they may panic, the panic is recovered
	// and ignored), they must leave nothing behind that changes the answers of this case
	Poison bool `json:"poison,omitempty"`
}

// poison: see tcase.Poison.
func poison(prefix []int) {
	bad := append(toI(prefix), []int{1}, 3)
	calls := []func(){
		func() { fpgo.DistinctForInterface(bad...) },
		func() { fpgo.StreamForInterface.FromArray(bad).Distinct() },
		func() { fpgo.IntersectionForInterface(bad, bad) },
		func() { fpgo.MinusForInterface(bad, toI(prefix)) },
		func() { fpgo.MinusForInterface(toI(prefix), bad) },
		func() { fpgo.IsSubsetForInterface(bad, bad) },
		func() { fpgo.ExistsForInterface(3, bad...) },
		func() { fpgo.SliceToMapForInterface(true, bad...) },
		func() { fpgo.StreamForInterface.FromArray(bad).Intersection(fpgo.StreamForInterface.FromArray(bad)) },
		func() { fpgo.StreamForInterface.FromArray(bad).Minus(fpgo.StreamForInterface.FromArray(toI(prefix))) },
	}
	for _, f := range calls {
		vlib.Try(f)
	}
}

func showList(l []int) string {
	if l == nil {
		return "nil"
	}
	return fmt.Sprint(l)
}

func showSS(m map[int][]int, isNil bool) string {
	if isNil {
		return "nil"
	}
	var ks []int
	for k := range m {
		ks = append(ks, k)
	}
	sort.Ints(ks)
	parts := make([]string, len(ks))
	for i, k := range ks {
		parts[i] = fmt.Sprintf("%d:%s", k, showList(m[k]))
	}
	return "{" + strings.Join(parts, " ") + "}"
}

func (c tcase) String() string {
	switch c.Part {
	case "ssets":
		return fmt.Sprintf("ssets K1=%s K2=%s x=%d", showSS(c.K1, false), showSS(c.K2, c.K2Nil), c.X)
	}
	s := fmt.Sprintf("%s A=%s B=%s", c.Part, showList(c.A), showList(c.B))
	if c.UseC {
		s += " C=" + showList(c.C)
	}
	return s + fmt.Sprintf(" x=%d", c.X)
}

// ---------------------------------------------------------------- plain-Go reference (sets of ints)

type iset map[int]bool

func setOf(l []int) iset {
	s := iset{}
	for _, v := range l {
		s[v] = true
	}
	return s
}

func sortedKeys(s iset) []int {
	r := []int{}
	for k := range s {
		r = append(r, k)
	}
	sort.Ints(r)
	return r
}

func eqInts(a, b []int) bool {
	if len(a) != len(b) {
		return false
	}
	for i := range a {
		if a[i] != b[i] {
			return false
		}
	}
	return true
}

func hasDup(l []int) bool { return len(setOf(l)) != len(l) }

func sorted(l []int) []int {
	c := append([]int{}, l...)
	sort.Ints(c)
	return c
}

func refDistinct(a []int) []int {
	seen := iset{}
	r := []int{}
	for _, v := range a {
		if !seen[v] {
			seen[v] = true
			r = append(r, v)
		}
	}
	return r
}

// elements of a (all occurrences, order of a) that are in none of the others
func refWithout(a []int, others ...[]int) []int {
	r := []int{}
	for _, v := range a {
		in := false
		for _, o := range others {
			if setOf(o)[v] {
				in = true
			}
		}
		if !in {
			r = append(r, v)
		}
	}
	return r
}

// distinct elements of a (first-occurrence order) that are in all of the others
func refIntersect(a []int, others ...[]int) []int {
	r := []int{}
	for _, v := range refDistinct(a) {
		in := true
		for _, o := range others {
			if !setOf(o)[v] {
				in = false
			}
		}
		if in {
			r = append(r, v)
		}
	}
	return r
}

func refSubset(a, b []int) bool { return len(refWithout(a, b)) == 0 }

// ---------------------------------------------------------------- calling both twins

// ans is the normalised answer of one call: a panic, a bool, or an int list.
type ans struct {
	panicked bool
	isBool   bool
	b        bool
	seq      []int
	ss       map[int][]int // stream sets: key -> element sequence (nil == empty)
	isSS     bool
}

func (a ans) String() string {
	switch {
	case a.panicked:
		return "panic"
	case a.isBool:
		return fmt.Sprint(a.b)
	case a.isSS:
		return showSS(a.ss, false)
	}
	return fmt.Sprint(a.seq)
}

func callSeq(f func() []int) (a ans) {
	if p, _ := vlib.Try(func() { a.seq = append([]int{}, f()...) }); p != nil {
		return ans{panicked: true}
	}
	return a
}

func callBool(f func() bool) (a ans) {
	a.isBool = true
	if p, _ := vlib.Try(func() { a.b = f() }); p != nil {
		return ans{panicked: true}
	}
	return a
}

func callSS(f func() map[int][]int) (a ans) {
	a.isSS = true
	if p, _ := vlib.Try(func() { a.ss = f() }); p != nil {
		return ans{panicked: true}
	}
	return a
}

func toI(l []int) []interface{} {
	if l == nil {
		return nil
	}
	r := make([]interface{}, len(l))
	for i, v := range l {
		r[i] = v
	}
	return r
}

func fromI(l []interface{}) []int {
	r := make([]int, len(l))
	for i, v := range l {
		n, ok := v.(int)
		if !ok {
			n = -999
		}
		r[i] = n
	}
	return r
}

// sameAns compares twin answers: as sequences, or (asSet) as sets.
func sameAns(g, i ans, asSet bool) bool {
	if g.panicked || i.panicked {
		return g.panicked == i.panicked
	}
	if g.isBool {
		return g.b == i.b
	}
	if g.isSS {
		if len(g.ss) != len(i.ss) {
			return false
		}
		for k, v := range g.ss {
			v2, ok := i.ss[k]
			if !ok || !eqInts(v, v2) {
				return false
			}
		}
		return true
	}
	if asSet {
		return eqInts(sorted(g.seq), sorted(i.seq))
	}
	return eqInts(g.seq, i.seq)
}

// checker collects the first failure of a case.
type checker struct {
	c       tcase
	failKey string
	failMsg string
	classes map[string]int
}

func (k *checker) fail(key, f string, a ...any) {
	if k.failKey == "" {
		k.failKey = key
		k.failMsg = fmt.Sprintf(f, a...)
	}
}

// twin compares the generic and the interface{} answer of one cell.
func (k *checker) twin(cell string, g, i ans, asSet bool) {
	if g.panicked && i.panicked {
		k.classes["twin/both-panic"]++
	}
	if !sameAns(g, i, asSet) {
		k.fail("C05/"+cell+"/twin", "%s: generic answers %v, interface{} twin answers %v", cell, g, i)
	}
}

// law reports a violated set law for the given family.
func (k *checker) law(cell, fam string, ok bool, f string, a ...any) {
	if !ok {
		k.fail("C05/"+cell+"/law", "%s (%s): %s", cell, fam, fmt.Sprintf(f, a...))
	}
}

func nonEmpty(ls ...[]int) bool {
	for _, l := range ls {
		if len(l) == 0 {
			return false
		}
	}
	return true
}

// ---------------------------------------------------------------- part: slice functions

func (k *checker) slices() {
	c := k.c
	A, B, C, x := c.A, c.B, c.C, c.X
	both := func(cell string, asSet bool, g func() []int, i func() []int) (ans, ans) {
		ga, ia := callSeq(g), callSeq(i)
		k.twin(cell, ga, ia, asSet)
		return ga, ia
	}
	fams := func(g, i ans) []struct {
		n string
		a ans
	} {
		return []struct {
			n string
			a ans
		}{{"generic", g}, {"interface{}", i}}
	}

	// Distinct
	g, i := both("Distinct", false, func() []int { return fpgo.Distinct(A...) }, func() []int { return fromI(fpgo.DistinctForInterface(toI(A)...)) })
	if nonEmpty(A) {
		for _, f := range fams(g, i) {
			k.law("Distinct", f.n, !f.a.panicked && eqInts(f.a.seq, refDistinct(A)), "Distinct(%v) = %v, want %v", A, f.a, refDistinct(A))
		}
		gr := callSeq(func() []int { return fpgo.DistinctRandom(A...) })
		k.law("DistinctRandom", "generic", !gr.panicked && !hasDup(gr.seq) && eqInts(sorted(gr.seq), sortedKeys(setOf(A))), "DistinctRandom(%v) = %v", A, gr)
	}
	// Exists
	gb, ib := callBool(func() bool { return fpgo.Exists(x, A...) }), callBool(func() bool { return fpgo.ExistsForInterface(x, toI(A)...) })
	k.twin("Exists", gb, ib, false)
	if nonEmpty(A) {
		k.law("Exists", "generic", !gb.panicked && gb.b == setOf(A)[x], "Exists(%d, %v) = %v", x, A, gb)
		k.law("Exists", "interface{}", !ib.panicked && ib.b == setOf(A)[x], "ExistsForInterface(%d, %v) = %v", x, A, ib)
	}

	lists := [][]int{A, B}
	if c.UseC {
		lists = append(lists, C)
	}
	ilists := make([][]interface{}, len(lists))
	for j, l := range lists {
		ilists[j] = toI(l)
	}
	others := lists[1:]
	allNonEmpty := nonEmpty(lists...)

	// Intersection (order of the first operand, no duplicates)
	g, i = both("Intersection", false, func() []int { return fpgo.Intersection(lists...) }, func() []int { return fromI(fpgo.IntersectionForInterface(ilists...)) })
	if allNonEmpty {
		want := refIntersect(A, others...)
		for _, f := range fams(g, i) {
			k.law("Intersection", f.n, !f.a.panicked && eqInts(f.a.seq, want), "Intersection(%v) = %v, want %v", lists, f.a, want)
		}
	}
	// the variadic functions with ONE operand: the intersection / union / difference of a single list is
	// that list as a set (order of the list), and the twins agree
	g1, i1 := both("Intersection", false, func() []int { return fpgo.Intersection(A) }, func() []int { return fromI(fpgo.IntersectionForInterface(toI(A))) })
	if nonEmpty(A) {
		for _, f := range fams(g1, i1) {
			k.law("Intersection", f.n, !f.a.panicked && eqInts(f.a.seq, refDistinct(A)), "Intersection(%v) with a single operand = %v, want the set %v", A, f.a, refDistinct(A))
		}
		for name, fn := range map[string]func() []int{"Union": func() []int { return fpgo.Union(A) }, "Difference": func() []int { return fpgo.Difference(A) }} {
			r := callSeq(fn)
			k.law(name, "generic", !r.panicked && !hasDup(r.seq) && eqInts(sorted(r.seq), sortedKeys(setOf(A))), "%s(%v) with a single operand = %v, want the set of its elements", name, A, r)
		}
	}
	// Difference (generic only): first set without the elements of the others, as a set, order of the first
	gd := callSeq(func() []int { return fpgo.Difference(lists...) })
	if allNonEmpty {
		want := refDistinct(refWithout(A, others...))
		k.law("Difference", "generic", !gd.panicked && eqInts(gd.seq, want), "Difference(%v) = %v, want %v", lists, gd, want)
	}
	// Union (generic only): a set
	gu := callSeq(func() []int { return fpgo.Union(lists...) })
	if allNonEmpty {
		all := []int{}
		for _, l := range lists {
			all = append(all, l...)
		}
		k.law("Union", "generic", !gu.panicked && !hasDup(gu.seq) && eqInts(sorted(gu.seq), sortedKeys(setOf(all))), "Union(%v) = %v, want the set %v", lists, gu, sortedKeys(setOf(all)))
	}
	// Minus (two operands; all of set1 but not in set2, order of set1)
	g, i = both("Minus", false, func() []int { return fpgo.Minus(A, B) }, func() []int { return fromI(fpgo.MinusForInterface(toI(A), toI(B))) })
	if nonEmpty(A, B) {
		want := refWithout(A, B)
		for _, f := range fams(g, i) {
			k.law("Minus", f.n, !f.a.panicked && eqInts(f.a.seq, want), "Minus(%v, %v) = %v, want %v", A, B, f.a, want)
		}
		// derived: A = (A minus B) union (A intersect B), as sets
		re := callSeq(func() []int { return fpgo.Union(fpgo.Minus(A, B), fpgo.Intersection(A, B)) })
		k.law("Minus+Intersection+Union", "generic", !re.panicked && eqInts(sorted(re.seq), sortedKeys(setOf(A))), "Union(Minus(A,B), Intersection(A,B)) = %v, want the set of A=%v (B=%v)", re, A, B)
	}
	// IsSubset / IsSuperset
	gb, ib = callBool(func() bool { return fpgo.IsSubset(A, B) }), callBool(func() bool { return fpgo.IsSubsetForInterface(toI(A), toI(B)) })
	k.twin("IsSubset", gb, ib, false)
	if nonEmpty(A, B) {
		k.law("IsSubset", "generic", !gb.panicked && gb.b == refSubset(A, B), "IsSubset(%v, %v) = %v", A, B, gb)
		k.law("IsSubset", "interface{}", !ib.panicked && ib.b == refSubset(A, B), "IsSubsetForInterface(%v, %v) = %v", A, B, ib)
		// derived: subset <=> empty difference
		d := callSeq(func() []int { return fpgo.Difference(A, B) })
		k.law("IsSubset<=>Difference", "generic", !d.panicked && (len(d.seq) == 0) == gb.b, "IsSubset(%v,%v)=%v but Difference=%v", A, B, gb, d)
	}
	gb, ib = callBool(func() bool { return fpgo.IsSuperset(A, B) }), callBool(func() bool { return fpgo.IsSupersetForInterface(toI(A), toI(B)) })
	k.twin("IsSuperset", gb, ib, false)
	if nonEmpty(A, B) {
		k.law("IsSuperset", "generic", !gb.panicked && gb.b == refSubset(B, A), "IsSuperset(%v, %v) = %v", A, B, gb)
		k.law("IsSuperset", "interface{}", !ib.panicked && ib.b == refSubset(B, A), "IsSupersetForInterface(%v, %v) = %v", A, B, ib)
	}

	// ...MapByKey functions: maps with the keys of A / B (values: position)
	mk := func(l []int) map[int]int {
		if l == nil {
			return nil
		}
		m := map[int]int{}
		for j, v := range l {
			m[v] = j
		}
		return m
	}
	mki := func(l []int) map[interface{}]int {
		if l == nil {
			return nil
		}
		m := map[interface{}]int{}
		for j, v := range l {
			m[v] = j
		}
		return m
	}
	keysG := func(m map[int]int) []int { return sorted(fpgo.Keys(m)) }
	keysI := func(m map[interface{}]int) []int { return sorted(fromI(fpgo.KeysForInterface(m))) }
	mA, mB, iA, iB := mk(A), mk(B), mki(A), mki(B)
	// IntersectionMapByKey is variadic: two or three operands (C), in every order of the operands - the
	// key set of an intersection does not depend on the order
	{
		ops := [][]int{A, B}
		if c.UseC {
			ops = append(ops, C)
		}
		orders := [][]int{{0, 1}, {1, 0}}
		if len(ops) == 3 {
			orders = [][]int{{0, 1, 2}, {0, 2, 1}, {1, 0, 2}, {1, 2, 0}, {2, 0, 1}, {2, 1, 0}}
		}
		for _, ord := range orders {
			var gs []map[int]int
			var is []map[interface{}]int
			var shown [][]int
			for _, o := range ord {
				gs, is, shown = append(gs, mk(ops[o])), append(is, mki(ops[o])), append(shown, ops[o])
			}
			g, i = both("IntersectionMapByKey", true, func() []int { return keysG(fpgo.IntersectionMapByKey(gs...)) }, func() []int { return keysI(fpgo.IntersectionMapByKeyForInterface(is...)) })
			if nonEmpty(ops...) {
				want := sorted(refIntersect(ops[0], ops[1:]...))
				for _, f := range fams(g, i) {
					k.law("IntersectionMapByKey", f.n, !f.a.panicked && eqInts(f.a.seq, want), "IntersectionMapByKey(maps with the keys %v) has keys %v, want %v", shown, f.a, want)
				}
			}
		}
	}
	g, i = both("Merge", true, func() []int { return keysG(fpgo.Merge(mA, mB)) }, func() []int { return keysI(fpgo.MergeForInterface(iA, iB)) })
	if nonEmpty(A, B) {
		want := sortedKeys(setOf(append(append([]int{}, A...), B...)))
		for _, f := range fams(g, i) {
			k.law("Merge", f.n, !f.a.panicked && eqInts(f.a.seq, want), "Merge(keys %v, keys %v) has keys %v, want %v", A, B, f.a, want)
		}
	}
	gm := callSeq(func() []int { return keysG(fpgo.MinusMapByKey(mA, mB)) })
	if nonEmpty(A, B) {
		want := sortedKeys(setOf(refWithout(A, B)))
		k.law("MinusMapByKey", "generic", !gm.panicked && eqInts(gm.seq, want), "MinusMapByKey(keys %v, keys %v) has keys %v, want %v", A, B, gm, want)
	}
	gb, ib = callBool(func() bool { return fpgo.IsSubsetMapByKey(mA, mB) }), callBool(func() bool { return fpgo.IsSubsetMapByKeyForInterface(iA, iB) })
	k.twin("IsSubsetMapByKey", gb, ib, false)
	if nonEmpty(A, B) {
		k.law("IsSubsetMapByKey", "generic", !gb.panicked && gb.b == refSubset(A, B), "IsSubsetMapByKey(keys %v, keys %v) = %v", A, B, gb)
		k.law("IsSubsetMapByKey", "interface{}", !ib.panicked && ib.b == refSubset(A, B), "IsSubsetMapByKeyForInterface(keys %v, keys %v) = %v", A, B, ib)
	}
	gb, ib = callBool(func() bool { return fpgo.IsSupersetMapByKey(mA, mB) }), callBool(func() bool { return fpgo.IsSupersetMapByKeyForInterface(iA, iB) })
	k.twin("IsSupersetMapByKey", gb, ib, false)
	if nonEmpty(A, B) {
		k.law("IsSupersetMapByKey", "generic", !gb.panicked && gb.b == refSubset(B, A), "IsSupersetMapByKey(keys %v, keys %v) = %v", A, B, gb)
		k.law("IsSupersetMapByKey", "interface{}", !ib.panicked && ib.b == refSubset(B, A), "IsSupersetMapByKeyForInterface(keys %v, keys %v) = %v", A, B, ib)
	}
}

// ---------------------------------------------------------------- part: Stream methods

func gStream(l []int) *fpgo.StreamDef[int] {
	if l == nil {
		return new(fpgo.StreamDef[int]) // receiver holding a nil slice
	}
	return fpgo.StreamFromArray(append([]int{}, l...))
}

func iStream(l []int) *fpgo.StreamForInterfaceDef {
	if l == nil {
		return new(fpgo.StreamForInterfaceDef)
	}
	return fpgo.StreamForInterface.FromArray(toI(append([]int{}, l...)))
}

func (k *checker) streams() {
	c := k.c
	A, B, x := c.A, c.B, c.X
	gA, iA := gStream(A), iStream(A)
	// the argument: nil operand = nil pointer
	var gB *fpgo.StreamDef[int]
	var iB *fpgo.StreamForInterfaceDef
	if B != nil {
		gB, iB = gStream(B), iStream(B)
	}
	type fam struct {
		n string
		a ans
	}
	seqCell := func(cell string, asSet bool, g func() []int, i func() []int, law func(f fam)) {
		ga, ia := callSeq(g), callSeq(i)
		k.twin("Stream."+cell, ga, ia, asSet)
		if law != nil {
			law(fam{"generic", ga})
			law(fam{"interface{}", ia})
		}
	}
	boolCell := func(cell string, g func() bool, i func() bool, law func(f fam)) {
		ga, ia := callBool(g), callBool(i)
		k.twin("Stream."+cell, ga, ia, false)
		if law != nil {
			law(fam{"generic", ga})
			law(fam{"interface{}", ia})
		}
	}
	ne := nonEmpty(A, B)
	seqCell("Distinct", false, func() []int { return gA.Distinct().ToArray() }, func() []int { return fromI(iA.Distinct().ToArray()) }, func(f fam) {
		if nonEmpty(A) {
			k.law("Stream.Distinct", f.n, !f.a.panicked && eqInts(f.a.seq, refDistinct(A)), "%v.Distinct() = %v", A, f.a)
		}
	})
	boolCell("Contains", func() bool { return gA.Contains(x) }, func() bool { return iA.Contains(x) }, func(f fam) {
		if nonEmpty(A) {
			k.law("Stream.Contains", f.n, !f.a.panicked && f.a.b == setOf(A)[x], "%v.Contains(%d) = %v", A, x, f.a)
		}
	})
	seqCell("Intersection", false, func() []int { return gA.Intersection(gB).ToArray() }, func() []int { return fromI(iA.Intersection(iB).ToArray()) }, func(f fam) {
		if ne {
			k.law("Stream.Intersection", f.n, !f.a.panicked && eqInts(f.a.seq, refIntersect(A, B)), "%v.Intersection(%v) = %v, want %v", A, B, f.a, refIntersect(A, B))
		}
	})
	seqCell("Minus", false, func() []int { return gA.Minus(gB).ToArray() }, func() []int { return fromI(iA.Minus(iB).ToArray()) }, func(f fam) {
		if ne {
			k.law("Stream.Minus", f.n, !f.a.panicked && eqInts(f.a.seq, refWithout(A, B)), "%v.Minus(%v) = %v, want %v", A, B, f.a, refWithout(A, B))
		}
	})
	seqCell("RemoveItem", false, func() []int { return gA.RemoveItem(B...).ToArray() }, func() []int { return fromI(iA.RemoveItem(toI(B)...).ToArray()) }, func(f fam) {
		if ne {
			k.law("Stream.RemoveItem", f.n, !f.a.panicked && eqInts(f.a.seq, refWithout(A, B)), "%v.RemoveItem(%v...) = %v, want %v", A, B, f.a, refWithout(A, B))
		}
	})
	// union the way the repo's tests spell it: Extend(...).Distinct()
	seqCell("Extend.Distinct", false, func() []int { return gA.Extend(gB).Distinct().ToArray() }, func() []int { return fromI(iA.Extend(iB).Distinct().ToArray()) }, func(f fam) {
		if ne {
			want := refDistinct(append(append([]int{}, A...), B...))
			k.law("Stream.Extend.Distinct", f.n, !f.a.panicked && eqInts(f.a.seq, want), "%v.Extend(%v).Distinct() = %v, want %v", A, B, f.a, want)
		}
	})
	boolCell("IsSubset", func() bool { return gA.IsSubset(gB) }, func() bool { return iA.IsSubset(iB) }, func(f fam) {
		if ne {
			k.law("Stream.IsSubset", f.n, !f.a.panicked && f.a.b == refSubset(A, B), "%v.IsSubset(%v) = %v", A, B, f.a)
		}
	})
	boolCell("IsSuperset", func() bool { return gA.IsSuperset(gB) }, func() bool { return iA.IsSuperset(iB) }, func(f fam) {
		if ne {
			k.law("Stream.IsSuperset", f.n, !f.a.panicked && f.a.b == refSubset(B, A), "%v.IsSuperset(%v) = %v", A, B, f.a)
		}
	})
	if ne {
		// derived laws through the methods (generic family): subset <=> empty Minus; A = (A-B) u (A n B)
		d := callBool(func() bool { return (gA.Minus(gB).Len() == 0) == gA.IsSubset(gB) })
		k.law("Stream.IsSubset<=>Minus", "generic", !d.panicked && d.b, "A=%v B=%v: IsSubset and Minus(...).Len()==0 disagree", A, B)
		r := callSeq(func() []int { return gA.Minus(gB).Extend(gA.Intersection(gB)).Distinct().ToArray() })
		k.law("Stream.Minus+Intersection", "generic", !r.panicked && eqInts(sorted(r.seq), sortedKeys(setOf(A))), "(A-B)+(A n B) = %v, want the set of A=%v (B=%v)", r, A, B)
	}
}

// ---------------------------------------------------------------- part: MapSet methods (by key)

func (k *checker) sets() {
	c := k.c
	A, B, x := c.A, c.B, c.X
	var gA *fpgo.MapSetDef[int, int]
	var iA *fpgo.SetForInterfaceDef
	if A == nil {
		gA, iA = new(fpgo.MapSetDef[int, int]), new(fpgo.SetForInterfaceDef) // receiver holding a nil map
	} else {
		gA, iA = fpgo.SetFromArray[int, int](append([]int{}, A...)), fpgo.SetForInterfaceFromArray(toI(A))
	}
	var gB fpgo.SetDef[int, int] // nil operand = nil interface / nil pointer
	var iB *fpgo.SetForInterfaceDef
	if B != nil {
		gB, iB = fpgo.SetFromArray[int, int](append([]int{}, B...)), fpgo.SetForInterfaceFromArray(toI(B))
	}
	type fam struct {
		n string
		a ans
	}
	ne := nonEmpty(A, B)
	keyCell := func(cell string, g func() fpgo.SetDef[int, int], i func() *fpgo.SetForInterfaceDef, want func() []int) {
		ga := callSeq(func() []int { return sorted(g().Keys()) })
		ia := callSeq(func() []int { return sorted(fromI(i().Keys())) })
		k.twin("MapSet."+cell, ga, ia, true)
		if ne && want != nil {
			w := want()
			for _, f := range []fam{{"generic", ga}, {"interface{}", ia}} {
				k.law("MapSet."+cell, f.n, !f.a.panicked && eqInts(f.a.seq, w), "keys %v %s keys %v has keys %v, want %v", A, cell, B, f.a, w)
			}
		}
	}
	boolCell := func(cell string, g func() bool, i func() bool, want func() bool) {
		ga, ia := callBool(g), callBool(i)
		k.twin("MapSet."+cell, ga, ia, false)
		if ne && want != nil {
			for _, f := range []fam{{"generic", ga}, {"interface{}", ia}} {
				k.law("MapSet."+cell, f.n, !f.a.panicked && f.a.b == want(), "keys %v %s keys %v = %v", A, cell, B, f.a)
			}
		}
	}
	keyCell("Union", func() fpgo.SetDef[int, int] { return gA.Union(gB) }, func() *fpgo.SetForInterfaceDef { return iA.Union(iB) },
		func() []int { return sortedKeys(setOf(append(append([]int{}, A...), B...))) })
	keyCell("Intersection", func() fpgo.SetDef[int, int] { return gA.Intersection(gB) }, func() *fpgo.SetForInterfaceDef { return iA.Intersection(iB) },
		func() []int { return sorted(refIntersect(A, B)) })
	keyCell("Minus", func() fpgo.SetDef[int, int] { return gA.Minus(gB) }, func() *fpgo.SetForInterfaceDef { return iA.Minus(iB) },
		func() []int { return sortedKeys(setOf(refWithout(A, B))) })
	keyCell("Add", func() fpgo.SetDef[int, int] { return gA.Add(B...) }, func() *fpgo.SetForInterfaceDef { return iA.Add(toI(B)...) },
		func() []int { return sortedKeys(setOf(append(append([]int{}, A...), B...))) })
	keyCell("RemoveKeys", func() fpgo.SetDef[int, int] { return gA.RemoveKeys(B...) }, func() *fpgo.SetForInterfaceDef { return iA.RemoveKeys(toI(B)...) },
		func() []int { return sortedKeys(setOf(refWithout(A, B))) })
	boolCell("ContainsKey", func() bool { return gA.ContainsKey(x) }, func() bool { return iA.ContainsKey(x) }, func() bool { return setOf(A)[x] })
	boolCell("IsSubsetByKey", func() bool { return gA.IsSubsetByKey(gB) }, func() bool { return iA.IsSubsetByKey(iB) }, func() bool { return refSubset(A, B) })
	boolCell("IsSupersetByKey", func() bool { return gA.IsSupersetByKey(gB) }, func() bool { return iA.IsSupersetByKey(iB) }, func() bool { return refSubset(B, A) })
	if ne {
		d := callBool(func() bool { return (gA.Minus(gB).Size() == 0) == gA.IsSubsetByKey(gB) })
		k.law("MapSet.IsSubsetByKey<=>Minus", "generic", !d.panicked && d.b, "keys A=%v B=%v: IsSubsetByKey and Minus(...).Size()==0 disagree", A, B)
		r := callSeq(func() []int { return sorted(gA.Minus(gB).Union(gA.Intersection(gB)).Keys()) })
		k.law("MapSet.Minus+Intersection", "generic", !r.panicked && eqInts(r.seq, sortedKeys(setOf(A))), "(A-B) u (A n B) has keys %v, want the keys of A=%v (B=%v)", r, A, B)
	}
}

// ---------------------------------------------------------------- part: StreamSet methods

func gSS(m map[int][]int) *fpgo.StreamSetDef[int, int] {
	in := map[int]*fpgo.StreamDef[int]{}
	for k, v := range m {
		if v == nil {
			in[k] = nil
		} else {
			in[k] = fpgo.StreamFromArray(append([]int{}, v...))
		}
	}
	return fpgo.StreamSetFromMap(in)
}

func iSS(m map[int][]int) *fpgo.StreamSetForInterfaceDef {
	in := map[interface{}]*fpgo.StreamForInterfaceDef{}
	for k, v := range m {
		if v == nil {
			in[k] = nil
		} else {
			in[k] = fpgo.StreamForInterface.FromArray(toI(append([]int{}, v...)))
		}
	}
	return fpgo.StreamSetForInterfaceFromMap(in)
}

func readG(keys []int, get func(int) *fpgo.StreamDef[int]) map[int][]int {
	r := map[int][]int{}
	for _, k := range keys {
		r[k] = []int{}
		if s := get(k); s != nil {
			r[k] = s.ToArray()
		}
	}
	return r
}

func readI(s *fpgo.SetForInterfaceDef) map[int][]int {
	r := map[int][]int{}
	for _, k := range s.Keys() {
		n, ok := k.(int)
		if !ok {
			n = -999
		}
		r[n] = []int{}
		switch v := s.Get(k).(type) {
		case nil:
		case *fpgo.StreamForInterfaceDef:
			if v != nil {
				r[n] = fromI(v.ToArray())
			}
		default:
			r[n] = []int{-999}
		}
	}
	return r
}

func (k *checker) ssets() {
	c := k.c
	K1, K2, x := c.K1, c.K2, c.X
	gA, iA := gSS(K1), iSS(K1)
	var gB *fpgo.StreamSetDef[int, int]
	var gBview fpgo.SetDef[int, *fpgo.StreamDef[int]] // the MapSet view taken by the promoted methods; nil operand = nil interface
	var iB *fpgo.StreamSetForInterfaceDef
	if !c.K2Nil {
		gB, iB = gSS(K2), iSS(K2)
		gBview = gB.AsMapSet()
	} else {
		K2 = nil
	}
	keys1, keys2 := iset{}, iset{}
	for kk := range K1 {
		keys1[kk] = true
	}
	for kk := range K2 {
		keys2[kk] = true
	}
	ne := len(K1) > 0 && len(K2) > 0
	type fam struct {
		n string
		a ans
	}
	ssCell := func(cell string, g func() map[int][]int, i func() map[int][]int, wantKeys func() iset, perKey func(key int, got []int) string) {
		ga, ia := callSS(g), callSS(i)
		k.twin("StreamSet."+cell, ga, ia, false)
		if !ne {
			return
		}
		for _, f := range []fam{{"generic", ga}, {"interface{}", ia}} {
			if f.a.panicked {
				k.law("StreamSet."+cell, f.n, false, "%s.%s(%s) panicked", showSS(K1, false), cell, showSS(K2, false))
				continue
			}
			got := iset{}
			for kk := range f.a.ss {
				got[kk] = true
			}
			k.law("StreamSet."+cell, f.n, eqInts(sortedKeys(got), sortedKeys(wantKeys())), "%s.%s(%s) has keys %v, want %v", showSS(K1, false), cell, showSS(K2, false), sortedKeys(got), sortedKeys(wantKeys()))
			if perKey != nil {
				for kk, seq := range f.a.ss {
					if msg := perKey(kk, seq); msg != "" {
						k.law("StreamSet."+cell+".perKey", f.n, false, "%s.%s(%s): key %d holds %v: %s", showSS(K1, false), cell, showSS(K2, false), kk, seq, msg)
					}
				}
			}
		}
	}
	// membership-only per-key laws, asserted when both per-key streams are non-empty
	memb := func(got []int, want iset) string {
		if !eqInts(sortedKeys(setOf(got)), sortedKeys(want)) {
			return fmt.Sprintf("as a set %v, want %v", sortedKeys(setOf(got)), sortedKeys(want))
		}
		return ""
	}
	ssCell("Union",
		func() map[int][]int { r := gA.Union(gB); return readG(r.Keys(), r.Get) },
		func() map[int][]int { return readI(&iA.Union(iB).SetForInterfaceDef) },
		func() iset {
			u := iset{}
			for kk := range keys1 {
				u[kk] = true
			}
			for kk := range keys2 {
				u[kk] = true
			}
			return u
		},
		func(key int, got []int) string {
			a, inA := K1[key]
			b, inB := K2[key]
			switch {
			case inA && inB && len(a) > 0 && len(b) > 0:
				return memb(got, setOf(append(append([]int{}, a...), b...)))
			case inA && !inB:
				return memb(got, setOf(a))
			case inB && !inA:
				return memb(got, setOf(b))
			}
			return ""
		})
	ssCell("Intersection",
		func() map[int][]int { r := gA.Intersection(gB); return readG(r.Keys(), r.Get) },
		func() map[int][]int { return readI(&iA.Intersection(iB).SetForInterfaceDef) },
		func() iset {
			u := iset{}
			for kk := range keys1 {
				if keys2[kk] {
					u[kk] = true
				}
			}
			return u
		},
		func(key int, got []int) string {
			a, b := K1[key], K2[key]
			if len(a) > 0 && len(b) > 0 {
				return memb(got, setOf(refIntersect(a, b)))
			}
			return ""
		})
	ssCell("MinusStreams",
		func() map[int][]int { r := gA.MinusStreams(gB); return readG(r.Keys(), r.Get) },
		func() map[int][]int { return readI(&iA.MinusStreams(iB).SetForInterfaceDef) },
		func() iset { return keys1 },
		func(key int, got []int) string {
			a, b := K1[key], K2[key]
			if len(a) > 0 && len(b) > 0 {
				return memb(got, setOf(refWithout(a, b)))
			}
			if _, inB := K2[key]; !inB {
				return memb(got, setOf(a))
			}
			return ""
		})
	ssCell("Minus",
		func() map[int][]int { r := gA.Minus(gBview); return readG(r.Keys(), r.Get) },
		func() map[int][]int { return readI(&iA.Minus(iB).SetForInterfaceDef) },
		func() iset {
			u := iset{}
			for kk := range keys1 {
				if !keys2[kk] {
					u[kk] = true
				}
			}
			return u
		},
		func(key int, got []int) string { return memb(got, setOf(K1[key])) })
	ssCell("Clone",
		func() map[int][]int { r := gA.Clone(); return readG(r.Keys(), r.Get) },
		func() map[int][]int { return readI(&iA.Clone().SetForInterfaceDef) },
		func() iset { return keys1 },
		func(key int, got []int) string {
			if !eqInts(got, append([]int{}, K1[key]...)) {
				return fmt.Sprintf("want %v", K1[key])
			}
			return ""
		})
	// derived operands: the receiver is itself the result of an earlier operation (its
	// per-key streams may share backing arrays / carry spare capacity); the same operation
	// is applied twice with different arguments and the FIRST result is read again afterwards:
	// the law must still hold for it (a result is a value, not a view that later calls rewrite).
	if ne && !c.K2Nil {
		shift := func(m map[int][]int, d int) map[int][]int {
			r := map[int][]int{}
			for kk, v := range m {
				if v == nil {
					r[kk] = nil
					continue
				}
				w := make([]int, len(v))
				for i, x := range v {
					w[i] = x + d
				}
				r[kk] = w
			}
			return r
		}
		K2b := shift(K2, 50)
		// padded = K1 with two extra elements per non-empty stream; pad = exactly those extras
		padded, pad := map[int][]int{}, map[int][]int{}
		for kk, v := range K1 {
			if len(v) == 0 {
				padded[kk] = v
				continue
			}
			padded[kk] = append(append([]int{}, v...), 900, 901)
			pad[kk] = []int{900, 901}
		}
		if len(pad) == 0 {
			pad[99] = []int{900}
		}
		type derivedFam struct {
			n   string
			run func(op string) (first, again map[int][]int, recv map[int][]int)
		}
		fams := []derivedFam{
			{"generic", func(op string) (map[int][]int, map[int][]int, map[int][]int) {
				m := gSS(padded).MinusStreams(gSS(pad)) // content of K1 again, but obtained by removing elements
				recv := readG(m.Keys(), m.Get)
				apply := func(arg *fpgo.StreamSetDef[int, int]) *fpgo.StreamSetDef[int, int] {
					switch op {
					case "Union":
						return m.Union(arg)
					case "Intersection":
						return m.Intersection(arg)
					}
					return m.MinusStreams(arg)
				}
				r1 := apply(gSS(K2))
				first := readG(r1.Keys(), r1.Get)
				_ = apply(gSS(K2b))
				return first, readG(r1.Keys(), r1.Get), recv
			}},
			{"interface{}", func(op string) (map[int][]int, map[int][]int, map[int][]int) {
				m := iSS(padded).MinusStreams(iSS(pad))
				recv := readI(&m.SetForInterfaceDef)
				apply := func(arg *fpgo.StreamSetForInterfaceDef) *fpgo.StreamSetForInterfaceDef {
					switch op {
					case "Union":
						return m.Union(arg)
					case "Intersection":
						return m.Intersection(arg)
					}
					return m.MinusStreams(arg)
				}
				r1 := apply(iSS(K2))
				first := readI(&r1.SetForInterfaceDef)
				_ = apply(iSS(K2b))
				return first, readI(&r1.SetForInterfaceDef), recv
			}},
		}
		for _, op := range []string{"Union", "Intersection", "MinusStreams"} {
			for _, f := range fams {
				var first, again, recv map[int][]int
				if p, _ := vlib.Try(func() { first, again, recv = f.run(op) }); p != nil {
					k.law("StreamSet."+op+"(derived)", f.n, false, "derived receiver: %s panicked: %v", op, p)
					continue
				}
				k.classes["ssets/derived-repeat"]++
				same := len(first) == len(again)
				for kk, v := range first {
					if !eqInts(v, again[kk]) {
						same = false
					}
				}
				k.law("StreamSet."+op+"(derived)", f.n, same, "result of %s on a derived receiver %s with %s read %s at once but %s after a second %s on the same receiver", op, showSS(recv, false), showSS(K2, false), showSS(first, false), showSS(again, false), op)
				// membership law on the re-read result, per key where both streams are non-empty
				for kk, got := range again {
					a, inA := recv[kk]
					b, inB := K2[kk]
					if !(inA && inB && len(a) > 0 && len(b) > 0) {
						continue
					}
					var want iset
					switch op {
					case "Union":
						want = setOf(append(append([]int{}, a...), b...))
					case "Intersection":
						want = setOf(refIntersect(a, b))
					default:
						want = setOf(refWithout(a, b))
					}
					if msg := memb(got, want); msg != "" {
						k.law("StreamSet."+op+"(derived).perKey", f.n, false, "derived receiver %s %s %s: key %d holds %v: %s", showSS(recv, false), op, showSS(K2, false), kk, got, msg)
					}
				}
			}
		}
	}
	boolCell := func(cell string, g func() bool, i func() bool, want func() bool) {
		ga, ia := callBool(g), callBool(i)
		k.twin("StreamSet."+cell, ga, ia, false)
		if ne && want != nil {
			for _, f := range []fam{{"generic", ga}, {"interface{}", ia}} {
				k.law("StreamSet."+cell, f.n, !f.a.panicked && f.a.b == want(), "%s.%s(%s) = %v", showSS(K1, false), cell, showSS(K2, false), f.a)
			}
		}
	}
	boolCell("ContainsKey", func() bool { return gA.ContainsKey(x) }, func() bool { return iA.ContainsKey(x) }, func() bool { return keys1[x] })
	boolCell("IsSubsetByKey", func() bool { return gA.IsSubsetByKey(gBview) }, func() bool { return iA.IsSubsetByKey(iB) },
		func() bool { return refSubset(sortedKeys(keys1), sortedKeys(keys2)) })
	boolCell("IsSupersetByKey", func() bool { return gA.IsSupersetByKey(gBview) }, func() bool { return iA.IsSupersetByKey(iB) },
		func() bool { return refSubset(sortedKeys(keys2), sortedKeys(keys1)) })
	// Add(keys): the keys the receiver already holds keep their streams (only new keys are added) - in
	// both families; the value stored under a NEW key is not compared (the families differ there)
	if len(K1) > 0 {
		var addKeys []int
		for kk := range K1 {
			addKeys = append(addKeys, kk)
		}
		addKeys = append(addKeys, x, 90)
		sort.Ints(addKeys)
		ga := callSS(func() map[int][]int { r := gA.Add(addKeys...); return readG(r.Keys(), r.Get) })
		ia := callSS(func() map[int][]int { return readI(iA.Add(toI(addKeys)...)) })
		for _, f := range []fam{{"generic", ga}, {"interface{}", ia}} {
			if f.a.panicked {
				k.law("StreamSet.Add", f.n, false, "%s.Add(%v) panicked", showSS(K1, false), addKeys)
				continue
			}
			for kk, want := range K1 {
				got, ok := f.a.ss[kk]
				k.law("StreamSet.Add", f.n, ok && eqInts(got, want), "%s.Add(%v): key %d, which the receiver already held, now holds %v (present=%v), want its stream %v", showSS(K1, false), addKeys, kk, got, ok, want)
			}
		}
	}
	// chained: the RESULT of one operation is the operand (either side) of a second one; the two
	// families must still give the same answer (a result that merely looks right - e.g. one holding a
	// typed-nil stream in the interface{} family - shows up here)
	// a result belongs to the caller: storing something in it (Set is the documented in-place mutator) must
	// not show up in any later result of the library (results must not be one shared object)
	vlib.Try(func() {
		gA.Intersection(nil).Set(97, fpgo.StreamFromArray([]int{1}))
		gA.Intersection(gSS(map[int][]int{})).Set(97, fpgo.StreamFromArray([]int{1}))
		gSS(map[int][]int{}).Intersection(gA).Set(97, fpgo.StreamFromArray([]int{1}))
		gSS(map[int][]int{}).MinusStreams(gA).Set(97, fpgo.StreamFromArray([]int{1}))
		gSS(map[int][]int{}).Union(nil).Set(97, fpgo.StreamFromArray([]int{1}))
	})
	vlib.Try(func() {
		iA.Intersection(nil).Set(97, fpgo.StreamForInterface.FromArray(toI([]int{1})))
		iA.Intersection(iSS(map[int][]int{})).Set(97, fpgo.StreamForInterface.FromArray(toI([]int{1})))
		iSS(map[int][]int{}).Intersection(iA).Set(97, fpgo.StreamForInterface.FromArray(toI([]int{1})))
		iSS(map[int][]int{}).MinusStreams(iA).Set(97, fpgo.StreamForInterface.FromArray(toI([]int{1})))
		iSS(map[int][]int{}).Union(nil).Set(97, fpgo.StreamForInterface.FromArray(toI([]int{1})))
	})
	if !c.K2Nil {
		type first struct {
			n string
			g func() *fpgo.StreamSetDef[int, int]
			i func() *fpgo.StreamSetForInterfaceDef
		}
		firsts := []first{
			{"Union", func() *fpgo.StreamSetDef[int, int] { return gA.Union(gB) }, func() *fpgo.StreamSetForInterfaceDef { return iA.Union(iB) }},
			{"Intersection", func() *fpgo.StreamSetDef[int, int] { return gA.Intersection(gB) }, func() *fpgo.StreamSetForInterfaceDef { return iA.Intersection(iB) }},
			{"MinusStreams", func() *fpgo.StreamSetDef[int, int] { return gA.MinusStreams(gB) }, func() *fpgo.StreamSetForInterfaceDef { return iA.MinusStreams(iB) }},
			{"Clone", func() *fpgo.StreamSetDef[int, int] { return gA.Clone() }, func() *fpgo.StreamSetForInterfaceDef { return iA.Clone() }},
		}
		type second struct {
			n string
			g func(r *fpgo.StreamSetDef[int, int]) *fpgo.StreamSetDef[int, int]
			i func(r *fpgo.StreamSetForInterfaceDef) *fpgo.StreamSetForInterfaceDef
		}
		seconds := []second{
			{"Clone()", func(r *fpgo.StreamSetDef[int, int]) *fpgo.StreamSetDef[int, int] { return r.Clone() }, func(r *fpgo.StreamSetForInterfaceDef) *fpgo.StreamSetForInterfaceDef { return r.Clone() }},
			{"Intersection(B)", func(r *fpgo.StreamSetDef[int, int]) *fpgo.StreamSetDef[int, int] { return r.Intersection(gB) }, func(r *fpgo.StreamSetForInterfaceDef) *fpgo.StreamSetForInterfaceDef { return r.Intersection(iB) }},
			{"B.Intersection(.)", func(r *fpgo.StreamSetDef[int, int]) *fpgo.StreamSetDef[int, int] { return gB.Intersection(r) }, func(r *fpgo.StreamSetForInterfaceDef) *fpgo.StreamSetForInterfaceDef { return iB.Intersection(r) }},
			{"MinusStreams(B)", func(r *fpgo.StreamSetDef[int, int]) *fpgo.StreamSetDef[int, int] { return r.MinusStreams(gB) }, func(r *fpgo.StreamSetForInterfaceDef) *fpgo.StreamSetForInterfaceDef { return r.MinusStreams(iB) }},
			{"B.MinusStreams(.)", func(r *fpgo.StreamSetDef[int, int]) *fpgo.StreamSetDef[int, int] { return gB.MinusStreams(r) }, func(r *fpgo.StreamSetForInterfaceDef) *fpgo.StreamSetForInterfaceDef { return iB.MinusStreams(r) }},
			{"Union(B)", func(r *fpgo.StreamSetDef[int, int]) *fpgo.StreamSetDef[int, int] { return r.Union(gB) }, func(r *fpgo.StreamSetForInterfaceDef) *fpgo.StreamSetForInterfaceDef { return r.Union(iB) }},
			{"A.Union(.)", func(r *fpgo.StreamSetDef[int, int]) *fpgo.StreamSetDef[int, int] { return gA.Union(r) }, func(r *fpgo.StreamSetForInterfaceDef) *fpgo.StreamSetForInterfaceDef { return iA.Union(r) }},
		}
		for _, f1 := range firsts {
			for _, f2 := range seconds {
				f1, f2 := f1, f2
				ga := callSS(func() map[int][]int { r := f2.g(f1.g()); return readG(r.Keys(), r.Get) })
				ia := callSS(func() map[int][]int { return readI(&f2.i(f1.i()).SetForInterfaceDef) })
				k.twin("StreamSet.chained:"+f1.n+"->"+f2.n, ga, ia, false)
			}
		}
	}
}

// ---------------------------------------------------------------- running / classifying one case

type outcome struct {
	failKey, failMsg string
	nontrivial       bool
	classes          map[string]int
}

func shape(l []int) string {
	switch {
	case l == nil:
		return "nil"
	case len(l) == 0:
		return "empty"
	}
	return "nonempty"
}

func overlap(a, b []int) string {
	sa, sb := setOf(a), setOf(b)
	common := 0
	for v := range sa {
		if sb[v] {
			common++
		}
	}
	switch {
	case common == 0:
		return "disjoint"
	case common == len(sa) && common == len(sb):
		return "equal"
	case common == len(sa):
		return "subset"
	case common == len(sb):
		return "superset"
	}
	return "partial"
}

func runCase(c tcase) (out outcome) {
	k := &checker{c: c, classes: map[string]int{}}
	out = outcome{classes: k.classes}
	if c.Poison {
		poison(c.A)
		k.classes[c.Part+"/after-poison-call"]++
	}
	snapA, snapB, snapC := append([]int(nil), c.A...), append([]int(nil), c.B...), append([]int(nil), c.C...)
	defer func() {
		// the operand lists are the caller's: no set operation may leave them changed
		if out.failKey == "" && k.failKey == "" && (!eqInts(c.A, snapA) || !eqInts(c.B, snapB) || !eqInts(c.C, snapC)) {
			k.fail("C05/"+c.Part+"/operand-modified", "the operand lists were %v %v %v before the calls and are %v %v %v afterwards", snapA, snapB, snapC, c.A, c.B, c.C)
			out.failKey, out.failMsg = k.failKey, k.failMsg
		}
	}()
	switch c.Part {
	case "slices":
		k.slices()
	case "streams":
		k.streams()
	case "sets":
		k.sets()
	case "ssets":
		k.ssets()
	default:
		return out
	}
	if c.Part == "ssets" {
		var k1, k2 []int
		for kk := range c.K1 {
			k1 = append(k1, kk)
		}
		for kk := range c.K2 {
			k2 = append(k2, kk)
		}
		sh2 := shape(append([]int{}, k2...))
		if c.K2Nil {
			sh2 = "nil"
		}
		k.classes["ssets/arg-"+sh2]++
		perKeyBoth, perKeyEmpty := false, false
		for kk, a := range c.K1 {
			if b, ok := c.K2[kk]; ok && !c.K2Nil {
				if len(a) > 0 && len(b) > 0 {
					perKeyBoth = true
				} else {
					perKeyEmpty = true
				}
			}
		}
		if len(k1) > 0 && len(k2) > 0 && !c.K2Nil {
			ov := overlap(k1, k2)
			k.classes["ssets/keys-"+ov]++
			if perKeyBoth {
				k.classes["ssets/common-key-both-streams-nonempty"]++
			}
			if perKeyEmpty {
				k.classes["ssets/common-key-with-empty-or-nil-stream"]++
			}
			out.nontrivial = ov == "partial" || perKeyBoth || perKeyEmpty
		} else {
			out.nontrivial = true // an empty/nil operand in the twin part
		}
	} else {
		k.classes[c.Part+"/A-"+shape(c.A)+"/B-"+shape(c.B)]++
		if nonEmpty(c.A, c.B) {
			ov := overlap(c.A, c.B)
			k.classes[c.Part+"/"+ov]++
			dup := hasDup(c.A) || hasDup(c.B)
			if dup {
				k.classes[c.Part+"/duplicates"]++
			}
			out.nontrivial = ov == "partial" || dup
		} else {
			out.nontrivial = true
		}
	}
	out.failKey, out.failMsg = k.failKey, k.failMsg
	return out
}

// ---------------------------------------------------------------- regressions (replay tier)

var regressions = []struct {
	name string
	c    tcase
}{
	{"DESIGN#9 StreamSetForInterface.Minus(empty) answered the empty set, generic the receiver",
		tcase{Part: "ssets", K1: map[int][]int{1: {4}, 2: {}}, K2: map[int][]int{}}},
	{"DESIGN#9 same with a nil argument",
		tcase{Part: "ssets", K1: map[int][]int{1: {4}}, K2Nil: true}},
	{"DESIGN#10 StreamSetForInterface.IsSupersetByKey(empty) answered true, generic false",
		tcase{Part: "ssets", K1: map[int][]int{1: {4}}, K2: map[int][]int{}}},
	{"StreamSetForInterfaceFromMap stored typed nil pointers: Union panicked where the generic twin answers",
		tcase{Part: "ssets", K1: map[int][]int{1: nil}, K2: map[int][]int{1: {2}}}},
	{"IsSubsetByKey(nil): generic StreamSet panicked (MapSetDef.IsSubsetByKey calls a method on the nil set), interface{} twin answers false",
		tcase{Part: "ssets", K1: map[int][]int{1: {4}}, K2Nil: true}},
	{"plain sets, partial overlap with duplicates", tcase{Part: "sets", A: []int{1, 2, 2, 3}, B: []int{3, 4, 3}, X: 2}},
	{"streams, nil argument", tcase{Part: "streams", A: []int{1, 2, 2, 3}, B: nil, X: 2}},
	{"slices, three operands", tcase{Part: "slices", A: []int{5, 1, 3, 2, 8, 1}, B: []int{7, 6, 4, 3, 1, 2}, C: []int{1, 2, 9}, UseC: true, X: 3}},
}

func TestRegress(t *testing.T) {
	type failure struct {
		key, msg string
		c        tcase
	}
	var fails []failure
	for _, r := range regressions {
		vlib.S().Eval("regress")
		o := runCase(r.c)
		if o.nontrivial {
			vlib.S().NonTrivial("regress", r.c.String())
		}
		if o.failKey != "" && !vlib.Known(o.failKey) {
			t.Logf("regression %q fails: [key=%s] %s", r.name, o.failKey, o.failMsg)
			fails = append(fails, failure{o.failKey, fmt.Sprintf("regression %q [%v]: %s", r.name, r.c, o.failMsg), r.c})
		}
	}
	if len(fails) > 0 {
		vlib.WriteReplay("C05/case", fails[0].c)
		vlib.Fail(t, fails[0].key, "%s (and %d more failing regressions)", fails[0].msg, len(fails)-1)
	}
}

func TestReplayJSON(t *testing.T) {
	raw := vlib.ReplayCase("C05/case")
	if raw == nil {
		t.Skip("no replay case")
	}
	var c tcase
	if err := json.Unmarshal(raw, &c); err != nil {
		t.Fatalf("bad replay: %v", err)
	}
	o := runCase(c)
	if o.failKey != "" {
		t.Fatalf("[key=%s] replay [%v]: %s", o.failKey, c, o.failMsg)
	}
}

// ---------------------------------------------------------------- generators

// genList: nil / empty / non-empty list over [0,7] with duplicates.
func genList(t *rapid.T, label string) []int {
	switch rapid.SampledFrom([]int{2, 2, 2, 2, 2, 2, 2, 2, 1, 0}).Draw(t, label+"_shape") {
	case 0:
		return nil
	case 1:
		return []int{}
	}
	n := rapid.IntRange(1, 8).Draw(t, label+"_n")
	l := make([]int, n)
	for i := range l {
		l[i] = rapid.IntRange(0, 7).Draw(t, label)
	}
	return l
}

// genRelated: a list that shares elements with base (so that subset / equal /
// partial-overlap relations are frequent), or an independent one.
func genRelated(t *rapid.T, label string, base []int) []int {
	mode := rapid.IntRange(0, 5).Draw(t, label+"_mode")
	if mode <= 1 || len(base) == 0 {
		return genList(t, label)
	}
	var l []int
	switch mode {
	case 2: // sub-multiset of base
		for _, v := range base {
			if rapid.Bool().Draw(t, label+"_keep") {
				l = append(l, v)
			}
		}
	case 3: // permutation-ish of base plus extras
		l = append([]int{}, base...)
		for i := rapid.IntRange(0, 3).Draw(t, label+"_extra"); i > 0; i-- {
			l = append(l, rapid.IntRange(0, 7).Draw(t, label))
		}
		for i := len(l) - 1; i > 0; i-- {
			j := rapid.IntRange(0, i).Draw(t, label+"_swap")
			l[i], l[j] = l[j], l[i]
		}
	default: // some of base, some fresh
		for _, v := range base {
			if rapid.Bool().Draw(t, label+"_keep") {
				l = append(l, v)
			}
		}
		for i := rapid.IntRange(1, 4).Draw(t, label+"_extra"); i > 0; i-- {
			l = append(l, rapid.IntRange(0, 7).Draw(t, label))
		}
	}
	if l == nil {
		l = []int{}
	}
	return l
}

func genSS(t *rapid.T, label string) map[int][]int {
	m := map[int][]int{}
	n := rapid.IntRange(0, 4).Draw(t, label+"_n")
	for i := 0; i < n; i++ {
		key := rapid.IntRange(0, 4).Draw(t, label+"_key")
		switch rapid.SampledFrom([]int{2, 2, 2, 1, 0}).Draw(t, label+"_state") {
		case 0:
			m[key] = nil
		case 1:
			m[key] = []int{}
		default:
			ln := rapid.IntRange(1, 5).Draw(t, label+"_len")
			l := make([]int, ln)
			for j := range l {
				l[j] = rapid.IntRange(0, 5).Draw(t, label+"_elem")
			}
			m[key] = l
		}
	}
	return m
}

func genCase(t *rapid.T, part string) tcase {
	c := tcase{Part: part, X: rapid.IntRange(0, 7).Draw(t, "x")}
	if part == "ssets" {
		c.K1 = genSS(t, "k1")
		if rapid.IntRange(0, 11).Draw(t, "k2nil") == 0 {
			c.K2Nil = true
		} else {
			c.K2 = genSS(t, "k2")
		}
		return c
	}
	c.A = genList(t, "a")
	if rapid.IntRange(0, 15).Draw(t, "wide") == 0 {
		// long operands (an implementation may switch algorithm with the length): 20..90 elements over
		// 0..50, plenty of repeats; the related operands below are then long as well
		n := rapid.IntRange(20, 90).Draw(t, "wide_n")
		c.A = make([]int, n)
		for i := range c.A {
			c.A[i] = rapid.IntRange(0, 50).Draw(t, "wide_a")
		}
		c.X = rapid.IntRange(0, 50).Draw(t, "wide_x")
	}
	c.B = genRelated(t, "b", c.A)
	c.Poison = rapid.IntRange(0, 5).Draw(t, "poison") == 0
	if part == "slices" && rapid.IntRange(0, 2).Draw(t, "usec") == 0 {
		c.UseC = true
		c.C = genRelated(t, "c", c.A)
	}
	return c
}

var partIndex = map[string]int{"slices": 0, "streams": 1, "sets": 2, "ssets": 3}

func propPart(part string) func(t *rapid.T) {
	return func(t *rapid.T) {
		// every part runs with the same rapid seed: shift the bit stream per part so
		// that the parts do not all see the same operand tuples
		for i := 0; i < partIndex[part]; i++ {
			rapid.IntRange(0, 7).Draw(t, "salt")
		}
		c := genCase(t, part)
		s := vlib.S()
		s.Eval(part)
		o := runCase(c)
		for k, n := range o.classes {
			s.ClassN(k, int64(n))
		}
		if o.nontrivial {
			s.NonTrivial(part, c.String())
			s.Class(part + "/nontrivial")
		} else {
			s.Class(part + "/trivial")
		}
		if o.failKey != "" {
			js, _ := json.Marshal(c)
			if vlib.Fail(t, o.failKey, "case [%v]\n%s\nJSON: %s", c, o.failMsg, js) {
				t.Skip("known finding")
			}
		}
	}
}

// in replay mode run only the test the replay file belongs to
func skipIfJSONReplay(t *testing.T) {
	if !vlib.Replaying() {
		return
	}
	f := os.Getenv("VERIF_REPLAY_FILE")
	if vlib.ReplayCase("C05/case") != nil || (strings.HasSuffix(f, ".fail") && !strings.Contains(filepath.Base(f), t.Name()+"-")) {
		t.Skip()
	}
}

func TestSlices(t *testing.T) {
	skipIfJSONReplay(t)
	vlib.Check(t, "slices", 20000, 200000, propPart("slices"))
}

func TestStreams(t *testing.T) {
	skipIfJSONReplay(t)
	vlib.Check(t, "streams", 20000, 200000, propPart("streams"))
}

func TestSets(t *testing.T) {
	skipIfJSONReplay(t)
	vlib.Check(t, "sets", 20000, 200000, propPart("sets"))
}

func TestStreamSets(t *testing.T) {
	skipIfJSONReplay(t)
	vlib.Check(t, "ssets", 25000, 250000, propPart("ssets"))
}
