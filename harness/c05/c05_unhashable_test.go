package c05

import (
	"fmt"
	"testing"

	fpgo "github.com/TeaEntityLab/fpGo/v2"
	"pgregory.net/rapid"

	"verifharness/vlib"
)

// Part "unhashable-elements": "each generic function or method and its interface{} twin return the same
// answer on the same data" - the SAME data: the generic family instantiated with T = interface{} gets the
// very lists the interface{} family gets, and one of the elements is a value Go can neither hash nor
// compare with its own kind (a slice, a map, a func). It occurs once, in one operand only, so comparing it
// with the other elements (ints, strings) is well defined (false). Whatever the library does with such a
// list - answer or panic - both families do the same.

type unhCase struct {
	A, B, C []int   `json:"-"`
	Lists   [][]int `json:"lists"` // small ints; the value 100 stands for the unhashable element
	Kind    int     `json:"kind"`  // 0 slice, 1 map, 2 func
	Where   int     `json:"where"` // operand that holds the unhashable element
	At      int     `json:"at"`    // position in that operand (mod len+1)
}

func (c unhCase) build() [][]interface{} {
	var odd interface{}
	switch c.Kind {
	case 0:
		odd = []int{1}
	case 1:
		odd = map[string]int{"a": 1}
	default:
		odd = func() {}
	}
	out := make([][]interface{}, len(c.Lists))
	for j, l := range c.Lists {
		out[j] = toI(l)
		if j == c.Where%len(c.Lists) {
			at := c.At % (len(l) + 1)
			with := append([]interface{}{}, out[j][:at]...)
			with = append(with, odd)
			out[j] = append(with, out[j][at:]...)
		}
	}
	return out
}

type unhAns struct {
	panicked bool
	text     string
}

func unhCall(f func() interface{}) (a unhAns) {
	defer func() {
		if r := recover(); r != nil {
			a = unhAns{panicked: true}
		}
	}()
	v := f()
	if l, ok := v.([]interface{}); ok {
		// elements rendered one by one (a func prints as an address: render its kind instead)
		parts := make([]string, len(l))
		for i, e := range l {
			switch e.(type) {
			case func():
				parts[i] = "func"
			default:
				parts[i] = fmt.Sprintf("%v", e)
			}
		}
		return unhAns{text: fmt.Sprint(parts)}
	}
	return unhAns{text: fmt.Sprintf("%v", v)}
}

func runUnhashable(c unhCase) (key, msg string) {
	ls := c.build()
	a, b := ls[0], ls[1]
	type cell struct {
		name string
		g, i func() interface{}
	}
	cells := []cell{
		{"Intersection", func() interface{} { return fpgo.Intersection(ls...) }, func() interface{} { return fpgo.IntersectionForInterface(ls...) }},
		{"Minus", func() interface{} { return fpgo.Minus(a, b) }, func() interface{} { return fpgo.MinusForInterface(a, b) }},
		{"Distinct", func() interface{} { return fpgo.Distinct(a...) }, func() interface{} { return fpgo.DistinctForInterface(a...) }},
		{"IsSubset", func() interface{} { return fpgo.IsSubset(a, b) }, func() interface{} { return fpgo.IsSubsetForInterface(a, b) }},
		{"IsSuperset", func() interface{} { return fpgo.IsSuperset(a, b) }, func() interface{} { return fpgo.IsSupersetForInterface(a, b) }},
		{"Exists", func() interface{} { return fpgo.Exists[interface{}](1, a...) }, func() interface{} { return fpgo.ExistsForInterface(1, a...) }},
		{"Stream.Intersection", func() interface{} {
			return fpgo.StreamFromArray(a).Intersection(fpgo.StreamFromArray(b)).ToArray()
		}, func() interface{} {
			return fpgo.StreamForInterface.FromArray(a).Intersection(fpgo.StreamForInterface.FromArray(b)).ToArray()
		}},
		{"Stream.Minus", func() interface{} {
			return fpgo.StreamFromArray(a).Minus(fpgo.StreamFromArray(b)).ToArray()
		}, func() interface{} {
			return fpgo.StreamForInterface.FromArray(a).Minus(fpgo.StreamForInterface.FromArray(b)).ToArray()
		}},
		{"Stream.Distinct", func() interface{} { return fpgo.StreamFromArray(a).Distinct().ToArray() }, func() interface{} { return fpgo.StreamForInterface.FromArray(a).Distinct().ToArray() }},
		{"Stream.IsSubset", func() interface{} { return fpgo.StreamFromArray(a).IsSubset(fpgo.StreamFromArray(b)) }, func() interface{} {
			return fpgo.StreamForInterface.FromArray(a).IsSubset(fpgo.StreamForInterface.FromArray(b))
		}},
	}
	for _, ce := range cells {
		g, i := unhCall(ce.g), unhCall(ce.i)
		if g.panicked && i.panicked {
			vlib.S().Class("unhashable/both-panic")
			continue
		}
		if g != i {
			show := func(a unhAns) string {
				if a.panicked {
					return "panic"
				}
				return a.text
			}
			return "C05/" + ce.name + "/twin", fmt.Sprintf("%s on the same lists %v (one element is not hashable): generic[interface{}] answers %s, the interface{} twin answers %s", ce.name, ls, show(g), show(i))
		}
		vlib.S().Class("unhashable/both-answer")
	}
	return "", ""
}

func TestUnhashableElements(t *testing.T) {
	if vlib.Replaying() {
		t.Skip()
	}
	vlib.Check(t, "unhashable-elements", 1500, 20000, func(t *rapid.T) {
		n := rapid.IntRange(2, 3).Draw(t, "operands")
		c := unhCase{Kind: rapid.IntRange(0, 2).Draw(t, "kind"), Where: rapid.IntRange(0, n-1).Draw(t, "where"), At: rapid.IntRange(0, 6).Draw(t, "at")}
		for j := 0; j < n; j++ {
			c.Lists = append(c.Lists, rapid.SliceOfN(rapid.IntRange(0, 4), 0, 5).Draw(t, "list"))
		}
		vlib.S().Eval("unhashable-elements")
		vlib.S().NonTrivial("unhashable-elements", fmt.Sprintf("%v kind=%d where=%d at=%d", c.Lists, c.Kind, c.Where, c.At))
		if key, msg := runUnhashable(c); key != "" {
			if vlib.Fail(t, key, "%s", msg) {
				t.Skip("known")
			}
		}
	})
}
