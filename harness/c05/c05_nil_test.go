package c05

import (
	"fmt"
	"sort"
	"testing"

	fpgo "github.com/TeaEntityLab/fpGo/v2"
	"pgregory.net/rapid"

	"verifharness/vlib"
)

// Part "nil-elements": nil is an ordinary element of an operand list (untyped nil in the
// interface{} family, a nil pointer in the generic family over *int). The set laws and the twin
// agreement make no exception for it. Elements are coded 0 = nil, k>0 = the k-th value.

var nilPtrTable = func() []*int {
	t := make([]*int, 5)
	for i := 1; i < 5; i++ {
		v := i * 10
		t[i] = &v
	}
	return t
}()

// ptrIdentity: both families hold POINTERS as elements (the interface{} family the very same *int values
// as the generic one) and several of the pointers point to equal numbers: an element is what == says it
// is - the pointer -, not what it points to. Set by TestNilElements per case.
var ptrIdentity bool

var dupPtrTable = func() []*int {
	t := make([]*int, 5)
	for i := 1; i < 5; i++ {
		v := ((i + 1) / 2) * 10 // 10 10 20 20: codes 1,2 and 3,4 are distinct pointers to equal numbers
		t[i] = &v
	}
	return t
}()

func curPtrTable() []*int {
	if ptrIdentity {
		return dupPtrTable
	}
	return nilPtrTable
}

func nilToI(code []int) []interface{} {
	if code == nil {
		return nil
	}
	r := make([]interface{}, len(code))
	for i, c := range code {
		if c != 0 {
			if ptrIdentity {
				r[i] = dupPtrTable[c]
			} else {
				r[i] = c * 10
			}
		}
	}
	return r
}

func nilToP(code []int) []*int {
	if code == nil {
		return nil
	}
	r := make([]*int, len(code))
	for i, c := range code {
		r[i] = curPtrTable()[c]
	}
	return r
}

func nilFromI(l []interface{}) []int {
	r := make([]int, len(l))
	for i, v := range l {
		switch x := v.(type) {
		case nil:
			r[i] = 0
		case int:
			r[i] = x / 10
		case *int:
			r[i] = -99
			for c, q := range dupPtrTable {
				if ptrIdentity && x == q && c != 0 {
					r[i] = c
				}
			}
		default:
			r[i] = -99
		}
	}
	return r
}

func nilFromP(l []*int) []int {
	r := make([]int, len(l))
	for i, p := range l {
		r[i] = -99
		for c, q := range curPtrTable() {
			if p == q {
				r[i] = c
			}
		}
	}
	return r
}

func runNilElements(a, b []int) (key, msg string) {
	fail := func(cell, f string, x ...any) {
		if key == "" {
			key, msg = "C05/nil-elements/"+cell, fmt.Sprintf(f, x...)
		}
	}
	type res struct {
		seq []int
		b   bool
		pan bool
	}
	call := func(f func() res) (r res) {
		if p, _ := vlib.Try(func() { r = f() }); p != nil {
			return res{pan: true}
		}
		return r
	}
	show := func(l []int) string {
		parts := make([]string, len(l))
		for i, c := range l {
			switch {
			case c == 0:
				parts[i] = "nil"
			case ptrIdentity:
				parts[i] = fmt.Sprintf("p%d(->%d)", c, *dupPtrTable[c])
			default:
				parts[i] = fmt.Sprint(c * 10)
			}
		}
		return fmt.Sprint(parts)
	}
	eq := func(x, y []int) bool { return eqInts(x, y) }
	nonEmptyBoth := len(a) > 0 && len(b) > 0
	cells := []struct {
		name  string
		g, i  func() res
		want  func() []int
		asSet bool
		isB   bool
		wantB func() bool
	}{
		{"Minus", func() res { return res{seq: nilFromP(fpgo.Minus(nilToP(a), nilToP(b)))} },
			func() res { return res{seq: nilFromI(fpgo.MinusForInterface(nilToI(a), nilToI(b)))} },
			func() []int { return refWithout(a, b) }, false, false, nil},
		{"Intersection", func() res { return res{seq: nilFromP(fpgo.Intersection(nilToP(a), nilToP(b)))} },
			func() res { return res{seq: nilFromI(fpgo.IntersectionForInterface(nilToI(a), nilToI(b)))} },
			func() []int { return refIntersect(a, b) }, false, false, nil},
		{"Distinct", func() res { return res{seq: nilFromP(fpgo.Distinct(nilToP(a)...))} },
			func() res { return res{seq: nilFromI(fpgo.DistinctForInterface(nilToI(a)...))} },
			func() []int { return refDistinct(a) }, false, false, nil},
		{"IsSubset", func() res { return res{b: fpgo.IsSubset(nilToP(a), nilToP(b))} },
			func() res { return res{b: fpgo.IsSubsetForInterface(nilToI(a), nilToI(b))} },
			nil, false, true, func() bool { return refSubset(a, b) }},
		{"Stream.Minus", func() res {
			return res{seq: nilFromP(fpgo.StreamFromArray(nilToP(a)).Minus(fpgo.StreamFromArray(nilToP(b))).ToArray())}
		},
			func() res {
				return res{seq: nilFromI(fpgo.StreamForInterface.FromArray(nilToI(a)).Minus(fpgo.StreamForInterface.FromArray(nilToI(b))).ToArray())}
			},
			func() []int { return refWithout(a, b) }, false, false, nil},
		{"Stream.Intersection", func() res {
			return res{seq: nilFromP(fpgo.StreamFromArray(nilToP(a)).Intersection(fpgo.StreamFromArray(nilToP(b))).ToArray())}
		},
			func() res {
				return res{seq: nilFromI(fpgo.StreamForInterface.FromArray(nilToI(a)).Intersection(fpgo.StreamForInterface.FromArray(nilToI(b))).ToArray())}
			},
			func() []int { return refIntersect(a, b) }, false, false, nil},
		{"SetFromArray.Keys", func() res { return res{seq: nilFromP(fpgo.SetFromArray[*int, bool](nilToP(a)).Keys())} },
			func() res { return res{seq: nilFromI(fpgo.SetForInterfaceFromArray(nilToI(a)).Keys())} },
			func() []int { return refDistinct(a) }, true, false, nil},
	}
	for _, c := range cells {
		g, i := call(c.g), call(c.i)
		if g.pan != i.pan {
			fail(c.name+"/twin", "%s on %s, %s: one family panics, the other does not", c.name, show(a), show(b))
			continue
		}
		if g.pan {
			continue
		}
		if c.isB {
			if g.b != i.b {
				fail(c.name+"/twin", "%s(%s, %s): generic %v, interface{} %v", c.name, show(a), show(b), g.b, i.b)
			}
			if nonEmptyBoth && (g.b != c.wantB() || i.b != c.wantB()) {
				fail(c.name+"/law", "%s(%s, %s) = %v / %v, want %v", c.name, show(a), show(b), g.b, i.b, c.wantB())
			}
			continue
		}
		gs, is := g.seq, i.seq
		if c.asSet {
			gs, is = append([]int{}, gs...), append([]int{}, is...)
			sort.Ints(gs)
			sort.Ints(is)
		}
		if !eq(gs, is) {
			fail(c.name+"/twin", "%s on %s, %s: generic %s, interface{} %s", c.name, show(a), show(b), show(g.seq), show(i.seq))
		}
		if nonEmptyBoth || c.name == "Distinct" || c.name == "SetFromArray.Keys" {
			w := c.want()
			if c.asSet {
				w = append([]int{}, w...)
				sort.Ints(w)
			}
			if len(a) > 0 && (!eq(gs, w) || !eq(is, w)) {
				fail(c.name+"/law", "%s on %s, %s: generic %s, interface{} %s, want %s (nil is an ordinary element)", c.name, show(a), show(b), show(g.seq), show(i.seq), show(c.want()))
			}
		}
	}
	return
}

func TestNilElements(t *testing.T) {
	skipIfJSONReplay(t)
	vlib.Check(t, "nil-elements", 6000, 60000, func(t *rapid.T) {
		a := rapid.SliceOfN(rapid.IntRange(0, 4), 0, 7).Draw(t, "a")
		b := rapid.SliceOfN(rapid.IntRange(0, 4), 0, 7).Draw(t, "b")
		ptrIdentity = rapid.IntRange(0, 2).Draw(t, "ptrIdentity") == 0
		defer func() { ptrIdentity = false }()
		vlib.S().Eval("nil-elements")
		if ptrIdentity {
			vlib.S().Class("nil-elements/pointer-identity")
		}
		hasNil := false
		for _, x := range append(append([]int{}, a...), b...) {
			if x == 0 {
				hasNil = true
			}
		}
		if hasNil && len(a) > 0 && len(b) > 0 {
			vlib.S().NonTrivial("nil-elements", fmt.Sprintf("%v|%v", a, b))
		}
		if key, msg := runNilElements(a, b); key != "" {
			vlib.WriteReplay("C05/nil", map[string]any{"a": a, "b": b, "ptrIdentity": ptrIdentity})
			if vlib.Fail(t, key, "%s", msg) {
				t.Skip("known")
			}
		}
	})
}
