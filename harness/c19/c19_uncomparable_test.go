package c19

import (
	"fmt"
	"testing"

	fpgo "github.com/TeaEntityLab/fpGo/v2"
	"pgregory.net/rapid"

	"verifharness/vlib"
)

// Part "uncomparable-elements": the comparator sorts take any element type - also one that Go cannot
// compare with == (a struct with a slice field; streams are excluded: their element type must be comparable). Same oracle as the comparator part: the result is the
// stable sort of the input by the given comparator.

type boxedRec struct {
	R    rec
	Tags []string
}

func propUncomparable(t *rapid.T) {
	c := sortCase{Entry: rapid.SampledFrom([]string{"Sort", "SortSlice"}).Draw(t, "entry"),
		Items: genItems(t, 16), Spec: genSpec(t, 3, false)}
	in := c.recs()
	less := func(a, b rec) bool { return lexCompare(c.Spec, a, b) < 0 }
	want := refStable(less, in)
	work := make([]boxedRec, len(in))
	for i, r := range in {
		work[i] = boxedRec{R: r, Tags: []string{"t"}}
	}
	lessB := func(a, b boxedRec) bool { return less(a.R, b.R) }
	var gotB []boxedRec
	p, stack := vlib.Try(func() {
		switch c.Entry {
		case "Sort":
			fpgo.Sort(lessB, work)
			gotB = work
		case "SortSlice":
			gotB = fpgo.SortSlice(lessB, work...)
		}
	})
	vlib.S().Eval("uncomparable-elements")
	if len(in) >= 2 {
		vlib.S().NonTrivial("uncomparable-elements", fmt.Sprintf("%s|%s|n=%d|%s", c.Entry, c.specString(false), len(in), keyPattern(c)))
	}
	key, msg := "", ""
	if p != nil {
		key, msg = "C19/"+c.Entry+"/panic", fmt.Sprintf("sorting records that hold a slice (not comparable with ==) panicked: %v\n%s", p, firstFrames(stack))
	} else {
		got := make([]rec, len(gotB))
		for i, b := range gotB {
			got[i] = b.R
		}
		if !equalRecs(got, want) {
			key, msg = "C19/"+c.Entry+"/order", fmt.Sprintf("by [%s] input %s (boxed with a slice field): result %s, the stable order is %s", c.specString(false), recsString(in), recsString(got), recsString(want))
		}
	}
	if key != "" {
		if vlib.Fail(t, key, "%s", msg) {
			t.Skip("known finding")
		}
	}
}

func TestUncomparableElements(t *testing.T) {
	if vlib.Replaying() {
		t.Skip()
	}
	vlib.Check(t, "uncomparable-elements", 1500, 20000, propUncomparable)
}

// Part "nil-items": a stream of interface{} items may hold nil items; "ordered by the GIVEN comparator" -
// the comparator decides where they go (missing values last, nil counts as some key, nil first), nobody else.
func propNilItems(t *rapid.T) {
	n := rapid.IntRange(0, 14).Draw(t, "n")
	in := make([]interface{}, n)
	desc := make([]string, n)
	for i := range in {
		if rapid.IntRange(0, 3).Draw(t, "nil") == 0 {
			in[i], desc[i] = nil, "nil"
		} else {
			v := rapid.IntRange(0, 4).Draw(t, "v")
			in[i], desc[i] = [2]int{v, i}, fmt.Sprintf("%d#%d", v, i) // key, id (ties keep input order)
		}
	}
	nilKey := rapid.SampledFrom([]int{-1, 2, 99}).Draw(t, "nilKey") // where the comparator puts nil: first, among the 2s, last
	key := func(x interface{}) int {
		if x == nil {
			return nilKey
		}
		return x.([2]int)[0]
	}
	less := func(a, b interface{}) bool { return key(a) < key(b) }
	entry := rapid.SampledFrom([]string{"StreamForInterface.Sort", "SortSlice[interface{}]", "Sort[interface{}]"}).Draw(t, "entry")
	want := refStable(less, in)
	var got []interface{}
	p, stack := vlib.Try(func() {
		work := append([]interface{}(nil), in...)
		switch entry {
		case "StreamForInterface.Sort":
			got = fpgo.StreamForInterface.FromArray(work).Sort(less).ToArray()
		case "SortSlice[interface{}]":
			got = fpgo.SortSlice(less, work...)
		default:
			fpgo.Sort(less, work)
			got = work
		}
	})
	vlib.S().Eval("nil-items")
	hasNil := false
	for _, x := range in {
		hasNil = hasNil || x == nil
	}
	if hasNil && n >= 2 {
		vlib.S().NonTrivial("nil-items", fmt.Sprintf("%s|%v|nilKey=%d", entry, desc, nilKey))
	}
	key2, msg := "", ""
	if p != nil {
		key2, msg = "C19/"+entry+"/panic", fmt.Sprintf("%v\n%s", p, firstFrames(stack))
	} else if fmt.Sprint(got) != fmt.Sprint(want) {
		key2, msg = "C19/"+entry+"/order", fmt.Sprintf("items %v (key#id, nil items compare as key %d under the given comparator): result %v, the stable order by the given comparator is %v", desc, nilKey, got, want)
	}
	if key2 != "" {
		if vlib.Fail(t, key2, "%s", msg) {
			t.Skip("known finding")
		}
	}
}

func TestNilItems(t *testing.T) {
	if vlib.Replaying() {
		t.Skip()
	}
	vlib.Check(t, "nil-items", 1500, 20000, propNilItems)
}
