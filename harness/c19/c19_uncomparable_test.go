package c19

import (
	"fmt"
	"testing"

	fpgo "github.com/TeaEntityLab/fpGo/v2"
	"pgregory.net/rapid"

	"verifharness/vlib"
)

// Part "uncomparable-elements": the comparator sorts take any element type - also one that Go cannot
// compare with == (a struct with a slice field; streams are excluded: their element type must be comparable). Same oracle as the comparator part: the result is the
// stable sort of the input by the given comparator.

type boxedRec struct {
	R    rec
	Tags []string
}

func propUncomparable(t *rapid.T) {
	c := sortCase{Entry: rapid.SampledFrom([]string{"Sort", "SortSlice"}).Draw(t, "entry"),
		Items: genItems(t, 16), Spec: genSpec(t, 3, false)}
	in := c.recs()
	less := func(a, b rec) bool { return lexCompare(c.Spec, a, b) < 0 }
	want := refStable(less, in)
	work := make([]boxedRec, len(in))
	for i, r := range in {
		work[i] = boxedRec{R: r, Tags: []string{"t"}}
	}
	lessB := func(a, b boxedRec) bool { return less(a.R, b.R) }
	var gotB []boxedRec
	p, stack := vlib.Try(func() {
		switch c.Entry {
		case "Sort":
			fpgo.Sort(lessB, work)
			gotB = work
		case "SortSlice":
			gotB = fpgo.SortSlice(lessB, work...)
		}
	})
	vlib.S().Eval("uncomparable-elements")
	if len(in) >= 2 {
		vlib.S().NonTrivial("uncomparable-elements", fmt.Sprintf("%s|%s|n=%d|%s", c.Entry, c.specString(false), len(in), keyPattern(c)))
	}
	key, msg := "", ""
	if p != nil {
		key, msg = "C19/"+c.Entry+"/panic", fmt.Sprintf("sorting records that hold a slice (not comparable with ==) panicked: %v\n%s", p, firstFrames(stack))
	} else {
		got := make([]rec, len(gotB))
		for i, b := range gotB {
			got[i] = b.R
		}
		if !equalRecs(got, want) {
			key, msg = "C19/"+c.Entry+"/order", fmt.Sprintf("by [%s] input %s (boxed with a slice field): result %s, the stable order is %s", c.specString(false), recsString(in), recsString(got), recsString(want))
		}
	}
	if key != "" {
		if vlib.Fail(t, key, "%s", msg) {
			t.Skip("known finding")
		}
	}
}

func TestUncomparableElements(t *testing.T) {
	if vlib.Replaying() {
		t.Skip()
	}
	vlib.Check(t, "uncomparable-elements", 1500, 20000, propUncomparable)
}
