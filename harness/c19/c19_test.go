package c19

import (
	"encoding/json"
	"fmt"
	"math"
	"sort"
	"strings"
	"testing"

	fpgo "github.com/TeaEntityLab/fpGo/v2"
	"pgregory.net/rapid"

	"verifharness/vlib"
)

func TestMain(m *testing.M) { vlib.Main(m) }

// ---------------------------------------------------------------- records
//
// A record carries three small keys (many duplicates) and a unique id (its
// input position). The keys are stored in fpGo's own Comparable wrappers so
// that the same record type serves comparator sorts, transformer descriptors
// and field-name descriptors.

type rec struct {
	K1 fpgo.ComparableOrdered[int]
	K2 fpgo.ComparableString
	K3 fpgo.ComparableOrdered[string]
	ID int
}

var fieldNames = [3]string{"K1", "K2", "K3"}

func (r rec) String() string { return fmt.Sprintf("%d%q%q#%d", r.K1.Val, r.K2.Val, r.K3.Val, r.ID) }

// natural order of key k (int <, strings.Compare) — the oracle's order, never
// fpGo's CompareTo.
func cmpKey(k int, a, b rec) int {
	switch k {
	case 0:
		switch {
		case a.K1.Val < b.K1.Val:
			return -1
		case a.K1.Val > b.K1.Val:
			return 1
		}
		return 0
	case 1:
		return strings.Compare(a.K2.Val, b.K2.Val)
	default:
		return strings.Compare(a.K3.Val, b.K3.Val)
	}
}

// item is the serialisable form of a record (id = position).
type item struct {
	K1 int    `json:"k1"`
	K2 string `json:"k2"`
	K3 string `json:"k3"`
	// CopyOf > 0: this element is the very same record value (same id) as element CopyOf-1: lists may hold
	// one value several times, with other elements that tie with it in between
	CopyOf int `json:"copyOf,omitempty"`
}

// keySpec is one sort key: which key, direction and (descriptor sorts only)
// how the descriptor is put on the builder.
type keySpec struct {
	Key  int  `json:"key"`
	Desc bool `json:"desc"`
	// Mode: 0 ThenWithTransformerFunctor, 1 ThenWithFieldName, 2 ThenWith(NewSimpleSortDescriptor), 3 ThenWith(NewFieldSortDescriptor),
	// 4 / 5: as 2 / 3, but handed over together with the neighbouring mode-4/5 descriptors in ONE ThenWith(d1, d2, ...) call
	Mode int `json:"mode"`
}

var modeNames = [6]string{"fn", "field", "ThenWith(simple)", "ThenWith(field)", "ThenWith(..simple..)", "ThenWith(..field..)"}

type sortCase struct {
	// Wide: the int key K1 takes its four values from the extremes of int (MinInt, -1, 0, MaxInt)
	Wide bool `json:"wide,omitempty"`
	// Bytes: the string key K2 takes its four values from strings that are not text: "\xff", "\U00010400",
	// "M\xf6ller", "M\xfcller" (Latin-1 names, binary ids): the natural order of a Go string is that of its bytes
	Bytes bool      `json:"bytes,omitempty"`
	Entry string    `json:"entry"`
	Ptr   bool      `json:"ptr"` // descriptor sorts over []*rec instead of []rec
	Items []item    `json:"items"`
	Spec  []keySpec `json:"spec"`
}

func (c sortCase) specString(withMode bool) string {
	parts := make([]string, len(c.Spec))
	for i, k := range c.Spec {
		d := "asc"
		if k.Desc {
			d = "desc"
		}
		parts[i] = fieldNames[k.Key] + " " + d
		if withMode {
			parts[i] += " via " + modeNames[k.Mode]
		}
	}
	return strings.Join(parts, ", ")
}

func (c sortCase) recs() []rec {
	out := make([]rec, len(c.Items))
	for i, it := range c.Items {
		if it.CopyOf > 0 && it.CopyOf-1 < i {
			out[i] = out[it.CopyOf-1]
			continue
		}
		k1 := it.K1
		if c.Wide {
			switch {
			case k1 <= -2:
				k1 = math.MinInt
			case k1 >= 1:
				k1 = math.MaxInt
			}
		}
		k2 := it.K2
		if c.Bytes {
			k2 = map[string]string{"": "\xff", "a": "\U00010400", "ab": "M\xf6ller", "b": "M\xfcller"}[k2]
		}
		out[i] = rec{K1: fpgo.NewComparableOrdered(k1), K2: fpgo.NewComparableString(k2), K3: fpgo.NewComparableOrdered(it.K3), ID: i}
	}
	return out
}

// lexCompare: the lexicographic order induced by the spec (natural order per
// key, reversed for descending keys).
func lexCompare(spec []keySpec, a, b rec) int {
	for _, k := range spec {
		c := cmpKey(k.Key, a, b)
		if k.Desc {
			c = -c
		}
		if c != 0 {
			return c
		}
	}
	return 0
}

// refStable is the reference: a textbook stable insertion sort under a strict
// "comes before" relation.
func refStable[T any](less func(a, b T) bool, in []T) []T {
	out := append([]T(nil), in...)
	for i := 1; i < len(out); i++ {
		for j := i; j > 0 && less(out[j], out[j-1]); j-- {
			out[j], out[j-1] = out[j-1], out[j]
		}
	}
	return out
}

type outcome struct {
	failKey    string
	failMsg    string
	nontrivial bool
	desc       string
}

func recsString(rs []rec) string {
	parts := make([]string, len(rs))
	for i, r := range rs {
		parts[i] = r.String()
	}
	return "[" + strings.Join(parts, " ") + "]"
}

func keyPattern(c sortCase) string {
	var sb strings.Builder
	for _, it := range c.Items {
		fmt.Fprintf(&sb, "%d%s.%s ", it.K1, it.K2, it.K3)
	}
	return sb.String()
}

func sameIDs(a, b []rec) bool {
	if len(a) != len(b) {
		return false
	}
	x := make([]int, len(a))
	y := make([]int, len(b))
	for i := range a {
		x[i], y[i] = a[i].ID, b[i].ID
	}
	sort.Ints(x)
	sort.Ints(y)
	for i := range x {
		if x[i] != y[i] {
			return false
		}
	}
	return true
}

func equalRecs(a, b []rec) bool {
	if len(a) != len(b) {
		return false
	}
	for i := range a {
		if a[i] != b[i] {
			return false
		}
	}
	return true
}

func dupFirstKey(c sortCase) bool {
	in := c.recs()
	for i := range in {
		for j := i + 1; j < len(in); j++ {
			if cmpKey(c.Spec[0].Key, in[i], in[j]) == 0 {
				return true
			}
		}
	}
	return false
}

// ---------------------------------------------------------------- comparator sorts

var comparatorEntries = []string{
	"Sort", "SortSlice", "Stream.Sort", "Stream.SortByIndex",
	"StreamForInterface.Sort", "StreamForInterface.SortByIndex",
}

func toIface(rs []rec) []interface{} {
	out := make([]interface{}, len(rs))
	for i, r := range rs {
		out[i] = r
	}
	return out
}

func fromIface(xs []interface{}) ([]rec, bool) {
	out := make([]rec, len(xs))
	for i, x := range xs {
		r, ok := x.(rec)
		if !ok {
			return nil, false
		}
		out[i] = r
	}
	return out, true
}

func runComparator(c sortCase) (o outcome) {
	in := c.recs()
	less := func(a, b rec) bool { return lexCompare(c.Spec, a, b) < 0 }
	want := refStable(less, in)
	o.desc = fmt.Sprintf("%s|%s|n=%d|%s", c.Entry, c.specString(false), len(in), keyPattern(c))
	o.nontrivial = dupFirstKey(c) && !equalRecs(want, in)
	fail := func(kind, f string, a ...any) {
		if o.failKey == "" {
			o.failKey = "C19/" + c.Entry + "/" + kind
			o.failMsg = fmt.Sprintf(f, a...)
		}
	}
	var got []rec
	receiverChecked := false
	var receiverAfter []rec
	p, stack := vlib.Try(func() {
		work := append([]rec(nil), in...)
		switch c.Entry {
		case "Sort":
			fpgo.Sort(less, work)
			got = work
		case "SortSlice":
			got = fpgo.SortSlice(less, work...)
		case "Stream.Sort":
			s := fpgo.StreamFromArray(work)
			got = s.Sort(less).ToArray()
			receiverChecked, receiverAfter = true, s.ToArray()
		case "Stream.SortByIndex":
			s := fpgo.StreamFromArray(work)
			// the comparator reads the receiver's live elements by index, as
			// sort.SliceStable-style index comparators must (see the repo's TestSort)
			got = s.SortByIndex(func(i, j int) bool { return less(s.Get(i), s.Get(j)) }).ToArray()
			receiverChecked, receiverAfter = true, s.ToArray()
		case "StreamForInterface.Sort":
			s := fpgo.StreamForInterface.FromArray(toIface(work))
			r := s.Sort(func(a, b interface{}) bool { return less(a.(rec), b.(rec)) }).ToArray()
			var ok bool
			if got, ok = fromIface(r); !ok {
				fail("permutation", "result holds foreign elements: %v", r)
			}
			receiverChecked = true
			receiverAfter, _ = fromIface(s.ToArray())
		case "StreamForInterface.SortByIndex":
			s := fpgo.StreamForInterface.FromArray(toIface(work))
			r := s.SortByIndex(func(i, j int) bool { return less(s.Get(i).(rec), s.Get(j).(rec)) }).ToArray()
			var ok bool
			if got, ok = fromIface(r); !ok {
				fail("permutation", "result holds foreign elements: %v", r)
			}
			receiverChecked = true
			receiverAfter, _ = fromIface(s.ToArray())
		default:
			panic("harness: unknown entry " + c.Entry)
		}
	})
	if p != nil {
		fail("panic", "panic: %v\n%s", p, firstFrames(stack))
		return
	}
	if o.failKey != "" {
		return
	}
	if !equalRecs(got, want) {
		switch {
		case !sameIDs(got, in):
			fail("permutation", "by [%s] input %s: result %s is not a permutation", c.specString(false), recsString(in), recsString(got))
		case firstInversion(got, less) >= 0:
			i := firstInversion(got, less)
			fail("order", "by [%s] input %s: result %s has %v before %v", c.specString(false), recsString(in), recsString(got), got[i], got[i+1])
		default:
			fail("stability", "by [%s] input %s: result %s, stable order is %s", c.specString(false), recsString(in), recsString(got), recsString(want))
		}
		return
	}
	if receiverChecked && !equalRecs(receiverAfter, in) {
		fail("receiver-modified", "by [%s]: receiver was %s, is %s after the call", c.specString(false), recsString(in), recsString(receiverAfter))
	}
	return
}

// firstInversion returns the first i with got[i+1] strictly before got[i] (the
// comparator places a later element strictly before an earlier one), or -1.
// Checking all pairs is not needed for a strict weak order.
func firstInversion(got []rec, less func(a, b rec) bool) int {
	for i := 0; i+1 < len(got); i++ {
		if less(got[i+1], got[i]) {
			return i
		}
	}
	return -1
}

func firstFrames(stack string) string {
	var keep []string
	for _, l := range strings.Split(stack, "\n") {
		if strings.Contains(l, "fpGo") || strings.Contains(l, "/repo/") || strings.Contains(l, "/wt-") {
			keep = append(keep, strings.TrimSpace(l))
		}
		if len(keep) >= 6 {
			break
		}
	}
	return strings.Join(keep, "\n")
}

// ---------------------------------------------------------------- descriptor sorts

var descriptorEntries = []string{"ToSortedList", "SortedListBySortDescriptors", "builder.Sort", "SortBySortDescriptors"}

func transformerFor[T any](key int, get func(T) rec) fpgo.TransformerFunctor[T, fpgo.Comparable[interface{}]] {
	return func(x T) fpgo.Comparable[interface{}] {
		r := get(x)
		switch key {
		case 0:
			return r.K1
		case 1:
			return r.K2
		default:
			return r.K3
		}
	}
}

func buildDescriptors[T any](spec []keySpec, get func(T) rec) fpgo.SortDescriptorsBuilder[T] {
	b := fpgo.NewSortDescriptorsBuilder[T]()
	var batch []fpgo.SortDescriptor[T]
	flush := func() {
		if len(batch) > 0 {
			// the list handed over is the caller's (spread call, spare capacity): it is re-used for something
			// else right afterwards, which must not reach the builder
			mine := make([]fpgo.SortDescriptor[T], len(batch), len(batch)+2)
			copy(mine, batch)
			b = b.ThenWith(mine...)
			for i := range mine {
				mine[i] = fpgo.NewFieldSortDescriptor[T](fieldNames[(i+1)%3], i%2 == 0)
			}
			_ = append(mine, fpgo.NewFieldSortDescriptor[T](fieldNames[0], true))
			batch = nil
		}
	}
	for i, ks := range spec {
		if ks.Mode >= 4 {
			if ks.Mode == 4 {
				batch = append(batch, fpgo.NewSimpleSortDescriptor(transformerFor(ks.Key, get), !ks.Desc))
			} else {
				batch = append(batch, fpgo.NewFieldSortDescriptor[T](fieldNames[ks.Key], !ks.Desc))
			}
			if i == len(spec)-1 || spec[i+1].Mode < 4 {
				flush()
			}
			continue
		}
		// a sibling stack is derived from the same prefix AFTER the real one (see below): a builder is a
		// value, deriving another stack from a shared prefix must not change a stack derived earlier
		prev := b
		switch ks.Mode {
		case 0:
			b = b.ThenWithTransformerFunctor(transformerFor(ks.Key, get), !ks.Desc)
		case 1:
			b = b.ThenWithFieldName(fieldNames[ks.Key], !ks.Desc)
		case 2:
			b = b.ThenWith(fpgo.NewSimpleSortDescriptor(transformerFor(ks.Key, get), !ks.Desc))
		default:
			b = b.ThenWith(fpgo.NewFieldSortDescriptor[T](fieldNames[ks.Key], !ks.Desc))
		}
		// decoy sibling: other key, opposite direction, derived from the shared prefix
		_ = prev.ThenWithFieldName(fieldNames[(ks.Key+1)%3], ks.Desc)
		_ = prev.ThenWithTransformerFunctor(transformerFor((ks.Key+2)%3, get), ks.Desc)
	}
	return b
}

// callDescriptor runs one descriptor entry point over elements of type T and
// returns (result, input-after-the-call).
func callDescriptor[T any](c sortCase, in []T, get func(T) rec) (result []T, inputAfter []T, inPlace bool) {
	b := buildDescriptors(c.Spec, get)
	work := append([]T(nil), in...)
	switch c.Entry {
	case "ToSortedList":
		result = b.ToSortedList(work...)
	case "SortedListBySortDescriptors":
		result = fpgo.SortedListBySortDescriptors(b.GetSortDescriptors(), work...)
	case "builder.Sort":
		b.Sort(work)
		return work, work, true
	case "SortBySortDescriptors":
		fpgo.SortBySortDescriptors(b.GetSortDescriptors(), work)
		return work, work, true
	default:
		panic("harness: unknown entry " + c.Entry)
	}
	return result, work, false
}

func runDescriptor(c sortCase) (o outcome) {
	in := c.recs()
	want := refStable(func(a, b rec) bool { return lexCompare(c.Spec, a, b) < 0 }, in)
	o.desc = fmt.Sprintf("%s|ptr=%v|%s|n=%d|%s", c.Entry, c.Ptr, c.specString(true), len(in), keyPattern(c))
	o.nontrivial = dupFirstKey(c) && !equalRecs(want, in)
	fail := func(kind, f string, a ...any) {
		if o.failKey == "" {
			o.failKey = "C19/descriptor/" + kind
			o.failMsg = fmt.Sprintf(f, a...)
		}
	}
	var got, inputAfter []rec
	var inPlace bool
	p, stack := vlib.Try(func() {
		if c.Ptr {
			ptrs := make([]*rec, len(in))
			for i := range in {
				r := in[i]
				ptrs[i] = &r
			}
			res, after, ip := callDescriptor(c, ptrs, func(p *rec) rec { return *p })
			inPlace = ip
			for _, p := range res {
				got = append(got, *p)
			}
			for i, p := range after {
				if !ip && p != ptrs[i] {
					fail("input-modified", "%s by [%s]: input slot %d now holds another pointer", c.Entry, c.specString(true), i)
				}
				inputAfter = append(inputAfter, *p)
			}
			return
		}
		got, inputAfter, inPlace = callDescriptor(c, in, func(r rec) rec { return r })
	})
	if p != nil {
		fail("panic", "%s by [%s] on %s: panic: %v\n%s", c.Entry, c.specString(true), recsString(in), p, firstFrames(stack))
		return
	}
	if o.failKey != "" {
		return
	}
	// permutation by id, element contents untouched
	if !sameIDs(got, in) {
		fail("permutation", "%s by [%s] input %s: result %s is not a permutation", c.Entry, c.specString(true), recsString(in), recsString(got))
		return
	}
	for _, g := range got {
		if g != in[g.ID] {
			fail("permutation", "%s by [%s]: element #%d changed from %v to %v", c.Entry, c.specString(true), g.ID, in[g.ID], g)
			return
		}
	}
	// adjacent key tuples non-decreasing in the induced lexicographic order
	// (stability of descriptor sorts is not claimed and not asserted)
	for i := 0; i+1 < len(got); i++ {
		if lexCompare(c.Spec, got[i], got[i+1]) > 0 {
			fail("order", "%s by [%s] input %s: result %s has %v before %v", c.Entry, c.specString(true), recsString(in), recsString(got), got[i], got[i+1])
			return
		}
	}
	if !inPlace && !equalRecs(inputAfter, in) {
		fail("input-modified", "%s by [%s]: input was %s, is %s after the call", c.Entry, c.specString(true), recsString(in), recsString(inputAfter))
	}
	return
}

func runCase(c sortCase) outcome {
	for _, e := range descriptorEntries {
		if c.Entry == e {
			return runDescriptor(c)
		}
	}
	return runComparator(c)
}

// ---------------------------------------------------------------- regressions (replay tier)

var regressions = []sortCase{
	// DESIGN §4 #23: the descriptor comparison result was discarded, every
	// descriptor sort merely reversed its input.
	{Entry: "ToSortedList", Items: []item{{K1: 0}, {K1: 1}}, Spec: []keySpec{{Key: 0, Mode: 0}}},
	{Entry: "ToSortedList", Items: []item{{K1: 1}, {K1: 2}, {K1: 3}}, Spec: []keySpec{{Key: 0, Mode: 1}}},
	{Entry: "builder.Sort", Items: []item{{K1: 1}, {K1: 0}}, Spec: []keySpec{{Key: 0, Desc: true, Mode: 0}}},
	// ... and ComparableOrdered / ComparableString disagreed on the sign of CompareTo:
	// one int key and one string key in the same stack, every direction mix.
	{Entry: "ToSortedList", Items: []item{{K1: 1, K2: "a"}, {K1: 0, K2: "b"}, {K1: 1, K2: "b"}, {K1: 0, K2: "a"}}, Spec: []keySpec{{Key: 0, Mode: 0}, {Key: 1, Mode: 1}}},
	{Entry: "SortedListBySortDescriptors", Items: []item{{K1: 1, K2: "a"}, {K1: 0, K2: "b"}, {K1: 1, K2: "b"}, {K1: 0, K2: "a"}}, Spec: []keySpec{{Key: 1, Desc: true, Mode: 0}, {Key: 0, Mode: 1}}},
	{Entry: "SortBySortDescriptors", Ptr: true, Items: []item{{K2: "b", K3: "x"}, {K2: "a", K3: "y"}, {K2: "a", K3: "x"}}, Spec: []keySpec{{Key: 1, Mode: 2}, {Key: 2, Desc: true, Mode: 3}}},
	// the repo's own example (TestSortDescriptor): age descending, then name ascending
	{Entry: "ToSortedList", Items: []item{{K1: 30, K2: "BC"}, {K1: 30, K2: "AD"}, {K1: 50, K2: "AB"}}, Spec: []keySpec{{Key: 0, Desc: true, Mode: 0}, {Key: 1, Mode: 1}}},
	// comparator sorts: a list long enough to leave the insertion-sort regime
	{Entry: "Sort", Items: manyItems(24), Spec: []keySpec{{Key: 0}}},
	{Entry: "Stream.SortByIndex", Items: manyItems(24), Spec: []keySpec{{Key: 1, Desc: true}}},
}

func manyItems(n int) []item {
	out := make([]item, n)
	for i := range out {
		out[i] = item{K1: (i * 7) % 3, K2: string(rune('a' + (i*5)%2)), K3: "x"}
	}
	return out
}

func TestRegress(t *testing.T) {
	for i, c := range regressions {
		vlib.S().Eval("regress")
		o := runCase(c)
		if o.nontrivial {
			vlib.S().NonTrivial("regress", o.desc)
		}
		if o.failKey != "" {
			vlib.WriteReplay("C19/case", c)
			if vlib.Fail(t, o.failKey, "regression %d: %s", i, o.failMsg) {
				continue
			}
		}
	}
}

func TestReplayJSON(t *testing.T) {
	raw := vlib.ReplayCase("C19/case")
	if raw == nil {
		t.Skip("no replay case")
	}
	var c sortCase
	if err := json.Unmarshal(raw, &c); err != nil {
		t.Fatalf("bad replay: %v", err)
	}
	if o := runCase(c); o.failKey != "" {
		t.Fatalf("[key=%s] replay: %s", o.failKey, o.failMsg)
	}
}

// ---------------------------------------------------------------- generators

var k2Values = []string{"", "a", "ab", "b"}
var k3Values = []string{"x", "y"}

func genItems(t *rapid.T, maxLen int) []item {
	n := rapid.IntRange(0, maxLen).Draw(t, "n")
	// small key alphabet: one draw per record, decoded into the three keys
	out := make([]item, n)
	for i := range out {
		code := rapid.IntRange(0, 31).Draw(t, "keys")
		// K1 in {-2,-1,0,1}: negative keys, zero and positive keys (zero is an ordinary key value)
		out[i] = item{K1: code%4 - 2, K2: k2Values[(code/4)%4], K3: k3Values[code/16]}
	}
	// now and then the list holds some record values more than once
	if n >= 3 && rapid.IntRange(0, 3).Draw(t, "copies") == 0 {
		for k := rapid.IntRange(1, 4).Draw(t, "ncopies"); k > 0; k-- {
			i := rapid.IntRange(1, n-1).Draw(t, "copyAt")
			j := rapid.IntRange(0, i-1).Draw(t, "copyOf")
			if out[j].CopyOf == 0 {
				out[i] = out[j]
				out[i].CopyOf = j + 1
			}
		}
	}
	return out
}

func genSpec(t *rapid.T, maxKeys int, withMode bool) []keySpec {
	n := rapid.IntRange(1, maxKeys).Draw(t, "nkeys")
	spec := make([]keySpec, n)
	for i := range spec {
		spec[i] = keySpec{Key: rapid.IntRange(0, 2).Draw(t, "key"), Desc: rapid.Bool().Draw(t, "desc")}
		if withMode {
			spec[i].Mode = rapid.IntRange(0, 5).Draw(t, "mode")
		}
	}
	return spec
}

func account(part string, c sortCase, o outcome) {
	s := vlib.S()
	s.Eval(part)
	s.Class(part + "/entry=" + c.Entry)
	if len(c.Items) > 12 {
		s.Class(part + "/len>12")
	}
	s.Class(fmt.Sprintf("%s/keys=%d", part, len(c.Spec)))
	if o.nontrivial {
		s.NonTrivial(part+"/"+c.Entry, o.desc)
		s.Class(part + "/nontrivial")
	} else {
		s.Class(part + "/trivial")
	}
}

func propComparator(t *rapid.T) {
	c := sortCase{
		Entry: rapid.SampledFrom(comparatorEntries).Draw(t, "entry"),
		Wide:  rapid.IntRange(0, 3).Draw(t, "wide") == 0,
		Bytes: rapid.IntRange(0, 3).Draw(t, "bytes") == 0,
		Items: genItems(t, 40),
		Spec:  genSpec(t, 2, false),
	}
	o := runComparator(c)
	account("comparator", c, o)
	if o.failKey != "" {
		if vlib.Fail(t, o.failKey, "%s", o.failMsg) {
			t.Skip("known finding")
		}
	}
}

func propDescriptor(t *rapid.T) {
	c := sortCase{
		Entry: rapid.SampledFrom(descriptorEntries).Draw(t, "entry"),
		Wide:  rapid.IntRange(0, 3).Draw(t, "wide") == 0,
		Bytes: rapid.IntRange(0, 3).Draw(t, "bytes") == 0,
		Ptr:   rapid.Bool().Draw(t, "ptr"),
		Items: genItems(t, 30),
		Spec:  genSpec(t, 3, true),
	}
	o := runDescriptor(c)
	account("descriptor", c, o)
	if o.failKey != "" {
		if vlib.Fail(t, o.failKey, "%s", o.failMsg) {
			t.Skip("known finding")
		}
	}
}

// rec2 has the same field NAMES as rec at different positions (and an extra leading field):
// a field-name based descriptor must resolve the name per record type. It also carries a slice, as
// records do: the element type of a sort is "any", not "comparable" - two records are never compared
// with == by anything but the given keys.
type rec2 struct {
	Tags []string
	Pad  int
	K3   fpgo.ComparableOrdered[string]
	ID   int
	K1   fpgo.ComparableOrdered[int]
	K2   fpgo.ComparableString
}

func propSecondType(t *rapid.T) {
	c := sortCase{Entry: "ToSortedList", Items: genItems(t, 20), Spec: genSpec(t, 3, true)}
	for i := range c.Items {
		c.Items[i].CopyOf = 0 // this part identifies elements by their unique id
	}
	for i := range c.Spec {
		c.Spec[i].Mode = []int{1, 3, 5}[c.Spec[i].Mode%3] // field-name based modes only
	}
	in := c.recs()
	// sort the first type too, so that both types are live in the same process
	if o := runDescriptor(c); o.failKey != "" {
		if vlib.Fail(t, o.failKey, "%s", o.failMsg) {
			t.Skip("known finding")
		}
	}
	in2 := make([]rec2, len(in))
	in3 := make([]rec3, len(in))
	for i, r := range in {
		in2[i] = rec2{Tags: []string{"t"}, Pad: 1000 - i, K3: r.K3, ID: r.ID, K1: r.K1, K2: r.K2}
		in3[i] = rec3{keys3: keys3{Lead: i, K2: r.K2, K1: r.K1, K3: r.K3}, ID: r.ID}
	}
	checkOtherType(t, c, in, in2, func(r rec2) rec { return rec{K1: r.K1, K2: r.K2, K3: r.K3, ID: r.ID} }, "a second record type (same field names at other positions)")
	checkOtherType(t, c, in, in3, func(r rec3) rec { return rec{K1: r.K1, K2: r.K2, K3: r.K3, ID: r.ID} }, "a record type whose key fields are promoted from an embedded struct")
}

// keys3 / rec3: the key fields live in an embedded struct and are promoted to the record (r.K1 is
// r.keys3.K1): a field-name based descriptor names them like any other field of the record.
type keys3 struct {
	Lead int
	K2   fpgo.ComparableString
	K1   fpgo.ComparableOrdered[int]
	K3   fpgo.ComparableOrdered[string]
}

type rec3 struct {
	keys3
	ID int
}

func checkOtherType[T any](t *rapid.T, c sortCase, in []rec, in2 []T, get func(T) rec, what string) {
	b := buildDescriptors(c.Spec, get)
	var got []T
	p, stack := vlib.Try(func() { got = b.ToSortedList(in2...) })
	vlib.S().Eval("descriptor-second-type")
	desc := fmt.Sprintf("%T|%s|n=%d", *new(T), c.specString(true), len(in))
	if len(in) >= 2 {
		vlib.S().NonTrivial("descriptor-second-type", desc)
	}
	key, msg := "", ""
	switch {
	case p != nil:
		key, msg = "C19/descriptor/second-type-panic", fmt.Sprintf("sorting %s by [%s] panicked: %v\n%s", what, c.specString(true), p, firstFrames(stack))
	case len(got) != len(in2):
		key, msg = "C19/descriptor/second-type", fmt.Sprintf("result has %d elements, input %d", len(got), len(in2))
	default:
		seen := map[int]bool{}
		for i, gt := range got {
			g := get(gt)
			if seen[g.ID] || g.ID < 0 || g.ID >= len(in) {
				key, msg = "C19/descriptor/second-type", "result is not a permutation of the input"
				break
			}
			seen[g.ID] = true
			if i+1 < len(got) {
				bb := get(got[i+1])
				if lexCompare(c.Spec, g, bb) > 0 {
					key, msg = "C19/descriptor/second-type", fmt.Sprintf("%s sorted by [%s]: %v comes before %v", what, c.specString(true), g, bb)
					break
				}
			}
		}
	}
	if key != "" {
		if vlib.Fail(t, key, "%s", msg) {
			t.Skip("known finding")
		}
	}
}

func TestDescriptorSecondType(t *testing.T) {
	vlib.Check(t, "descriptor-second-type", 3000, 30000, propSecondType)
}

func TestComparatorSorts(t *testing.T) {
	vlib.Check(t, "comparator", 12000, 120000, propComparator)
}

func TestDescriptorSorts(t *testing.T) {
	vlib.Check(t, "descriptor", 12000, 120000, propDescriptor)
}

// ---------------------------------------------------------------- SortOrdered*

var orderedFns = []string{"SortOrdered", "SortOrderedAscending/Descending"}

func callOrdered[T fpgo.Ordered](fn string, asc bool, in []T) []T {
	work := append([]T(nil), in...)
	if fn == "SortOrdered" {
		return fpgo.SortOrdered(asc, work...)
	}
	if asc {
		return fpgo.SortOrderedAscending(work...)
	}
	return fpgo.SortOrderedDescending(work...)
}

// checkOrdered compares with the reference stable sort under natural < (or >).
// ident tells elements apart beyond == (bit pattern for floats: +0 / -0 are
// not distinguished by the comparator and must keep their input order).
func checkOrdered[T fpgo.Ordered](t *rapid.T, typ, fn string, asc bool, in []T, ident func(T) string) {
	s := vlib.S()
	s.Eval("ordered")
	s.Class("ordered/type=" + typ)
	less := func(a, b T) bool { return a < b }
	if !asc {
		less = func(a, b T) bool { return a > b }
	}
	want := refStable(less, in)
	render := func(xs []T) string {
		parts := make([]string, len(xs))
		for i, x := range xs {
			parts[i] = ident(x)
		}
		return "[" + strings.Join(parts, " ") + "]"
	}
	dup := false
	seen := map[string]bool{}
	for _, x := range in {
		if seen[ident(x)] {
			dup = true
		}
		seen[ident(x)] = true
	}
	if dup && render(want) != render(in) {
		s.NonTrivial("ordered/"+typ, fmt.Sprintf("%s|%s|asc=%v|%s", fn, typ, asc, render(in)))
		s.Class("ordered/nontrivial")
	} else {
		s.Class("ordered/trivial")
	}
	var got []T
	if p, stack := vlib.Try(func() { got = callOrdered(fn, asc, in) }); p != nil {
		if vlib.Fail(t, "C19/"+fn+"/panic", "%s(asc=%v) on %s %s: panic %v\n%s", fn, asc, typ, render(in), p, firstFrames(stack)) {
			t.Skip("known finding")
		}
	}
	if render(got) != render(want) {
		if vlib.Fail(t, "C19/"+fn+"/"+typ, "%s(asc=%v) on %s: input %s result %s, stable sorted order is %s", fn, asc, typ, render(in), render(got), render(want)) {
			t.Skip("known finding")
		}
	}
}

var floatPool = []float64{math.Inf(-1), -2.5, -1, math.Copysign(0, -1), 0, 0.5, 1, 1e300, math.Inf(1)}
var stringPool = []string{"", "a", "A", "ab", "b", "ba", "é", "~"}

func propOrdered(t *rapid.T) {
	fn := rapid.SampledFrom(orderedFns).Draw(t, "fn")
	asc := rapid.Bool().Draw(t, "asc")
	n := rapid.IntRange(0, 40).Draw(t, "n")
	switch rapid.IntRange(0, 2).Draw(t, "type") {
	case 0:
		in := make([]int, n)
		pool := []int{-3, -2, -1, 0, 1, 2, 3}
		if rapid.IntRange(0, 2).Draw(t, "wide") == 0 {
			// the whole range of int, extremes included (differences of two keys need not fit an int)
			pool = []int{math.MinInt, math.MinInt + 1, -1 << 40, -1, 0, 1, 1 << 40, math.MaxInt - 1, math.MaxInt}
		}
		for i := range in {
			in[i] = rapid.SampledFrom(pool).Draw(t, "v")
		}
		checkOrdered(t, "int", fn, asc, in, func(x int) string { return fmt.Sprint(x) })
	case 1:
		in := make([]string, n)
		for i := range in {
			in[i] = rapid.SampledFrom(stringPool).Draw(t, "v")
		}
		checkOrdered(t, "string", fn, asc, in, func(x string) string { return fmt.Sprintf("%q", x) })
	default:
		in := make([]float64, n)
		for i := range in {
			in[i] = rapid.SampledFrom(floatPool).Draw(t, "v")
		}
		checkOrdered(t, "float64", fn, asc, in, func(x float64) string {
			if x == 0 && math.Signbit(x) {
				return "-0"
			}
			return fmt.Sprint(x)
		})
	}
}

func TestOrderedSorts(t *testing.T) {
	vlib.Check(t, "ordered", 6000, 60000, propOrdered)
}
