package c19

import (
	"encoding/json"
	"fmt"
	"sync"
	"testing"

	fpgo "github.com/TeaEntityLab/fpGo/v2"
	"pgregory.net/rapid"

	"verifharness/vlib"
)

// Part "shared-stream": Stream.Sort / StreamForInterface.Sort return a sorted copy and leave the
// receiver alone, so one stream value can be sorted by several goroutines at once (each with its own
// comparator), the way any immutable value can be shared. Every single result must still be the
// ordered, stable permutation of the stream's elements, and the stream is the same afterwards.
// (SortByIndex is not part of this: it works on the receiver's own array by contract.)

type sharedSortCase struct {
	Iface bool        `json:"iface"`
	Items []item      `json:"items"`
	Specs [][]keySpec `json:"specs"` // one per goroutine
	Reps  int         `json:"reps"`
}

func (c sharedSortCase) String() string { b, _ := json.Marshal(c); return string(b) }

func runSharedSort(c sharedSortCase) (key, msg string) {
	in := sortCase{Items: c.Items}.recs()
	g := fpgo.StreamFromArray(append([]rec(nil), in...))
	f := fpgo.StreamForInterface.FromArray(toIface(in))
	type bad struct{ key, msg string }
	var mu sync.Mutex
	var first *bad
	report := func(k, m string) {
		mu.Lock()
		if first == nil {
			first = &bad{k, m}
		}
		mu.Unlock()
	}
	var wg sync.WaitGroup
	start := make(chan struct{})
	for gi, spec := range c.Specs {
		wg.Add(1)
		go func(gi int, spec []keySpec) {
			defer wg.Done()
			less := func(a, b rec) bool { return lexCompare(spec, a, b) < 0 }
			want := refStable(less, in)
			<-start
			for r := 0; r < c.Reps; r++ {
				var got []rec
				p, st := vlib.Try(func() {
					if c.Iface {
						out := f.Sort(func(a, b interface{}) bool { return less(a.(rec), b.(rec)) }).ToArray()
						var ok bool
						if got, ok = fromIface(out); !ok {
							report("C19/shared-stream/permutation", fmt.Sprintf("goroutine %d: result holds foreign elements %v", gi, out))
						}
					} else {
						got = g.Sort(less).ToArray()
					}
				})
				if p != nil {
					report("C19/shared-stream/panic", fmt.Sprintf("goroutine %d: %v\n%s", gi, p, firstFrames(st)))
					return
				}
				if !equalRecs(got, want) {
					kind := "stability"
					if !sameIDs(got, in) {
						kind = "permutation"
					} else if firstInversion(got, less) >= 0 {
						kind = "order"
					}
					report("C19/shared-stream/"+kind, fmt.Sprintf("goroutine %d, sort #%d of the shared stream %s by [%s]: result %s, want %s", gi, r, recsString(in), sortCase{Spec: spec}.specString(false), recsString(got), recsString(want)))
					return
				}
			}
		}(gi, spec)
	}
	close(start)
	wg.Wait()
	if first != nil {
		return first.key, first.msg
	}
	after := g.ToArray()
	if c.Iface {
		after, _ = fromIface(f.ToArray())
	}
	if !equalRecs(after, in) {
		return "C19/shared-stream/receiver-modified", fmt.Sprintf("the shared stream was %s, is %s after the sorts", recsString(in), recsString(after))
	}
	return "", ""
}

func TestSharedStream(t *testing.T) {
	if vlib.Replaying() {
		raw := vlib.ReplayCase("C19/shared-stream")
		if raw == nil {
			return
		}
		var c sharedSortCase
		if err := json.Unmarshal(raw, &c); err != nil {
			t.Fatal(err)
		}
		for i := 0; i < 200; i++ {
			if key, msg := runSharedSort(c); key != "" {
				t.Fatalf("[key=%s] %s", key, msg)
			}
		}
		return
	}
	vlib.Check(t, "shared-stream", 400, 6000, func(t *rapid.T) {
		c := sharedSortCase{Iface: rapid.Bool().Draw(t, "iface"), Items: genItems(t, 60), Reps: rapid.IntRange(1, 8).Draw(t, "reps")}
		for i, n := 0, rapid.IntRange(1, 4).Draw(t, "goroutines"); i < n; i++ {
			c.Specs = append(c.Specs, genSpec(t, 2, false))
		}
		vlib.S().Eval("shared-stream")
		if len(c.Specs) >= 2 && len(c.Items) >= 8 {
			vlib.S().NonTrivial("shared-stream", fmt.Sprintf("iface=%v n=%d goroutines=%d reps=%d", c.Iface, len(c.Items), len(c.Specs), c.Reps))
		}
		if key, msg := runSharedSort(c); key != "" {
			vlib.WriteReplay("C19/shared-stream", c)
			if vlib.Fail(t, key, "%s", msg) {
				t.Skip("known finding")
			}
		}
	})
}
