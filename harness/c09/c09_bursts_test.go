package c09

import (
	"encoding/json"
	"fmt"
	"sync/atomic"
	"testing"
	"time"

	fpgo "github.com/TeaEntityLab/fpGo/v2"
	"github.com/TeaEntityLab/fpGo/v2/worker"
	"pgregory.net/rapid"

	"verifharness/vlib"
)

// Part "bursts": "whatever the submission pattern": several bursts, each much larger than the job
// queue's channel, with idle phases in between that are long enough for the queue's house-keeping
// (trimming its spare nodes down to a small nodeHookPoolSize) to run. Every accepted job of every burst
// runs exactly once; the process survives.

type burstsCase struct {
	Workers  int   `json:"workers"`
	ChanCap  int   `json:"chanCap"`
	NodePool int   `json:"nodePool"`
	Bursts   []int `json:"bursts"`
	IdleUs   int   `json:"idleUs"`
	SlowUs   int   `json:"slowUs"` // the first job of every burst keeps a worker busy that long
}

func (c burstsCase) String() string { b, _ := json.Marshal(c); return string(b) }

func runBursts(c burstsCase) (key, msg string, inconclusive bool) {
	schedMu.Lock()
	defer schedMu.Unlock()
	q := fpgo.NewBufferedChannelQueue[func()](c.ChanCap, 100000, c.NodePool).
		SetLoadFromPoolDuration(20 * time.Microsecond).
		SetFreeNodeHookPoolIntervalDuration(200 * time.Microsecond)
	pool := worker.NewDefaultWorkerPool(q, nil).
		SetWorkerSizeMaximum(c.Workers).SetWorkerSizeStandBy(c.Workers).SetWorkerBatchSize(1).
		SetSpawnWorkerDuration(100 * time.Microsecond).SetWorkerExpiryDuration(time.Hour).
		SetWorkerJamDuration(time.Hour).SetScheduleRetryInterval(50 * time.Microsecond)
	defer pool.Close()
	var handled int32
	pool.SetPanicHandler(func(interface{}) { atomic.AddInt32(&handled, 1) })
	total := 0
	for _, n := range c.Bursts {
		total += n
	}
	runs := make([]int32, total)
	id := 0
	for bi, n := range c.Bursts {
		first := id
		for j := 0; j < n; j++ {
			k := id
			slow := j == 0
			if err := pool.Schedule(func() {
				if slow {
					time.Sleep(time.Duration(c.SlowUs) * time.Microsecond)
				}
				atomic.AddInt32(&runs[k], 1)
			}); err != nil {
				return "", "", true // a refusal is not this part's business
			}
			id++
		}
		ok := vlib.WaitUntil(vlib.StallBudget(), func() bool {
			for k := first; k < id; k++ {
				if atomic.LoadInt32(&runs[k]) == 0 {
					return false
				}
			}
			return true
		})
		if !ok {
			missing := 0
			for k := first; k < id; k++ {
				if atomic.LoadInt32(&runs[k]) == 0 {
					missing++
				}
			}
			return "C09/stranded", fmt.Sprintf("burst %d: %d of its %d accepted jobs were not executed within %v (queue Count()=%d, pool left open)", bi, missing, n, vlib.StallBudget(), q.Count()), false
		}
		time.Sleep(time.Duration(c.IdleUs) * time.Microsecond)
	}
	for k, r := range runs {
		if r != 1 {
			return "C09/ran-twice", fmt.Sprintf("job %d executed %d times", k, r), false
		}
	}
	if h := atomic.LoadInt32(&handled); h != 0 {
		return "C09/panic-handler", fmt.Sprintf("panic handler invoked %d times although no job panicked", h), false
	}
	return "", "", false
}

func TestBursts(t *testing.T) {
	if vlib.Replaying() {
		raw := vlib.ReplayCase("C09/bursts")
		if raw == nil {
			return
		}
		var c burstsCase
		if err := json.Unmarshal(raw, &c); err != nil {
			t.Fatal(err)
		}
		for i := 0; i < 5; i++ {
			if key, msg, _ := runBursts(c); key != "" {
				t.Fatalf("[key=%s] %s", key, msg)
			}
		}
		return
	}
	vlib.Check(t, "bursts", 40, 400, func(t *rapid.T) {
		c := burstsCase{Workers: rapid.IntRange(1, 3).Draw(t, "workers"), ChanCap: rapid.IntRange(2, 8).Draw(t, "chanCap"),
			NodePool: rapid.IntRange(1, 3).Draw(t, "nodePool"), IdleUs: rapid.SampledFrom([]int{500, 1500, 4000}).Draw(t, "idleUs"),
			SlowUs: rapid.SampledFrom([]int{0, 300, 1500}).Draw(t, "slowUs")}
		c.Bursts = rapid.SliceOfN(rapid.IntRange(8, 48), 3, 6).Draw(t, "bursts")
		vlib.S().Eval("bursts")
		key, msg, inc := runBursts(c)
		if inc {
			vlib.S().Class("bursts/inconclusive")
			return
		}
		vlib.S().NonTrivial("bursts", c.String())
		if key != "" {
			vlib.WriteReplay("C09/bursts", c)
			if vlib.Fail(t, key, "%v: %s", c, msg) {
				t.Skip("known")
			}
		}
	})
}
