package c09

import (
	"encoding/json"
	"fmt"
	"runtime"
	"strings"
	"sync"
	"sync/atomic"
	"testing"
	"time"

	fpgo "github.com/TeaEntityLab/fpGo/v2"
	"github.com/TeaEntityLab/fpGo/v2/worker"
	"pgregory.net/rapid"

	"verifharness/vlib"
)

func TestMain(m *testing.M) { vlib.Main(m) }

var schedMu sync.Mutex

// rejectedRan counts rejected jobs that ran anyway, over the whole process
// (checked again at the very end: "a rejected job is never run").
var rejectedRan int64

type poolCfg struct {
	Max      int `json:"max"`
	StandBy  int `json:"standBy"`
	Batch    int `json:"batch"`
	ChanCap  int `json:"chanCap"`
	Buffer   int `json:"buffer"`
	SpawnUs  int `json:"spawnUs"`
	ExpiryUs int `json:"expiryUs"` // 0 = 10 minutes
	JamUs    int `json:"jamUs"`
	// NodePool: nodeHookPoolSize of the job queue (0 in old replay files = 100); small values make the queue's
	// house-keeping goroutine trim spare nodes between bursts
	NodePool int `json:"nodePool"`
}

func (c poolCfg) String() string {
	return fmt.Sprintf("max=%d standby=%d batch=%d chan=%d buf=%d spawn=%dus expiry=%dus jam=%dus nodePool=%d", c.Max, c.StandBy, c.Batch, c.ChanCap, c.Buffer, c.SpawnUs, c.ExpiryUs, c.JamUs, c.NodePool)
}

const (
	durInstant = iota
	durYield
	durSleep
	durGated
)

type jobSpec struct {
	Dur    int  `json:"dur"`
	N      int  `json:"n"`
	Panics bool `json:"panics"`
	// PanicKind: what a panicking job panics with: 0 its id (an int), 1 a Go runtime error (write to a nil map),
	// 2 an error value, 3 a string, 4 a runtime error (index out of range)
	PanicKind int `json:"panicKind"`
}

const (
	apiSchedule = iota
	apiScheduleTimeout
	apiInvoke
	apiInvokeTimeout
)

type submission struct {
	Job      int  `json:"job"`
	API      int  `json:"api"`
	Generous bool `json:"generous"`         // timeout 300ms instead of 100us
	NoWait   int  `json:"noWait,omitempty"` // 1: timeout 0, 2: timeout -1ms (boundary values; overrides Generous)
	Gap      int  `json:"gap"`              // yields after the submission
}

type phase struct {
	Subs      [][]submission `json:"subs"`
	GateAfter int            `json:"gateAfter"` // the gate of this phase opens after that many submission attempts
	WaitIdle  bool           `json:"waitIdle"`
	SleepUs   int            `json:"sleepUs"`
}

type scenario struct {
	Cfg          poolCfg   `json:"cfg"`
	Jobs         []jobSpec `json:"jobs"`
	Phases       []phase   `json:"phases"`
	Close        bool      `json:"close"`
	DirectedExit bool      `json:"directedExit"` // park exiting workers until a trySpawn completed
	// PreAlloc > 0: that many goroutines call PreAllocWorkerSize(PreAllocN) concurrently with the
	// first phase's submissions (workerSizeMaximum must hold against this public entry point too)
	PreAlloc  int `json:"preAlloc"`
	PreAllocN int `json:"preAllocN"`
	// NilHandler: no panic handler is installed (SetPanicHandler(nil)); job panics must still be contained
	NilHandler bool `json:"nilHandler"`
	// ReplaceHandler: after every phase that ends with wait-for-idle a new panic handler is installed
	ReplaceHandler bool `json:"replaceHandler"`
	// KeepQueueOpen: SetIsJobQueueClosedWhenClose(false): Close() only closes the pool, not the job queue
	KeepQueueOpen bool `json:"keepQueueOpen"`
	// ViaSetters: the job queue and the Invokables are installed through SetJobQueue / SetWorkerPool / SetCallee
	ViaSetters bool      `json:"viaSetters"`
	Plan       vlib.Plan `json:"plan"`
}

func (s scenario) String() string {
	var sb strings.Builder
	sb.WriteString(s.Cfg.String())
	sb.WriteString(" jobs=")
	for _, j := range s.Jobs {
		sb.WriteByte("iysg"[j.Dur])
		if j.Panics {
			sb.WriteByte('!')
		}
	}
	for i, p := range s.Phases {
		fmt.Fprintf(&sb, " phase%d[gate@%d idle=%v sleep=%d", i, p.GateAfter, p.WaitIdle, p.SleepUs)
		for _, subs := range p.Subs {
			sb.WriteString(" <")
			for _, x := range subs {
				fmt.Fprintf(&sb, "%d%c", x.Job, "STIJ"[x.API])
				if x.Generous {
					sb.WriteByte('+')
				}
				if x.NoWait > 0 {
					sb.WriteByte('0')
				}
			}
			sb.WriteString(">")
		}
		sb.WriteString("]")
	}
	fmt.Fprintf(&sb, " close=%v directedExit=%v preAlloc=%dx(%d) nilHandler=%v replaceHandler=%v keepQueueOpen=%v viaSetters=%v plan=%v", s.Close, s.DirectedExit, s.PreAlloc, s.PreAllocN, s.NilHandler, s.ReplaceHandler, s.KeepQueueOpen, s.ViaSetters, s.Plan)
	return sb.String()
}

var poolPoints = []string{"pool.worker.afterClosedCheck", "pool.worker.gotJob", "pool.worker.exit", "pool.worker.expiry",
	"pool.schedule.afterClosedCheck", "pool.trySpawn.entry", "pool.trySpawn.exit", "pool.spawnLoop.wake", "pool.spawnLoop.beforeSleep"}

func genScenario(t *rapid.T) scenario {
	var s scenario
	c := &s.Cfg
	c.Max = rapid.IntRange(1, 4).Draw(t, "max")
	if rapid.IntRange(0, 5).Draw(t, "standby0") == 0 {
		c.StandBy = 0
		c.Batch = rapid.IntRange(1, 3).Draw(t, "batch")
		c.ExpiryUs = 0
	} else {
		c.StandBy = rapid.IntRange(1, 2).Draw(t, "standby")
		c.Batch = rapid.IntRange(0, 3).Draw(t, "batch")
		c.ExpiryUs = rapid.SampledFrom([]int{1000, 5000, 0}).Draw(t, "expiry")
	}
	c.ChanCap = rapid.IntRange(1, 3).Draw(t, "chanCap")
	c.Buffer = rapid.SampledFrom([]int{0, 1, 2, 5, 20}).Draw(t, "buffer")
	c.SpawnUs = rapid.SampledFrom([]int{50, 200, 1000}).Draw(t, "spawnUs")
	c.JamUs = rapid.SampledFrom([]int{1000, 1000000}).Draw(t, "jamUs")
	c.NodePool = rapid.SampledFrom([]int{100, 100, 1, 2, 3}).Draw(t, "nodePool")
	nj := rapid.IntRange(1, 60).Draw(t, "jobs")
	faults := rapid.SampledFrom([]string{"none", "none", "first", "last", "everyK", "random"}).Draw(t, "faults")
	k := rapid.IntRange(2, 5).Draw(t, "k")
	for i := 0; i < nj; i++ {
		var j jobSpec
		j.Dur = rapid.SampledFrom([]int{durInstant, durInstant, durYield, durSleep, durGated}).Draw(t, "dur")
		switch j.Dur {
		case durYield:
			j.N = rapid.IntRange(1, 20).Draw(t, "n")
		case durSleep:
			j.N = rapid.IntRange(20, 2000).Draw(t, "us")
		}
		j.PanicKind = rapid.SampledFrom([]int{0, 0, 0, 1, 2, 3, 4}).Draw(t, "panicKind")
		switch faults {
		case "first":
			j.Panics = i == 0
		case "last":
			j.Panics = i == nj-1
		case "everyK":
			j.Panics = i%k == 0
		case "random":
			j.Panics = rapid.IntRange(0, 3).Draw(t, "p") == 0
		}
		s.Jobs = append(s.Jobs, j)
	}
	// distribute jobs over phases and submitters
	np := rapid.IntRange(1, 3).Draw(t, "phases")
	bounds := []int{0}
	for i := 1; i < np; i++ {
		bounds = append(bounds, rapid.IntRange(bounds[len(bounds)-1], nj).Draw(t, "bound"))
	}
	bounds = append(bounds, nj)
	for pi := 0; pi < np; pi++ {
		var p phase
		ns := rapid.IntRange(1, 3).Draw(t, "submitters")
		p.Subs = make([][]submission, ns)
		trickle := rapid.Bool().Draw(t, "trickle")
		for ji := bounds[pi]; ji < bounds[pi+1]; ji++ {
			sub := submission{Job: ji, API: rapid.SampledFrom([]int{apiSchedule, apiSchedule, apiScheduleTimeout, apiInvoke, apiInvokeTimeout}).Draw(t, "api")}
			if sub.API == apiScheduleTimeout || sub.API == apiInvokeTimeout {
				sub.Generous = rapid.Bool().Draw(t, "generous")
				sub.NoWait = rapid.SampledFrom([]int{0, 0, 0, 1, 2}).Draw(t, "noWait")
			}
			if trickle {
				sub.Gap = rapid.IntRange(0, 10).Draw(t, "gap")
			}
			who := rapid.IntRange(0, ns-1).Draw(t, "who")
			p.Subs[who] = append(p.Subs[who], sub)
		}
		p.GateAfter = rapid.IntRange(0, bounds[pi+1]-bounds[pi]).Draw(t, "gateAfter")
		p.WaitIdle = rapid.Bool().Draw(t, "waitIdle")
		p.SleepUs = rapid.SampledFrom([]int{0, 0, 500, 3000}).Draw(t, "sleepUs")
		s.Phases = append(s.Phases, p)
	}
	s.Close = rapid.IntRange(0, 3).Draw(t, "close") == 0
	s.DirectedExit = rapid.IntRange(0, 3).Draw(t, "directedExit") == 0
	if rapid.IntRange(0, 2).Draw(t, "preAlloc") == 0 {
		s.PreAlloc = rapid.IntRange(1, 3).Draw(t, "preAllocCallers")
		s.PreAllocN = rapid.IntRange(1, c.Max+2).Draw(t, "preAllocN")
	}
	s.NilHandler = rapid.IntRange(0, 4).Draw(t, "nilHandler") == 0
	s.ReplaceHandler = rapid.Bool().Draw(t, "replaceHandler")
	s.KeepQueueOpen = rapid.IntRange(0, 3).Draw(t, "keepQueueOpen") == 0
	s.ViaSetters = rapid.IntRange(0, 3).Draw(t, "viaSetters") == 0
	s.Plan = vlib.DrawPlan(t, poolPoints, 6)
	return s
}

type result struct {
	failKey, failMsg string
	nontrivial       bool
	inconclusive     string
}

const (
	stUnknown = iota
	stAccepted
	stRejected
	stMaybe // Invoke: no result
)

func runScenario(s scenario) result {
	var res result
	schedMu.Lock()
	defer schedMu.Unlock()
	var failMu sync.Mutex
	fail := func(k, f string, a ...any) {
		failMu.Lock()
		if res.failKey == "" {
			res.failKey, res.failMsg = k, fmt.Sprintf(f, a...)
		}
		failMu.Unlock()
	}
	plan := vlib.Plan{}
	for k, v := range s.Plan {
		plan[k] = v
	}
	if s.DirectedExit {
		var acts []vlib.Action
		for i := 0; i < 8; i++ {
			acts = append(acts, vlib.Action{Kind: vlib.ActPark, Event: "trySpawn-after-exit", D: 3 * time.Millisecond})
		}
		plan["pool.worker.exit"] = acts
	}
	sched := vlib.NewSched(plan)
	var exitSeen int32
	sched.OnPoint = func(point string, obj any) {}
	c := s.Cfg
	nodePool := c.NodePool
	if nodePool == 0 {
		nodePool = 100
	}
	q := fpgo.NewBufferedChannelQueue[func()](c.ChanCap, c.Buffer, nodePool).
		SetLoadFromPoolDuration(20 * time.Microsecond).
		SetFreeNodeHookPoolIntervalDuration(300 * time.Microsecond)
	expiry := time.Duration(c.ExpiryUs) * time.Microsecond
	if c.ExpiryUs == 0 {
		expiry = 10 * time.Minute
	}
	var handlerMu sync.Mutex
	handlerCalls := map[int]int{}
	handlerBad := ""
	handlerGen := map[int]int{} // generation of the handler that was told about job id
	var curJob sync.Map         // goroutine id -> id of the job that goroutine runs (the handler runs on the worker that ran the job)
	mkHandler := func(g int) func(interface{}) {
		return func(p interface{}) {
			handlerMu.Lock()
			defer handlerMu.Unlock()
			id, isID := p.(int)
			if !isID {
				cur, ok := curJob.Load(vlib.GoID())
				if !ok {
					handlerBad = fmt.Sprintf("panic handler invoked with %v (%T) on a goroutine that ran no job", p, p)
					return
				}
				id = cur.(int)
				want := ""
				switch s.Jobs[id].PanicKind {
				case 1:
					want = "assignment to entry in nil map"
				case 2, 3:
					want = fmt.Sprintf("job %d failed", id)
				case 4:
					want = "index out of range"
				}
				if !s.Jobs[id].Panics || s.Jobs[id].PanicKind == 0 || !strings.Contains(fmt.Sprint(p), want) {
					handlerBad = fmt.Sprintf("panic handler invoked with %v (%T) after job %d, which does not panic with that", p, p, id)
					return
				}
			}
			handlerCalls[id]++
			handlerGen[id] = g
		}
	}
	var pool *worker.DefaultWorkerPool
	if s.ViaSetters {
		// constructed on a throw-away queue, the real one is installed before first use
		pool = worker.NewDefaultWorkerPool(fpgo.NewBufferedChannelQueue[func()](1, 1, 1), nil).SetJobQueue(q)
	} else {
		pool = worker.NewDefaultWorkerPool(q, nil)
	}
	if s.KeepQueueOpen {
		pool.SetIsJobQueueClosedWhenClose(false)
		defer q.Close()
	}
	sched.Track(pool)
	// directed exit: an exiting worker is released once a trySpawn that started after it has finished
	if s.DirectedExit {
		sched.OnPoint = func(point string, obj any) {
			switch point {
			case "pool.worker.exit":
				atomic.StoreInt32(&exitSeen, 1)
			case "pool.trySpawn.exit":
				if atomic.LoadInt32(&exitSeen) == 1 {
					sched.Signal("trySpawn-after-exit")
				}
			}
		}
	}
	worker.SetVerifHook(sched.Hook)
	defer worker.SetVerifHook(nil)
	defer sched.Disable()
	pool.SetWorkerSizeMaximum(c.Max).
		SetWorkerSizeStandBy(c.StandBy).
		SetWorkerBatchSize(c.Batch).
		SetSpawnWorkerDuration(time.Duration(c.SpawnUs) * time.Microsecond).
		SetWorkerExpiryDuration(expiry).
		SetWorkerJamDuration(time.Duration(c.JamUs) * time.Microsecond).
		SetScheduleRetryInterval(50 * time.Microsecond)
	if s.NilHandler {
		pool.SetPanicHandler(nil)
	} else {
		pool.SetPanicHandler(mkHandler(0))
	}
	closed := false
	defer func() {
		if !closed {
			pool.Close()
		}
	}()

	nj := len(s.Jobs)
	runs := make([]int32, nj)
	status := make([]int32, nj)
	var inflight, maxInflight int32
	var started, submitsStarted, rejectedDone int64
	gates := make([]chan struct{}, len(s.Phases))
	for i := range gates {
		gates[i] = make(chan struct{})
	}
	gateOpen := make([]int32, len(s.Phases))
	openGate := func(i int) {
		if atomic.CompareAndSwapInt32(&gateOpen[i], 0, 1) {
			close(gates[i])
		}
	}
	defer func() {
		for i := range gates {
			openGate(i)
		}
	}()
	handlerGeneration := 0
	phaseGen := make([]int, len(s.Phases))
	phaseOf := make([]int, nj)
	for pi, p := range s.Phases {
		for _, subs := range p.Subs {
			for _, x := range subs {
				phaseOf[x.Job] = pi
			}
		}
	}
	mkJob := func(id int) func() {
		spec := s.Jobs[id]
		return func() {
			curJob.Store(vlib.GoID(), id)
			atomic.AddInt64(&started, 1)
			n := atomic.AddInt32(&inflight, 1)
			for {
				m := atomic.LoadInt32(&maxInflight)
				if n <= m || atomic.CompareAndSwapInt32(&maxInflight, m, n) {
					break
				}
			}
			defer atomic.AddInt32(&inflight, -1)
			atomic.AddInt32(&runs[id], 1)
			switch spec.Dur {
			case durYield:
				for i := 0; i < spec.N; i++ {
					runtime.Gosched()
				}
			case durSleep:
				time.Sleep(time.Duration(spec.N) * time.Microsecond)
			case durGated:
				<-gates[phaseOf[id]]
			}
			if spec.Panics {
				switch spec.PanicKind {
				case 1:
					var m map[int]int
					m[id] = 1
				case 2:
					panic(fmt.Errorf("job %d failed", id))
				case 3:
					panic(fmt.Sprintf("job %d failed", id))
				case 4:
					var a []int
					_ = a[id+1]
				}
				panic(id)
			}
		}
	}
	full := c.Buffer
	if full == 0 {
		full = c.ChanCap
	}
	closeReturned := int32(0)
	var acceptedDone int64
	submit := func(x submission, attempts *int64, pi int) {
		job := mkJob(x.Job)
		sLo := atomic.LoadInt64(&started)
		rLo := atomic.LoadInt64(&rejectedDone)
		aLo := atomic.LoadInt64(&acceptedDone)
		atomic.AddInt64(&submitsStarted, 1)
		if n := atomic.AddInt64(attempts, 1); int(n) >= s.Phases[pi].GateAfter {
			openGate(pi)
		}
		wasClosed := atomic.LoadInt32(&closeReturned) == 1
		var err error
		hasErr := true
		timeout := 100 * time.Microsecond
		if x.Generous {
			timeout = 300 * time.Millisecond
		}
		switch x.NoWait {
		case 1:
			timeout = 0
		case 2:
			timeout = -time.Millisecond
		}
		switch x.API {
		case apiSchedule:
			err = pool.Schedule(job)
		case apiScheduleTimeout:
			err = pool.ScheduleWithTimeout(job, timeout)
		case apiInvoke:
			// Invoke has no result: observe what it got from the pool through a recording WorkerPool
			rp := &recPool{WorkerPool: pool}
			inv := worker.NewDefaultInvokable[int](rp, func(int) { job() })
			if s.ViaSetters {
				inv = worker.NewDefaultInvokable[int](nil, nil).SetWorkerPool(rp).SetCallee(func(int) { job() })
			}
			inv.Invoke(x.Job)
			if rp.calls != 1 {
				fail("C09/invoke", "Invoke(%d) called Schedule %d times, want exactly once", x.Job, rp.calls)
				hasErr = false
			} else {
				err = rp.err
			}
		case apiInvokeTimeout:
			inv := worker.NewDefaultInvokable[int](pool, func(int) { job() })
			if s.ViaSetters {
				inv = worker.NewDefaultInvokable[int](nil, nil).SetCallee(func(int) { job() }).SetWorkerPool(pool)
			}
			err = inv.InvokeWithTimeout(x.Job, timeout)
		}
		switch {
		case !hasErr:
			atomic.StoreInt32(&status[x.Job], stMaybe)
		case err == nil:
			atomic.StoreInt32(&status[x.Job], stAccepted)
			atomic.AddInt64(&acceptedDone, 1)
			// "a full job queue yields ErrWorkerPoolJobQueueIsFull": the jobs accepted before this call began,
			// plus this one, minus everything that has started by now, minus the jobs workers may hold between
			// the queue and their start, were all in the queue at the moment this one was accepted
			if held := aLo + 1 - atomic.LoadInt64(&started) - int64(c.Max+2); held > int64(c.ChanCap+c.Buffer) {
				fail("C09/full-not-reported", "job %d was accepted although at least %d accepted jobs were waiting in a job queue that holds %d (channel %d + buffer %d)", x.Job, held-1, c.ChanCap+c.Buffer, c.ChanCap, c.Buffer)
			}
			if wasClosed {
				fail("C09/accepted-after-close", "job %d submitted after Close() returned was accepted", x.Job)
			}
		default:
			atomic.StoreInt32(&status[x.Job], stRejected)
			atomic.AddInt64(&rejectedDone, 1)
			switch err {
			case worker.ErrWorkerPoolJobQueueIsFull:
				if x.API != apiSchedule && x.API != apiInvoke {
					fail("C09/error-value", "job %d: %s returned ErrWorkerPoolJobQueueIsFull instead of waiting for the timeout", x.Job, "STIJ"[x.API:x.API+1])
				}
				aHi := atomic.LoadInt64(&submitsStarted) - 1 - rLo
				if nMax := aHi - sLo; nMax < int64(full) {
					fail("C09/full-too-early", "job %d rejected with ErrWorkerPoolJobQueueIsFull although at most %d accepted jobs can be waiting (queue holds %d before it is full)", x.Job, nMax, full)
				}
			case worker.ErrWorkerPoolScheduleTimeout:
				if x.API == apiSchedule || x.API == apiInvoke {
					fail("C09/error-value", "Schedule returned ErrWorkerPoolScheduleTimeout")
				}
			case worker.ErrWorkerPoolIsClosed:
				if !s.Close {
					fail("C09/error-value", "job %d rejected with ErrWorkerPoolIsClosed but the pool was never closed", x.Job)
				}
			default:
				fail("C09/error-value", "job %d: undocumented error %v", x.Job, err)
			}
		}
		for g := 0; g < x.Gap; g++ {
			runtime.Gosched()
		}
	}
	countDone := func() (acceptedN, acceptedRan int) {
		for id := 0; id < nj; id++ {
			if atomic.LoadInt32(&status[id]) == stAccepted {
				acceptedN++
				if atomic.LoadInt32(&runs[id]) >= 1 {
					acceptedRan++
				}
			}
		}
		return
	}
	waitAllAcceptedRan := func(what string) bool {
		last, lastProgress := -1, time.Now()
		for {
			a, r := countDone()
			if r == a && atomic.LoadInt32(&inflight) == 0 {
				return true
			}
			if r != last {
				last, lastProgress = r, time.Now()
			} else if time.Since(lastProgress) > vlib.StallBudget() {
				if atomic.LoadInt32(&inflight) == 0 {
					var missing []int
					for id := 0; id < nj; id++ {
						if atomic.LoadInt32(&status[id]) == stAccepted && atomic.LoadInt32(&runs[id]) == 0 {
							missing = append(missing, id)
						}
					}
					fail("C09/stranded", "%s: accepted jobs %v never ran although the pool is open and idle (no job executing, %d of %d accepted jobs ran, no progress for %v)", what, missing, r, a, vlib.StallBudget())
				} else {
					res.inconclusive = "jobs still executing after the stall budget"
				}
				return false
			}
			time.Sleep(50 * time.Microsecond)
		}
	}
	for pi, p := range s.Phases {
		var wg sync.WaitGroup
		var attempts int64
		if p.GateAfter == 0 {
			openGate(pi)
		}
		for _, subs := range p.Subs {
			wg.Add(1)
			go submitterLoop(&wg, fail, func() {
				for _, x := range subs {
					submit(x, &attempts, pi)
				}
			})
		}
		if pi == 0 {
			for k := 0; k < s.PreAlloc; k++ {
				wg.Add(1)
				go submitterLoop(&wg, fail, func() { pool.PreAllocWorkerSize(s.PreAllocN) })
			}
		}
		done := make(chan struct{})
		go func() { wg.Wait(); close(done) }()
		select {
		case <-done:
		case <-time.After(vlib.StallBudget()):
			openGate(pi)
			select {
			case <-done:
			case <-time.After(vlib.StallBudget()):
				verdict, dump := vlib.ClassifyStall([]string{"c09.submitterLoop"})
				if verdict == "blocked" {
					fail("C09/submit-blocks", "submitters blocked for ever:\n%s", dump)
				} else {
					res.inconclusive = "submitters slow: " + verdict
				}
				return res
			}
		}
		openGate(pi)
		if p.WaitIdle {
			if !waitAllAcceptedRan(fmt.Sprintf("after phase %d", pi)) {
				return res
			}
			// a new panic handler is installed while the pool is idle (its workers are alive): panics of
			// jobs submitted from now on are reported to the handler that is installed, not to an earlier one
			if s.ReplaceHandler && !s.NilHandler && pi+1 < len(s.Phases) {
				settled := vlib.WaitUntil(vlib.StallBudget(), func() bool {
					if atomic.LoadInt32(&inflight) != 0 {
						return false
					}
					handlerMu.Lock()
					defer handlerMu.Unlock()
					for id := 0; id < nj; id++ {
						if s.Jobs[id].Panics && atomic.LoadInt32(&runs[id]) >= 1 && handlerCalls[id] == 0 {
							return false
						}
					}
					return true
				})
				if settled {
					handlerGeneration++
					pool.SetPanicHandler(mkHandler(handlerGeneration))
					for pj := pi + 1; pj < len(s.Phases); pj++ {
						phaseGen[pj] = handlerGeneration
					}
				}
			}
		}
		if p.SleepUs > 0 {
			time.Sleep(time.Duration(p.SleepUs) * time.Microsecond)
		}
		if res.failKey != "" {
			return res
		}
	}
	if s.Close {
		pool.Close()
		closed = true
		atomic.StoreInt32(&closeReturned, 1)
		if !pool.IsClosed() {
			fail("C09/close", "IsClosed() is false after Close() returned")
		}
		// every call that starts after Close returned is rejected with ErrWorkerPoolIsClosed
		probeRan := int32(0)
		for _, api := range []int{apiSchedule, apiScheduleTimeout} {
			var err error
			if api == apiSchedule {
				err = pool.Schedule(func() { atomic.AddInt32(&probeRan, 1) })
			} else {
				err = pool.ScheduleWithTimeout(func() { atomic.AddInt32(&probeRan, 1) }, time.Millisecond)
			}
			if err != worker.ErrWorkerPoolIsClosed {
				fail("C09/closed-error", "submission after Close() returned got %v, want ErrWorkerPoolIsClosed", err)
			}
		}
		// let in-flight jobs finish
		vlib.WaitUntil(vlib.StallBudget(), func() bool { return atomic.LoadInt32(&inflight) == 0 })
		time.Sleep(200 * time.Microsecond)
		if atomic.LoadInt32(&probeRan) > 0 {
			fail("C09/rejected-ran", "a job rejected with ErrWorkerPoolIsClosed was executed")
		}
	} else {
		if !waitAllAcceptedRan("at the end") {
			return res
		}
	}
	if res.failKey != "" {
		return res
	}
	// grace period, then the final counters; the panic handler runs after the job's own
	// deferred functions, so give it (bounded) time to be called for every panicking job that ran
	time.Sleep(300 * time.Microsecond)
	vlib.WaitUntil(vlib.StallBudget(), func() bool { return atomic.LoadInt32(&inflight) == 0 })
	vlib.WaitUntil(vlib.StallBudget(), func() bool {
		want, got := 0, 0
		handlerMu.Lock()
		for id := 0; id < nj; id++ {
			if s.Jobs[id].Panics && atomic.LoadInt32(&runs[id]) >= 1 {
				want++
			}
			got += handlerCalls[id]
		}
		handlerMu.Unlock()
		return got >= want || s.NilHandler
	})
	anyPanicBeforeAccepted, overflow := false, false
	acceptedN := 0
	for id := 0; id < nj; id++ {
		r := atomic.LoadInt32(&runs[id])
		st := atomic.LoadInt32(&status[id])
		if r > 1 {
			fail("C09/ran-twice", "job %d executed %d times", id, r)
		}
		if st == stRejected && r > 0 {
			atomic.AddInt64(&rejectedRan, 1)
			fail("C09/rejected-ran", "job %d was rejected but executed", id)
		}
		if st == stAccepted {
			acceptedN++
		}
	}
	if int(atomic.LoadInt32(&maxInflight)) > c.Max {
		fail("C09/too-many-workers", "%d jobs were executing at the same time, workerSizeMaximum is %d", maxInflight, c.Max)
	}
	handlerMu.Lock()
	if handlerBad != "" {
		fail("C09/panic-handler", "%s", handlerBad)
	}
	for id := 0; id < nj; id++ {
		want := 0
		if s.Jobs[id].Panics && atomic.LoadInt32(&runs[id]) == 1 {
			want = 1
		}
		if !s.NilHandler && handlerCalls[id] != want && atomic.LoadInt32(&runs[id]) <= 1 {
			fail("C09/panic-handler", "panic handler called %d times for job %d (panics=%v, ran=%d), want %d", handlerCalls[id], id, s.Jobs[id].Panics, runs[id], want)
		}
		if !s.NilHandler && want == 1 && handlerCalls[id] == 1 && handlerGen[id] != phaseGen[phaseOf[id]] {
			fail("C09/panic-handler-stale", "job %d (phase %d) panicked after panic handler #%d had been installed on the idle pool, but handler #%d was told", id, phaseOf[id], phaseGen[phaseOf[id]], handlerGen[id])
		}
	}
	handlerMu.Unlock()
	sawPanic := false
	for id := 0; id < nj; id++ {
		if s.Jobs[id].Panics && atomic.LoadInt32(&runs[id]) == 1 {
			sawPanic = true
		} else if sawPanic && atomic.LoadInt32(&status[id]) == stAccepted {
			anyPanicBeforeAccepted = true
		}
	}
	overflow = acceptedN > c.ChanCap+c.Max
	multi := false
	for _, p := range s.Phases {
		if len(p.Subs) >= 2 {
			multi = true
		}
	}
	res.nontrivial = anyPanicBeforeAccepted || overflow || multi
	return res
}

// recPool records what a DefaultInvokable hands to / gets from the pool.
type recPool struct {
	worker.WorkerPool
	calls int
	err   error
}

func (r *recPool) Schedule(f func()) error {
	r.calls++
	r.err = r.WorkerPool.Schedule(f)
	return r.err
}

func submitterLoop(wg *sync.WaitGroup, fail func(k, f string, a ...any), body func()) {
	defer wg.Done()
	if p, st := vlib.Try(body); p != nil {
		fail("C09/submit-panic", "submitter panicked: %v\n%s", p, st)
	}
}

func report(t vlib.TB, s scenario, res result, skip func()) {
	if res.inconclusive != "" && res.failKey == "" {
		vlib.S().Note("inconclusive (%s): %v", res.inconclusive, s)
		vlib.S().Class("inconclusive")
		return
	}
	if res.failKey == "" {
		return
	}
	vlib.WriteReplay("C09/scenario", s)
	if vlib.Fail(t, res.failKey, "%v: %s", s, res.failMsg) {
		skip()
	}
}

func oneSubmitter(jobs ...int) [][]submission {
	var subs []submission
	for _, j := range jobs {
		subs = append(subs, submission{Job: j, API: apiSchedule})
	}
	return [][]submission{subs}
}

func TestRegress(t *testing.T) {
	cases := []scenario{
		// no panic handler installed: a job panic must still be contained (process survives, later jobs run)
		{Cfg: poolCfg{Max: 2, StandBy: 1, Batch: 1, ChanCap: 2, Buffer: 5, SpawnUs: 50, JamUs: 1000000}, NilHandler: true,
			Jobs:   []jobSpec{{Dur: durInstant}, {Dur: durYield, N: 2, Panics: true}, {Dur: durInstant}, {Dur: durInstant}},
			Phases: []phase{{Subs: oneSubmitter(0, 1, 2, 3)}}},
		// DESIGN §4 #13: after a (slow) panicking job the only worker exits and nobody wakes the spawn loop
		{Cfg: poolCfg{Max: 1, StandBy: 1, Batch: 1, ChanCap: 2, Buffer: 5, SpawnUs: 50, JamUs: 1000000},
			Jobs:   []jobSpec{{Dur: durSleep, N: 1500, Panics: true}, {Dur: durInstant}},
			Phases: []phase{{Subs: oneSubmitter(0, 1)}}},
		{Cfg: poolCfg{Max: 2, StandBy: 1, Batch: 1, ChanCap: 1, Buffer: 20, SpawnUs: 200, JamUs: 1000},
			Jobs:   []jobSpec{{Dur: durSleep, N: 800, Panics: true}, {Dur: durSleep, N: 800, Panics: true}, {Dur: durInstant}, {Dur: durInstant}, {Dur: durYield, N: 3}},
			Phases: []phase{{Subs: oneSubmitter(0, 1, 2, 3, 4)}}},
		// workers above standby expire while a job arrives (exit window widened by the directed plan)
		{Cfg: poolCfg{Max: 2, StandBy: 1, Batch: 1, ChanCap: 3, Buffer: 5, SpawnUs: 50, ExpiryUs: 1000, JamUs: 1000000},
			Jobs:         []jobSpec{{Dur: durSleep, N: 300}, {Dur: durSleep, N: 300}, {Dur: durSleep, N: 300}, {Dur: durSleep, N: 300}, {Dur: durInstant}},
			Phases:       []phase{{Subs: oneSubmitter(0, 1, 2, 3), WaitIdle: true, SleepUs: 3000}, {Subs: oneSubmitter(4)}},
			DirectedExit: true},
		{Cfg: poolCfg{Max: 3, StandBy: 2, Batch: 2, ChanCap: 2, Buffer: 2, SpawnUs: 50, JamUs: 1000000},
			Jobs:   []jobSpec{{Dur: durGated}, {Dur: durGated}, {Dur: durGated}, {Dur: durInstant}, {Dur: durInstant}, {Dur: durInstant}, {Dur: durInstant}, {Dur: durInstant}, {Dur: durInstant}},
			Phases: []phase{{Subs: oneSubmitter(0, 1, 2, 3, 4, 5, 6, 7, 8), GateAfter: 9}}, Close: true},
	}
	for _, s := range cases {
		vlib.S().Eval("regress")
		res := runScenario(s)
		if res.nontrivial {
			vlib.S().NonTrivial("regress", s.String())
		}
		report(t, s, res, func() {})
	}
	// workerSizeMaximum against racing spawners: several PreAllocWorkerSize callers and the spawn loop
	// (woken by Schedule) try to add workers at the same moment on a fresh pool, many times over
	for rep := 0; rep < vlib.Pick(150, 1500); rep++ {
		max := 1 + rep%3
		s := scenario{Cfg: poolCfg{Max: max, StandBy: 1, Batch: 1, ChanCap: 3, Buffer: 5, SpawnUs: 50, JamUs: 1000000},
			PreAlloc: 3, PreAllocN: max + 2}
		var subs [][]submission
		for w := 0; w < 2; w++ {
			var l []submission
			for j := 0; j < 4; j++ {
				s.Jobs = append(s.Jobs, jobSpec{Dur: durSleep, N: 200})
				l = append(l, submission{Job: len(s.Jobs) - 1, API: apiSchedule})
			}
			subs = append(subs, l)
		}
		s.Phases = []phase{{Subs: subs}}
		vlib.S().Eval("prealloc-race")
		res := runScenario(s)
		if res.nontrivial && rep < 3 {
			vlib.S().NonTrivial("prealloc-race", s.String())
		}
		report(t, s, res, func() {})
		if res.failKey != "" {
			break
		}
	}
}

func TestReplayJSON(t *testing.T) {
	raw := vlib.ReplayCase("C09/scenario")
	if raw == nil {
		t.Skip("no replay case")
	}
	var s scenario
	if err := json.Unmarshal(raw, &s); err != nil {
		t.Fatal(err)
	}
	for i := 0; i < 50; i++ {
		if res := runScenario(s); res.failKey != "" {
			t.Fatalf("[key=%s] run %d: %s", res.failKey, i, res.failMsg)
		}
	}
}

func TestScenarios(t *testing.T) {
	vlib.Check(t, "scenarios", 300, 1500, func(t *rapid.T) {
		s := genScenario(t)
		st := vlib.S()
		st.Eval("scenarios")
		res := runScenario(s)
		if res.nontrivial {
			st.NonTrivial("scenarios", s.String())
			st.Class("nontrivial")
		} else {
			st.Class("trivial")
		}
		if s.Close {
			st.Class("with-close")
		}
		if s.DirectedExit {
			st.Class("directed-exit")
		}
		report(t, s, res, func() { t.Skip("known") })
	})
}

// TestZLast: nothing rejected may ever have run.
func TestZLast(t *testing.T) {
	time.Sleep(10 * time.Millisecond)
	if n := atomic.LoadInt64(&rejectedRan); n > 0 {
		vlib.Fail(t, "C09/rejected-ran", "%d rejected jobs were executed", n)
	}
}
