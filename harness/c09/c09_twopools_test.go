package c09

import (
	"encoding/json"
	"fmt"
	"sync"
	"sync/atomic"
	"testing"
	"time"

	fpgo "github.com/TeaEntityLab/fpGo/v2"
	"github.com/TeaEntityLab/fpGo/v2/worker"
	"pgregory.net/rapid"

	"verifharness/vlib"
)

// Part "two-pools": the statement is about every pool on its own: two pools that are alive at the same
// time (both built from nil settings, i.e. from the package defaults, or from one settings value) and
// configured differently keep their own workerSizeMaximum and their own panic handler.

type twoPoolsCase struct {
	MaxA int `json:"maxA"`
	MaxB int `json:"maxB"`
	Jobs int `json:"jobs"` // gated jobs per pool (the first one panics)
}

func (c twoPoolsCase) String() string { b, _ := json.Marshal(c); return string(b) }

type poolProbe struct {
	pool             *worker.DefaultWorkerPool
	in, peak         int32
	handled, foreign int32
	ran              int32
}

func runTwoPools(c twoPoolsCase) (key, msg string, inconclusive bool) {
	schedMu.Lock()
	defer schedMu.Unlock()
	mk := func() *poolProbe {
		q := fpgo.NewBufferedChannelQueue[func()](3, 100, 100).SetLoadFromPoolDuration(20 * time.Microsecond)
		return &poolProbe{pool: worker.NewDefaultWorkerPool(q, nil)}
	}
	a, b := mk(), mk()
	defer a.pool.Close()
	defer b.pool.Close()
	conf := func(p *poolProbe, max int, other *poolProbe, tag string) {
		p.pool.SetWorkerSizeMaximum(max).SetWorkerSizeStandBy(1).SetWorkerBatchSize(1).
			SetSpawnWorkerDuration(100 * time.Microsecond).SetWorkerExpiryDuration(time.Hour).
			SetWorkerJamDuration(time.Hour).SetScheduleRetryInterval(50 * time.Microsecond).
			SetPanicHandler(func(v interface{}) {
				if v == tag {
					atomic.AddInt32(&p.handled, 1)
				} else {
					atomic.AddInt32(&p.foreign, 1)
				}
			})
	}
	conf(a, c.MaxA, b, "A")
	conf(b, c.MaxB, a, "B")
	gate := make(chan struct{})
	released := false
	defer func() {
		if !released {
			close(gate)
		}
	}()
	submit := func(p *poolProbe, tag string) bool {
		for i := 0; i < c.Jobs; i++ {
			panics := i == 0
			err := p.pool.ScheduleWithTimeout(func() {
				n := atomic.AddInt32(&p.in, 1)
				for {
					m := atomic.LoadInt32(&p.peak)
					if n <= m || atomic.CompareAndSwapInt32(&p.peak, m, n) {
						break
					}
				}
				<-gate
				atomic.AddInt32(&p.in, -1)
				atomic.AddInt32(&p.ran, 1)
				if panics {
					panic(tag)
				}
			}, time.Second)
			if err != nil {
				return false
			}
		}
		return true
	}
	var wg sync.WaitGroup
	okA, okB := false, false
	wg.Add(2)
	go func() { defer wg.Done(); okA = submit(a, "A") }()
	go func() { defer wg.Done(); okB = submit(b, "B") }()
	wg.Wait()
	if !okA || !okB {
		return "", "", true
	}
	// let the pools ramp up as far as they will
	want := func(p *poolProbe, max int) int32 {
		if c.Jobs < max {
			return int32(c.Jobs)
		}
		return int32(max)
	}
	vlib.WaitUntil(300*time.Millisecond, func() bool {
		return atomic.LoadInt32(&a.in) >= want(a, c.MaxA) && atomic.LoadInt32(&b.in) >= want(b, c.MaxB)
	})
	time.Sleep(2 * time.Millisecond)
	released = true
	close(gate)
	done := vlib.WaitUntil(vlib.StallBudget(), func() bool {
		return atomic.LoadInt32(&a.ran) == int32(c.Jobs) && atomic.LoadInt32(&b.ran) == int32(c.Jobs) &&
			atomic.LoadInt32(&a.handled)+atomic.LoadInt32(&a.foreign)+atomic.LoadInt32(&b.handled)+atomic.LoadInt32(&b.foreign) >= 2
	})
	if pk := atomic.LoadInt32(&a.peak); int(pk) > c.MaxA {
		return "C09/too-many-workers", fmt.Sprintf("pool A (workerSizeMaximum %d) ran %d jobs at once while pool B (workerSizeMaximum %d) was alive beside it", c.MaxA, pk, c.MaxB), false
	}
	if pk := atomic.LoadInt32(&b.peak); int(pk) > c.MaxB {
		return "C09/too-many-workers", fmt.Sprintf("pool B (workerSizeMaximum %d) ran %d jobs at once while pool A (workerSizeMaximum %d) was alive beside it", c.MaxB, pk, c.MaxA), false
	}
	if !done {
		return "", "", true
	}
	time.Sleep(300 * time.Microsecond)
	for _, p := range []struct {
		n string
		p *poolProbe
	}{{"A", a}, {"B", b}} {
		if h, f := atomic.LoadInt32(&p.p.handled), atomic.LoadInt32(&p.p.foreign); h != 1 || f != 0 {
			return "C09/panic-handler", fmt.Sprintf("pool %s: one of its jobs panicked; its own handler was told %d times about it and %d times about the OTHER pool's job", p.n, h, f), false
		}
	}
	return "", "", false
}

func TestTwoPools(t *testing.T) {
	if vlib.Replaying() {
		raw := vlib.ReplayCase("C09/two-pools")
		if raw == nil {
			return
		}
		var c twoPoolsCase
		if err := json.Unmarshal(raw, &c); err != nil {
			t.Fatal(err)
		}
		if key, msg, _ := runTwoPools(c); key != "" {
			t.Fatalf("[key=%s] %s", key, msg)
		}
		return
	}
	vlib.Check(t, "two-pools", 40, 400, func(t *rapid.T) {
		c := twoPoolsCase{MaxA: rapid.IntRange(1, 2).Draw(t, "maxA"), MaxB: rapid.IntRange(3, 6).Draw(t, "maxB"), Jobs: rapid.IntRange(3, 8).Draw(t, "jobs")}
		if rapid.Bool().Draw(t, "swap") {
			c.MaxA, c.MaxB = c.MaxB, c.MaxA
		}
		vlib.S().Eval("two-pools")
		key, msg, inc := runTwoPools(c)
		if inc {
			vlib.S().Class("two-pools/inconclusive")
			return
		}
		vlib.S().NonTrivial("two-pools", c.String())
		if key != "" {
			vlib.WriteReplay("C09/two-pools", c)
			if vlib.Fail(t, key, "%v: %s", c, msg) {
				t.Skip("known")
			}
		}
	})
}
