package c09

import (
	"encoding/json"
	"fmt"
	"runtime"
	"sync"
	"sync/atomic"
	"testing"
	"time"

	fpgo "github.com/TeaEntityLab/fpGo/v2"
	"github.com/TeaEntityLab/fpGo/v2/worker"
	"pgregory.net/rapid"

	"verifharness/vlib"
)

// Part "busy-handler": "a panicking job ... does not keep later accepted jobs from running" - not even
// while the panic handler is still busy with it. The handler of job A waits (bounded) until the jobs that
// were scheduled after A's panic have run. The pool has at least two stand-by workers, so that one worker
// being occupied does not by itself delay the next job; the oracle is the pool's own behaviour for an
// ordinary slow job in A's place (control run, same configuration): where later jobs run while an ordinary
// job is still executing, they also run while a panicked job's handler is still executing.

type busyCase struct {
	Max     int `json:"max"`
	Standby int `json:"standby"`
	ChanCap int `json:"chanCap"`
	Later   int `json:"later"`
}

func (c busyCase) String() string { b, _ := json.Marshal(c); return string(b) }

// runBusy returns how many of the later jobs ran while job A (panicking with a busy handler, or an
// ordinary slow job) was still occupying its worker; -1 when the run says nothing.
func runBusy(c busyCase, panicking bool) int {
	q := fpgo.NewBufferedChannelQueue[func()](c.ChanCap, 100, 100).SetLoadFromPoolDuration(20 * time.Microsecond)
	pool := worker.NewDefaultWorkerPool(q, nil).SetWorkerSizeMaximum(c.Max).SetWorkerSizeStandBy(c.Standby).SetWorkerBatchSize(1).
		SetSpawnWorkerDuration(100 * time.Microsecond).SetWorkerExpiryDuration(time.Hour).SetWorkerJamDuration(time.Hour)
	defer pool.Close()
	var ran int32
	occupied := make(chan struct{})
	saw := make(chan int32, 1)
	occupy := func() {
		close(occupied)
		deadline := time.Now().Add(vlib.StallBudget())
		for atomic.LoadInt32(&ran) < int32(c.Later) && time.Now().Before(deadline) {
			time.Sleep(50 * time.Microsecond)
		}
		saw <- atomic.LoadInt32(&ran)
	}
	pool.SetPanicHandler(func(interface{}) { occupy() })
	a := func() { panic("A") }
	if !panicking {
		a = occupy
	}
	if err := pool.Schedule(a); err != nil {
		return -1
	}
	select {
	case <-occupied:
	case <-time.After(vlib.StallBudget()):
		return -1
	}
	for i := 0; i < c.Later; i++ {
		if err := pool.Schedule(func() { atomic.AddInt32(&ran, 1) }); err != nil {
			return -1
		}
	}
	select {
	case n := <-saw:
		return int(n)
	case <-time.After(3 * vlib.StallBudget()):
		return -1
	}
}

func checkBusy(c busyCase) (key, msg string, nontrivial bool) {
	schedMu.Lock()
	defer schedMu.Unlock()
	n := runBusy(c, true)
	if n < 0 {
		return "", "", false
	}
	if n >= c.Later {
		return "", "", true
	}
	if ctl := runBusy(c, false); ctl < c.Later {
		return "", "", false // the configuration does not run later jobs beside an occupied worker at all
	}
	return "C09/stranded", fmt.Sprintf("while the panic handler of an earlier job was still busy, only %d of the %d jobs accepted after the panic ran within %v; with an ordinary job that takes as long in its place all %d ran", n, c.Later, vlib.StallBudget(), c.Later), true
}

var busyDirected = []busyCase{{Max: 2, Standby: 2, ChanCap: 1, Later: 1}, {Max: 4, Standby: 3, ChanCap: 2, Later: 4}}

func TestBusyHandlerRegress(t *testing.T) {
	if vlib.Replaying() {
		t.Skip()
	}
	for _, c := range busyDirected {
		vlib.S().Eval("busy-handler")
		key, msg, nt := checkBusy(c)
		if nt {
			vlib.S().NonTrivial("busy-handler", c.String())
		}
		if key != "" {
			vlib.WriteReplay("C09/busy", c)
			vlib.Fail(t, key, "%v: %s", c, msg)
		}
	}
}

func TestBusyHandlerReplay(t *testing.T) {
	raw := vlib.ReplayCase("C09/busy")
	if raw == nil {
		t.Skip("no replay case")
	}
	var c busyCase
	if err := json.Unmarshal(raw, &c); err != nil {
		t.Fatal(err)
	}
	if key, msg, _ := checkBusy(c); key != "" {
		t.Fatalf("[key=%s] %s", key, msg)
	}
}

func TestBusyHandler(t *testing.T) {
	if vlib.Replaying() {
		t.Skip()
	}
	vlib.Check(t, "busy-handler", 40, 400, func(t *rapid.T) {
		c := busyCase{Max: rapid.IntRange(2, 5).Draw(t, "max"), ChanCap: rapid.IntRange(1, 3).Draw(t, "chanCap"), Later: rapid.IntRange(1, 4).Draw(t, "later")}
		c.Standby = rapid.IntRange(2, c.Max).Draw(t, "standby")
		vlib.S().Eval("busy-handler")
		key, msg, nt := checkBusy(c)
		if nt {
			vlib.S().NonTrivial("busy-handler", c.String())
		} else {
			vlib.S().Class("busy-handler/says-nothing")
		}
		if key != "" {
			vlib.WriteReplay("C09/busy", c)
			if vlib.Fail(t, key, "%v: %s", c, msg) {
				t.Skip("known")
			}
		}
	})
}

// Part "invokable-callee": a job submitted through Invoke / InvokeWithTimeout is "callee(value)" as it was
// at the time of the call: replacing the callee afterwards (SetCallee) does not turn the jobs that are
// still queued into other jobs.
func TestInvokableCallee(t *testing.T) {
	if vlib.Replaying() {
		t.Skip()
	}
	vlib.Check(t, "invokable-callee", 40, 400, func(t *rapid.T) {
		before := rapid.IntRange(1, 4).Draw(t, "before")
		after := rapid.IntRange(0, 3).Draw(t, "after")
		timeoutAPI := rapid.Bool().Draw(t, "timeoutAPI")
		vlib.S().Eval("invokable-callee")
		desc := fmt.Sprintf("before=%d after=%d timeoutAPI=%v", before, after, timeoutAPI)
		vlib.S().NonTrivial("invokable-callee", desc)
		schedMu.Lock()
		defer schedMu.Unlock()
		q := fpgo.NewBufferedChannelQueue[func()](2, 100, 100).SetLoadFromPoolDuration(20 * time.Microsecond)
		pool := worker.NewDefaultWorkerPool(q, nil).SetWorkerSizeMaximum(1).SetWorkerSizeStandBy(1).SetWorkerBatchSize(1).
			SetSpawnWorkerDuration(100 * time.Microsecond).SetWorkerExpiryDuration(time.Hour).SetWorkerJamDuration(time.Hour)
		defer pool.Close()
		gate := make(chan struct{})
		entered := make(chan struct{})
		if err := pool.Schedule(func() { close(entered); <-gate }); err != nil {
			close(gate)
			return
		}
		select {
		case <-entered:
		case <-time.After(vlib.StallBudget()):
			close(gate)
			return
		}
		var mu sync.Mutex
		var gotA, gotB []int
		inv := worker.NewDefaultInvokable[int](pool, func(v int) { mu.Lock(); gotA = append(gotA, v); mu.Unlock() })
		submit := func(v int) bool {
			if timeoutAPI {
				return inv.InvokeWithTimeout(v, time.Second) == nil
			}
			inv.Invoke(v)
			return true
		}
		var wantA, wantB []int
		ok := true
		for i := 0; i < before && ok; i++ {
			ok = submit(i + 1)
			wantA = append(wantA, i+1)
		}
		inv.SetCallee(func(v int) { mu.Lock(); gotB = append(gotB, v); mu.Unlock() })
		for i := 0; i < after && ok; i++ {
			ok = submit(100 + i)
			wantB = append(wantB, 100+i)
		}
		close(gate)
		if !ok {
			return
		}
		vlib.WaitUntil(vlib.StallBudget(), func() bool { mu.Lock(); defer mu.Unlock(); return len(gotA)+len(gotB) >= before+after })
		mu.Lock()
		defer mu.Unlock()
		if fmt.Sprint(gotA) != fmt.Sprint(wantA) || fmt.Sprint(gotB) != fmt.Sprint(wantB) {
			if vlib.Fail(t, "C09/invoke", "%s: values %v were invoked with the first callee and %v after SetCallee; the first callee ran for %v, the second for %v", desc, wantA, wantB, gotA, gotB) {
				t.Skip("known")
			}
		}
	})
}

// Part "slow-handler": a pool WITHOUT stand-by workers (batch size 1) whose last worker dies from a panicking
// job while further accepted jobs are queued behind it, the panic handler taking its time (0 - 2 ms), and
// nobody calling Schedule again: the queued jobs run ("a panicking job ... does not keep later accepted jobs
// from running", "exactly once provided the pool is left open").
func TestSlowHandler(t *testing.T) {
	if vlib.Replaying() {
		t.Skip()
	}
	vlib.Check(t, "slow-handler", 60, 600, func(t *rapid.T) {
		max := rapid.IntRange(1, 2).Draw(t, "max")
		behind := rapid.IntRange(1, 3).Draw(t, "behind")
		handlerUs := rapid.SampledFrom([]int{0, 50, 500, 2000}).Draw(t, "handlerUs")
		spawnUs := rapid.SampledFrom([]int{20, 100, 1000}).Draw(t, "spawnUs")
		desc := fmt.Sprintf("max=%d behind=%d handlerUs=%d spawnUs=%d", max, behind, handlerUs, spawnUs)
		vlib.S().Eval("slow-handler")
		schedMu.Lock()
		defer schedMu.Unlock()
		q := fpgo.NewBufferedChannelQueue[func()](2, 100, 100).SetLoadFromPoolDuration(20 * time.Microsecond)
		pool := worker.NewDefaultWorkerPool(q, nil).SetWorkerSizeMaximum(max).SetWorkerSizeStandBy(0).SetWorkerBatchSize(1).
			SetSpawnWorkerDuration(time.Duration(spawnUs) * time.Microsecond).SetWorkerExpiryDuration(time.Hour).SetWorkerJamDuration(time.Hour)
		defer pool.Close()
		var handled int32
		pool.SetPanicHandler(func(interface{}) {
			time.Sleep(time.Duration(handlerUs) * time.Microsecond)
			atomic.AddInt32(&handled, 1)
		})
		// occupy every worker the pool may have with a gated job; the LAST one to be released panics
		gate := make(chan struct{})
		var started, ran int32
		for i := 0; i < max; i++ {
			panics := i == 0
			if err := pool.Schedule(func() {
				atomic.AddInt32(&started, 1)
				<-gate
				if panics {
					panic("slow-handler")
				}
			}); err != nil {
				close(gate)
				return
			}
		}
		if !vlib.WaitUntil(vlib.StallBudget(), func() bool { return int(atomic.LoadInt32(&started)) == max }) {
			close(gate)
			vlib.S().Class("slow-handler/inconclusive")
			return
		}
		for i := 0; i < behind; i++ {
			if err := pool.Schedule(func() { atomic.AddInt32(&ran, 1) }); err != nil {
				close(gate)
				return
			}
		}
		vlib.S().NonTrivial("slow-handler", desc)
		close(gate)
		if vlib.WaitUntil(vlib.StallBudget(), func() bool { return int(atomic.LoadInt32(&ran)) == behind }) {
			return
		}
		verdict, dump := vlib.ClassifyStall([]string{"worker.(*DefaultWorkerPool)"})
		if vlib.Fail(t, "C09/stranded", "%s: %d jobs were accepted while all workers were busy; one worker then died from a panicking job (handler called %d times): only %d of them ran within %v, nobody schedules any more (pool goroutines: %s)\n%s", desc, behind, atomic.LoadInt32(&handled), atomic.LoadInt32(&ran), vlib.StallBudget(), verdict, dump) {
			t.Skip("known")
		}
	})
}

// Part "shared-queue": two pools work on ONE job queue. The first one is closed (it does not own the queue:
// SetIsJobQueueClosedWhenClose(false)); every job the second, open pool accepts afterwards still runs exactly
// once - whichever goroutine happens to receive it from the shared channel.
func TestSharedQueue(t *testing.T) {
	if vlib.Replaying() {
		t.Skip()
	}
	vlib.Check(t, "shared-queue", 60, 600, func(t *rapid.T) {
		idle := rapid.IntRange(1, 3).Draw(t, "idleWorkersOfClosedPool")
		jobs := rapid.IntRange(1, 8).Draw(t, "jobs")
		desc := fmt.Sprintf("idle=%d jobs=%d", idle, jobs)
		vlib.S().Eval("shared-queue")
		vlib.S().NonTrivial("shared-queue", desc)
		schedMu.Lock()
		defer schedMu.Unlock()
		q := fpgo.NewBufferedChannelQueue[func()](2, 100, 100).SetLoadFromPoolDuration(20 * time.Microsecond)
		mk := func(standby int) *worker.DefaultWorkerPool {
			return worker.NewDefaultWorkerPool(q, nil).SetWorkerSizeMaximum(4).SetWorkerSizeStandBy(standby).SetWorkerBatchSize(1).
				SetSpawnWorkerDuration(50 * time.Microsecond).SetWorkerExpiryDuration(time.Hour).SetWorkerJamDuration(time.Hour).SetIsJobQueueClosedWhenClose(false)
		}
		first, second := mk(idle), mk(1)
		defer q.Close()
		defer second.Close()
		// bring the first pool's stand-by workers up (one job does it), let them go idle on the shared channel
		warm := make(chan struct{})
		if err := first.Schedule(func() { close(warm) }); err != nil {
			return
		}
		select {
		case <-warm:
		case <-time.After(vlib.StallBudget()):
			return
		}
		time.Sleep(300 * time.Microsecond)
		first.Close()
		runs := make([]int32, jobs)
		for i := 0; i < jobs; i++ {
			i := i
			if err := second.Schedule(func() { atomic.AddInt32(&runs[i], 1) }); err != nil {
				if vlib.Fail(t, "C09/error-value", "%s: the open pool refused job %d: %v", desc, i, err) {
					t.Skip("known")
				}
				return
			}
			time.Sleep(20 * time.Microsecond)
		}
		all := func() bool {
			for i := range runs {
				if atomic.LoadInt32(&runs[i]) < 1 {
					return false
				}
			}
			return true
		}
		ok := vlib.WaitUntil(vlib.StallBudget(), all)
		time.Sleep(200 * time.Microsecond)
		for i := range runs {
			if n := atomic.LoadInt32(&runs[i]); n != 1 {
				if vlib.Fail(t, "C09/accepted-not-run", "%s: job %d was accepted by the open pool and ran %d times (all ran in time: %v); another pool on the same job queue had been closed before", desc, i, n, ok) {
					t.Skip("known")
				}
				return
			}
		}
	})
}

// Part "prealloc-storm": "at no instant are more than workerSizeMaximum jobs executing" - also when workers
// are brought up from several sides at the same instant: 2-6 goroutines call PreAllocWorkerSize(max+3) together
// (released by spinning on a flag) while the pool's own spawn loop is busy with freshly scheduled jobs. Then
// max+4 gated jobs are scheduled: never more than max of them are inside at once, and all of them run.
func TestPreAllocStorm(t *testing.T) {
	if vlib.Replaying() {
		t.Skip()
	}
	vlib.Check(t, "prealloc-storm", 150, 2000, func(t *rapid.T) {
		max := rapid.IntRange(1, 3).Draw(t, "max")
		callers := rapid.IntRange(2, 6).Draw(t, "callers")
		desc := fmt.Sprintf("max=%d callers=%d", max, callers)
		vlib.S().Eval("prealloc-storm")
		vlib.S().NonTrivial("prealloc-storm", desc)
		schedMu.Lock()
		defer schedMu.Unlock()
		q := fpgo.NewBufferedChannelQueue[func()](2, 100, 100).SetLoadFromPoolDuration(20 * time.Microsecond)
		pool := worker.NewDefaultWorkerPool(q, nil).SetWorkerSizeMaximum(max).SetWorkerSizeStandBy(max).SetWorkerBatchSize(1).
			SetSpawnWorkerDuration(20 * time.Microsecond).SetWorkerExpiryDuration(time.Hour).SetWorkerJamDuration(time.Hour)
		defer pool.Close()
		var inside, peak, ran int32
		gate := make(chan struct{})
		job := func() {
			n := atomic.AddInt32(&inside, 1)
			for {
				p := atomic.LoadInt32(&peak)
				if n <= p || atomic.CompareAndSwapInt32(&peak, p, n) {
					break
				}
			}
			<-gate
			atomic.AddInt32(&inside, -1)
			atomic.AddInt32(&ran, 1)
		}
		var release int32
		var wg sync.WaitGroup
		for i := 0; i < callers; i++ {
			wg.Add(1)
			go func() {
				defer wg.Done()
				for atomic.LoadInt32(&release) == 0 {
					if fewProcsC09 {
						runtime.Gosched()
					}
				}
				pool.PreAllocWorkerSize(max + 3)
			}()
		}
		jobs := max + 4
		atomic.StoreInt32(&release, 1)
		for i := 0; i < jobs; i++ {
			if err := pool.Schedule(job); err != nil {
				break
			}
		}
		wg.Wait()
		time.Sleep(300 * time.Microsecond)
		close(gate)
		ok := vlib.WaitUntil(vlib.StallBudget(), func() bool { return int(atomic.LoadInt32(&ran)) == jobs })
		if p := atomic.LoadInt32(&peak); int(p) > max {
			if vlib.Fail(t, "C09/too-many-workers", "%s: %d jobs were executing at the same time, workerSizeMaximum is %d (%d goroutines called PreAllocWorkerSize(%d) at the same instant)", desc, p, max, callers, max+3) {
				t.Skip("known")
			}
			return
		}
		if !ok {
			vlib.S().Class("prealloc-storm/slow")
		}
	})
}

var fewProcsC09 = runtime.GOMAXPROCS(0) <= 2
