package c09

import (
	"encoding/json"
	"fmt"
	"sync"
	"sync/atomic"
	"testing"
	"time"

	fpgo "github.com/TeaEntityLab/fpGo/v2"
	"github.com/TeaEntityLab/fpGo/v2/worker"
	"pgregory.net/rapid"

	"verifharness/vlib"
)

// Part "busy-handler": "a panicking job ... does not keep later accepted jobs from running" - not even
// while the panic handler is still busy with it. The handler of job A waits (bounded) until the jobs that
// were scheduled after A's panic have run. The pool has at least two stand-by workers, so that one worker
// being occupied does not by itself delay the next job; the oracle is the pool's own behaviour for an
// ordinary slow job in A's place (control run, same configuration): where later jobs run while an ordinary
// job is still executing, they also run while a panicked job's handler is still executing.

type busyCase struct {
	Max     int `json:"max"`
	Standby int `json:"standby"`
	ChanCap int `json:"chanCap"`
	Later   int `json:"later"`
}

func (c busyCase) String() string { b, _ := json.Marshal(c); return string(b) }

// runBusy returns how many of the later jobs ran while job A (panicking with a busy handler, or an
// ordinary slow job) was still occupying its worker; -1 when the run says nothing.
func runBusy(c busyCase, panicking bool) int {
	q := fpgo.NewBufferedChannelQueue[func()](c.ChanCap, 100, 100).SetLoadFromPoolDuration(20 * time.Microsecond)
	pool := worker.NewDefaultWorkerPool(q, nil).SetWorkerSizeMaximum(c.Max).SetWorkerSizeStandBy(c.Standby).SetWorkerBatchSize(1).
		SetSpawnWorkerDuration(100 * time.Microsecond).SetWorkerExpiryDuration(time.Hour).SetWorkerJamDuration(time.Hour)
	defer pool.Close()
	var ran int32
	occupied := make(chan struct{})
	saw := make(chan int32, 1)
	occupy := func() {
		close(occupied)
		deadline := time.Now().Add(vlib.StallBudget())
		for atomic.LoadInt32(&ran) < int32(c.Later) && time.Now().Before(deadline) {
			time.Sleep(50 * time.Microsecond)
		}
		saw <- atomic.LoadInt32(&ran)
	}
	pool.SetPanicHandler(func(interface{}) { occupy() })
	a := func() { panic("A") }
	if !panicking {
		a = occupy
	}
	if err := pool.Schedule(a); err != nil {
		return -1
	}
	select {
	case <-occupied:
	case <-time.After(vlib.StallBudget()):
		return -1
	}
	for i := 0; i < c.Later; i++ {
		if err := pool.Schedule(func() { atomic.AddInt32(&ran, 1) }); err != nil {
			return -1
		}
	}
	select {
	case n := <-saw:
		return int(n)
	case <-time.After(3 * vlib.StallBudget()):
		return -1
	}
}

func checkBusy(c busyCase) (key, msg string, nontrivial bool) {
	schedMu.Lock()
	defer schedMu.Unlock()
	n := runBusy(c, true)
	if n < 0 {
		return "", "", false
	}
	if n >= c.Later {
		return "", "", true
	}
	if ctl := runBusy(c, false); ctl < c.Later {
		return "", "", false // the configuration does not run later jobs beside an occupied worker at all
	}
	return "C09/stranded", fmt.Sprintf("while the panic handler of an earlier job was still busy, only %d of the %d jobs accepted after the panic ran within %v; with an ordinary job that takes as long in its place all %d ran", n, c.Later, vlib.StallBudget(), c.Later), true
}

var busyDirected = []busyCase{{Max: 2, Standby: 2, ChanCap: 1, Later: 1}, {Max: 4, Standby: 3, ChanCap: 2, Later: 4}}

func TestBusyHandlerRegress(t *testing.T) {
	if vlib.Replaying() {
		t.Skip()
	}
	for _, c := range busyDirected {
		vlib.S().Eval("busy-handler")
		key, msg, nt := checkBusy(c)
		if nt {
			vlib.S().NonTrivial("busy-handler", c.String())
		}
		if key != "" {
			vlib.WriteReplay("C09/busy", c)
			vlib.Fail(t, key, "%v: %s", c, msg)
		}
	}
}

func TestBusyHandlerReplay(t *testing.T) {
	raw := vlib.ReplayCase("C09/busy")
	if raw == nil {
		t.Skip("no replay case")
	}
	var c busyCase
	if err := json.Unmarshal(raw, &c); err != nil {
		t.Fatal(err)
	}
	if key, msg, _ := checkBusy(c); key != "" {
		t.Fatalf("[key=%s] %s", key, msg)
	}
}

func TestBusyHandler(t *testing.T) {
	if vlib.Replaying() {
		t.Skip()
	}
	vlib.Check(t, "busy-handler", 40, 400, func(t *rapid.T) {
		c := busyCase{Max: rapid.IntRange(2, 5).Draw(t, "max"), ChanCap: rapid.IntRange(1, 3).Draw(t, "chanCap"), Later: rapid.IntRange(1, 4).Draw(t, "later")}
		c.Standby = rapid.IntRange(2, c.Max).Draw(t, "standby")
		vlib.S().Eval("busy-handler")
		key, msg, nt := checkBusy(c)
		if nt {
			vlib.S().NonTrivial("busy-handler", c.String())
		} else {
			vlib.S().Class("busy-handler/says-nothing")
		}
		if key != "" {
			vlib.WriteReplay("C09/busy", c)
			if vlib.Fail(t, key, "%v: %s", c, msg) {
				t.Skip("known")
			}
		}
	})
}

// Part "invokable-callee": a job submitted through Invoke / InvokeWithTimeout is "callee(value)" as it was
// at the time of the call: replacing the callee afterwards (SetCallee) does not turn the jobs that are
// still queued into other jobs.
func TestInvokableCallee(t *testing.T) {
	if vlib.Replaying() {
		t.Skip()
	}
	vlib.Check(t, "invokable-callee", 40, 400, func(t *rapid.T) {
		before := rapid.IntRange(1, 4).Draw(t, "before")
		after := rapid.IntRange(0, 3).Draw(t, "after")
		timeoutAPI := rapid.Bool().Draw(t, "timeoutAPI")
		vlib.S().Eval("invokable-callee")
		desc := fmt.Sprintf("before=%d after=%d timeoutAPI=%v", before, after, timeoutAPI)
		vlib.S().NonTrivial("invokable-callee", desc)
		schedMu.Lock()
		defer schedMu.Unlock()
		q := fpgo.NewBufferedChannelQueue[func()](2, 100, 100).SetLoadFromPoolDuration(20 * time.Microsecond)
		pool := worker.NewDefaultWorkerPool(q, nil).SetWorkerSizeMaximum(1).SetWorkerSizeStandBy(1).SetWorkerBatchSize(1).
			SetSpawnWorkerDuration(100 * time.Microsecond).SetWorkerExpiryDuration(time.Hour).SetWorkerJamDuration(time.Hour)
		defer pool.Close()
		gate := make(chan struct{})
		entered := make(chan struct{})
		if err := pool.Schedule(func() { close(entered); <-gate }); err != nil {
			close(gate)
			return
		}
		select {
		case <-entered:
		case <-time.After(vlib.StallBudget()):
			close(gate)
			return
		}
		var mu sync.Mutex
		var gotA, gotB []int
		inv := worker.NewDefaultInvokable[int](pool, func(v int) { mu.Lock(); gotA = append(gotA, v); mu.Unlock() })
		submit := func(v int) bool {
			if timeoutAPI {
				return inv.InvokeWithTimeout(v, time.Second) == nil
			}
			inv.Invoke(v)
			return true
		}
		var wantA, wantB []int
		ok := true
		for i := 0; i < before && ok; i++ {
			ok = submit(i + 1)
			wantA = append(wantA, i+1)
		}
		inv.SetCallee(func(v int) { mu.Lock(); gotB = append(gotB, v); mu.Unlock() })
		for i := 0; i < after && ok; i++ {
			ok = submit(100 + i)
			wantB = append(wantB, 100+i)
		}
		close(gate)
		if !ok {
			return
		}
		vlib.WaitUntil(vlib.StallBudget(), func() bool { mu.Lock(); defer mu.Unlock(); return len(gotA)+len(gotB) >= before+after })
		mu.Lock()
		defer mu.Unlock()
		if fmt.Sprint(gotA) != fmt.Sprint(wantA) || fmt.Sprint(gotB) != fmt.Sprint(wantB) {
			if vlib.Fail(t, "C09/invoke", "%s: values %v were invoked with the first callee and %v after SetCallee; the first callee ran for %v, the second for %v", desc, wantA, wantB, gotA, gotB) {
				t.Skip("known")
			}
		}
	})
}
