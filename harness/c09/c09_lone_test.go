package c09

import (
	"encoding/json"
	"fmt"
	"sync"
	"sync/atomic"
	"testing"
	"time"

	fpgo "github.com/TeaEntityLab/fpGo/v2"
	"github.com/TeaEntityLab/fpGo/v2/worker"
	"pgregory.net/rapid"

	"verifharness/vlib"
)

// Part "lone-job": a pool without stand-by workers whose workers are all gone (they died from
// panicking jobs, or they expired) gets ONE job while its spawn loop is idle. The submitter is
// held at the entry of the job queue's Offer (hook bcq.offer.entry) until the spawn loop has
// gone through one complete wake-up (or a few milliseconds passed): whatever Schedule did before
// the job was in the queue cannot count on it. The accepted job must run although no further
// Schedule/Set* call follows ("every accepted job is executed exactly once while the pool is
// left open"; quantifier: standby 0 with workerBatchSize >= 1).

type loneCase struct {
	Batch   int   `json:"batch"`
	Max     int   `json:"max"`
	ChanCap int   `json:"chanCap"`
	Buffer  int   `json:"buffer"`
	Vanish  int   `json:"vanish"` // 0 = the workers die from a panicking job, 1 = they expire (1 ms)
	JamLong bool  `json:"jamLong"`
	Warmup  int   `json:"warmup"` // ordinary jobs before the workers vanish
	Rounds  int   `json:"rounds"`
	ParkUs  int   `json:"parkUs"`
	ViaTO   bool  `json:"viaTimeout"` // lone job submitted with ScheduleWithTimeout
	SpawnUs int   `json:"spawnUs"`
	IdleUs  []int `json:"idleUs"` // extra idle time before each lone job
	NoHold  bool  `json:"noHold"` // control: submitter is not held
}

func (c loneCase) String() string { b, _ := json.Marshal(c); return string(b) }

func genLone(t *rapid.T) loneCase {
	c := loneCase{
		Batch:   rapid.IntRange(1, 3).Draw(t, "batch"),
		Max:     rapid.IntRange(1, 4).Draw(t, "max"),
		ChanCap: rapid.IntRange(1, 3).Draw(t, "chanCap"),
		Buffer:  rapid.SampledFrom([]int{0, 4, 16}).Draw(t, "buffer"),
		Vanish:  rapid.IntRange(0, 1).Draw(t, "vanish"),
		JamLong: rapid.Bool().Draw(t, "jamLong"),
		Warmup:  rapid.IntRange(0, 3).Draw(t, "warmup"),
		Rounds:  rapid.IntRange(1, 3).Draw(t, "rounds"),
		ParkUs:  rapid.IntRange(500, 4000).Draw(t, "parkUs"),
		ViaTO:   rapid.Bool().Draw(t, "viaTimeout"),
		SpawnUs: rapid.SampledFrom([]int{50, 200, 1000}).Draw(t, "spawnUs"),
		NoHold:  rapid.IntRange(0, 7).Draw(t, "noHold") == 0,
	}
	for i := 0; i < c.Rounds; i++ {
		c.IdleUs = append(c.IdleUs, rapid.IntRange(0, 2000).Draw(t, "idleUs"))
	}
	return c
}

func runLone(c loneCase) (key, msg string, nontrivial bool) {
	schedMu.Lock()
	defer schedMu.Unlock()
	q := fpgo.NewBufferedChannelQueue[func()](c.ChanCap, c.Buffer, 100).
		SetLoadFromPoolDuration(20 * time.Microsecond).
		SetFreeNodeHookPoolIntervalDuration(time.Millisecond)
	pool := worker.NewDefaultWorkerPool(q, nil)
	defer pool.Close()
	expiry := time.Hour
	if c.Vanish == 1 {
		expiry = time.Millisecond
	}
	jam := time.Second
	if c.JamLong {
		jam = time.Hour
	}
	pool.SetWorkerSizeMaximum(c.Max).
		SetWorkerSizeStandBy(0).
		SetWorkerBatchSize(c.Batch).
		SetSpawnWorkerDuration(time.Duration(c.SpawnUs) * time.Microsecond).
		SetWorkerExpiryDuration(expiry).
		SetWorkerJamDuration(jam).
		SetScheduleRetryInterval(50 * time.Microsecond)
	var handled int32
	pool.SetPanicHandler(func(interface{}) { atomic.AddInt32(&handled, 1) })

	// observation through the hooks: live workers (first loop iteration per worker goroutine minus
	// exits), spawn loop idle (a beforeSleep that was not followed by a wake), hold of the submitter
	var mu sync.Mutex
	workers := map[uint64]bool{}
	exits, spawnWakes, spawnSleeps := 0, 0, 0
	lastSleep := time.Time{}
	var holding int32
	holdRelease := make(chan struct{}, 8)
	worker.SetVerifHook(func(point string, obj any) {
		if obj != any(pool) {
			return
		}
		switch point {
		case "pool.worker.afterClosedCheck":
			id := vlib.GoID()
			mu.Lock()
			workers[id] = true
			mu.Unlock()
		case "pool.worker.exit":
			mu.Lock()
			exits++
			mu.Unlock()
		case "pool.spawnLoop.wake":
			mu.Lock()
			spawnWakes++
			mu.Unlock()
		case "pool.spawnLoop.beforeSleep":
			mu.Lock()
			spawnSleeps++
			lastSleep = time.Now()
			mu.Unlock()
			if atomic.LoadInt32(&holding) == 1 {
				select {
				case holdRelease <- struct{}{}:
				default:
				}
			}
		}
	})
	defer worker.SetVerifHook(nil)
	var held int32
	fpgo.SetVerifHook(func(point string, obj any) {
		if point != "bcq.offer.entry" || obj != any(q) || atomic.LoadInt32(&holding) == 0 {
			return
		}
		atomic.AddInt32(&held, 1)
		select {
		case <-holdRelease:
		case <-time.After(time.Duration(c.ParkUs) * time.Microsecond):
		}
	})
	defer fpgo.SetVerifHook(nil)

	noWorkers := func() bool {
		mu.Lock()
		defer mu.Unlock()
		return len(workers) == exits && spawnWakes == spawnSleeps &&
			time.Since(lastSleep) > time.Duration(c.SpawnUs)*time.Microsecond+300*time.Microsecond
	}
	runJob := func(panics bool, hold bool, what string) bool {
		ran := make(chan struct{})
		job := func() {
			close(ran)
			if panics {
				panic("lone")
			}
		}
		if hold {
			for len(holdRelease) > 0 {
				<-holdRelease
			}
			atomic.StoreInt32(&holding, 1)
		}
		var err error
		if c.ViaTO {
			err = pool.ScheduleWithTimeout(job, time.Second)
		} else {
			err = pool.Schedule(job)
		}
		atomic.StoreInt32(&holding, 0)
		if err != nil {
			// a pool that is open and empty has no reason to refuse; not this part's business
			key, msg = "", ""
			return false
		}
		select {
		case <-ran:
			return true
		case <-time.After(vlib.StallBudget()):
			verdict, dump := vlib.ClassifyStall([]string{"worker.(*DefaultWorkerPool)"})
			key = "C09/accepted-not-run"
			msg = fmt.Sprintf("%s: Schedule returned nil but the job was not executed within %v (pool left open, no further calls; pool goroutines: %s)\n%s", what, vlib.StallBudget(), verdict, dump)
			return false
		}
	}
	for i := 0; i < c.Warmup; i++ {
		if !runJob(false, false, fmt.Sprintf("warm-up job %d", i)) {
			return
		}
	}
	for r := 0; r < c.Rounds; r++ {
		// make the workers vanish
		if c.Vanish == 0 {
			before := atomic.LoadInt32(&handled)
			if !runJob(true, false, fmt.Sprintf("round %d: panicking job", r)) {
				return
			}
			if !vlib.WaitUntil(2*time.Second, func() bool { return atomic.LoadInt32(&handled) > before }) {
				key, msg = "C09/handler-not-called", fmt.Sprintf("round %d: panic handler not invoked for a panicking job", r)
				return
			}
		} else if r == 0 && c.Warmup == 0 {
			if !runJob(false, false, "first job") {
				return
			}
		}
		if !vlib.WaitUntil(3*time.Second, noWorkers) {
			// workers did not vanish (e.g. expiry keeps one): the round is an ordinary submission
			if !runJob(false, false, fmt.Sprintf("round %d: job with workers alive", r)) {
				return
			}
			continue
		}
		time.Sleep(time.Duration(c.IdleUs[r]) * time.Microsecond)
		if !noWorkers() {
			continue
		}
		h0 := atomic.LoadInt32(&held)
		if !runJob(false, !c.NoHold, fmt.Sprintf("round %d: lone job on a pool with 0 workers and an idle spawn loop", r)) {
			return
		}
		if atomic.LoadInt32(&held) > h0 || c.NoHold {
			nontrivial = true
		}
	}
	return
}

var loneDirected = []loneCase{
	{Batch: 1, Max: 4, ChanCap: 1, Buffer: 4, Vanish: 0, Warmup: 1, Rounds: 2, ParkUs: 3000, SpawnUs: 200, IdleUs: []int{0, 500}},
	{Batch: 2, Max: 1, ChanCap: 2, Buffer: 0, Vanish: 1, JamLong: true, Warmup: 2, Rounds: 2, ParkUs: 2000, SpawnUs: 50, IdleUs: []int{100, 0}, ViaTO: true},
}

func TestLoneJobRegress(t *testing.T) {
	if vlib.Replaying() {
		t.Skip()
	}
	for _, c := range loneDirected {
		vlib.S().Eval("lone-job")
		key, msg, nt := runLone(c)
		if nt {
			vlib.S().NonTrivial("lone-job", c.String())
		}
		if key != "" {
			vlib.WriteReplay("C09/lone", c)
			vlib.Fail(t, key, "%v: %s", c, msg)
		}
	}
}

func TestLoneJobReplay(t *testing.T) {
	raw := vlib.ReplayCase("C09/lone")
	if raw == nil {
		t.Skip("no replay case")
	}
	var c loneCase
	if err := json.Unmarshal(raw, &c); err != nil {
		t.Fatal(err)
	}
	if key, msg, _ := runLone(c); key != "" {
		t.Fatalf("[key=%s] %s", key, msg)
	}
}

func TestLoneJob(t *testing.T) {
	if vlib.Replaying() {
		t.Skip()
	}
	vlib.Check(t, "lone-job", 60, 600, func(t *rapid.T) {
		c := genLone(t)
		vlib.S().Eval("lone-job")
		key, msg, nt := runLone(c)
		if nt {
			vlib.S().NonTrivial("lone-job", c.String())
			vlib.S().Class("lone-job-held")
		} else {
			vlib.S().Class("lone-job-workers-alive")
		}
		if key != "" {
			vlib.WriteReplay("C09/lone", c)
			if vlib.Fail(t, key, "%v: %s", c, msg) {
				t.Skip("known")
			}
		}
	})
}
