module verifharness

go 1.23

require (
	github.com/TeaEntityLab/fpGo/v2 v2.3.3
	github.com/anishathalye/porcupine v1.3.0
	pgregory.net/rapid v1.3.0
)

replace github.com/TeaEntityLab/fpGo/v2 => /repo
