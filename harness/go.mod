module verifharness

go 1.23

// run the checks with the runtime defaults (GODEBUG) of the library's own go line (go 1.18 in /repo/go.mod):
// timer channels, loop-independent runtime semantics etc. behave as they do in the repository's own tests
godebug default=go1.18

require (
	github.com/TeaEntityLab/fpGo/v2 v2.3.3
	github.com/anishathalye/porcupine v1.3.0
	pgregory.net/rapid v1.3.0
)

replace github.com/TeaEntityLab/fpGo/v2 => /repo
