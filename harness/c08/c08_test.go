package c08

import (
	"fmt"
	"runtime"
	"sort"
	"strings"
	"sync"
	"sync/atomic"
	"testing"
	"time"

	fpgo "github.com/TeaEntityLab/fpGo/v2"
	"github.com/anishathalye/porcupine"
	"pgregory.net/rapid"

	"verifharness/vlib"
)

func TestMain(m *testing.M) { vlib.Main(m) }

// ---------------------------------------------------------------- tripwire structure

// tripwire is a deliberately non-thread-safe slice deque that detects
// overlapping entry and widens its critical section with yields.
type tripwire struct {
	inside     int32
	overlaps   int64
	yields     int
	items      []int
	panicEvery int // every k-th insertion panics instead of inserting (a wrapped structure may do that, e.g. a bounded queue)
	puts       int
}

// tripwirePanic is the panic value of a deliberately failing wrapped insertion.
type tripwirePanic struct{}

func (w *tripwire) enter() {
	if !atomic.CompareAndSwapInt32(&w.inside, 0, 1) {
		atomic.AddInt64(&w.overlaps, 1)
	}
	for i := 0; i < w.yields; i++ {
		runtime.Gosched()
	}
}
func (w *tripwire) exit() { atomic.StoreInt32(&w.inside, 0) }

func (w *tripwire) Put(v int) error { return w.Offer(v) }
func (w *tripwire) Offer(v int) error {
	w.enter()
	defer w.exit()
	w.puts++
	if w.panicEvery > 0 && w.puts%w.panicEvery == 0 {
		panic(tripwirePanic{})
	}
	w.items = append(w.items, v)
	return nil
}
func (w *tripwire) Push(v int) error   { return w.Offer(v) }
func (w *tripwire) Take() (int, error) { return w.Poll() }
func (w *tripwire) Poll() (int, error) {
	w.enter()
	defer w.exit()
	if len(w.items) == 0 {
		return 0, fpgo.ErrQueueIsEmpty
	}
	v := w.items[0]
	w.items = w.items[1:]
	return v, nil
}
func (w *tripwire) Pop() (int, error) {
	w.enter()
	defer w.exit()
	if len(w.items) == 0 {
		return 0, fpgo.ErrStackIsEmpty
	}
	v := w.items[len(w.items)-1]
	w.items = w.items[:len(w.items)-1]
	return v, nil
}

// ---------------------------------------------------------------- scenario

const (
	kPut = iota
	kOffer
	kTake
	kPoll
)

type scenario struct {
	Stack   bool    `json:"stack"`
	Wrapped string  `json:"wrapped"` // "linkedlist" | "tripwire"
	Yields  int     `json:"yields"`
	Threads [][]int `json:"threads"` // per goroutine: list of op kinds
	Prefill int     `json:"prefill"`
	// PanicEvery > 0 (tripwire only): every k-th insertion into the wrapped structure panics;
	// the caller recovers it; the wrapper must stay usable for everybody else
	PanicEvery int `json:"panicEvery"`
	// Nest > 0: the wrapper is wrapped Nest more times (a ConcurrentQueue/Stack is itself a Queue/Stack);
	// goroutine i works through handle i % (Nest+1), so inner and outer handles are used at once
	Nest int `json:"nest"`
}

func (s scenario) String() string {
	var sb strings.Builder
	fmt.Fprintf(&sb, "stack=%v wrapped=%s yields=%d prefill=%d panicEvery=%d nest=%d", s.Stack, s.Wrapped, s.Yields, s.Prefill, s.PanicEvery, s.Nest)
	for i, th := range s.Threads {
		fmt.Fprintf(&sb, " g%d=", i)
		for _, k := range th {
			sb.WriteByte("POTL"[k])
		}
	}
	return sb.String()
}

type opRec struct {
	client int
	kind   int
	val    int // value put, or value taken
	ok     bool
	call   int64
	ret    int64
}

type result struct {
	failKey, failMsg string
	overlapConsumers bool
	ops              []opRec
}

func genScenario(t *rapid.T) scenario {
	var s scenario
	s.Stack = rapid.Bool().Draw(t, "stack")
	s.Wrapped = rapid.SampledFrom([]string{"linkedlist", "tripwire", "tripwire"}).Draw(t, "wrapped")
	s.Yields = rapid.IntRange(0, 4).Draw(t, "yields")
	small := rapid.Bool().Draw(t, "small")
	maxG, maxOps := 8, 40
	if vlib.Thorough() {
		maxG = 16
	}
	if small {
		maxG, maxOps = 4, 8
	}
	p := rapid.IntRange(1, maxG).Draw(t, "P")
	k := rapid.IntRange(1, maxG).Draw(t, "K")
	s.Prefill = rapid.IntRange(0, 6).Draw(t, "prefill")
	if s.Wrapped == "tripwire" && rapid.IntRange(0, 3).Draw(t, "panics") == 0 {
		s.PanicEvery = rapid.IntRange(2, 7).Draw(t, "panicEvery")
	}
	s.Nest = rapid.SampledFrom([]int{0, 0, 0, 1, 2}).Draw(t, "nest")
	for i := 0; i < p+k; i++ {
		n := rapid.IntRange(1, maxOps).Draw(t, "n")
		th := make([]int, n)
		producer := i < p
		mixed := rapid.IntRange(0, 3).Draw(t, "mixed") == 0
		for j := range th {
			isPut := producer
			if mixed {
				isPut = rapid.Bool().Draw(t, "isPut")
			}
			alt := rapid.Bool().Draw(t, "alt")
			switch {
			case isPut && alt:
				th[j] = kPut
			case isPut:
				th[j] = kOffer
			case alt:
				th[j] = kTake
			default:
				th[j] = kPoll
			}
		}
		s.Threads = append(s.Threads, th)
	}
	return s
}

func runScenarioInner(s scenario) result {
	var res result
	var clock int64
	var put func(int) error
	var putAlt func(int) error
	var take func() (int, error)
	var takeAlt func() (int, error)
	var tw *tripwire
	var hPut, hPutAlt []func(int) error
	var hTake, hTakeAlt []func() (int, error)
	if s.Stack {
		var inner fpgo.Stack[int]
		if s.Wrapped == "tripwire" {
			tw = &tripwire{yields: s.Yields, panicEvery: s.PanicEvery}
			inner = tw
		} else {
			inner = fpgo.NewLinkedListQueue[int]()
		}
		cs := fpgo.NewConcurrentStack[int](inner)
		put, putAlt = cs.Push, cs.Push
		take, takeAlt = cs.Pop, cs.Pop
		hPut, hPutAlt, hTake, hTakeAlt = append(hPut, put), append(hPutAlt, putAlt), append(hTake, take), append(hTakeAlt, takeAlt)
		for n := 0; n < s.Nest; n++ {
			cs = fpgo.NewConcurrentStack[int](cs)
			hPut, hPutAlt, hTake, hTakeAlt = append(hPut, cs.Push), append(hPutAlt, cs.Push), append(hTake, cs.Pop), append(hTakeAlt, cs.Pop)
		}
	} else {
		var inner fpgo.Queue[int]
		if s.Wrapped == "tripwire" {
			tw = &tripwire{yields: s.Yields, panicEvery: s.PanicEvery}
			inner = tw
		} else {
			inner = fpgo.NewLinkedListQueue[int]()
		}
		cq := fpgo.NewConcurrentQueue[int](inner)
		put, putAlt = cq.Put, cq.Offer
		take, takeAlt = cq.Take, cq.Poll
		hPut, hPutAlt, hTake, hTakeAlt = append(hPut, put), append(hPutAlt, putAlt), append(hTake, take), append(hTakeAlt, takeAlt)
		for n := 0; n < s.Nest; n++ {
			cq = fpgo.NewConcurrentQueue[int](cq)
			hPut, hPutAlt, hTake, hTakeAlt = append(hPut, cq.Put), append(hPutAlt, cq.Offer), append(hTake, cq.Take), append(hTakeAlt, cq.Poll)
		}
	}
	// safePut runs an insertion; a deliberate tripwire panic is recovered and reported as "not inserted"
	safePut := func(f func(int) error, v int) (inserted bool, err error) {
		defer func() {
			if r := recover(); r != nil {
				if _, mine := r.(tripwirePanic); !mine {
					panic(r)
				}
				inserted = false
			}
		}()
		err = f(v)
		return true, err
	}
	nextVal := 1
	var all []opRec
	for i := 0; i < s.Prefill; i++ {
		c := atomic.AddInt64(&clock, 1)
		ins, err := safePut(put, nextVal)
		r := atomic.AddInt64(&clock, 1)
		if ins {
			all = append(all, opRec{client: len(s.Threads), kind: kPut, val: nextVal, ok: err == nil, call: c, ret: r})
		}
		nextVal++
	}
	// pre-assign values
	vals := make([][]int, len(s.Threads))
	for i, th := range s.Threads {
		vals[i] = make([]int, len(th))
		for j, k := range th {
			if k == kPut || k == kOffer {
				vals[i][j] = nextVal
				nextVal++
			}
		}
	}
	recs := make([][]opRec, len(s.Threads))
	panics := make([]string, len(s.Threads))
	var wg sync.WaitGroup
	start := make(chan struct{})
	for i := range s.Threads {
		wg.Add(1)
		go func(i int) {
			defer wg.Done()
			<-start
			put, putAlt, take, takeAlt := hPut[i%len(hPut)], hPutAlt[i%len(hPut)], hTake[i%len(hPut)], hTakeAlt[i%len(hPut)]
			p, stack := vlib.Try(func() {
				for j, k := range s.Threads[i] {
					rec := opRec{client: i, kind: k}
					rec.call = atomic.AddInt64(&clock, 1)
					switch k {
					case kPut:
						rec.val = vals[i][j]
						ins, err := safePut(put, rec.val)
						if !ins {
							continue
						}
						rec.ok = err == nil
					case kOffer:
						rec.val = vals[i][j]
						ins, err := safePut(putAlt, rec.val)
						if !ins {
							continue
						}
						rec.ok = err == nil
					case kTake:
						v, err := take()
						rec.val, rec.ok = v, err == nil
						if err != nil && err != fpgo.ErrQueueIsEmpty && err != fpgo.ErrStackIsEmpty {
							panic(fmt.Sprintf("unexpected error %v", err))
						}
					case kPoll:
						v, err := takeAlt()
						rec.val, rec.ok = v, err == nil
						if err != nil && err != fpgo.ErrQueueIsEmpty && err != fpgo.ErrStackIsEmpty {
							panic(fmt.Sprintf("unexpected error %v", err))
						}
					}
					rec.ret = atomic.AddInt64(&clock, 1)
					recs[i] = append(recs[i], rec)
				}
			})
			if p != nil {
				panics[i] = fmt.Sprintf("%v\n%s", p, trimStack(stack))
			}
		}(i)
	}
	done := make(chan struct{})
	go func() { wg.Wait(); close(done) }()
	close(start)
	select {
	case <-done:
	case <-time.After(vlib.StallBudget()):
		// a corrupted list cannot loop (all walks are bounded), so this is a real hang
		// (e.g. the wrapper's lock was not released after a panic of the wrapped call)
		res.failKey, res.failMsg = "C08/hang", "goroutines did not finish:\n"+vlib.AllStacks()
		return res
	}
	for i, p := range panics {
		if p != "" {
			res.failKey = "C08/panic"
			res.failMsg = fmt.Sprintf("goroutine %d panicked: %s", i, p)
			return res
		}
	}
	for _, r := range recs {
		all = append(all, r...)
	}
	// final single-threaded drain
	for i := 0; ; i++ {
		rec := opRec{client: len(s.Threads), kind: kPoll}
		rec.call = atomic.AddInt64(&clock, 1)
		var v int
		var err error
		p, stack := vlib.Try(func() { v, err = takeAlt() })
		if p != nil {
			res.failKey, res.failMsg = "C08/panic", fmt.Sprintf("drain panicked: %v\n%s", p, trimStack(stack))
			return res
		}
		rec.val, rec.ok = v, err == nil
		rec.ret = atomic.AddInt64(&clock, 1)
		all = append(all, rec)
		if err != nil {
			break
		}
		if i > nextVal+5 {
			res.failKey, res.failMsg = "C08/duplicate", "drain returns more values than were ever offered"
			return res
		}
	}
	res.ops = all
	// (1) tripwire
	if tw != nil && atomic.LoadInt64(&tw.overlaps) > 0 {
		res.failKey = "C08/overlap"
		res.failMsg = fmt.Sprintf("%d overlapping entries into the wrapped (non-thread-safe) structure", tw.overlaps)
		return res
	}
	// (2) exactly once
	offered := map[int]bool{}
	taken := map[int]int{}
	for _, r := range all {
		if r.kind == kPut || r.kind == kOffer {
			if !r.ok {
				res.failKey, res.failMsg = "C08/put-error", fmt.Sprintf("put of %d failed", r.val)
				return res
			}
			offered[r.val] = true
		}
	}
	for _, r := range all {
		if (r.kind == kTake || r.kind == kPoll) && r.ok {
			if !offered[r.val] {
				res.failKey, res.failMsg = "C08/invented", fmt.Sprintf("removal returned %d which was never offered", r.val)
				return res
			}
			taken[r.val]++
			if taken[r.val] > 1 {
				res.failKey, res.failMsg = "C08/duplicate", fmt.Sprintf("value %d returned by two removals", r.val)
				return res
			}
		}
	}
	if len(taken) != len(offered) {
		var lost []int
		for v := range offered {
			if taken[v] == 0 {
				lost = append(lost, v)
			}
		}
		sort.Ints(lost)
		res.failKey, res.failMsg = "C08/lost", fmt.Sprintf("offered values never returned after drain: %v", lost)
		return res
	}
	// overlap of two different consumer goroutines (non-trivial rule)
	var rem []opRec
	for _, r := range all {
		if r.kind == kTake || r.kind == kPoll {
			rem = append(rem, r)
		}
	}
outer:
	for i := range rem {
		for j := i + 1; j < len(rem); j++ {
			if rem[i].client != rem[j].client && rem[i].call < rem[j].ret && rem[j].call < rem[i].ret {
				res.overlapConsumers = true
				break outer
			}
		}
	}
	// (3) order: per (consumer, producer) FIFO for queues of any size
	if !s.Stack {
		producerOf := map[int]int{}
		seqOf := map[int]int{}
		for _, r := range all {
			if r.kind == kPut || r.kind == kOffer {
				producerOf[r.val] = r.client
				seqOf[r.val] = int(r.call)
			}
		}
		last := map[[2]int]int{}
		byClient := map[int][]opRec{}
		for _, r := range all {
			byClient[r.client] = append(byClient[r.client], r)
		}
		for c, ops := range byClient {
			sort.Slice(ops, func(i, j int) bool { return ops[i].call < ops[j].call })
			for _, r := range ops {
				if (r.kind == kTake || r.kind == kPoll) && r.ok {
					key := [2]int{c, producerOf[r.val]}
					if seqOf[r.val] < last[key] {
						res.failKey = "C08/fifo"
						res.failMsg = fmt.Sprintf("consumer %d received value %d of producer %d after a later value of the same producer", c, r.val, producerOf[r.val])
						return res
					}
					last[key] = seqOf[r.val]
				}
			}
		}
	}
	// (4) linearizability for small histories
	if len(all) <= 40 {
		if !linearizable(all, s.Stack) {
			res.failKey = "C08/not-linearizable"
			res.failMsg = "history is not linearizable w.r.t. the sequential " + map[bool]string{false: "FIFO queue", true: "LIFO stack"}[s.Stack] + ":\n" + renderOps(all)
			return res
		}
	}
	return res
}

// runScenario guards the whole scenario (incl. the single-threaded prefill and drain) against hangs:
// every wrapped walk is bounded, so a call that never returns means the wrapper's lock was lost.
func runScenario(s scenario) result {
	ch := make(chan result, 1)
	go func() { ch <- runScenarioInner(s) }()
	select {
	case r := <-ch:
		return r
	case <-time.After(3 * vlib.StallBudget()):
		return result{failKey: "C08/hang", failMsg: "a call on the wrapper never returned (lock not released?):\n" + vlib.AllStacks()}
	}
}

func trimStack(stack string) string {
	var keep []string
	for _, l := range strings.Split(stack, "\n") {
		if strings.Contains(l, "fpGo") {
			keep = append(keep, strings.TrimSpace(l))
		}
		if len(keep) >= 6 {
			break
		}
	}
	return strings.Join(keep, "\n")
}

func renderOps(ops []opRec) string {
	sorted := append([]opRec(nil), ops...)
	sort.Slice(sorted, func(i, j int) bool { return sorted[i].call < sorted[j].call })
	var sb strings.Builder
	for _, r := range sorted {
		name := []string{"Put", "Offer", "Take", "Poll"}[r.kind]
		fmt.Fprintf(&sb, "  g%d [%d,%d] %s val=%d ok=%v\n", r.client, r.call, r.ret, name, r.val, r.ok)
	}
	return sb.String()
}

type pin struct {
	put bool
	val int
}
type pout struct {
	val int
	ok  bool
}

func linearizable(ops []opRec, stack bool) bool {
	model := porcupine.Model{
		Init: func() interface{} { return "" },
		Step: func(state, input, output interface{}) (bool, interface{}) {
			st := state.(string)
			in := input.(pin)
			out := output.(pout)
			if in.put {
				if st == "" {
					return true, fmt.Sprint(in.val)
				}
				return true, st + "," + fmt.Sprint(in.val)
			}
			if st == "" {
				return !out.ok, st
			}
			if !out.ok {
				return false, st
			}
			parts := strings.Split(st, ",")
			if stack {
				if parts[len(parts)-1] != fmt.Sprint(out.val) {
					return false, st
				}
				return true, strings.Join(parts[:len(parts)-1], ",")
			}
			if parts[0] != fmt.Sprint(out.val) {
				return false, st
			}
			return true, strings.Join(parts[1:], ",")
		},
	}
	h := make([]porcupine.Operation, 0, len(ops))
	for _, r := range ops {
		isPut := r.kind == kPut || r.kind == kOffer
		h = append(h, porcupine.Operation{ClientId: r.client, Input: pin{put: isPut, val: r.val},
			Output: pout{val: r.val, ok: r.ok}, Call: r.call, Return: r.ret})
	}
	// bounded search: "Unknown" (time-out of the checker) is not a violation; the bound stays well
	// below the whole-scenario hang guard
	r := porcupine.CheckOperationsTimeout(model, h, 2*time.Second)
	if r == porcupine.Unknown {
		vlib.S().Class("porcupine-undecided")
	}
	return r != porcupine.Illegal
}

// ---------------------------------------------------------------- tests

func report(t vlib.TB, s scenario, res result, skip func()) {
	if res.failKey == "" {
		return
	}
	vlib.WriteReplay("C08/scenario", s)
	if vlib.Fail(t, res.failKey, "scenario %v: %s", s, res.failMsg) {
		skip()
	}
}

var regressions = []scenario{
	// a panicking wrapped insertion must not leave the wrapper locked
	{Stack: false, Wrapped: "tripwire", Prefill: 1, PanicEvery: 2, Threads: [][]int{{kPut, kPut, kPut, kPoll}, {kOffer, kTake, kOffer}}},
	// DESIGN §4 #12: Take/Poll/Pop only under RLock — consumers race inside the wrapped structure
	{Stack: false, Wrapped: "tripwire", Yields: 3, Prefill: 6, Threads: [][]int{{kTake, kTake, kTake}, {kPoll, kPoll, kPoll}}},
	{Stack: true, Wrapped: "tripwire", Yields: 3, Prefill: 6, Threads: [][]int{{kTake, kTake, kTake}, {kTake, kTake, kTake}}},
	{Stack: false, Wrapped: "linkedlist", Prefill: 6, Threads: [][]int{{kTake, kTake, kTake, kTake}, {kPoll, kPoll, kPoll, kPoll}, {kPut, kPut, kPut}, {kPoll, kPoll}}},
}

func TestRegress(t *testing.T) {
	for _, s := range regressions {
		for rep := 0; rep < 20; rep++ {
			vlib.S().Eval("regress")
			res := runScenario(s)
			if res.overlapConsumers {
				vlib.S().NonTrivial("regress", s.String())
			}
			report(t, s, res, func() {})
		}
	}
}

func TestReplayJSON(t *testing.T) {
	raw := vlib.ReplayCase("C08/scenario")
	if raw == nil {
		t.Skip("no replay case")
	}
	var s scenario
	if err := jsonUnmarshal(raw, &s); err != nil {
		t.Fatal(err)
	}
	fails := 0
	var last result
	for i := 0; i < 300; i++ {
		res := runScenario(s)
		if res.failKey != "" {
			fails++
			last = res
		}
	}
	t.Logf("replay: %d of 300 runs failed", fails)
	if fails > 0 {
		t.Fatalf("[key=%s] %s", last.failKey, last.failMsg)
	}
}

func TestScenarios(t *testing.T) {
	vlib.Check(t, "scenarios", 4000, 8000, func(t *rapid.T) {
		s := genScenario(t)
		st := vlib.S()
		st.Eval("scenarios")
		res := runScenario(s)
		if res.overlapConsumers {
			st.NonTrivial("scenarios", s.String())
			st.Class("consumers-overlapped")
		} else {
			st.Class("no-consumer-overlap")
		}
		if len(res.ops) > 0 && len(res.ops) <= 40 {
			st.Class("porcupine-checked")
		}
		st.Class("wrapped=" + s.Wrapped)
		st.Class(fmt.Sprintf("nest=%d", s.Nest))
		report(t, s, res, func() { t.Skip("known") })
	})
}

// TestScenariosOneP: the same scenarios on a process that runs with GOMAXPROCS=1 (a one-CPU container):
// goroutines still interleave - the tripwire structure yields inside its critical section - so the
// wrappers' mutual exclusion is needed there exactly as anywhere else. The wrappers are constructed
// while GOMAXPROCS is 1.
func TestScenariosOneP(t *testing.T) {
	if vlib.Replaying() {
		t.Skip()
	}
	prev := runtime.GOMAXPROCS(1)
	defer runtime.GOMAXPROCS(prev)
	vlib.Check(t, "scenarios-one-p", 600, 3000, func(t *rapid.T) {
		s := genScenario(t)
		st := vlib.S()
		st.Eval("scenarios-one-p")
		res := runScenario(s)
		if s.Wrapped == "tripwire" && s.Yields > 0 && len(s.Threads) >= 2 {
			st.NonTrivial("scenarios-one-p", s.String())
		}
		report(t, s, res, func() { t.Skip("known") })
	})
}
