package c08

import (
	"encoding/json"
	"errors"
	"fmt"
	"sync"
	"sync/atomic"
	"testing"
	"time"

	fpgo "github.com/TeaEntityLab/fpGo/v2"
	"pgregory.net/rapid"

	"verifharness/vlib"
)

// Part "bulk-phases": the wrapped LinkedListQueue goes through large backlogs - phases of a burst of
// hundreds of values (producers and consumers both inside the phase, removals mixed Poll/Take resp. Pop),
// then drained to empty, sizes going up and down from phase to phase (so that the wrapped structure's
// recycling of nodes is exercised at every backlog size). After every phase: every value of the phase came
// out exactly once, nothing else did, one producer's values in its order (queue), the drained structure
// reports empty (and keeps doing so), nothing panics.

type bulkCase struct {
	Stack     bool  `json:"stack"`
	Producers int   `json:"producers"`
	Consumers int   `json:"consumers"`
	Sizes     []int `json:"sizes"` // values per phase
	// Big: the elements are 328-byte structs (an id and 40 words that repeat it) instead of ints: a value
	// that comes out is one that went in, whole
	Big bool `json:"big,omitempty"`
}

type bigElem struct {
	ID  int
	Pad [40]int
}

func mkBig(v int) bigElem {
	e := bigElem{ID: v}
	for i := range e.Pad {
		e.Pad[i] = v
	}
	return e
}

func bigID(e bigElem) (int, bool) {
	for _, p := range e.Pad {
		if p != e.ID {
			return e.ID, false
		}
	}
	return e.ID, true
}

func runBulk(c bulkCase) (key, msg string) {
	return guarded("c08.runBulkT", func() (string, string) {
		if c.Big {
			return runBulkT(c, mkBig, bigID)
		}
		return runBulkT(c, func(v int) int { return v }, func(v int) (int, bool) { return v, true })
	})
}

// guarded runs one case under a hang guard: the calls of a case never wait for anything but the wrapper's own
// lock, so goroutines that are all blocked for good mean the wrapper wedged itself ("no call ... corrupts").
func guarded(needle string, run func() (string, string)) (key, msg string) {
	type res struct{ key, msg string }
	done := make(chan res, 1)
	go func() { k, m := run(); done <- res{k, m} }()
	select {
	case r := <-done:
		return r.key, r.msg
	case <-time.After(6 * vlib.StallBudget()):
	}
	verdict, dump := vlib.ClassifyStall([]string{needle})
	select {
	case r := <-done:
		return r.key, r.msg
	default:
	}
	if verdict == "blocked" {
		return "C08/hang", "the calls on the wrapper do not return any more (every goroutine of the case is blocked):\n" + dump
	}
	vlib.S().Class("guarded/inconclusive")
	return "", ""
}

func (c bulkCase) String() string { b, _ := json.Marshal(c); return string(b) }

func runBulkT[T any](c bulkCase, mk func(int) T, idOf func(T) (int, bool)) (key, msg string) {
	ll := fpgo.NewLinkedListQueue[T]()
	cq := fpgo.NewConcurrentQueue[T](ll)
	cs := fpgo.NewConcurrentStack[T](ll)
	var torn int64
	put := func(i, v int) error {
		if c.Stack {
			return cs.Push(mk(v))
		}
		if i%2 == 0 {
			return cq.Offer(mk(v))
		}
		return cq.Put(mk(v))
	}
	get := func(i int) (int, error) {
		var e T
		var err error
		switch {
		case c.Stack:
			e, err = cs.Pop()
		case i%2 == 0:
			e, err = cq.Poll()
		default:
			e, err = cq.Take()
		}
		if err != nil {
			return 0, err
		}
		v, whole := idOf(e)
		if !whole {
			atomic.AddInt64(&torn, 1)
		}
		return v, nil
	}
	isEmpty := func(err error) bool { return err == fpgo.ErrQueueIsEmpty || err == fpgo.ErrStackIsEmpty }
	var mu sync.Mutex
	fail := func(k, f string, a ...any) {
		mu.Lock()
		if key == "" {
			key, msg = k, fmt.Sprintf(f, a...)
		}
		mu.Unlock()
	}
	base := 0
	for pi, size := range c.Sizes {
		var produced int64
		var wg sync.WaitGroup
		per := size / c.Producers
		total := per * c.Producers
		for p := 0; p < c.Producers; p++ {
			wg.Add(1)
			go func(p int) {
				defer wg.Done()
				defer func() {
					if r := recover(); r != nil {
						fail("C08/panic", "phase %d: an insertion panicked: %v", pi, r)
					}
				}()
				for j := 0; j < per; j++ {
					if err := put(j, base+p*per+j); err != nil {
						fail("C08/error-value", "phase %d: insertion failed: %v", pi, err)
						return
					}
					atomic.AddInt64(&produced, 1)
				}
			}(p)
		}
		got := make([][]int, c.Consumers)
		var removed int64
		var cwg sync.WaitGroup
		var producersDone int32
		for q := 0; q < c.Consumers; q++ {
			cwg.Add(1)
			go func(q int) {
				defer cwg.Done()
				defer func() {
					if r := recover(); r != nil {
						fail("C08/panic", "phase %d: a removal panicked: %v (%d values inserted, %d removed so far)", pi, r, atomic.LoadInt64(&produced), atomic.LoadInt64(&removed))
					}
				}()
				for n := 0; ; n++ {
					done := atomic.LoadInt32(&producersDone) == 1
					v, err := get(n)
					if err == nil {
						got[q] = append(got[q], v)
						atomic.AddInt64(&removed, 1)
						continue
					}
					if !isEmpty(err) {
						fail("C08/error-value", "phase %d: removal failed: %v", pi, err)
						return
					}
					if done {
						return // reported empty by a removal that began after the last insertion had returned
					}
				}
			}(q)
		}
		wg.Wait()
		atomic.StoreInt32(&producersDone, 1)
		cwg.Wait()
		if key != "" {
			return
		}
		if n := atomic.LoadInt64(&torn); n > 0 {
			return "C08/invented", fmt.Sprintf("phase %d: %d removals returned a value that is a mix of two offered values (328-byte elements)", pi, n)
		}
		seen := make([]int, total)
		for q := range got {
			lastOf := map[int]int{}
			for _, v := range got[q] {
				if v < base || v >= base+total {
					return "C08/invented", fmt.Sprintf("phase %d: a removal returned %d, which was not inserted in this phase (values %d..%d)", pi, v, base, base+total-1)
				}
				seen[v-base]++
				if !c.Stack {
					p := (v - base) / per
					if last, ok := lastOf[p]; ok && v < last {
						return "C08/fifo", fmt.Sprintf("phase %d: one consumer received %d after %d, both inserted by producer %d in the other order", pi, v, last, p)
					}
					lastOf[p] = v
				}
			}
		}
		for i, n := range seen {
			if n == 0 {
				return "C08/lost", fmt.Sprintf("phase %d (%d values): value %d was inserted and never came out although the structure was drained until it reported empty", pi, total, base+i)
			}
			if n > 1 {
				return "C08/duplicate", fmt.Sprintf("phase %d: value %d came out %d times", pi, base+i, n)
			}
		}
		for k := 0; k < 3; k++ {
			var v int
			var err error
			p, _ := vlib.Try(func() { v, err = get(k) })
			if p != nil {
				return "C08/panic", fmt.Sprintf("phase %d: a removal on the drained structure panicked: %v", pi, p)
			}
			if !isEmpty(err) {
				return "C08/empty-not-reported", fmt.Sprintf("phase %d: everything inserted was removed, the next removal returned (%d, %v)", pi, v, err)
			}
		}
		base += total
	}
	return "", ""
}

var bulkDirected = []bulkCase{
	{Producers: 1, Consumers: 1, Sizes: []int{800, 400, 800, 400, 900, 300}},
	{Stack: true, Producers: 2, Consumers: 2, Sizes: []int{600, 300, 700}},
	{Producers: 4, Consumers: 4, Sizes: []int{1000, 1000}, Big: true},
}

func TestBulkRegress(t *testing.T) {
	if vlib.Replaying() {
		t.Skip()
	}
	for _, c := range bulkDirected {
		vlib.S().Eval("bulk-phases")
		vlib.S().NonTrivial("bulk-phases", c.String())
		if key, msg := runBulk(c); key != "" {
			vlib.WriteReplay("C08/bulk", c)
			vlib.Fail(t, key, "%v: %s", c, msg)
		}
	}
}

func TestBulkReplay(t *testing.T) {
	raw := vlib.ReplayCase("C08/bulk")
	if raw == nil {
		t.Skip("no replay case")
	}
	var c bulkCase
	if err := json.Unmarshal(raw, &c); err != nil {
		t.Fatal(err)
	}
	for i := 0; i < 10; i++ {
		if key, msg := runBulk(c); key != "" {
			t.Fatalf("[key=%s] %s", key, msg)
		}
	}
}

func TestBulkPhases(t *testing.T) {
	if vlib.Replaying() {
		t.Skip()
	}
	vlib.Check(t, "bulk-phases", 40, 600, func(t *rapid.T) {
		c := bulkCase{Stack: rapid.Bool().Draw(t, "stack"), Producers: rapid.IntRange(1, 4).Draw(t, "producers"), Consumers: rapid.IntRange(1, 4).Draw(t, "consumers"),
			Sizes: rapid.SliceOfN(rapid.SampledFrom([]int{8, 100, 257, 300, 400, 600, 800, 1000}), 2, 6).Draw(t, "sizes"), Big: rapid.Bool().Draw(t, "big")}
		vlib.S().Eval("bulk-phases")
		vlib.S().NonTrivial("bulk-phases", c.String())
		if key, msg := runBulk(c); key != "" {
			vlib.WriteReplay("C08/bulk", c)
			if vlib.Fail(t, key, "%v: %s", c, msg) {
				t.Skip("known")
			}
		}
	})
}

// Part "faulty-wrapped": "all wrapped implementations" - also one whose removal now and then panics before
// it touches anything (a faulty user structure, an injected fault). Whatever the wrapper does with such a
// panic, it does not turn it into a successful removal: no removal returns a value that was not offered, and
// every offered value is returned exactly once when the structure is drained afterwards; the wrapper stays
// usable (its lock is released).

type sliceDeque struct {
	items  []int
	calls  int
	every  int
	asErr  bool // the fault is a returned error instead of a panic
	inside int32
}

type injectedFault struct{}

var errInjectedFault = errors.New("c08: the wrapped structure failed (injected)")

func (s *sliceDeque) Put(v int) error   { return s.Offer(v) }
func (s *sliceDeque) Push(v int) error  { return s.Offer(v) }
func (s *sliceDeque) Offer(v int) error { s.items = append(s.items, v); return nil }
func (s *sliceDeque) Take() (int, error) {
	return s.Poll()
}
func (s *sliceDeque) fault() error {
	s.calls++
	if s.every > 0 && s.calls%s.every == 0 {
		if s.asErr {
			return errInjectedFault
		}
		panic(injectedFault{})
	}
	return nil
}
func (s *sliceDeque) Poll() (int, error) {
	if err := s.fault(); err != nil {
		return 0, err
	}
	if len(s.items) == 0 {
		return 0, fpgo.ErrQueueIsEmpty
	}
	v := s.items[0]
	s.items = s.items[1:]
	return v, nil
}
func (s *sliceDeque) Pop() (int, error) {
	if err := s.fault(); err != nil {
		return 0, err
	}
	if len(s.items) == 0 {
		return 0, fpgo.ErrStackIsEmpty
	}
	v := s.items[len(s.items)-1]
	s.items = s.items[:len(s.items)-1]
	return v, nil
}

type faultyCase struct {
	Stack   bool `json:"stack"`
	Every   int  `json:"every"`
	AsErr   bool `json:"asErr"` // the wrapped removal fails with an error of its own instead of a panic
	Workers int  `json:"workers"`
	N       int  `json:"n"` // values per producer, 1..N (0 is never offered)
}

func (c faultyCase) String() string { b, _ := json.Marshal(c); return string(b) }

func runFaulty(c faultyCase) (key, msg string) {
	return guarded("c08.runFaultyInner", func() (string, string) { return runFaultyInner(c) })
}

func runFaultyInner(c faultyCase) (key, msg string) {
	w := &sliceDeque{every: c.Every, asErr: c.AsErr}
	cq := fpgo.NewConcurrentQueue[int](w)
	cs := fpgo.NewConcurrentStack[int](w)
	total := c.Workers * c.N
	var mu sync.Mutex
	seen := map[int]int{}
	fail := func(k, f string, a ...any) {
		mu.Lock()
		if key == "" {
			key, msg = k, fmt.Sprintf(f, a...)
		}
		mu.Unlock()
	}
	remove := func(n int) (v int, err error, faulted bool) {
		defer func() {
			if r := recover(); r != nil {
				if _, ok := r.(injectedFault); !ok {
					fail("C08/panic", "a removal panicked with something else than the injected fault: %v", r)
				}
				faulted = true
			}
		}()
		if c.Stack {
			v, err = cs.Pop()
		} else if n%2 == 0 {
			v, err = cq.Poll()
		} else {
			v, err = cq.Take()
		}
		if err == errInjectedFault {
			return 0, nil, true // the wrapped structure's own failure, handed through: nothing was removed
		}
		return
	}
	note := func(v int) {
		mu.Lock()
		seen[v]++
		mu.Unlock()
	}
	var wg sync.WaitGroup
	for p := 0; p < c.Workers; p++ {
		wg.Add(2)
		go func(p int) {
			defer wg.Done()
			for j := 1; j <= c.N; j++ {
				if c.Stack {
					cs.Push(p*c.N + j)
				} else {
					cq.Offer(p*c.N + j)
				}
			}
		}(p)
		go func() {
			defer wg.Done()
			for n := 0; n < c.N; n++ {
				if v, err, faulted := remove(n); !faulted && err == nil {
					note(v)
				}
			}
		}()
	}
	wg.Wait()
	// drain: faults are retried, empty ends it
	for n := 0; n < 4*total+100; n++ {
		v, err, faulted := remove(n)
		if faulted {
			continue
		}
		if err == fpgo.ErrQueueIsEmpty || err == fpgo.ErrStackIsEmpty {
			if len(w.items) > 0 {
				return "C08/empty-not-true", fmt.Sprintf("a removal reported %v while the wrapped structure holds %d values and nobody else is using it (the wrapped removal fails every %d-th call with an error of its own: %v)", err, len(w.items), c.Every, c.AsErr)
			}
			break
		}
		if err != nil {
			return "C08/error-value", fmt.Sprintf("a removal failed with %v", err)
		}
		note(v)
	}
	if key != "" {
		return
	}
	for v, n := range seen {
		if v < 1 || v > total {
			return "C08/invented", fmt.Sprintf("a removal returned %d (x%d) with a nil error; the values offered are 1..%d (the wrapped structure's removal fails with a panic every %d-th call)", v, n, total, c.Every)
		}
		if n > 1 {
			return "C08/duplicate", fmt.Sprintf("value %d came out %d times", v, n)
		}
	}
	if len(seen) != total {
		return "C08/lost", fmt.Sprintf("%d of %d offered values came out although the structure was drained until it reported empty", len(seen), total)
	}
	return "", ""
}

func TestFaultyWrapped(t *testing.T) {
	if vlib.Replaying() {
		t.Skip()
	}
	vlib.Check(t, "faulty-wrapped", 200, 3000, func(t *rapid.T) {
		c := faultyCase{Stack: rapid.Bool().Draw(t, "stack"), Every: rapid.SampledFrom([]int{0, 2, 3, 7, 97}).Draw(t, "every"), AsErr: rapid.Bool().Draw(t, "asErr"),
			Workers: rapid.IntRange(1, 4).Draw(t, "workers"), N: rapid.IntRange(1, 200).Draw(t, "n")}
		vlib.S().Eval("faulty-wrapped")
		if c.Every > 0 {
			vlib.S().NonTrivial("faulty-wrapped", c.String())
		}
		if key, msg := runFaulty(c); key != "" {
			if vlib.Fail(t, key, "%v: %s", c, msg) {
				t.Skip("known")
			}
		}
	})
}
