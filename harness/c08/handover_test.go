package c08

import (
	"fmt"
	"runtime"
	"sync"
	"sync/atomic"
	"testing"
	"time"

	fpgo "github.com/TeaEntityLab/fpGo/v2"

	"verifharness/vlib"
)

// TestHandover: "a removal reports empty only if the structure could have been empty at that
// moment". One producer hands values over one at a time: after Offer(x) has RETURNED, x is in the
// structure until somebody removes it, so the consumers (spinning on Poll / Pop) must obtain it —
// every removal that starts after the Offer returned and finds "empty" while x is still inside
// contradicts any sequential order. A stale emptiness hint, a lost wake-up or a removal path that
// skips the lock shows as a value that never arrives although the consumers keep polling.
func TestHandover(t *testing.T) {
	if vlib.Replaying() {
		t.Skip()
	}
	rounds := vlib.Pick(60000, 600000)
	for _, stack := range []bool{false, true} {
		var offer func(int) error
		var poll func() (int, error)
		if stack {
			cs := fpgo.NewConcurrentStack[int](fpgo.NewLinkedListQueue[int]())
			offer, poll = cs.Push, cs.Pop
		} else {
			cq := fpgo.NewConcurrentQueue[int](fpgo.NewLinkedListQueue[int]())
			offer, poll = cq.Offer, cq.Poll
		}
		var consumed, stop int64
		var badMu sync.Mutex
		bad := ""
		var wg sync.WaitGroup
		for c := 0; c < 4; c++ {
			wg.Add(1)
			go func() {
				defer wg.Done()
				p, st := vlib.Try(func() {
					last := 0
					for atomic.LoadInt64(&stop) == 0 {
						v, err := poll()
						if err != nil {
							runtime.Gosched()
							continue
						}
						if v <= last {
							badMu.Lock()
							bad = fmt.Sprintf("a consumer received %d after %d (values are handed over in increasing order)", v, last)
							badMu.Unlock()
						}
						last = v
						atomic.AddInt64(&consumed, 1)
					}
				})
				if p != nil {
					badMu.Lock()
					bad = fmt.Sprintf("consumer panicked: %v\n%s", p, trimStack(st))
					badMu.Unlock()
				}
			}()
		}
		failed := ""
		for i := 1; i <= rounds && failed == ""; i++ {
			if err := offer(i); err != nil {
				failed = fmt.Sprintf("Offer(%d) failed: %v", i, err)
				break
			}
			// Offer returned: the value is inside until a consumer takes it
			if !vlib.WaitUntil(vlib.StallBudget(), func() bool { return atomic.LoadInt64(&consumed) >= int64(i) }) {
				failed = fmt.Sprintf("value %d was offered (Offer returned) but 4 consumers spinning on %s did not obtain it within %v: removals keep reporting empty although the structure holds it", i, map[bool]string{false: "Poll", true: "Pop"}[stack], vlib.StallBudget())
			}
			vlib.S().Eval("handover")
			if i%10000 == 0 {
				vlib.S().NonTrivial("handover", fmt.Sprintf("stack=%v %d hand-overs through 4 spinning consumers", stack, i))
			}
		}
		atomic.StoreInt64(&stop, 1)
		done := make(chan struct{})
		go func() { wg.Wait(); close(done) }()
		select {
		case <-done:
		case <-time.After(vlib.StallBudget()):
			if failed == "" {
				failed = "consumers did not stop (a removal blocks for ever)"
			}
		}
		badMu.Lock()
		if failed == "" {
			failed = bad
		}
		badMu.Unlock()
		if failed != "" {
			vlib.WriteReplay("C08/handover", map[string]any{"stack": stack, "failure": failed})
			if vlib.Fail(t, "C08/empty-after-offer", "stack=%v: %s", stack, failed) {
				return
			}
		}
	}
}
