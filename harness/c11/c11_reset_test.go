package c11

import (
	"encoding/json"
	"fmt"
	"sync"
	"testing"
	"time"

	fpgo "github.com/TeaEntityLab/fpGo/v2"
	"pgregory.net/rapid"

	"verifharness/vlib"
)

// Part "handler-sequence": all nil / non-nil handler combinations, applied one after the other to ONE
// MonadIO instance (ObserveOn / SubscribeOn are setters; nil is a value like any other: it takes the
// instance back to in-place, synchronous execution; the same buffered handler may be named on both sides).
// After every re-configuration the instance is
// subscribed once: the effect runs on the ObserveOn handler's goroutine (the subscriber's own when nil),
// OnNext on the SubscribeOn handler's goroutine (where the effect ran when nil), each exactly once; with
// both nil everything has happened when Subscribe returns.

type seqStep struct {
	Ob    int  `json:"ob"`  // 0 nil, k = handler hk (k in 1..3)
	Sub   int  `json:"sub"` // 0 nil, k = handler hk (k in 1..3): both sides may name the SAME (buffered) handler
	SetOb bool `json:"setOb"`
	SetSb bool `json:"setSub"`
}

type seqCase struct {
	Steps []seqStep `json:"steps"`
}

func runSeqCase(c seqCase) (key, msg string, inconclusive bool) {
	hs := make([]*fpgo.HandlerDef, 3) // h1 h2 h3
	ids := make([]uint64, 3)
	for i := range hs {
		hs[i] = fpgo.Handler.NewByCh(make(chan func(), 2))
		ids[i] = handlerGoID(hs[i])
	}
	defer func() {
		for _, h := range hs {
			h.Close()
		}
	}()
	var mu sync.Mutex
	var effG uint64
	effN := 0
	m := fpgo.MonadIONewGenerics(func() int {
		g := vlib.GoID()
		mu.Lock()
		effG = g
		effN++
		mu.Unlock()
		return 3
	})
	curOb, curSub := 0, 0
	for i, s := range c.Steps {
		if s.SetOb {
			m.ObserveOn(append([]*fpgo.HandlerDef{nil}, hs...)[s.Ob])
			curOb = s.Ob
		}
		if s.SetSb {
			m.SubscribeOn(append([]*fpgo.HandlerDef{nil}, hs...)[s.Sub])
			curSub = s.Sub
		}
		mu.Lock()
		effG, effN = 0, 0
		mu.Unlock()
		var nextG uint64
		nextN := 0
		done := make(chan struct{})
		caller := vlib.GoID()
		m.Subscribe(fpgo.Subscription[int]{OnNext: func(int) {
			g := vlib.GoID()
			mu.Lock()
			nextG = g
			nextN++
			mu.Unlock()
			close(done)
		}})
		if curOb == 0 && curSub == 0 {
			select {
			case <-done:
			default:
				return "C11/handler-sequence/not-synchronous", fmt.Sprintf("step %d: no handler is configured (both were set back to nil) but Subscribe returned before OnNext ran", i), false
			}
		}
		select {
		case <-done:
		case <-time.After(vlib.StallBudget()):
			return "", "", true
		}
		mu.Lock()
		eg, en, ng, nn := effG, effN, nextG, nextN
		mu.Unlock()
		wantEff := caller
		if curOb != 0 {
			wantEff = ids[curOb-1]
		}
		wantNext := eg
		if curSub != 0 {
			wantNext = ids[curSub-1]
		}
		name := func(g uint64) string {
			for j, id := range ids {
				if id == g {
					return fmt.Sprintf("h%d's goroutine", j+1)
				}
			}
			if g == caller {
				return "the subscriber's goroutine"
			}
			return fmt.Sprintf("goroutine %d", g)
		}
		if en != 1 || nn != 1 {
			return "C11/handler-sequence/count", fmt.Sprintf("step %d: effect ran %d times, OnNext %d times", i, en, nn), false
		}
		if eg != wantEff {
			return "C11/handler-sequence/effect-goroutine", fmt.Sprintf("step %d (ObserveOn=%v SubscribeOn=%v): effect ran on %s, want %s", i, []string{"nil", "h1", "h2", "h3"}[curOb], []string{"nil", "h1", "h2", "h3"}[curSub], name(eg), name(wantEff)), false
		}
		if ng != wantNext {
			return "C11/handler-sequence/onnext-goroutine", fmt.Sprintf("step %d (ObserveOn=%v SubscribeOn=%v): OnNext ran on %s, want %s", i, []string{"nil", "h1", "h2", "h3"}[curOb], []string{"nil", "h1", "h2", "h3"}[curSub], name(ng), name(wantNext)), false
		}
	}
	return "", "", false
}

func TestHandlerSequence(t *testing.T) {
	if vlib.Replaying() {
		raw := vlib.ReplayCase("C11/handler-seq")
		if raw == nil {
			return
		}
		var c seqCase
		if err := json.Unmarshal(raw, &c); err != nil {
			t.Fatal(err)
		}
		if key, msg, _ := runSeqCase(c); key != "" {
			t.Fatalf("[key=%s] %s", key, msg)
		}
		return
	}
	vlib.Check(t, "handler-sequence", 400, 6000, func(t *rapid.T) {
		var c seqCase
		n := rapid.IntRange(1, 6).Draw(t, "steps")
		backToNil := false
		had := [2]bool{}
		for i := 0; i < n; i++ {
			s := seqStep{Ob: rapid.IntRange(0, 3).Draw(t, "ob"), Sub: rapid.IntRange(0, 3).Draw(t, "sub"),
				SetOb: rapid.IntRange(0, 3).Draw(t, "setOb") > 0, SetSb: rapid.IntRange(0, 3).Draw(t, "setSub") > 0}
			if s.SetOb {
				if s.Ob == 0 && had[0] {
					backToNil = true
				}
				had[0] = s.Ob != 0
			}
			if s.SetSb {
				if s.Sub == 0 && had[1] {
					backToNil = true
				}
				had[1] = s.Sub != 0
			}
			c.Steps = append(c.Steps, s)
		}
		vlib.S().Eval("handler-sequence")
		if backToNil {
			vlib.S().NonTrivial("handler-sequence", fmt.Sprintf("%+v", c))
		}
		key, msg, inc := runSeqCase(c)
		if inc {
			vlib.S().Class("handler-sequence/inconclusive")
			return
		}
		if key != "" {
			vlib.WriteReplay("C11/handler-seq", c)
			if vlib.Fail(t, key, "%+v: %s", c, msg) {
				t.Skip("known")
			}
		}
	})
}
