package c11

import (
	"encoding/json"
	"fmt"
	"sync"
	"testing"
	"time"

	fpgo "github.com/TeaEntityLab/fpGo/v2"
	"pgregory.net/rapid"

	"verifharness/vlib"
)

// Part "handler-sequence": all nil / non-nil handler combinations, applied one after the other to ONE
// MonadIO instance (ObserveOn / SubscribeOn are setters; nil is a value like any other: it takes the
// instance back to in-place, synchronous execution; the same buffered handler may be named on both sides).
// After every re-configuration the instance is
// subscribed once: the effect runs on the ObserveOn handler's goroutine (the subscriber's own when nil),
// OnNext on the SubscribeOn handler's goroutine (where the effect ran when nil), each exactly once; with
// both nil everything has happened when Subscribe returns.

type seqStep struct {
	Ob    int  `json:"ob"`  // 0 nil, k = handler hk (k in 1..3)
	Sub   int  `json:"sub"` // 0 nil, k = handler hk (k in 1..3): both sides may name the SAME (buffered) handler
	SetOb bool `json:"setOb"`
	SetSb bool `json:"setSub"`
}

type seqCase struct {
	Steps []seqStep `json:"steps"`
}

func runSeqCase(c seqCase) (key, msg string, inconclusive bool) {
	hs := make([]*fpgo.HandlerDef, 3) // h1 h2 h3
	ids := make([]uint64, 3)
	for i := range hs {
		hs[i] = fpgo.Handler.NewByCh(make(chan func(), 2))
		ids[i] = handlerGoID(hs[i])
	}
	defer func() {
		for _, h := range hs {
			h.Close()
		}
	}()
	var mu sync.Mutex
	var effG uint64
	effN := 0
	m := fpgo.MonadIONewGenerics(func() int {
		g := vlib.GoID()
		mu.Lock()
		effG = g
		effN++
		mu.Unlock()
		return 3
	})
	curOb, curSub := 0, 0
	for i, s := range c.Steps {
		if s.SetOb {
			m.ObserveOn(append([]*fpgo.HandlerDef{nil}, hs...)[s.Ob])
			curOb = s.Ob
		}
		if s.SetSb {
			m.SubscribeOn(append([]*fpgo.HandlerDef{nil}, hs...)[s.Sub])
			curSub = s.Sub
		}
		mu.Lock()
		effG, effN = 0, 0
		mu.Unlock()
		var nextG uint64
		nextN := 0
		done := make(chan struct{})
		caller := vlib.GoID()
		m.Subscribe(fpgo.Subscription[int]{OnNext: func(int) {
			g := vlib.GoID()
			mu.Lock()
			nextG = g
			nextN++
			mu.Unlock()
			close(done)
		}})
		if curOb == 0 && curSub == 0 {
			select {
			case <-done:
			default:
				return "C11/handler-sequence/not-synchronous", fmt.Sprintf("step %d: no handler is configured (both were set back to nil) but Subscribe returned before OnNext ran", i), false
			}
		}
		select {
		case <-done:
		case <-time.After(vlib.StallBudget()):
			return "", "", true
		}
		mu.Lock()
		eg, en, ng, nn := effG, effN, nextG, nextN
		mu.Unlock()
		wantEff := caller
		if curOb != 0 {
			wantEff = ids[curOb-1]
		}
		wantNext := eg
		if curSub != 0 {
			wantNext = ids[curSub-1]
		}
		name := func(g uint64) string {
			for j, id := range ids {
				if id == g {
					return fmt.Sprintf("h%d's goroutine", j+1)
				}
			}
			if g == caller {
				return "the subscriber's goroutine"
			}
			return fmt.Sprintf("goroutine %d", g)
		}
		if en != 1 || nn != 1 {
			return "C11/handler-sequence/count", fmt.Sprintf("step %d: effect ran %d times, OnNext %d times", i, en, nn), false
		}
		if eg != wantEff {
			return "C11/handler-sequence/effect-goroutine", fmt.Sprintf("step %d (ObserveOn=%v SubscribeOn=%v): effect ran on %s, want %s", i, []string{"nil", "h1", "h2", "h3"}[curOb], []string{"nil", "h1", "h2", "h3"}[curSub], name(eg), name(wantEff)), false
		}
		if ng != wantNext {
			return "C11/handler-sequence/onnext-goroutine", fmt.Sprintf("step %d (ObserveOn=%v SubscribeOn=%v): OnNext ran on %s, want %s", i, []string{"nil", "h1", "h2", "h3"}[curOb], []string{"nil", "h1", "h2", "h3"}[curSub], name(ng), name(wantNext)), false
		}
	}
	return "", "", false
}

func TestHandlerSequence(t *testing.T) {
	if vlib.Replaying() {
		raw := vlib.ReplayCase("C11/handler-seq")
		if raw == nil {
			return
		}
		var c seqCase
		if err := json.Unmarshal(raw, &c); err != nil {
			t.Fatal(err)
		}
		if key, msg, _ := runSeqCase(c); key != "" {
			t.Fatalf("[key=%s] %s", key, msg)
		}
		return
	}
	vlib.Check(t, "handler-sequence", 400, 6000, func(t *rapid.T) {
		var c seqCase
		n := rapid.IntRange(1, 6).Draw(t, "steps")
		backToNil := false
		had := [2]bool{}
		for i := 0; i < n; i++ {
			s := seqStep{Ob: rapid.IntRange(0, 3).Draw(t, "ob"), Sub: rapid.IntRange(0, 3).Draw(t, "sub"),
				SetOb: rapid.IntRange(0, 3).Draw(t, "setOb") > 0, SetSb: rapid.IntRange(0, 3).Draw(t, "setSub") > 0}
			if s.SetOb {
				if s.Ob == 0 && had[0] {
					backToNil = true
				}
				had[0] = s.Ob != 0
			}
			if s.SetSb {
				if s.Sub == 0 && had[1] {
					backToNil = true
				}
				had[1] = s.Sub != 0
			}
			c.Steps = append(c.Steps, s)
		}
		vlib.S().Eval("handler-sequence")
		if backToNil {
			vlib.S().NonTrivial("handler-sequence", fmt.Sprintf("%+v", c))
		}
		key, msg, inc := runSeqCase(c)
		if inc {
			vlib.S().Class("handler-sequence/inconclusive")
			return
		}
		if key != "" {
			vlib.WriteReplay("C11/handler-seq", c)
			if vlib.Fail(t, key, "%+v: %s", c, msg) {
				t.Skip("known")
			}
		}
	})
}

// ---------------------------------------------------------------------------
// Part "composite-handlers": m.FlatMap(f) is a NEW MonadIO: where it runs is decided by the handlers set
// on IT, not by those its receiver (or the MonadIOs f returns) happened to carry. The receiver gets
// handlers first, then becomes the prefix of a composition; the composition is subscribed with its own
// (possibly nil) handlers: all effects of the chain run on the composition's ObserveOn goroutine (the
// subscriber's when nil), OnNext on its SubscribeOn goroutine (where the effects ran when nil).
// ---------------------------------------------------------------------------

type compCase struct {
	MOb   int  `json:"mOb"` // handlers of the receiver: 0 nil, k = hk
	MSub  int  `json:"mSub"`
	IOb   int  `json:"iOb"` // handlers of the MonadIO the FlatMap function returns
	ISub  int  `json:"iSub"`
	COb   int  `json:"cOb"` // handlers of the composition
	CSub  int  `json:"cSub"`
	Depth int  `json:"depth"` // FlatMap steps
	Late  bool `json:"late"`  // the receiver's handlers are set AFTER the composition was built
}

func runCompCase(c compCase) (key, msg string, inconclusive bool) {
	hs := make([]*fpgo.HandlerDef, 3)
	ids := make([]uint64, 3)
	for i := range hs {
		hs[i] = fpgo.Handler.NewByCh(make(chan func(), 2))
		ids[i] = handlerGoID(hs[i])
	}
	defer func() {
		for _, h := range hs {
			h.Close()
		}
	}()
	pick := func(k int) *fpgo.HandlerDef { return append([]*fpgo.HandlerDef{nil}, hs...)[k] }
	var mu sync.Mutex
	var effGs []uint64
	rec := func() {
		g := vlib.GoID()
		mu.Lock()
		effGs = append(effGs, g)
		mu.Unlock()
	}
	m := fpgo.MonadIONewGenerics(func() int { rec(); return 1 })
	conf := func(x *fpgo.MonadIODef[int], ob, sub int) {
		if ob != 0 {
			x.ObserveOn(pick(ob))
		}
		if sub != 0 {
			x.SubscribeOn(pick(sub))
		}
	}
	if !c.Late {
		conf(m, c.MOb, c.MSub)
	}
	comp := m
	for d := 0; d < c.Depth; d++ {
		comp = comp.FlatMap(func(x int) *fpgo.MonadIODef[int] {
			inner := fpgo.MonadIONewGenerics(func() int { rec(); return x + 1 })
			conf(inner, c.IOb, c.ISub)
			return inner
		})
	}
	if c.Late {
		conf(m, c.MOb, c.MSub)
	}
	conf(comp, c.COb, c.CSub)
	var nextG uint64
	nextN, nextV := 0, 0
	done := make(chan struct{})
	caller := vlib.GoID()
	comp.Subscribe(fpgo.Subscription[int]{OnNext: func(v int) {
		g := vlib.GoID()
		mu.Lock()
		nextG, nextV = g, v
		nextN++
		mu.Unlock()
		close(done)
	}})
	select {
	case <-done:
	case <-time.After(vlib.StallBudget()):
		return "", "", true
	}
	time.Sleep(50 * time.Microsecond)
	mu.Lock()
	defer mu.Unlock()
	name := func(g uint64) string {
		for j, id := range ids {
			if id == g {
				return fmt.Sprintf("h%d's goroutine", j+1)
			}
		}
		if g == caller {
			return "the subscriber's goroutine"
		}
		return fmt.Sprintf("goroutine %d", g)
	}
	if len(effGs) != c.Depth+1 || nextN != 1 || nextV != c.Depth+1 {
		return "C11/composite-handlers/count", fmt.Sprintf("%d effects ran (want %d), OnNext %d times with %d (want once with %d)", len(effGs), c.Depth+1, nextN, nextV, c.Depth+1), false
	}
	wantEff := caller
	if c.COb != 0 {
		wantEff = ids[c.COb-1]
	}
	for i, g := range effGs {
		if g != wantEff {
			return "C11/composite-handlers/effect-goroutine", fmt.Sprintf("effect %d of the composition ran on %s, want %s (the composition's own ObserveOn handler decides; its receiver had ObserveOn=h%d SubscribeOn=h%d, 0 = none)", i, name(g), name(wantEff), c.MOb, c.MSub), false
		}
	}
	wantNext := wantEff
	if c.CSub != 0 {
		wantNext = ids[c.CSub-1]
	}
	if nextG != wantNext {
		return "C11/composite-handlers/onnext-goroutine", fmt.Sprintf("OnNext of the composition ran on %s, want %s", name(nextG), name(wantNext)), false
	}
	return "", "", false
}

func TestCompositeHandlers(t *testing.T) {
	if vlib.Replaying() {
		raw := vlib.ReplayCase("C11/composite")
		if raw == nil {
			return
		}
		var c compCase
		if err := json.Unmarshal(raw, &c); err != nil {
			t.Fatal(err)
		}
		if key, msg, _ := runCompCase(c); key != "" {
			t.Fatalf("[key=%s] %s", key, msg)
		}
		return
	}
	vlib.Check(t, "composite-handlers", 500, 6000, func(t *rapid.T) {
		h := rapid.IntRange(0, 3)
		c := compCase{MOb: h.Draw(t, "mOb"), MSub: h.Draw(t, "mSub"), IOb: h.Draw(t, "iOb"), ISub: h.Draw(t, "iSub"),
			COb: h.Draw(t, "cOb"), CSub: h.Draw(t, "cSub"), Depth: rapid.IntRange(1, 3).Draw(t, "depth"), Late: rapid.Bool().Draw(t, "late")}
		vlib.S().Eval("composite-handlers")
		if c.MOb != 0 || c.MSub != 0 || c.IOb != 0 || c.ISub != 0 {
			vlib.S().NonTrivial("composite-handlers", fmt.Sprintf("%+v", c))
		}
		key, msg, inc := runCompCase(c)
		if inc {
			vlib.S().Class("composite-handlers/inconclusive")
			return
		}
		if key != "" {
			vlib.WriteReplay("C11/composite", c)
			if vlib.Fail(t, key, "%+v: %s", c, msg) {
				t.Skip("known")
			}
		}
	})
}
