package c11

import (
	"fmt"
	"testing"
	"time"

	fpgo "github.com/TeaEntityLab/fpGo/v2"

	"verifharness/vlib"
)

// Part "reconfigure-during-yield": a MonadIO is given another SubscribeOn handler while a coroutine is in the
// middle of evaluating it through YieldFromIO (its effect is held on a gate). YieldFromIO still returns the
// IO's value, and the configuration made last is the one that counts afterwards: the next Subscribe delivers
// on the new handler's goroutine ("OnNext on h2's goroutine").
func TestReconfigureDuringYield(t *testing.T) {
	if vlib.Replaying() {
		t.Skip()
	}
	for _, old := range []string{"none", "h2"} {
		for _, observed := range []bool{false, true} {
			for rep := 0; rep < vlib.Pick(10, 100); rep++ {
				vlib.S().Eval("reconfigure-during-yield")
				desc := fmt.Sprintf("old SubscribeOn=%s observed=%v", old, observed)
				vlib.S().NonTrivial("reconfigure-during-yield", desc)
				h1, h2, h3 := fpgo.Handler.New(), fpgo.Handler.New(), fpgo.Handler.New()
				h3id := handlerGoID(h3)
				gate, entered := make(chan struct{}), make(chan struct{}, 2)
				m := fpgo.MonadIONewGenerics(func() int {
					entered <- struct{}{}
					<-gate
					return 7
				})
				if observed {
					m.ObserveOn(h1)
				}
				if old == "h2" {
					m.SubscribeOn(h2)
				}
				got := make(chan int, 1)
				var co *fpgo.CorDef[int]
				co = fpgo.CorNewGenerics[int](func() { got <- co.YieldFromIO(m) })
				co.Start()
				fail := func(key, f string, a ...any) {
					close(gateOnce(gate))
					h1.Close()
					h2.Close()
					h3.Close()
					vlib.Fail(t, key, "%s: %s", desc, fmt.Sprintf(f, a...))
				}
				select {
				case <-entered:
				case <-time.After(vlib.StallBudget()):
					fail("C11/reconfigure-during-yield/stall", "the effect was not started by YieldFromIO")
					return
				}
				m.SubscribeOn(h3) // while the coroutine waits for the value
				close(gate)
				select {
				case v := <-got:
					if v != 7 {
						fail("C11/reconfigure-during-yield/value", "YieldFromIO returned %d, the IO's value is 7", v)
						return
					}
				case <-time.After(vlib.StallBudget()):
					fail("C11/reconfigure-during-yield/stall", "YieldFromIO does not return")
					return
				}
				onNextG := make(chan uint64, 1)
				go m.Subscribe(fpgo.Subscription[int]{OnNext: func(int) { onNextG <- vlib.GoID() }})
				select {
				case g := <-onNextG:
					if g != h3id {
						fail("C11/reconfigure-during-yield/goroutine", "SubscribeOn(h3) was the last configuration of the MonadIO (made while a YieldFromIO was waiting for its value); after that YieldFromIO returned, a Subscribe delivered OnNext on another goroutine than h3's")
						return
					}
				case <-time.After(vlib.StallBudget()):
					fail("C11/reconfigure-during-yield/stall", "no OnNext after the re-configuration")
					return
				}
				h1.Close()
				h2.Close()
				h3.Close()
			}
		}
	}
}

// gateOnce returns the gate if it is still open, else a fresh channel (so that close never panics).
func gateOnce(gate chan struct{}) chan struct{} {
	select {
	case <-gate:
		return make(chan struct{})
	default:
		return gate
	}
}
