package c11

import (
	"fmt"
	"sync"
	"sync/atomic"
	"testing"
	"time"

	fpgo "github.com/TeaEntityLab/fpGo/v2"

	"verifharness/vlib"
)

// Part "monadic-values": "Eval yields the value" whatever the value is - also when the value is itself a
// MonadIO (interface{} element type): Just(x) is a MonadIO whose value is x; it does not evaluate x, and
// the monad laws hold with such values: Just(x).FlatMap(f) hands x itself to f, m.FlatMap(Just) yields
// what m yields. The inner MonadIO counts its own evaluations (must stay 0).

type valCase struct {
	Ctor  int `json:"ctor"`  // 0 MonadIOJustGenerics[interface{}], 1 MonadIO.Just (utility value), 2 MonadIONewGenerics(func() interface{})
	Value int `json:"value"` // 0 *MonadIO[interface{}] with an effect, 1 typed nil *MonadIO[interface{}], 2 Just(inner) (two levels), 3 *MonadIO[int]
	Op    int `json:"op"`    // 0 Eval, 1 Subscribe, 2 left identity, 3 right identity, 4 Eval twice
}

func runValCase(c valCase) (key, msg string) {
	innerRuns := 0
	inner := fpgo.MonadIONewGenerics(func() interface{} { innerRuns++; return 5 })
	var x interface{}
	switch c.Value {
	case 0:
		x = inner
	case 1:
		x = (*fpgo.MonadIODef[interface{}])(nil)
	case 2:
		x = fpgo.MonadIOJustGenerics[interface{}](inner)
	case 3:
		x = fpgo.MonadIONewGenerics(func() int { innerRuns++; return 7 })
	}
	mk := func(v interface{}) *fpgo.MonadIODef[interface{}] {
		switch c.Ctor {
		case 0:
			return fpgo.MonadIOJustGenerics[interface{}](v)
		case 1:
			return fpgo.MonadIO.Just(v)
		}
		return fpgo.MonadIONewGenerics(func() interface{} { return v })
	}
	same := func(got interface{}) bool { return got == x }
	var got interface{}
	what := ""
	p, st := vlib.Try(func() {
		switch c.Op {
		case 0:
			what = "Just(x).Eval()"
			got = mk(x).Eval()
		case 1:
			what = "Just(x).Subscribe -> OnNext"
			n := 0
			mk(x).Subscribe(fpgo.Subscription[interface{}]{OnNext: func(v interface{}) { got = v; n++ }})
			if n != 1 {
				key, msg = "C11/monadic-values/onnext-count", fmt.Sprintf("OnNext called %d times", n)
			}
		case 2:
			what = "the argument f receives in Just(x).FlatMap(f)"
			res := mk(x).FlatMap(func(v interface{}) *fpgo.MonadIODef[interface{}] {
				got = v
				return fpgo.MonadIOJustGenerics[interface{}](1)
			}).Eval()
			if res != 1 && key == "" {
				key, msg = "C11/monadic-values/left-identity", fmt.Sprintf("Just(x).FlatMap(f).Eval() = %v, f(x) yields 1", res)
			}
		case 3:
			what = "m.FlatMap(Just).Eval() for m yielding x"
			got = mk(x).FlatMap(func(v interface{}) *fpgo.MonadIODef[interface{}] { return fpgo.MonadIOJustGenerics(v) }).Eval()
		case 4:
			what = "second Just(x).Eval()"
			m := mk(x)
			m.Eval()
			got = m.Eval()
		}
	})
	if p != nil {
		return "C11/monadic-values/panic", fmt.Sprintf("%v\n%s", p, firstFrames(st))
	}
	if key != "" {
		return
	}
	if !same(got) {
		return "C11/monadic-values/value", fmt.Sprintf("%s is %v (%T), want the value x itself (%T %p)", what, got, got, x, x)
	}
	if innerRuns != 0 {
		return "C11/monadic-values/evaluated", fmt.Sprintf("the MonadIO that is the VALUE was evaluated %d times; only the outer one was asked to run", innerRuns)
	}
	return "", ""
}

func TestMonadicValues(t *testing.T) {
	if vlib.Replaying() {
		t.Skip()
	}
	n := 0
	for ctor := 0; ctor < 3; ctor++ {
		for value := 0; value < 4; value++ {
			for op := 0; op < 5; op++ {
				c := valCase{ctor, value, op}
				vlib.S().Eval("monadic-values")
				vlib.S().NonTrivial("monadic-values", fmt.Sprintf("%+v", c))
				n++
				if key, msg := runValCase(c); key != "" {
					vlib.WriteReplay("C11/values", c)
					vlib.Fail(t, key, "%+v: %s", c, msg)
				}
			}
		}
	}
	vlib.S().Exhaustive("monadic-values")
}

// Part "independent-values": every constructor call builds its own MonadIO, also for equal (or nil)
// values: "with every combination of nil/non-nil observe and subscribe handlers" is a per-MonadIO choice,
// so giving handlers to one Just(v) leaves another Just(v) without: its effect/OnNext run synchronously on
// the evaluating goroutine, exactly once - also after the first one's handler has been closed.

type indepCase struct {
	Ctor   int  `json:"ctor"`   // as valCase.Ctor
	Value  int  `json:"value"`  // 0 nil, 1 0, 2 "", 3 false, 4 one shared pointer
	Config int  `json:"config"` // handlers given to the FIRST MonadIO: 1 SubscribeOn, 2 ObserveOn, 3 both
	Closed bool `json:"closed"` // the first one's handler is closed before the second is used
}

func runIndepCase(c indepCase) (key, msg string) {
	shared := new(int)
	v := []interface{}{nil, 0, "", false, shared}[c.Value]
	mk := func() *fpgo.MonadIODef[interface{}] {
		switch c.Ctor {
		case 0:
			return fpgo.MonadIOJustGenerics[interface{}](v)
		case 1:
			return fpgo.MonadIO.Just(v)
		}
		return fpgo.MonadIONewGenerics(func() interface{} { return v })
	}
	h := fpgo.Handler.New()
	closed := false
	defer func() {
		if !closed {
			h.Close()
		}
	}()
	first := mk()
	if c.Config&1 != 0 {
		first.SubscribeOn(h)
	}
	if c.Config&2 != 0 {
		first.ObserveOn(h)
	}
	second := mk()
	if c.Closed {
		h.Close()
		closed = true
	}
	me := vlib.GoID()
	n := 0
	var got interface{}
	var onG uint64
	done := make(chan struct{})
	go func() {
		defer close(done)
		me = vlib.GoID()
		p, _ := vlib.Try(func() {
			second.Subscribe(fpgo.Subscription[interface{}]{OnNext: func(x interface{}) { n++; got = x; onG = vlib.GoID() }})
		})
		if p != nil {
			key, msg = "C11/independent-values/panic", fmt.Sprint(p)
		}
	}()
	select {
	case <-done:
	case <-time.After(vlib.StallBudget()):
		return "C11/independent-values/stall", "Subscribe on a MonadIO without handlers did not return (another MonadIO of the same value has handlers)"
	}
	if key != "" {
		return
	}
	if n != 1 || got != v {
		return "C11/independent-values/delivery", fmt.Sprintf("a MonadIO without handlers delivered %d times on return of Subscribe (value %v, want once %v)", n, got, v)
	}
	if onG != me {
		return "C11/independent-values/goroutine", "a MonadIO without handlers delivered on another goroutine than the subscribing one (handlers were given only to ANOTHER MonadIO of the same value)"
	}
	return "", ""
}

func TestIndependentValues(t *testing.T) {
	if vlib.Replaying() {
		t.Skip()
	}
	for ctor := 0; ctor < 3; ctor++ {
		for value := 0; value < 5; value++ {
			for config := 1; config <= 3; config++ {
				for _, cl := range []bool{false, true} {
					c := indepCase{ctor, value, config, cl}
					vlib.S().Eval("independent-values")
					vlib.S().NonTrivial("independent-values", fmt.Sprintf("%+v", c))
					if key, msg := runIndepCase(c); key != "" {
						vlib.Fail(t, key, "%+v: %s", c, msg)
					}
				}
			}
		}
	}
	vlib.S().Exhaustive("independent-values")
}

// Part "monadic-loop": a composition may refer to itself - the usual way to write a loop with FlatMap:
//
//	loop = src.FlatMap(func(v) { if v < n { return loop }; return Just(10*v) })
//
// Evaluating it is a finite computation (n turns): every turn runs src's effect and the continuation once,
// in that order, and the value is the last continuation's. Evaluated twice, nested in a larger composition,
// through Eval and through Subscribe.

type loopCase struct {
	Turns int `json:"turns"`
	Via   int `json:"via"`  // 0 Eval, 1 Subscribe, 2 nested: Just(0).FlatMap(_ -> loop).FlatMap(v -> Just(v+1))
	Self  int `json:"self"` // what the continuation returns while not ready: 0 the loop itself, 1 a FlatMap built on the loop (loop.FlatMap(Just))
}

func runLoopCase(c loopCase) (key, msg string) {
	var trace []string
	count := 0
	src := fpgo.MonadIONewGenerics(func() int { count++; trace = append(trace, fmt.Sprintf("src%d", count)); return count })
	var loop *fpgo.MonadIODef[int]
	loop = src.FlatMap(func(v int) *fpgo.MonadIODef[int] {
		trace = append(trace, fmt.Sprintf("k%d", v))
		if v%c.Turns != 0 {
			if c.Self == 1 {
				return loop.FlatMap(func(x int) *fpgo.MonadIODef[int] { return fpgo.MonadIOJustGenerics(x) })
			}
			return loop
		}
		return fpgo.MonadIOJustGenerics(10 * v)
	})
	for round := 1; round <= 2; round++ {
		trace = trace[:0]
		var got int
		delivered := 0
		p, st := vlib.Try(func() {
			switch c.Via {
			case 0:
				got, delivered = loop.Eval(), 1
			case 1:
				loop.Subscribe(fpgo.Subscription[int]{OnNext: func(v int) { got = v; delivered++ }})
			default:
				got, delivered = fpgo.MonadIOJustGenerics(0).FlatMap(func(int) *fpgo.MonadIODef[int] { return loop }).
					FlatMap(func(v int) *fpgo.MonadIODef[int] { return fpgo.MonadIOJustGenerics(v + 1) }).Eval(), 1
			}
		})
		if p != nil {
			return "C11/monadic-loop/panic", fmt.Sprintf("%v\n%s", p, firstFrames(st))
		}
		var wantTrace []string
		for i := 1; i <= c.Turns; i++ {
			n := (round-1)*c.Turns + i
			wantTrace = append(wantTrace, fmt.Sprintf("src%d", n), fmt.Sprintf("k%d", n))
		}
		want := 10 * round * c.Turns
		if c.Via == 2 {
			want++
		}
		if fmt.Sprint(trace) != fmt.Sprint(wantTrace) {
			return "C11/monadic-loop/effects", fmt.Sprintf("evaluation %d of a %d-turn loop ran %v, want %v", round, c.Turns, trace, wantTrace)
		}
		if delivered != 1 || got != want {
			return "C11/monadic-loop/value", fmt.Sprintf("evaluation %d of a %d-turn loop yielded %d (%d deliveries), want %d once", round, c.Turns, got, delivered, want)
		}
	}
	return "", ""
}

func TestMonadicLoop(t *testing.T) {
	if vlib.Replaying() {
		t.Skip()
	}
	for turns := 1; turns <= 8; turns++ {
		for via := 0; via < 3; via++ {
			for self := 0; self < 2; self++ {
				c := loopCase{turns, via, self}
				vlib.S().Eval("monadic-loop")
				if turns >= 2 {
					vlib.S().NonTrivial("monadic-loop", fmt.Sprintf("%+v", c))
				}
				if key, msg := runLoopCase(c); key != "" {
					vlib.Fail(t, key, "%+v: %s", c, msg)
				}
			}
		}
	}
	vlib.S().Exhaustive("monadic-loop")
}

// Part "failing-effects": an effect that panics produces no value. Without handlers the panic reaches the
// caller of Eval / Subscribe, no OnNext is called for that evaluation ("delivers to OnNext exactly once the
// VALUE of the composition"), later effects of the chain do not run, and the next evaluation of the same
// MonadIO (its effect succeeds then) is an ordinary one.

type failCase struct {
	Depth  int  `json:"depth"`  // FlatMap links after the failing one
	FailAt int  `json:"failAt"` // which effect of the chain (0-based) panics on the first evaluation
	Via    int  `json:"via"`    // 0 Subscribe, 1 Eval
	Twice  bool `json:"twice"`  // the failing effect also fails on the second evaluation
}

type effectFailure struct{ at int }

func runFailCase(c failCase) (key, msg string) {
	var trace []string
	round := 0
	mkEffect := func(i int) func() int {
		return func() int {
			trace = append(trace, fmt.Sprintf("e%d", i))
			if i == c.FailAt && (round == 1 || (c.Twice && round == 2)) {
				panic(effectFailure{i})
			}
			return i + 1
		}
	}
	m := fpgo.MonadIONewGenerics(mkEffect(0))
	for i := 1; i <= c.Depth; i++ {
		i := i
		m = m.FlatMap(func(v int) *fpgo.MonadIODef[int] {
			inner := fpgo.MonadIONewGenerics(mkEffect(i))
			return inner.FlatMap(func(w int) *fpgo.MonadIODef[int] { return fpgo.MonadIOJustGenerics(v + w) })
		})
	}
	want := 0
	for i := 0; i <= c.Depth; i++ {
		want += i + 1
	}
	for round = 1; round <= 3; round++ {
		trace = trace[:0]
		fails := round == 1 || (c.Twice && round == 2)
		var onNext []int
		var got int
		p, _ := vlib.Try(func() {
			if c.Via == 0 {
				m.Subscribe(fpgo.Subscription[int]{OnNext: func(v int) { onNext = append(onNext, v) }})
			} else {
				got = m.Eval()
				onNext = append(onNext, got)
			}
		})
		var wantTrace []string
		for i := 0; i <= c.Depth && (!fails || i <= c.FailAt); i++ {
			wantTrace = append(wantTrace, fmt.Sprintf("e%d", i))
		}
		if fmt.Sprint(trace) != fmt.Sprint(wantTrace) {
			return "C11/failing-effects/effects", fmt.Sprintf("evaluation %d (effect %d panics: %v) ran %v, want %v", round, c.FailAt, fails, trace, wantTrace)
		}
		if fails {
			if f, ok := p.(effectFailure); !ok || f.at != c.FailAt {
				return "C11/failing-effects/panic-lost", fmt.Sprintf("evaluation %d: effect %d panicked; the caller saw panic=%v and OnNext calls %v", round, c.FailAt, p, onNext)
			}
			if len(onNext) != 0 {
				return "C11/failing-effects/onnext-without-value", fmt.Sprintf("evaluation %d: effect %d panicked (there is no value), but OnNext was called with %v", round, c.FailAt, onNext)
			}
			continue
		}
		if p != nil {
			return "C11/failing-effects/panic", fmt.Sprintf("evaluation %d (no effect fails): %v", round, p)
		}
		if len(onNext) != 1 || onNext[0] != want {
			return "C11/failing-effects/value", fmt.Sprintf("evaluation %d (after a failed one): delivered %v, want [%d]", round, onNext, want)
		}
	}
	return "", ""
}

func TestFailingEffects(t *testing.T) {
	if vlib.Replaying() {
		t.Skip()
	}
	for depth := 0; depth <= 3; depth++ {
		for failAt := 0; failAt <= depth; failAt++ {
			for via := 0; via < 2; via++ {
				for _, twice := range []bool{false, true} {
					c := failCase{depth, failAt, via, twice}
					vlib.S().Eval("failing-effects")
					vlib.S().NonTrivial("failing-effects", fmt.Sprintf("%+v", c))
					if key, msg := runFailCase(c); key != "" {
						vlib.Fail(t, key, "%+v: %s", c, msg)
					}
				}
			}
		}
	}
	vlib.S().Exhaustive("failing-effects")
}

// Part "subscribe-then-close": an evaluation a handler has accepted is carried out although the handler is
// closed right afterwards (the `defer h.Close()` idiom): "the effect runs on h1's goroutine ..., still exactly
// once each". The handler is busy (gate) or parked when 1-3 subscriptions with ObserveOn(h) are made, then
// h.Close(), then the gate opens: every effect and every OnNext ran exactly once, on h's goroutine.

type closeAfterCase struct {
	Cap   int  `json:"cap"` // handler channel capacity (>= subs when gated)
	Subs  int  `json:"subs"`
	Gated bool `json:"gated"` // the looper is held in an earlier task while the subscriptions are made
	Warm  bool `json:"warm"`  // the handler has served a task before
}

func runCloseAfter(c closeAfterCase) (key, msg string, inconclusive bool) {
	h := fpgo.Handler.NewByCh(make(chan func(), c.Cap))
	hid := uint64(0)
	if c.Warm || c.Gated {
		hid = handlerGoID(h)
	}
	gate := make(chan struct{})
	if c.Gated {
		in := make(chan struct{})
		h.Post(func() { close(in); <-gate })
		<-in
	}
	var mu sync.Mutex
	effects, nexts := map[int]int{}, map[int]int{}
	wrongG := 0
	for i := 0; i < c.Subs; i++ {
		i := i
		m := fpgo.MonadIONewGenerics(func() int {
			mu.Lock()
			effects[i]++
			if hid != 0 && vlib.GoID() != hid {
				wrongG++
			}
			mu.Unlock()
			return i
		}).ObserveOn(h)
		posted := make(chan struct{})
		go func() {
			defer close(posted)
			m.Subscribe(fpgo.Subscription[int]{OnNext: func(v int) {
				mu.Lock()
				nexts[v]++
				mu.Unlock()
			}})
		}()
		select {
		case <-posted:
		case <-time.After(vlib.StallBudget()):
			close(gate)
			return "", "", true
		}
	}
	h.Close()
	close(gate)
	ok := vlib.WaitUntil(vlib.StallBudget(), func() bool {
		mu.Lock()
		defer mu.Unlock()
		return len(nexts) == c.Subs
	})
	time.Sleep(100 * time.Microsecond)
	mu.Lock()
	defer mu.Unlock()
	for i := 0; i < c.Subs; i++ {
		if effects[i] != 1 || nexts[i] != 1 {
			return "C11/subscribe-then-close/count", fmt.Sprintf("%d subscriptions were made (Subscribe returned, the handler had accepted them), then the handler was closed: effect runs %v, OnNext calls %v, want once each (all delivered in time: %v)", c.Subs, effects, nexts, ok), false
		}
	}
	if wrongG > 0 {
		return "C11/subscribe-then-close/goroutine", "an effect ran on another goroutine than the handler's", false
	}
	return "", "", false
}

func TestSubscribeThenClose(t *testing.T) {
	if vlib.Replaying() {
		t.Skip()
	}
	for subs := 1; subs <= 3; subs++ {
		for _, gated := range []bool{false, true} {
			for _, warm := range []bool{false, true} {
				for _, extra := range []int{0, 2} {
					c := closeAfterCase{Cap: subs + extra, Subs: subs, Gated: gated, Warm: warm}
					for rep := 0; rep < vlib.Pick(20, 200); rep++ {
						vlib.S().Eval("subscribe-then-close")
						key, msg, inc := runCloseAfter(c)
						if inc {
							vlib.S().Class("subscribe-then-close/inconclusive")
							continue
						}
						vlib.S().NonTrivial("subscribe-then-close", fmt.Sprintf("%+v", c))
						if key != "" {
							vlib.Fail(t, key, "%+v: %s", c, msg)
							break
						}
					}
				}
			}
		}
	}
}

// Part "one-shot-handler": the handler of an evaluation is closed at the very moment it has taken the work -
// by the effect itself (a handler used for one evaluation and closed from inside it) or by the OnNext it
// delivers to. The effect and OnNext still run exactly once each ("still exactly once each").
func TestOneShotHandler(t *testing.T) {
	if vlib.Replaying() {
		t.Skip()
	}
	rounds := vlib.Pick(300, 3000)
	for _, where := range []string{"effect closes its ObserveOn handler", "OnNext closes its SubscribeOn handler", "effect closes the handler that is both"} {
		for r := 0; r < rounds; r++ {
			vlib.S().Eval("one-shot-handler")
			h := fpgo.Handler.New()
			var effects, nexts int32
			m := fpgo.MonadIONewGenerics(func() int {
				atomic.AddInt32(&effects, 1)
				if where[0] == 'e' {
					h.Close()
				}
				return 1
			})
			switch where[0] {
			case 'e':
				m.ObserveOn(h)
				if where[len(where)-1] == 'h' { // "...that is both"
					m.SubscribeOn(nil)
				}
			default:
				m.SubscribeOn(h)
			}
			done := make(chan struct{})
			go func() {
				defer close(done)
				m.Subscribe(fpgo.Subscription[int]{OnNext: func(int) {
					atomic.AddInt32(&nexts, 1)
					if where[0] == 'O' {
						h.Close()
					}
				}})
			}()
			select {
			case <-done:
			case <-time.After(vlib.StallBudget()):
				vlib.Fail(t, "C11/one-shot-handler/stall", "%s: Subscribe does not return", where)
				return
			}
			vlib.WaitUntil(20*time.Millisecond, func() bool { return atomic.LoadInt32(&nexts) >= 1 })
			time.Sleep(50 * time.Microsecond)
			if e, n := atomic.LoadInt32(&effects), atomic.LoadInt32(&nexts); e != 1 || n != 1 {
				vlib.Fail(t, "C11/one-shot-handler/count", "%s (round %d): the effect ran %d times, OnNext %d times, want once each", where, r, e, n)
				return
			}
		}
		vlib.S().NonTrivial("one-shot-handler", where)
	}
}
