package c11

import (
	"fmt"
	"testing"
	"time"

	fpgo "github.com/TeaEntityLab/fpGo/v2"

	"verifharness/vlib"
)

// Part "monadic-values": "Eval yields the value" whatever the value is - also when the value is itself a
// MonadIO (interface{} element type): Just(x) is a MonadIO whose value is x; it does not evaluate x, and
// the monad laws hold with such values: Just(x).FlatMap(f) hands x itself to f, m.FlatMap(Just) yields
// what m yields. The inner MonadIO counts its own evaluations (must stay 0).

type valCase struct {
	Ctor  int `json:"ctor"`  // 0 MonadIOJustGenerics[interface{}], 1 MonadIO.Just (utility value), 2 MonadIONewGenerics(func() interface{})
	Value int `json:"value"` // 0 *MonadIO[interface{}] with an effect, 1 typed nil *MonadIO[interface{}], 2 Just(inner) (two levels), 3 *MonadIO[int]
	Op    int `json:"op"`    // 0 Eval, 1 Subscribe, 2 left identity, 3 right identity, 4 Eval twice
}

func runValCase(c valCase) (key, msg string) {
	innerRuns := 0
	inner := fpgo.MonadIONewGenerics(func() interface{} { innerRuns++; return 5 })
	var x interface{}
	switch c.Value {
	case 0:
		x = inner
	case 1:
		x = (*fpgo.MonadIODef[interface{}])(nil)
	case 2:
		x = fpgo.MonadIOJustGenerics[interface{}](inner)
	case 3:
		x = fpgo.MonadIONewGenerics(func() int { innerRuns++; return 7 })
	}
	mk := func(v interface{}) *fpgo.MonadIODef[interface{}] {
		switch c.Ctor {
		case 0:
			return fpgo.MonadIOJustGenerics[interface{}](v)
		case 1:
			return fpgo.MonadIO.Just(v)
		}
		return fpgo.MonadIONewGenerics(func() interface{} { return v })
	}
	same := func(got interface{}) bool { return got == x }
	var got interface{}
	what := ""
	p, st := vlib.Try(func() {
		switch c.Op {
		case 0:
			what = "Just(x).Eval()"
			got = mk(x).Eval()
		case 1:
			what = "Just(x).Subscribe -> OnNext"
			n := 0
			mk(x).Subscribe(fpgo.Subscription[interface{}]{OnNext: func(v interface{}) { got = v; n++ }})
			if n != 1 {
				key, msg = "C11/monadic-values/onnext-count", fmt.Sprintf("OnNext called %d times", n)
			}
		case 2:
			what = "the argument f receives in Just(x).FlatMap(f)"
			res := mk(x).FlatMap(func(v interface{}) *fpgo.MonadIODef[interface{}] {
				got = v
				return fpgo.MonadIOJustGenerics[interface{}](1)
			}).Eval()
			if res != 1 && key == "" {
				key, msg = "C11/monadic-values/left-identity", fmt.Sprintf("Just(x).FlatMap(f).Eval() = %v, f(x) yields 1", res)
			}
		case 3:
			what = "m.FlatMap(Just).Eval() for m yielding x"
			got = mk(x).FlatMap(func(v interface{}) *fpgo.MonadIODef[interface{}] { return fpgo.MonadIOJustGenerics(v) }).Eval()
		case 4:
			what = "second Just(x).Eval()"
			m := mk(x)
			m.Eval()
			got = m.Eval()
		}
	})
	if p != nil {
		return "C11/monadic-values/panic", fmt.Sprintf("%v\n%s", p, firstFrames(st))
	}
	if key != "" {
		return
	}
	if !same(got) {
		return "C11/monadic-values/value", fmt.Sprintf("%s is %v (%T), want the value x itself (%T %p)", what, got, got, x, x)
	}
	if innerRuns != 0 {
		return "C11/monadic-values/evaluated", fmt.Sprintf("the MonadIO that is the VALUE was evaluated %d times; only the outer one was asked to run", innerRuns)
	}
	return "", ""
}

func TestMonadicValues(t *testing.T) {
	if vlib.Replaying() {
		t.Skip()
	}
	n := 0
	for ctor := 0; ctor < 3; ctor++ {
		for value := 0; value < 4; value++ {
			for op := 0; op < 5; op++ {
				c := valCase{ctor, value, op}
				vlib.S().Eval("monadic-values")
				vlib.S().NonTrivial("monadic-values", fmt.Sprintf("%+v", c))
				n++
				if key, msg := runValCase(c); key != "" {
					vlib.WriteReplay("C11/values", c)
					vlib.Fail(t, key, "%+v: %s", c, msg)
				}
			}
		}
	}
	vlib.S().Exhaustive("monadic-values")
}

// Part "independent-values": every constructor call builds its own MonadIO, also for equal (or nil)
// values: "with every combination of nil/non-nil observe and subscribe handlers" is a per-MonadIO choice,
// so giving handlers to one Just(v) leaves another Just(v) without: its effect/OnNext run synchronously on
// the evaluating goroutine, exactly once - also after the first one's handler has been closed.

type indepCase struct {
	Ctor   int  `json:"ctor"`   // as valCase.Ctor
	Value  int  `json:"value"`  // 0 nil, 1 0, 2 "", 3 false, 4 one shared pointer
	Config int  `json:"config"` // handlers given to the FIRST MonadIO: 1 SubscribeOn, 2 ObserveOn, 3 both
	Closed bool `json:"closed"` // the first one's handler is closed before the second is used
}

func runIndepCase(c indepCase) (key, msg string) {
	shared := new(int)
	v := []interface{}{nil, 0, "", false, shared}[c.Value]
	mk := func() *fpgo.MonadIODef[interface{}] {
		switch c.Ctor {
		case 0:
			return fpgo.MonadIOJustGenerics[interface{}](v)
		case 1:
			return fpgo.MonadIO.Just(v)
		}
		return fpgo.MonadIONewGenerics(func() interface{} { return v })
	}
	h := fpgo.Handler.New()
	closed := false
	defer func() {
		if !closed {
			h.Close()
		}
	}()
	first := mk()
	if c.Config&1 != 0 {
		first.SubscribeOn(h)
	}
	if c.Config&2 != 0 {
		first.ObserveOn(h)
	}
	second := mk()
	if c.Closed {
		h.Close()
		closed = true
	}
	me := vlib.GoID()
	n := 0
	var got interface{}
	var onG uint64
	done := make(chan struct{})
	go func() {
		defer close(done)
		me = vlib.GoID()
		p, _ := vlib.Try(func() {
			second.Subscribe(fpgo.Subscription[interface{}]{OnNext: func(x interface{}) { n++; got = x; onG = vlib.GoID() }})
		})
		if p != nil {
			key, msg = "C11/independent-values/panic", fmt.Sprint(p)
		}
	}()
	select {
	case <-done:
	case <-time.After(vlib.StallBudget()):
		return "C11/independent-values/stall", "Subscribe on a MonadIO without handlers did not return (another MonadIO of the same value has handlers)"
	}
	if key != "" {
		return
	}
	if n != 1 || got != v {
		return "C11/independent-values/delivery", fmt.Sprintf("a MonadIO without handlers delivered %d times on return of Subscribe (value %v, want once %v)", n, got, v)
	}
	if onG != me {
		return "C11/independent-values/goroutine", "a MonadIO without handlers delivered on another goroutine than the subscribing one (handlers were given only to ANOTHER MonadIO of the same value)"
	}
	return "", ""
}

func TestIndependentValues(t *testing.T) {
	if vlib.Replaying() {
		t.Skip()
	}
	for ctor := 0; ctor < 3; ctor++ {
		for value := 0; value < 5; value++ {
			for config := 1; config <= 3; config++ {
				for _, cl := range []bool{false, true} {
					c := indepCase{ctor, value, config, cl}
					vlib.S().Eval("independent-values")
					vlib.S().NonTrivial("independent-values", fmt.Sprintf("%+v", c))
					if key, msg := runIndepCase(c); key != "" {
						vlib.Fail(t, key, "%+v: %s", c, msg)
					}
				}
			}
		}
	}
	vlib.S().Exhaustive("independent-values")
}
