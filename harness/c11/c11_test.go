package c11

import (
	"encoding/json"
	"fmt"
	"sort"
	"strings"
	"sync"
	"testing"
	"time"

	fpgo "github.com/TeaEntityLab/fpGo/v2"
	"pgregory.net/rapid"

	"verifharness/vlib"
)

func TestMain(m *testing.M) { vlib.Main(m) }

// ---------------------------------------------------------------- programs

const (
	kJust = iota
	kNew
	kFlat
)

const maxEff = 6

// vexpr is the value produced by a Just/New node: an affine map of one bound
// variable (Var = de-Bruijn index, 0 = innermost FlatMap argument; -1 = none)
// plus, for New, C times the number of earlier runs of the same effect id (so
// that a cached or skipped run is visible in the value, not only in the trace).
type vexpr struct {
	Var int `json:"var"`
	A   int `json:"a"`
	B   int `json:"b"`
	C   int `json:"c,omitempty"`
}

func (v vexpr) eval(env []int, runs int) int {
	x := v.B
	if v.Var >= 0 {
		x += v.A * env[len(env)-1-v.Var]
	}
	return x + v.C*runs
}

func (v vexpr) String() string {
	s := fmt.Sprint(v.B)
	if v.Var >= 0 {
		s = fmt.Sprintf("%d*x%d%+d", v.A, v.Var, v.B)
	}
	if v.C != 0 {
		s += fmt.Sprintf("%+dk", v.C)
	}
	return s
}

// node is a MonadIO program: Just(v) | New(effect#Eff returning v) |
// M.FlatMap(\x. F) where F is a program with one more variable in scope.
type node struct {
	Kind int   `json:"k"`
	V    vexpr `json:"v"`
	Eff  int   `json:"eff,omitempty"`
	Fid  int   `json:"fid,omitempty"`
	M    *node `json:"m,omitempty"`
	F    *node `json:"f,omitempty"`
}

func (n *node) String() string {
	switch n.Kind {
	case kJust:
		return "J(" + n.V.String() + ")"
	case kNew:
		return fmt.Sprintf("N#%d(%s)", n.Eff, n.V.String())
	}
	return fmt.Sprintf("(%s >>=f%d %s)", n.M.String(), n.Fid, n.F.String())
}

func (n *node) countNew() int {
	switch n.Kind {
	case kNew:
		return 1
	case kFlat:
		return n.M.countNew() + n.F.countNew()
	}
	return 0
}

// hasEffectfulFn: some FlatMap whose function body builds an effectful monad.
func (n *node) hasEffectfulFn() bool {
	if n.Kind != kFlat {
		return false
	}
	return n.F.countNew() > 0 || n.M.hasEffectfulFn() || n.F.hasEffectfulFn()
}

func (n *node) depth() int {
	if n.Kind != kFlat {
		return 0
	}
	a, b := n.M.depth(), n.F.depth()
	if b > a {
		a = b
	}
	return a + 1
}

// ---------------------------------------------------------------- reference interpreter

type ev struct {
	Kind byte // 'E' effect of a New node, 'F' invocation of a FlatMap function
	ID   int
	Val  int // value returned by the effect / argument passed to the function
}

func (e ev) String() string { return fmt.Sprintf("%c%d:%d", e.Kind, e.ID, e.Val) }

type refState struct{ runs [maxEff]int }

// run is the monadic semantics: m >>= f runs m, applies f to its value, runs
// the result. Effects are appended to tr in the order they happen.
func (r *refState) run(n *node, env []int, tr *[]ev) int {
	switch n.Kind {
	case kJust:
		return n.V.eval(env, 0)
	case kNew:
		k := r.runs[n.Eff]
		r.runs[n.Eff]++
		v := n.V.eval(env, k)
		*tr = append(*tr, ev{'E', n.Eff, v})
		return v
	}
	x := r.run(n.M, env, tr)
	*tr = append(*tr, ev{'F', n.Fid, x})
	return r.run(n.F, append(env[:len(env):len(env)], x), tr)
}

func effectsOnly(tr []ev) []ev {
	var out []ev
	for _, e := range tr {
		if e.Kind == 'E' {
			out = append(out, e)
		}
	}
	return out
}

func evString(tr []ev) string {
	p := make([]string, len(tr))
	for i, e := range tr {
		p[i] = e.String()
	}
	return "[" + strings.Join(p, " ") + "]"
}

func sameEv(a, b []ev) bool {
	if len(a) != len(b) {
		return false
	}
	for i := range a {
		if a[i] != b[i] {
			return false
		}
	}
	return true
}

// ---------------------------------------------------------------- recorder (implementation side)

type obsEv struct {
	ev
	Gid uint64
	Seq int
}

type nextEv struct {
	Sub int
	Val int
	Gid uint64
	Seq int
}

type recorder struct {
	mu     sync.Mutex
	seq    int
	runs   [maxEff]int
	events []obsEv
	nexts  []nextEv
}

func (r *recorder) effect(id int, v vexpr, env []int) int {
	g := vlib.GoID()
	r.mu.Lock()
	defer r.mu.Unlock()
	k := r.runs[id]
	r.runs[id]++
	val := v.eval(env, k)
	r.seq++
	r.events = append(r.events, obsEv{ev{'E', id, val}, g, r.seq})
	return val
}

func (r *recorder) fcall(id int, x int) {
	g := vlib.GoID()
	r.mu.Lock()
	r.seq++
	r.events = append(r.events, obsEv{ev{'F', id, x}, g, r.seq})
	r.mu.Unlock()
}

func (r *recorder) onNext(sub int, val int) {
	g := vlib.GoID()
	r.mu.Lock()
	r.seq++
	r.nexts = append(r.nexts, nextEv{sub, val, g, r.seq})
	r.mu.Unlock()
}

func (r *recorder) progress() int {
	r.mu.Lock()
	defer r.mu.Unlock()
	return r.seq
}

func (r *recorder) nEvents() int {
	r.mu.Lock()
	defer r.mu.Unlock()
	return len(r.events)
}

func (r *recorder) eventsFrom(i int) []obsEv {
	r.mu.Lock()
	defer r.mu.Unlock()
	return append([]obsEv(nil), r.events[i:]...)
}

func (r *recorder) nextsOf(sub int) []nextEv {
	r.mu.Lock()
	defer r.mu.Unlock()
	var out []nextEv
	for _, n := range r.nexts {
		if n.Sub == sub {
			out = append(out, n)
		}
	}
	return out
}

func (r *recorder) nNexts() int {
	r.mu.Lock()
	defer r.mu.Unlock()
	return len(r.nexts)
}

func plain(o []obsEv) []ev {
	out := make([]ev, len(o))
	for i, e := range o {
		out[i] = e.ev
	}
	return out
}

// ---------------------------------------------------------------- building real MonadIOs

// flavour abstracts over the element type and the constructor family
// (generic functions vs. the interface{} utility instance fpgo.MonadIO).
type flavour[T any] struct {
	name string
	just func(T) *fpgo.MonadIODef[T]
	new_ func(func() T) *fpgo.MonadIODef[T]
	inj  func(int) T
	prj  func(T) int
}

var flInt = flavour[int]{
	name: "int",
	just: func(x int) *fpgo.MonadIODef[int] { return fpgo.MonadIOJustGenerics(x) },
	new_: func(f func() int) *fpgo.MonadIODef[int] { return fpgo.MonadIONewGenerics(f) },
	inj:  func(i int) int { return i },
	prj:  func(i int) int { return i },
}

var flAny = flavour[interface{}]{
	name: "any",
	just: func(x interface{}) *fpgo.MonadIODef[interface{}] { return fpgo.MonadIO.Just(x) },
	new_: func(f func() interface{}) *fpgo.MonadIODef[interface{}] { return fpgo.MonadIO.New(f) },
	inj:  func(i int) interface{} { return i },
	prj:  func(x interface{}) int { i, _ := x.(int); return i },
}

type boxed struct {
	N   int
	Tag string
}

var flBox = flavour[boxed]{
	name: "struct",
	just: func(x boxed) *fpgo.MonadIODef[boxed] { return fpgo.MonadIOJustGenerics(x) },
	new_: func(f func() boxed) *fpgo.MonadIODef[boxed] { return new(fpgo.MonadIODef[boxed]).New(f) },
	inj:  func(i int) boxed { return boxed{i, "b"} },
	prj:  func(b boxed) int { return b.N },
}

func build[T any](fl flavour[T], n *node, env []int, r *recorder) *fpgo.MonadIODef[T] {
	switch n.Kind {
	case kJust:
		return fl.just(fl.inj(n.V.eval(env, 0)))
	case kNew:
		return fl.new_(func() T { return fl.inj(r.effect(n.Eff, n.V, env)) })
	}
	m := build(fl, n.M, env, r)
	return m.FlatMap(func(x T) *fpgo.MonadIODef[T] {
		xi := fl.prj(x)
		r.fcall(n.Fid, xi)
		return build(fl, n.F, append(env[:len(env):len(env)], xi), r)
	})
}

// ---------------------------------------------------------------- scenarios

const (
	sEval = iota
	sSub
	sSubNoNext
	sBurst
)

type step struct {
	Kind int `json:"kind"`
	K    int `json:"k,omitempty"` // burst size
}

func (s step) String() string {
	switch s.Kind {
	case sEval:
		return "Eval"
	case sSub:
		return "Sub"
	case sSubNoNext:
		return "SubNoOnNext"
	}
	return fmt.Sprintf("Burst%d", s.K)
}

// scenario: a program, where its effect and its OnNext are routed, and how it
// is evaluated. Ob: 0 = no ObserveOn, 1 = ObserveOn(h1). Sub: 0 = no
// SubscribeOn, 1 = SubscribeOn(h2) with h2 != h1, 2 = SubscribeOn(h1) (same
// handler; only generated with a buffered handler channel, see check.json).
type scenario struct {
	Prog    *node  `json:"prog"`
	Flavour int    `json:"flavour"`
	Ob      int    `json:"ob"`
	Sub     int    `json:"sub"`
	Cap1    int    `json:"cap1"`
	Cap2    int    `json:"cap2"`
	SubFirs bool   `json:"subOnFirst"`
	Script  []step `json:"script"`
}

func (sc *scenario) String() string {
	p := make([]string, len(sc.Script))
	for i, s := range sc.Script {
		p[i] = s.String()
	}
	return fmt.Sprintf("%s | ob=%d sub=%d cap=%d/%d subFirst=%v fl=%d | %s", sc.Prog, sc.Ob, sc.Sub, sc.Cap1, sc.Cap2, sc.SubFirs, sc.Flavour, strings.Join(p, ","))
}

func (sc *scenario) evaluations() int {
	n := 0
	for _, s := range sc.Script {
		switch s.Kind {
		case sEval, sSub:
			n++
		case sBurst:
			n += s.K
		}
	}
	return n
}

type result struct {
	key, msg     string
	inconclusive string
}

func (r *result) fail(key, f string, a ...any) {
	if r.key == "" && r.inconclusive == "" {
		r.key, r.msg = key, fmt.Sprintf(f, a...)
	}
}

func newHandler(capacity int) *fpgo.HandlerDef {
	if capacity <= 0 {
		return fpgo.Handler.New()
	}
	return fpgo.Handler.NewByCh(make(chan func(), capacity))
}

// postWait posts fn to h from a helper goroutine and waits (bounded) until it ran.
func postWait(h *fpgo.HandlerDef, fn func()) bool {
	done := make(chan struct{})
	go h.Post(func() { fn(); close(done) })
	select {
	case <-done:
		return true
	case <-time.After(vlib.StallBudget()):
		return false
	}
}

var blockedStates = []string{"chan send", "chan receive", "select", "semacquire", "sync.Mutex.Lock", "sync.RWMutex.RLock",
	"sync.RWMutex.Lock", "sync.WaitGroup.Wait", "sync.Cond.Wait"}

// scenarioGoroutines returns "id:state" of every goroutine other than the
// caller that has a frame in fpGo or in this package, and whether all of them
// are parked on a channel / lock (nothing runnable, nothing on a timer).
func scenarioGoroutines() (sig string, allBlocked bool) {
	self := fmt.Sprintf("goroutine %d ", vlib.GoID())
	allBlocked = true
	var parts []string
	for _, blk := range strings.Split(vlib.AllStacks(), "\n\n") {
		if strings.HasPrefix(blk, self) || !strings.HasPrefix(blk, "goroutine ") {
			continue
		}
		if !strings.Contains(blk, "TeaEntityLab/fpGo") && !strings.Contains(blk, "verifharness/c11") {
			continue
		}
		head := blk
		if i := strings.IndexByte(blk, '\n'); i >= 0 {
			head = blk[:i]
		}
		state := ""
		if i, j := strings.IndexByte(head, '['), strings.IndexByte(head, ']'); i >= 0 && j > i {
			state = head[i+1 : j]
		}
		if k := strings.IndexByte(state, ','); k >= 0 {
			state = state[:k]
		}
		ok := false
		for _, b := range blockedStates {
			if strings.HasPrefix(state, b) {
				ok = true
			}
		}
		if !ok {
			allBlocked = false
		}
		f := strings.Fields(head)
		parts = append(parts, f[1]+":"+state)
	}
	sort.Strings(parts)
	return strings.Join(parts, " "), allBlocked
}

// stalled decides what an expired wait means (DESIGN 1.6): a violation only
// when no recorded progress happens any more and every scenario goroutine is
// parked for good in two dumps 200 ms apart; otherwise the run is inconclusive.
func stalled(rec *recorder) (deadlock bool, detail string) {
	p0 := rec.progress()
	s0, b0 := scenarioGoroutines()
	time.Sleep(200 * time.Millisecond)
	p1 := rec.progress()
	s1, b1 := scenarioGoroutines()
	return p0 == p1 && b0 && b1 && s0 == s1, s1
}

func runScenario[T any](fl flavour[T], sc *scenario) (res result) {
	rec := &recorder{}
	var h1, h2 *fpgo.HandlerDef
	var g1, g2 uint64
	var handlers []*fpgo.HandlerDef
	if sc.Ob == 1 || sc.Sub == 2 {
		h1 = newHandler(sc.Cap1)
		handlers = append(handlers, h1)
	}
	if sc.Sub == 1 {
		h2 = newHandler(sc.Cap2)
		handlers = append(handlers, h2)
	}
	wedged := false
	defer func() {
		if !wedged {
			for _, h := range handlers {
				h.Close()
			}
		}
	}()
	onStall := func(what string) {
		wedged = true
		dead, detail := stalled(rec)
		if dead {
			res.fail("C11/stall", "%s: no progress and every goroutine of the scenario is parked: %s", what, detail)
		} else if res.key == "" {
			res.inconclusive = what + ": wait budget expired while goroutines could still run: " + detail
		}
	}
	if h1 != nil && !postWait(h1, func() { g1 = vlib.GoID() }) {
		onStall("handler h1 never ran a posted function")
		return
	}
	if h2 != nil && !postWait(h2, func() { g2 = vlib.GoID() }) {
		onStall("handler h2 never ran a posted function")
		return
	}
	obH := h1
	if sc.Ob == 0 {
		obH = nil
	}
	subH := h2
	if sc.Sub == 2 {
		subH, g2 = h1, g1
	}
	flush := func() bool {
		for round := 0; round < 2; round++ {
			for _, h := range handlers {
				if !postWait(h, func() {}) {
					return false
				}
			}
		}
		return true
	}

	// --- construction and composition: must run no user code
	var m *fpgo.MonadIODef[T]
	if p, stack := vlib.Try(func() {
		m = build(fl, sc.Prog, nil, rec)
		setOb := func() {
			if obH != nil {
				m = m.ObserveOn(obH)
			}
		}
		setSub := func() {
			if subH != nil {
				m = m.SubscribeOn(subH)
			}
		}
		if sc.SubFirs {
			setSub()
			setOb()
		} else {
			setOb()
			setSub()
		}
	}); p != nil {
		res.fail("C11/panic:construct", "panic while composing: %v\n%s", p, firstFrames(stack))
		return
	}
	if !flush() {
		onStall("flush after construction")
		return
	}
	if n := rec.nEvents(); n != 0 || rec.nNexts() != 0 {
		res.fail("C11/not-lazy", "composition ran user code before any Eval/Subscribe: %s", evString(plain(rec.eventsFrom(0))))
		return
	}

	ref := &refState{}
	subIdx := 0
	for i, st := range sc.Script {
		before := rec.nEvents()
		nextsBefore := rec.nNexts()
		switch st.Kind {
		case sEval:
			var want []ev
			wantV := ref.run(sc.Prog, nil, &want)
			var got T
			if p, stack := vlib.Try(func() { got = m.Eval() }); p != nil {
				res.fail("C11/panic:Eval", "step %d Eval panicked: %v\n%s", i, p, firstFrames(stack))
				return
			}
			obs := rec.eventsFrom(before)
			if !sameEv(plain(obs), want) {
				res.fail(traceKey("Eval", plain(obs), want), "step %d Eval: effects ran %s, composition order requires %s", i, evString(plain(obs)), evString(want))
				return
			}
			if fl.prj(got) != wantV {
				res.fail("C11/Eval:value", "step %d Eval returned %v, monadic value is %d", i, got, wantV)
				return
			}
			if rec.nNexts() != nextsBefore {
				res.fail("C11/Eval:calls-OnNext", "step %d Eval delivered to an OnNext", i)
				return
			}
		case sSubNoNext:
			if p, stack := vlib.Try(func() { m.Subscribe(fpgo.Subscription[T]{}) }); p != nil {
				res.fail("C11/panic:Subscribe", "step %d Subscribe without OnNext panicked: %v\n%s", i, p, firstFrames(stack))
				return
			}
			if !flush() {
				onStall(fmt.Sprintf("step %d flush after Subscribe without OnNext", i))
				return
			}
			if obs := rec.eventsFrom(before); len(obs) != 0 {
				res.fail("C11/Subscribe:no-OnNext-ran-effects", "step %d Subscription without OnNext ran %s", i, evString(plain(obs)))
				return
			}
		case sSub, sBurst:
			k := 1
			if st.Kind == sBurst {
				k = st.K
			}
			type expect struct {
				sub   int
				trace []ev
				val   int
			}
			var exps []expect
			for j := 0; j < k; j++ {
				var want []ev
				v := ref.run(sc.Prog, nil, &want)
				exps = append(exps, expect{subIdx, want, v})
				subIdx++
			}
			if p, stack := vlib.Try(func() {
				for _, e := range exps {
					sub := e.sub
					m.Subscribe(fpgo.Subscription[T]{OnNext: func(v T) { rec.onNext(sub, fl.prj(v)) }})
				}
			}); p != nil {
				res.fail("C11/panic:Subscribe", "step %d Subscribe panicked: %v\n%s", i, p, firstFrames(stack))
				return
			}
			if !vlib.WaitUntil(vlib.StallBudget(), func() bool { return rec.nNexts()-nextsBefore >= k }) {
				onStall(fmt.Sprintf("step %d: %d of %d OnNext deliveries arrived", i, rec.nNexts()-nextsBefore, k))
				if res.key != "" || res.inconclusive != "" {
					return
				}
			}
			if !flush() {
				onStall(fmt.Sprintf("step %d flush after Subscribe", i))
				return
			}
			obs := rec.eventsFrom(before)
			var wantAll []ev
			for _, e := range exps {
				wantAll = append(wantAll, e.trace...)
			}
			if !sameEv(plain(obs), wantAll) {
				res.fail(traceKey("Subscribe", plain(obs), wantAll), "step %d %v: effects ran %s, composition order requires %s", i, st, evString(plain(obs)), evString(wantAll))
				return
			}
			if obH != nil {
				for _, o := range obs {
					if o.Gid != g1 {
						res.fail("C11/ObserveOn:effect-goroutine", "step %d: %v ran on goroutine %d, ObserveOn handler runs on %d", i, o.ev, o.Gid, g1)
						return
					}
				}
			}
			if total := rec.nNexts() - nextsBefore; total != k {
				res.fail("C11/Subscribe:OnNext-count", "step %d %v: %d OnNext calls for %d subscriptions", i, st, total, k)
				return
			}
			off := 0
			for _, e := range exps {
				ns := rec.nextsOf(e.sub)
				if len(ns) != 1 {
					res.fail("C11/Subscribe:OnNext-count", "step %d: subscription %d got %d OnNext calls, want exactly 1", i, e.sub, len(ns))
					return
				}
				n := ns[0]
				if n.Val != e.val {
					res.fail("C11/Subscribe:OnNext-value", "step %d: OnNext got %d, monadic value is %d", i, n.Val, e.val)
					return
				}
				off += len(e.trace)
				if off > 0 && n.Seq < obs[off-1].Seq {
					res.fail("C11/Subscribe:OnNext-before-effect", "step %d: OnNext (seq %d) ran before effect %v (seq %d) of its own evaluation", i, n.Seq, obs[off-1].ev, obs[off-1].Seq)
					return
				}
				if subH != nil && n.Gid != g2 {
					res.fail("C11/SubscribeOn:OnNext-goroutine", "step %d: OnNext ran on goroutine %d, SubscribeOn handler runs on %d", i, n.Gid, g2)
					return
				}
			}
		}
	}
	return
}

// traceKey names the root cause of an effect-trace mismatch.
func traceKey(op string, got, want []ev) string {
	ge, we := effectsOnly(got), effectsOnly(want)
	switch {
	case sameEv(ge, we):
		return "C11/" + op + ":flatmap-fn-calls"
	case len(ge) < len(we):
		return "C11/" + op + ":effects-missing"
	case len(ge) > len(we):
		return "C11/" + op + ":effects-repeated"
	}
	return "C11/" + op + ":effects-order-or-value"
}

func firstFrames(stack string) string {
	var keep []string
	for _, l := range strings.Split(stack, "\n") {
		if strings.Contains(l, "fpGo") {
			keep = append(keep, strings.TrimSpace(l))
		}
		if len(keep) >= 6 {
			break
		}
	}
	return strings.Join(keep, "\n")
}

func runAny(sc *scenario) result {
	switch sc.Flavour {
	case 1:
		return runScenario(flAny, sc)
	case 2:
		return runScenario(flBox, sc)
	}
	return runScenario(flInt, sc)
}

// ---------------------------------------------------------------- generators

type genState struct {
	nodes int
	fid   int
}

func genVexpr(t *rapid.T, nvars int, isNew bool) vexpr {
	v := vexpr{Var: -1, B: rapid.IntRange(-9, 9).Draw(t, "b")}
	if nvars > 0 && rapid.IntRange(0, 3).Draw(t, "usevar") > 0 {
		v.Var = rapid.IntRange(0, nvars-1).Draw(t, "var")
		v.A = rapid.SampledFrom([]int{2, 3, -1, -2, 5, 1}).Draw(t, "a")
	}
	if isNew {
		v.C = rapid.SampledFrom([]int{0, 1, 7, 100}).Draw(t, "c")
	}
	return v
}

func genNode(t *rapid.T, depth, nvars int, st *genState) *node {
	st.nodes++
	kind := kJust
	if depth > 0 && st.nodes == 1 {
		kind = kFlat // a drawn depth > 0 means a composed program at the root
	} else if depth > 0 && st.nodes < 24 {
		kind = rapid.SampledFrom([]int{kJust, kNew, kNew, kFlat, kFlat, kFlat}).Draw(t, "kind")
	} else {
		kind = rapid.SampledFrom([]int{kJust, kNew, kNew}).Draw(t, "leaf")
	}
	switch kind {
	case kJust:
		return &node{Kind: kJust, V: genVexpr(t, nvars, false)}
	case kNew:
		return &node{Kind: kNew, V: genVexpr(t, nvars, true), Eff: rapid.IntRange(0, maxEff-1).Draw(t, "eff")}
	}
	st.fid++
	n := &node{Kind: kFlat, Fid: st.fid}
	n.M = genNode(t, depth-1, nvars, st)
	n.F = genNode(t, depth-1, nvars+1, st)
	return n
}

func genScenario(t *rapid.T) *scenario {
	sc := &scenario{}
	sc.Prog = genNode(t, rapid.SampledFrom([]int{0, 1, 2, 2, 3, 3, 4, 4, 5, 6}).Draw(t, "depth"), 0, &genState{})
	sc.Flavour = rapid.IntRange(0, 2).Draw(t, "flavour")
	sc.Ob = rapid.IntRange(0, 1).Draw(t, "ob")
	if sc.Ob == 1 {
		sc.Sub = rapid.IntRange(0, 2).Draw(t, "sub")
	} else {
		sc.Sub = rapid.IntRange(0, 1).Draw(t, "sub")
	}
	caps := []int{0, 0, 1, 4, 16}
	sc.Cap1 = rapid.SampledFrom(caps).Draw(t, "cap1")
	sc.Cap2 = rapid.SampledFrom(caps).Draw(t, "cap2")
	sc.SubFirs = rapid.Bool().Draw(t, "subOnFirst")
	n := rapid.IntRange(0, 6).Draw(t, "steps")
	for i := 0; i < n; i++ {
		kinds := []int{sEval, sEval, sSub, sSub, sSub, sSubNoNext}
		if sc.Ob == 1 {
			kinds = append(kinds, sBurst)
		}
		s := step{Kind: rapid.SampledFrom(kinds).Draw(t, "step")}
		if s.Kind == sBurst {
			s.K = rapid.IntRange(2, 3).Draw(t, "k")
		}
		sc.Script = append(sc.Script, s)
	}
	if sc.Sub == 2 {
		// One handler for both roles: its own goroutine posts the OnNext closure to
		// itself, so the channel must have room for everything in flight (an
		// unbuffered or full channel is a self-deadlock outside the property's domain).
		sc.Cap1 = 16
	}
	return sc
}

func classify(sc *scenario) {
	s := vlib.S()
	s.Class(fmt.Sprintf("handlers/ob=%d,sub=%d", sc.Ob, sc.Sub))
	s.Class(fmt.Sprintf("flavour/%d", sc.Flavour))
	s.Class(fmt.Sprintf("depth/%d", sc.Prog.depth()))
	ne := sc.Prog.countNew()
	if ne > 3 {
		ne = 3
	}
	s.Class(fmt.Sprintf("effect-nodes/%d%s", ne, map[bool]string{true: "+", false: ""}[ne == 3]))
	ev := sc.evaluations()
	if ev > 3 {
		ev = 3
	}
	s.Class(fmt.Sprintf("evaluations/%d%s", ev, map[bool]string{true: "+", false: ""}[ev == 3]))
	for _, st := range sc.Script {
		s.Class("step/" + st.String())
	}
}

func nontrivial(prog *node, evaluations int) bool {
	return prog.countNew() >= 2 && prog.hasEffectfulFn() && evaluations >= 2
}

func report(t vlib.TB, skip func(string), sc *scenario, r result) {
	if r.inconclusive != "" {
		vlib.S().Note("inconclusive case (not a violation): %s | %s", r.inconclusive, sc)
		vlib.S().Shortfall("stall-undecided", 0, 1)
		skip("inconclusive: " + r.inconclusive)
		return
	}
	if r.key != "" {
		b, _ := json.Marshal(sc)
		if vlib.Fail(t, r.key, "%s\nscenario: %s\njson: %s", r.msg, sc, b) {
			skip("known finding")
		}
	}
}

func propScenario(t *rapid.T) {
	sc := genScenario(t)
	s := vlib.S()
	s.Eval("programs")
	classify(sc)
	if nontrivial(sc.Prog, sc.evaluations()) {
		s.NonTrivial("programs", sc.Prog.String())
		s.Class("programs/nontrivial")
	} else {
		s.Class("programs/trivial")
	}
	report(t, func(m string) { t.Skip(m) }, sc, runAny(sc))
}

// ---------------------------------------------------------------- monad laws (implementation vs implementation, and vs reference)

// outcome of evaluating one real MonadIO n times (alternating Eval and a
// handler-less Subscribe), as (value, effect-only trace) pairs.
type pair struct {
	val int
	tr  []ev
}

func observe[T any](fl flavour[T], mk func(r *recorder) *fpgo.MonadIODef[T], times int) (out []pair, key, msg string) {
	rec := &recorder{}
	var m *fpgo.MonadIODef[T]
	if p, stack := vlib.Try(func() { m = mk(rec) }); p != nil {
		return nil, "C11/panic:construct", fmt.Sprintf("%v\n%s", p, firstFrames(stack))
	}
	built := rec.nEvents() // user code the harness itself ran while applying f outside a monad
	for i := 0; i < times; i++ {
		before := rec.nEvents()
		var val int
		if i%2 == 0 {
			if p, stack := vlib.Try(func() { val = fl.prj(m.Eval()) }); p != nil {
				return nil, "C11/panic:Eval", fmt.Sprintf("%v\n%s", p, firstFrames(stack))
			}
		} else {
			nb := rec.nNexts()
			sub := i
			if p, stack := vlib.Try(func() {
				m.Subscribe(fpgo.Subscription[T]{OnNext: func(v T) { rec.onNext(sub, fl.prj(v)) }})
			}); p != nil {
				return nil, "C11/panic:Subscribe", fmt.Sprintf("%v\n%s", p, firstFrames(stack))
			}
			if !vlib.WaitUntil(vlib.StallBudget(), func() bool { return rec.nNexts() > nb }) {
				return nil, "", "no OnNext"
			}
			ns := rec.nextsOf(sub)
			if len(ns) != 1 {
				return nil, "C11/Subscribe:OnNext-count", fmt.Sprintf("%d OnNext calls", len(ns))
			}
			val = ns[0].Val
		}
		out = append(out, pair{val, effectsOnly(plain(rec.eventsFrom(before)))})
	}
	_ = built
	return out, "", ""
}

func samePairs(a, b []pair) bool {
	if len(a) != len(b) {
		return false
	}
	for i := range a {
		if a[i].val != b[i].val || !sameEv(a[i].tr, b[i].tr) {
			return false
		}
	}
	return true
}

func pairsString(p []pair) string {
	s := make([]string, len(p))
	for i, x := range p {
		s[i] = fmt.Sprintf("(%d,%s)", x.val, evString(x.tr))
	}
	return strings.Join(s, " ")
}

func refPairs(prog *node, env []int, times int) []pair {
	ref := &refState{}
	var out []pair
	for i := 0; i < times; i++ {
		var tr []ev
		v := ref.run(prog, env, &tr)
		out = append(out, pair{v, effectsOnly(tr)})
	}
	return out
}

type lawCase struct {
	Law   int   `json:"law"` // 0 left identity, 1 right identity, 2 associativity
	X     int   `json:"x"`
	M     *node `json:"m"`
	F     *node `json:"f"`
	G     *node `json:"g"`
	Times int   `json:"times"`
	Fl    int   `json:"flavour"`
}

func (c *lawCase) String() string {
	switch c.Law {
	case 0:
		return fmt.Sprintf("left-identity x=%d f=\\x0.%s times=%d", c.X, c.F, c.Times)
	case 1:
		return fmt.Sprintf("right-identity m=%s times=%d", c.M, c.Times)
	}
	return fmt.Sprintf("associativity m=%s f=\\x0.%s g=\\x0.%s times=%d", c.M, c.F, c.G, c.Times)
}

func runLaw[T any](fl flavour[T], c *lawCase) result {
	var res result
	fn := func(body *node, r *recorder) func(T) *fpgo.MonadIODef[T] {
		return func(x T) *fpgo.MonadIODef[T] { return build(fl, body, []int{fl.prj(x)}, r) }
	}
	var lhs, rhs func(r *recorder) *fpgo.MonadIODef[T]
	var refProg *node
	var refEnv []int
	switch c.Law {
	case 0: // Just(x).FlatMap(f) == f(x)
		lhs = func(r *recorder) *fpgo.MonadIODef[T] { return fl.just(fl.inj(c.X)).FlatMap(fn(c.F, r)) }
		rhs = func(r *recorder) *fpgo.MonadIODef[T] { return fn(c.F, r)(fl.inj(c.X)) }
		refProg, refEnv = c.F, []int{c.X}
	case 1: // m.FlatMap(Just) == m
		lhs = func(r *recorder) *fpgo.MonadIODef[T] { return build(fl, c.M, nil, r).FlatMap(fl.just) }
		rhs = func(r *recorder) *fpgo.MonadIODef[T] { return build(fl, c.M, nil, r) }
		refProg = c.M
	default: // m.FlatMap(f).FlatMap(g) == m.FlatMap(x => f(x).FlatMap(g))
		lhs = func(r *recorder) *fpgo.MonadIODef[T] {
			return build(fl, c.M, nil, r).FlatMap(fn(c.F, r)).FlatMap(fn(c.G, r))
		}
		rhs = func(r *recorder) *fpgo.MonadIODef[T] {
			return build(fl, c.M, nil, r).FlatMap(func(x T) *fpgo.MonadIODef[T] { return fn(c.F, r)(x).FlatMap(fn(c.G, r)) })
		}
		refProg = &node{Kind: kFlat, Fid: 1001, M: &node{Kind: kFlat, Fid: 1000, M: c.M, F: c.F}, F: c.G}
	}
	name := []string{"left-identity", "right-identity", "associativity"}[c.Law]
	l, key, msg := observe(fl, lhs, c.Times)
	if key != "" || msg != "" {
		if key == "" {
			res.inconclusive = "law lhs: " + msg
		} else {
			res.fail(key, "law %s lhs: %s", name, msg)
		}
		return res
	}
	r, key, msg := observe(fl, rhs, c.Times)
	if key != "" || msg != "" {
		if key == "" {
			res.inconclusive = "law rhs: " + msg
		} else {
			res.fail(key, "law %s rhs: %s", name, msg)
		}
		return res
	}
	if !samePairs(l, r) {
		res.fail("C11/law:"+name, "the two sides behave differently: lhs %s, rhs %s", pairsString(l), pairsString(r))
		return res
	}
	if want := refPairs(refProg, refEnv, c.Times); !samePairs(l, want) {
		res.fail("C11/law:"+name+":vs-reference", "both sides agree (%s) but the monadic composition is %s", pairsString(l), pairsString(want))
	}
	return res
}

func runLawAny(c *lawCase) result {
	switch c.Fl {
	case 1:
		return runLaw(flAny, c)
	case 2:
		return runLaw(flBox, c)
	}
	return runLaw(flInt, c)
}

func genLaw(t *rapid.T) *lawCase {
	c := &lawCase{Law: rapid.IntRange(0, 2).Draw(t, "law"), Times: rapid.IntRange(1, 3).Draw(t, "times"), Fl: rapid.IntRange(0, 2).Draw(t, "flavour")}
	d := rapid.IntRange(0, 3).Draw(t, "depth")
	switch c.Law {
	case 0:
		c.X = rapid.IntRange(-20, 20).Draw(t, "x")
		c.F = genNode(t, d, 1, &genState{})
	case 1:
		c.M = genNode(t, d, 0, &genState{})
	default:
		c.M = genNode(t, d, 0, &genState{})
		c.F = genNode(t, d, 1, &genState{fid: 100})
		c.G = genNode(t, d, 1, &genState{fid: 200})
	}
	return c
}

func lawProgram(c *lawCase) *node {
	switch c.Law {
	case 0:
		return &node{Kind: kFlat, M: &node{Kind: kJust, V: vexpr{Var: -1, B: c.X}}, F: c.F}
	case 1:
		return &node{Kind: kFlat, M: c.M, F: &node{Kind: kJust, V: vexpr{Var: 0, A: 1}}}
	}
	return &node{Kind: kFlat, M: &node{Kind: kFlat, M: c.M, F: c.F}, F: c.G}
}

func reportLaw(t vlib.TB, skip func(string), c *lawCase, r result) {
	if r.inconclusive != "" {
		vlib.S().Note("inconclusive law case: %s | %s", r.inconclusive, c)
		vlib.S().Shortfall("stall-undecided", 0, 1)
		skip("inconclusive")
		return
	}
	if r.key != "" {
		b, _ := json.Marshal(c)
		if vlib.Fail(t, r.key, "%s\ncase: %s\njson: %s", r.msg, c, b) {
			skip("known finding")
		}
	}
}

func propLaw(t *rapid.T) {
	c := genLaw(t)
	s := vlib.S()
	s.Eval("laws")
	s.Class([]string{"law/left-identity", "law/right-identity", "law/associativity"}[c.Law])
	if p := lawProgram(c); nontrivial(p, c.Times) {
		s.NonTrivial("laws", c.String())
		s.Class("laws/nontrivial")
	} else {
		s.Class("laws/trivial")
	}
	reportLaw(t, func(m string) { t.Skip(m) }, c, runLawAny(c))
}

// ---------------------------------------------------------------- directed table (runs first in both tiers)

func j(b int) *node               { return &node{Kind: kJust, V: vexpr{Var: -1, B: b}} }
func jx(a, b int) *node           { return &node{Kind: kJust, V: vexpr{Var: 0, A: a, B: b}} }
func nw(e, b, c int) *node        { return &node{Kind: kNew, Eff: e, V: vexpr{Var: -1, B: b, C: c}} }
func nx(e, a, b, c int) *node     { return &node{Kind: kNew, Eff: e, V: vexpr{Var: 0, A: a, B: b, C: c}} }
func fm(id int, m, f *node) *node { return &node{Kind: kFlat, Fid: id, M: m, F: f} }

// No defect of fpGo was found for C11; the table pins the shapes that the
// mutants under /verif/mutants/c11-*.patch break, over every handler layout.
var regressProgs = []*node{
	j(1),
	nw(0, 3, 1),
	fm(1, j(1), jx(1, 1)),
	fm(1, nw(0, 3, 1), nx(1, 2, 1, 7)),
	fm(2, fm(1, nw(0, 3, 1), nx(1, 2, 1, 7)), nx(0, -1, 4, 100)),
	fm(1, nw(0, 3, 1), fm(2, nx(1, 2, 1, 7), &node{Kind: kNew, Eff: 2, V: vexpr{Var: 1, A: 3, B: 1, C: 1}})),
}

var regressScripts = [][]step{
	{},
	{{Kind: sEval}, {Kind: sEval}},
	{{Kind: sSub}, {Kind: sSubNoNext}, {Kind: sSub}},
	{{Kind: sEval}, {Kind: sSub}, {Kind: sEval}, {Kind: sSubNoNext}, {Kind: sSub}},
}

func TestRegress(t *testing.T) {
	if vlib.Replaying() {
		t.Skip()
	}
	layouts := []struct{ ob, sub, c1, c2 int }{{0, 0, 0, 0}, {1, 0, 0, 0}, {0, 1, 0, 0}, {1, 1, 0, 0}, {1, 1, 4, 1}, {1, 2, 16, 0}}
	for _, p := range regressProgs {
		for si, scr := range regressScripts {
			for li, l := range layouts {
				sc := &scenario{Prog: p, Flavour: (si + li) % 3, Ob: l.ob, Sub: l.sub, Cap1: l.c1, Cap2: l.c2, SubFirs: li%2 == 1, Script: scr}
				if l.ob == 1 && len(scr) > 0 {
					sc.Script = append(append([]step(nil), scr...), step{Kind: sBurst, K: 3})
				}
				vlib.S().Eval("regress")
				if nontrivial(sc.Prog, sc.evaluations()) {
					vlib.S().NonTrivial("regress", sc.Prog.String())
				}
				r := runAny(sc)
				if r.key != "" {
					vlib.WriteReplay("C11/scenario", sc)
				}
				report(t, func(string) {}, sc, r)
			}
		}
	}
	for law := 0; law < 3; law++ {
		for times := 1; times <= 3; times++ {
			c := &lawCase{Law: law, X: 5, Times: times, Fl: times % 3,
				M: fm(1, nw(0, 3, 1), nx(1, 2, 1, 7)), F: nx(2, 3, 1, 1), G: fm(9, nx(3, -1, 2, 7), jx(2, 1))}
			vlib.S().Eval("regress")
			reportLaw(t, func(string) {}, c, runLawAny(c))
		}
	}
}

func TestReplayJSON(t *testing.T) {
	raw := vlib.ReplayCase("C11/scenario")
	if raw == nil {
		t.Skip("no replay case")
	}
	var sc scenario
	if err := json.Unmarshal(raw, &sc); err != nil || sc.Prog == nil {
		t.Fatalf("bad replay: %v", err)
	}
	r := runAny(&sc)
	if r.key != "" {
		t.Fatalf("[key=%s] replay %s: %s", r.key, &sc, r.msg)
	}
}

// ---------------------------------------------------------------- rapid entry points (after TestRegress)

func TestPrograms(t *testing.T) {
	if vlib.Replaying() && vlib.ReplayCase("C11/scenario") != nil {
		t.Skip()
	}
	vlib.Check(t, "programs", 10000, 100000, propScenario)
}

func TestLaws(t *testing.T) {
	if vlib.Replaying() && vlib.ReplayCase("C11/scenario") != nil {
		t.Skip()
	}
	vlib.Check(t, "laws", 6000, 60000, propLaw)
}
