package c11

import (
	"encoding/json"
	"fmt"
	"runtime"
	"strings"
	"sync"
	"sync/atomic"
	"testing"
	"time"

	fpgo "github.com/TeaEntityLab/fpGo/v2"
	"pgregory.net/rapid"

	"verifharness/vlib"
)

// ---------------------------------------------------------------------------
// Part "nil-values": chains over *int and interface{} whose intermediate values
// may be nil (untyped nil / typed nil pointer). Monad laws make no exception
// for nil: every FlatMap function runs, every effect runs once, in order.
// ---------------------------------------------------------------------------

type nilStage struct {
	IfNil    int `json:"ifNil"`    // output when the input is nil: 0 = nil, k>0 = pointer to k
	IfNonNil int `json:"ifNonNil"` // output when the input is non-nil
}

type nilCase struct {
	Iface  bool       `json:"iface"` // MonadIO[interface{}] instead of MonadIO[*int]
	Start  int        `json:"start"` // 0 = nil
	Stages []nilStage `json:"stages"`
	Evals  int        `json:"evals"`
	Sub    bool       `json:"sub"` // also Subscribe once
}

func (c nilCase) String() string {
	return fmt.Sprintf("iface=%v start=%d stages=%v evals=%d sub=%v", c.Iface, c.Start, c.Stages, c.Evals, c.Sub)
}

func runNilCase(c nilCase) (key, msg string) {
	consts := map[int]*int{}
	ptr := func(k int) *int {
		if k == 0 {
			return nil
		}
		if consts[k] == nil {
			v := k
			consts[k] = &v
		}
		return consts[k]
	}
	// reference
	wantVal := c.Start
	for _, s := range c.Stages {
		if wantVal == 0 {
			wantVal = s.IfNil
		} else {
			wantVal = s.IfNonNil
		}
	}
	var trace []int
	var wantTrace []int
	for i := 0; i <= len(c.Stages); i++ {
		wantTrace = append(wantTrace, i)
	}
	show := func(v int) string {
		if v == 0 {
			return "nil"
		}
		return fmt.Sprintf("&%d", v)
	}
	check := func(what string, got int) bool {
		if got != wantVal {
			key, msg = "C11/nil-values/value", fmt.Sprintf("%s yields %s, the monadic composition is %s", what, show(got), show(wantVal))
			return false
		}
		if fmt.Sprint(trace) != fmt.Sprint(wantTrace) {
			key, msg = "C11/nil-values/effects", fmt.Sprintf("%s ran effects %v, want each stage once in order %v", what, trace, wantTrace)
			return false
		}
		return true
	}
	p, st := vlib.Try(func() {
		if !c.Iface {
			m := fpgo.MonadIONewGenerics(func() *int { trace = append(trace, 0); return ptr(c.Start) })
			for i, s := range c.Stages {
				i, s := i, s
				m = m.FlatMap(func(x *int) *fpgo.MonadIODef[*int] {
					return fpgo.MonadIONewGenerics(func() *int {
						trace = append(trace, i+1)
						if x == nil {
							return ptr(s.IfNil)
						}
						return ptr(s.IfNonNil)
					})
				})
			}
			if len(trace) != 0 {
				key, msg = "C11/nil-values/lazy", "effects ran during composition"
				return
			}
			dec := func(p *int) int {
				if p == nil {
					return 0
				}
				return *p
			}
			for e := 0; e < c.Evals; e++ {
				trace = nil
				if !check(fmt.Sprintf("Eval #%d", e+1), dec(m.Eval())) {
					return
				}
			}
			if c.Sub {
				trace = nil
				n, got := 0, 0
				m.Subscribe(fpgo.Subscription[*int]{OnNext: func(p *int) { n++; got = dec(p) }})
				if n != 1 {
					key, msg = "C11/nil-values/onnext-count", fmt.Sprintf("OnNext called %d times", n)
					return
				}
				check("Subscribe", got)
			}
			return
		}
		box := func(k int) interface{} {
			if k == 0 {
				return nil
			}
			return k
		}
		m := fpgo.MonadIONewGenerics(func() interface{} { trace = append(trace, 0); return box(c.Start) })
		for i, s := range c.Stages {
			i, s := i, s
			m = m.FlatMap(func(x interface{}) *fpgo.MonadIODef[interface{}] {
				return fpgo.MonadIONewGenerics(func() interface{} {
					trace = append(trace, i+1)
					if x == nil {
						return box(s.IfNil)
					}
					return box(s.IfNonNil)
				})
			})
		}
		dec := func(v interface{}) int {
			if v == nil {
				return 0
			}
			return v.(int)
		}
		for e := 0; e < c.Evals; e++ {
			trace = nil
			if !check(fmt.Sprintf("Eval #%d", e+1), dec(m.Eval())) {
				return
			}
		}
		if c.Sub {
			trace = nil
			n, got := 0, 0
			m.Subscribe(fpgo.Subscription[interface{}]{OnNext: func(v interface{}) { n++; got = dec(v) }})
			if n != 1 {
				key, msg = "C11/nil-values/onnext-count", fmt.Sprintf("OnNext called %d times", n)
				return
			}
			check("Subscribe", got)
		}
	})
	if p != nil && key == "" {
		key, msg = "C11/nil-values/panic", fmt.Sprintf("%v\n%s", p, firstFrames(st))
	}
	return
}

func genNilCase(t *rapid.T) nilCase {
	c := nilCase{Iface: rapid.Bool().Draw(t, "iface"), Start: rapid.IntRange(0, 2).Draw(t, "start"),
		Evals: rapid.IntRange(0, 3).Draw(t, "evals"), Sub: rapid.Bool().Draw(t, "sub")}
	n := rapid.IntRange(1, 5).Draw(t, "stages")
	for i := 0; i < n; i++ {
		c.Stages = append(c.Stages, nilStage{IfNil: rapid.IntRange(0, 3).Draw(t, "ifNil"), IfNonNil: rapid.IntRange(0, 3).Draw(t, "ifNonNil") * 10})
	}
	if c.Evals == 0 && !c.Sub {
		c.Evals = 1
	}
	return c
}

// ---------------------------------------------------------------------------
// Part "reconfigure": a subscription made while the MonadIO is configured with
// ObserveOn(h1)/SubscribeOn(h2) runs its effect on h1 and its OnNext on h2, even
// if the (shared) MonadIO value is re-configured while that subscription is in
// flight (e.g. by Cor.YieldFromIO, which calls SubscribeOn(nil) on it).
// ---------------------------------------------------------------------------

type reconfCase struct {
	ObserveOn   bool `json:"observeOn"`   // h1 set (otherwise the effect runs inside Subscribe and nothing is in flight)
	SubscribeOn bool `json:"subscribeOn"` // h2 set
	NewSub      int  `json:"newSub"`      // 0 keep, 1 SubscribeOn(nil), 2 SubscribeOn(h3)
	NewOb       int  `json:"newOb"`       // 0 keep, 1 ObserveOn(nil), 2 ObserveOn(h4)
}

func handlerGoID(h *fpgo.HandlerDef) uint64 {
	ch := make(chan uint64, 1)
	h.Post(func() { ch <- vlib.GoID() })
	return <-ch
}

func runReconf(c reconfCase) (key, msg string, inconclusive bool) {
	hs := make([]*fpgo.HandlerDef, 4)
	ids := make([]uint64, 4)
	for i := range hs {
		hs[i] = fpgo.Handler.NewByCh(make(chan func(), 4))
		ids[i] = handlerGoID(hs[i])
	}
	defer func() {
		for _, h := range hs {
			h.Close()
		}
	}()
	gate := make(chan struct{})
	var mu sync.Mutex
	var effG, nextG uint64
	nexts := 0
	done := make(chan struct{})
	m := fpgo.MonadIONewGenerics(func() int {
		g := vlib.GoID()
		mu.Lock()
		effG = g
		mu.Unlock()
		<-gate
		return 7
	})
	if c.ObserveOn {
		m.ObserveOn(hs[0])
	}
	if c.SubscribeOn {
		m.SubscribeOn(hs[1])
	}
	subG := make(chan uint64, 1)
	go func() {
		subG <- vlib.GoID()
		m.Subscribe(fpgo.Subscription[int]{OnNext: func(v int) {
			g := vlib.GoID()
			mu.Lock()
			nextG = g
			nexts++
			mu.Unlock()
			close(done)
		}})
	}()
	callerG := <-subG
	// wait until the effect has started (it is now in flight, parked on the gate)
	if !vlib.WaitUntil(vlib.StallBudget(), func() bool { mu.Lock(); defer mu.Unlock(); return effG != 0 }) {
		close(gate)
		return "", "", true
	}
	switch c.NewSub {
	case 1:
		m.SubscribeOn(nil)
	case 2:
		m.SubscribeOn(hs[2])
	}
	switch c.NewOb {
	case 1:
		m.ObserveOn(nil)
	case 2:
		m.ObserveOn(hs[3])
	}
	close(gate)
	select {
	case <-done:
	case <-time.After(vlib.StallBudget()):
		return "", "", true
	}
	mu.Lock()
	defer mu.Unlock()
	wantEff := callerG
	if c.ObserveOn {
		wantEff = ids[0]
	}
	if effG != wantEff {
		return "C11/reconfigure/effect-goroutine", fmt.Sprintf("effect ran on goroutine %d, want %d (ObserveOn handler at Subscribe time)", effG, wantEff), false
	}
	if c.SubscribeOn && nextG != ids[1] {
		which := "another goroutine"
		for i, id := range ids {
			if id == nextG {
				which = fmt.Sprintf("handler h%d", i+1)
			}
		}
		return "C11/reconfigure/onnext-goroutine", fmt.Sprintf("the subscription was made with SubscribeOn(h2) but OnNext ran on %s after the MonadIO was re-configured in flight", which), false
	}
	if !c.SubscribeOn && nextG != effG {
		return "C11/reconfigure/onnext-goroutine", "without a SubscribeOn handler at Subscribe time OnNext must run where the effect ran", false
	}
	if nexts != 1 {
		return "C11/reconfigure/onnext-count", fmt.Sprintf("OnNext called %d times", nexts), false
	}
	return "", "", false
}

// ---------------------------------------------------------------------------

func TestExtraRegress(t *testing.T) {
	for _, c := range []nilCase{
		{Iface: true, Start: 0, Stages: []nilStage{{IfNil: 1, IfNonNil: 20}}, Evals: 1, Sub: true},
		{Iface: false, Start: 1, Stages: []nilStage{{IfNil: 1, IfNonNil: 0}, {IfNil: 2, IfNonNil: 30}, {IfNil: 0, IfNonNil: 10}}, Evals: 2, Sub: true},
	} {
		vlib.S().Eval("nil-values")
		vlib.S().NonTrivial("nil-values", c.String())
		if key, msg := runNilCase(c); key != "" {
			vlib.WriteReplay("C11/nil", c)
			vlib.Fail(t, key, "%v: %s", c, msg)
		}
	}
	for _, c := range []reconfCase{{ObserveOn: true, SubscribeOn: true, NewSub: 1}, {ObserveOn: true, SubscribeOn: true, NewSub: 2, NewOb: 2}, {ObserveOn: true, SubscribeOn: false, NewSub: 2}} {
		vlib.S().Eval("reconfigure")
		vlib.S().NonTrivial("reconfigure", fmt.Sprintf("%+v", c))
		key, msg, inc := runReconf(c)
		if inc {
			vlib.S().Note("reconfigure case inconclusive: %+v", c)
			continue
		}
		if key != "" {
			vlib.WriteReplay("C11/reconf", c)
			vlib.Fail(t, key, "%+v: %s", c, msg)
		}
	}
}

func TestExtraReplay(t *testing.T) {
	if raw := vlib.ReplayCase("C11/nil"); raw != nil {
		var c nilCase
		if err := json.Unmarshal(raw, &c); err != nil {
			t.Fatal(err)
		}
		if key, msg := runNilCase(c); key != "" {
			t.Fatalf("[key=%s] %s", key, msg)
		}
		return
	}
	if raw := vlib.ReplayCase("C11/reconf"); raw != nil {
		var c reconfCase
		if err := json.Unmarshal(raw, &c); err != nil {
			t.Fatal(err)
		}
		for i := 0; i < 20; i++ {
			if key, msg, _ := runReconf(c); key != "" {
				t.Fatalf("[key=%s] %s", key, msg)
			}
		}
		return
	}
	if raw := vlib.ReplayCase("C11/shared"); raw != nil {
		var c sharedCase
		if err := json.Unmarshal(raw, &c); err != nil {
			t.Fatal(err)
		}
		if key, msg := runShared(c); key != "" {
			t.Fatalf("[key=%s] %s", key, msg)
		}
		return
	}
	if raw := vlib.ReplayCase("C11/yieldIO"); raw != nil {
		var c yieldIOCase
		if err := json.Unmarshal(raw, &c); err != nil {
			t.Fatal(err)
		}
		for i := 0; i < 20; i++ {
			if key, msg, _ := runYieldIO(c); key != "" {
				t.Fatalf("[key=%s] %s", key, msg)
			}
		}
		return
	}
	t.Skip("no replay case")
}

func TestNilValues(t *testing.T) {
	if vlib.Replaying() {
		t.Skip()
	}
	vlib.Check(t, "nil-values", 4000, 40000, func(t *rapid.T) {
		c := genNilCase(t)
		vlib.S().Eval("nil-values")
		hasNil := c.Start == 0
		for _, s := range c.Stages[:len(c.Stages)-1] {
			if s.IfNil == 0 || s.IfNonNil == 0 {
				hasNil = true
			}
		}
		if hasNil && len(c.Stages) >= 2 {
			vlib.S().NonTrivial("nil-values", c.String())
		}
		if key, msg := runNilCase(c); key != "" {
			vlib.WriteReplay("C11/nil", c)
			if vlib.Fail(t, key, "%v: %s", c, msg) {
				t.Skip("known")
			}
		}
	})
}

func TestReconfigure(t *testing.T) {
	if vlib.Replaying() {
		t.Skip()
	}
	vlib.Check(t, "reconfigure", 150, 1500, func(t *rapid.T) {
		c := reconfCase{ObserveOn: rapid.IntRange(0, 3).Draw(t, "ob") > 0, SubscribeOn: rapid.Bool().Draw(t, "sub"),
			NewSub: rapid.IntRange(0, 2).Draw(t, "newSub"), NewOb: rapid.IntRange(0, 2).Draw(t, "newOb")}
		if !c.ObserveOn {
			// the effect runs inside Subscribe: nothing is in flight when the harness could re-configure
			c.NewSub, c.NewOb = 0, 0
		}
		vlib.S().Eval("reconfigure")
		if c.ObserveOn && (c.NewSub != 0 || c.NewOb != 0) {
			vlib.S().NonTrivial("reconfigure", strings.TrimSpace(fmt.Sprintf("%+v", c)))
		}
		key, msg, inc := runReconf(c)
		if inc {
			vlib.S().Class("reconfigure/inconclusive")
			return
		}
		if key != "" {
			vlib.WriteReplay("C11/reconf", c)
			if vlib.Fail(t, key, "%+v: %s", c, msg) {
				t.Skip("known")
			}
		}
	})
}

// ---------------------------------------------------------------------------
// Part "yieldFromIO": Cor.YieldFromIO consumes a MonadIO by subscribing to it, so an
// ObserveOn handler is honoured: the effect runs exactly once, on the handler's goroutine,
// and its value is what YieldFromIO returns.
// Part "simpleapi": the MonadIO returned by a SimpleAPI call is lazy: no serializer call and
// no request before evaluation; every Eval runs the serializer once and sends one request
// carrying that body.
// ---------------------------------------------------------------------------

type yieldIOCase struct {
	Handler bool `json:"handler"`
	Cap     int  `json:"cap"`
	Times   int  `json:"times"`
	Do      bool `json:"do"` // DoNotation instead of CorNewGenerics+Start
	// After: once the coroutine has finished (IsDone), the same handle evaluates the IO Times more times
	// from a plain goroutine: YieldFromIO is an evaluator of the IO and uses nothing of the coroutine
	After bool `json:"after"`
}

func runYieldIO(c yieldIOCase) (key, msg string, inconclusive bool) {
	h := fpgo.Handler.NewByCh(make(chan func(), c.Cap))
	defer h.Close()
	hid := handlerGoID(h)
	var mu sync.Mutex
	var effGs []uint64
	runs := 0
	m := fpgo.MonadIONewGenerics(func() int {
		g := vlib.GoID()
		mu.Lock()
		effGs = append(effGs, g)
		runs++
		n := runs
		mu.Unlock()
		return 100 + n
	})
	if c.Handler {
		m.ObserveOn(h)
	}
	var got []int
	var handle *fpgo.CorDef[int]
	body := func(self *fpgo.CorDef[int]) int {
		handle = self
		for i := 0; i < c.Times; i++ {
			got = append(got, self.YieldFromIO(m))
		}
		return 0
	}
	done := make(chan struct{})
	go func() {
		defer close(done)
		if c.Do {
			var f fpgo.CorDef[int]
			f.DoNotation(body)
		} else {
			fin := make(chan struct{})
			var co *fpgo.CorDef[int]
			co = fpgo.CorNewGenerics[int](func() { defer close(fin); body(co) })
			co.Start()
			<-fin
		}
		if c.After {
			if !vlib.WaitUntil(vlib.StallBudget(), handle.IsDone) {
				return
			}
			for i := 0; i < c.Times; i++ {
				got = append(got, handle.YieldFromIO(m))
			}
		}
	}()
	select {
	case <-done:
	case <-time.After(vlib.StallBudget()):
		return "", "", true
	}
	mu.Lock()
	defer mu.Unlock()
	calls := c.Times
	if c.After {
		calls *= 2
		if !handle.IsDone() {
			return "", "", true
		}
	}
	if runs != calls {
		return "C11/yieldFromIO/effect-count", fmt.Sprintf("%d YieldFromIO calls ran the effect %d times", calls, runs), false
	}
	for i, v := range got {
		if v != 101+i {
			return "C11/yieldFromIO/value", fmt.Sprintf("YieldFromIO #%d returned %d, the IO's value is %d", i+1, v, 101+i), false
		}
	}
	if c.Handler {
		for _, g := range effGs {
			if g != hid {
				return "C11/yieldFromIO/effect-goroutine", "YieldFromIO of a MonadIO with ObserveOn(h): the effect did not run on h's goroutine", false
			}
		}
	}
	return "", "", false
}

func TestYieldFromIO(t *testing.T) {
	if vlib.Replaying() {
		t.Skip()
	}
	vlib.Check(t, "yieldFromIO", 300, 3000, func(t *rapid.T) {
		c := yieldIOCase{Handler: rapid.IntRange(0, 3).Draw(t, "handler") > 0, Cap: rapid.SampledFrom([]int{0, 1, 4}).Draw(t, "cap"),
			Times: rapid.IntRange(1, 4).Draw(t, "times"), Do: rapid.Bool().Draw(t, "do"), After: rapid.IntRange(0, 2).Draw(t, "after") == 0}
		vlib.S().Eval("yieldFromIO")
		if c.Handler {
			vlib.S().NonTrivial("yieldFromIO", fmt.Sprintf("%+v", c))
		}
		key, msg, inc := runYieldIO(c)
		if inc {
			vlib.S().Class("yieldFromIO/inconclusive")
			return
		}
		if key != "" {
			vlib.WriteReplay("C11/yieldIO", c)
			if vlib.Fail(t, key, "%+v: %s", c, msg) {
				t.Skip("known")
			}
		}
	})
}

// ---------------------------------------------------------------------------
// Part "shared-prefix": a MonadIO value is immutable under composition: m.FlatMap(f) is a new
// MonadIO and leaves m as it was. One base is used as the prefix of several compositions (and is
// itself evaluated in between); every evaluation of every one of them yields its own value and
// runs exactly its own chain of effects.
// ---------------------------------------------------------------------------

type sharedCase struct {
	// Derive[i] = index of the MonadIO (0 = base, k = the k-th derived one) the i-th derived one extends
	Derive []int `json:"derive"`
	// Evals: indices of MonadIOs to evaluate, in order
	Evals []int `json:"evals"`
	Pre   bool  `json:"pre"` // the FlatMap functions return pre-built inner MonadIOs (reused on every evaluation)
}

func runShared(c sharedCase) (key, msg string) {
	var trace []string
	base := fpgo.MonadIONewGenerics(func() int { trace = append(trace, "e0"); return 1 })
	ios := []*fpgo.MonadIODef[int]{base}
	// reference: chain of stage ids per MonadIO
	chains := [][]int{{}}
	p, st := vlib.Try(func() {
		for i, from := range c.Derive {
			id := i + 1
			parent := ios[from]
			var pre *fpgo.MonadIODef[int]
			var preIn int
			if c.Pre {
				pre = fpgo.MonadIONewGenerics(func() int { trace = append(trace, fmt.Sprintf("e%d", id)); return preIn*10 + id })
			}
			d := parent.FlatMap(func(x int) *fpgo.MonadIODef[int] {
				if c.Pre {
					preIn = x
					return pre
				}
				return fpgo.MonadIONewGenerics(func() int { trace = append(trace, fmt.Sprintf("e%d", id)); return x*10 + id })
			})
			ios = append(ios, d)
			chains = append(chains, append(append([]int{}, chains[from]...), id))
		}
	})
	if p != nil {
		return "C11/shared-prefix/panic", fmt.Sprintf("%v\n%s", p, firstFrames(st))
	}
	if len(trace) != 0 {
		return "C11/shared-prefix/lazy", fmt.Sprintf("composition ran effects %v", trace)
	}
	for n, idx := range c.Evals {
		trace = nil
		var got int
		if p, st := vlib.Try(func() { got = ios[idx].Eval() }); p != nil {
			return "C11/shared-prefix/panic", fmt.Sprintf("%v\n%s", p, firstFrames(st))
		}
		want, wantTrace := 1, []string{"e0"}
		for _, id := range chains[idx] {
			want = want*10 + id
			wantTrace = append(wantTrace, fmt.Sprintf("e%d", id))
		}
		if got != want || fmt.Sprint(trace) != fmt.Sprint(wantTrace) {
			return "C11/shared-prefix", fmt.Sprintf("evaluation #%d of MonadIO %d (chain base%v): value %d effects %v, want value %d effects %v — composing from a shared prefix must not change the prefix or its other compositions", n+1, idx, chains[idx], got, trace, want, wantTrace)
		}
	}
	return "", ""
}

func TestSharedPrefix(t *testing.T) {
	if vlib.Replaying() {
		t.Skip()
	}
	vlib.Check(t, "shared-prefix", 3000, 30000, func(t *rapid.T) {
		var c sharedCase
		n := rapid.IntRange(1, 12).Draw(t, "derived")
		for i := 0; i < n; i++ {
			// mostly extend the newest one (deep prefixes), otherwise branch off an earlier one
			if rapid.IntRange(0, 2).Draw(t, "extend") > 0 {
				c.Derive = append(c.Derive, i)
			} else {
				c.Derive = append(c.Derive, rapid.IntRange(0, i).Draw(t, "from"))
			}
		}
		c.Evals = rapid.SliceOfN(rapid.IntRange(0, n), 1, 8).Draw(t, "evals")
		if rapid.Bool().Draw(t, "evalAll") {
			for i := 0; i <= n; i++ {
				c.Evals = append(c.Evals, i)
			}
		}
		c.Pre = rapid.Bool().Draw(t, "pre")
		vlib.S().Eval("shared-prefix")
		fan := map[int]int{}
		for _, f := range c.Derive {
			fan[f]++
		}
		shared := false
		for _, k := range fan {
			if k >= 2 {
				shared = true
			}
		}
		if shared && len(c.Evals) >= 2 {
			vlib.S().NonTrivial("shared-prefix", fmt.Sprintf("%+v", c))
		}
		if key, msg := runShared(c); key != "" {
			vlib.WriteReplay("C11/shared", c)
			if vlib.Fail(t, key, "%+v: %s", c, msg) {
				t.Skip("known")
			}
		}
	})
}

// Bounded-exhaustive shapes of the same part: a prefix chain of every depth 0..12, two or three
// sibling compositions built on it (optionally each extended once more), all evaluated in both orders.
func TestSharedPrefixTemplates(t *testing.T) {
	if vlib.Replaying() {
		t.Skip()
	}
	n := 0
	for depth := 0; depth <= 12; depth++ {
		for siblings := 2; siblings <= 3; siblings++ {
			for extend := 0; extend <= 1; extend++ {
				for order := 0; order <= 1; order++ {
					for pre := 0; pre <= 1; pre++ {
						var c sharedCase
						for i := 0; i < depth; i++ {
							c.Derive = append(c.Derive, i)
						}
						var leaves []int
						for k := 0; k < siblings; k++ {
							c.Derive = append(c.Derive, depth)
							leaves = append(leaves, len(c.Derive))
							if extend == 1 {
								c.Derive = append(c.Derive, len(c.Derive))
								leaves = append(leaves, len(c.Derive))
							}
						}
						if order == 1 {
							for i, j := 0, len(leaves)-1; i < j; i, j = i+1, j-1 {
								leaves[i], leaves[j] = leaves[j], leaves[i]
							}
						}
						c.Evals = append(append([]int{}, leaves...), depth)
						c.Evals = append(c.Evals, leaves...)
						c.Pre = pre == 1
						vlib.S().Eval("shared-prefix-templates")
						vlib.S().NonTrivial("shared-prefix-templates", fmt.Sprintf("%+v", c))
						n++
						if key, msg := runShared(c); key != "" {
							vlib.WriteReplay("C11/shared", c)
							if !vlib.Fail(t, key, "%+v: %s", c, msg) {
								return
							}
						}
					}
				}
			}
		}
	}
	_ = n
	vlib.S().Exhaustive("shared-prefix-templates")
}

// ---------------------------------------------------------------------------
// Part "fresh-handlers": "with ObserveOn(h1)/SubscribeOn(h2) the effect runs on h1's goroutine and
// OnNext on h2's" - a Handler has ONE goroutine, whoever uses it first. Several goroutines subscribe
// at the same moment to MonadIOs configured with the same, never used handlers (no probe runs on
// them first); afterwards a few subscriptions are made sequentially. All effects must have run on
// one goroutine, all OnNext calls on one (other) goroutine, never two at once, each exactly once.
// ---------------------------------------------------------------------------

type freshCase struct {
	Starters int  `json:"starters"`
	Probes   int  `json:"probes"`
	Cap1     int  `json:"cap1"`
	Cap2     int  `json:"cap2"`
	SubOn    bool `json:"subOn"`
}

func runFresh(c freshCase) (key, msg string, inconclusive bool) {
	h1, h2 := newHandler(c.Cap1), newHandler(c.Cap2)
	defer h1.Close()
	defer h2.Close()
	var mu sync.Mutex
	effG, nextG := map[uint64]int{}, map[uint64]int{}
	var inEff, inNext, overlapEff, overlapNext int32
	total := c.Starters + c.Probes
	done := make(chan struct{}, total)
	mk := func() *fpgo.MonadIODef[int] {
		m := fpgo.MonadIONewGenerics(func() int {
			if atomic.AddInt32(&inEff, 1) > 1 {
				atomic.StoreInt32(&overlapEff, 1)
			}
			g := vlib.GoID()
			runtime.Gosched()
			mu.Lock()
			effG[g]++
			mu.Unlock()
			atomic.AddInt32(&inEff, -1)
			return 1
		}).ObserveOn(h1)
		if c.SubOn {
			m.SubscribeOn(h2)
		}
		return m
	}
	sub := func(m *fpgo.MonadIODef[int]) {
		m.Subscribe(fpgo.Subscription[int]{OnNext: func(int) {
			if atomic.AddInt32(&inNext, 1) > 1 {
				atomic.StoreInt32(&overlapNext, 1)
			}
			g := vlib.GoID()
			mu.Lock()
			nextG[g]++
			mu.Unlock()
			atomic.AddInt32(&inNext, -1)
			done <- struct{}{}
		}})
	}
	wait := func(n int) bool {
		tm := time.After(vlib.StallBudget())
		for i := 0; i < n; i++ {
			select {
			case <-done:
			case <-tm:
				return false
			}
		}
		return true
	}
	var ready, goFlag int32
	fewCores := runtime.GOMAXPROCS(0) <= c.Starters
	for i := 0; i < c.Starters; i++ {
		m := mk()
		go func() {
			atomic.AddInt32(&ready, 1)
			for atomic.LoadInt32(&goFlag) == 0 {
				if fewCores {
					runtime.Gosched()
				}
			}
			sub(m)
		}()
	}
	for atomic.LoadInt32(&ready) < int32(c.Starters) {
		runtime.Gosched()
	}
	atomic.StoreInt32(&goFlag, 1)
	if !wait(c.Starters) {
		return "", "", true
	}
	for i := 0; i < c.Probes; i++ {
		sub(mk())
		if !wait(1) {
			return "", "", true
		}
	}
	mu.Lock()
	defer mu.Unlock()
	ne, nn := 0, 0
	for _, k := range effG {
		ne += k
	}
	for _, k := range nextG {
		nn += k
	}
	if ne != total || nn != total {
		return "C11/fresh-handlers/count", fmt.Sprintf("%d subscriptions: %d effect runs, %d OnNext calls", total, ne, nn), false
	}
	if len(effG) != 1 {
		return "C11/fresh-handlers/effect-goroutine", fmt.Sprintf("effects observed on ObserveOn(h1) ran on %d different goroutines %v: a handler has one goroutine", len(effG), effG), false
	}
	if c.SubOn && len(nextG) != 1 {
		return "C11/fresh-handlers/onnext-goroutine", fmt.Sprintf("OnNext with SubscribeOn(h2) ran on %d different goroutines %v", len(nextG), nextG), false
	}
	if c.SubOn {
		for g := range nextG {
			if effG[g] != 0 {
				return "C11/fresh-handlers/onnext-goroutine", "OnNext with SubscribeOn(h2) ran on h1's goroutine", false
			}
		}
	}
	if atomic.LoadInt32(&overlapEff) == 1 || (c.SubOn && atomic.LoadInt32(&overlapNext) == 1) {
		return "C11/fresh-handlers/overlap", "two effects (or two OnNext calls) posted to one handler ran at the same time", false
	}
	return "", "", false
}

func TestFreshHandlers(t *testing.T) {
	if vlib.Replaying() {
		if raw := vlib.ReplayCase("C11/fresh"); raw != nil {
			var c freshCase
			if err := json.Unmarshal(raw, &c); err != nil {
				t.Fatal(err)
			}
			for i := 0; i < 2000; i++ {
				if key, msg, _ := runFresh(c); key != "" {
					t.Fatalf("[key=%s] %s", key, msg)
				}
			}
		}
		return
	}
	vlib.Check(t, "fresh-handlers", 1500, 15000, func(t *rapid.T) {
		c := freshCase{
			Starters: rapid.IntRange(1, 6).Draw(t, "starters"),
			Probes:   rapid.IntRange(0, 4).Draw(t, "probes"),
			Cap1:     rapid.IntRange(0, 3).Draw(t, "cap1"),
			Cap2:     rapid.IntRange(0, 3).Draw(t, "cap2"),
			SubOn:    rapid.Bool().Draw(t, "subOn"),
		}
		vlib.S().Eval("fresh-handlers")
		if c.Starters >= 2 {
			vlib.S().NonTrivial("fresh-handlers", fmt.Sprintf("%+v", c))
		}
		key, msg, inc := runFresh(c)
		if inc {
			vlib.S().Class("fresh-handlers/inconclusive")
			return
		}
		if key != "" {
			vlib.WriteReplay("C11/fresh", c)
			if vlib.Fail(t, key, "%+v: %s", c, msg) {
				t.Skip("known")
			}
		}
	})
}
