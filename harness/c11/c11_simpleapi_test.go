package c11

import (
	"bytes"
	"errors"
	"fmt"
	"io"
	"net/http"
	"strings"
	"sync"
	"testing"

	"github.com/TeaEntityLab/fpGo/v2/network"
	"pgregory.net/rapid"

	"verifharness/vlib"
)

// Part "simpleapi": SimpleAPI returns its HTTP call as a MonadIO. Building it (calling the API
// function with its arguments) runs no user effect — neither the configured body serializer nor
// the transport; each Eval runs the whole chain once: one serializer call, one request carrying
// exactly that body.

type apiIOCase struct {
	Verb  int `json:"verb"` // 0 POST json, 1 PUT json, 2 PATCH json, 3 GET, 4 DELETE, 5 POST multipart, 6 PUT multipart, 7 PATCH multipart, 8 generic with body, 9 generic without body
	Evals int `json:"evals"`
	Build int `json:"build"` // how many MonadIOs are built from the same API function
	Body  int `json:"body"`
	// FailAt > 0: the FailAt-th request meets a transport error (that evaluation yields Err, the others
	// their own responses)
	FailAt int `json:"failAt,omitempty"`
}

type countRT struct {
	mu     sync.Mutex
	bodies []string
	failAt int
}

var errCountRT = errors.New("c11: injected transport failure")

func (c *countRT) RoundTrip(req *http.Request) (*http.Response, error) {
	// like net/http's transport: a request whose context is already done is not sent
	if err := req.Context().Err(); err != nil {
		return nil, err
	}
	b := ""
	if req.Body != nil {
		raw, _ := io.ReadAll(req.Body)
		req.Body.Close()
		b = string(raw)
	}
	c.mu.Lock()
	c.bodies = append(c.bodies, req.Method+" "+b)
	seq := len(c.bodies)
	c.mu.Unlock()
	if seq == c.failAt {
		return nil, errCountRT
	}
	return &http.Response{Status: "200 OK", StatusCode: 200, Proto: "HTTP/1.1", ProtoMajor: 1, ProtoMinor: 1,
		Header: http.Header{"X-Seq": {fmt.Sprint(seq)}}, Body: io.NopCloser(strings.NewReader(`{"ok":1}`)), ContentLength: -1, Request: req}, nil
}

func runAPIIO(c apiIOCase) (key, msg string) {
	rt := &countRT{failAt: c.FailAt}
	sh := network.NewSimpleHTTPWithClientAndInterceptors(&http.Client{Transport: rt})
	api := network.NewSimpleAPIWithSimpleHTTP("http://c11.test", sh)
	serCalls := 0
	api.RequestSerializerForJSON = func(body interface{}) (io.Reader, error) {
		serCalls++
		return bytes.NewReader([]byte(fmt.Sprintf(`{"b":%v,"call":%d}`, body, serCalls))), nil
	}
	api.RequestSerializerForMultipart = func(f *network.MultipartForm) (io.Reader, string, error) {
		serCalls++
		return bytes.NewReader([]byte(fmt.Sprintf(`{"b":%v,"call":%d}`, f.Value["b"][0], serCalls))), "multipart/x-test", nil
	}
	type resp = map[string]interface{}
	methods := []string{"POST", "PUT", "PATCH", "GET", "DELETE", "POST", "PUT", "PATCH", "OPTIONS", "HEAD"}
	form := &network.MultipartForm{Value: map[string][]string{"b": {fmt.Sprint(c.Body)}}}
	var ios []func() *network.APIResponse[resp]
	p, st := vlib.Try(func() {
		for b := 0; b < c.Build; b++ {
			tgt := &resp{}
			switch c.Verb {
			case 0:
				m := network.APIMakePostJSONBody[int, resp](api, "x")(nil, c.Body, tgt)
				ios = append(ios, m.Eval)
			case 1:
				m := network.APIMakePutJSONBody[int, resp](api, "x")(nil, c.Body, tgt)
				ios = append(ios, m.Eval)
			case 2:
				m := network.APIMakePatchJSONBody[int, resp](api, "x")(nil, c.Body, tgt)
				ios = append(ios, m.Eval)
			case 3:
				m := network.APIMakeGet[resp](api, "x")(nil, tgt)
				ios = append(ios, m.Eval)
			case 4:
				m := network.APIMakeDelete[resp](api, "x")(nil, tgt)
				ios = append(ios, m.Eval)
			case 5:
				m := network.APIMakePostMultipartBody[resp](api, "x")(nil, form, tgt)
				ios = append(ios, m.Eval)
			case 6:
				m := network.APIMakePutMultipartBody[resp](api, "x")(nil, form, tgt)
				ios = append(ios, m.Eval)
			case 7:
				m := network.APIMakePatchMultipartBody[resp](api, "x")(nil, form, tgt)
				ios = append(ios, m.Eval)
			case 8:
				m := network.APIMakeDoNewRequestWithBodySerializer[int, resp](api, "OPTIONS", "x", "application/json", api.RequestSerializerForJSON)(nil, c.Body, tgt)
				ios = append(ios, m.Eval)
			default:
				m := network.APIMakeDoNewRequest[resp](api, "HEAD", "x")(nil, tgt)
				ios = append(ios, m.Eval)
			}
		}
	})
	if p != nil {
		return "C11/simpleapi/panic", fmt.Sprintf("%v\n%s", p, firstFrames(st))
	}
	if serCalls != 0 || len(rt.bodies) != 0 {
		return "C11/simpleapi/not-lazy", fmt.Sprintf("building %d MonadIO(s) ran the serializer %d times and sent %d requests before any evaluation", c.Build, serCalls, len(rt.bodies))
	}
	hasBody := c.Verb <= 2 || (c.Verb >= 5 && c.Verb <= 8)
	n := 0
	// what every evaluation yielded, looked at again after all later evaluations: each Eval yields the value
	// of ITS evaluation
	type yielded struct {
		r      *network.APIResponse[resp]
		failed bool
		seq    string
	}
	var all []yielded
	defer func() {
		if key != "" {
			return
		}
		for j, y := range all {
			switch {
			case y.failed && y.r.Err == nil:
				key, msg = "C11/simpleapi/value-changed", fmt.Sprintf("evaluation %d yielded a response with Err set; after %d more evaluations the same response says Err == nil", j+1, len(all)-j-1)
			case !y.failed && (y.r.Err != nil || y.r.Response == nil || y.r.Response.Header.Get("X-Seq") != y.seq):
				got := "nil"
				if y.r.Response != nil {
					got = y.r.Response.Header.Get("X-Seq")
				}
				key, msg = "C11/simpleapi/value-changed", fmt.Sprintf("evaluation %d yielded the response to request #%s; after %d more evaluations the value it yielded shows Err=%v and the response to request #%s", j+1, y.seq, len(all)-j-1, y.r.Err, got)
			}
			if key != "" {
				return
			}
		}
	}()
	for e := 0; e < c.Evals; e++ {
		for i, ev := range ios {
			var r *network.APIResponse[resp]
			if p, st := vlib.Try(func() { r = ev() }); p != nil {
				return "C11/simpleapi/panic", fmt.Sprintf("%v\n%s", p, firstFrames(st))
			}
			n++
			if r == nil {
				return "C11/simpleapi/err", fmt.Sprintf("evaluation %d of MonadIO %d yielded nil", e+1, i)
			}
			err := r.Err
			if n == c.FailAt {
				if !errors.Is(err, errCountRT) {
					return "C11/simpleapi/err", fmt.Sprintf("evaluation %d met a transport failure, Err = %v", n, err)
				}
				all = append(all, yielded{r: r, failed: true})
			} else {
				if err != nil {
					return "C11/simpleapi/err", fmt.Sprintf("evaluation %d of MonadIO %d failed: %v", e+1, i, err)
				}
				if r.Response == nil || r.Response.Header.Get("X-Seq") != fmt.Sprint(n) {
					return "C11/simpleapi/value", fmt.Sprintf("evaluation %d does not yield the response to its own request (#%d)", n, n)
				}
				all = append(all, yielded{r: r, seq: fmt.Sprint(n)})
			}
			wantSer := 0
			if hasBody {
				wantSer = n
			}
			if serCalls != wantSer || len(rt.bodies) != n {
				return "C11/simpleapi/once-per-eval", fmt.Sprintf("after %d evaluations: serializer ran %d times (want %d), %d requests sent (want %d)", n, serCalls, wantSer, len(rt.bodies), n)
			}
			want := methods[c.Verb] + " "
			if hasBody {
				want += fmt.Sprintf(`{"b":%d,"call":%d}`, c.Body, n)
			}
			if got := rt.bodies[n-1]; got != want {
				return "C11/simpleapi/body", fmt.Sprintf("evaluation %d sent %q, want %q (the serializer's output of this evaluation)", n, got, want)
			}
		}
	}
	return "", ""
}

func TestSimpleAPIMonadIO(t *testing.T) {
	if vlib.Replaying() {
		t.Skip()
	}
	vlib.Check(t, "simpleapi", 1500, 15000, func(t *rapid.T) {
		c := apiIOCase{Verb: rapid.IntRange(0, 9).Draw(t, "verb"), Evals: rapid.IntRange(0, 3).Draw(t, "evals"),
			Build: rapid.IntRange(1, 3).Draw(t, "build"), Body: rapid.IntRange(0, 99).Draw(t, "body")}
		if c.Evals*c.Build >= 2 && rapid.Bool().Draw(t, "fails") {
			c.FailAt = rapid.IntRange(1, c.Evals*c.Build).Draw(t, "failAt")
		}
		vlib.S().Eval("simpleapi")
		if c.Evals >= 2 {
			vlib.S().NonTrivial("simpleapi", fmt.Sprintf("%+v", c))
		}
		if key, msg := runAPIIO(c); key != "" {
			vlib.WriteReplay("C11/apiio", c)
			if vlib.Fail(t, key, "%+v: %s", c, msg) {
				t.Skip("known")
			}
		}
	})
}
