package c15

import (
	"fmt"
	"sync/atomic"
	"testing"
	"time"

	fpgo "github.com/TeaEntityLab/fpGo/v2"

	"verifharness/vlib"
)

// Part "cor-asker-completes": the completion that races a YieldFrom can also be the ASKER's: a
// long-lived server coroutine answers requests; in every round a fresh asker coroutine is started whose
// effect returns after a short, varying spin while another goroutine is inside asker.YieldFrom(server, x).
// The server's reply then meets an asker that is finishing at that moment. Nobody may panic (the
// server's effect - harness code calling YieldRef - recovers and records what reaches it), the YieldFrom
// returns, the server keeps serving.

func TestCorAskerCompletes(t *testing.T) {
	if vlib.Replaying() {
		t.Skip()
	}
	rounds := vlib.Pick(40000, 400000)
	var serverPanic atomic.Value
	var served int64
	var server *fpgo.CorDef[int]
	stop := int32(0)
	server = fpgo.CorNewGenerics[int](func() {
		defer func() {
			if r := recover(); r != nil {
				serverPanic.Store(fmt.Sprintf("%v\n%s", r, vlib.AllStacks()))
			}
		}()
		for atomic.LoadInt32(&stop) == 0 {
			server.YieldRef(int(atomic.AddInt64(&served, 1)))
		}
	})
	server.Start()
	var sink int64
	for r := 0; r < rounds; r++ {
		vlib.S().Eval("cor-asker-completes")
		spin := r % 512
		var begin int32
		var asker *fpgo.CorDef[int]
		asker = fpgo.CorNewGenerics[int](func() {
			for atomic.LoadInt32(&begin) == 0 {
			}
			local := 0
			for i := 0; i < spin; i++ {
				local += i
			}
			atomic.AddInt64(&sink, int64(local))
		})
		asker.Start()
		ret := make(chan interface{}, 1)
		go func() {
			atomic.StoreInt32(&begin, 1)
			p, st := vlib.Try(func() { asker.YieldFrom(server, r) })
			if p != nil {
				ret <- fmt.Sprintf("%v\n%s", p, st)
				return
			}
			ret <- nil
		}()
		select {
		case p := <-ret:
			if p != nil {
				vlib.Fail(t, "C15/cor-asker-completes/panic", "round %d: YieldFrom panicked while its own coroutine was completing: %v", r, p)
				return
			}
		case <-time.After(vlib.StallBudget()):
			if sp := serverPanic.Load(); sp != nil {
				vlib.Fail(t, "C15/cor-asker-completes/panic", "round %d: the serving coroutine panicked while replying to an asker that was completing: %v", r, sp)
			} else {
				verdict, dump := vlib.ClassifyStall([]string{"YieldFrom"})
				if verdict == "blocked" {
					vlib.Fail(t, "C15/cor-asker-completes/stuck", "round %d: YieldFrom of a completing asker never returned:\n%s", r, dump)
				} else {
					vlib.S().Note("cor-asker-completes: slow round %d (%s)", r, verdict)
				}
			}
			return
		}
		if sp := serverPanic.Load(); sp != nil {
			vlib.Fail(t, "C15/cor-asker-completes/panic", "round %d: the serving coroutine panicked while replying to an asker that was completing: %v", r, sp)
			return
		}
		if r%97 == 0 {
			vlib.S().NonTrivial("cor-asker-completes", fmt.Sprintf("spin=%d", spin))
		}
	}
	atomic.StoreInt32(&stop, 1)
	_ = atomic.LoadInt64(&sink)
}
