package c15

import (
	"encoding/json"
	"fmt"
	"sync"
	"sync/atomic"
	"testing"
	"time"

	fpgo "github.com/TeaEntityLab/fpGo/v2"
	"github.com/TeaEntityLab/fpGo/v2/worker"
	"pgregory.net/rapid"

	"verifharness/vlib"
)

// Part "self-close": the "one closing goroutine" may be the object's own: a function posted to a Handler
// closes that Handler, an actor's effect closes the actor (self.Close()), a job closes the pool it runs
// on - while 0..3 other goroutines keep using the object. The Close call returns (no deadlock), nobody
// panics, and work submitted after it returned does not run.

type selfCloseCase struct {
	Kind   int  `json:"kind"`   // 0 Handler, 1 Actor, 2 WorkerPool
	Cap    int  `json:"cap"`    // channel capacity (-1: the default constructor)
	At     int  `json:"at"`     // the At-th submitted piece of work closes
	Users  int  `json:"users"`  // concurrent submitters
	Each   int  `json:"each"`   // submissions per user
	QClose bool `json:"qclose"` // pool: job queue closed with the pool
}

func (c selfCloseCase) String() string { b, _ := json.Marshal(c); return string(b) }

func runSelfClose(c selfCloseCase) (key, msg string) {
	var closeReturned int32
	returned := make(chan struct{})
	var panicMu sync.Mutex
	panicMsg := ""
	notePanic := func(where string, p interface{}, st string) {
		panicMu.Lock()
		if panicMsg == "" {
			panicMsg = fmt.Sprintf("%s: %v\n%s", where, p, st)
		}
		panicMu.Unlock()
	}
	var ranLate int32 // callbacks of work submitted after the close had returned
	var submit func(fn func())
	var closeIt func()
	var cleanup func()
	switch c.Kind {
	case 0:
		var h *fpgo.HandlerDef
		if c.Cap < 0 {
			h = fpgo.Handler.New()
		} else {
			h = fpgo.Handler.NewByCh(make(chan func(), c.Cap))
		}
		submit = func(fn func()) { h.Post(fn) }
		closeIt = h.Close
		cleanup = func() {}
	case 1:
		effect := func(_ *fpgo.ActorDef[interface{}], m interface{}) { m.(func())() }
		var a *fpgo.ActorDef[interface{}]
		if c.Cap < 0 {
			a = fpgo.Actor.New(effect)
		} else {
			a = fpgo.Actor.NewByOptions(effect, make(chan interface{}, c.Cap), map[string]interface{}{})
		}
		submit = func(fn func()) { a.Send(fn) }
		closeIt = a.Close
		cleanup = func() {}
	case 2:
		capacity := c.Cap
		if capacity < 1 {
			capacity = 1
		}
		q := fpgo.NewBufferedChannelQueue[func()](capacity, 64, 100).SetLoadFromPoolDuration(20 * time.Microsecond)
		pool := worker.NewDefaultWorkerPool(q, nil).SetWorkerSizeMaximum(3).SetWorkerSizeStandBy(2).SetWorkerBatchSize(1).
			SetSpawnWorkerDuration(100 * time.Microsecond).SetIsJobQueueClosedWhenClose(c.QClose)
		pool.SetPanicHandler(func(p interface{}) { notePanic("the pool's panic handler was invoked", p, "") })
		submit = func(fn func()) { pool.Schedule(fn) }
		closeIt = pool.Close
		cleanup = func() {
			if !c.QClose {
				q.Close()
			}
		}
	}
	defer cleanup()
	var seq int32
	work := func() func() {
		late := atomic.LoadInt32(&closeReturned) == 1
		n := int(atomic.AddInt32(&seq, 1))
		return func() {
			if late {
				atomic.AddInt32(&ranLate, 1)
			}
			if n == c.At {
				if p, st := vlib.Try(closeIt); p != nil {
					notePanic("Close() called from the object's own callback panicked", p, st)
				}
				atomic.StoreInt32(&closeReturned, 1)
				close(returned)
			}
		}
	}
	var wg sync.WaitGroup
	for u := 0; u <= c.Users; u++ {
		wg.Add(1)
		go func() {
			defer wg.Done()
			for i := 0; i < c.Each; i++ {
				w := work()
				if p, st := vlib.Try(func() { submit(w) }); p != nil {
					notePanic("a submitter panicked", p, st)
				}
			}
		}()
	}
	users := make(chan struct{})
	go func() { wg.Wait(); close(users) }()
	select {
	case <-returned:
	case <-time.After(vlib.StallBudget()):
		if int(atomic.LoadInt32(&seq)) < c.At {
			return "", "" // the closing work was never created (submitters stuck elsewhere: not this part)
		}
		verdict, dump := vlib.ClassifyStall([]string{"c15.runSelfClose"})
		if verdict != "blocked" {
			return "", ""
		}
		return "C15/self-close/deadlock", fmt.Sprintf("Close() called from the object's own callback did not return within %v:\n%s", vlib.StallBudget(), dump)
	}
	select {
	case <-users:
	case <-time.After(vlib.StallBudget()):
		verdict, dump := vlib.ClassifyStall([]string{"c15.runSelfClose"})
		if verdict == "blocked" {
			return "C15/self-close/deadlock", fmt.Sprintf("submitters still blocked %v after the self-close returned:\n%s", vlib.StallBudget(), dump)
		}
		return "", ""
	}
	// after the close: submissions are dropped, nothing of them runs
	for i := 0; i < 3; i++ {
		w := work()
		if p, st := vlib.Try(func() { submit(w) }); p != nil {
			notePanic("a submission after the close panicked", p, st)
		}
	}
	time.Sleep(200 * time.Microsecond)
	panicMu.Lock()
	defer panicMu.Unlock()
	if panicMsg != "" {
		return "C15/self-close/panic", panicMsg
	}
	if n := atomic.LoadInt32(&ranLate); n > 0 {
		return "C15/self-close/ran-after-close", fmt.Sprintf("%d callbacks ran for work submitted after the Close (made from the object's own callback) had returned", n)
	}
	return "", ""
}

func TestSelfClose(t *testing.T) {
	if vlib.Replaying() {
		t.Skip()
	}
	vlib.Check(t, "self-close", 300, 6000, func(t *rapid.T) {
		c := selfCloseCase{Kind: rapid.IntRange(0, 2).Draw(t, "kind"), Cap: rapid.SampledFrom([]int{-1, 0, 1, 4}).Draw(t, "cap"),
			Users: rapid.IntRange(0, 3).Draw(t, "users"), Each: rapid.IntRange(1, 6).Draw(t, "each"), QClose: rapid.Bool().Draw(t, "qclose")}
		c.At = rapid.IntRange(1, c.Each).Draw(t, "at")
		vlib.S().Eval("self-close")
		vlib.S().NonTrivial("self-close", c.String())
		if key, msg := runSelfClose(c); key != "" {
			vlib.WriteReplay("C15/selfclose", c)
			if vlib.Fail(t, key, "%v: %s", c, msg) {
				t.Skip("known")
			}
		}
	})
}

func TestSelfCloseReplay(t *testing.T) {
	raw := vlib.ReplayCase("C15/selfclose")
	if raw == nil {
		t.Skip("no replay case")
	}
	var c selfCloseCase
	if err := json.Unmarshal(raw, &c); err != nil {
		t.Fatal(err)
	}
	for i := 0; i < 20; i++ {
		if key, msg := runSelfClose(c); key != "" {
			t.Fatalf("[key=%s] %s", key, msg)
		}
	}
}

// Part "born-closed": the package's default actor (fpgo.Actor / GetDefault()) reports IsClosed() == true
// without ever having been open. It is a closed actor like any other: "calls that begin after the close ...
// are silently dropped where the API has no error result", "without deadlock" - Send returns, an Ask towards
// it ends with its time-out.
func TestBornClosed(t *testing.T) {
	if vlib.Replaying() {
		t.Skip()
	}
	vlib.S().Eval("born-closed")
	a := fpgo.Actor.GetDefault()
	if a == nil || !a.IsClosed() {
		vlib.S().Note("born-closed: the default actor is not reported closed; nothing to check")
		return
	}
	vlib.S().NonTrivial("born-closed", "default actor: Send, AskOnceWithTimeout, AskChannel")
	for _, step := range []struct {
		name string
		fn   func() string
	}{
		{"Send", func() string { a.Send(1); return "" }},
		{"AskOnceWithTimeout", func() string {
			v, err := fpgo.AskNewGenerics[interface{}, int](1).AskOnceWithTimeout(a, 20*time.Millisecond)
			if err != fpgo.ErrActorAskTimeout {
				return fmt.Sprintf("returned (%d, %v), want ErrActorAskTimeout", v, err)
			}
			return ""
		}},
		{"AskChannel", func() string { fpgo.AskNewGenerics[interface{}, int](2).AskChannel(a); return "" }},
	} {
		done := make(chan string, 1)
		go func() {
			p, st := vlib.Try(func() { done <- step.fn() })
			if p != nil {
				done <- fmt.Sprintf("panicked: %v\n%s", p, st)
			}
		}()
		select {
		case m := <-done:
			if m != "" {
				vlib.Fail(t, "C15/born-closed", "%s towards the default (closed) actor %s", step.name, m)
				return
			}
		case <-time.After(vlib.StallBudget()):
			vlib.Fail(t, "C15/born-closed/deadlock", "%s towards the default actor (IsClosed() == true) does not return:\n%s", step.name, vlib.AllStacks())
			return
		}
	}
}
